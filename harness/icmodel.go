package main

// icmodel: the inode cache under transactions (fstxn.Begin / GetInodeInum / in-place edits / inode.WriteInode / Commit /
// Abort), several transactions open at once and interleaved by this driver, against the extracted IC
// (Model/IcacheModel.v).  Values are whole encoded inodes.  After every operation the committed encoding of each inode
// (through the journal) and the encoding of its cached copy, if any, are written out; the model driver replays the same
// operations and compares both.  An inode is only locked when no other open transaction holds it (the real call would
// block), and a transaction only commits after it has logged every inode it edited (the model's guard).

import (
	"bufio"
	"encoding/hex"
	"flag"
	"fmt"
	"math/rand"
	"os"
	"sort"

	"github.com/mit-pdos/go-journal/common"
	"github.com/mit-pdos/go-nfsd/fstxn"
	"github.com/mit-pdos/go-nfsd/inode"
	"github.com/mit-pdos/go-nfsd/nfs"
	"github.com/mit-pdos/go-nfsd/nfstypes"
)

func runIcModel(seed int64, nops int, out string) {
	f, _ := os.Create(out)
	defer f.Close()
	w := bufio.NewWriterSize(f, 1<<20)
	defer w.Flush()
	rng := rand.New(rand.NewSource(seed))
	d := NewSDisk(3000)
	srv := nfs.MakeNfs(d)
	defer srv.ShutdownNfs()
	root := (&Runner{}).resolve("root")
	inums := []uint64{}
	for i := 0; i < 5; i++ {
		r := Exec(srv, Op{Proc: "create", Name: fmt.Sprintf("f%d", i)}, root, nil)
		if r.Code == 0 {
			inums = append(inums, uint64(2+i))
		}
	}
	// a restart empties the inode cache: the run starts from "nothing cached"
	srv.ShutdownNfs()
	srv = nfs.MakeNfs(d)
	st := srv.VerifState()
	diskVal := func(i uint64) string {
		b := st.Txn.Load(st.Super.Inum2Addr(common.Inum(i)), common.INODESZ*8)
		return hex.EncodeToString(b.Data)
	}
	dump := func() {
		ents := st.Icache.VerifEntries()
		fmt.Fprintf(w, "IS")
		for _, i := range inums {
			c := "-"
			if o, ok := ents[i]; ok {
				if ip, ok := o.(*inode.Inode); ok && ip != nil {
					c = hex.EncodeToString(ip.Encode())
				}
			}
			fmt.Fprintf(w, " %d %s %s", i, diskVal(i), c)
		}
		fmt.Fprintln(w)
	}
	fmt.Fprintf(w, "II %d\n", len(inums))
	dump()
	type txn struct {
		op    *fstxn.FsTxn
		held  map[uint64]*inode.Inode
		dirty map[uint64]bool
	}
	open := map[int]*txn{}
	owner := map[uint64]int{}
	nextT := 0
	keys := func() []int {
		var k []int
		for t := range open {
			k = append(k, t)
		}
		sort.Ints(k)
		return k
	}
	for n := 0; n < nops; n++ {
		ks := keys()
		c := rng.Intn(12)
		switch {
		case len(ks) == 0 || (c == 0 && len(ks) < 3):
			t := nextT
			nextT++
			open[t] = &txn{op: fstxn.Begin(st), held: map[uint64]*inode.Inode{}, dirty: map[uint64]bool{}}
			fmt.Fprintf(w, "IO begin %d\n", t)
		case c <= 3:
			t := ks[rng.Intn(len(ks))]
			i := inums[rng.Intn(len(inums))]
			if _, taken := owner[i]; taken {
				fmt.Fprintf(w, "IO nop\n")
				break
			}
			ip := open[t].op.GetInodeInum(common.Inum(i))
			if ip == nil {
				fmt.Fprintf(w, "IX lock-failed %d\n", i)
				return
			}
			open[t].held[i] = ip
			owner[i] = t
			fmt.Fprintf(w, "IO lock %d %d\n", t, i)
		case c <= 6:
			t := ks[rng.Intn(len(ks))]
			var hs []uint64
			for i := range open[t].held {
				hs = append(hs, i)
			}
			if len(hs) == 0 {
				fmt.Fprintf(w, "IO nop\n")
				break
			}
			sort.Slice(hs, func(a, b int) bool { return hs[a] < hs[b] })
			i := hs[rng.Intn(len(hs))]
			ip := open[t].held[i]
			ip.Size = uint64(rng.Intn(4000)) // an in-place edit of the cached inode
			ip.Mtime.Nseconds = nfstypes.Uint32(rng.Uint32())
			open[t].dirty[i] = true
			fmt.Fprintf(w, "IO mod %d %d %s\n", t, i, hex.EncodeToString(ip.Encode()))
		case c <= 8:
			t := ks[rng.Intn(len(ks))]
			var hs []uint64
			for i := range open[t].held {
				hs = append(hs, i)
			}
			if len(hs) == 0 {
				fmt.Fprintf(w, "IO nop\n")
				break
			}
			sort.Slice(hs, func(a, b int) bool { return hs[a] < hs[b] })
			i := hs[rng.Intn(len(hs))]
			open[t].held[i].WriteInode(open[t].op.Atxn)
			delete(open[t].dirty, i)
			fmt.Fprintf(w, "IO write %d %d\n", t, i)
		case c <= 10:
			t := ks[rng.Intn(len(ks))]
			x := open[t]
			// the discipline of inode/*.go: every edited inode is logged before the commit
			var ds []uint64
			for i := range x.dirty {
				ds = append(ds, i)
			}
			sort.Slice(ds, func(a, b int) bool { return ds[a] < ds[b] })
			for _, i := range ds {
				x.held[i].WriteInode(x.op.Atxn)
				fmt.Fprintf(w, "IO write %d %d\n", t, i)
				dump()
			}
			if !x.op.Commit() {
				fmt.Fprintf(w, "IX commit-refused\n")
				return
			}
			for i := range x.held {
				delete(owner, i)
			}
			delete(open, t)
			fmt.Fprintf(w, "IO commit %d\n", t)
		default:
			t := ks[rng.Intn(len(ks))]
			x := open[t]
			x.op.Abort()
			for i := range x.held {
				delete(owner, i)
			}
			delete(open, t)
			fmt.Fprintf(w, "IO abort %d\n", t)
		}
		dump()
	}
	for _, t := range keys() {
		open[t].op.Abort()
	}
	fmt.Fprintf(w, "IE %d\n", nops)
}

func init() {
	extraCmds["icmodel"] = func(args []string) {
		fs := flag.NewFlagSet("icmodel", flag.ExitOnError)
		seed := fs.Int64("seed", 1, "")
		nops := fs.Int("nops", 300, "")
		out := fs.String("out", "/dev/stdout", "")
		fs.Parse(args)
		runIcModel(*seed, *nops, *out)
	}
}
