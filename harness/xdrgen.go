package main

import (
	"bufio"
	"encoding/hex"
	"flag"
	"fmt"
	"math/rand"
	"os"
	"reflect"

	"github.com/zeldovich/go-rpcgen/xdr"
)

// xdr: random values of every codec type, encoded by the repository's codec; cross-decoded by the
// independent rfc1813 package; plus truncated / corrupted encodings offered to the decoder.

func fillRandom(rng *rand.Rand, v reflect.Value, depth int) {
	switch v.Kind() {
	case reflect.Bool:
		v.SetBool(rng.Intn(2) == 0)
	case reflect.Uint32:
		switch rng.Intn(4) {
		case 0:
			v.SetUint(uint64(rng.Intn(3))) // small values select union arms
		case 1:
			v.SetUint(uint64(rng.Intn(8)))
		case 2:
			v.SetUint(uint64(rng.Uint32()))
		default:
			v.SetUint([]uint64{0, 1, 2, 5, 70, 10004, 1<<32 - 1}[rng.Intn(7)])
		}
	case reflect.Uint64:
		if rng.Intn(2) == 0 {
			v.SetUint(rng.Uint64())
		} else {
			v.SetUint([]uint64{0, 1, 4096, 1<<32 - 1, 1 << 32, 1<<64 - 1}[rng.Intn(6)])
		}
	case reflect.Int32:
		v.SetInt(int64(int32(rng.Uint32())))
	case reflect.Int64:
		v.SetInt(int64(rng.Uint64()))
	case reflect.String:
		n := []int{0, 1, 3, 4, 5, 11, 12}[rng.Intn(7)]
		b := make([]byte, n)
		for i := range b {
			b[i] = byte(1 + rng.Intn(255))
		}
		v.SetString(string(b))
	case reflect.Slice:
		if v.Type().Elem().Kind() == reflect.Uint8 {
			n := []int{0, 1, 3, 4, 5, 16, 63, 64}[rng.Intn(8)]
			b := make([]byte, n)
			rng.Read(b)
			v.SetBytes(b)
		} else {
			n := rng.Intn(4)
			s := reflect.MakeSlice(v.Type(), n, n)
			for i := 0; i < n; i++ {
				fillRandom(rng, s.Index(i), depth+1)
			}
			v.Set(s)
		}
	case reflect.Array:
		for i := 0; i < v.Len(); i++ {
			v.Index(i).SetUint(uint64(rng.Intn(256)))
		}
	case reflect.Ptr:
		if depth > 4 || rng.Intn(3) == 0 {
			v.Set(reflect.Zero(v.Type()))
		} else {
			p := reflect.New(v.Type().Elem())
			fillRandom(rng, p.Elem(), depth+1)
			v.Set(p)
		}
	case reflect.Struct:
		for i := 0; i < v.NumField(); i++ {
			if v.Field(i).CanSet() {
				fillRandom(rng, v.Field(i), depth+1)
			}
		}
		// createhow3 is the one union without a default arm: only its three modes are values of the type
		if v.Type().Name() == "Createhow3" {
			m := v.FieldByName("Mode")
			m.SetUint(m.Uint() % 3)
		}
	}
}

func runXdr(seed int64, n int, out string) {
	f, _ := os.Create(out)
	defer f.Close()
	w := bufio.NewWriterSize(f, 1<<20)
	defer w.Flush()
	rng := rand.New(rand.NewSource(seed))
	for _, tp := range xdrTypes {
		for i := 0; i < n; i++ {
			val := tp.mk()
			fillRandom(rng, reflect.ValueOf(val).Elem(), 0)
			b, err := xdr.EncodeBuf(val)
			if err != nil {
				fmt.Fprintf(w, "XE %s %v\n", tp.name, err)
				continue
			}
			// the independent codec generated from the RFC must read the same bytes into the same value
			ref := tp.ref()
			rerr := xdr.DecodeBuf(b, ref)
			var b2 []byte
			if rerr == nil {
				b2, rerr = xdr.EncodeBuf(ref)
			}
			refs := "referr"
			if rerr == nil {
				refs = hex.EncodeToString(b2)
				if len(b2) == 0 {
					refs = "-"
				}
			}
			fmt.Fprintf(w, "X %s %s %s\n", tp.name, hexs(b), refs)
			// malformed: truncation, a flipped byte, an inflated length word
			for k := 0; k < 3 && len(b) > 0; k++ {
				m := make([]byte, len(b))
				copy(m, b)
				switch k {
				case 0:
					m = m[:rng.Intn(len(m))]
				case 1:
					m[rng.Intn(len(m))] ^= byte(1 << uint(rng.Intn(8)))
				case 2:
					p := rng.Intn(len(m)/4+1) * 4
					if p+4 <= len(m) {
						m[p], m[p+1] = 0x7f, 0xff
					}
				}
				d := tp.mk()
				derr := xdr.DecodeBuf(m, d)
				res := "err"
				re := "-"
				if derr == nil {
					res = "ok"
					if bb, e := xdr.EncodeBuf(d); e == nil {
						re = hexs(bb)
					} else {
						re = "encerr"
					}
				}
				fmt.Fprintf(w, "Y %s %s %s %s\n", tp.name, hexs(m), res, re)
			}
		}
	}
	k := n / 8
	if k < 2 {
		k = 2
	}
	runXdrWrappers(w, rng, k)
}

func init() {
	extraCmds["xdr"] = func(args []string) {
		fs := flag.NewFlagSet("xdr", flag.ExitOnError)
		seed := fs.Int64("seed", 1, "")
		n := fs.Int("n", 20, "")
		out := fs.String("out", "xdr.trace", "")
		fs.Parse(args)
		runXdr(*seed, *n, *out)
	}
}
