package main

import (
	"bufio"
	"encoding/hex"
	"fmt"
	"strconv"
	"strings"

	"github.com/mit-pdos/go-journal/addr"
	"github.com/mit-pdos/go-nfsd/nfs"
	"github.com/mit-pdos/go-nfsd/nfstypes"
)

// An operation against the server.  Handles are symbolic so that a sequence
// stays meaningful when operations are removed while shrinking:
//
//	"root"      the root handle
//	"@<id>"     the handle returned by operation <id> (0 bytes if none)
//	"x<hex>"    literal bytes
type Op struct {
	Id       int
	Proc     string
	H, H2    string
	Name     string
	Name2    string
	Off, Cnt uint64
	HasSize  bool
	Size     uint64
	At, Mt   TimeSpec
	Stable   uint32
	Data     DataSpec
	Mode     uint32
	Cookie   uint64
	Count    uint64
	Dircount uint64
	Maxcount uint64
}

type TimeSpec struct {
	How       int // 0 don't change, 1 server, 2 client
	Sec, Nsec uint32
}

// DataSpec: pattern (len, seed) or literal
type DataSpec struct {
	Lit  []byte
	Len  uint64
	Seed uint64
	Pat  bool
}

func (d DataSpec) Bytes() []byte {
	if !d.Pat {
		return d.Lit
	}
	b := make([]byte, d.Len)
	for i := range b {
		b[i] = byte((d.Seed*31+uint64(i)*7+uint64(i)/251)%255 + 1)
	}
	return b
}

func (d DataSpec) String() string {
	if d.Pat {
		return fmt.Sprintf("p:%d:%d", d.Len, d.Seed)
	}
	return "h:" + hexs(d.Lit)
}

func parseData(s string) DataSpec {
	if strings.HasPrefix(s, "p:") {
		f := strings.Split(s, ":")
		l, _ := strconv.ParseUint(f[1], 10, 64)
		sd, _ := strconv.ParseUint(f[2], 10, 64)
		return DataSpec{Pat: true, Len: l, Seed: sd}
	}
	return DataSpec{Lit: unhex(s[2:])}
}

func hexs(b []byte) string {
	if len(b) == 0 {
		return "-"
	}
	return hex.EncodeToString(b)
}

func unhex(s string) []byte {
	if s == "-" || s == "" {
		return []byte{}
	}
	b, err := hex.DecodeString(s)
	if err != nil {
		panic(err)
	}
	return b
}

func (t TimeSpec) String() string {
	switch t.How {
	case 0:
		return "d"
	case 1:
		return "s"
	}
	return fmt.Sprintf("c:%d:%d", t.Sec, t.Nsec)
}

func parseTime(s string) TimeSpec {
	if s == "d" {
		return TimeSpec{}
	}
	if s == "s" {
		return TimeSpec{How: 1}
	}
	f := strings.Split(s, ":")
	a, _ := strconv.ParseUint(f[1], 10, 32)
	b, _ := strconv.ParseUint(f[2], 10, 32)
	return TimeSpec{How: 2, Sec: uint32(a), Nsec: uint32(b)}
}

// Serialisation of an op in symbolic form (corpus / replay files).
func (o Op) Sym() string {
	n := func(s string) string { return hexs([]byte(s)) }
	switch o.Proc {
	case "getattr", "access", "readlink", "fsinfo", "pathconf":
		return fmt.Sprintf("%d %s %s", o.Id, o.Proc, o.H)
	case "setattr":
		sz := "-"
		if o.HasSize {
			sz = fmt.Sprint(o.Size)
		}
		return fmt.Sprintf("%d setattr %s %s %s %s", o.Id, o.H, sz, o.At, o.Mt)
	case "lookup", "mkdir", "remove", "rmdir":
		return fmt.Sprintf("%d %s %s %s", o.Id, o.Proc, o.H, n(o.Name))
	case "create":
		return fmt.Sprintf("%d create %s %s %d", o.Id, o.H, n(o.Name), o.Mode)
	case "symlink":
		return fmt.Sprintf("%d symlink %s %s %s", o.Id, o.H, n(o.Name), o.Data)
	case "read", "commit":
		return fmt.Sprintf("%d %s %s %d %d", o.Id, o.Proc, o.H, o.Off, o.Cnt)
	case "write":
		return fmt.Sprintf("%d write %s %d %d %d %s", o.Id, o.H, o.Off, o.Cnt, o.Stable, o.Data)
	case "rename":
		return fmt.Sprintf("%d rename %s %s %s %s", o.Id, o.H, n(o.Name), o.H2, n(o.Name2))
	case "readdir":
		return fmt.Sprintf("%d readdir %s %d %d", o.Id, o.H, o.Cookie, o.Count)
	case "readdirplus":
		return fmt.Sprintf("%d readdirplus %s %d %d %d", o.Id, o.H, o.Cookie, o.Dircount, o.Maxcount)
	case "enum":
		return fmt.Sprintf("%d enum %s %d %d %d %d %d", o.Id, o.H, o.Mode, o.Count, o.Dircount, o.Maxcount, o.Stable)
	case "mount":
		return fmt.Sprintf("%d mount %d x%s", o.Id, o.Mode, n(o.Name))
	}
	// mknod link fsstat null restart crash unstable:<0|1> sync
	return fmt.Sprintf("%d %s", o.Id, o.Proc)
}

func ParseOp(line string) (Op, error) {
	f := strings.Fields(line)
	if len(f) < 2 {
		return Op{}, fmt.Errorf("short op line %q", line)
	}
	id, err := strconv.Atoi(f[0])
	if err != nil {
		return Op{}, err
	}
	o := Op{Id: id, Proc: f[1]}
	u := func(i int) uint64 {
		if i >= len(f) {
			return 0
		}
		v, _ := strconv.ParseUint(f[i], 10, 64)
		return v
	}
	s := func(i int) string {
		if i >= len(f) {
			return "-"
		}
		return f[i]
	}
	nm := func(i int) string { return string(unhex(s(i))) }
	switch o.Proc {
	case "getattr", "access", "readlink", "fsinfo", "pathconf":
		o.H = s(2)
	case "setattr":
		o.H = s(2)
		if s(3) != "-" {
			o.HasSize = true
			o.Size = u(3)
		}
		o.At = parseTime(s(4))
		o.Mt = parseTime(s(5))
	case "lookup", "mkdir", "remove", "rmdir":
		o.H = s(2)
		o.Name = nm(3)
	case "mount":
		o.Mode = uint32(u(2))
		o.Name = string(unhex(strings.TrimPrefix(s(3), "x")))
	case "create":
		o.H = s(2)
		o.Name = nm(3)
		o.Mode = uint32(u(4))
	case "symlink":
		o.H = s(2)
		o.Name = nm(3)
		o.Data = parseData(s(4))
	case "read", "commit":
		o.H = s(2)
		o.Off = u(3)
		o.Cnt = u(4)
	case "write":
		o.H = s(2)
		o.Off = u(3)
		o.Cnt = u(4)
		o.Stable = uint32(u(5))
		o.Data = parseData(s(6))
	case "rename":
		o.H = s(2)
		o.Name = nm(3)
		o.H2 = s(4)
		o.Name2 = nm(5)
	case "readdir":
		o.H = s(2)
		o.Cookie = u(3)
		o.Count = u(4)
	case "readdirplus":
		o.H = s(2)
		o.Cookie = u(3)
		o.Dircount = u(4)
		o.Maxcount = u(5)
	case "enum":
		o.H = s(2)
		o.Mode = uint32(u(3))
		o.Count = u(4)
		o.Dircount = u(5)
		o.Maxcount = u(6)
		o.Stable = uint32(u(7))
	}
	return o, nil
}

// ---------------------------------------------------------------------------

type OAttr struct {
	Ftype, Nlink   uint32
	Size, Fileid   uint64
	As, An, Ms, Mn uint32
}

func mkOAttr(a nfstypes.Fattr3) OAttr {
	return OAttr{Ftype: uint32(a.Ftype), Nlink: uint32(a.Nlink), Size: uint64(a.Size), Fileid: uint64(a.Fileid),
		As: uint32(a.Atime.Seconds), An: uint32(a.Atime.Nseconds), Ms: uint32(a.Mtime.Seconds), Mn: uint32(a.Mtime.Nseconds)}
}

func (a OAttr) String() string {
	return fmt.Sprintf("%d:%d:%d:%d:%d:%d:%d:%d", a.Ftype, a.Size, a.Fileid, a.As, a.An, a.Ms, a.Mn, a.Nlink)
}

type DirEnt struct {
	Fileid uint64
	Name   string
	Cookie uint64
	Plus   bool
	H      []byte
	A      OAttr
}

type Reply struct {
	Kind      string // st attrs handle data written link dir fsinfo pathconf
	Code      uint32
	A         OAttr
	H         []byte
	Data      []byte
	Eof       bool
	Cnt       uint64
	Committed uint32
	Verf      []byte
	Ents      []DirEnt
	Wtmax     uint64
	Maxfs     uint64
	Rtmax     uint64
	Namemax   uint64
	Wtpref    uint64
}

func (r Reply) Line() string {
	switch r.Kind {
	case "attrs":
		return fmt.Sprintf("R attrs %d %s", r.Code, r.A)
	case "handle":
		return fmt.Sprintf("R handle %d %s %s", r.Code, hexs(r.H), r.A)
	case "data":
		return fmt.Sprintf("R data %d %s %d", r.Code, hexs(r.Data), b2i(r.Eof))
	case "written":
		return fmt.Sprintf("R written %d %d %d %s %s", r.Code, r.Cnt, r.Committed, hexs(r.Verf), r.A)
	case "link":
		return fmt.Sprintf("R link %d %s", r.Code, hexs(r.Data))
	case "dir":
		var sb strings.Builder
		fmt.Fprintf(&sb, "R dir %d %d %d", r.Code, b2i(r.Eof), len(r.Ents))
		for _, e := range r.Ents {
			p := "-"
			if e.Plus {
				p = hexs(e.H) + "," + e.A.String()
			}
			fmt.Fprintf(&sb, " %d %s %d %s", e.Fileid, hexs([]byte(e.Name)), e.Cookie, p)
		}
		return sb.String()
	case "fsinfo":
		return fmt.Sprintf("R fsinfo %d %d %d %d %d", r.Code, r.Wtmax, r.Maxfs, r.Rtmax, r.Wtpref)
	case "pathconf":
		return fmt.Sprintf("R pathconf %d %d", r.Code, r.Namemax)
	case "commit":
		return fmt.Sprintf("R commit %d %s", r.Code, hexs(r.Verf))
	}
	return fmt.Sprintf("R st %d", r.Code)
}

func b2i(b bool) int {
	if b {
		return 1
	}
	return 0
}

func st(code nfstypes.Nfsstat3) Reply { return Reply{Kind: "st", Code: uint32(code)} }

// ---------------------------------------------------------------------------

// NfsAPI is the procedure set shared by the direct server and the RPC client.
type NfsAPI interface {
	NFSPROC3_GETATTR(nfstypes.GETATTR3args) nfstypes.GETATTR3res
	NFSPROC3_SETATTR(nfstypes.SETATTR3args) nfstypes.SETATTR3res
	NFSPROC3_LOOKUP(nfstypes.LOOKUP3args) nfstypes.LOOKUP3res
	NFSPROC3_ACCESS(nfstypes.ACCESS3args) nfstypes.ACCESS3res
	NFSPROC3_READLINK(nfstypes.READLINK3args) nfstypes.READLINK3res
	NFSPROC3_READ(nfstypes.READ3args) nfstypes.READ3res
	NFSPROC3_WRITE(nfstypes.WRITE3args) nfstypes.WRITE3res
	NFSPROC3_CREATE(nfstypes.CREATE3args) nfstypes.CREATE3res
	NFSPROC3_MKDIR(nfstypes.MKDIR3args) nfstypes.MKDIR3res
	NFSPROC3_SYMLINK(nfstypes.SYMLINK3args) nfstypes.SYMLINK3res
	NFSPROC3_MKNOD(nfstypes.MKNOD3args) nfstypes.MKNOD3res
	NFSPROC3_REMOVE(nfstypes.REMOVE3args) nfstypes.REMOVE3res
	NFSPROC3_RMDIR(nfstypes.RMDIR3args) nfstypes.RMDIR3res
	NFSPROC3_RENAME(nfstypes.RENAME3args) nfstypes.RENAME3res
	NFSPROC3_LINK(nfstypes.LINK3args) nfstypes.LINK3res
	NFSPROC3_READDIR(nfstypes.READDIR3args) nfstypes.READDIR3res
	NFSPROC3_READDIRPLUS(nfstypes.READDIRPLUS3args) nfstypes.READDIRPLUS3res
	NFSPROC3_FSSTAT(nfstypes.FSSTAT3args) nfstypes.FSSTAT3res
	NFSPROC3_FSINFO(nfstypes.FSINFO3args) nfstypes.FSINFO3res
	NFSPROC3_PATHCONF(nfstypes.PATHCONF3args) nfstypes.PATHCONF3res
	NFSPROC3_COMMIT(nfstypes.COMMIT3args) nfstypes.COMMIT3res
}

var _ NfsAPI = (*nfs.Nfs)(nil)

func fh3(b []byte) nfstypes.Nfs_fh3 { return nfstypes.Nfs_fh3{Data: b} }

func setTime(t TimeSpec) (nfstypes.Time_how, nfstypes.Nfstime3) {
	switch t.How {
	case 1:
		return nfstypes.SET_TO_SERVER_TIME, nfstypes.Nfstime3{}
	case 2:
		return nfstypes.SET_TO_CLIENT_TIME, nfstypes.Nfstime3{Seconds: nfstypes.Uint32(t.Sec), Nseconds: nfstypes.Uint32(t.Nsec)}
	}
	return nfstypes.DONT_CHANGE, nfstypes.Nfstime3{}
}

// Exec runs one NFS procedure with concrete handles.
func Exec(api NfsAPI, o Op, h, h2 []byte) Reply {
	switch o.Proc {
	case "getattr":
		r := api.NFSPROC3_GETATTR(nfstypes.GETATTR3args{Object: fh3(h)})
		if r.Status != 0 {
			return st(r.Status)
		}
		return Reply{Kind: "attrs", A: mkOAttr(r.Resok.Obj_attributes)}
	case "setattr":
		var a nfstypes.SETATTR3args
		a.Object = fh3(h)
		if o.HasSize {
			a.New_attributes.Size.Set_it = true
			a.New_attributes.Size.Size = nfstypes.Size3(o.Size)
		}
		a.New_attributes.Atime.Set_it, a.New_attributes.Atime.Atime = setTime(o.At)
		a.New_attributes.Mtime.Set_it, a.New_attributes.Mtime.Mtime = setTime(o.Mt)
		r := api.NFSPROC3_SETATTR(a)
		if r.Status != 0 {
			return st(r.Status)
		}
		return Reply{Kind: "attrs", A: mkOAttr(r.Resok.Obj_wcc.After.Attributes)}
	case "lookup":
		r := api.NFSPROC3_LOOKUP(nfstypes.LOOKUP3args{What: nfstypes.Diropargs3{Dir: fh3(h), Name: nfstypes.Filename3(o.Name)}})
		if r.Status != 0 {
			return st(r.Status)
		}
		return Reply{Kind: "handle", H: r.Resok.Object.Data, A: mkOAttr(r.Resok.Obj_attributes.Attributes)}
	case "access":
		r := api.NFSPROC3_ACCESS(nfstypes.ACCESS3args{Object: fh3(h), Access: 0x3f})
		return st(r.Status)
	case "readlink":
		r := api.NFSPROC3_READLINK(nfstypes.READLINK3args{Symlink: fh3(h)})
		if r.Status != 0 {
			return st(r.Status)
		}
		return Reply{Kind: "link", Data: []byte(r.Resok.Data)}
	case "read":
		r := api.NFSPROC3_READ(nfstypes.READ3args{File: fh3(h), Offset: nfstypes.Offset3(o.Off), Count: nfstypes.Count3(o.Cnt)})
		if r.Status != 0 {
			return st(r.Status)
		}
		return Reply{Kind: "data", Data: r.Resok.Data, Eof: r.Resok.Eof, Cnt: uint64(r.Resok.Count)}
	case "write":
		r := api.NFSPROC3_WRITE(nfstypes.WRITE3args{File: fh3(h), Offset: nfstypes.Offset3(o.Off), Count: nfstypes.Count3(o.Cnt),
			Stable: nfstypes.Stable_how(o.Stable), Data: o.Data.Bytes()})
		if r.Status != 0 {
			return st(r.Status)
		}
		return Reply{Kind: "written", Cnt: uint64(r.Resok.Count), Committed: uint32(r.Resok.Committed), Verf: r.Resok.Verf[:],
			A: mkOAttr(r.Resok.File_wcc.After.Attributes)}
	case "create":
		r := api.NFSPROC3_CREATE(nfstypes.CREATE3args{Where: nfstypes.Diropargs3{Dir: fh3(h), Name: nfstypes.Filename3(o.Name)},
			How: nfstypes.Createhow3{Mode: nfstypes.Createmode3(o.Mode)}})
		if r.Status != 0 {
			return st(r.Status)
		}
		return Reply{Kind: "handle", H: r.Resok.Obj.Handle.Data, A: mkOAttr(r.Resok.Obj_attributes.Attributes)}
	case "mkdir":
		r := api.NFSPROC3_MKDIR(nfstypes.MKDIR3args{Where: nfstypes.Diropargs3{Dir: fh3(h), Name: nfstypes.Filename3(o.Name)}})
		if r.Status != 0 {
			return st(r.Status)
		}
		return Reply{Kind: "handle", H: r.Resok.Obj.Handle.Data, A: mkOAttr(r.Resok.Obj_attributes.Attributes)}
	case "symlink":
		r := api.NFSPROC3_SYMLINK(nfstypes.SYMLINK3args{Where: nfstypes.Diropargs3{Dir: fh3(h), Name: nfstypes.Filename3(o.Name)},
			Symlink: nfstypes.Symlinkdata3{Symlink_data: nfstypes.Nfspath3(o.Data.Bytes())}})
		if r.Status != 0 {
			return st(r.Status)
		}
		return Reply{Kind: "handle", H: r.Resok.Obj.Handle.Data, A: mkOAttr(r.Resok.Obj_attributes.Attributes)}
	case "mknod":
		return st(api.NFSPROC3_MKNOD(nfstypes.MKNOD3args{Where: nfstypes.Diropargs3{Dir: fh3(h), Name: "n"}}).Status)
	case "link":
		return st(api.NFSPROC3_LINK(nfstypes.LINK3args{File: fh3(h), Link: nfstypes.Diropargs3{Dir: fh3(h), Name: "l"}}).Status)
	case "fsstat":
		return st(api.NFSPROC3_FSSTAT(nfstypes.FSSTAT3args{Fsroot: fh3(h)}).Status)
	case "remove":
		return st(api.NFSPROC3_REMOVE(nfstypes.REMOVE3args{Object: nfstypes.Diropargs3{Dir: fh3(h), Name: nfstypes.Filename3(o.Name)}}).Status)
	case "rmdir":
		return st(api.NFSPROC3_RMDIR(nfstypes.RMDIR3args{Object: nfstypes.Diropargs3{Dir: fh3(h), Name: nfstypes.Filename3(o.Name)}}).Status)
	case "rename":
		return st(api.NFSPROC3_RENAME(nfstypes.RENAME3args{From: nfstypes.Diropargs3{Dir: fh3(h), Name: nfstypes.Filename3(o.Name)},
			To: nfstypes.Diropargs3{Dir: fh3(h2), Name: nfstypes.Filename3(o.Name2)}}).Status)
	case "readdir":
		r := api.NFSPROC3_READDIR(nfstypes.READDIR3args{Dir: fh3(h), Cookie: nfstypes.Cookie3(o.Cookie), Count: nfstypes.Count3(o.Count)})
		if r.Status != 0 {
			return st(r.Status)
		}
		rep := Reply{Kind: "dir", Eof: r.Resok.Reply.Eof}
		for e := r.Resok.Reply.Entries; e != nil; e = e.Nextentry {
			rep.Ents = append(rep.Ents, DirEnt{Fileid: uint64(e.Fileid), Name: string(e.Name), Cookie: uint64(e.Cookie)})
		}
		return rep
	case "readdirplus":
		r := api.NFSPROC3_READDIRPLUS(nfstypes.READDIRPLUS3args{Dir: fh3(h), Cookie: nfstypes.Cookie3(o.Cookie),
			Dircount: nfstypes.Count3(o.Dircount), Maxcount: nfstypes.Count3(o.Maxcount)})
		if r.Status != 0 {
			return st(r.Status)
		}
		rep := Reply{Kind: "dir", Eof: r.Resok.Reply.Eof}
		for e := r.Resok.Reply.Entries; e != nil; e = e.Nextentry {
			rep.Ents = append(rep.Ents, DirEnt{Fileid: uint64(e.Fileid), Name: string(e.Name), Cookie: uint64(e.Cookie),
				Plus: e.Name_handle.Handle_follows && e.Name_attributes.Attributes_follow,
				H:    e.Name_handle.Handle.Data, A: mkOAttr(e.Name_attributes.Attributes)})
		}
		return rep
	case "fsinfo":
		r := api.NFSPROC3_FSINFO(nfstypes.FSINFO3args{Fsroot: fh3(h)})
		if r.Status != 0 {
			return st(r.Status)
		}
		return Reply{Kind: "fsinfo", Wtmax: uint64(r.Resok.Wtmax), Maxfs: uint64(r.Resok.Maxfilesize), Rtmax: uint64(r.Resok.Rtmax), Wtpref: uint64(r.Resok.Wtpref)}
	case "pathconf":
		r := api.NFSPROC3_PATHCONF(nfstypes.PATHCONF3args{Object: fh3(h)})
		if r.Status != 0 {
			return st(r.Status)
		}
		return Reply{Kind: "pathconf", Namemax: uint64(r.Resok.Name_max)}
	case "commit":
		r := api.NFSPROC3_COMMIT(nfstypes.COMMIT3args{File: fh3(h), Offset: nfstypes.Offset3(o.Off), Count: nfstypes.Count3(o.Cnt)})
		if r.Status != 0 {
			return st(r.Status)
		}
		return Reply{Kind: "commit", Verf: r.Resok.Verf[:]}
	}
	panic("unknown proc " + o.Proc)
}

// CallLine renders the call with concrete handle bytes for the model driver.
func CallLine(o Op, h, h2 []byte) string {
	n := func(s string) string { return hexs([]byte(s)) }
	switch o.Proc {
	case "getattr", "access", "readlink", "fsinfo", "pathconf":
		return fmt.Sprintf("C %d %s %s", o.Id, o.Proc, hexs(h))
	case "setattr":
		sz := "-"
		if o.HasSize {
			sz = fmt.Sprint(o.Size)
		}
		return fmt.Sprintf("C %d setattr %s %s %s %s", o.Id, hexs(h), sz, o.At, o.Mt)
	case "lookup", "mkdir", "remove", "rmdir":
		return fmt.Sprintf("C %d %s %s %s", o.Id, o.Proc, hexs(h), n(o.Name))
	case "create":
		return fmt.Sprintf("C %d create %s %s %d", o.Id, hexs(h), n(o.Name), o.Mode)
	case "symlink":
		return fmt.Sprintf("C %d symlink %s %s %s", o.Id, hexs(h), n(o.Name), hexs(o.Data.Bytes()))
	case "read", "commit":
		return fmt.Sprintf("C %d %s %s %d %d", o.Id, o.Proc, hexs(h), o.Off, o.Cnt)
	case "write":
		return fmt.Sprintf("C %d write %s %d %d %d %s", o.Id, hexs(h), o.Off, o.Cnt, o.Stable, hexs(o.Data.Bytes()))
	case "rename":
		return fmt.Sprintf("C %d rename %s %s %s %s", o.Id, hexs(h), n(o.Name), hexs(h2), n(o.Name2))
	case "readdir":
		return fmt.Sprintf("C %d readdir %s %d %d", o.Id, hexs(h), o.Cookie, o.Count)
	case "readdirplus":
		return fmt.Sprintf("C %d readdirplus %s %d %d %d", o.Id, hexs(h), o.Cookie, o.Dircount, o.Maxcount)
	}
	return fmt.Sprintf("C %d %s", o.Id, o.Proc)
}

// ---------------------------------------------------------------------------

// Dumper emits the logical disk (home blocks overlaid with the journal) as
// changed-block lines.
type Dumper struct {
	prev map[uint64][]byte
}

func NewDumper() *Dumper { return &Dumper{prev: make(map[uint64][]byte)} }

func isZero(b []byte) bool {
	for _, x := range b {
		if x != 0 {
			return false
		}
	}
	return true
}

func eqBytes(a, b []byte) bool {
	if len(a) != len(b) {
		return false
	}
	for i := range a {
		if a[i] != b[i] {
			return false
		}
	}
	return true
}

// read returns the logical contents of block a.
func (du *Dumper) Dump(w *bufio.Writer, lo, hi uint64, read func(a uint64) []byte) int {
	n := 0
	for a := lo; a < hi; a++ {
		b := read(a)
		p, had := du.prev[a]
		if isZero(b) {
			if had {
				delete(du.prev, a)
				fmt.Fprintf(w, "D %d z\n", a)
				n++
			}
			continue
		}
		if had && eqBytes(p, b) {
			continue
		}
		c := make([]byte, len(b))
		copy(c, b)
		du.prev[a] = c
		fmt.Fprintf(w, "D %d %s\n", a, hex.EncodeToString(b))
		n++
	}
	return n
}

func logicalReader(srv *nfs.Nfs) func(a uint64) []byte {
	st := srv.VerifState()
	return func(a uint64) []byte {
		return st.Txn.Load(addr.MkAddr(a, 0), 4096*8).Data
	}
}
