module verif/harness

go 1.22

require (
	github.com/mit-pdos/go-journal v0.5.4
	github.com/mit-pdos/go-nfsd v0.0.0
	github.com/zeldovich/go-rpcgen v0.1.5
)

require (
	github.com/goose-lang/goose v0.7.1 // indirect
	github.com/goose-lang/primitive v0.1.0 // indirect
	github.com/goose-lang/std v0.4.1 // indirect
	github.com/rodaine/table v1.2.0 // indirect
	github.com/tchajed/marshal v0.6.2 // indirect
	golang.org/x/sys v0.22.0 // indirect
)

replace github.com/mit-pdos/go-nfsd => /repo
