package main

import (
	"sync"
)

// Sparse, optionally recording implementation of disk.Disk.
// Crash model: a Write is atomic per block; Barrier makes everything written
// before it durable; writes after the last barrier may be lost in any subset.

type Event struct {
	Barrier bool
	A       uint64
	Data    []byte
}

type SDisk struct {
	mu     sync.Mutex
	blocks map[uint64][]byte
	size   uint64
	rec    bool
	events []Event
	frozen bool // after a simulated power cut: writes are dropped
	// SlowRead, when set, is called (outside the lock) before a block is read: schedule noise around disk reads
	SlowRead func(a uint64)
}

func NewSDisk(size uint64) *SDisk {
	return &SDisk{blocks: make(map[uint64][]byte), size: size}
}

func (d *SDisk) ReadTo(a uint64, b []byte) {
	if f := d.SlowRead; f != nil {
		f(a)
	}
	d.mu.Lock()
	defer d.mu.Unlock()
	if a >= d.size {
		panic("out-of-bounds read")
	}
	if blk, ok := d.blocks[a]; ok {
		copy(b, blk)
	} else {
		for i := range b {
			b[i] = 0
		}
	}
}

func (d *SDisk) Read(a uint64) []byte {
	b := make([]byte, 4096)
	d.ReadTo(a, b)
	return b
}

func (d *SDisk) Write(a uint64, v []byte) {
	d.mu.Lock()
	defer d.mu.Unlock()
	if a >= d.size {
		panic("out-of-bounds write")
	}
	if len(v) != 4096 {
		panic("short write")
	}
	if d.frozen {
		return
	}
	c := make([]byte, 4096)
	copy(c, v)
	d.blocks[a] = c
	if d.rec {
		d.events = append(d.events, Event{A: a, Data: c})
	}
}

func (d *SDisk) Size() uint64 { return d.size }

func (d *SDisk) Barrier() {
	d.mu.Lock()
	defer d.mu.Unlock()
	if d.rec && !d.frozen {
		d.events = append(d.events, Event{Barrier: true})
	}
}

func (d *SDisk) Close() {}

func (d *SDisk) Record(on bool) {
	d.mu.Lock()
	d.rec = on
	d.mu.Unlock()
}

// StartRecording atomically snapshots the contents and starts the event list.
func (d *SDisk) StartRecording() *SDisk {
	d.mu.Lock()
	defer d.mu.Unlock()
	n := NewSDisk(d.size)
	for a, b := range d.blocks {
		n.blocks[a] = b
	}
	d.rec = true
	d.events = nil
	return n
}

func (d *SDisk) NEvents() int {
	d.mu.Lock()
	defer d.mu.Unlock()
	return len(d.events)
}

func (d *SDisk) Freeze() {
	d.mu.Lock()
	d.frozen = true
	d.mu.Unlock()
}

// Clone returns an independent copy of the current contents (not recording).
func (d *SDisk) Clone() *SDisk {
	d.mu.Lock()
	defer d.mu.Unlock()
	n := NewSDisk(d.size)
	for a, b := range d.blocks {
		n.blocks[a] = b // blocks are never mutated in place
	}
	return n
}

// Snapshot of the event list (shares block data, which is immutable).
func (d *SDisk) Events() []Event {
	d.mu.Lock()
	defer d.mu.Unlock()
	r := make([]Event, len(d.events))
	copy(r, d.events)
	return r
}

// CrashImage builds the disk after a power cut: base + events[0:n], where of the
// writes after the last barrier in that prefix those with drop[i] (i = index
// among the un-barriered writes) are lost.
func CrashImage(base *SDisk, evs []Event, n int, drop func(i int) bool) *SDisk {
	img := base.Clone()
	last := 0
	for i := 0; i < n; i++ {
		if evs[i].Barrier {
			last = i + 1
		}
	}
	for i := 0; i < last; i++ {
		if !evs[i].Barrier {
			img.blocks[evs[i].A] = evs[i].Data
		}
	}
	k := 0
	for i := last; i < n; i++ {
		if evs[i].Barrier {
			continue
		}
		if drop == nil || !drop(k) {
			img.blocks[evs[i].A] = evs[i].Data
		}
		k++
	}
	return img
}

func (d *SDisk) MaxWritten() uint64 {
	d.mu.Lock()
	defer d.mu.Unlock()
	var m uint64
	for a := range d.blocks {
		if a > m {
			m = a
		}
	}
	return m
}
