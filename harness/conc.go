package main

import (
	"io"
	"bufio"
	"flag"
	"fmt"
	"math/rand"
	"os"
	"runtime"
	"sort"
	"strings"
	"sync"
	"sync/atomic"
	"time"

	"github.com/mit-pdos/go-nfsd/fstxn"
	"github.com/mit-pdos/go-nfsd/nfs"
)

// conc: several clients issue operations on the SAME names and files concurrently.  The history
// (invoke/return stamps, calls, replies), the lock/commit events of every transaction and the final
// logical disk are written for the model driver (linearizability search with the extracted reference,
// two-phase / lock-order predicates, final state).  Schedules are widened by seeded yields and short
// sleeps at the hook points (before a lock is requested, around the journal commit).

type concEv struct {
	client int
	op     Op
	h, h2  []byte
	inv    int64
	ret    int64
	rep    Reply
	hung   bool
}

type concTracer struct {
	mu   sync.Mutex
	txns map[*fstxn.FsTxn][]string
	proc map[*fstxn.FsTxn]string
	ord  []*fstxn.FsTxn
}

// goid returns the id of the calling goroutine (the hooks run on the goroutine that serves the RPC)
func goid() string {
	var buf [64]byte
	n := runtime.Stack(buf[:], false)
	f := strings.Fields(string(buf[:n]))
	if len(f) >= 2 {
		return f[1]
	}
	return "?"
}

var curProc sync.Map // goroutine id -> procedure being served

func runConc(seed int64, nclients, nops int, size uint64, out string, shape string) int {
	if shape == "allocretry" && size < 6000 {
		size = 6000 // room for a file whose background free takes many transactions
	}
	f, _ := os.Create(out)
	defer f.Close()
	w := bufio.NewWriterSize(f, 1<<20)
	defer w.Flush()
	r := NewRunner(size, w)
	r.tr = nil
	tracers.Delete(r.srv.VerifState())
	r.Init()
	rng := rand.New(rand.NewSource(seed))
	// --- sequential set-up: two directories, a few files and sub-directories with colliding names
	// files first, directories afterwards, then the files are moved in: the children have SMALLER inode
	// numbers than their directories, so lookups and removals take the abort-and-relock path
	setup := []Op{
		{Id: 1, Proc: "create", H: "root", Name: "fa"},
		{Id: 2, Proc: "create", H: "root", Name: "fb"},
		{Id: 3, Proc: "create", H: "root", Name: "fc"},
		{Id: 4, Proc: "mkdir", H: "root", Name: "d1"},
		{Id: 5, Proc: "mkdir", H: "root", Name: "d2"},
		{Id: 6, Proc: "rename", H: "root", Name: "fa", H2: "@4", Name2: "a"},
		{Id: 7, Proc: "rename", H: "root", Name: "fb", H2: "@5", Name2: "a"},
		{Id: 8, Proc: "rename", H: "root", Name: "fc", H2: "@4", Name2: "b"},
		{Id: 9, Proc: "write", H: "@1", Off: 0, Cnt: 6000, Stable: 2, Data: DataSpec{Pat: true, Len: 6000, Seed: 1}},
		{Id: 10, Proc: "write", H: "@3", Off: 0, Cnt: 100, Stable: 2, Data: DataSpec{Pat: true, Len: 100, Seed: 2}},
	}
	if shape == "coldcache" {
		// more objects than the inode cache holds (100), in one directory; the cache is emptied by a restart and
		// inode blocks are read slowly, so that a call waiting for its inode sees many evictions meanwhile
		setup = append(setup, Op{Id: 11, Proc: "mkdir", H: "root", Name: "big"})
		for i := 0; i < 130; i++ {
			setup = append(setup, Op{Id: 20 + i, Proc: "create", H: "@11", Name: fmt.Sprintf("c%03d", i)})
		}
		for i := 0; i < 130; i += 7 {
			setup = append(setup, Op{Id: 200 + i, Proc: "write", H: fmt.Sprintf("@%d", 20+i), Off: 0, Cnt: uint64(10 + i), Stable: 2, Data: DataSpec{Pat: true, Len: uint64(10 + i), Seed: uint64(i)}})
		}
		setup = append(setup, Op{Id: 400, Proc: "restart"})
	}
	if shape == "crashshrink" {
		// the server is stopped the hard way (Nfs.Crash, as the tests of the repository do) while the background
		// shrinker is still freeing a large file, and started again: the stop must synchronise with the shrinker
		for _, o := range setup {
			r.Step(o)
		}
		n := uint64(120 * 4096)
		for round := 0; round < nops; round++ {
			id := 500 + round*20
			r.Step(Op{Id: id, Proc: "create", H: "root", Name: fmt.Sprintf("big%d", round)})
			for k := uint64(0); k < 10; k++ {
				r.Step(Op{Id: id + 1 + int(k), Proc: "write", H: fmt.Sprintf("@%d", id), Off: k * n, Cnt: n, Stable: 2, Data: DataSpec{Pat: true, Len: n, Seed: k}})
			}
			Exec(r.srv, Op{Proc: "remove", Name: fmt.Sprintf("big%d", round)}, r.resolve("root"), nil)
			if round%2 == 1 {
				time.Sleep(time.Duration(rng.Intn(300)) * time.Microsecond)
			}
			r.srv.Crash()
			r.srv = nfs.MakeNfs(r.d)
			Exec(r.srv, Op{Proc: "getattr"}, r.resolve("root"), nil)
		}
		r.srv.ShutdownNfs()
		fmt.Fprintf(w, "M conc-end ok\n")
		return 0
	}
	if shape == "staledir" {
		// a restart resets the allocator's scan position: the next directory made gets the lowest free number, which
		// is the number of the directory removed just before
		setup = append(setup, Op{Id: 400, Proc: "restart"})
	}
	for _, o := range setup {
		r.Step(o)
	}
	if shape == "allocretry" {
		// a large file is removed and the server is stopped the hard way while the background free is still going on;
		// after the restart the first object created draws the half-freed inode number, and its CREATE gives up its
		// locks to help finish the free before it starts over - while other clients create the same name
		n := uint64(120 * 4096)
		// (outside the recorded history: the file is gone again before the history begins, and the runner would wait
		// for the background free to finish before it lets the next step run)
		root := r.resolve("root")
		big := Exec(r.srv, Op{Proc: "create", Name: "big"}, root, nil)
		for k := uint64(0); k < 30; k++ {
			Exec(r.srv, Op{Proc: "write", Off: k * n, Cnt: n, Stable: 2, Data: DataSpec{Pat: true, Len: n, Seed: k}}, big.H, nil)
		}
		Exec(r.srv, Op{Proc: "remove", Name: "big"}, root, nil)
		r.srv.Crash()
		r.srv = nfs.MakeNfs(r.d)
	}
	startB := make(chan struct{})
	var startOnce sync.Once
	var aborted sync.Map
	steerProc := map[string]string{"staledir": "remove", "rmrebind": "remove", "renamegone": "rename"}[shape]
	if shape == "coldcache" {
		var rd int64
		r.d.SlowRead = func(a uint64) {
			// every other inode read of a GETATTR stalls for a long time while listings and lookups run at full
			// speed: the stalled call sees more than a cache-full of other inodes come and go before it continues
			if a >= 515 && a < 1539 {
				if p, ok := curProc.Load(goid()); ok && p.(string) == "getattr" {
					_ = rd
					time.Sleep(25 * time.Millisecond)
				}
			}
		}
	}
	fmt.Fprintf(w, "M conc-begin %d\n", nclients)
	w.Flush()
	// --- tracing of transactions (by transaction, not by RPC) and schedule noise
	ct := &concTracer{txns: map[*fstxn.FsTxn][]string{}, proc: map[*fstxn.FsTxn]string{}}
	var noise int64 = seed
	st := r.srv.VerifState()
	hookImpl.Store(hookFn(func(kind int, op *fstxn.FsTxn, arg uint64) {
		if op.Fs != st {
			return
		}
		ct.mu.Lock()
		if _, ok := ct.txns[op]; !ok {
			ct.ord = append(ct.ord, op)
			ct.txns[op] = nil
			if p, ok := curProc.Load(goid()); ok {
				ct.proc[op] = p.(string)
			} else {
				ct.proc[op] = "background"
			}
		}
		tag := map[int]string{1: "a", 2: "r", 3: "c", 4: "d", 5: "x", 6: "f", 7: "g", 8: "n"}[kind]
		if tag != "" {
			ct.txns[op] = append(ct.txns[op], fmt.Sprintf("%s0:%d", tag, arg))
		}
		ct.mu.Unlock()
		if steerProc != "" {
			// a call that gave up its locks (abort) and is about to take them again in order (the next acquire of the
			// same call) is held there while client 0 runs its sequence: staledir - the directory is removed, a new one
			// gets its number and the child is moved back in under the same name; rmrebind - the name is bound to
			// another object; renamegone - the target of the RENAME is removed
			g := goid()
			if p, ok := curProc.Load(g); ok && p.(string) == steerProc {
				if kind == 5 {
					aborted.Store(g, true)
				} else if _, was := aborted.Load(g); was && kind == 0 {
					aborted.Delete(g)
					startOnce.Do(func() {
						close(startB)
						time.Sleep(500 * time.Millisecond)
					})
				}
			}
		}
		if kind == 5 {
			time.Sleep(time.Duration(100+(atomic.AddInt64(&noise, 12345)>>9)%400) * time.Microsecond)
		}
		if kind == 0 || kind == 3 || kind == 4 || kind == 2 {
			n := atomic.AddInt64(&noise, 0x9E3779B97F4A7C15>>1)
			switch (n >> 7) % 6 {
			case 0:
				runtime.Gosched()
			case 1:
				time.Sleep(time.Duration((n>>11)%200) * time.Microsecond)
			}
		}
	}))
	names := []string{"a", "b", "c"}
	dirs := []string{"@4", "@5"}
	files := []string{"@1", "@2", "@3"}
	genOp := func(rg *rand.Rand, id int) Op {
		d := dirs[rg.Intn(2)]
		n := names[rg.Intn(len(names))]
		fl := files[rg.Intn(len(files))]
		switch shape {
		case "coldcache":
			// even clients list the directory (130 children: every listing turns the whole cache over), odd clients
			// ask for the attributes of the files a listing has just pushed out (their inode reads stall)
			if id/1000%2 == 0 {
				if id%1000%8 != 0 {
					// the entries a listing leaves in the cache (the last hundred) are looked up again: a slot that was
					// recycled under a stalled reader and then overwritten by it is found here
					return Op{Id: id, Proc: "lookup", H: "@11", Name: fmt.Sprintf("c%03d", 129-rg.Intn(90))}
				}
				return Op{Id: id, Proc: "readdirplus", H: "@11", Cookie: 0, Dircount: 1 << 20, Maxcount: 1 << 20}
			}
			if rg.Intn(5) == 0 {
				return Op{Id: id, Proc: "read", H: fmt.Sprintf("@%d", 20+rg.Intn(130)/7*7), Off: 0, Cnt: 4000}
			}
			// (files outside the big directory: a listing would wait for a stalled child's lock)
			return Op{Id: id, Proc: "getattr", H: files[rg.Intn(len(files))]}
		case "rmrebind", "renamegone":
			i := id % 1000
			switch id / 1000 {
			case 0: // (waits for the other call's abort, see the client loop)
				seq := []Op{{Id: id, Proc: "rename", H: "@4", Name: "a", H2: "@4", Name2: "h"}, {Id: id, Proc: "create", H: "@4", Name: "a"}}
				if shape == "renamegone" {
					seq = []Op{{Id: id, Proc: "remove", H: "@5", Name: "a"}}
				}
				if i >= 100 && i-100 < len(seq) {
					return seq[i-100]
				}
				return Op{Id: id, Proc: "getattr", H: "@2"}
			case 1:
				if i == 101 && shape == "rmrebind" {
					return Op{Id: id, Proc: "remove", H: "@4", Name: "a"}
				}
				if i == 101 {
					return Op{Id: id, Proc: "rename", H: "@4", Name: "a", H2: "@5", Name2: "a"}
				}
				return Op{Id: id, Proc: "lookup", H: "@4", Name: []string{"a", "b"}[i%2]}
			}
			return []Op{{Id: id, Proc: "lookup", H: "@4", Name: "b"}, {Id: id, Proc: "getattr", H: "@1"}, {Id: id, Proc: "lookup", H: "@5", Name: "a"}}[i%3]
		case "allocretry":
			if id%1000 == 100 {
				return Op{Id: id, Proc: "create", H: "root", Name: "zz"}
			}
			return []Op{{Id: id, Proc: "lookup", H: "root", Name: "zz"}, {Id: id, Proc: "readdir", H: "root", Count: 1 << 20}, {Id: id, Proc: "getattr", H: "@1"}}[id%3]
		case "staledir": // a dead directory handle used by a call that is between giving up and re-taking its locks
			i := id % 1000
			switch id / 1000 {
			case 0: // (waits for the REMOVE's abort, see the client loop)
				seq := []Op{{Id: id, Proc: "rename", H: "@4", Name: "a", H2: "root", Name2: "t"}, {Id: id, Proc: "rename", H: "@4", Name: "b", H2: "root", Name2: "u"},
					{Id: id, Proc: "rmdir", H: "root", Name: "d1"}, {Id: id, Proc: "mkdir", H: "root", Name: "d1"},
					{Id: id, Proc: "rename", H: "root", Name: "t", H2: "@103", Name2: "a"}}
				if i-100 < len(seq) && i >= 100 {
					return seq[i-100]
				}
				return Op{Id: id, Proc: "getattr", H: "@2"}
			case 1:
				if i == 101 {
					return Op{Id: id, Proc: "remove", H: "@4", Name: "a"}
				}
				return Op{Id: id, Proc: "lookup", H: "@4", Name: []string{"a", "b"}[i%2]}
			}
			return []Op{{Id: id, Proc: "lookup", H: "@4", Name: "b"}, {Id: id, Proc: "getattr", H: "@1"}, {Id: id, Proc: "lookup", H: "@5", Name: "a"}}[i%3]
		case "relock": // removal / lookup of a child with a smaller number than its directory vs. re-binding of the name
			i := id % 1000
			switch id / 1000 % 3 {
			case 0:
				return []Op{{Id: id, Proc: "lookup", H: "@4", Name: "a"}, {Id: id, Proc: "remove", H: "@4", Name: "a"},
					{Id: id, Proc: "lookup", H: "@4", Name: "c"}, {Id: id, Proc: "getattr", H: "@1"}, {Id: id, Proc: "lookup", H: "@4", Name: "a"}, {Id: id, Proc: "readdir", H: "@4", Count: 1 << 20}}[i%6]
			case 1:
				return []Op{{Id: id, Proc: "rename", H: "@4", Name: "a", H2: "@4", Name2: "c"}, {Id: id, Proc: "create", H: "@4", Name: "a"},
					{Id: id, Proc: "getattr", H: "@1"}, {Id: id, Proc: "lookup", H: "@4", Name: "c"}, {Id: id, Proc: "lookup", H: "@4", Name: "a"}, {Id: id, Proc: "readdir", H: "@4", Count: 1 << 20}}[i%6]
			}
			return []Op{{Id: id, Proc: "remove", H: "@4", Name: "b"}, {Id: id, Proc: "rename", H: "@5", Name: "a", H2: "@5", Name2: "z"}, {Id: id, Proc: "create", H: "@5", Name: "a"},
				{Id: id, Proc: "lookup", H: "@5", Name: "a"}, {Id: id, Proc: "remove", H: "@5", Name: "a"}, {Id: id, Proc: "getattr", H: "@2"}}[i%6]
		case "lsrace": // a listing of a directory against mutations of its children
			if id/1000%2 == 0 {
				return Op{Id: id, Proc: "readdirplus", H: "@4", Cookie: 0, Dircount: 1 << 20, Maxcount: 1 << 20}
			}
			switch rg.Intn(3) {
			case 0:
				return Op{Id: id, Proc: "setattr", H: "@1", HasSize: true, Size: uint64(rg.Intn(9000))}
			case 1:
				return Op{Id: id, Proc: "write", H: "@3", Off: 0, Cnt: 50, Stable: 2, Data: DataSpec{Pat: true, Len: 50, Seed: uint64(id)}}
			}
			return Op{Id: id, Proc: "setattr", H: "@3", At: TimeSpec{How: 2, Sec: uint32(id), Nsec: 1}}
		case "data":
			switch rg.Intn(6) {
			case 0, 1:
				k := uint64(rg.Intn(3000))
				return Op{Id: id, Proc: "write", H: fl, Off: uint64(rg.Intn(3)) * 4000, Cnt: k, Stable: uint32(rg.Intn(3)), Data: DataSpec{Pat: true, Len: k, Seed: uint64(id)}}
			case 2:
				return Op{Id: id, Proc: "setattr", H: fl, HasSize: true, Size: uint64(rg.Intn(9000))}
			case 3:
				return Op{Id: id, Proc: "read", H: fl, Off: uint64(rg.Intn(2)) * 3000, Cnt: 4000}
			case 4:
				return Op{Id: id, Proc: "getattr", H: fl}
			}
			if rg.Intn(2) == 0 {
				return Op{Id: id, Proc: "readdirplus", H: d, Cookie: 0, Dircount: 1 << 20, Maxcount: 1 << 20}
			}
			return Op{Id: id, Proc: "commit", H: fl}
		}
		if shape == "xrename" { // cross-directory renames over existing targets, files only
			switch rg.Intn(6) {
			case 0:
				return Op{Id: id, Proc: "create", H: d, Name: n}
			case 1:
				return Op{Id: id, Proc: "remove", H: d, Name: n}
			case 2, 3, 4:
				return Op{Id: id, Proc: "rename", H: d, Name: n, H2: dirs[rg.Intn(2)], Name2: names[rg.Intn(len(names))]}
			}
			return Op{Id: id, Proc: "lookup", H: d, Name: n}
		}
		switch rg.Intn(12) {
		case 0, 1:
			return Op{Id: id, Proc: "create", H: d, Name: n}
		case 2:
			return Op{Id: id, Proc: "remove", H: d, Name: n}
		case 3, 4: // inside one directory (directories are not moved between parents: open finding F15)
			if rg.Intn(4) == 0 {
				// a rename that is refused after it has begun (the new name is too long): nobody may see its first half
				return Op{Id: id, Proc: "rename", H: d, Name: n, H2: d, Name2: strings.Repeat("L", 200)}
			}
			return Op{Id: id, Proc: "rename", H: d, Name: n, H2: d, Name2: names[rg.Intn(len(names))]}
		case 5:
			return Op{Id: id, Proc: "lookup", H: d, Name: n}
		case 6:
			return Op{Id: id, Proc: "mkdir", H: d, Name: n}
		case 7:
			return Op{Id: id, Proc: "rmdir", H: d, Name: n}
		case 8:
			if rg.Intn(8) == 0 { // rare: it can really deadlock (open finding F20) and each hang costs the watchdog time
				return Op{Id: id, Proc: "readdirplus", H: d, Cookie: 0, Dircount: 1 << 20, Maxcount: 1 << 20}
			}
			return Op{Id: id, Proc: "readdir", H: d, Cookie: 0, Count: 1 << 20}
		case 9:
			k := uint64(rg.Intn(2000))
			return Op{Id: id, Proc: "write", H: fl, Off: uint64(rg.Intn(2)) * 4000, Cnt: k, Stable: 2, Data: DataSpec{Pat: true, Len: k, Seed: uint64(id)}}
		case 10:
			return Op{Id: id, Proc: "getattr", H: fl}
		}
		return Op{Id: id, Proc: "setattr", H: fl, HasSize: true, Size: uint64(rg.Intn(7000))}
	}
	var clock int64
	var mu sync.Mutex
	var hist []*concEv
	var wg sync.WaitGroup
	hung := int32(0)
	for c := 0; c < nclients; c++ {
		wg.Add(1)
		crng := rand.New(rand.NewSource(rng.Int63()))
		go func(c int) {
			defer wg.Done()
			n := nops
			if shape == "coldcache" && c%2 == 0 {
				n = nops * 40 // the listing clients are fast; they keep going while the others stall
			}
			if steerProc != "" && c == 0 {
				select {
				case <-startB:
				case <-time.After(800 * time.Millisecond):
				}
			}
			for i := 0; i < n; i++ {
				o := genOp(crng, 100+c*1000+i)

				mu.Lock()
				h := r.resolve(o.H)
				var h2 []byte
				if o.Proc == "rename" {
					h2 = r.resolve(o.H2)
				}
				mu.Unlock()
				ev := &concEv{client: c, op: o, h: h, h2: h2, inv: atomic.AddInt64(&clock, 1)}
				done := make(chan Reply, 1)
				go func() {
					defer func() {
						if e := recover(); e != nil {
							done <- Reply{Kind: "panic", Data: []byte(fmt.Sprint(e))}
						}
					}()
					g := goid()
					curProc.Store(g, o.Proc)
					defer curProc.Delete(g)
					done <- Exec(r.srv, o, h, h2)
				}()
				select {
				case rep := <-done:
					ev.rep = rep
					ev.ret = atomic.AddInt64(&clock, 1)
					if shape == "staledir" && o.Proc == "mkdir" && rep.Code == 0 && len(rep.H) > 0 {
						mu.Lock()
						r.handles[o.Id] = rep.H
						mu.Unlock()
					}
				case <-time.After(WatchdogLimit):
					ev.hung = true
					atomic.StoreInt32(&hung, 1)
				}
				mu.Lock()
				hist = append(hist, ev)
				mu.Unlock()
				if ev.hung {
					return
				}
			}
		}(c)
	}
	// the statistics thread of the real server (SIGUSR1 handler of cmd/go-nfsd): dumps and resets the
	// per-procedure counters while requests are being served
	statStop := make(chan struct{})
	statDone := make(chan struct{})
	go func() {
		defer close(statDone)
		for k := 0; ; k++ {
			select {
			case <-statStop:
				return
			default:
			}
			r.srv.WriteOpStats(io.Discard)
			if k%7 == 6 {
				r.srv.ResetOpStats()
			}
			time.Sleep(200 * time.Microsecond)
		}
	}()
	wg.Wait()
	close(statStop)
	<-statDone
	hookImpl.Store(hookFn(func(int, *fstxn.FsTxn, uint64) {}))
	sort.Slice(hist, func(i, j int) bool { return hist[i].inv < hist[j].inv })
	for _, ev := range hist {
		fmt.Fprintf(w, "H %d %d %d\n", ev.client, ev.inv, ev.ret)
		fmt.Fprintln(w, CallLine(ev.op, ev.h, ev.h2))
		switch {
		case ev.hung:
			fmt.Fprintln(w, "X hang")
		case ev.rep.Kind == "panic":
			fmt.Fprintf(w, "X panic %s\n", strings.ReplaceAll(string(ev.rep.Data), "\n", " "))
		default:
			fmt.Fprintln(w, ev.rep.Line())
		}
	}
	ct.mu.Lock()
	for _, op := range ct.ord {
		fmt.Fprintf(w, "LT %s %s\n", ct.proc[op], strings.Join(ct.txns[op], " "))
	}
	ct.mu.Unlock()
	if atomic.LoadInt32(&hung) == 1 {
		fmt.Fprintf(w, "M conc-end hung\n")
		w.Flush()
		return 3
	}
	r.Idle()
	fmt.Fprintf(w, "M conc-end ok\n")
	r.noCache = true
	r.checkpoints = 0
	r.checkpoint(true)
	r.srv.ShutdownNfs()
	return 0
}

var _ = nfs.MakeNfs

func init() {
	extraCmds["conc"] = func(args []string) {
		fs := flag.NewFlagSet("conc", flag.ExitOnError)
		seed := fs.Int64("seed", 1, "")
		nc := fs.Int("clients", 3, "")
		nops := fs.Int("nops", 6, "")
		size := fs.Uint64("size", 3000, "")
		out := fs.String("out", "conc.trace", "")
		shape := fs.String("shape", "names", "")
		fs.Parse(args)
		os.Exit(runConc(*seed, *nc, *nops, *size, *out, *shape))
	}
}
