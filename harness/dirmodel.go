package main

// dirmodel: the directory layer (dir.LookupName / AddName / RemName, the per-inode name cache and its Lastoff hint)
// driven directly, one transaction per operation, on the root directory of a fresh file system.  After every
// operation the slots (decoded from the directory's bytes inside the transaction), the name cache and Lastoff are
// written out; the model driver runs the extracted DM (Model/DirModel.v) on the same operations and compares
// everything: result, slots, cache contents, Lastoff.

import (
	"bufio"
	"encoding/binary"
	"encoding/hex"
	"flag"
	"fmt"
	"math/rand"
	"os"
	"sort"
	"strings"

	"github.com/mit-pdos/go-journal/common"
	"github.com/mit-pdos/go-nfsd/dir"
	"github.com/mit-pdos/go-nfsd/fstxn"
	"github.com/mit-pdos/go-nfsd/inode"
	"github.com/mit-pdos/go-nfsd/nfs"
	"github.com/mit-pdos/go-nfsd/nfstypes"
)

func dumpDir(w *bufio.Writer, dip *inode.Inode, op *fstxn.FsTxn) {
	n := dip.Size / dir.DIRENTSZ
	fmt.Fprintf(w, "DS %d", n)
	for off := uint64(0); off+dir.DIRENTSZ <= dip.Size; off += dir.DIRENTSZ {
		data, _ := dip.Read(op.Atxn, off, dir.DIRENTSZ)
		if uint64(len(data)) != dir.DIRENTSZ {
			fmt.Fprintf(w, " short")
			continue
		}
		inum := binary.LittleEndian.Uint64(data[0:8])
		l := binary.LittleEndian.Uint64(data[8:16])
		if inum == 0 {
			fmt.Fprintf(w, " -")
			continue
		}
		if l > dir.DIRENTSZ-16 {
			fmt.Fprintf(w, " badlen:%d", l)
			continue
		}
		fmt.Fprintf(w, " %s:%d", hex.EncodeToString(data[16:16+l]), inum)
	}
	fmt.Fprintln(w)
	if dip.Dcache == nil {
		fmt.Fprintf(w, "DC nocache\n")
		return
	}
	ents := dip.Dcache.VerifEntries()
	names := make([]string, 0, len(ents))
	for k := range ents {
		names = append(names, k)
	}
	sort.Strings(names)
	fmt.Fprintf(w, "DC %d %d", dip.Dcache.Lastoff, len(names))
	for _, k := range names {
		fmt.Fprintf(w, " %s:%d:%d", hex.EncodeToString([]byte(k)), uint64(ents[k].Inum), ents[k].Off)
	}
	fmt.Fprintln(w)
}

func runDirModel(seed int64, nops int, out string) {
	f, _ := os.Create(out)
	defer f.Close()
	w := bufio.NewWriterSize(f, 1<<20)
	defer w.Flush()
	rng := rand.New(rand.NewSource(seed))
	d := NewSDisk(4000)
	srv := nfs.MakeNfs(d)
	defer srv.ShutdownNfs()
	st := srv.VerifState()
	pool := []string{}
	npool := 14 + int(seed%3)*25 // small directories (heavy slot reuse) and ones that grow past one block
	for i := 0; i < npool; i++ {
		pool = append(pool, fmt.Sprintf("n%d", i))
	}
	pool = append(pool, strings.Repeat("L", 111), strings.Repeat("M", 112), strings.Repeat("X", 113), strings.Repeat("Y", 200), ".", "..")
	nextInum := uint64(2)
	fmt.Fprintf(w, "DI %d\n", uint64(common.ROOTINUM))
	{
		// the initial state, as a transaction sees it
		op := fstxn.Begin(st)
		dip := op.GetInodeInum(common.ROOTINUM)
		fmt.Fprintf(w, "DO init\nDR -\n")
		dumpDir(w, dip, op)
		op.Commit()
	}
	for i := 0; i < nops; i++ {
		op := fstxn.Begin(st)
		dip := op.GetInodeInum(common.ROOTINUM)
		if dip == nil {
			fmt.Fprintf(w, "DX noroot\n")
			op.Abort()
			return
		}
		name := pool[rng.Intn(len(pool))]
		k := rng.Intn(20)
		switch {
		case k < 5:
			inum, off := dir.LookupName(dip, op, nfstypes.Filename3(name))
			fmt.Fprintf(w, "DO lookup %s\nDR %d %d\n", hex.EncodeToString([]byte(name)), uint64(inum), off)
		case k < 12:
			// as the callers do: look the name up first, add it when absent
			inum, _ := dir.LookupName(dip, op, nfstypes.Filename3(name))
			if inum != common.NULLINUM {
				fmt.Fprintf(w, "DO addx %s %d\nDR exist\n", hex.EncodeToString([]byte(name)), nextInum)
			} else {
				ok := dir.AddName(dip, op, common.Inum(nextInum), nfstypes.Filename3(name))
				fmt.Fprintf(w, "DO addx %s %d\nDR %v\n", hex.EncodeToString([]byte(name)), nextInum, ok)
				nextInum++
			}
		case k < 18:
			if name == "." || name == ".." {
				name = pool[rng.Intn(npool)]
			}
			ok := dir.RemName(dip, op, nfstypes.Filename3(name))
			fmt.Fprintf(w, "DO rem %s\nDR %v\n", hex.EncodeToString([]byte(name)), ok)
		default:
			// a transaction that touched the directory and aborts: its cached inode (and name cache) is dropped
			fmt.Fprintf(w, "DO drop\nDR -\n")
			dumpDir(w, dip, op)
			op.Abort()
			// what a fresh transaction sees
			op2 := fstxn.Begin(st)
			dip2 := op2.GetInodeInum(common.ROOTINUM)
			fmt.Fprintf(w, "DO nop\nDR -\n")
			dumpDir(w, dip2, op2)
			op2.Commit()
			continue
		}
		dumpDir(w, dip, op)
		if !op.Commit() {
			fmt.Fprintf(w, "DX commit-failed\n")
			return
		}
	}
	fmt.Fprintf(w, "DE %d\n", nops)
}

func init() {
	extraCmds["dirmodel"] = func(args []string) {
		fs := flag.NewFlagSet("dirmodel", flag.ExitOnError)
		seed := fs.Int64("seed", 1, "")
		nops := fs.Int("nops", 300, "")
		out := fs.String("out", "/dev/stdout", "")
		fs.Parse(args)
		runDirModel(*seed, *nops, *out)
	}
}
