package main

import (
	"bufio"
	"encoding/json"
	"flag"
	"fmt"
	"os"
	"path/filepath"
	"runtime/debug"
	"sort"
	"sync"
)

func profileByName(name string) Profile {
	p := Profile{Name: name, W: defaultWeights(), Steer: map[string]bool{"dirmove": true}}
	p.W["selfmove"] = 1
	switch name {
	case "generic":
	case "bigfile":
		p.BigOffset = true
		p.W["write"] = 25
		p.W["read"] = 15
		p.W["truncate"] = 12
		p.W["bigwrite"] = 4
		p.W["shrinkrace"] = 5
		p.Lazy = true
	case "recycle": // C12: fill, delete/shrink, reuse
		p.W["write"] = 30
		p.W["truncate"] = 20
		p.W["remove"] = 12
		p.W["read"] = 20
		p.W["mkdir"] = 1
		p.W["symlink"] = 1
		p.W["stale"] = 0
		p.W["shrinkrace"] = 8
		p.W["indwrite"] = 7 // sparse files with data only behind the indirect / double-indirect boundary
		p.Lazy = true
		p.MaxWrite = 40000
	case "reclaim": // C05: build, then delete everything
		p.W["write"] = 14
		p.W["bigwrite"] = 6
		p.W["truncate"] = 8
		p.W["mkdir"] = 8
		p.W["rename"] = 8
		p.W["stale"] = 1
		p.W["restart"] = 1
		p.Reclaim = true
		p.Lazy = true
		p.W["shrinkrace"] = 6
		p.W["dirover"] = 3
	case "stale": // C08: heavy inode reuse, dead handles everywhere
		p.W["write"] = 3
		p.W["read"] = 2
		p.W["truncate"] = 1
		p.W["create"] = 12
		p.W["mkdir"] = 8
		p.W["symlink"] = 4
		p.W["rename"] = 8
		p.W["remove"] = 14
		p.W["rmdir"] = 8
		p.W["stale"] = 30
		p.W["restart"] = 5
		p.W["dirover"] = 4
	case "fail": // C09: nearly full disks, requests that fail late
		p.W["write"] = 16
		p.W["bigwrite"] = 6
		p.W["create"] = 14
		p.W["mkdir"] = 10
		p.W["symlink"] = 6
		p.W["badname"] = 10
		p.W["rename"] = 10
		p.W["remove"] = 3
		p.W["rmdir"] = 2
		p.W["truncate"] = 4
		p.W["restart"] = 2
		p.W["giveback"] = 8
		p.W["indwrite"] = 10
		p.W["oneleft"] = 8
		p.W["twin"] = 3
		p.MaxWrite = 60000
		p.Fill = true
	case "crashmix": // C01/C07: all mutating RPCs, three stability levels, big removals
		p.W["write"] = 22
		p.W["bigwrite"] = 3
		p.W["commit"] = 8
		p.W["truncate"] = 8
		p.W["create"] = 10
		p.W["mkdir"] = 5
		p.W["symlink"] = 3
		p.W["remove"] = 8
		p.W["rmdir"] = 3
		p.W["rename"] = 8
		p.W["read"] = 4
		p.W["stale"] = 0
		p.W["restart"] = 0
		p.W["readdir"] = 1
		p.W["readdirplus"] = 1
		p.W["badname"] = 1
		p.MaxWrite = 30000
	case "unstablemix": // C07: three stability levels on several files, COMMITs, metadata operations
		p.W = map[string]int{"write": 40, "commit": 10, "create": 6, "truncate": 5, "read": 6, "rename": 3, "remove": 3, "mkdir": 2, "getattr": 2, "bigwrite": 1, "abortcommit": 8, "maxwrite": 5, "hugesymlink": 2, "holefill": 5}
		p.Steer["unstablefirst"] = true
		p.MaxWrite = 12000
	case "lockorder": // C06: children with smaller and larger numbers than their parents, all multi-lock paths
		p.W = map[string]int{"create": 12, "mkdir": 12, "symlink": 3, "remove": 10, "rmdir": 8, "rename": 22, "lookup": 14,
			"readdirplus": 6, "readdir": 2, "restart": 6, "stale": 10, "write": 3, "truncate": 2, "getattr": 2, "badname": 2, "selfmove": 5}
		p.Steer["dirmove"] = true
	case "twin": // C10: running server vs. a second server recovered from a copy of its disk
		p.W["twin"] = 10
		p.W["create"] = 16
		p.W["mkdir"] = 8
		p.W["rename"] = 10
		p.W["remove"] = 6
		p.W["badname"] = 4
		p.W["stale"] = 2
		p.W["restart"] = 1
		p.W["settime"] = 4
	case "manyobj": // C10: more live objects than the inode cache holds, multi-block directories
		p.W = map[string]int{"create": 50, "mkdir": 6, "symlink": 4, "twin": 4, "lookup": 8, "rename": 8, "remove": 6, "write": 8, "getattr": 4, "badname": 3, "truncate": 3, "settime": 3}
	case "hostile": // C11: arbitrary argument values on top of a live tree
		p.W = map[string]int{"hostile": 70, "create": 8, "mkdir": 5, "write": 8, "symlink": 2, "remove": 2, "rename": 3, "restart": 1, "selfmove": 3, "stale": 3}
		p.Steer["dirmove"] = false
	case "toobig": // C09: requests that are refused only when the journal turns them down
		p.W["hugesymlink"] = 10
		p.W["bigwrite"] = 4
		p.W["maxwrite"] = 14
		p.W["symlink"] = 5
		p.W["remove"] = 8
		p.W["restart"] = 2
	case "longnames": // C10: directories full of names near the announced limit, caches rebuilt again and again
		p.W = map[string]int{"create": 50, "mkdir": 1, "symlink": 3, "lookup": 14, "restart": 5, "twin": 5, "remove": 4, "rename": 6, "stale": 2, "badname": 3, "readdirplus": 2, "readdir": 2, "getattr": 2}
		p.Steer["longnames"] = true
	case "names": // namespace heavy
		p.W["write"] = 3
		p.W["read"] = 2
		p.W["truncate"] = 1
		p.W["create"] = 14
		p.W["mkdir"] = 10
		p.W["rename"] = 14
		p.W["remove"] = 8
		p.W["rmdir"] = 6
		p.W["stale"] = 8
		p.W["restart"] = 2
		p.W["dirover"] = 3
	}
	return p
}

type seqResult struct {
	Index int            `json:"index"`
	Seed  int64          `json:"seed"`
	Trace string         `json:"trace"`
	Ops   string         `json:"ops"`
	NOps  int            `json:"nops"`
	Panic string         `json:"panic,omitempty"`
	Hist  map[string]int `json:"hist"`
}

func runSeq(idx int, seed int64, nops int, size uint64, prof string, unstable bool, outdir string) (res seqResult) {
	res = seqResult{Index: idx, Seed: seed}
	res.Trace = filepath.Join(outdir, fmt.Sprintf("seq_%d.trace", idx))
	res.Ops = filepath.Join(outdir, fmt.Sprintf("seq_%d.ops", idx))
	tf, _ := os.Create(res.Trace)
	of, _ := os.Create(res.Ops)
	defer tf.Close()
	defer of.Close()
	w := bufio.NewWriterSize(tf, 1<<20)
	defer w.Flush()
	fmt.Fprintf(of, "# size %d profile %s seed %d unstable %d\n", size, prof, seed, b2i(unstable))
	var r *Runner
	defer func() {
		if e := recover(); e != nil {
			res.Panic = fmt.Sprintf("%v\n%s", e, debug.Stack())
			fmt.Fprintf(w, "X panic\n")
		}
		if r != nil {
			res.NOps = r.nops
			res.Hist = r.hist
		}
	}()
	r = NewRunner(size, w)
	r.srv.Unstable = unstable
	r.Init()
	g := NewGen(seed, profileByName(prof))
	// the generator aims at the announced limits
	root := r.resolve("root")
	fi := Exec(r.srv, Op{Proc: "fsinfo"}, root, nil)
	pc := Exec(r.srv, Op{Proc: "pathconf"}, root, nil)
	g.wtmax, g.maxfs, g.nmax = fi.Wtmax, fi.Maxfs, pc.Namemax
	var script []Op
	switch prof {
	case "limits":
		script = limitsScript(fi.Wtmax, fi.Maxfs, pc.Namemax, g.rng)
	case "paging":
		script = pagingScript(g.rng, idx)
	case "inodefull":
		script = inodeFullScript(uint64(r.srv.VerifState().Super.NInode()), g.rng, idx > 0)
	}
	if script != nil {
		r.noCache = prof == "paging" || prof == "inodefull"
		for _, o := range script {
			fmt.Fprintln(of, o.Sym())
			r.Step(o)
		}
		r.Close()
		return
	}
	lazy := g.p.Lazy && idx%3 != 0
	if lazy {
		o := Op{Id: 5000000, Proc: "autoidle:0"}
		fmt.Fprintln(of, o.Sym())
		r.Step(o)
	}
	for i := 0; i < nops; i++ {
		if lazy && i > 0 && (i%17 == 0 || i == nops*6/10) {
			o := Op{Id: 5000000 + i, Proc: "idle"}
			fmt.Fprintln(of, o.Sym())
			r.Step(o)
		}
		if g.p.Reclaim && i >= nops*6/10 {
			g.deleting = true
		}
		if g.p.Fill && i == 8 {
			g.filling = 16
		}
		o := g.Next()
		fmt.Fprintln(of, o.Sym())
		rep := r.Step(o)
		g.Observe(o, rep)
		g.free, g.haveFree = r.srv.VerifState().Balloc.NumFree(), true
	}
	if lazy {
		o := Op{Id: 5900000, Proc: "idle"}
		fmt.Fprintln(of, o.Sym())
		r.Step(o)
	}
	r.Close()
	return
}

func runReplay(opsfile string, size uint64, unstable bool, trace string) (res seqResult) {
	res = seqResult{Trace: trace, Ops: opsfile}
	ops, err := readOps(opsfile)
	if err != nil {
		fmt.Fprintln(os.Stderr, err)
		os.Exit(2)
	}
	tf, _ := os.Create(trace)
	defer tf.Close()
	w := bufio.NewWriterSize(tf, 1<<20)
	defer w.Flush()
	var r *Runner
	defer func() {
		if e := recover(); e != nil {
			res.Panic = fmt.Sprintf("%v\n%s", e, debug.Stack())
			fmt.Fprintf(w, "X panic\n")
		}
		if r != nil {
			res.NOps = r.nops
			res.Hist = r.hist
		}
	}()
	r = NewRunner(size, w)
	r.srv.Unstable = unstable
	r.Init()
	for _, o := range ops {
		r.Step(o)
	}
	r.Close()
	return
}

func main() {
	if len(os.Args) < 2 {
		fmt.Fprintln(os.Stderr, "usage: h <seq|replay|...> flags")
		os.Exit(2)
	}
	cmd := os.Args[1]
	installHook()
	if extraCmd(cmd, os.Args[2:]) {
		return
	}
	fs := flag.NewFlagSet(cmd, flag.ExitOnError)
	seed := fs.Int64("seed", 1, "")
	nseq := fs.Int("nseq", 1, "")
	nops := fs.Int("nops", 50, "")
	size := fs.Uint64("size", 4000, "")
	prof := fs.String("profile", "generic", "")
	out := fs.String("out", ".", "")
	opsf := fs.String("ops", "", "")
	unst := fs.Bool("unstable", true, "")
	par := fs.Int("par", 8, "")
	fs.Parse(os.Args[2:])
	switch cmd {
	case "seq":
		os.MkdirAll(*out, 0755)
		results := make([]seqResult, *nseq)
		var wg sync.WaitGroup
		sem := make(chan struct{}, *par)
		for i := 0; i < *nseq; i++ {
			wg.Add(1)
			sem <- struct{}{}
			go func(i int) {
				defer wg.Done()
				defer func() { <-sem }()
				un := *unst
				if i%4 == 3 {
					un = !un
				}
				results[i] = runSeq(i, *seed*1000003+int64(i), *nops, *size, *prof, un, *out)
			}(i)
		}
		wg.Wait()
		sort.Slice(results, func(a, b int) bool { return results[a].Index < results[b].Index })
		json.NewEncoder(os.Stdout).Encode(results)
	case "replay":
		res := runReplay(*opsf, *size, *unst, *out)
		json.NewEncoder(os.Stdout).Encode([]seqResult{res})
	default:
		fmt.Fprintln(os.Stderr, "unknown command", cmd)
		os.Exit(2)
	}
}
