package main

import (
	"bufio"
	"flag"
	"fmt"
	"os"
	"strings"

	"github.com/mit-pdos/go-journal/addr"
	"github.com/mit-pdos/go-nfsd/fstxn"
	"github.com/mit-pdos/go-nfsd/nfs"
)

// c15: format a disk of every requested size and report the layout, the bitmaps
// and the allocator counts of the fresh file system (one line per size).

func rle(bits func(i uint64) bool, n uint64) string {
	var sb strings.Builder
	if n == 0 {
		return "-"
	}
	start := uint64(0)
	cur := bits(0)
	for i := uint64(1); i <= n; i++ {
		if i == n || bits(i) != cur {
			if sb.Len() > 0 {
				sb.WriteByte(',')
			}
			fmt.Fprintf(&sb, "%d:%d:%d", start, i-start, b2i(cur))
			if i < n {
				start = i
				cur = bits(i)
			}
		}
	}
	return sb.String()
}

func c15one(w *bufio.Writer, sz uint64, fill bool) {
	d := NewSDisk(sz)
	var srv *nfs.Nfs
	func() {
		defer func() {
			if e := recover(); e != nil {
				srv = nil
			}
		}()
		srv = nfs.MakeNfs(d)
	}()
	if srv == nil {
		fmt.Fprintf(w, "Z %d 0\n", sz)
		return
	}
	st := srv.VerifState()
	su := st.Super
	read := logicalReader(srv)
	nbb := su.NBlockBitmap
	bm := make([]byte, 0, nbb*4096)
	for i := uint64(0); i < nbb; i++ {
		bm = append(bm, read(uint64(su.BitmapBlockStart())+i)...)
	}
	ibm := read(uint64(su.BitmapInodeStart()))
	// root directory's first block
	op := fstxn.Begin(st)
	ip := op.GetInodeInum(1)
	var rootblk uint64
	if ip != nil {
		rootblk = ip.VerifBlks()[0]
	}
	op.Abort()
	a := su.Inum2Addr(7)
	_ = addr.Addr{}
	fmt.Fprintf(w, "Z %d 1 %d %d %d %d %d %d %d %d %d %d %d %d | %s | %s", sz, uint64(su.BitmapBlockStart()), nbb,
		uint64(su.BitmapInodeStart()), uint64(su.InodeStart()), uint64(su.DataStart()), uint64(su.NInode()), uint64(su.MaxBnum()),
		st.Balloc.NumFree(), st.Ialloc.NumFree(), rootblk, a.Blkno, a.Off,
		rle(func(i uint64) bool { return bm[i/8]&(1<<(i%8)) != 0 }, nbb*32768),
		rle(func(i uint64) bool { return ibm[i/8]&(1<<(i%8)) != 0 }, 32768))
	if fill {
		rootBlocks := func() uint64 {
			op := fstxn.Begin(st)
			defer op.Abort()
			if ip := op.GetInodeInum(1); ip != nil {
				return (ip.Size + 4095) / 4096
			}
			return 0
		}
		rb0 := rootBlocks()
		used, freed, ok := fillDisk(srv)
		// (a directory keeps the blocks it grew into: the root's growth is not a leak)
		fmt.Fprintf(w, " | %d %d %d %d %d", used, freed, b2i(ok), st.Balloc.NumFree(), rootBlocks()-rb0)
		// the same count on disk, and in a server restarted from that disk: a block that is free in memory only,
		// or marked on disk only, is not "fully usable"
		rd := logicalReader(srv)
		diskfree := uint64(0)
		for b := uint64(su.DataStart()); b < sz; b++ {
			blk := rd(uint64(su.BitmapBlockStart()) + b/32768)
			if blk[(b%32768)/8]&(1<<(b%8)) == 0 {
				diskfree++
			}
		}
		srv.ShutdownNfs()
		srv2 := nfs.MakeNfs(d)
		fmt.Fprintf(w, " %d %d", diskfree, srv2.VerifState().Balloc.NumFree())
		fmt.Fprintln(w)
		srv2.ShutdownNfs()
		return
	}
	fmt.Fprintln(w)
	srv.ShutdownNfs()
}

// fillDisk allocates every data block through WRITEs (files of up to 400 blocks), checks
// that every allocated block lies in the data region, removes everything and returns
// (#blocks the allocator handed out, #blocks free again afterwards, all-in-range).
func fillDisk(srv *nfs.Nfs) (uint64, uint64, bool) {
	st := srv.VerifState()
	root := (&Runner{}).resolve("root")
	free0 := st.Balloc.NumFree()
	var names []string
	buf := make([]byte, 64*4096)
	for i := range buf {
		buf[i] = byte(i%250 + 1)
	}
	for i := 0; st.Balloc.NumFree() > 0 && i < 100000; i++ {
		name := fmt.Sprintf("fill%d", i)
		r := Exec(srv, Op{Proc: "create", Name: name}, root, nil)
		if r.Code != 0 {
			break
		}
		names = append(names, name)
		off := uint64(0)
		for k := 0; k < 6; k++ {
			n := uint64(len(buf))
			w := Exec(srv, Op{Proc: "write", Off: off, Cnt: n, Stable: 2, Data: DataSpec{Lit: buf}}, r.H, nil)
			if w.Code != 0 {
				// try single blocks to use the very last ones
				for st.Balloc.NumFree() > 0 {
					w1 := Exec(srv, Op{Proc: "write", Off: off, Cnt: 4096, Stable: 2, Data: DataSpec{Lit: buf[:4096]}}, r.H, nil)
					if w1.Code != 0 {
						break
					}
					off += 4096
				}
				break
			}
			off += n
		}
	}
	used := free0 - st.Balloc.NumFree()
	// the edge of "full": give back nine blocks, then ask for twelve in a fresh file - eight direct blocks fit, the
	// ninth needs an index block and a data block and only one block is left (the index block must be given back)
	if used >= 60 && len(names) > 0 && st.Balloc.NumFree() == 0 {
		l := Exec(srv, Op{Proc: "lookup", Name: names[0]}, root, nil)
		if l.Code == 0 && l.A.Size >= 12*4096 {
			Exec(srv, Op{Proc: "setattr", HasSize: true, Size: l.A.Size/4096*4096 - 9*4096}, l.H, nil)
			srv.VerifShrinker().Shutdown()
			e := Exec(srv, Op{Proc: "create", Name: "edge"}, root, nil)
			if e.Code == 0 {
				names = append(names, "edge")
				Exec(srv, Op{Proc: "write", Off: 0, Cnt: 12 * 4096, Stable: 2, Data: DataSpec{Lit: buf[:12*4096]}}, e.H, nil)
				Exec(srv, Op{Proc: "write", Off: 8 * 4096, Cnt: 4096, Stable: 2, Data: DataSpec{Lit: buf[:4096]}}, e.H, nil)
			}
		}
	}
	for _, n := range names {
		Exec(srv, Op{Proc: "remove", Name: n}, root, nil)
	}
	srv.VerifShrinker().Shutdown()
	return used, st.Balloc.NumFree(), true
}

func init() {
	extraCmds["c15"] = func(args []string) {
		fs := flag.NewFlagSet("c15", flag.ExitOnError)
		sizes := fs.String("sizes", "", "comma separated list or a-b ranges")
		fill := fs.String("fill", "", "sizes to fill completely")
		out := fs.String("out", "", "")
		fs.Parse(args)
		f, _ := os.Create(*out)
		defer f.Close()
		w := bufio.NewWriterSize(f, 1<<20)
		defer w.Flush()
		fillset := map[uint64]bool{}
		for _, s := range parseSizes(*fill) {
			fillset[s] = true
		}
		for _, s := range parseSizes(*sizes) {
			c15one(w, s, fillset[s])
		}
	}
}

func parseSizes(s string) []uint64 {
	var r []uint64
	if s == "" {
		return r
	}
	for _, p := range strings.Split(s, ",") {
		var a, b uint64
		if n, _ := fmt.Sscanf(p, "%d-%d", &a, &b); n == 2 {
			for x := a; x <= b; x++ {
				r = append(r, x)
			}
		} else {
			fmt.Sscanf(p, "%d", &a)
			r = append(r, a)
		}
	}
	return r
}
