package main

// Truncated argument bytes through the REGISTERED handlers (the generated *_handler_wrapper methods both servers
// register): a proper prefix of a valid argument encoding must be answered with a decode error (GARBAGE_ARGS),
// never handed to the procedure.  The procedure object is a nil interface: being invoked shows as a panic.

import (
	"bufio"
	"fmt"
	"math/rand"
	"reflect"

	"github.com/mit-pdos/go-nfsd/nfstypes"
	"github.com/zeldovich/go-rpcgen/xdr"
)

var rfcArgs = map[[2]uint32]string{
	{100003, 1}: "GETATTR3args", {100003, 2}: "SETATTR3args", {100003, 3}: "LOOKUP3args", {100003, 4}: "ACCESS3args",
	{100003, 5}: "READLINK3args", {100003, 6}: "READ3args", {100003, 7}: "WRITE3args", {100003, 8}: "CREATE3args",
	{100003, 9}: "MKDIR3args", {100003, 10}: "SYMLINK3args", {100003, 11}: "MKNOD3args", {100003, 12}: "REMOVE3args",
	{100003, 13}: "RMDIR3args", {100003, 14}: "RENAME3args", {100003, 15}: "LINK3args", {100003, 16}: "READDIR3args",
	{100003, 17}: "READDIRPLUS3args", {100003, 18}: "FSSTAT3args", {100003, 19}: "FSINFO3args", {100003, 20}: "PATHCONF3args",
	{100003, 21}: "COMMIT3args", {100005, 1}: "Dirpath3", {100005, 3}: "Dirpath3",
}

type nilNfs struct {
	nfstypes.NFS_PROGRAM_NFS_V3_handler
}
type nilMount struct {
	nfstypes.MOUNT_PROGRAM_MOUNT_V3_handler
}

// 0 = decode error, 1 = procedure invoked (or reply produced), 2 = other panic
func callWrapped(h func(*xdr.XdrState) (xdr.Xdrable, error), b []byte) (r int) {
	defer func() {
		if e := recover(); e != nil {
			r = 1
		}
	}()
	_, err := h(xdr.MakeReader(b))
	if err != nil {
		return 0
	}
	return 1
}

func runXdrWrappers(w *bufio.Writer, rng *rand.Rand, n int) {
	regs := append(nfstypes.NFS_PROGRAM_NFS_V3_regs(nilNfs{}), nfstypes.MOUNT_PROGRAM_MOUNT_V3_regs(nilMount{})...)
	ncalls, ncuts := 0, 0
	for _, reg := range regs {
		accepted := 0
		// a procedure that is reached with no argument bytes at all either takes no arguments (NULL, DUMP, UMNTALL,
		// EXPORT) - or loses its decode error: the two cases are told apart by the table of procedures that take none
		if callWrapped(reg.Handler, nil) == 1 {
			void := map[[2]uint32]bool{{100003, 0}: true, {100005, 0}: true, {100005, 2}: true, {100005, 4}: true, {100005, 5}: true}
			if void[[2]uint32{reg.Prog, reg.Proc}] {
				fmt.Fprintf(w, "W %d.%d.%d OK void\n", reg.Prog, reg.Vers, reg.Proc)
			} else {
				fmt.Fprintf(w, "W %d.%d.%d BAD truncated-arguments-reach-the-procedure type=- cut=0 of=? bytes=-\n", reg.Prog, reg.Vers, reg.Proc)
			}
			continue
		}
		// the argument type RFC 1813 gives the procedure (a decoder reads a prefix and leaves the rest alone, so bytes
		// of another type can be accepted by accident: only the procedure's own type is cut)
		want := rfcArgs[[2]uint32{reg.Prog, reg.Proc}]
		for _, tp := range xdrTypes {
			if tp.name != want {
				continue
			}
			for i := 0; i < n; i++ {
				val := tp.mk()
				fillRandom(rng, reflect.ValueOf(val).Elem(), 0)
				b, err := xdr.EncodeBuf(val)
				if err != nil || len(b) == 0 {
					continue
				}
				ncalls++
				if callWrapped(reg.Handler, b) != 1 {
					continue // not this procedure's argument type
				}
				accepted++
				for cut := 0; cut < len(b); cut += 4 {
					ncuts++
					if callWrapped(reg.Handler, b[:cut]) != 0 {
						fmt.Fprintf(w, "W %d.%d.%d BAD truncated-arguments-reach-the-procedure type=%s cut=%d of=%d bytes=%s\n",
							reg.Prog, reg.Vers, reg.Proc, tp.name, cut, len(b), hexs(b[:cut]))
						break
					}
				}
			}
		}
		fmt.Fprintf(w, "W %d.%d.%d OK accepted=%d\n", reg.Prog, reg.Vers, reg.Proc, accepted)
	}
	fmt.Fprintf(w, "WD calls=%d cuts=%d\n", ncalls, ncuts)
}
