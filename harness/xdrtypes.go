package main

// GENERATED list of codec types: the repository type and the independent rfc1813 type of the same name
import (
	"github.com/mit-pdos/go-nfsd/nfstypes"
	"github.com/zeldovich/go-rpcgen/rfc1813"
	"github.com/zeldovich/go-rpcgen/xdr"
)

type xdrPair struct {
	name string
	mk   func() xdr.Xdrable
	ref  func() xdr.Xdrable
}

var xdrTypes = []xdrPair{
	{"GETATTR3args", func() xdr.Xdrable { return new(nfstypes.GETATTR3args) }, func() xdr.Xdrable { return new(rfc1813.GETATTR3args) }},
	{"GETATTR3res", func() xdr.Xdrable { return new(nfstypes.GETATTR3res) }, func() xdr.Xdrable { return new(rfc1813.GETATTR3res) }},
	{"SETATTR3args", func() xdr.Xdrable { return new(nfstypes.SETATTR3args) }, func() xdr.Xdrable { return new(rfc1813.SETATTR3args) }},
	{"SETATTR3res", func() xdr.Xdrable { return new(nfstypes.SETATTR3res) }, func() xdr.Xdrable { return new(rfc1813.SETATTR3res) }},
	{"LOOKUP3args", func() xdr.Xdrable { return new(nfstypes.LOOKUP3args) }, func() xdr.Xdrable { return new(rfc1813.LOOKUP3args) }},
	{"LOOKUP3res", func() xdr.Xdrable { return new(nfstypes.LOOKUP3res) }, func() xdr.Xdrable { return new(rfc1813.LOOKUP3res) }},
	{"ACCESS3args", func() xdr.Xdrable { return new(nfstypes.ACCESS3args) }, func() xdr.Xdrable { return new(rfc1813.ACCESS3args) }},
	{"ACCESS3res", func() xdr.Xdrable { return new(nfstypes.ACCESS3res) }, func() xdr.Xdrable { return new(rfc1813.ACCESS3res) }},
	{"READLINK3args", func() xdr.Xdrable { return new(nfstypes.READLINK3args) }, func() xdr.Xdrable { return new(rfc1813.READLINK3args) }},
	{"READLINK3res", func() xdr.Xdrable { return new(nfstypes.READLINK3res) }, func() xdr.Xdrable { return new(rfc1813.READLINK3res) }},
	{"READ3args", func() xdr.Xdrable { return new(nfstypes.READ3args) }, func() xdr.Xdrable { return new(rfc1813.READ3args) }},
	{"READ3res", func() xdr.Xdrable { return new(nfstypes.READ3res) }, func() xdr.Xdrable { return new(rfc1813.READ3res) }},
	{"WRITE3args", func() xdr.Xdrable { return new(nfstypes.WRITE3args) }, func() xdr.Xdrable { return new(rfc1813.WRITE3args) }},
	{"WRITE3res", func() xdr.Xdrable { return new(nfstypes.WRITE3res) }, func() xdr.Xdrable { return new(rfc1813.WRITE3res) }},
	{"CREATE3args", func() xdr.Xdrable { return new(nfstypes.CREATE3args) }, func() xdr.Xdrable { return new(rfc1813.CREATE3args) }},
	{"CREATE3res", func() xdr.Xdrable { return new(nfstypes.CREATE3res) }, func() xdr.Xdrable { return new(rfc1813.CREATE3res) }},
	{"MKDIR3args", func() xdr.Xdrable { return new(nfstypes.MKDIR3args) }, func() xdr.Xdrable { return new(rfc1813.MKDIR3args) }},
	{"MKDIR3res", func() xdr.Xdrable { return new(nfstypes.MKDIR3res) }, func() xdr.Xdrable { return new(rfc1813.MKDIR3res) }},
	{"SYMLINK3args", func() xdr.Xdrable { return new(nfstypes.SYMLINK3args) }, func() xdr.Xdrable { return new(rfc1813.SYMLINK3args) }},
	{"SYMLINK3res", func() xdr.Xdrable { return new(nfstypes.SYMLINK3res) }, func() xdr.Xdrable { return new(rfc1813.SYMLINK3res) }},
	{"MKNOD3args", func() xdr.Xdrable { return new(nfstypes.MKNOD3args) }, func() xdr.Xdrable { return new(rfc1813.MKNOD3args) }},
	{"MKNOD3res", func() xdr.Xdrable { return new(nfstypes.MKNOD3res) }, func() xdr.Xdrable { return new(rfc1813.MKNOD3res) }},
	{"REMOVE3args", func() xdr.Xdrable { return new(nfstypes.REMOVE3args) }, func() xdr.Xdrable { return new(rfc1813.REMOVE3args) }},
	{"REMOVE3res", func() xdr.Xdrable { return new(nfstypes.REMOVE3res) }, func() xdr.Xdrable { return new(rfc1813.REMOVE3res) }},
	{"RMDIR3args", func() xdr.Xdrable { return new(nfstypes.RMDIR3args) }, func() xdr.Xdrable { return new(rfc1813.RMDIR3args) }},
	{"RMDIR3res", func() xdr.Xdrable { return new(nfstypes.RMDIR3res) }, func() xdr.Xdrable { return new(rfc1813.RMDIR3res) }},
	{"RENAME3args", func() xdr.Xdrable { return new(nfstypes.RENAME3args) }, func() xdr.Xdrable { return new(rfc1813.RENAME3args) }},
	{"RENAME3res", func() xdr.Xdrable { return new(nfstypes.RENAME3res) }, func() xdr.Xdrable { return new(rfc1813.RENAME3res) }},
	{"LINK3args", func() xdr.Xdrable { return new(nfstypes.LINK3args) }, func() xdr.Xdrable { return new(rfc1813.LINK3args) }},
	{"LINK3res", func() xdr.Xdrable { return new(nfstypes.LINK3res) }, func() xdr.Xdrable { return new(rfc1813.LINK3res) }},
	{"READDIR3args", func() xdr.Xdrable { return new(nfstypes.READDIR3args) }, func() xdr.Xdrable { return new(rfc1813.READDIR3args) }},
	{"READDIR3res", func() xdr.Xdrable { return new(nfstypes.READDIR3res) }, func() xdr.Xdrable { return new(rfc1813.READDIR3res) }},
	{"READDIRPLUS3args", func() xdr.Xdrable { return new(nfstypes.READDIRPLUS3args) }, func() xdr.Xdrable { return new(rfc1813.READDIRPLUS3args) }},
	{"READDIRPLUS3res", func() xdr.Xdrable { return new(nfstypes.READDIRPLUS3res) }, func() xdr.Xdrable { return new(rfc1813.READDIRPLUS3res) }},
	{"FSSTAT3args", func() xdr.Xdrable { return new(nfstypes.FSSTAT3args) }, func() xdr.Xdrable { return new(rfc1813.FSSTAT3args) }},
	{"FSSTAT3res", func() xdr.Xdrable { return new(nfstypes.FSSTAT3res) }, func() xdr.Xdrable { return new(rfc1813.FSSTAT3res) }},
	{"FSINFO3args", func() xdr.Xdrable { return new(nfstypes.FSINFO3args) }, func() xdr.Xdrable { return new(rfc1813.FSINFO3args) }},
	{"FSINFO3res", func() xdr.Xdrable { return new(nfstypes.FSINFO3res) }, func() xdr.Xdrable { return new(rfc1813.FSINFO3res) }},
	{"PATHCONF3args", func() xdr.Xdrable { return new(nfstypes.PATHCONF3args) }, func() xdr.Xdrable { return new(rfc1813.PATHCONF3args) }},
	{"PATHCONF3res", func() xdr.Xdrable { return new(nfstypes.PATHCONF3res) }, func() xdr.Xdrable { return new(rfc1813.PATHCONF3res) }},
	{"COMMIT3args", func() xdr.Xdrable { return new(nfstypes.COMMIT3args) }, func() xdr.Xdrable { return new(rfc1813.COMMIT3args) }},
	{"COMMIT3res", func() xdr.Xdrable { return new(nfstypes.COMMIT3res) }, func() xdr.Xdrable { return new(rfc1813.COMMIT3res) }},
	{"Fattr3", func() xdr.Xdrable { return new(nfstypes.Fattr3) }, func() xdr.Xdrable { return new(rfc1813.Fattr3) }},
	{"Sattr3", func() xdr.Xdrable { return new(nfstypes.Sattr3) }, func() xdr.Xdrable { return new(rfc1813.Sattr3) }},
	{"Post_op_attr", func() xdr.Xdrable { return new(nfstypes.Post_op_attr) }, func() xdr.Xdrable { return new(rfc1813.Post_op_attr) }},
	{"Wcc_data", func() xdr.Xdrable { return new(nfstypes.Wcc_data) }, func() xdr.Xdrable { return new(rfc1813.Wcc_data) }},
	{"Post_op_fh3", func() xdr.Xdrable { return new(nfstypes.Post_op_fh3) }, func() xdr.Xdrable { return new(rfc1813.Post_op_fh3) }},
	{"Createhow3", func() xdr.Xdrable { return new(nfstypes.Createhow3) }, func() xdr.Xdrable { return new(rfc1813.Createhow3) }},
	{"Mknoddata3", func() xdr.Xdrable { return new(nfstypes.Mknoddata3) }, func() xdr.Xdrable { return new(rfc1813.Mknoddata3) }},
	{"Entry3", func() xdr.Xdrable { return new(nfstypes.Entry3) }, func() xdr.Xdrable { return new(rfc1813.Entry3) }},
	{"Entryplus3", func() xdr.Xdrable { return new(nfstypes.Entryplus3) }, func() xdr.Xdrable { return new(rfc1813.Entryplus3) }},
	{"Dirlist3", func() xdr.Xdrable { return new(nfstypes.Dirlist3) }, func() xdr.Xdrable { return new(rfc1813.Dirlist3) }},
	{"Dirlistplus3", func() xdr.Xdrable { return new(nfstypes.Dirlistplus3) }, func() xdr.Xdrable { return new(rfc1813.Dirlistplus3) }},
	{"Nfs_fh3", func() xdr.Xdrable { return new(nfstypes.Nfs_fh3) }, func() xdr.Xdrable { return new(rfc1813.Nfs_fh3) }},
	{"Nfstime3", func() xdr.Xdrable { return new(nfstypes.Nfstime3) }, func() xdr.Xdrable { return new(rfc1813.Nfstime3) }},
	{"Diropargs3", func() xdr.Xdrable { return new(nfstypes.Diropargs3) }, func() xdr.Xdrable { return new(rfc1813.Diropargs3) }},
	{"Set_atime", func() xdr.Xdrable { return new(nfstypes.Set_atime) }, func() xdr.Xdrable { return new(rfc1813.Set_atime) }},
	{"Set_mtime", func() xdr.Xdrable { return new(nfstypes.Set_mtime) }, func() xdr.Xdrable { return new(rfc1813.Set_mtime) }},
	{"Sattrguard3", func() xdr.Xdrable { return new(nfstypes.Sattrguard3) }, func() xdr.Xdrable { return new(rfc1813.Sattrguard3) }},
	{"Mountres3", func() xdr.Xdrable { return new(nfstypes.Mountres3) }, func() xdr.Xdrable { return new(rfc1813.Mountres3) }},
	{"Mountopt3", func() xdr.Xdrable { return new(nfstypes.Mountopt3) }, func() xdr.Xdrable { return new(rfc1813.Mountopt3) }},
	{"Exportsopt3", func() xdr.Xdrable { return new(nfstypes.Exportsopt3) }, func() xdr.Xdrable { return new(rfc1813.Exportsopt3) }},
	{"Dirpath3", func() xdr.Xdrable { return new(nfstypes.Dirpath3) }, func() xdr.Xdrable { return new(rfc1813.Dirpath3) }},
	{"Exports3", func() xdr.Xdrable { return new(nfstypes.Exports3) }, func() xdr.Xdrable { return new(rfc1813.Exports3) }},
	{"Groups3", func() xdr.Xdrable { return new(nfstypes.Groups3) }, func() xdr.Xdrable { return new(rfc1813.Groups3) }},
	{"Mount3", func() xdr.Xdrable { return new(nfstypes.Mount3) }, func() xdr.Xdrable { return new(rfc1813.Mount3) }},
	{"Mountres3_ok", func() xdr.Xdrable { return new(nfstypes.Mountres3_ok) }, func() xdr.Xdrable { return new(rfc1813.Mountres3_ok) }},
}
