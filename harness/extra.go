package main

// extraCmd dispatches the property-specific subcommands (added file by file).
var extraCmds = map[string]func(args []string){}

func extraCmd(cmd string, args []string) bool {
	f, ok := extraCmds[cmd]
	if !ok {
		return false
	}
	f(args)
	return true
}
