package main

// atmodel: alloctxn.AllocTxn over the real block allocator and the real on-disk bitmap, several transactions open at
// once (interleaved by this driver, one operation at a time): AllocBlock / FreeBlock / PreCommit+CommitWait+PostCommit
// / PostAbort.  After every operation the data-region part of the on-disk bitmap (through the journal) and the number
// of blocks the in-memory allocator marks are written out; the model driver runs the extracted AT
// (Model/AllocModel.v) on the same operations - with the numbers AllocBlock actually returned - and compares.
// FreeBlock is only called under AT's guards (the number is in use: committed or allocated by this transaction, and
// nobody has recorded it as freed), which is what the layers above guarantee.

import (
	"bufio"
	"flag"
	"fmt"
	"math/rand"
	"os"
	"sort"

	"github.com/mit-pdos/go-journal/addr"
	"github.com/mit-pdos/go-journal/common"
	"github.com/mit-pdos/go-nfsd/alloctxn"
	"github.com/mit-pdos/go-nfsd/nfs"
)

func runAtModel(seed int64, nops int, out string) {
	f, _ := os.Create(out)
	defer f.Close()
	w := bufio.NewWriterSize(f, 1<<20)
	defer w.Flush()
	rng := rand.New(rand.NewSource(seed))
	const size = 3000
	d := NewSDisk(size)
	srv := nfs.MakeNfs(d)
	defer srv.ShutdownNfs()
	st := srv.VerifState()
	ds := uint64(st.Super.DataStart())
	diskSet := func() []uint64 {
		var r []uint64
		for b := ds; b < size; b++ {
			blk := st.Txn.Load(addr.MkAddr(st.Super.BitmapBlockStart()+common.Bnum(b/32768), 0), common.NBITBLOCK).Data
			if blk[(b%32768)/8]&(1<<(b%8)) != 0 {
				r = append(r, b)
			}
		}
		return r
	}
	total := uint64(st.Super.NBlockBitmap) * 32768
	init := diskSet()
	below := total - st.Balloc.NumFree() - uint64(len(init)) // marked outside the data region: constant
	dump := func() {
		s := diskSet()
		fmt.Fprintf(w, "AS %d %d", total-st.Balloc.NumFree()-below, len(s))
		for _, b := range s {
			fmt.Fprintf(w, " %d", b)
		}
		fmt.Fprintln(w)
	}
	fmt.Fprintf(w, "AI %d\n", ds)
	dump()
	type txn struct {
		a       *alloctxn.AllocTxn
		al, fr  []uint64
	}
	open := map[int]*txn{}
	nextT := 0
	freed := map[uint64]bool{}   // recorded as freed by a running transaction
	inuse := map[uint64]bool{}   // committed by this run (never the blocks the file system itself uses)
	keys := func() []int {
		var k []int
		for t := range open {
			k = append(k, t)
		}
		sort.Ints(k)
		return k
	}
	for i := 0; i < nops; i++ {
		ks := keys()
		c := rng.Intn(10)
		switch {
		case len(ks) == 0 || (c == 0 && len(ks) < 3):
			t := nextT
			nextT++
			open[t] = &txn{a: alloctxn.Begin(st.Super, st.Txn, st.Balloc, st.Ialloc)}
			fmt.Fprintf(w, "AO begin %d\n", t)
		case c <= 4:
			t := ks[rng.Intn(len(ks))]
			n := uint64(open[t].a.AllocBlock())
			if n != 0 {
				open[t].al = append(open[t].al, n)
			}
			fmt.Fprintf(w, "AO alloc %d %d\n", t, n)
		case c <= 6:
			t := ks[rng.Intn(len(ks))]
			var cand []uint64
			for b := range inuse {
				if !freed[b] {
					cand = append(cand, b)
				}
			}
			for _, b := range open[t].al {
				if !freed[b] {
					cand = append(cand, b)
				}
			}
			if len(cand) == 0 {
				fmt.Fprintf(w, "AO nop\n")
				break
			}
			sort.Slice(cand, func(i, j int) bool { return cand[i] < cand[j] })
			n := cand[rng.Intn(len(cand))]
			open[t].a.FreeBlock(common.Bnum(n))
			open[t].fr = append(open[t].fr, n)
			freed[n] = true
			fmt.Fprintf(w, "AO free %d %d\n", t, n)
		case c <= 8:
			t := ks[rng.Intn(len(ks))]
			x := open[t]
			x.a.PreCommit()
			ok := x.a.Op.CommitWait(true)
			if !ok {
				fmt.Fprintf(w, "AX commit-refused\n")
				return
			}
			x.a.PostCommit()
			for _, b := range x.al {
				inuse[b] = true
			}
			for _, b := range x.fr {
				delete(inuse, b)
				delete(freed, b)
			}
			delete(open, t)
			fmt.Fprintf(w, "AO commit %d\n", t)
		default:
			t := ks[rng.Intn(len(ks))]
			x := open[t]
			x.a.PostAbort()
			for _, b := range x.fr {
				delete(freed, b)
			}
			delete(open, t)
			fmt.Fprintf(w, "AO abort %d\n", t)
		}
		dump()
	}
	fmt.Fprintf(w, "AE %d\n", nops)
}

func init() {
	extraCmds["atmodel"] = func(args []string) {
		fs := flag.NewFlagSet("atmodel", flag.ExitOnError)
		seed := fs.Int64("seed", 1, "")
		nops := fs.Int("nops", 300, "")
		out := fs.String("out", "/dev/stdout", "")
		fs.Parse(args)
		runAtModel(*seed, *nops, *out)
	}
}
