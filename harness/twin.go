package main

import (
	"crypto/md5"
	"encoding/hex"
	"fmt"
	"sort"
	"strings"

	"github.com/mit-pdos/go-nfsd/fh"
	"github.com/mit-pdos/go-nfsd/nfs"
)

// walk renders everything a client can observe of a server through the API, depth first from the
// root: names, handles, types, sizes, file ids, client-visible times, data digests, link targets.
func walk(srv *nfs.Nfs) []string {
	var out []string
	var rec func(h []byte, path string, depth int)
	rec = func(h []byte, path string, depth int) {
		if depth > 40 {
			out = append(out, path+" TOO-DEEP")
			return
		}
		g := Exec(srv, Op{Proc: "getattr"}, h, nil)
		out = append(out, fmt.Sprintf("%s attr code=%d %d:%d:%d:%d:%d:%d:%d", path, g.Code, g.A.Ftype, g.A.Size, g.A.Fileid, g.A.As, g.A.An, g.A.Ms, g.A.Mn))
		if g.Code != 0 {
			return
		}
		switch g.A.Ftype {
		case 1:
			var sum = md5.New()
			var n uint64
			for off := uint64(0); off < g.A.Size; {
				r := Exec(srv, Op{Proc: "read", Off: off, Cnt: 1 << 16}, h, nil)
				if r.Code != 0 || len(r.Data) == 0 {
					out = append(out, fmt.Sprintf("%s read code=%d short at %d", path, r.Code, off))
					break
				}
				sum.Write(r.Data)
				off += uint64(len(r.Data))
				n += uint64(len(r.Data))
				if n > 8<<20 {
					break
				}
			}
			out = append(out, fmt.Sprintf("%s data %d %s", path, n, hex.EncodeToString(sum.Sum(nil))))
		case 5:
			r := Exec(srv, Op{Proc: "readlink"}, h, nil)
			out = append(out, fmt.Sprintf("%s link code=%d %s", path, r.Code, hexs(r.Data)))
		case 2:
			// full listing by pages
			var ents []DirEnt
			cookie := uint64(0)
			for i := 0; i < 2000; i++ {
				r := Exec(srv, Op{Proc: "readdirplus", Cookie: cookie, Dircount: 8192, Maxcount: 32768}, h, nil)
				if r.Code != 0 {
					out = append(out, fmt.Sprintf("%s list code=%d", path, r.Code))
					break
				}
				ents = append(ents, r.Ents...)
				if r.Eof || len(r.Ents) == 0 {
					break
				}
				cookie = r.Ents[len(r.Ents)-1].Cookie
			}
			sort.Slice(ents, func(i, j int) bool { return ents[i].Name < ents[j].Name })
			for _, e := range ents {
				out = append(out, fmt.Sprintf("%s/%s ent fileid=%d cookie=%d h=%s", path, hexs([]byte(e.Name)), e.Fileid, e.Cookie, hexs(e.H)))
			}
			for _, e := range ents {
				if e.Name == "." || e.Name == ".." {
					continue
				}
				l := Exec(srv, Op{Proc: "lookup", Name: e.Name}, h, nil)
				if l.Code != 0 {
					out = append(out, fmt.Sprintf("%s/%s lookup code=%d", path, hexs([]byte(e.Name)), l.Code))
					continue
				}
				rec(l.H, path+"/"+hexs([]byte(e.Name)), depth+1)
			}
		}
	}
	rec(fh.MkRootFh3().Data, "", 0)
	return out
}

// Twin starts a second real server on a copy of the current raw disk (it runs log recovery) and
// compares everything observable, plus the allocators, with the running server.
func (r *Runner) Twin(id int) {
	r.Idle()
	img := r.d.Clone()
	var twin *nfs.Nfs
	func() {
		defer func() { recover() }()
		twin = nfs.MakeNfs(img)
	}()
	if twin == nil {
		fmt.Fprintf(r.w, "W %d diff recovery-panicked\n", id)
		return
	}
	twin.Unstable = r.srv.Unstable
	a := walk(r.srv)
	b := walk(twin)
	var diffs []string
	if len(a) != len(b) {
		diffs = append(diffs, fmt.Sprintf("transcript-length:%d/%d", len(a), len(b)))
	}
	for i := 0; i < len(a) && i < len(b) && len(diffs) < 4; i++ {
		if a[i] != b[i] {
			diffs = append(diffs, strings.ReplaceAll("running["+a[i]+"]restarted["+b[i]+"]", " ", "_"))
		}
	}
	s1, s2 := r.srv.VerifState(), twin.VerifState()
	if s1.Balloc.NumFree() != s2.Balloc.NumFree() || s1.Ialloc.NumFree() != s2.Ialloc.NumFree() {
		diffs = append(diffs, fmt.Sprintf("allocators:running(%d,%d)/restarted(%d,%d)", s1.Balloc.NumFree(), s1.Ialloc.NumFree(), s2.Balloc.NumFree(), s2.Ialloc.NumFree()))
	}
	// both must also answer the same to a mutating probe
	for _, srv := range []*nfs.Nfs{twin} {
		root := fh.MkRootFh3().Data
		roomy := srv.VerifState().Balloc.NumFree() >= 8 && srv.VerifState().Ialloc.NumFree() >= 1
		c := Exec(srv, Op{Proc: "create", Name: fmt.Sprintf("ztwin%d", id)}, root, nil)
		if c.Code == 0 && roomy {
			w := Exec(srv, Op{Proc: "write", Off: 0, Cnt: 100, Stable: 2, Data: DataSpec{Pat: true, Len: 100, Seed: 5}}, c.H, nil)
			rd := Exec(srv, Op{Proc: "read", Off: 0, Cnt: 100}, c.H, nil)
			if w.Code != 0 || rd.Code != 0 || len(rd.Data) != 100 {
				diffs = append(diffs, fmt.Sprintf("restarted-server-probe:write=%d,read=%d/%d", w.Code, rd.Code, len(rd.Data)))
			}
		}
	}
	twin.ShutdownNfs()
	if len(diffs) == 0 {
		fmt.Fprintf(r.w, "W %d same %d\n", id, len(a))
	} else {
		fmt.Fprintf(r.w, "W %d diff %s\n", id, strings.Join(diffs, ","))
	}
}
