package main

import (
	"fmt"
	"math/rand"
	"sort"
	"strings"
)

// Structured operation generator.  It keeps an approximate picture of the
// tree (learnt from replies) so that most operations are meaningful; the exact
// reference is the Coq model, not this picture.

type gobj struct {
	sym    string // symbolic handle
	kind   int    // 1 file, 2 dir, 5 symlink
	parent *gobj
	name   string
	kids   map[string]*gobj
	size   uint64
	dead   bool
}

type Profile struct {
	Name      string
	W         map[string]int // op weights
	MaxWrite  uint64
	BigOffset bool // offsets at indirection boundaries
	Reclaim   bool // second phase deletes everything
	Fill      bool // early phase fills the disk
	Lazy      bool // most sequences do not wait for the background shrinker after every call
	Steer     map[string]bool
}

type Gen struct {
	rng          *rand.Rand
	p            Profile
	root         *gobj
	live         []*gobj
	dead         []*gobj
	next         int
	wtmax        uint64
	maxfs        uint64
	nmax         uint64
	pend         *pending
	deleting     bool
	filling      int // >0: fill phase, current step in blocks
	filler       *gobj
	fillDone     bool
	fillCreate   int
	fillWrite    int
	queue        []Op  // operations that must come next
	qpend        []*pending // what the generator must learn from each queued operation's reply (nil: nothing)
	unstableFile *gobj // a file with acknowledged unstable data not yet committed
	free         uint64 // free data blocks as the server reported them after the last call (an observation, like a reply)
	haveFree     bool
	nameCtr      int
}

type pending struct {
	op     Op
	parent *gobj
	target *gobj
	dst    *gobj
	tag    string
}

func defaultWeights() map[string]int {
	return map[string]int{
		"create": 10, "mkdir": 5, "symlink": 3, "write": 14, "read": 10, "truncate": 6, "settime": 2,
		"getattr": 3, "lookup": 5, "access": 1, "readlink": 2, "remove": 6, "rmdir": 3, "rename": 7,
		"readdir": 3, "readdirplus": 3, "commit": 2, "stale": 4, "restart": 1, "unsupported": 1,
		"badname": 2, "fsinfo": 1,
	}
}

func NewGen(seed int64, p Profile) *Gen {
	g := &Gen{rng: rand.New(rand.NewSource(seed)), p: p, next: 1}
	g.root = &gobj{sym: "root", kind: 2, kids: map[string]*gobj{}}
	g.root.parent = g.root
	g.live = []*gobj{g.root}
	if g.p.W == nil {
		g.p.W = defaultWeights()
	}
	if g.p.MaxWrite == 0 {
		g.p.MaxWrite = 20000
	}
	return g
}

func (g *Gen) pick(kind int) *gobj {
	var c []*gobj
	for _, o := range g.live {
		if kind == 0 || o.kind == kind {
			c = append(c, o)
		}
	}
	if len(c) == 0 {
		return nil
	}
	return c[g.rng.Intn(len(c))]
}

func (g *Gen) weighted() string {
	keys := make([]string, 0, len(g.p.W))
	tot := 0
	for k, w := range g.p.W {
		if w > 0 {
			keys = append(keys, k)
			tot += w
		}
	}
	sort.Strings(keys)
	x := g.rng.Intn(tot)
	for _, k := range keys {
		x -= g.p.W[k]
		if x < 0 {
			return k
		}
	}
	return keys[0]
}

func (g *Gen) newName(d *gobj) string {
	if g.p.Steer["longnames"] && d != nil && len(d.kids) > 0 && g.rng.Intn(6) == 0 {
		// one of the names added to this directory last (they sit at its end): must be refused as existing, also
		// right after the name cache has been rebuilt
		var cand []string // sorted by the counter the names end in (map order must not reach the generator)
		for n := range d.kids {
			if len(n) > 5 {
				cand = append(cand, n[len(n)-5:]+n)
			}
		}
		sort.Strings(cand)
		if len(cand) > 0 {
			k := len(cand) - 1 - g.rng.Intn(10)
			if k < 0 {
				k = 0
			}
			return cand[k][5:]
		}
	}
	if g.p.Steer["longnames"] && g.rng.Intn(24) != 0 {
		// distinct names a little below the announced limit
		n := int(g.nmax) - g.rng.Intn(6)
		if n < 6 {
			n = 6
		}
		g.nameCtr++
		return strings.Repeat("L", n-5) + fmt.Sprintf("%05d", g.nameCtr)
	}
	switch g.rng.Intn(12) {
	case 0: // long legal name around the announced limit
		n := int(g.nmax) - g.rng.Intn(3)
		if n < 1 {
			n = 1
		}
		return strings.Repeat("L", n-1) + fmt.Sprint(g.rng.Intn(10))
	case 1:
		return fmt.Sprintf("n%d", g.rng.Intn(1000))
	}
	return fmt.Sprintf("%c%d", "fdsx"[g.rng.Intn(4)], g.rng.Intn(8))
}

func (g *Gen) existingName(d *gobj) (string, *gobj) {
	if len(d.kids) == 0 {
		return "", nil
	}
	ks := make([]string, 0, len(d.kids))
	for k := range d.kids {
		ks = append(ks, k)
	}
	sort.Strings(ks)
	k := ks[g.rng.Intn(len(ks))]
	return k, d.kids[k]
}

var boundaries = []uint64{0, 1, 100, 4095, 4096, 4097, 8192, 32767, 32768, 32769, 8 * 4096, 9 * 4096,
	(8 + 512) * 4096, (8+512)*4096 - 1, (8+512)*4096 + 1, (8 + 513) * 4096, (8 + 512 + 512) * 4096, (8 + 512 + 513) * 4096}

func (g *Gen) offset(f *gobj) uint64 {
	switch g.rng.Intn(10) {
	case 0, 1, 2:
		return 0
	case 3, 4:
		if f.size > 0 {
			return uint64(g.rng.Int63n(int64(f.size)))
		}
		return 0
	case 5:
		return f.size
	case 6:
		return f.size + uint64(g.rng.Intn(9000))
	case 7:
		if g.p.BigOffset {
			b := boundaries[g.rng.Intn(len(boundaries))]
			d := uint64(g.rng.Intn(3))
			if b >= d && g.rng.Intn(2) == 0 {
				return b - d
			}
			return b + d
		}
		return uint64(g.rng.Intn(5)) * 4096
	case 8:
		return uint64(g.rng.Intn(20)) * 4096
	}
	return uint64(g.rng.Intn(70000))
}

func (g *Gen) length() uint64 {
	switch g.rng.Intn(10) {
	case 0:
		return 1
	case 1:
		return 4096
	case 2:
		return 4096*uint64(1+g.rng.Intn(3)) + uint64(g.rng.Intn(3)) - 1
	case 3:
		return uint64(1 + g.rng.Intn(int(g.p.MaxWrite)))
	case 4:
		return 0
	}
	return uint64(1 + g.rng.Intn(3000))
}

func (g *Gen) id() int { g.next++; return g.next - 1 }

// nextDelete removes a leaf (a file, a symlink or an empty directory).
func (g *Gen) nextDelete() (Op, bool) {
	for _, o := range g.live {
		if o == g.root || len(o.kids) > 0 {
			continue
		}
		proc := "remove"
		if o.kind == 2 {
			proc = "rmdir"
		}
		op := Op{Id: g.id(), Proc: proc, H: o.parent.sym, Name: o.name}
		g.pend = &pending{parent: o.parent, target: o, op: op}
		return op, true
	}
	return Op{}, false
}

// nextFill drives the disk to (almost) full: append to a filler file with halving steps until
// nothing fits, then give back one to three blocks, so that later requests fail part-way.
func (g *Gen) nextFill() (Op, bool) {
	if g.filler == nil || g.filler.dead {
		name := fmt.Sprintf("filler%d", g.rng.Intn(1000))
		o := Op{Id: g.id(), Proc: "create", H: "root", Name: name}
		g.pend = &pending{parent: g.root, op: o}
		g.fillCreate = o.Id
		return o, true
	}
	n := uint64(g.filling) * 4096
	o := Op{Id: g.id(), Proc: "write", H: g.filler.sym, Off: (g.filler.size + 4095) / 4096 * 4096, Cnt: n, Stable: 2,
		Data: DataSpec{Pat: true, Len: n, Seed: uint64(g.rng.Intn(250))}}
	g.pend = &pending{target: g.filler, op: o}
	g.fillWrite = o.Id
	return o, true
}

func (g *Gen) enq(p *pending, ops ...Op) {
	for i, o := range ops {
		g.queue = append(g.queue, o)
		if i == len(ops)-1 {
			g.qpend = append(g.qpend, p)
		} else {
			g.qpend = append(g.qpend, nil)
		}
	}
}

// Next produces the next operation.
func (g *Gen) Next() Op {
	if len(g.queue) > 0 {
		o := g.queue[0]
		g.queue = g.queue[1:]
		var qp *pending
		if len(g.qpend) > 0 {
			qp = g.qpend[0]
			g.qpend = g.qpend[1:]
		}
		o.Id = g.id()
		if o.Proc == "commit" && g.unstableFile != nil {
			g.pend = &pending{target: g.unstableFile, op: o}
		}
		if qp != nil {
			qp.op = o
			g.pend = qp
		}
		return o
	}
	if g.filling > 0 {
		if o, ok := g.nextFill(); ok {
			return o
		}
	}
	if g.deleting {
		if o, ok := g.nextDelete(); ok {
			return o
		}
		return Op{Id: g.id(), Proc: "readdirplus", H: "root", Dircount: 1 << 20, Maxcount: 1 << 20}
	}
	for tries := 0; tries < 50; tries++ {
		o, ok := g.try(g.weighted())
		if ok {
			return o
		}
	}
	return Op{Id: g.id(), Proc: "getattr", H: "root"}
}

func (g *Gen) isAncestor(a, d *gobj) bool {
	// (bounded: when the server has accepted a rename of a directory into its own subtree - open finding F15 - the
	// generator's picture of the tree has a cycle that never reaches the root)
	n := 0
	for x := d; ; x = x.parent {
		if x == a {
			return true
		}
		if x.parent == x || x.parent == nil {
			return false
		}
		if n++; n > 4096 {
			return true
		}
	}
}

func (g *Gen) try(k string) (Op, bool) {
	o := Op{}
	switch k {
	case "create", "mkdir", "symlink":
		d := g.pick(2)
		o = Op{Proc: k, H: d.sym, Name: g.newName(d)}
		if k == "create" {
			o.Mode = uint32(g.rng.Intn(2))
			if g.rng.Intn(40) == 0 {
				o.Mode = 2
			}
		}
		if k == "symlink" {
			o.Data = DataSpec{Pat: true, Len: uint64(1 + g.rng.Intn(200)), Seed: uint64(g.rng.Intn(200))}
		}
		g.pend = &pending{parent: d}
	case "write":
		f := g.pick(1)
		if f == nil {
			return o, false
		}
		n := g.length()
		o = Op{Proc: "write", H: f.sym, Off: g.offset(f), Cnt: n, Stable: uint32(g.rng.Intn(3)),
			Data: DataSpec{Pat: true, Len: n, Seed: uint64(g.rng.Intn(250))}}
		g.pend = &pending{target: f}
	case "abortcommit": // unstable data pending; a refused request on that file; then a good COMMIT
		f := g.unstableFile
		if f == nil || f.dead {
			return o, false
		}
		o = Op{Proc: "commit", H: f.sym, Off: f.size + 10, Cnt: 10}
		if g.rng.Intn(2) == 0 {
			o = Op{Proc: "write", H: f.sym, Off: 0, Cnt: 50, Stable: 0, Data: DataSpec{Pat: true, Len: 7, Seed: 1}} // count mismatch
		}
		g.enq(nil, Op{Proc: "commit", H: f.sym})
	case "shrinkrace": // a large file cut down (freed in the background) and touched again straight away
		var f *gobj
		for _, x := range g.live {
			if x.kind == 1 && x != g.filler && x.size >= 600*4096 && (f == nil || x.size > f.size) {
				f = x
			}
		}
		if f == nil {
			// make one: append a large piece to some file
			f = g.pick(1)
			if f == nil || g.wtmax < 300*4096 {
				return o, false
			}
			n := g.wtmax / 4096 * 4096
			o = Op{Proc: "write", H: f.sym, Off: (f.size + 4095) / 4096 * 4096, Cnt: n, Stable: 2, Data: DataSpec{Pat: true, Len: n, Seed: uint64(g.rng.Intn(250))}}
			g.pend = &pending{target: f}
			if f.size+n < 600*4096 && len(g.queue) == 0 {
				off2 := (f.size+4095)/4096*4096 + n
				g.enq(&pending{target: f}, Op{Proc: "write", H: f.sym, Off: off2, Cnt: n, Stable: 2, Data: DataSpec{Pat: true, Len: n, Seed: uint64(g.rng.Intn(250))}})
			}
			break
		}
		nsz := uint64(g.rng.Intn(12)) * 4096
		if g.rng.Intn(2) == 0 {
			nsz += uint64(1 + g.rng.Intn(4095))
		}
		o = Op{Proc: "setattr", H: f.sym, HasSize: true, Size: nsz}
		g.pend = &pending{target: f}
		switch g.rng.Intn(9) {
		case 6, 7, 8:
			// a write that starts inside the shortened file and ends beyond its last block, while the blocks above
			// are still being freed; then the file grows again: what comes back must be zeros
			if nsz >= 200 {
				k := uint64(300 + 4096*g.rng.Intn(3)) // ends in the last block, or one or two blocks beyond it
				g.enq(&pending{target: f}, Op{Proc: "write", H: f.sym, Off: nsz - 100, Cnt: k, Stable: 2, Data: DataSpec{Pat: true, Len: k, Seed: 9}})
			} else {
				g.enq(&pending{target: f}, Op{Proc: "write", H: f.sym, Off: 0, Cnt: 5000, Stable: 2, Data: DataSpec{Pat: true, Len: 5000, Seed: 9}})
			}
			g.enq(&pending{target: f}, Op{Proc: "setattr", H: f.sym, HasSize: true, Size: nsz + 9*4096})
			g.enq(nil, Op{Proc: "read", H: f.sym, Off: 0, Cnt: nsz + 10*4096})
		case 0, 1:
			g.enq(&pending{parent: f.parent, target: f}, Op{Proc: "remove", H: f.parent.sym, Name: f.name})
		case 2:
			g.enq(&pending{target: f}, Op{Proc: "setattr", H: f.sym, HasSize: true, Size: nsz / 2})
		case 3:
			g.enq(&pending{target: f}, Op{Proc: "write", H: f.sym, Off: nsz + 3*4096, Cnt: 5000, Stable: 2, Data: DataSpec{Pat: true, Len: 5000, Seed: 7}})
			g.enq(nil, Op{Proc: "read", H: f.sym, Off: 0, Cnt: nsz + 6*4096})
		case 4:
			// another file renamed over it
			var other *gobj
			for _, x := range g.live {
				if x.kind == 1 && x != f && x != g.filler {
					other = x
					break
				}
			}
			if other != nil {
				g.enq(&pending{parent: other.parent, target: other, dst: f.parent}, Op{Proc: "rename", H: other.parent.sym, Name: other.name, H2: f.parent.sym, Name2: f.name})
			}
		default:
			g.enq(nil, Op{Proc: "read", H: f.sym, Off: 0, Cnt: nsz + 8192})
		}
		if g.rng.Intn(2) == 0 {
			// the freed inode number is taken again at once
			g.enq(&pending{parent: g.root}, Op{Proc: "create", H: "root", Name: g.newName(g.root)})
		}
	case "selfmove": // a directory renamed into itself onto an existing name, or onto "." / ".." (must be refused)
		var d *gobj
		for _, x := range g.live {
			if x.kind == 2 && x != g.root && len(x.kids) > 0 {
				d = x
				break
			}
		}
		if d == nil {
			return o, false
		}
		n2, _ := g.existingName(d)
		switch g.rng.Intn(5) {
		case 0:
			n2 = "."
		case 1:
			n2 = ".."
		case 2, 3:
			// onto a name that does not exist yet; if that were accepted the directory would contain itself,
			// and moving that entry out again onto an existing name locks the directory twice
			n2 = fmt.Sprintf("self%d", g.rng.Intn(100))
			var other *gobj
			for _, x := range g.live {
				if x.kind == 2 && x != d && !g.isAncestor(d, x) && len(x.kids) > 0 {
					other = x
					break
				}
			}
			if other != nil {
				n3, _ := g.existingName(other)
				g.enq(nil, Op{Proc: "rename", H: d.sym, Name: n2, H2: other.sym, Name2: n3}, Op{Proc: "getattr", H: d.sym})
			}
		}
		o = Op{Proc: "rename", H: d.parent.sym, Name: d.name, H2: d.sym, Name2: n2}
	case "hostile": // arbitrary argument values: the only question is whether the server survives
		o = g.hostile()
	case "giveback":
		if g.filler == nil || g.filler.dead || !g.fillDone || g.filler.size < 4*4096 {
			return o, false
		}
		k := uint64(1 + g.rng.Intn(3))
		o = Op{Proc: "setattr", H: g.filler.sym, HasSize: true, Size: (g.filler.size/4096 - k) * 4096}
		g.pend = &pending{target: g.filler}
	case "dirover": // inside a fresh directory: one sub-directory renamed over another, everything removed again, then the dead handle is used
		d := g.pick(2)
		pn := g.newName(d)
		base := g.next // the id (and so the handle symbol) the mkdir below is going to get
		ph := fmt.Sprintf("@%d", base)
		o = Op{Proc: "mkdir", H: d.sym, Name: pn}
		g.pend = &pending{parent: d}
		g.enq(nil,
			Op{Proc: "mkdir", H: ph, Name: "x"}, Op{Proc: "mkdir", H: ph, Name: "y"},
			Op{Proc: "rename", H: ph, Name: "x", H2: ph, Name2: "y"},
			Op{Proc: "rmdir", H: ph, Name: "y"},
			Op{Proc: "rmdir", H: d.sym, Name: pn},
			Op{Proc: "getattr", H: ph}, Op{Proc: "lookup", H: ph, Name: "x"}, Op{Proc: "create", H: ph, Name: "z"},
			Op{Proc: "readdirplus", H: ph, Dircount: 1 << 20, Maxcount: 1 << 20})
	case "maxwrite": // a WRITE of (nearly) the largest size the server announces, at an offset that needs index blocks too
		f := g.pick(1)
		if f == nil || g.wtmax < 8192 {
			return o, false
		}
		n := g.wtmax - []uint64{0, 1, 16, 4095, 4096, 8192}[g.rng.Intn(6)]
		off := []uint64{0, 100, 8 * 4096, 8*4096 - 100, (8+512)*4096 - 300*4096 + 7, (8+512)*4096 - 300*4096 + 7}[g.rng.Intn(6)]
		if off > 9*4096 {
			// unaligned and across the first index boundary: the most journal space one WRITE can need; keep it at the limit
			n = g.wtmax - []uint64{0, 0, 1, 16}[g.rng.Intn(4)]
		}
		big := Op{Proc: "write", H: f.sym, Off: off, Cnt: n, Stable: uint32(g.rng.Intn(3)), Data: DataSpec{Pat: true, Len: n, Seed: uint64(g.rng.Intn(250))}}
		if g.unstableFile != nil && !g.unstableFile.dead {
			o = big
			g.pend = &pending{target: f}
			g.enq(nil, Op{Proc: "commit", H: g.unstableFile.sym})
		} else if g.p.Steer["unstablefirst"] {
			// unstable data pending on one file, the large write (which the journal may refuse), then COMMIT
			k := uint64(1 + g.rng.Intn(6000))
			o = Op{Proc: "write", H: f.sym, Off: g.offset(f), Cnt: k, Stable: 0, Data: DataSpec{Pat: true, Len: k, Seed: uint64(g.rng.Intn(250))}}
			g.pend = &pending{target: f}
			g.enq(&pending{target: f}, big)
			g.enq(nil, Op{Proc: "commit", H: f.sym})
		} else {
			o = big
			g.pend = &pending{target: f}
		}
	case "holefill": // a hole inside the file, then the hole is filled without growing the file (any stability level), then COMMIT
		f := g.pick(1)
		if f == nil {
			return o, false
		}
		base := (f.size/4096 + 1) * 4096
		far := base + uint64(1+g.rng.Intn(3))*4096
		k := uint64(1 + g.rng.Intn(5000))
		o = Op{Proc: "write", H: f.sym, Off: far, Cnt: k, Stable: uint32(g.rng.Intn(3)), Data: DataSpec{Pat: true, Len: k, Seed: uint64(g.rng.Intn(250))}}
		g.pend = &pending{target: f}
		m := uint64(1 + g.rng.Intn(4096))
		g.enq(&pending{target: f}, Op{Proc: "write", H: f.sym, Off: base + uint64(g.rng.Intn(2))*uint64(g.rng.Intn(int(4097-m))), Cnt: m, Stable: uint32(g.rng.Intn(3)),
			Data: DataSpec{Pat: true, Len: m, Seed: uint64(g.rng.Intn(250))}})
		g.enq(nil, Op{Proc: "commit", H: f.sym})
	case "hugesymlink": // a link target larger than one transaction can log: the commit itself must fail cleanly
		d := g.pick(2)
		n := uint64(512+g.rng.Intn(120)) * 4096
		if g.rng.Intn(3) == 0 {
			n = g.wtmax + 1 + uint64(g.rng.Intn(100000))
		}
		o = Op{Proc: "symlink", H: d.sym, Name: g.newName(d), Data: DataSpec{Pat: true, Len: n, Seed: uint64(g.rng.Intn(200))}}
		g.pend = &pending{parent: d}
		if g.unstableFile != nil && !g.unstableFile.dead {
			// a request the journal refuses, then a COMMIT: the pending unstable data must still become durable
			g.enq(nil, Op{Proc: "commit", H: g.unstableFile.sym})
		}
	case "oneleft": // bring the disk to exactly one or two free blocks, then write into an index range of a small file
		if g.filler == nil || g.filler.dead || !g.fillDone || !g.haveFree || len(g.queue) > 0 {
			return o, false
		}
		var f *gobj
		for _, x := range g.live {
			if x.kind == 1 && x != g.filler && x.size <= 8*4096 {
				f = x
				break
			}
		}
		if f == nil {
			return o, false
		}
		want := uint64(1 + g.rng.Intn(2))
		offs := []uint64{8, 9, 100, 519, 520, 521, 1032, 1033}
		n := uint64(1 + g.rng.Intn(5000))
		iw := Op{Proc: "write", H: f.sym, Off: offs[g.rng.Intn(len(offs))]*4096 + uint64(g.rng.Intn(2))*100, Cnt: n, Stable: 2,
			Data: DataSpec{Pat: true, Len: n, Seed: uint64(g.rng.Intn(250))}}
		switch {
		case g.free == want:
			o = iw
			g.pend = &pending{target: f, tag: "indwrite"}
		case g.free < want:
			if g.filler.size < (want-g.free+1)*4096 {
				return o, false
			}
			o = Op{Proc: "setattr", H: g.filler.sym, HasSize: true, Size: (g.filler.size/4096 - (want - g.free)) * 4096}
			g.pend = &pending{target: g.filler}
			g.enq(&pending{target: f, tag: "indwrite"}, iw)
		default:
			k := (g.free - want) * 4096
			if k > g.wtmax/4096*4096 {
				k = g.wtmax / 4096 * 4096
			}
			o = Op{Proc: "write", H: g.filler.sym, Off: (g.filler.size + 4095) / 4096 * 4096, Cnt: k, Stable: 2, Data: DataSpec{Pat: true, Len: k, Seed: uint64(g.rng.Intn(250))}}
			g.pend = &pending{target: g.filler}
			if k == (g.free-want)*4096 {
				g.enq(&pending{target: f, tag: "indwrite"}, iw)
			}
		}
	case "indwrite": // a small write in the indirect / double-indirect range of a small file
		f := g.pick(1)
		if f == nil || f == g.filler {
			return o, false
		}
		offs := []uint64{8, 9, 100, 519, 520, 521, 1032, 1033}
		n := uint64(1 + g.rng.Intn(5000))
		o = Op{Proc: "write", H: f.sym, Off: offs[g.rng.Intn(len(offs))]*4096 + uint64(g.rng.Intn(2))*100, Cnt: n, Stable: 2,
			Data: DataSpec{Pat: true, Len: n, Seed: uint64(g.rng.Intn(250))}}
		g.pend = &pending{target: f, tag: "indwrite"}
	case "bigwrite":
		f := g.pick(1)
		if f == nil {
			return o, false
		}
		n := uint64(200+g.rng.Intn(290)) * 4096
		if n > g.wtmax {
			n = g.wtmax
		}
		o = Op{Proc: "write", H: f.sym, Off: f.size / 4096 * 4096, Cnt: n, Stable: uint32(g.rng.Intn(3)),
			Data: DataSpec{Pat: true, Len: n, Seed: uint64(g.rng.Intn(250))}}
		g.pend = &pending{target: f}
	case "read":
		f := g.pick(1)
		if f == nil {
			return o, false
		}
		o = Op{Proc: "read", H: f.sym, Off: g.offset(f), Cnt: g.length() * uint64(1+g.rng.Intn(3))}
	case "truncate":
		f := g.pick(1)
		if f == nil {
			return o, false
		}
		var sz uint64
		switch g.rng.Intn(8) {
		case 0:
			sz = 0
		case 1:
			if f.size > 0 {
				sz = f.size - 1
			}
		case 2:
			sz = f.size / 2
		case 3:
			sz = f.size / 4096 * 4096
		case 4:
			sz = f.size + uint64(g.rng.Intn(10000))
		case 5:
			sz = g.offset(f)
		default:
			if f.size > 0 {
				sz = uint64(g.rng.Int63n(int64(f.size) + 1))
			}
		}
		o = Op{Proc: "setattr", H: f.sym, HasSize: true, Size: sz}
		if g.rng.Intn(4) == 0 { // size and times in one request, as a client's truncate sends them
			o.At = TimeSpec{How: g.rng.Intn(3), Sec: uint32(g.rng.Intn(1 << 30)), Nsec: uint32(g.rng.Intn(1000000000))}
			o.Mt = TimeSpec{How: g.rng.Intn(3), Sec: uint32(g.rng.Intn(1 << 30)), Nsec: uint32(g.rng.Intn(1000000000))}
		}
		g.pend = &pending{target: f}
	case "settime":
		f := g.pick(0)
		o = Op{Proc: "setattr", H: f.sym, At: TimeSpec{How: g.rng.Intn(3), Sec: uint32(g.rng.Intn(1 << 30)), Nsec: uint32(g.rng.Intn(1000000000))},
			Mt: TimeSpec{How: g.rng.Intn(3), Sec: uint32(g.rng.Intn(1 << 30)), Nsec: uint32(g.rng.Intn(1000000000))}}
		if g.rng.Intn(3) == 0 {
			// together with a size that must be refused (not a regular file, or beyond the announced maximum):
			// the request as a whole has to be refused, the times included
			o.HasSize = true
			o.Size = uint64(g.rng.Intn(10000))
			if f.kind == 1 {
				o.Size = g.maxfs + 1 + uint64(g.rng.Intn(5000))
			}
		}
	case "getattr", "access", "fsinfo":
		f := g.pick(0)
		o = Op{Proc: k, H: f.sym}
		if k == "fsinfo" && g.rng.Intn(2) == 0 {
			o.Proc = "pathconf"
		}
	case "readlink":
		f := g.pick(5)
		if f == nil || g.rng.Intn(6) == 0 {
			f = g.pick(0)
		}
		o = Op{Proc: "readlink", H: f.sym}
	case "lookup":
		d := g.pick(2)
		n, _ := g.existingName(d)
		switch g.rng.Intn(6) {
		case 0:
			n = "."
		case 1:
			n = ".."
		case 2:
			n = g.newName(d)
		}
		if n == "" {
			n = "missing"
		}
		o = Op{Proc: "lookup", H: d.sym, Name: n}
	case "remove", "rmdir":
		d := g.pick(2)
		n, t := g.existingName(d)
		if t == nil {
			if g.rng.Intn(4) != 0 {
				return o, false
			}
			n = "missing"
		}
		// mostly the right procedure for the kind
		proc := k
		if t != nil && g.rng.Intn(6) != 0 {
			if t.kind == 2 {
				proc = "rmdir"
			} else {
				proc = "remove"
			}
		}
		if g.rng.Intn(30) == 0 {
			n = []string{".", ".."}[g.rng.Intn(2)]
		}
		o = Op{Proc: proc, H: d.sym, Name: n}
		g.pend = &pending{parent: d, target: t}
	case "rename":
		d1 := g.pick(2)
		n1, t := g.existingName(d1)
		if t == nil {
			return o, false
		}
		d2 := d1
		if g.rng.Intn(2) == 0 {
			d2 = g.pick(2)
		}
		if t.kind == 2 && d2 != d1 && g.p.Steer["dirmove"] {
			d2 = d1 // open finding #15: directories are only renamed inside their parent
		}
		if t.kind == 2 && g.isAncestor(t, d2) && g.p.Steer["dirmove"] {
			return o, false
		}
		n2 := g.newName(d2)
		if g.rng.Intn(3) == 0 {
			if e, _ := g.existingName(d2); e != "" {
				n2 = e
			}
		}
		o = Op{Proc: "rename", H: d1.sym, Name: n1, H2: d2.sym, Name2: n2}
		g.pend = &pending{parent: d1, target: t, dst: d2}
	case "readdir":
		d := g.pick(2)
		o = Op{Proc: "readdir", H: d.sym, Cookie: 0, Count: 1 << 20}
	case "readdirplus":
		d := g.pick(2)
		o = Op{Proc: "readdirplus", H: d.sym, Cookie: 0, Dircount: 1 << 20, Maxcount: 1 << 20}
	case "commit":
		f := g.pick(1)
		if f == nil {
			return o, false
		}
		o = Op{Proc: "commit", H: f.sym, Off: 0, Cnt: 0}
		g.pend = &pending{target: f}
		if g.rng.Intn(4) == 0 {
			o.Off = g.offset(f)
			o.Cnt = g.length()
		}
	case "stale":
		if len(g.dead) == 0 {
			return o, false
		}
		x := g.dead[g.rng.Intn(len(g.dead))]
		procs := []string{"getattr", "setattr", "lookup", "access", "readlink", "read", "write", "create", "mkdir", "symlink",
			"remove", "rmdir", "rename", "rename2", "readdir", "readdirplus", "commit", "fsinfo", "pathconf"}
		p := procs[g.rng.Intn(len(procs))]
		d := g.pick(2)
		n, _ := g.existingName(d)
		if n == "" {
			n = "f0"
		}
		switch p {
		case "rename":
			o = Op{Proc: "rename", H: x.sym, Name: "f0", H2: d.sym, Name2: "zz"}
		case "rename2":
			o = Op{Proc: "rename", H: d.sym, Name: n, H2: x.sym, Name2: "zz"}
		case "write":
			o = Op{Proc: "write", H: x.sym, Off: 0, Cnt: 10, Stable: 2, Data: DataSpec{Pat: true, Len: 10, Seed: 1}}
		case "setattr":
			o = Op{Proc: "setattr", H: x.sym, HasSize: true, Size: 10}
		case "read", "commit":
			o = Op{Proc: p, H: x.sym, Off: 0, Cnt: 10}
		case "readdir":
			o = Op{Proc: p, H: x.sym, Count: 4096}
		case "readdirplus":
			o = Op{Proc: p, H: x.sym, Dircount: 4096, Maxcount: 4096}
		case "symlink":
			o = Op{Proc: p, H: x.sym, Name: "zz", Data: DataSpec{Pat: true, Len: 5, Seed: 1}}
		default:
			o = Op{Proc: p, H: x.sym, Name: "f0"}
		}
	case "twin":
		if g.unstableFile != nil {
			if g.unstableFile.dead {
				return o, false
			}
			o = Op{Proc: "commit", H: g.unstableFile.sym}
			g.pend = &pending{target: g.unstableFile}
			break
		}
		o = Op{Proc: "twin"}
	case "restart":
		if g.unstableFile != nil && !g.unstableFile.dead {
			// unstable data may legitimately be lost by a restart: make it durable first
			o = Op{Proc: "commit", H: g.unstableFile.sym}
			g.pend = &pending{target: g.unstableFile}
			break
		}
		if g.unstableFile != nil {
			return o, false
		}
		o = Op{Proc: "restart"}
	case "unsupported":
		o = Op{Proc: []string{"mknod", "link", "fsstat"}[g.rng.Intn(3)], H: "root"}
	case "badname":
		d := g.pick(2)
		var n string
		switch g.rng.Intn(3) {
		case 0:
			n = strings.Repeat("X", int(g.nmax)+1+g.rng.Intn(3))
		case 1:
			n = strings.Repeat("Y", 255)
		default:
			n = strings.Repeat("Z", int(g.nmax)+1)
		}
		switch g.rng.Intn(4) {
		case 0:
			o = Op{Proc: "create", H: d.sym, Name: n}
		case 1:
			o = Op{Proc: "mkdir", H: d.sym, Name: n}
		case 2:
			o = Op{Proc: "lookup", H: d.sym, Name: n}
		default:
			e, t := g.existingName(d)
			if t == nil {
				return o, false
			}
			o = Op{Proc: "rename", H: d.sym, Name: e, H2: d.sym, Name2: n}
		}
	default:
		return o, false
	}
	o.Id = g.id()
	if g.pend != nil {
		g.pend.op = o
	}
	return o, true
}

func (g *Gen) kill(t *gobj) {
	t.dead = true
	g.dead = append(g.dead, t)
	for i, x := range g.live {
		if x == t {
			g.live = append(g.live[:i], g.live[i+1:]...)
			break
		}
	}
	names := make([]string, 0, len(t.kids))
	for n := range t.kids {
		names = append(names, n)
	}
	sort.Strings(names) // deterministic order: everything random must come from the one PRNG
	for _, n := range names {
		g.kill(t.kids[n])
	}
}

// Observe updates the picture from the reply.
func (g *Gen) Observe(o Op, r Reply) {
	if g.filling > 0 && o.Id == g.fillWrite {
		if r.Code != 0 || r.Cnt < o.Cnt {
			g.filling /= 2
			if g.filling == 0 && g.filler != nil && !g.fillDone {
				g.fillDone = true
			}
		}
	}
	// acknowledged unstable data must be known whatever produced the write (queued follow-ups carry no pending
	// record): a restart or a twin comparison before the COMMIT may legitimately lose it
	if o.Proc == "write" && r.Kind == "written" && r.Code == 0 && r.Committed == 0 && r.Cnt > 0 {
		for _, x := range g.live {
			if x.sym == o.H {
				g.unstableFile = x
			}
		}
	}
	p := g.pend
	g.pend = nil
	if p != nil && p.op.Id == o.Id && p.tag == "indwrite" && r.Code != 0 && g.filler != nil && !g.filler.dead && len(g.queue) == 0 {
		// a write into the index range failed part-way: let another file allocate, free some space,
		// repeat the write, and read the other file back
		var other *gobj
		for _, x := range g.live {
			if x.kind == 1 && x != p.target && x != g.filler {
				other = x
				break
			}
		}
		if other != nil && g.filler.size >= 4*4096 {
			g.enq(nil,
				// zero data: if the block is (wrongly) also used as an index block it reads as "no pointers"
				Op{Proc: "write", H: other.sym, Off: (other.size + 4095) / 4096 * 4096, Cnt: 4096, Stable: 2, Data: DataSpec{Lit: make([]byte, 4096)}},
				Op{Proc: "setattr", H: g.filler.sym, HasSize: true, Size: (g.filler.size/4096 - 3) * 4096},
				Op{Proc: "write", H: p.target.sym, Off: o.Off, Cnt: o.Cnt, Stable: 2, Data: o.Data},
				Op{Proc: "read", H: other.sym, Off: 0, Cnt: other.size + 8192},
				Op{Proc: "getattr", H: other.sym})
		}
	}
	if r.Code != 0 || p == nil || p.op.Id != o.Id {
		return
	}
	switch o.Proc {
	case "create", "mkdir", "symlink":
		if r.Kind != "handle" {
			return
		}
		k := map[string]int{"create": 1, "mkdir": 2, "symlink": 5}[o.Proc]
		n := &gobj{sym: fmt.Sprintf("@%d", o.Id), kind: k, parent: p.parent, name: o.Name, kids: map[string]*gobj{}}
		if old := p.parent.kids[o.Name]; old != nil {
			return
		}
		p.parent.kids[o.Name] = n
		g.live = append(g.live, n)
		if o.Id == g.fillCreate {
			g.filler = n
		}
	case "write":
		if r.Kind == "written" && r.Committed == 0 && r.Cnt > 0 {
			g.unstableFile = p.target
		}
		if r.Kind == "written" && r.Cnt < o.Cnt {
			if r.Cnt > 0 && o.Off+r.Cnt > p.target.size {
				p.target.size = o.Off + r.Cnt
			}
			return
		}
		if o.Off+o.Cnt > p.target.size && o.Cnt > 0 {
			p.target.size = o.Off + o.Cnt
		}
		if r.Kind == "written" && r.Committed == 0 {
			g.unstableFile = p.target
		}
	case "commit":
		g.unstableFile = nil
	case "setattr":
		if o.HasSize {
			p.target.size = o.Size
		}
	case "remove", "rmdir":
		if p.target != nil && p.parent.kids[o.Name] == p.target {
			delete(p.parent.kids, o.Name)
			g.kill(p.target)
		}
	case "rename":
		if p.parent.kids[o.Name] != p.target {
			return
		}
		if old := p.dst.kids[o.Name2]; old != nil && old != p.target {
			g.kill(old)
		}
		if p.dst.kids[o.Name2] == p.target && p.dst == p.parent && o.Name == o.Name2 {
			return
		}
		if old := p.dst.kids[o.Name2]; old == p.target {
			return
		}
		delete(p.parent.kids, o.Name)
		p.dst.kids[o.Name2] = p.target
		p.target.parent = p.dst
		p.target.name = o.Name2
	}
}

var hostileU64 = []uint64{0, 1, 127, 128, 129, 255, 256, 4095, 4096, 4097, 1<<31 - 1, 1 << 31, 1<<32 - 1, 1 << 32, 1<<32 + 1,
	1<<63 - 1, 1 << 63, 1<<64 - 1, 1<<64 - 2, 1<<64 - 10, 1<<64 - 4096, 1<<64 - 4097, 1073774592, 1073774591, 1073774593}

func (g *Gen) hostileHandle() string {
	switch g.rng.Intn(8) {
	case 0:
		return g.pick(0).sym
	case 1:
		if len(g.dead) > 0 {
			return g.dead[g.rng.Intn(len(g.dead))].sym
		}
	case 2: // any length 0..65, random content
		b := make([]byte, g.rng.Intn(66))
		g.rng.Read(b)
		return "x" + hexs(b)
	case 3: // right length, hostile inode number / generation
		b := make([]byte, 16)
		v := hostileU64[g.rng.Intn(len(hostileU64))]
		for i := 0; i < 8; i++ {
			b[i] = byte(v >> (8 * uint(i)))
		}
		b[8] = byte(g.rng.Intn(4))
		return "x" + hexs(b)
	case 4: // inode numbers around the table size
		b := make([]byte, 16)
		v := uint64(32768 - 2 + g.rng.Intn(5))
		for i := 0; i < 8; i++ {
			b[i] = byte(v >> (8 * uint(i)))
		}
		b[8] = 1
		return "x" + hexs(b)
	}
	return g.pick(0).sym
}

func (g *Gen) hostileName() string {
	switch g.rng.Intn(9) {
	case 0:
		return "."
	case 1:
		return ".."
	case 2:
		return strings.Repeat("n", g.rng.Intn(300))
	case 3:
		return strings.Repeat("q", 110+g.rng.Intn(6))
	case 4:
		d := g.pick(2)
		if n, _ := g.existingName(d); n != "" {
			return n
		}
	}
	return fmt.Sprintf("h%d", g.rng.Intn(6))
}

func (g *Gen) hostile() Op {
	if g.rng.Intn(30) == 0 {
		// an existing entry renamed to a name around / beyond the announced limit, then everything that decodes the
		// directory: a listing, a restart (name cache rebuilt from disk), a lookup, another entry added
		if d := g.pick(2); d != nil {
			if n, _ := g.existingName(d); n != "" {
				long := strings.Repeat("r", []int{112, 113, 128, 255, 300}[g.rng.Intn(5)])
				g.enq(nil, Op{Proc: "readdirplus", H: d.sym, Dircount: 1 << 20, Maxcount: 1 << 20},
					Op{Proc: "restart"},
					Op{Proc: "lookup", H: d.sym, Name: "h1"},
					Op{Proc: "readdir", H: d.sym, Count: 1 << 20})
				return Op{Proc: "rename", H: d.sym, Name: n, H2: d.sym, Name2: long}
			}
		}
	}
	u := func() uint64 {
		switch g.rng.Intn(4) {
		case 0:
			return uint64(g.rng.Intn(10000))
		case 1:
			// around the announced limits and the boundaries of the index tree (direct, indirect, double indirect)
			base := []uint64{g.maxfs, g.wtmax, 8 * 4096, (8 + 512) * 4096, (8 + 512 + 512*512) * 4096, (8 + 512 + 512*512 + 1) * 4096}[g.rng.Intn(6)]
			d := []uint64{0, 1, 2, 4095, 4096, 4097, 8192}[g.rng.Intn(7)]
			if g.rng.Intn(2) == 0 && base >= d {
				return base - d
			}
			return base + d
		}
		return hostileU64[g.rng.Intn(len(hostileU64))]
	}
	h := g.hostileHandle()
	if g.rng.Intn(12) == 0 {
		// the MOUNT program: paths of every shape
		paths := []string{"", "/", "x", "//", "/a/b", strings.Repeat("/", 300), strings.Repeat("p", 1100), "\x00", "/\x00"}
		return Op{Proc: "mount", Mode: uint32(g.rng.Intn(6)), Name: paths[g.rng.Intn(len(paths))]}
	}
	switch g.rng.Intn(16) {
	case 0:
		return Op{Proc: "getattr", H: h}
	case 1:
		return Op{Proc: "setattr", H: h, HasSize: g.rng.Intn(2) == 0, Size: u(), At: TimeSpec{How: g.rng.Intn(3)}, Mt: TimeSpec{How: g.rng.Intn(3)}}
	case 2:
		return Op{Proc: "lookup", H: h, Name: g.hostileName()}
	case 3:
		cnt := u()
		if cnt > 1<<20 {
			cnt = uint64(g.rng.Intn(1 << 20)) // open finding F28: READ builds count bytes whatever rtmax says
		}
		return Op{Proc: "read", H: h, Off: u(), Cnt: cnt}
	case 4, 5:
		n := uint64(g.rng.Intn(9000))
		cnt := n
		if g.rng.Intn(3) == 0 {
			cnt = u() & 0xffffffff // count disagrees with the data supplied
		}
		return Op{Proc: "write", H: h, Off: u(), Cnt: cnt, Stable: uint32(g.rng.Intn(3)), Data: DataSpec{Pat: true, Len: n, Seed: 9}}
	case 6:
		return Op{Proc: []string{"create", "mkdir"}[g.rng.Intn(2)], H: h, Name: g.hostileName(), Mode: uint32(g.rng.Intn(3))}
	case 7:
		return Op{Proc: "symlink", H: h, Name: g.hostileName(), Data: DataSpec{Pat: true, Len: uint64(g.rng.Intn(5000)), Seed: 3}}
	case 8:
		return Op{Proc: []string{"remove", "rmdir"}[g.rng.Intn(2)], H: h, Name: g.hostileName()}
	case 9, 10:
		return Op{Proc: "rename", H: h, Name: g.hostileName(), H2: g.hostileHandle(), Name2: g.hostileName()}
	case 11:
		return Op{Proc: "readdir", H: h, Cookie: u(), Count: u() & 0xffffffff}
	case 12:
		return Op{Proc: "readdirplus", H: h, Cookie: u(), Dircount: u() & 0xffffffff, Maxcount: u() & 0xffffffff}
	case 13:
		return Op{Proc: "commit", H: h, Off: u(), Cnt: u() & 0xffffffff}
	case 14:
		return Op{Proc: []string{"access", "readlink", "fsinfo", "pathconf"}[g.rng.Intn(4)], H: h}
	}
	return Op{Proc: []string{"mknod", "link", "fsstat"}[g.rng.Intn(3)], H: h}
}
