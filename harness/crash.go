package main

import (
	"bufio"
	"crypto/md5"
	"encoding/binary"
	"encoding/hex"
	"flag"
	"fmt"
	"math/rand"
	"os"
	"sort"

	"github.com/mit-pdos/go-nfsd/nfs"
)

// crash: run a workload on a recording disk, then cut the disk at every event
// prefix (with un-barriered writes lost in several patterns), recover the real
// server on each image and report what it sees.  The model driver rebuilds the
// same images from the event list and judges them.

func isMutating(p string) bool {
	switch p {
	case "create", "mkdir", "symlink", "remove", "rmdir", "rename", "setattr":
		return true
	}
	return false
}

// digest of the logical file-system blocks (>= 513) that are non-zero, ascending:
// md5 over "blkno:md5(block);" (per-block digests so that the model side can cache them)
func digest(cands []uint64, read func(a uint64) []byte) string {
	h := md5.New()
	for _, a := range cands {
		b := read(a)
		if isZero(b) {
			continue
		}
		bd := md5.Sum(b)
		fmt.Fprintf(h, "%d:%s;", a, hex.EncodeToString(bd[:]))
	}
	return hex.EncodeToString(h.Sum(nil))
}

func candidates(base *SDisk, evs []Event) []uint64 {
	set := map[uint64]bool{}
	for a := range base.blocks {
		if a >= 513 {
			set[a] = true
		}
	}
	addAddrs := func(hdr []byte) {
		for i := 0; i < 511; i++ {
			a := binary.LittleEndian.Uint64(hdr[8+8*i:])
			if a >= 513 {
				set[a] = true
			}
		}
	}
	if h, ok := base.blocks[0]; ok {
		addAddrs(h)
	}
	for _, e := range evs {
		if e.Barrier {
			continue
		}
		if e.A >= 513 {
			set[e.A] = true
		}
		if e.A == 0 {
			addAddrs(e.Data)
		}
	}
	var r []uint64
	for a := range set {
		r = append(r, a)
	}
	sort.Slice(r, func(i, j int) bool { return r[i] < r[j] })
	return r
}

type crashPoint struct {
	n    int
	pat  string
	drop func(i int) bool
}

func crashPoints(evs []Event, rng *rand.Rand, thorough bool, budget int, minEv int) []crashPoint {
	var pts []crashPoint
	last := 0 // index after the last barrier
	for n := 0; n <= len(evs); n++ {
		if n > 0 && evs[n-1].Barrier {
			// the same image as the prefix before the barrier, but not the same moment: calls acknowledged
			// without a disk write of their own (an empty COMMIT, an unstable WRITE) end exactly here
			last = n
		}
		if n < minEv {
			continue
		}
		pts = append(pts, crashPoint{n: n, pat: "-"})
		k := 0 // number of un-barriered writes in the prefix
		for i := last; i < n; i++ {
			if !evs[i].Barrier {
				k++
			}
		}
		if k >= 2 {
			// each single write lost (the last one lost equals a shorter prefix: skip it)
			lim := k - 1
			step := 1
			if !thorough && lim > 6 {
				step = lim / 6
			}
			for j := 0; j < lim; j += step {
				j := j
				pts = append(pts, crashPoint{n: n, pat: fmt.Sprintf("s%d", j), drop: func(i int) bool { return i == j }})
			}
			// random subsets
			ns := 1
			if thorough {
				ns = 4
			}
			for s := 0; s < ns; s++ {
				m := rng.Uint64()
				if k < 64 {
					m &= (uint64(1) << uint(k)) - 1
				}
				m &^= uint64(1) << uint((k-1)%64)
				if m == 0 {
					m = 1
				}
				pts = append(pts, crashPoint{n: n, pat: fmt.Sprintf("m%x", m), drop: func(i int) bool { return i < 63 && m&(1<<uint(i)) != 0 && i != k-1 }})
			}
		}
	}
	if budget > 0 && len(pts) > budget {
		// keep an evenly spread sample
		var r []crashPoint
		for i := 0; i < budget; i++ {
			r = append(r, pts[i*len(pts)/budget])
		}
		// the complete prefix is always among them: a call that was acknowledged without causing any disk write
		// (a COMMIT that flushed nothing) can only be judged on it
		if last := r[len(r)-1]; last.n != len(evs) || last.pat != "-" {
			r[len(r)-1] = crashPoint{n: len(evs), pat: "-"}
		}
		pts = r
	}
	return pts
}

func runCrash(seed int64, nops int, size uint64, prof string, unstable bool, out string, thorough bool, budget int) {
	f, _ := os.Create(out)
	defer f.Close()
	w := bufio.NewWriterSize(f, 1<<20)
	defer w.Flush()
	var r *Runner
	var base *SDisk
	minEv := 0
	if prof == "firstboot" {
		// recorded from the empty disk on: formatting, the first transactions, and the window in which the root
		// directory exists only in the log; crash points are taken from the moment MakeNfs has returned
		r = &Runner{sz: size, w: w, du: NewDumper(), handles: make(map[int][]byte), autoIdle: true, hist: make(map[string]int)}
		r.d = NewSDisk(size)
		base = r.d.StartRecording()
		r.srv = nfs.MakeNfs(r.d)
		r.attachTracer()
		minEv = r.d.NEvents()
	} else {
		r = NewRunner(size, w)
	}
	r.srv.Unstable = unstable
	r.noDump = true
	r.autoIdle = false
	r.Init()
	if base == nil {
		base = r.d.StartRecording()
	}
	for a, b := range base.blocks {
		fmt.Fprintf(w, "B0 %d %s\n", a, hex.EncodeToString(b))
	}
	g := NewGen(seed, profileByName(prof))
	root := r.resolve("root")
	fi := Exec(r.srv, Op{Proc: "fsinfo"}, root, nil)
	pc := Exec(r.srv, Op{Proc: "pathconf"}, root, nil)
	g.wtmax, g.maxfs, g.nmax = fi.Wtmax, fi.Maxfs, pc.Namemax
	g.p.W["restart"] = 0
	var script []Op
	focusOp := -1
	if prof == "bigshrink" {
		script, focusOp = bigShrinkScript(seed, fi.Wtmax)
		nops = len(script)
	}
	if prof == "refused" {
		script, focusOp = refusedThenCommitScript(seed, fi.Wtmax)
		nops = len(script)
	}
	if prof == "firstboot" {
		s := &scripter{}
		c := s.add(Op{Proc: "create", H: "root", Name: "first"})
		s.add(Op{Proc: "write", H: fmt.Sprintf("@%d", c), Off: 0, Cnt: 3000, Stable: 2, Data: pat(3000, int(seed%50))})
		s.add(Op{Proc: "mkdir", H: "root", Name: "d"})
		script, nops = s.ops, len(s.ops)
	}
	for i := 0; i < nops; i++ {
		var o Op
		if script != nil {
			o = script[i]
			if i == focusOp {
				minEv = r.d.NEvents()
			}
		} else {
			o = g.Next()
		}
		s := r.d.NEvents()
		rep := r.Step(o)
		e := r.d.NEvents()
		g.Observe(o, rep)
		dur := 0
		if rep.Code == 0 {
			if isMutating(o.Proc) || o.Proc == "commit" || (o.Proc == "write" && rep.Committed >= 1 && rep.Cnt > 0) {
				dur = 1
			}
		}
		fmt.Fprintf(w, "T %d %d %d %d\n", o.Id, s, e, dur)
	}
	r.Idle()
	r.srv.ShutdownNfs()
	r.d.Freeze()
	evs := r.d.Events()
	for _, e := range evs {
		if e.Barrier {
			fmt.Fprintf(w, "V b\n")
		} else {
			fmt.Fprintf(w, "V w %d %s\n", e.A, hex.EncodeToString(e.Data))
		}
	}
	if prof == "firstboot" {
		// from the first log commit on (the transaction that creates the root directory): before it the disk is
		// still being formatted, which is not an operation of the server
		minEv = 0
		for i, e := range evs {
			if !e.Barrier && e.A == 0 {
				minEv = i + 1
				break
			}
		}
	}
	cands := candidates(base, evs)
	rng := rand.New(rand.NewSource(seed ^ 0x5eed))
	for ci, cp := range crashPoints(evs, rng, thorough, budget, minEv) {
		img := CrashImage(base, evs, cp.n, cp.drop)
		img.Record(true)
		var srv *nfs.Nfs
		var perr interface{}
		func() {
			defer func() {
				if e := recover(); e != nil {
					perr = e
				}
			}()
			srv = nfs.MakeNfs(img)
		}()
		if srv == nil {
			fmt.Fprintf(w, "G %d %s panic - 0 0\nGE\n", cp.n, cp.pat)
			_ = perr
			continue
		}
		srv.Unstable = unstable
		st := srv.VerifState()
		dg := digest(cands, logicalReader(srv))
		fmt.Fprintf(w, "G %d %s ok %s %d %d\n", cp.n, cp.pat, dg, st.Balloc.NumFree(), st.Ialloc.NumFree())
		// the recovered server keeps serving: a short suffix judged against the reference
		sr := &Runner{sz: size, d: img, srv: srv, w: w, du: NewDumper(), handles: map[int][]byte{}, noDump: true, autoIdle: false, hist: map[string]int{}}
		name := fmt.Sprintf("zc%d", ci)
		func() {
			defer func() {
				if e := recover(); e != nil {
					fmt.Fprintf(w, "X panic\n")
				}
			}()
			if script != nil && ci%3 == 1 {
				// the first call that touches the object whose freeing the cut interrupted removes it: every block it
				// still holds must be released all the same
				sr.Step(Op{Id: 900012, Proc: "remove", H: "root", Name: "a"})
			} else if script != nil {
				// touch the object whose freeing the cut interrupted: the rest of its blocks must then be released
				sr.Step(Op{Id: 900010, Proc: "lookup", H: "root", Name: "a"})
				sr.Step(Op{Id: 900011, Proc: "write", H: "@900010", Off: 1, Cnt: 3, Stable: 2, Data: DataSpec{Pat: true, Len: 3, Seed: 5}})
			}
			if script != nil && ci%2 == 1 {
				// the first object created after the recovery is a directory (it may draw the number of an inode
				// whose blocks are still being freed): its own entries must be there, now and after the next restart
				sr.Step(Op{Id: 900020, Proc: "mkdir", H: "root", Name: name + "d"})
				sr.Step(Op{Id: 900021, Proc: "lookup", H: "@900020", Name: ".."})
				sr.Step(Op{Id: 900022, Proc: "create", H: "@900020", Name: "in"})
				sr.Step(Op{Id: 900023, Proc: "readdirplus", H: "@900020", Dircount: 1 << 20, Maxcount: 1 << 20})
			}
			sr.Step(Op{Id: 900001, Proc: "create", H: "root", Name: name})
			sr.Step(Op{Id: 900002, Proc: "write", H: "@900001", Off: 4000, Cnt: 200, Stable: 2, Data: DataSpec{Pat: true, Len: 200, Seed: uint64(ci)}})
			sr.Step(Op{Id: 900003, Proc: "read", H: "@900001", Off: 0, Cnt: 5000})
			sr.Step(Op{Id: 900004, Proc: "readdirplus", H: "root", Dircount: 1 << 20, Maxcount: 1 << 20})
			sr.Step(Op{Id: 900005, Proc: "remove", H: "root", Name: name})
		}()
		// the disk after the suffix: every block written since the image was made, in its logical
		// (log applied) contents, for the model's invariant and abstraction
		func() {
			defer func() {
				if e := recover(); e != nil {
					fmt.Fprintf(w, "X panic\n")
				}
			}()
			srv.VerifShrinker().Shutdown()
			rd := logicalReader(srv)
			for _, a := range candidates(NewSDisk(size), img.Events()) {
				b := rd(a)
				if isZero(b) {
					fmt.Fprintf(w, "GD %d z\n", a)
				} else {
					fmt.Fprintf(w, "GD %d %s\n", a, hex.EncodeToString(b))
				}
			}
			st2 := srv.VerifState()
			fmt.Fprintf(w, "GA %d %d %d\n", st2.Balloc.NumFree(), st2.Ialloc.NumFree(), b2i(script != nil))
		}()
		fmt.Fprintf(w, "GE\n")
		w.Flush()
		srv.ShutdownNfs()
	}
	fmt.Fprintf(w, "END %d\n", len(evs))
}

// bigShrinkScript: a file of more than 700 blocks (so that freeing it takes several background
// transactions) is cut down or removed; crash points are taken from that call on.
func bigShrinkScript(seed int64, wtmax uint64) ([]Op, int) {
	s := &scripter{}
	a := s.add(Op{Proc: "create", H: "root", Name: "a"})
	ah := fmt.Sprintf("@%d", a)
	n := wtmax / 4096 * 4096
	if n > 360*4096 {
		n = 360 * 4096
	}
	var off uint64
	for off < 720*4096 {
		s.add(Op{Proc: "write", H: ah, Off: off, Cnt: n, Stable: 2, Data: pat(n, int(seed%200)+int(off/4096)%50)})
		off += n
	}
	b := s.add(Op{Proc: "create", H: "root", Name: "b"})
	bh := fmt.Sprintf("@%d", b)
	s.add(Op{Proc: "write", H: bh, Off: 0, Cnt: 3 * 4096, Stable: 2, Data: pat(3*4096, 9)})
	focus := len(s.ops)
	switch seed % 4 {
	case 0:
		s.add(Op{Proc: "setattr", H: ah, HasSize: true, Size: 0})
	case 1:
		s.add(Op{Proc: "remove", H: "root", Name: "a"})
	case 2:
		s.add(Op{Proc: "setattr", H: ah, HasSize: true, Size: 5*4096 + 123})
	default:
		s.add(Op{Proc: "rename", H: "root", Name: "b", H2: "root", Name2: "a"})
	}
	c := s.add(Op{Proc: "create", H: "root", Name: "c"})
	s.add(Op{Proc: "write", H: fmt.Sprintf("@%d", c), Off: 0, Cnt: 2 * 4096, Stable: 2, Data: pat(2*4096, 11)})
	s.add(Op{Proc: "mkdir", H: "root", Name: "d"})
	return s.ops, focus
}

// refusedThenCommitScript: unstable data is pending, a request too large for the journal is refused at commit
// time, then COMMIT is acknowledged: from then on the data must survive every crash.
func refusedThenCommitScript(seed int64, wtmax uint64) ([]Op, int) {
	s := &scripter{}
	f := s.add(Op{Proc: "create", H: "root", Name: "f"})
	fh := fmt.Sprintf("@%d", f)
	s.add(Op{Proc: "write", H: fh, Off: 0, Cnt: 3000, Stable: 2, Data: pat(3000, 1)})
	s.add(Op{Proc: "write", H: fh, Off: 3000, Cnt: 6000, Stable: 0, Data: pat(6000, int(seed%100)+2)})
	focus := len(s.ops)
	n := uint64(560+seed%40) * 4096
	s.add(Op{Proc: "symlink", H: "root", Name: "big", Data: pat(n, 3)})
	s.add(Op{Proc: "commit", H: fh})
	s.add(Op{Proc: "getattr", H: fh})
	// the same with the largest WRITE the server announces, unaligned and across the first index boundary of a fresh
	// file (the most journal space one WRITE can need): it must be accepted, and whether it is or not, the COMMIT
	// that follows makes the pending data durable
	g := s.add(Op{Proc: "create", H: "root", Name: "g"})
	s.add(Op{Proc: "write", H: fh, Off: 9000, Cnt: 5000, Stable: 0, Data: pat(5000, int(seed%100)+7)})
	s.add(Op{Proc: "write", H: fmt.Sprintf("@%d", g), Off: 220*4096 + 7, Cnt: wtmax, Stable: 2, Data: pat(wtmax, 5)})
	s.add(Op{Proc: "commit", H: fh})
	s.add(Op{Proc: "getattr", H: fh})
	// unstable data pending, then a request on that very file that is refused (its transaction aborts and the cached
	// inode is dropped), then a good COMMIT: the data must be durable from that COMMIT on
	s.add(Op{Proc: "write", H: fh, Off: 14000, Cnt: 3000, Stable: 0, Data: pat(3000, int(seed%100)+9)})
	s.add(Op{Proc: "commit", H: fh, Off: 1 << 40, Cnt: 10})
	s.add(Op{Proc: "write", H: fh, Off: 0, Cnt: 50, Stable: 0, Data: pat(7, 1)})
	s.add(Op{Proc: "commit", H: fh})
	s.add(Op{Proc: "getattr", H: fh})
	return s.ops, focus
}

func init() {
	extraCmds["crash"] = func(args []string) {
		fs := flag.NewFlagSet("crash", flag.ExitOnError)
		seed := fs.Int64("seed", 1, "")
		nops := fs.Int("nops", 25, "")
		size := fs.Uint64("size", 3000, "")
		prof := fs.String("profile", "crashmix", "")
		out := fs.String("out", "crash.trace", "")
		unst := fs.Bool("unstable", true, "")
		thorough := fs.Bool("thorough", false, "")
		budget := fs.Int("budget", 0, "")
		fs.Parse(args)
		runCrash(*seed, *nops, *size, *prof, *unst, *out, *thorough, *budget)
	}
}
