package main

import (
	"fmt"
	"math/rand"
	"strings"
)

// Scripted workloads: advertised limits (C19) and directory enumeration (C13).
// Operations use symbolic handles, so the lists can be built up front.

type scripter struct {
	ops []Op
	id  int
}

func (s *scripter) add(o Op) int {
	s.id++
	o.Id = s.id
	s.ops = append(s.ops, o)
	return o.Id
}

func pat(n uint64, seed int) DataSpec { return DataSpec{Pat: true, Len: n, Seed: uint64(seed)} }

// limitsScript probes limit-1, limit, limit+1 of every announced limit.
func limitsScript(wtmax, maxfs, nmax uint64, rng *rand.Rand) []Op {
	s := &scripter{}
	nm := func(n uint64, c string) string {
		if n == 0 {
			return ""
		}
		return strings.Repeat(c, int(n)-1) + fmt.Sprint(rng.Intn(10))
	}
	s.add(Op{Proc: "fsinfo", H: "root"})
	s.add(Op{Proc: "pathconf", H: "root"})
	d := s.add(Op{Proc: "mkdir", H: "root", Name: "limits"})
	dh := fmt.Sprintf("@%d", d)
	// --- names
	for _, n := range []uint64{nmax - 1, nmax, nmax + 1, 255, nmax + 16} {
		name := nm(n, "a")
		c := s.add(Op{Proc: "create", H: dh, Name: name})
		s.add(Op{Proc: "lookup", H: dh, Name: name})
		s.add(Op{Proc: "write", H: fmt.Sprintf("@%d", c), Off: 0, Cnt: 10, Stable: 2, Data: pat(10, 1)})
		name2 := nm(n, "b")
		s.add(Op{Proc: "rename", H: dh, Name: name, H2: dh, Name2: name2})
		s.add(Op{Proc: "lookup", H: dh, Name: name2})
		s.add(Op{Proc: "readdir", H: dh, Cookie: 0, Count: 1 << 20})
		s.add(Op{Proc: "remove", H: dh, Name: name2})
		s.add(Op{Proc: "remove", H: dh, Name: name})
		mname := nm(n, "m")
		s.add(Op{Proc: "mkdir", H: dh, Name: mname})
		s.add(Op{Proc: "rmdir", H: dh, Name: mname})
		sname := nm(n, "s")
		s.add(Op{Proc: "symlink", H: dh, Name: sname, Data: pat(20, 2)})
		s.add(Op{Proc: "remove", H: dh, Name: sname})
	}
	// a short name renamed to names around the limit (the failing rename must leave no trace)
	base := s.add(Op{Proc: "create", H: dh, Name: "short"})
	_ = base
	for _, n := range []uint64{nmax + 1, nmax, nmax - 1} {
		t := nm(n, "r")
		s.add(Op{Proc: "rename", H: dh, Name: "short", H2: dh, Name2: t})
		s.add(Op{Proc: "lookup", H: dh, Name: "short"})
		s.add(Op{Proc: "rename", H: dh, Name: t, H2: dh, Name2: "short"})
	}
	// --- write sizes around wtmax at offsets that need the most journal space
	blk := uint64(4096)
	offs := []uint64{0, 1, 8 * blk, 8*blk - 1, 300*blk + 1, (8+512)*blk - 200*blk + 4095, 800*blk + 1, 1000*blk + 4095, (8+512)*blk - 1}
	for i, off := range offs {
		f := s.add(Op{Proc: "create", H: dh, Name: fmt.Sprintf("w%d", i)})
		fh := fmt.Sprintf("@%d", f)
		sizes := []uint64{wtmax + 1, wtmax, wtmax - 1}
		if i > 2 {
			sizes = []uint64{wtmax + 1, wtmax}
		}
		for _, n := range sizes {
			s.add(Op{Proc: "write", H: fh, Off: off, Cnt: n, Stable: 2, Data: pat(n, 3+i)})
			s.add(Op{Proc: "getattr", H: fh})
		}
		s.add(Op{Proc: "read", H: fh, Off: off, Cnt: 5000})
		s.add(Op{Proc: "remove", H: dh, Name: fmt.Sprintf("w%d", i)})
	}
	// --- file sizes around maxfilesize
	f := s.add(Op{Proc: "create", H: dh, Name: "big"})
	fh := fmt.Sprintf("@%d", f)
	for i, sz := range []uint64{maxfs + 1, maxfs, maxfs - 1, 1<<64 - 1, 1 << 63, maxfs + 4096} {
		s.add(Op{Proc: "setattr", H: fh, HasSize: true, Size: sz})
		s.add(Op{Proc: "getattr", H: fh})
		// the same size together with times: refused or applied as a whole
		s.add(Op{Proc: "setattr", H: fh, HasSize: true, Size: sz, At: TimeSpec{How: 2, Sec: uint32(1000 + i), Nsec: 5}, Mt: TimeSpec{How: 2, Sec: uint32(2000 + i), Nsec: 6}})
		s.add(Op{Proc: "getattr", H: fh})
	}
	s.add(Op{Proc: "setattr", H: dh, HasSize: true, Size: 100, At: TimeSpec{How: 2, Sec: 77, Nsec: 1}, Mt: TimeSpec{How: 2, Sec: 78, Nsec: 2}})
	s.add(Op{Proc: "getattr", H: dh})
	s.add(Op{Proc: "setattr", H: fh, HasSize: true, Size: maxfs})
	s.add(Op{Proc: "read", H: fh, Off: maxfs - 10, Cnt: 100})
	s.add(Op{Proc: "read", H: fh, Off: maxfs, Cnt: 100})
	s.add(Op{Proc: "write", H: fh, Off: maxfs - 10, Cnt: 10, Stable: 2, Data: pat(10, 7)})
	s.add(Op{Proc: "read", H: fh, Off: maxfs - 20, Cnt: 100})
	s.add(Op{Proc: "write", H: fh, Off: maxfs - 10, Cnt: 11, Stable: 2, Data: pat(11, 8)})
	s.add(Op{Proc: "write", H: fh, Off: maxfs, Cnt: 1, Stable: 2, Data: pat(1, 9)})
	s.add(Op{Proc: "write", H: fh, Off: 1<<64 - 5, Cnt: 10, Stable: 2, Data: pat(10, 9)})
	s.add(Op{Proc: "getattr", H: fh})
	s.add(Op{Proc: "setattr", H: fh, HasSize: true, Size: 0})
	s.add(Op{Proc: "remove", H: dh, Name: "big"})
	s.add(Op{Proc: "restart"})
	s.add(Op{Proc: "readdirplus", H: dh, Cookie: 0, Dircount: 1 << 20, Maxcount: 1 << 20})
	return s.ops
}

// pagingScript builds directories of several shapes and enumerates them page by page with many
// limits; "enum" operations are expanded by the runner (cookie chaining).
func pagingScript(rng *rand.Rand, variant int) []Op {
	s := &scripter{}
	mk := func(name string, n int, holes []int, longNames bool) string {
		d := s.add(Op{Proc: "mkdir", H: "root", Name: name})
		dh := fmt.Sprintf("@%d", d)
		for i := 0; i < n; i++ {
			nm := fmt.Sprintf("e%03d", i)
			if longNames && i%3 == 0 {
				nm = fmt.Sprintf("e%03d%s", i, strings.Repeat("x", 20+rng.Intn(60)))
			}
			switch i % 5 {
			case 1:
				s.add(Op{Proc: "mkdir", H: dh, Name: nm})
			case 3:
				s.add(Op{Proc: "symlink", H: dh, Name: nm, Data: pat(9, 1)})
			default:
				s.add(Op{Proc: "create", H: dh, Name: nm})
			}
		}
		for _, h := range holes {
			if h < n {
				nm := fmt.Sprintf("e%03d", h)
				proc := "remove"
				if h%5 == 1 {
					proc = "rmdir"
				}
				if !(longNames && h%3 == 0) {
					s.add(Op{Proc: proc, H: dh, Name: nm})
				}
			}
		}
		return dh
	}
	var dirs []string
	switch variant % 3 {
	case 0:
		dirs = append(dirs, mk("empty", 0, nil, false))
		dirs = append(dirs, mk("small", 5, []int{1, 2}, false))
		dirs = append(dirs, mk("blk", 31, []int{0, 7, 29}, true)) // 31 + . .. = 33 slots: crosses a block; last slot in use
	case 1:
		dirs = append(dirs, mk("two", 62, []int{4, 5, 28, 29, 30, 31, 32, 59}, false)) // second-to-last freed, last in use
		dirs = append(dirs, mk("one", 1, nil, false))
	default:
		dirs = append(dirs, mk("big", 70+rng.Intn(10), []int{2, 3, 4, 20, 30, 33, 61, 62, 68}, true))
		dirs = append(dirs, mk("tail", 12, []int{10}, false)) // hole right before the last entry
	}
	// a request on the directory that fails after it has touched the name cache (RENAME to a name that is too
	// long removes the old name first), then the old name is asked for again: listings must still show every
	// entry exactly once and nothing that is not there
	for _, dh := range dirs[:1] {
		v := s.add(Op{Proc: "create", H: dh, Name: "victim"})
		_ = v
		s.add(Op{Proc: "rename", H: dh, Name: "victim", H2: dh, Name2: strings.Repeat("v", 200)})
		s.add(Op{Proc: "lookup", H: dh, Name: "victim"})
		s.add(Op{Proc: "create", H: dh, Name: "victim", Mode: 1}) // guarded: must report that it exists
		s.add(Op{Proc: "enum", H: dh, Count: 4096})
		s.add(Op{Proc: "remove", H: dh, Name: "victim"})
		s.add(Op{Proc: "enum", H: dh, Count: 300, Mode: 1, Maxcount: 1 << 20, Dircount: 1 << 20})
	}
	dirs = append(dirs, "root")
	counts := []uint64{0, 1, 64, 90, 97, 98, 100, 101, 128, 150, 200, 256, 300, 400, 512, 600, 1000, 4096, 8192, 1 << 20}
	for _, dh := range dirs {
		for _, c := range counts {
			s.add(Op{Proc: "enum", H: dh, Count: c})                                // READDIR
			s.add(Op{Proc: "enum", H: dh, Count: 1 << 20, Maxcount: c, Mode: 1})    // READDIRPLUS limited by maxcount
			s.add(Op{Proc: "enum", H: dh, Dircount: c, Maxcount: 1 << 20, Mode: 1}) // READDIRPLUS limited by dircount
		}
		// dense sweep of small counts
		for c := uint64(60); c < 360; c += uint64(1 + rng.Intn(5)) {
			s.add(Op{Proc: "enum", H: dh, Count: c, Mode: uint32(rng.Intn(2)), Maxcount: c, Dircount: 1 << 20})
		}
		// enumeration while the directory changes between pages
		for k := 0; k < 4; k++ {
			s.add(Op{Proc: "enum", H: dh, Count: uint64(90 + 40*k), Mode: uint32(k % 2), Maxcount: uint64(300 + 200*k), Dircount: 1 << 20, Stable: 1})
		}
	}
	return s.ops
}

// inodeFullScript fills the inode table (without waiting or dumping after every call), then works in the few
// numbers that are left: a freed number is handed out again at once, while its former owner is still cached.
func inodeFullScript(ninode uint64, rng *rand.Rand, final bool) []Op {
	s := &scripter{}
	s.add(Op{Proc: "autoidle:2"})
	d := s.add(Op{Proc: "mkdir", H: "root", Name: "fill"})
	dh := fmt.Sprintf("@%d", d)
	// root, "fill" and number 0 are taken; leave three numbers free
	for i := uint64(0); i+6 < ninode; i++ {
		s.add(Op{Proc: "create", H: dh, Name: fmt.Sprintf("i%d", i)})
	}
	// (the whole run is judged on replies only: decoding a disk with 32 768 objects after every call is out of
	// reach of the extracted abstraction function)
	for round := 0; round < 3; round++ {
		a := s.add(Op{Proc: "mkdir", H: "root", Name: fmt.Sprintf("D%d", round)})
		ah := fmt.Sprintf("@%d", a)
		s.add(Op{Proc: "create", H: ah, Name: "x"})
		s.add(Op{Proc: "symlink", H: ah, Name: "y", Data: pat(30, round)})
		s.add(Op{Proc: "remove", H: ah, Name: "x"})
		s.add(Op{Proc: "remove", H: ah, Name: "y"})
		s.add(Op{Proc: "rmdir", H: "root", Name: fmt.Sprintf("D%d", round)})
		b := s.add(Op{Proc: "mkdir", H: "root", Name: fmt.Sprintf("E%d", round)})
		bh := fmt.Sprintf("@%d", b)
		s.add(Op{Proc: "readdirplus", H: bh, Dircount: 1 << 20, Maxcount: 1 << 20})
		s.add(Op{Proc: "getattr", H: ah}) // the old handle is dead although the number lives again
		s.add(Op{Proc: "create", H: bh, Name: "z"})
		s.add(Op{Proc: "remove", H: bh, Name: "z"})
		s.add(Op{Proc: "rmdir", H: "root", Name: fmt.Sprintf("E%d", round)})
		s.add(Op{Proc: "lookup", H: "root", Name: fmt.Sprintf("E%d", round)})
		f := s.add(Op{Proc: "create", H: "root", Name: fmt.Sprintf("F%d", round)})
		s.add(Op{Proc: "write", H: fmt.Sprintf("@%d", f), Off: 0, Cnt: 5000, Stable: 2, Data: pat(5000, 3+round)})
		s.add(Op{Proc: "remove", H: "root", Name: fmt.Sprintf("F%d", round)})
	}
	// no number left: creation must fail cleanly
	for i := 0; i < 4; i++ {
		s.add(Op{Proc: "create", H: "root", Name: fmt.Sprintf("last%d", i)})
	}
	s.add(Op{Proc: "mkdir", H: "root", Name: "toomany"})
	if final {
		// one full decode of the disk with its 32 768 objects (about a minute in the model driver)
		s.add(Op{Proc: "restart"})
	}
	s.add(Op{Proc: "lookup", H: dh, Name: "i7"})
	return s.ops
}
