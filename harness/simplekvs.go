package main

import (
	"strings"
	"sync/atomic"
	"sync"
	"sort"
	"runtime"
	"bytes"
	"bufio"
	"encoding/binary"
	"encoding/hex"
	"flag"
	"fmt"
	"math/rand"
	"os"
	"runtime/debug"
	"time"

	"github.com/mit-pdos/go-journal/addr"
	"github.com/mit-pdos/go-journal/obj"
	"github.com/mit-pdos/go-nfsd/kvs"
	"github.com/mit-pdos/go-nfsd/nfstypes"
	"github.com/mit-pdos/go-nfsd/simple"
)

// ---------------------------------------------------------------------------
// SimpleNFS (C17): boundary-dense calls, replies + disk events for crash images

type sCall struct {
	proc     string
	h        []byte
	off, cnt uint64
	size     uint64
	hasSize  bool
	data     []byte
}

var u64bounds = []uint64{0, 1, 2, 100, 4095, 4096, 4097, 8192, 1<<32 - 1, 1 << 32, 1<<32 + 1, 1 << 63, 1<<63 - 1, 1<<64 - 1, 1<<64 - 10, 1<<64 - 4096, 1<<64 - 4097}

func simpleHandle(rng *rand.Rand) []byte {
	inums := []uint64{0, 1, 2, 3, 5, 30, 31, 32, 33, 1 << 63, 1<<64 - 1}
	var i uint64
	if rng.Intn(10) < 7 {
		i = uint64(2 + rng.Intn(4)) // a few hot files
	} else {
		i = inums[rng.Intn(len(inums))]
	}
	b := make([]byte, 16)
	binary.LittleEndian.PutUint64(b, i)
	switch rng.Intn(12) {
	case 0:
		return b[:8]
	case 1:
		return b[:rng.Intn(8)]
	case 2:
		return append(b, 1, 2, 3)
	}
	return b
}

func simpleGen(rng *rand.Rand, sizes map[uint64]uint64) sCall {
	h := simpleHandle(rng)
	var inum uint64
	if len(h) >= 8 {
		inum = binary.LittleEndian.Uint64(h)
	}
	sz := sizes[inum]
	pickOff := func() uint64 {
		switch rng.Intn(8) {
		case 0:
			return 0
		case 1:
			return sz
		case 2:
			if sz > 0 {
				return sz - 1
			}
			return 0
		case 3:
			return sz + 1
		case 4:
			return u64bounds[rng.Intn(len(u64bounds))]
		case 5:
			return uint64(rng.Intn(4200))
		}
		if sz > 0 {
			return uint64(rng.Int63n(int64(sz)))
		}
		return 0
	}
	pickCnt := func() uint64 {
		switch rng.Intn(8) {
		case 0:
			return 0
		case 1:
			return 4096
		case 2:
			return u64bounds[rng.Intn(len(u64bounds))] & 0xffffffff
		case 3:
			return 4097
		case 4:
			return 4095
		}
		return uint64(1 + rng.Intn(600))
	}
	switch rng.Intn(10) {
	case 0:
		return sCall{proc: "getattr", h: h}
	case 1, 2:
		c := sCall{proc: "setattr", h: h, hasSize: rng.Intn(8) != 0}
		switch rng.Intn(6) {
		case 0:
			c.size = u64bounds[rng.Intn(len(u64bounds))]
		case 1:
			c.size = sz / 2
		case 2:
			c.size = 4096
		default:
			c.size = uint64(rng.Intn(4200))
		}
		return c
	case 3, 4, 5:
		return sCall{proc: "read", h: h, off: pickOff(), cnt: pickCnt()}
	default:
		c := sCall{proc: "write", h: h, off: pickOff(), cnt: pickCnt()}
		if rng.Intn(3) == 0 && sz < 4096 {
			c.off = sz // appends are the common successful case
		}
		n := c.cnt
		if n > 5000 || rng.Intn(12) == 0 {
			n = uint64(rng.Intn(50)) // count disagrees with the data supplied
		}
		c.data = make([]byte, n)
		for i := range c.data {
			c.data[i] = byte(1 + rng.Intn(255))
		}
		return c
	}
}

func simpleExec(srv *simple.Nfs, c sCall) string {
	fh := nfstypes.Nfs_fh3{Data: c.h}
	switch c.proc {
	case "getattr":
		r := srv.NFSPROC3_GETATTR(nfstypes.GETATTR3args{Object: fh})
		return fmt.Sprintf("P %d %d %d 0 0 -", r.Status, b2i(r.Resok.Obj_attributes.Ftype == nfstypes.NF3DIR), uint64(r.Resok.Obj_attributes.Size))
	case "setattr":
		var a nfstypes.SETATTR3args
		a.Object = fh
		a.New_attributes.Size.Set_it = c.hasSize
		a.New_attributes.Size.Size = nfstypes.Size3(c.size)
		r := srv.NFSPROC3_SETATTR(a)
		return fmt.Sprintf("P %d 0 0 0 0 -", r.Status)
	case "read":
		r := srv.NFSPROC3_READ(nfstypes.READ3args{File: fh, Offset: nfstypes.Offset3(c.off), Count: nfstypes.Count3(c.cnt)})
		return fmt.Sprintf("P %d 0 0 %d %d %s", r.Status, uint64(r.Resok.Count), b2i(r.Resok.Eof), hexs(r.Resok.Data))
	case "write":
		r := srv.NFSPROC3_WRITE(nfstypes.WRITE3args{File: fh, Offset: nfstypes.Offset3(c.off), Count: nfstypes.Count3(c.cnt), Stable: nfstypes.Stable_how(uint32(len(c.data)+int(c.off)) % 3), Data: c.data})
		return fmt.Sprintf("P %d 0 0 %d %d -", r.Status, uint64(r.Resok.Count), uint64(r.Resok.Committed))
	}
	panic("proc")
}

func (c sCall) line(id int) string {
	sz := "-"
	if c.hasSize {
		sz = fmt.Sprint(c.size)
	}
	return fmt.Sprintf("Q %d %s %s %d %d %s %s", id, c.proc, hexs(c.h), c.off, c.cnt, sz, hexs(c.data))
}

func logReader(l *obj.Log) func(a uint64) []byte {
	return func(a uint64) []byte { return l.Load(addr.MkAddr(a, 0), 4096*8).Data }
}

func runSimple(seed int64, ncalls int, out string, crash bool, budget int) {
	f, _ := os.Create(out)
	defer f.Close()
	w := bufio.NewWriterSize(f, 1<<20)
	defer w.Flush()
	defer func() {
		if e := recover(); e != nil {
			fmt.Fprintf(w, "X panic %v\n", e)
			fmt.Fprintf(os.Stderr, "%v\n%s\n", e, debug.Stack())
		}
	}()
	rng := rand.New(rand.NewSource(seed))
	d := NewSDisk(700)
	srv := simple.MakeNfs(d)
	fmt.Fprintf(w, "SI\n")
	base := d.StartRecording()
	if crash {
		for a, b := range base.blocks {
			fmt.Fprintf(w, "B0 %d %s\n", a, hex.EncodeToString(b))
		}
	}
	sizes := map[uint64]uint64{}
	for i := 1; i <= ncalls; i++ {
		c := simpleGen(rng, sizes)
		fmt.Fprintln(w, c.line(i))
		w.Flush()
		s := d.NEvents()
		rep := simpleExec(srv, c)
		e := d.NEvents()
		fmt.Fprintln(w, rep)
		fmt.Fprintf(w, "T %d %d %d 1\n", i, s, e)
		// track sizes for the generator
		if len(c.h) >= 8 {
			g := srv.NFSPROC3_GETATTR(nfstypes.GETATTR3args{Object: nfstypes.Nfs_fh3{Data: c.h}})
			if g.Status == 0 {
				sizes[binary.LittleEndian.Uint64(c.h)] = uint64(g.Resok.Obj_attributes.Size)
			}
		}
	}
	srv.VerifLog().Shutdown()
	if !crash {
		return
	}
	d.Freeze()
	evs := d.Events()
	for _, e := range evs {
		if e.Barrier {
			fmt.Fprintf(w, "V b\n")
		} else {
			fmt.Fprintf(w, "V w %d %s\n", e.A, hex.EncodeToString(e.Data))
		}
	}
	cands := candidates(base, evs)
	rng2 := rand.New(rand.NewSource(seed ^ 77))
	for _, cp := range crashPoints(evs, rng2, false, budget, 0) {
		img := CrashImage(base, evs, cp.n, cp.drop)
		var rs *simple.Nfs
		func() {
			defer func() { recover() }()
			rs = simple.Recover(img)
		}()
		if rs == nil {
			fmt.Fprintf(w, "G %d %s panic - 0 0\nGE\n", cp.n, cp.pat)
			continue
		}
		fmt.Fprintf(w, "G %d %s ok %s 0 0\nGE\n", cp.n, cp.pat, digest(cands, logReader(rs.VerifLog())))
		rs.VerifLog().Shutdown()
	}
}

// ---------------------------------------------------------------------------
// KVS (C18)

func runKvs(seed int64, ncalls int, out string, budget int) {
	f, _ := os.Create(out)
	defer f.Close()
	w := bufio.NewWriterSize(f, 1<<20)
	defer w.Flush()
	rng := rand.New(rand.NewSource(seed))
	const sz = 760
	d := NewSDisk(sz + 16) // the disk is larger than the store, so keys just past the range are real blocks
	store := kvs.MkKVS(d, sz)
	fmt.Fprintf(w, "KI %d\n", sz)
	base := d.StartRecording()
	for a, b := range base.blocks {
		fmt.Fprintf(w, "B0 %d %s\n", a, hex.EncodeToString(b))
	}
	key := func() uint64 {
		ks := []uint64{0, 1, 512, 513, 514, sz - 2, sz - 1, sz, sz + 1, 1 << 63}
		if rng.Intn(5) == 0 {
			return ks[rng.Intn(len(ks))]
		}
		return uint64(513 + rng.Intn(8))
	}
	for i := 1; i <= ncalls; i++ {
		s := d.NEvents()
		if rng.Intn(3) == 0 {
			k := key()
			fmt.Fprintf(w, "KG %d %d\n", i, k)
			w.Flush()
			func() {
				defer func() {
					if e := recover(); e != nil {
						fmt.Fprintf(w, "KR panic\n")
					}
				}()
				p, ok := store.Get(k)
				fmt.Fprintf(w, "KR %d %s\n", b2i(ok), hexs(p.Val))
			}()
		} else {
			n := 1 + rng.Intn(5)
			big := rng.Intn(12) == 0
			if big {
				n = 60 + rng.Intn(120) // many distinct keys in one call (journal-sized transactions)
			}
			var pairs []kvs.KVPair
			fmt.Fprintf(w, "KP %d %d", i, n)
			for j := 0; j < n; j++ {
				k := key()
				if big {
					k = uint64(513 + (j*7+i)%(sz-513))
				}
				v := make([]byte, 4096)
				fill := byte(1 + rng.Intn(250))
				for x := 0; x < 64; x++ {
					v[rng.Intn(4096)] = fill
				}
				v[0] = byte(i)
				pairs = append(pairs, kvs.KVPair{Key: k, Val: v})
				fmt.Fprintf(w, " %d %s", k, hex.EncodeToString(v))
			}
			fmt.Fprintln(w)
			w.Flush()
			func() {
				defer func() {
					if e := recover(); e != nil {
						fmt.Fprintf(w, "KR panic\n")
					}
				}()
				ok := store.MultiPut(pairs)
				fmt.Fprintf(w, "KR %d -\n", b2i(ok))
			}()
		}
		fmt.Fprintf(w, "T %d %d %d 1\n", i, s, d.NEvents())
	}
	store.Delete()
	d.Freeze()
	evs := d.Events()
	for _, e := range evs {
		if e.Barrier {
			fmt.Fprintf(w, "V b\n")
		} else {
			fmt.Fprintf(w, "V w %d %s\n", e.A, hex.EncodeToString(e.Data))
		}
	}
	cands := candidates(base, evs)
	rng2 := rand.New(rand.NewSource(seed ^ 99))
	for _, cp := range crashPoints(evs, rng2, false, budget, 0) {
		img := CrashImage(base, evs, cp.n, cp.drop)
		var rs *kvs.KVS
		func() {
			defer func() { recover() }()
			rs = kvs.MkKVS(img, sz)
		}()
		if rs == nil {
			fmt.Fprintf(w, "G %d %s panic - 0 0\nGE\n", cp.n, cp.pat)
			continue
		}
		// what the recovered store answers must be what is on its recovered disk (which the model driver compares
		// with a prefix of the acknowledged puts): every key, through Get
		rd := logReader(rs.VerifLog())
		nbad := 0
		func() {
			defer func() {
				if e := recover(); e != nil {
					nbad += 1000000
				}
			}()
			for k := uint64(513); k < sz; k++ {
				p, ok := rs.Get(k)
				if !ok || p == nil || !bytes.Equal(p.Val, rd(k)) {
					nbad++
				}
			}
		}()
		fmt.Fprintf(w, "G %d %s ok %s 0 0\nGK %d\nGE\n", cp.n, cp.pat, digest(cands, rd), nbad)
		rs.Delete()
	}
}

// runSimpleConc: several clients on the same file of the simple server; the history (invocation and return clocks,
// call, reply) is judged by a search for a sequential order over the extracted specification.
func runSimpleConc(seed int64, nclients, nops int, out string) {
	f, _ := os.Create(out)
	defer f.Close()
	w := bufio.NewWriterSize(f, 1<<20)
	defer w.Flush()
	rng := rand.New(rand.NewSource(seed))
	d := NewSDisk(700)
	srv := simple.MakeNfs(d)
	if seed%2 == 1 {
		// schedule noise around disk reads (the journal reads a block back when it installs a part of it): a call
		// that gives up its lock before its commit is through gets the window widened
		var k uint64
		d.SlowRead = func(a uint64) {
			if a >= 513 {
				time.Sleep(time.Duration(30+atomic.AddUint64(&k, 1)%5*40) * time.Microsecond)
			}
		}
	}
	fmt.Fprintf(w, "SI\n")
	h := make([]byte, 8)
	binary.LittleEndian.PutUint64(h, uint64(2+rng.Intn(3)))
	mk := func(rg *rand.Rand, id int) sCall {
		switch rg.Intn(7) {
		case 0, 1:
			n := 1 + rg.Intn(40)
			data := make([]byte, n)
			for i := range data {
				data[i] = byte(1 + id%250)
			}
			return sCall{proc: "write", h: h, off: 0, cnt: uint64(n), data: data}
		case 2:
			return sCall{proc: "setattr", h: h, hasSize: true, size: uint64(rg.Intn(48))}
		case 3:
			return sCall{proc: "getattr", h: h}
		}
		return sCall{proc: "read", h: h, off: uint64(rg.Intn(3)) * 4, cnt: 64}
	}
	// a little sequential history first
	for i := 1; i <= 3; i++ {
		c := mk(rng, i)
		fmt.Fprintln(w, c.line(i))
		fmt.Fprintln(w, simpleExec(srv, c))
		fmt.Fprintf(w, "T %d 0 0 1\n", i)
	}
	fmt.Fprintf(w, "M conc-begin %d\n", nclients)
	type ev struct {
		client   int
		inv, ret int64
		c        sCall
		rep      string
		id       int
	}
	var clock int64
	var mu sync.Mutex
	var hist []ev
	var wg sync.WaitGroup
	for c := 0; c < nclients; c++ {
		wg.Add(1)
		crng := rand.New(rand.NewSource(rng.Int63()))
		go func(c int) {
			defer wg.Done()
			for i := 0; i < nops; i++ {
				call := mk(crng, 100+c*1000+i)
				e := ev{client: c, c: call, id: 100 + c*1000 + i, inv: atomic.AddInt64(&clock, 1)}
				func() {
					defer func() {
						if x := recover(); x != nil {
							e.rep = "X panic"
						}
					}()
					e.rep = simpleExec(srv, call)
				}()
				e.ret = atomic.AddInt64(&clock, 1)
				mu.Lock()
				hist = append(hist, e)
				mu.Unlock()
				if crng.Intn(3) == 0 {
					runtime.Gosched()
				}
			}
		}(c)
	}
	wg.Wait()
	sort.Slice(hist, func(i, j int) bool { return hist[i].inv < hist[j].inv })
	for _, e := range hist {
		fmt.Fprintf(w, "H %d %d %d\n", e.client, e.inv, e.ret)
		fmt.Fprintln(w, e.c.line(e.id))
		fmt.Fprintln(w, e.rep)
	}
	fmt.Fprintf(w, "M conc-end ok\n")
	srv.VerifLog().Shutdown()
}

// runKvsConc: concurrent multi-puts on overlapping key sets and gets; the history is searched for a sequential
// order over the extracted model (a get returns the latest put, a multi-put is one step).
func runKvsConc(seed int64, nclients, nops int, out string) {
	f, _ := os.Create(out)
	defer f.Close()
	w := bufio.NewWriterSize(f, 1<<20)
	defer w.Flush()
	rng := rand.New(rand.NewSource(seed))
	const sz = 760
	d := NewSDisk(sz + 16)
	store := kvs.MkKVS(d, sz)
	if seed%2 == 1 {
		// schedule noise around the reads of the key blocks (a store that reads before it writes gets its window widened)
		d.SlowRead = func(a uint64) {
			if a >= 513 && a < 520 {
				time.Sleep(time.Duration(50+a%7*40) * time.Microsecond)
			}
		}
	}
	fmt.Fprintf(w, "KI %d\n", sz)
	fmt.Fprintf(w, "M conc-begin %d\n", nclients)
	type ev struct {
		client   int
		inv, ret int64
		call     string
		rep      string
	}
	var clock int64
	var mu sync.Mutex
	var hist []ev
	var wg sync.WaitGroup
	var lastVal [4]atomic.Value
	for c := 0; c < nclients; c++ {
		wg.Add(1)
		crng := rand.New(rand.NewSource(rng.Int63()))
		go func(c int) {
			defer wg.Done()
			for i := 0; i < nops; i++ {
				id := 100 + c*1000 + i
				e := ev{client: c}
				if crng.Intn(3) == 0 {
					k := uint64(513 + crng.Intn(4))
					e.call = fmt.Sprintf("KG %d %d", id, k)
					e.inv = atomic.AddInt64(&clock, 1)
					func() {
						defer func() {
							if x := recover(); x != nil {
								e.rep = "KR panic"
							}
						}()
						p, ok := store.Get(k)
						e.rep = fmt.Sprintf("KR %d %s", b2i(ok), hexs(p.Val[:8]))
					}()
				} else {
					n := 2 + crng.Intn(3)
					var pairs []kvs.KVPair
					var sb strings.Builder
					fmt.Fprintf(&sb, "KP %d %d", id, n)
					for j := 0; j < n; j++ {
						k := uint64(513 + (crng.Intn(4)+j)%4)
						v := make([]byte, 4096)
						v[0], v[1], v[2] = byte(id), byte(id>>8), byte(j)
						if lv, ok := lastVal[k-513].Load().([]byte); ok && crng.Intn(3) == 0 {
							// repeat what the key (most probably) holds right now, next to fresh values for the other keys
							copy(v, lv)
						}
						pairs = append(pairs, kvs.KVPair{Key: k, Val: v})
						fmt.Fprintf(&sb, " %d %s", k, hexs(v[:8]))
					}
					e.call = sb.String()
					e.inv = atomic.AddInt64(&clock, 1)
					func() {
						defer func() {
							if x := recover(); x != nil {
								e.rep = "KR panic"
							}
						}()
						ok := store.MultiPut(pairs)
						e.rep = fmt.Sprintf("KR %d -", b2i(ok))
						for _, p := range pairs {
							lastVal[p.Key-513].Store(p.Val)
						}
					}()
				}
				e.ret = atomic.AddInt64(&clock, 1)
				mu.Lock()
				hist = append(hist, e)
				mu.Unlock()
				if crng.Intn(3) == 0 {
					runtime.Gosched()
				}
			}
		}(c)
	}
	wg.Wait()
	sort.Slice(hist, func(i, j int) bool { return hist[i].inv < hist[j].inv })
	for _, e := range hist {
		fmt.Fprintf(w, "H %d %d %d\n%s\n%s\n", e.client, e.inv, e.ret, e.call, e.rep)
	}
	fmt.Fprintf(w, "M conc-end ok\n")
	store.Delete()
}

func init() {
	extraCmds["kvsconc"] = func(args []string) {
		fs := flag.NewFlagSet("kvsconc", flag.ExitOnError)
		seed := fs.Int64("seed", 1, "")
		nc := fs.Int("clients", 3, "")
		n := fs.Int("nops", 8, "")
		out := fs.String("out", "kvsconc.trace", "")
		fs.Parse(args)
		runKvsConc(*seed, *nc, *n, *out)
	}
	extraCmds["simpleconc"] = func(args []string) {
		fs := flag.NewFlagSet("simpleconc", flag.ExitOnError)
		seed := fs.Int64("seed", 1, "")
		nc := fs.Int("clients", 3, "")
		n := fs.Int("nops", 6, "")
		out := fs.String("out", "simpleconc.trace", "")
		fs.Parse(args)
		runSimpleConc(*seed, *nc, *n, *out)
	}
	extraCmds["simple"] = func(args []string) {
		fs := flag.NewFlagSet("simple", flag.ExitOnError)
		seed := fs.Int64("seed", 1, "")
		n := fs.Int("ncalls", 300, "")
		out := fs.String("out", "simple.trace", "")
		crash := fs.Bool("crash", false, "")
		budget := fs.Int("budget", 300, "")
		fs.Parse(args)
		runSimple(*seed, *n, *out, *crash, *budget)
	}
	extraCmds["kvs"] = func(args []string) {
		fs := flag.NewFlagSet("kvs", flag.ExitOnError)
		seed := fs.Int64("seed", 1, "")
		n := fs.Int("ncalls", 100, "")
		out := fs.String("out", "kvs.trace", "")
		budget := fs.Int("budget", 300, "")
		fs.Parse(args)
		runKvs(*seed, *n, *out, *budget)
	}
}
