package main

// simpledur: what a reply of the simple server showed must survive a crash right after that reply.
// Per round one file is cut to 0, then one client extends it with a WRITE while others poll GETATTR.  A GETATTR that
// answers with the new size while no disk event happened during the call saw exactly the disk image of
// that moment: the server is recovered from that image (simple.Recover on the recorded event prefix) and must
// report at least that size.  (A call during which the disk changed is inconclusive and skipped.)

import (
	"bufio"
	"encoding/binary"
	"flag"
	"fmt"
	"math/rand"
	"os"
	"sync"
	"sync/atomic"

	"github.com/mit-pdos/go-nfsd/nfstypes"
	"github.com/mit-pdos/go-nfsd/simple"
)

func runSimpleDur(seed int64, rounds int, out string) {
	f, _ := os.Create(out)
	defer f.Close()
	w := bufio.NewWriterSize(f, 1<<20)
	defer w.Flush()
	rng := rand.New(rand.NewSource(seed))
	d := NewSDisk(700)
	srv := simple.MakeNfs(d)
	base := d.StartRecording()
	type obs struct {
		n    int
		size uint64
		inum uint64
	}
	var seen []obs
	conclusive, skipped := 0, 0
	for r := 0; r < rounds; r++ {
		inum := uint64(2 + rng.Intn(4))
		h := make([]byte, 8)
		binary.LittleEndian.PutUint64(h, inum)
		fh := nfstypes.Nfs_fh3{Data: h}
		var a nfstypes.SETATTR3args
		a.Object = fh
		a.New_attributes.Size.Set_it = true
		srv.NFSPROC3_SETATTR(a)
		n := uint64(50 + rng.Intn(3000))
		data := make([]byte, n)
		for i := range data {
			data[i] = byte(1 + r%200)
		}
		var done int32
		var wg sync.WaitGroup
		var mu sync.Mutex
		for p := 0; p < 3; p++ {
			wg.Add(1)
			go func() {
				defer wg.Done()
				for k := 0; k < 4000 && atomic.LoadInt32(&done) == 0; k++ {
					n0 := d.NEvents()
					g := srv.NFSPROC3_GETATTR(nfstypes.GETATTR3args{Object: fh})
					n1 := d.NEvents()
					if g.Status != 0 || g.Resok.Obj_attributes.Size == 0 {
						continue
					}
					mu.Lock()
					if n0 == n1 {
						seen = append(seen, obs{n0, uint64(g.Resok.Obj_attributes.Size), inum})
						conclusive++
					} else {
						skipped++
					}
					mu.Unlock()
					return
				}
			}()
		}
		srv.NFSPROC3_WRITE(nfstypes.WRITE3args{File: fh, Offset: 0, Count: nfstypes.Count3(n), Stable: nfstypes.FILE_SYNC, Data: data})
		atomic.StoreInt32(&done, 1)
		wg.Wait()
	}
	evs := d.Events()
	bad := 0
	for _, o := range seen {
		img := CrashImage(base, evs, o.n, nil)
		var rs *simple.Nfs
		func() {
			defer func() { recover() }()
			rs = simple.Recover(img)
		}()
		if rs == nil {
			fmt.Fprintf(w, "U %d BAD recovery-panicked\n", o.n)
			bad++
			continue
		}
		h := make([]byte, 8)
		binary.LittleEndian.PutUint64(h, o.inum)
		g := rs.NFSPROC3_GETATTR(nfstypes.GETATTR3args{Object: nfstypes.Nfs_fh3{Data: h}})
		if g.Status != 0 || uint64(g.Resok.Obj_attributes.Size) < o.size {
			fmt.Fprintf(w, "U %d BAD acknowledged-GETATTR-showed-size=%d but-a-crash-right-after-it-recovers-size=%d inum=%d\n",
				o.n, o.size, uint64(g.Resok.Obj_attributes.Size), o.inum)
			bad++
		}
		rs.VerifLog().Shutdown()
	}
	fmt.Fprintf(w, "UD rounds=%d conclusive=%d skipped=%d bad=%d\n", rounds, conclusive, skipped, bad)
}

func init() {
	extraCmds["simpledur"] = func(args []string) {
		fs := flag.NewFlagSet("simpledur", flag.ExitOnError)
		seed := fs.Int64("seed", 1, "")
		rounds := fs.Int("rounds", 40, "")
		out := fs.String("out", "/dev/stdout", "")
		fs.Parse(args)
		runSimpleDur(*seed, *rounds, *out)
	}
}
