package main

import (
	"bufio"
	"encoding/hex"
	"fmt"
	"os"
	"runtime/debug"
	"sort"
	"strings"
	"time"

	"github.com/mit-pdos/go-nfsd/fh"
	"github.com/mit-pdos/go-nfsd/inode"
	"github.com/mit-pdos/go-nfsd/nfs"
	"github.com/mit-pdos/go-nfsd/nfstypes"
)

// Runner drives one real server sequentially and writes the trace the model
// driver consumes (calls, replies, changed logical blocks, allocator counts).
type Runner struct {
	sz          uint64
	d           *SDisk
	srv         *nfs.Nfs
	w           *bufio.Writer
	du          *Dumper
	handles     map[int][]byte
	autoIdle    bool
	noDump      bool
	nops        int
	hist        map[string]int // proc/status histogram
	tr          *tracer
	subId       int
	checkpoints int
	noCache     bool // skip the R-cache dump (workloads with thousands of read-only steps)
}

func NewRunner(sz uint64, w *bufio.Writer) *Runner {
	r := &Runner{sz: sz, w: w, du: NewDumper(), handles: make(map[int][]byte), autoIdle: true, hist: make(map[string]int)}
	r.d = NewSDisk(sz)
	r.srv = nfs.MakeNfs(r.d)
	r.attachTracer()
	return r
}

func (r *Runner) attachTracer() {
	if r.tr == nil {
		r.tr = &tracer{}
		r.tr.reset()
	}
	tracers.Store(r.srv.VerifState(), r.tr)
}

func (r *Runner) resolve(sym string) []byte {
	switch {
	case sym == "root":
		return fh.MkRootFh3().Data
	case strings.HasPrefix(sym, "@"):
		var id int
		fmt.Sscanf(sym[1:], "%d", &id)
		if h, ok := r.handles[id]; ok {
			return h
		}
		// the creating operation was removed or failed: a handle that cannot be live
		return []byte{0xff, 0xff, 0xff, 0x7f, 0, 0, 0, 0, 0xff, 0xff, 0xff, 0xff, 0, 0, 0, 0}
	case strings.HasPrefix(sym, "x"):
		return unhex(sym[1:])
	}
	return []byte{}
}

// Init emits the header: announced limits (read from FSINFO/PATHCONF) and the
// initial image.
func (r *Runner) Init() {
	root := fh.MkRootFh3().Data
	fi := Exec(r.srv, Op{Proc: "fsinfo"}, root, nil)
	pc := Exec(r.srv, Op{Proc: "pathconf"}, root, nil)
	st := r.srv.VerifState()
	fmt.Fprintf(r.w, "I %d %d %d %d %d %d %d\n", r.sz, b2i(r.srv.Unstable), pc.Namemax, fi.Maxfs, fi.Wtmax, uint64(st.Super.NInode()), fi.Rtmax)
	r.checkpoint(true)
}

func (r *Runner) scanHi() uint64 {
	if r.sz <= 40000 {
		return r.sz
	}
	// big sparse disks: scan what can be non-zero (written home blocks and the region
	// the allocator has reached), see DESIGN 3.4
	hi := r.d.MaxWritten() + 2048
	if hi > r.sz {
		hi = r.sz
	}
	return hi
}

func (r *Runner) checkpoint(quiescent bool) {
	// nothing was committed since the last checkpoint: the logical disk and the caches' relation to it
	// are unchanged (the installer only moves committed data from the log to its home)
	clean := false
	if r.tr != nil && r.checkpoints > 0 {
		r.tr.mu.Lock()
		clean = !r.tr.dirty
		r.tr.dirty = false
		r.tr.mu.Unlock()
	}
	r.checkpoints++
	if !quiescent && !r.noDump {
		// the background shrinker may be running: a dump taken now could be torn between two of its
		// transactions, so this step is judged by its reply only (Q) and the state relations wait for
		// the next quiescent checkpoint
		if r.tr != nil {
			r.tr.mu.Lock()
			r.tr.dirty = true
			r.tr.mu.Unlock()
		}
		st := r.srv.VerifState()
		fmt.Fprintf(r.w, "Q\nA %d %d 0\nE\n", st.Balloc.NumFree(), st.Ialloc.NumFree())
		return
	}
	if clean && quiescent {
		st := r.srv.VerifState()
		fmt.Fprintf(r.w, "A %d %d %d\n", st.Balloc.NumFree(), st.Ialloc.NumFree(), b2i(quiescent))
		fmt.Fprintf(r.w, "E\n")
		return
	}
	if !r.noDump {
		r.du.Dump(r.w, 513, r.scanHi(), logicalReader(r.srv))
	}
	st := r.srv.VerifState()
	if quiescent && !r.noDump && !r.noCache {
		// R-cache: what the server holds in memory, to be compared with the disk by the model driver
		ents := st.Icache.VerifEntries()
		ids := make([]uint64, 0, len(ents))
		for id := range ents {
			ids = append(ids, id)
		}
		sort.Slice(ids, func(i, j int) bool { return ids[i] < ids[j] })
		for _, id := range ids {
			ip, ok := ents[id].(*inode.Inode)
			if !ok || ip == nil {
				continue
			}
			fmt.Fprintf(r.w, "K %d %s\n", id, hex.EncodeToString(ip.Encode()))
			if ip.Dcache != nil && ip.Kind == nfstypes.NF3DIR { // a free inode's old name cache is never consulted
				de := ip.Dcache.VerifEntries()
				names := make([]string, 0, len(de))
				for n := range de {
					names = append(names, n)
				}
				sort.Strings(names)
				fmt.Fprintf(r.w, "KD %d %d %d", id, ip.Dcache.Lastoff, len(names))
				for _, n := range names {
					fmt.Fprintf(r.w, " %s %d %d", hexs([]byte(n)), uint64(de[n].Inum), de[n].Off)
				}
				fmt.Fprintln(r.w)
			}
		}
	}
	fmt.Fprintf(r.w, "A %d %d %d\n", st.Balloc.NumFree(), st.Ialloc.NumFree(), b2i(quiescent))
	fmt.Fprintf(r.w, "E\n")
}

func (r *Runner) Idle() { r.srv.VerifShrinker().Shutdown() }

func (r *Runner) Restart() {
	r.srv.ShutdownNfs()
	un := r.srv.Unstable
	tracers.Delete(r.srv.VerifState())
	r.srv = nfs.MakeNfs(r.d)
	r.srv.Unstable = un
	r.attachTracer()
}

// Enum pages through a directory, passing back the cookie of the last entry received, until
// end-of-directory; optionally the directory changes between pages.
func (r *Runner) Enum(o Op) {
	fmt.Fprintf(r.w, "M enum-begin %d\n", o.Id)
	cookie := uint64(0)
	how := "eof"
	var created []string
	for pages := 0; ; pages++ {
		r.subId++
		sub := Op{Id: 1000000 + r.subId, Proc: "readdir", H: o.H, Cookie: cookie, Count: o.Count}
		if o.Mode == 1 {
			sub.Proc = "readdirplus"
			sub.Dircount, sub.Maxcount = o.Dircount, o.Maxcount
		}
		rep := r.Step(sub)
		if rep.Code != 0 || rep.Kind != "dir" {
			how = "error"
			break
		}
		if len(rep.Ents) > 0 {
			cookie = rep.Ents[len(rep.Ents)-1].Cookie
		}
		if rep.Eof {
			break
		}
		if len(rep.Ents) == 0 {
			how = "stuck"
			break
		}
		if pages > 600 {
			how = "overrun"
			break
		}
		if o.Stable == 1 { // mutate between pages: add an entry, or remove one added earlier
			r.subId++
			if pages%2 == 0 {
				n := fmt.Sprintf("zmut%d_%d", o.Id, pages)
				r.Step(Op{Id: 1000000 + r.subId, Proc: "create", H: o.H, Name: n})
				created = append(created, n)
			} else if len(created) > 0 {
				r.Step(Op{Id: 1000000 + r.subId, Proc: "remove", H: o.H, Name: created[0]})
				created = created[1:]
			}
		}
	}
	for _, n := range created {
		r.subId++
		r.Step(Op{Id: 1000000 + r.subId, Proc: "remove", H: o.H, Name: n})
	}
	fmt.Fprintf(r.w, "M enum-end %d %s\n", o.Id, how)
}

// Step executes one operation and emits its trace lines.
func (r *Runner) Step(o Op) Reply {
	if o.Proc == "enum" {
		r.Enum(o)
		return Reply{Kind: "st"}
	}
	r.nops++
	switch {
	case o.Proc == "restart":
		r.Restart()
		fmt.Fprintf(r.w, "C %d restart\nR st 0\n", o.Id)
		r.checkpoint(true)
		r.hist["restart/0"]++
		return Reply{Kind: "st"}
	case o.Proc == "twin":
		r.Twin(o.Id)
		// the walk reads every file of the running server, and READ over holes allocates (finding F25): the free
		// counts the next call is judged against must be the ones after the walk
		fmt.Fprintf(r.w, "C %d null\nR st 0\n", o.Id)
		r.checkpoint(true)
		return Reply{Kind: "st"}
	case o.Proc == "idle":
		r.Idle()
		fmt.Fprintf(r.w, "C %d null\nR st 0\n", o.Id)
		r.checkpoint(true)
		return Reply{Kind: "st"}
	case strings.HasPrefix(o.Proc, "unstable:"):
		r.srv.Unstable = o.Proc == "unstable:1"
		fmt.Fprintf(r.w, "U %d\n", b2i(r.srv.Unstable))
		return Reply{Kind: "st"}
	case strings.HasPrefix(o.Proc, "autoidle:"):
		r.autoIdle = o.Proc == "autoidle:1"
		if r.tr != nil {
			r.tr.mu.Lock()
			r.tr.yield = o.Proc == "autoidle:0" // ("autoidle:2": no waiting, no dumps, and no pauses either)
			r.tr.mu.Unlock()
		}
		return Reply{Kind: "st"}
	case o.Proc == "mount":
		// the MOUNT program of the same server (the reference has nothing to say about it: the question is only
		// whether every request gets an answer); o.Name is the path, o.Mode selects the procedure
		func() {
			defer func() {
				if e := recover(); e != nil {
					panic(fmt.Sprintf("MOUNT procedure %d with path %q: %v", o.Mode, o.Name, e))
				}
			}()
			switch o.Mode % 6 {
			case 0:
				r.srv.MOUNTPROC3_MNT(nfstypes.Dirpath3(o.Name))
			case 1:
				r.srv.MOUNTPROC3_UMNT(nfstypes.Dirpath3(o.Name))
			case 2:
				r.srv.MOUNTPROC3_UMNTALL()
			case 3:
				r.srv.MOUNTPROC3_DUMP()
			case 4:
				r.srv.MOUNTPROC3_EXPORT()
			default:
				r.srv.MOUNTPROC3_NULL()
			}
		}()
		fmt.Fprintf(r.w, "C %d null\nR st 0\n", o.Id)
		r.checkpoint(r.autoIdle)
		return Reply{Kind: "st"}
	case o.Proc == "null":
		r.srv.NFSPROC3_NULL()
		fmt.Fprintf(r.w, "C %d null\nR st 0\n", o.Id)
		r.checkpoint(r.autoIdle)
		return Reply{Kind: "st"}
	}
	h := r.resolve(o.H)
	var h2 []byte
	if o.Proc == "rename" {
		h2 = r.resolve(o.H2)
	}
	fmt.Fprintln(r.w, CallLine(o, h, h2))
	r.w.Flush()
	if r.tr != nil {
		r.tr.reset()
	}
	rep := r.execWatch(o, h, h2)
	if r.tr != nil {
		fmt.Fprintln(r.w, r.tr.line())
	}
	if rep.Kind == "handle" && rep.Code == 0 && o.Proc != "lookup" {
		r.handles[o.Id] = rep.H
	}
	if rep.Kind == "handle" && rep.Code == 0 && o.Proc == "lookup" {
		r.handles[o.Id] = rep.H
	}
	fmt.Fprintln(r.w, rep.Line())
	if r.autoIdle {
		r.Idle()
	}
	r.checkpoint(r.autoIdle)
	r.hist[fmt.Sprintf("%s/%d", o.Proc, rep.Code)]++
	return rep
}

// execWatch runs the call under a watchdog: a call that does not return within the limit
// is reported as a hang (the process exits, the trace so far is the replay).
func (r *Runner) execWatch(o Op, h, h2 []byte) Reply {
	ch := make(chan Reply, 1)
	pc := make(chan interface{}, 1)
	go func() {
		defer func() {
			if e := recover(); e != nil {
				pc <- fmt.Sprintf("%v\n%s", e, debug.Stack())
			}
		}()
		if r.tr != nil {
			r.tr.mu.Lock()
			r.tr.gid = curGoid()
			r.tr.mu.Unlock()
		}
		ch <- Exec(r.srv, o, h, h2)
	}()
	select {
	case rep := <-ch:
		return rep
	case e := <-pc:
		panic(e)
	case <-time.After(WatchdogLimit):
		// the call is stuck (its goroutine and this server are abandoned); the sequence ends here
		fmt.Fprintf(r.w, "X hang\n")
		r.w.Flush()
		panic(fmt.Sprintf("hang: %s did not return within %v (op %s)", o.Proc, WatchdogLimit, o.Sym()))
	}
}

var WatchdogLimit = 20 * time.Second

func (r *Runner) Close() {
	r.srv.ShutdownNfs()
	r.w.Flush()
}

func readOps(path string) ([]Op, error) {
	f, err := os.Open(path)
	if err != nil {
		return nil, err
	}
	defer f.Close()
	var ops []Op
	sc := bufio.NewScanner(f)
	sc.Buffer(make([]byte, 1<<20), 64<<20)
	for sc.Scan() {
		line := strings.TrimSpace(sc.Text())
		if line == "" || strings.HasPrefix(line, "#") {
			continue
		}
		o, err := ParseOp(line)
		if err != nil {
			return nil, err
		}
		ops = append(ops, o)
	}
	return ops, sc.Err()
}
