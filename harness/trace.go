package main

import (
	"fmt"
	"runtime"
	"strings"
	"sync"
	"sync/atomic"
	"time"

	"github.com/mit-pdos/go-nfsd/fstxn"
)

// Lock/commit event tracing through the verif hooks.  Events are routed to the
// runner that owns the FsState; each RPC's events are emitted as one L line:
//   a<t>:<inum>  after acquire      r<t>:<inum> before release
//   c<t>:<wait>  before commit      d<t>:<ok>   after commit
//   x<t>         abort              f<t> / g<t>:<ok>  before / after log flush
//   n<t>:<inum>  inode number freshly allocated by the transaction
// <t> numbers the transactions of the RPC in order of first appearance.

type tracer struct {
	mu     sync.Mutex
	evs    []string
	txns   map[*fstxn.FsTxn]int
	aborts int
	limit  int
	dirty  bool // some transaction since the last checkpoint committed buffers (or a shrinker ran)
	gid    uint64 // goroutine serving the current call: events of other goroutines (the background shrinker) are not the call's
	yield  bool // pause before every lock acquisition: a waiting call gets in between two rounds of the background shrinker
}

var tracers sync.Map // *fstxn.FsState -> *tracer

const LivelockLimit = 2000

// hookImpl is what the (single, never re-assigned) hook of the repository calls: the sequential tracer by default,
// the concurrent runner's while it is active.  Swapping it is an atomic store, so goroutines of abandoned calls that
// are still inside the server never race with the harness on the hook variable itself.
var hookImpl atomic.Value

type hookFn func(kind int, op *fstxn.FsTxn, arg uint64)

func installHook() {
	hookImpl.Store(hookFn(seqHook))
	fstxn.VerifHook = func(kind int, op *fstxn.FsTxn, arg uint64) {
		hookImpl.Load().(hookFn)(kind, op, arg)
	}
}

func seqHook(kind int, op *fstxn.FsTxn, arg uint64) {
	{
		v, ok := tracers.Load(op.Fs)
		if !ok {
			return
		}
		t := v.(*tracer)
		if kind == 0 {
			t.mu.Lock()
			y := t.yield
			t.mu.Unlock()
			if y {
				time.Sleep(300 * time.Microsecond)
			}
			return
		}
		t.mu.Lock()
		if t.gid != 0 && curGoid() != t.gid {
			// a background transaction: it only tells the checkpoint that the disk may have changed
			if kind == 3 {
				t.dirty = true
			}
			t.mu.Unlock()
			return
		}
		id, ok := t.txns[op]
		if !ok {
			id = len(t.txns)
			t.txns[op] = id
		}
		switch kind {
		case 1:
			t.evs = append(t.evs, fmt.Sprintf("a%d:%d", id, arg))
		case 2:
			t.evs = append(t.evs, fmt.Sprintf("r%d:%d", id, arg))
		case 3:
			t.evs = append(t.evs, fmt.Sprintf("c%d:%d", id, arg))
			if op.Atxn.Op.NDirty() > 0 {
				t.dirty = true
			}
		case 4:
			t.evs = append(t.evs, fmt.Sprintf("d%d:%d", id, arg))
		case 5:
			t.evs = append(t.evs, fmt.Sprintf("x%d", id))
			t.aborts++
		case 6:
			t.evs = append(t.evs, fmt.Sprintf("f%d", id))
		case 7:
			t.evs = append(t.evs, fmt.Sprintf("g%d:%d", id, arg))
		case 8:
			t.evs = append(t.evs, fmt.Sprintf("n%d:%d", id, arg))
		}
		n := t.aborts
		t.mu.Unlock()
		if kind == 5 && n > LivelockLimit {
			panic(fmt.Sprintf("livelock: %d aborted transactions inside one RPC", n))
		}
	}
}

// curGoid parses the goroutine number out of the stack header ("goroutine 123 [running]:").
func curGoid() uint64 {
	var buf [64]byte
	n := runtime.Stack(buf[:], false)
	var id uint64
	for _, c := range buf[len("goroutine "):n] {
		if c < '0' || c > '9' {
			break
		}
		id = id*10 + uint64(c-'0')
	}
	return id
}

func (t *tracer) reset() {
	t.mu.Lock()
	t.evs = nil
	t.txns = map[*fstxn.FsTxn]int{}
	t.aborts = 0
	t.mu.Unlock()
}

func (t *tracer) line() string {
	t.mu.Lock()
	defer t.mu.Unlock()
	if len(t.evs) == 0 {
		return "L -"
	}
	return "L " + strings.Join(t.evs, " ")
}
