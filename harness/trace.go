package main

import (
	"fmt"
	"strings"
	"sync"
	"time"

	"github.com/mit-pdos/go-nfsd/fstxn"
)

// Lock/commit event tracing through the verif hooks.  Events are routed to the
// runner that owns the FsState; each RPC's events are emitted as one L line:
//   a<t>:<inum>  after acquire      r<t>:<inum> before release
//   c<t>:<wait>  before commit      d<t>:<ok>   after commit
//   x<t>         abort              f<t> / g<t>:<ok>  before / after log flush
//   n<t>:<inum>  inode number freshly allocated by the transaction
// <t> numbers the transactions of the RPC in order of first appearance.

type tracer struct {
	mu     sync.Mutex
	evs    []string
	txns   map[*fstxn.FsTxn]int
	aborts int
	limit  int
	dirty  bool // some transaction since the last checkpoint committed buffers (or a shrinker ran)
	yield  bool // pause before every lock acquisition: a waiting call gets in between two rounds of the background shrinker
}

var tracers sync.Map // *fstxn.FsState -> *tracer

const LivelockLimit = 2000

func installHook() {
	fstxn.VerifHook = func(kind int, op *fstxn.FsTxn, arg uint64) {
		v, ok := tracers.Load(op.Fs)
		if !ok {
			return
		}
		t := v.(*tracer)
		if kind == 0 {
			t.mu.Lock()
			y := t.yield
			t.mu.Unlock()
			if y {
				time.Sleep(300 * time.Microsecond)
			}
			return
		}
		t.mu.Lock()
		id, ok := t.txns[op]
		if !ok {
			id = len(t.txns)
			t.txns[op] = id
		}
		switch kind {
		case 1:
			t.evs = append(t.evs, fmt.Sprintf("a%d:%d", id, arg))
		case 2:
			t.evs = append(t.evs, fmt.Sprintf("r%d:%d", id, arg))
		case 3:
			t.evs = append(t.evs, fmt.Sprintf("c%d:%d", id, arg))
			if op.Atxn.Op.NDirty() > 0 {
				t.dirty = true
			}
		case 4:
			t.evs = append(t.evs, fmt.Sprintf("d%d:%d", id, arg))
		case 5:
			t.evs = append(t.evs, fmt.Sprintf("x%d", id))
			t.aborts++
		case 6:
			t.evs = append(t.evs, fmt.Sprintf("f%d", id))
		case 7:
			t.evs = append(t.evs, fmt.Sprintf("g%d:%d", id, arg))
		case 8:
			t.evs = append(t.evs, fmt.Sprintf("n%d:%d", id, arg))
		}
		n := t.aborts
		t.mu.Unlock()
		if kind == 5 && n > LivelockLimit {
			panic(fmt.Sprintf("livelock: %d aborted transactions inside one RPC", n))
		}
	}
}

func (t *tracer) reset() {
	t.mu.Lock()
	t.evs = nil
	t.txns = map[*fstxn.FsTxn]int{}
	t.aborts = 0
	t.mu.Unlock()
}

func (t *tracer) line() string {
	t.mu.Lock()
	defer t.mu.Unlock()
	if len(t.evs) == 0 {
		return "L -"
	}
	return "L " + strings.Join(t.evs, " ")
}
