
type __ = Obj.t
let __ = let rec f _ = Obj.repr f in Obj.repr f

(** val negb : bool -> bool **)

let negb = function
| true -> false
| false -> true

type nat =
| O
| S of nat

(** val option_map : ('a1 -> 'a2) -> 'a1 option -> 'a2 option **)

let option_map f = function
| Some a -> Some (f a)
| None -> None

(** val fst : ('a1 * 'a2) -> 'a1 **)

let fst = function
| (x, _) -> x

(** val snd : ('a1 * 'a2) -> 'a2 **)

let snd = function
| (_, y) -> y

(** val uncurry : ('a1 -> 'a2 -> 'a3) -> ('a1 * 'a2) -> 'a3 **)

let uncurry f = function
| (x, y) -> f x y

(** val prod_curry_subdef : ('a1 -> 'a2 -> 'a3) -> ('a1 * 'a2) -> 'a3 **)

let prod_curry_subdef =
  uncurry

(** val length : 'a1 list -> nat **)

let rec length = function
| [] -> O
| _ :: l' -> S (length l')

(** val app : 'a1 list -> 'a1 list -> 'a1 list **)

let rec app l m =
  match l with
  | [] -> m
  | a :: l1 -> a :: (app l1 m)

type comparison =
| Eq
| Lt
| Gt

(** val id : __ -> __ **)

let id x =
  x

module Coq__1 = struct
 (** val add : nat -> nat -> nat **)
 let rec add n0 m =
   match n0 with
   | O -> m
   | S p -> S (add p m)
end
include Coq__1

type byte =
| X00
| X01
| X02
| X03
| X04
| X05
| X06
| X07
| X08
| X09
| X0a
| X0b
| X0c
| X0d
| X0e
| X0f
| X10
| X11
| X12
| X13
| X14
| X15
| X16
| X17
| X18
| X19
| X1a
| X1b
| X1c
| X1d
| X1e
| X1f
| X20
| X21
| X22
| X23
| X24
| X25
| X26
| X27
| X28
| X29
| X2a
| X2b
| X2c
| X2d
| X2e
| X2f
| X30
| X31
| X32
| X33
| X34
| X35
| X36
| X37
| X38
| X39
| X3a
| X3b
| X3c
| X3d
| X3e
| X3f
| X40
| X41
| X42
| X43
| X44
| X45
| X46
| X47
| X48
| X49
| X4a
| X4b
| X4c
| X4d
| X4e
| X4f
| X50
| X51
| X52
| X53
| X54
| X55
| X56
| X57
| X58
| X59
| X5a
| X5b
| X5c
| X5d
| X5e
| X5f
| X60
| X61
| X62
| X63
| X64
| X65
| X66
| X67
| X68
| X69
| X6a
| X6b
| X6c
| X6d
| X6e
| X6f
| X70
| X71
| X72
| X73
| X74
| X75
| X76
| X77
| X78
| X79
| X7a
| X7b
| X7c
| X7d
| X7e
| X7f
| X80
| X81
| X82
| X83
| X84
| X85
| X86
| X87
| X88
| X89
| X8a
| X8b
| X8c
| X8d
| X8e
| X8f
| X90
| X91
| X92
| X93
| X94
| X95
| X96
| X97
| X98
| X99
| X9a
| X9b
| X9c
| X9d
| X9e
| X9f
| Xa0
| Xa1
| Xa2
| Xa3
| Xa4
| Xa5
| Xa6
| Xa7
| Xa8
| Xa9
| Xaa
| Xab
| Xac
| Xad
| Xae
| Xaf
| Xb0
| Xb1
| Xb2
| Xb3
| Xb4
| Xb5
| Xb6
| Xb7
| Xb8
| Xb9
| Xba
| Xbb
| Xbc
| Xbd
| Xbe
| Xbf
| Xc0
| Xc1
| Xc2
| Xc3
| Xc4
| Xc5
| Xc6
| Xc7
| Xc8
| Xc9
| Xca
| Xcb
| Xcc
| Xcd
| Xce
| Xcf
| Xd0
| Xd1
| Xd2
| Xd3
| Xd4
| Xd5
| Xd6
| Xd7
| Xd8
| Xd9
| Xda
| Xdb
| Xdc
| Xdd
| Xde
| Xdf
| Xe0
| Xe1
| Xe2
| Xe3
| Xe4
| Xe5
| Xe6
| Xe7
| Xe8
| Xe9
| Xea
| Xeb
| Xec
| Xed
| Xee
| Xef
| Xf0
| Xf1
| Xf2
| Xf3
| Xf4
| Xf5
| Xf6
| Xf7
| Xf8
| Xf9
| Xfa
| Xfb
| Xfc
| Xfd
| Xfe
| Xff

(** val to_bits :
    byte -> bool * (bool * (bool * (bool * (bool * (bool * (bool * bool)))))) **)

let to_bits = function
| X00 -> (false, (false, (false, (false, (false, (false, (false, false)))))))
| X01 -> (true, (false, (false, (false, (false, (false, (false, false)))))))
| X02 -> (false, (true, (false, (false, (false, (false, (false, false)))))))
| X03 -> (true, (true, (false, (false, (false, (false, (false, false)))))))
| X04 -> (false, (false, (true, (false, (false, (false, (false, false)))))))
| X05 -> (true, (false, (true, (false, (false, (false, (false, false)))))))
| X06 -> (false, (true, (true, (false, (false, (false, (false, false)))))))
| X07 -> (true, (true, (true, (false, (false, (false, (false, false)))))))
| X08 -> (false, (false, (false, (true, (false, (false, (false, false)))))))
| X09 -> (true, (false, (false, (true, (false, (false, (false, false)))))))
| X0a -> (false, (true, (false, (true, (false, (false, (false, false)))))))
| X0b -> (true, (true, (false, (true, (false, (false, (false, false)))))))
| X0c -> (false, (false, (true, (true, (false, (false, (false, false)))))))
| X0d -> (true, (false, (true, (true, (false, (false, (false, false)))))))
| X0e -> (false, (true, (true, (true, (false, (false, (false, false)))))))
| X0f -> (true, (true, (true, (true, (false, (false, (false, false)))))))
| X10 -> (false, (false, (false, (false, (true, (false, (false, false)))))))
| X11 -> (true, (false, (false, (false, (true, (false, (false, false)))))))
| X12 -> (false, (true, (false, (false, (true, (false, (false, false)))))))
| X13 -> (true, (true, (false, (false, (true, (false, (false, false)))))))
| X14 -> (false, (false, (true, (false, (true, (false, (false, false)))))))
| X15 -> (true, (false, (true, (false, (true, (false, (false, false)))))))
| X16 -> (false, (true, (true, (false, (true, (false, (false, false)))))))
| X17 -> (true, (true, (true, (false, (true, (false, (false, false)))))))
| X18 -> (false, (false, (false, (true, (true, (false, (false, false)))))))
| X19 -> (true, (false, (false, (true, (true, (false, (false, false)))))))
| X1a -> (false, (true, (false, (true, (true, (false, (false, false)))))))
| X1b -> (true, (true, (false, (true, (true, (false, (false, false)))))))
| X1c -> (false, (false, (true, (true, (true, (false, (false, false)))))))
| X1d -> (true, (false, (true, (true, (true, (false, (false, false)))))))
| X1e -> (false, (true, (true, (true, (true, (false, (false, false)))))))
| X1f -> (true, (true, (true, (true, (true, (false, (false, false)))))))
| X20 -> (false, (false, (false, (false, (false, (true, (false, false)))))))
| X21 -> (true, (false, (false, (false, (false, (true, (false, false)))))))
| X22 -> (false, (true, (false, (false, (false, (true, (false, false)))))))
| X23 -> (true, (true, (false, (false, (false, (true, (false, false)))))))
| X24 -> (false, (false, (true, (false, (false, (true, (false, false)))))))
| X25 -> (true, (false, (true, (false, (false, (true, (false, false)))))))
| X26 -> (false, (true, (true, (false, (false, (true, (false, false)))))))
| X27 -> (true, (true, (true, (false, (false, (true, (false, false)))))))
| X28 -> (false, (false, (false, (true, (false, (true, (false, false)))))))
| X29 -> (true, (false, (false, (true, (false, (true, (false, false)))))))
| X2a -> (false, (true, (false, (true, (false, (true, (false, false)))))))
| X2b -> (true, (true, (false, (true, (false, (true, (false, false)))))))
| X2c -> (false, (false, (true, (true, (false, (true, (false, false)))))))
| X2d -> (true, (false, (true, (true, (false, (true, (false, false)))))))
| X2e -> (false, (true, (true, (true, (false, (true, (false, false)))))))
| X2f -> (true, (true, (true, (true, (false, (true, (false, false)))))))
| X30 -> (false, (false, (false, (false, (true, (true, (false, false)))))))
| X31 -> (true, (false, (false, (false, (true, (true, (false, false)))))))
| X32 -> (false, (true, (false, (false, (true, (true, (false, false)))))))
| X33 -> (true, (true, (false, (false, (true, (true, (false, false)))))))
| X34 -> (false, (false, (true, (false, (true, (true, (false, false)))))))
| X35 -> (true, (false, (true, (false, (true, (true, (false, false)))))))
| X36 -> (false, (true, (true, (false, (true, (true, (false, false)))))))
| X37 -> (true, (true, (true, (false, (true, (true, (false, false)))))))
| X38 -> (false, (false, (false, (true, (true, (true, (false, false)))))))
| X39 -> (true, (false, (false, (true, (true, (true, (false, false)))))))
| X3a -> (false, (true, (false, (true, (true, (true, (false, false)))))))
| X3b -> (true, (true, (false, (true, (true, (true, (false, false)))))))
| X3c -> (false, (false, (true, (true, (true, (true, (false, false)))))))
| X3d -> (true, (false, (true, (true, (true, (true, (false, false)))))))
| X3e -> (false, (true, (true, (true, (true, (true, (false, false)))))))
| X3f -> (true, (true, (true, (true, (true, (true, (false, false)))))))
| X40 -> (false, (false, (false, (false, (false, (false, (true, false)))))))
| X41 -> (true, (false, (false, (false, (false, (false, (true, false)))))))
| X42 -> (false, (true, (false, (false, (false, (false, (true, false)))))))
| X43 -> (true, (true, (false, (false, (false, (false, (true, false)))))))
| X44 -> (false, (false, (true, (false, (false, (false, (true, false)))))))
| X45 -> (true, (false, (true, (false, (false, (false, (true, false)))))))
| X46 -> (false, (true, (true, (false, (false, (false, (true, false)))))))
| X47 -> (true, (true, (true, (false, (false, (false, (true, false)))))))
| X48 -> (false, (false, (false, (true, (false, (false, (true, false)))))))
| X49 -> (true, (false, (false, (true, (false, (false, (true, false)))))))
| X4a -> (false, (true, (false, (true, (false, (false, (true, false)))))))
| X4b -> (true, (true, (false, (true, (false, (false, (true, false)))))))
| X4c -> (false, (false, (true, (true, (false, (false, (true, false)))))))
| X4d -> (true, (false, (true, (true, (false, (false, (true, false)))))))
| X4e -> (false, (true, (true, (true, (false, (false, (true, false)))))))
| X4f -> (true, (true, (true, (true, (false, (false, (true, false)))))))
| X50 -> (false, (false, (false, (false, (true, (false, (true, false)))))))
| X51 -> (true, (false, (false, (false, (true, (false, (true, false)))))))
| X52 -> (false, (true, (false, (false, (true, (false, (true, false)))))))
| X53 -> (true, (true, (false, (false, (true, (false, (true, false)))))))
| X54 -> (false, (false, (true, (false, (true, (false, (true, false)))))))
| X55 -> (true, (false, (true, (false, (true, (false, (true, false)))))))
| X56 -> (false, (true, (true, (false, (true, (false, (true, false)))))))
| X57 -> (true, (true, (true, (false, (true, (false, (true, false)))))))
| X58 -> (false, (false, (false, (true, (true, (false, (true, false)))))))
| X59 -> (true, (false, (false, (true, (true, (false, (true, false)))))))
| X5a -> (false, (true, (false, (true, (true, (false, (true, false)))))))
| X5b -> (true, (true, (false, (true, (true, (false, (true, false)))))))
| X5c -> (false, (false, (true, (true, (true, (false, (true, false)))))))
| X5d -> (true, (false, (true, (true, (true, (false, (true, false)))))))
| X5e -> (false, (true, (true, (true, (true, (false, (true, false)))))))
| X5f -> (true, (true, (true, (true, (true, (false, (true, false)))))))
| X60 -> (false, (false, (false, (false, (false, (true, (true, false)))))))
| X61 -> (true, (false, (false, (false, (false, (true, (true, false)))))))
| X62 -> (false, (true, (false, (false, (false, (true, (true, false)))))))
| X63 -> (true, (true, (false, (false, (false, (true, (true, false)))))))
| X64 -> (false, (false, (true, (false, (false, (true, (true, false)))))))
| X65 -> (true, (false, (true, (false, (false, (true, (true, false)))))))
| X66 -> (false, (true, (true, (false, (false, (true, (true, false)))))))
| X67 -> (true, (true, (true, (false, (false, (true, (true, false)))))))
| X68 -> (false, (false, (false, (true, (false, (true, (true, false)))))))
| X69 -> (true, (false, (false, (true, (false, (true, (true, false)))))))
| X6a -> (false, (true, (false, (true, (false, (true, (true, false)))))))
| X6b -> (true, (true, (false, (true, (false, (true, (true, false)))))))
| X6c -> (false, (false, (true, (true, (false, (true, (true, false)))))))
| X6d -> (true, (false, (true, (true, (false, (true, (true, false)))))))
| X6e -> (false, (true, (true, (true, (false, (true, (true, false)))))))
| X6f -> (true, (true, (true, (true, (false, (true, (true, false)))))))
| X70 -> (false, (false, (false, (false, (true, (true, (true, false)))))))
| X71 -> (true, (false, (false, (false, (true, (true, (true, false)))))))
| X72 -> (false, (true, (false, (false, (true, (true, (true, false)))))))
| X73 -> (true, (true, (false, (false, (true, (true, (true, false)))))))
| X74 -> (false, (false, (true, (false, (true, (true, (true, false)))))))
| X75 -> (true, (false, (true, (false, (true, (true, (true, false)))))))
| X76 -> (false, (true, (true, (false, (true, (true, (true, false)))))))
| X77 -> (true, (true, (true, (false, (true, (true, (true, false)))))))
| X78 -> (false, (false, (false, (true, (true, (true, (true, false)))))))
| X79 -> (true, (false, (false, (true, (true, (true, (true, false)))))))
| X7a -> (false, (true, (false, (true, (true, (true, (true, false)))))))
| X7b -> (true, (true, (false, (true, (true, (true, (true, false)))))))
| X7c -> (false, (false, (true, (true, (true, (true, (true, false)))))))
| X7d -> (true, (false, (true, (true, (true, (true, (true, false)))))))
| X7e -> (false, (true, (true, (true, (true, (true, (true, false)))))))
| X7f -> (true, (true, (true, (true, (true, (true, (true, false)))))))
| X80 -> (false, (false, (false, (false, (false, (false, (false, true)))))))
| X81 -> (true, (false, (false, (false, (false, (false, (false, true)))))))
| X82 -> (false, (true, (false, (false, (false, (false, (false, true)))))))
| X83 -> (true, (true, (false, (false, (false, (false, (false, true)))))))
| X84 -> (false, (false, (true, (false, (false, (false, (false, true)))))))
| X85 -> (true, (false, (true, (false, (false, (false, (false, true)))))))
| X86 -> (false, (true, (true, (false, (false, (false, (false, true)))))))
| X87 -> (true, (true, (true, (false, (false, (false, (false, true)))))))
| X88 -> (false, (false, (false, (true, (false, (false, (false, true)))))))
| X89 -> (true, (false, (false, (true, (false, (false, (false, true)))))))
| X8a -> (false, (true, (false, (true, (false, (false, (false, true)))))))
| X8b -> (true, (true, (false, (true, (false, (false, (false, true)))))))
| X8c -> (false, (false, (true, (true, (false, (false, (false, true)))))))
| X8d -> (true, (false, (true, (true, (false, (false, (false, true)))))))
| X8e -> (false, (true, (true, (true, (false, (false, (false, true)))))))
| X8f -> (true, (true, (true, (true, (false, (false, (false, true)))))))
| X90 -> (false, (false, (false, (false, (true, (false, (false, true)))))))
| X91 -> (true, (false, (false, (false, (true, (false, (false, true)))))))
| X92 -> (false, (true, (false, (false, (true, (false, (false, true)))))))
| X93 -> (true, (true, (false, (false, (true, (false, (false, true)))))))
| X94 -> (false, (false, (true, (false, (true, (false, (false, true)))))))
| X95 -> (true, (false, (true, (false, (true, (false, (false, true)))))))
| X96 -> (false, (true, (true, (false, (true, (false, (false, true)))))))
| X97 -> (true, (true, (true, (false, (true, (false, (false, true)))))))
| X98 -> (false, (false, (false, (true, (true, (false, (false, true)))))))
| X99 -> (true, (false, (false, (true, (true, (false, (false, true)))))))
| X9a -> (false, (true, (false, (true, (true, (false, (false, true)))))))
| X9b -> (true, (true, (false, (true, (true, (false, (false, true)))))))
| X9c -> (false, (false, (true, (true, (true, (false, (false, true)))))))
| X9d -> (true, (false, (true, (true, (true, (false, (false, true)))))))
| X9e -> (false, (true, (true, (true, (true, (false, (false, true)))))))
| X9f -> (true, (true, (true, (true, (true, (false, (false, true)))))))
| Xa0 -> (false, (false, (false, (false, (false, (true, (false, true)))))))
| Xa1 -> (true, (false, (false, (false, (false, (true, (false, true)))))))
| Xa2 -> (false, (true, (false, (false, (false, (true, (false, true)))))))
| Xa3 -> (true, (true, (false, (false, (false, (true, (false, true)))))))
| Xa4 -> (false, (false, (true, (false, (false, (true, (false, true)))))))
| Xa5 -> (true, (false, (true, (false, (false, (true, (false, true)))))))
| Xa6 -> (false, (true, (true, (false, (false, (true, (false, true)))))))
| Xa7 -> (true, (true, (true, (false, (false, (true, (false, true)))))))
| Xa8 -> (false, (false, (false, (true, (false, (true, (false, true)))))))
| Xa9 -> (true, (false, (false, (true, (false, (true, (false, true)))))))
| Xaa -> (false, (true, (false, (true, (false, (true, (false, true)))))))
| Xab -> (true, (true, (false, (true, (false, (true, (false, true)))))))
| Xac -> (false, (false, (true, (true, (false, (true, (false, true)))))))
| Xad -> (true, (false, (true, (true, (false, (true, (false, true)))))))
| Xae -> (false, (true, (true, (true, (false, (true, (false, true)))))))
| Xaf -> (true, (true, (true, (true, (false, (true, (false, true)))))))
| Xb0 -> (false, (false, (false, (false, (true, (true, (false, true)))))))
| Xb1 -> (true, (false, (false, (false, (true, (true, (false, true)))))))
| Xb2 -> (false, (true, (false, (false, (true, (true, (false, true)))))))
| Xb3 -> (true, (true, (false, (false, (true, (true, (false, true)))))))
| Xb4 -> (false, (false, (true, (false, (true, (true, (false, true)))))))
| Xb5 -> (true, (false, (true, (false, (true, (true, (false, true)))))))
| Xb6 -> (false, (true, (true, (false, (true, (true, (false, true)))))))
| Xb7 -> (true, (true, (true, (false, (true, (true, (false, true)))))))
| Xb8 -> (false, (false, (false, (true, (true, (true, (false, true)))))))
| Xb9 -> (true, (false, (false, (true, (true, (true, (false, true)))))))
| Xba -> (false, (true, (false, (true, (true, (true, (false, true)))))))
| Xbb -> (true, (true, (false, (true, (true, (true, (false, true)))))))
| Xbc -> (false, (false, (true, (true, (true, (true, (false, true)))))))
| Xbd -> (true, (false, (true, (true, (true, (true, (false, true)))))))
| Xbe -> (false, (true, (true, (true, (true, (true, (false, true)))))))
| Xbf -> (true, (true, (true, (true, (true, (true, (false, true)))))))
| Xc0 -> (false, (false, (false, (false, (false, (false, (true, true)))))))
| Xc1 -> (true, (false, (false, (false, (false, (false, (true, true)))))))
| Xc2 -> (false, (true, (false, (false, (false, (false, (true, true)))))))
| Xc3 -> (true, (true, (false, (false, (false, (false, (true, true)))))))
| Xc4 -> (false, (false, (true, (false, (false, (false, (true, true)))))))
| Xc5 -> (true, (false, (true, (false, (false, (false, (true, true)))))))
| Xc6 -> (false, (true, (true, (false, (false, (false, (true, true)))))))
| Xc7 -> (true, (true, (true, (false, (false, (false, (true, true)))))))
| Xc8 -> (false, (false, (false, (true, (false, (false, (true, true)))))))
| Xc9 -> (true, (false, (false, (true, (false, (false, (true, true)))))))
| Xca -> (false, (true, (false, (true, (false, (false, (true, true)))))))
| Xcb -> (true, (true, (false, (true, (false, (false, (true, true)))))))
| Xcc -> (false, (false, (true, (true, (false, (false, (true, true)))))))
| Xcd -> (true, (false, (true, (true, (false, (false, (true, true)))))))
| Xce -> (false, (true, (true, (true, (false, (false, (true, true)))))))
| Xcf -> (true, (true, (true, (true, (false, (false, (true, true)))))))
| Xd0 -> (false, (false, (false, (false, (true, (false, (true, true)))))))
| Xd1 -> (true, (false, (false, (false, (true, (false, (true, true)))))))
| Xd2 -> (false, (true, (false, (false, (true, (false, (true, true)))))))
| Xd3 -> (true, (true, (false, (false, (true, (false, (true, true)))))))
| Xd4 -> (false, (false, (true, (false, (true, (false, (true, true)))))))
| Xd5 -> (true, (false, (true, (false, (true, (false, (true, true)))))))
| Xd6 -> (false, (true, (true, (false, (true, (false, (true, true)))))))
| Xd7 -> (true, (true, (true, (false, (true, (false, (true, true)))))))
| Xd8 -> (false, (false, (false, (true, (true, (false, (true, true)))))))
| Xd9 -> (true, (false, (false, (true, (true, (false, (true, true)))))))
| Xda -> (false, (true, (false, (true, (true, (false, (true, true)))))))
| Xdb -> (true, (true, (false, (true, (true, (false, (true, true)))))))
| Xdc -> (false, (false, (true, (true, (true, (false, (true, true)))))))
| Xdd -> (true, (false, (true, (true, (true, (false, (true, true)))))))
| Xde -> (false, (true, (true, (true, (true, (false, (true, true)))))))
| Xdf -> (true, (true, (true, (true, (true, (false, (true, true)))))))
| Xe0 -> (false, (false, (false, (false, (false, (true, (true, true)))))))
| Xe1 -> (true, (false, (false, (false, (false, (true, (true, true)))))))
| Xe2 -> (false, (true, (false, (false, (false, (true, (true, true)))))))
| Xe3 -> (true, (true, (false, (false, (false, (true, (true, true)))))))
| Xe4 -> (false, (false, (true, (false, (false, (true, (true, true)))))))
| Xe5 -> (true, (false, (true, (false, (false, (true, (true, true)))))))
| Xe6 -> (false, (true, (true, (false, (false, (true, (true, true)))))))
| Xe7 -> (true, (true, (true, (false, (false, (true, (true, true)))))))
| Xe8 -> (false, (false, (false, (true, (false, (true, (true, true)))))))
| Xe9 -> (true, (false, (false, (true, (false, (true, (true, true)))))))
| Xea -> (false, (true, (false, (true, (false, (true, (true, true)))))))
| Xeb -> (true, (true, (false, (true, (false, (true, (true, true)))))))
| Xec -> (false, (false, (true, (true, (false, (true, (true, true)))))))
| Xed -> (true, (false, (true, (true, (false, (true, (true, true)))))))
| Xee -> (false, (true, (true, (true, (false, (true, (true, true)))))))
| Xef -> (true, (true, (true, (true, (false, (true, (true, true)))))))
| Xf0 -> (false, (false, (false, (false, (true, (true, (true, true)))))))
| Xf1 -> (true, (false, (false, (false, (true, (true, (true, true)))))))
| Xf2 -> (false, (true, (false, (false, (true, (true, (true, true)))))))
| Xf3 -> (true, (true, (false, (false, (true, (true, (true, true)))))))
| Xf4 -> (false, (false, (true, (false, (true, (true, (true, true)))))))
| Xf5 -> (true, (false, (true, (false, (true, (true, (true, true)))))))
| Xf6 -> (false, (true, (true, (false, (true, (true, (true, true)))))))
| Xf7 -> (true, (true, (true, (false, (true, (true, (true, true)))))))
| Xf8 -> (false, (false, (false, (true, (true, (true, (true, true)))))))
| Xf9 -> (true, (false, (false, (true, (true, (true, (true, true)))))))
| Xfa -> (false, (true, (false, (true, (true, (true, (true, true)))))))
| Xfb -> (true, (true, (false, (true, (true, (true, (true, true)))))))
| Xfc -> (false, (false, (true, (true, (true, (true, (true, true)))))))
| Xfd -> (true, (false, (true, (true, (true, (true, (true, true)))))))
| Xfe -> (false, (true, (true, (true, (true, (true, (true, true)))))))
| Xff -> (true, (true, (true, (true, (true, (true, (true, true)))))))

type positive =
| XI of positive
| XO of positive
| XH

type n =
| N0
| Npos of positive

(** val compose : ('a2 -> 'a3) -> ('a1 -> 'a2) -> 'a1 -> 'a3 **)

let compose g f x =
  g (f x)

(** val flip : ('a1 -> 'a2 -> 'a3) -> 'a2 -> 'a1 -> 'a3 **)

let flip f x y =
  f y x

(** val eqb : bool -> bool -> bool **)

let eqb b1 b2 =
  if b1 then b2 else if b2 then false else true

module Nat =
 struct
  (** val eqb : nat -> nat -> bool **)

  let rec eqb n0 m =
    match n0 with
    | O -> (match m with
            | O -> true
            | S _ -> false)
    | S n' -> (match m with
               | O -> false
               | S m' -> eqb n' m')

  (** val divmod : nat -> nat -> nat -> nat -> nat * nat **)

  let rec divmod x y q u =
    match x with
    | O -> (q, u)
    | S x' ->
      (match u with
       | O -> divmod x' y (S q) y
       | S u' -> divmod x' y q u')

  (** val div : nat -> nat -> nat **)

  let div x y = match y with
  | O -> y
  | S y' -> fst (divmod x y' O y')
 end

module Pos =
 struct
  type mask =
  | IsNul
  | IsPos of positive
  | IsNeg
 end

module Coq_Pos =
 struct
  (** val succ : positive -> positive **)

  let rec succ = function
  | XI p -> XO (succ p)
  | XO p -> XI p
  | XH -> XO XH

  (** val add : positive -> positive -> positive **)

  let rec add x y =
    match x with
    | XI p ->
      (match y with
       | XI q -> XO (add_carry p q)
       | XO q -> XI (add p q)
       | XH -> XO (succ p))
    | XO p ->
      (match y with
       | XI q -> XI (add p q)
       | XO q -> XO (add p q)
       | XH -> XI p)
    | XH -> (match y with
             | XI q -> XO (succ q)
             | XO q -> XI q
             | XH -> XO XH)

  (** val add_carry : positive -> positive -> positive **)

  and add_carry x y =
    match x with
    | XI p ->
      (match y with
       | XI q -> XI (add_carry p q)
       | XO q -> XO (add_carry p q)
       | XH -> XI (succ p))
    | XO p ->
      (match y with
       | XI q -> XO (add_carry p q)
       | XO q -> XI (add p q)
       | XH -> XO (succ p))
    | XH ->
      (match y with
       | XI q -> XI (succ q)
       | XO q -> XO (succ q)
       | XH -> XI XH)

  (** val pred_double : positive -> positive **)

  let rec pred_double = function
  | XI p -> XI (XO p)
  | XO p -> XI (pred_double p)
  | XH -> XH

  (** val pred : positive -> positive **)

  let pred = function
  | XI p -> XO p
  | XO p -> pred_double p
  | XH -> XH

  (** val pred_N : positive -> n **)

  let pred_N = function
  | XI p -> Npos (XO p)
  | XO p -> Npos (pred_double p)
  | XH -> N0

  type mask = Pos.mask =
  | IsNul
  | IsPos of positive
  | IsNeg

  (** val succ_double_mask : mask -> mask **)

  let succ_double_mask = function
  | IsNul -> IsPos XH
  | IsPos p -> IsPos (XI p)
  | IsNeg -> IsNeg

  (** val double_mask : mask -> mask **)

  let double_mask = function
  | IsPos p -> IsPos (XO p)
  | x0 -> x0

  (** val double_pred_mask : positive -> mask **)

  let double_pred_mask = function
  | XI p -> IsPos (XO (XO p))
  | XO p -> IsPos (XO (pred_double p))
  | XH -> IsNul

  (** val sub_mask : positive -> positive -> mask **)

  let rec sub_mask x y =
    match x with
    | XI p ->
      (match y with
       | XI q -> double_mask (sub_mask p q)
       | XO q -> succ_double_mask (sub_mask p q)
       | XH -> IsPos (XO p))
    | XO p ->
      (match y with
       | XI q -> succ_double_mask (sub_mask_carry p q)
       | XO q -> double_mask (sub_mask p q)
       | XH -> IsPos (pred_double p))
    | XH -> (match y with
             | XH -> IsNul
             | _ -> IsNeg)

  (** val sub_mask_carry : positive -> positive -> mask **)

  and sub_mask_carry x y =
    match x with
    | XI p ->
      (match y with
       | XI q -> succ_double_mask (sub_mask_carry p q)
       | XO q -> double_mask (sub_mask p q)
       | XH -> IsPos (pred_double p))
    | XO p ->
      (match y with
       | XI q -> double_mask (sub_mask_carry p q)
       | XO q -> succ_double_mask (sub_mask_carry p q)
       | XH -> double_pred_mask p)
    | XH -> IsNeg

  (** val mul : positive -> positive -> positive **)

  let rec mul x y =
    match x with
    | XI p -> add y (XO (mul p y))
    | XO p -> XO (mul p y)
    | XH -> y

  (** val compare_cont : comparison -> positive -> positive -> comparison **)

  let rec compare_cont r x y =
    match x with
    | XI p ->
      (match y with
       | XI q -> compare_cont r p q
       | XO q -> compare_cont Gt p q
       | XH -> Gt)
    | XO p ->
      (match y with
       | XI q -> compare_cont Lt p q
       | XO q -> compare_cont r p q
       | XH -> Gt)
    | XH -> (match y with
             | XH -> r
             | _ -> Lt)

  (** val compare : positive -> positive -> comparison **)

  let compare =
    compare_cont Eq

  (** val eqb : positive -> positive -> bool **)

  let rec eqb p q =
    match p with
    | XI p0 -> (match q with
                | XI q0 -> eqb p0 q0
                | _ -> false)
    | XO p0 -> (match q with
                | XO q0 -> eqb p0 q0
                | _ -> false)
    | XH -> (match q with
             | XH -> true
             | _ -> false)

  (** val testbit : positive -> n -> bool **)

  let rec testbit p n0 =
    match p with
    | XI p0 -> (match n0 with
                | N0 -> true
                | Npos n1 -> testbit p0 (pred_N n1))
    | XO p0 -> (match n0 with
                | N0 -> false
                | Npos n1 -> testbit p0 (pred_N n1))
    | XH -> (match n0 with
             | N0 -> true
             | Npos _ -> false)

  (** val iter_op : ('a1 -> 'a1 -> 'a1) -> positive -> 'a1 -> 'a1 **)

  let rec iter_op op p a =
    match p with
    | XI p0 -> op a (iter_op op p0 (op a a))
    | XO p0 -> iter_op op p0 (op a a)
    | XH -> a

  (** val to_nat : positive -> nat **)

  let to_nat x =
    iter_op Coq__1.add x (S O)

  (** val of_succ_nat : nat -> positive **)

  let rec of_succ_nat = function
  | O -> XH
  | S x -> succ (of_succ_nat x)

  (** val eq_dec : positive -> positive -> bool **)

  let rec eq_dec p x0 =
    match p with
    | XI p0 -> (match x0 with
                | XI p1 -> eq_dec p0 p1
                | _ -> false)
    | XO p0 -> (match x0 with
                | XO p1 -> eq_dec p0 p1
                | _ -> false)
    | XH -> (match x0 with
             | XH -> true
             | _ -> false)
 end

module N =
 struct
  (** val succ_double : n -> n **)

  let succ_double = function
  | N0 -> Npos XH
  | Npos p -> Npos (XI p)

  (** val double : n -> n **)

  let double = function
  | N0 -> N0
  | Npos p -> Npos (XO p)

  (** val add : n -> n -> n **)

  let add n0 m =
    match n0 with
    | N0 -> m
    | Npos p -> (match m with
                 | N0 -> n0
                 | Npos q -> Npos (Coq_Pos.add p q))

  (** val sub : n -> n -> n **)

  let sub n0 m =
    match n0 with
    | N0 -> N0
    | Npos n' ->
      (match m with
       | N0 -> n0
       | Npos m' ->
         (match Coq_Pos.sub_mask n' m' with
          | Coq_Pos.IsPos p -> Npos p
          | _ -> N0))

  (** val mul : n -> n -> n **)

  let mul n0 m =
    match n0 with
    | N0 -> N0
    | Npos p -> (match m with
                 | N0 -> N0
                 | Npos q -> Npos (Coq_Pos.mul p q))

  (** val compare : n -> n -> comparison **)

  let compare n0 m =
    match n0 with
    | N0 -> (match m with
             | N0 -> Eq
             | Npos _ -> Lt)
    | Npos n' -> (match m with
                  | N0 -> Gt
                  | Npos m' -> Coq_Pos.compare n' m')

  (** val eqb : n -> n -> bool **)

  let eqb n0 m =
    match n0 with
    | N0 -> (match m with
             | N0 -> true
             | Npos _ -> false)
    | Npos p -> (match m with
                 | N0 -> false
                 | Npos q -> Coq_Pos.eqb p q)

  (** val leb : n -> n -> bool **)

  let leb x y =
    match compare x y with
    | Gt -> false
    | _ -> true

  (** val ltb : n -> n -> bool **)

  let ltb x y =
    match compare x y with
    | Lt -> true
    | _ -> false

  (** val min : n -> n -> n **)

  let min n0 n' =
    match compare n0 n' with
    | Gt -> n'
    | _ -> n0

  (** val max : n -> n -> n **)

  let max n0 n' =
    match compare n0 n' with
    | Gt -> n0
    | _ -> n'

  (** val pos_div_eucl : positive -> n -> n * n **)

  let rec pos_div_eucl a b =
    match a with
    | XI a' ->
      let (q, r) = pos_div_eucl a' b in
      let r' = succ_double r in
      if leb b r' then ((succ_double q), (sub r' b)) else ((double q), r')
    | XO a' ->
      let (q, r) = pos_div_eucl a' b in
      let r' = double r in
      if leb b r' then ((succ_double q), (sub r' b)) else ((double q), r')
    | XH ->
      (match b with
       | N0 -> (N0, (Npos XH))
       | Npos p -> (match p with
                    | XH -> ((Npos XH), N0)
                    | _ -> (N0, (Npos XH))))

  (** val div_eucl : n -> n -> n * n **)

  let div_eucl a b =
    match a with
    | N0 -> (N0, N0)
    | Npos na -> (match b with
                  | N0 -> (N0, a)
                  | Npos _ -> pos_div_eucl na b)

  (** val div : n -> n -> n **)

  let div a b =
    fst (div_eucl a b)

  (** val modulo : n -> n -> n **)

  let modulo a b =
    snd (div_eucl a b)

  (** val testbit : n -> n -> bool **)

  let testbit a n0 =
    match a with
    | N0 -> false
    | Npos p -> Coq_Pos.testbit p n0

  (** val to_nat : n -> nat **)

  let to_nat = function
  | N0 -> O
  | Npos p -> Coq_Pos.to_nat p

  (** val of_nat : nat -> n **)

  let of_nat = function
  | O -> N0
  | S n' -> Npos (Coq_Pos.of_succ_nat n')

  (** val eq_dec : n -> n -> bool **)

  let eq_dec n0 m =
    match n0 with
    | N0 -> (match m with
             | N0 -> true
             | Npos _ -> false)
    | Npos p -> (match m with
                 | N0 -> false
                 | Npos p0 -> Coq_Pos.eq_dec p p0)
 end

(** val nth : nat -> 'a1 list -> 'a1 -> 'a1 **)

let rec nth n0 l default =
  match n0 with
  | O -> (match l with
          | [] -> default
          | x :: _ -> x)
  | S m -> (match l with
            | [] -> default
            | _ :: t -> nth m t default)

(** val concat : 'a1 list list -> 'a1 list **)

let rec concat = function
| [] -> []
| x :: l0 -> app x (concat l0)

(** val list_eq_dec : ('a1 -> 'a1 -> bool) -> 'a1 list -> 'a1 list -> bool **)

let rec list_eq_dec eq_dec0 l l' =
  match l with
  | [] -> (match l' with
           | [] -> true
           | _ :: _ -> false)
  | y :: l0 ->
    (match l' with
     | [] -> false
     | a :: l1 -> if eq_dec0 y a then list_eq_dec eq_dec0 l0 l1 else false)

(** val map : ('a1 -> 'a2) -> 'a1 list -> 'a2 list **)

let rec map f = function
| [] -> []
| a :: t -> (f a) :: (map f t)

(** val flat_map : ('a1 -> 'a2 list) -> 'a1 list -> 'a2 list **)

let rec flat_map f = function
| [] -> []
| x :: t -> app (f x) (flat_map f t)

(** val fold_left : ('a1 -> 'a2 -> 'a1) -> 'a2 list -> 'a1 -> 'a1 **)

let rec fold_left f l a0 =
  match l with
  | [] -> a0
  | b :: t -> fold_left f t (f a0 b)

(** val fold_right : ('a2 -> 'a1 -> 'a1) -> 'a1 -> 'a2 list -> 'a1 **)

let rec fold_right f a0 = function
| [] -> a0
| b :: t -> f b (fold_right f a0 t)

(** val existsb : ('a1 -> bool) -> 'a1 list -> bool **)

let rec existsb f = function
| [] -> false
| a :: l0 -> (||) (f a) (existsb f l0)

(** val forallb : ('a1 -> bool) -> 'a1 list -> bool **)

let rec forallb f = function
| [] -> true
| a :: l0 -> (&&) (f a) (forallb f l0)

(** val filter : ('a1 -> bool) -> 'a1 list -> 'a1 list **)

let rec filter f = function
| [] -> []
| x :: l0 -> if f x then x :: (filter f l0) else filter f l0

(** val combine : 'a1 list -> 'a2 list -> ('a1 * 'a2) list **)

let rec combine l l' =
  match l with
  | [] -> []
  | x :: tl ->
    (match l' with
     | [] -> []
     | y :: tl' -> (x, y) :: (combine tl tl'))

(** val firstn : nat -> 'a1 list -> 'a1 list **)

let rec firstn n0 l =
  match n0 with
  | O -> []
  | S n1 -> (match l with
             | [] -> []
             | a :: l0 -> a :: (firstn n1 l0))

(** val skipn : nat -> 'a1 list -> 'a1 list **)

let rec skipn n0 l =
  match n0 with
  | O -> l
  | S n1 -> (match l with
             | [] -> []
             | _ :: l0 -> skipn n1 l0)

(** val seq : nat -> nat -> nat list **)

let rec seq start = function
| O -> []
| S len0 -> start :: (seq (S start) len0)

(** val repeat : 'a1 -> nat -> 'a1 list **)

let rec repeat x = function
| O -> []
| S k -> x :: (repeat x k)

(** val eqb0 : byte -> byte -> bool **)

let eqb0 a b =
  let (a0, p) = to_bits a in
  let (a1, p0) = p in
  let (a2, p1) = p0 in
  let (a3, p2) = p1 in
  let (a4, p3) = p2 in
  let (a5, p4) = p3 in
  let (a6, a7) = p4 in
  let (b0, p5) = to_bits b in
  let (b1, p6) = p5 in
  let (b2, p7) = p6 in
  let (b3, p8) = p7 in
  let (b4, p9) = p8 in
  let (b5, p10) = p9 in
  let (b6, b7) = p10 in
  (&&)
    ((&&)
      ((&&)
        ((&&)
          ((&&) ((&&) ((&&) (eqb a0 b0) (eqb a1 b1)) (eqb a2 b2)) (eqb a3 b3))
          (eqb a4 b4)) (eqb a5 b5)) (eqb a6 b6)) (eqb a7 b7)

(** val byte_eq_dec : byte -> byte -> bool **)

let byte_eq_dec x y =
  if eqb0 x y then true else false

(** val to_N : byte -> n **)

let to_N = function
| X00 -> N0
| X01 -> Npos XH
| X02 -> Npos (XO XH)
| X03 -> Npos (XI XH)
| X04 -> Npos (XO (XO XH))
| X05 -> Npos (XI (XO XH))
| X06 -> Npos (XO (XI XH))
| X07 -> Npos (XI (XI XH))
| X08 -> Npos (XO (XO (XO XH)))
| X09 -> Npos (XI (XO (XO XH)))
| X0a -> Npos (XO (XI (XO XH)))
| X0b -> Npos (XI (XI (XO XH)))
| X0c -> Npos (XO (XO (XI XH)))
| X0d -> Npos (XI (XO (XI XH)))
| X0e -> Npos (XO (XI (XI XH)))
| X0f -> Npos (XI (XI (XI XH)))
| X10 -> Npos (XO (XO (XO (XO XH))))
| X11 -> Npos (XI (XO (XO (XO XH))))
| X12 -> Npos (XO (XI (XO (XO XH))))
| X13 -> Npos (XI (XI (XO (XO XH))))
| X14 -> Npos (XO (XO (XI (XO XH))))
| X15 -> Npos (XI (XO (XI (XO XH))))
| X16 -> Npos (XO (XI (XI (XO XH))))
| X17 -> Npos (XI (XI (XI (XO XH))))
| X18 -> Npos (XO (XO (XO (XI XH))))
| X19 -> Npos (XI (XO (XO (XI XH))))
| X1a -> Npos (XO (XI (XO (XI XH))))
| X1b -> Npos (XI (XI (XO (XI XH))))
| X1c -> Npos (XO (XO (XI (XI XH))))
| X1d -> Npos (XI (XO (XI (XI XH))))
| X1e -> Npos (XO (XI (XI (XI XH))))
| X1f -> Npos (XI (XI (XI (XI XH))))
| X20 -> Npos (XO (XO (XO (XO (XO XH)))))
| X21 -> Npos (XI (XO (XO (XO (XO XH)))))
| X22 -> Npos (XO (XI (XO (XO (XO XH)))))
| X23 -> Npos (XI (XI (XO (XO (XO XH)))))
| X24 -> Npos (XO (XO (XI (XO (XO XH)))))
| X25 -> Npos (XI (XO (XI (XO (XO XH)))))
| X26 -> Npos (XO (XI (XI (XO (XO XH)))))
| X27 -> Npos (XI (XI (XI (XO (XO XH)))))
| X28 -> Npos (XO (XO (XO (XI (XO XH)))))
| X29 -> Npos (XI (XO (XO (XI (XO XH)))))
| X2a -> Npos (XO (XI (XO (XI (XO XH)))))
| X2b -> Npos (XI (XI (XO (XI (XO XH)))))
| X2c -> Npos (XO (XO (XI (XI (XO XH)))))
| X2d -> Npos (XI (XO (XI (XI (XO XH)))))
| X2e -> Npos (XO (XI (XI (XI (XO XH)))))
| X2f -> Npos (XI (XI (XI (XI (XO XH)))))
| X30 -> Npos (XO (XO (XO (XO (XI XH)))))
| X31 -> Npos (XI (XO (XO (XO (XI XH)))))
| X32 -> Npos (XO (XI (XO (XO (XI XH)))))
| X33 -> Npos (XI (XI (XO (XO (XI XH)))))
| X34 -> Npos (XO (XO (XI (XO (XI XH)))))
| X35 -> Npos (XI (XO (XI (XO (XI XH)))))
| X36 -> Npos (XO (XI (XI (XO (XI XH)))))
| X37 -> Npos (XI (XI (XI (XO (XI XH)))))
| X38 -> Npos (XO (XO (XO (XI (XI XH)))))
| X39 -> Npos (XI (XO (XO (XI (XI XH)))))
| X3a -> Npos (XO (XI (XO (XI (XI XH)))))
| X3b -> Npos (XI (XI (XO (XI (XI XH)))))
| X3c -> Npos (XO (XO (XI (XI (XI XH)))))
| X3d -> Npos (XI (XO (XI (XI (XI XH)))))
| X3e -> Npos (XO (XI (XI (XI (XI XH)))))
| X3f -> Npos (XI (XI (XI (XI (XI XH)))))
| X40 -> Npos (XO (XO (XO (XO (XO (XO XH))))))
| X41 -> Npos (XI (XO (XO (XO (XO (XO XH))))))
| X42 -> Npos (XO (XI (XO (XO (XO (XO XH))))))
| X43 -> Npos (XI (XI (XO (XO (XO (XO XH))))))
| X44 -> Npos (XO (XO (XI (XO (XO (XO XH))))))
| X45 -> Npos (XI (XO (XI (XO (XO (XO XH))))))
| X46 -> Npos (XO (XI (XI (XO (XO (XO XH))))))
| X47 -> Npos (XI (XI (XI (XO (XO (XO XH))))))
| X48 -> Npos (XO (XO (XO (XI (XO (XO XH))))))
| X49 -> Npos (XI (XO (XO (XI (XO (XO XH))))))
| X4a -> Npos (XO (XI (XO (XI (XO (XO XH))))))
| X4b -> Npos (XI (XI (XO (XI (XO (XO XH))))))
| X4c -> Npos (XO (XO (XI (XI (XO (XO XH))))))
| X4d -> Npos (XI (XO (XI (XI (XO (XO XH))))))
| X4e -> Npos (XO (XI (XI (XI (XO (XO XH))))))
| X4f -> Npos (XI (XI (XI (XI (XO (XO XH))))))
| X50 -> Npos (XO (XO (XO (XO (XI (XO XH))))))
| X51 -> Npos (XI (XO (XO (XO (XI (XO XH))))))
| X52 -> Npos (XO (XI (XO (XO (XI (XO XH))))))
| X53 -> Npos (XI (XI (XO (XO (XI (XO XH))))))
| X54 -> Npos (XO (XO (XI (XO (XI (XO XH))))))
| X55 -> Npos (XI (XO (XI (XO (XI (XO XH))))))
| X56 -> Npos (XO (XI (XI (XO (XI (XO XH))))))
| X57 -> Npos (XI (XI (XI (XO (XI (XO XH))))))
| X58 -> Npos (XO (XO (XO (XI (XI (XO XH))))))
| X59 -> Npos (XI (XO (XO (XI (XI (XO XH))))))
| X5a -> Npos (XO (XI (XO (XI (XI (XO XH))))))
| X5b -> Npos (XI (XI (XO (XI (XI (XO XH))))))
| X5c -> Npos (XO (XO (XI (XI (XI (XO XH))))))
| X5d -> Npos (XI (XO (XI (XI (XI (XO XH))))))
| X5e -> Npos (XO (XI (XI (XI (XI (XO XH))))))
| X5f -> Npos (XI (XI (XI (XI (XI (XO XH))))))
| X60 -> Npos (XO (XO (XO (XO (XO (XI XH))))))
| X61 -> Npos (XI (XO (XO (XO (XO (XI XH))))))
| X62 -> Npos (XO (XI (XO (XO (XO (XI XH))))))
| X63 -> Npos (XI (XI (XO (XO (XO (XI XH))))))
| X64 -> Npos (XO (XO (XI (XO (XO (XI XH))))))
| X65 -> Npos (XI (XO (XI (XO (XO (XI XH))))))
| X66 -> Npos (XO (XI (XI (XO (XO (XI XH))))))
| X67 -> Npos (XI (XI (XI (XO (XO (XI XH))))))
| X68 -> Npos (XO (XO (XO (XI (XO (XI XH))))))
| X69 -> Npos (XI (XO (XO (XI (XO (XI XH))))))
| X6a -> Npos (XO (XI (XO (XI (XO (XI XH))))))
| X6b -> Npos (XI (XI (XO (XI (XO (XI XH))))))
| X6c -> Npos (XO (XO (XI (XI (XO (XI XH))))))
| X6d -> Npos (XI (XO (XI (XI (XO (XI XH))))))
| X6e -> Npos (XO (XI (XI (XI (XO (XI XH))))))
| X6f -> Npos (XI (XI (XI (XI (XO (XI XH))))))
| X70 -> Npos (XO (XO (XO (XO (XI (XI XH))))))
| X71 -> Npos (XI (XO (XO (XO (XI (XI XH))))))
| X72 -> Npos (XO (XI (XO (XO (XI (XI XH))))))
| X73 -> Npos (XI (XI (XO (XO (XI (XI XH))))))
| X74 -> Npos (XO (XO (XI (XO (XI (XI XH))))))
| X75 -> Npos (XI (XO (XI (XO (XI (XI XH))))))
| X76 -> Npos (XO (XI (XI (XO (XI (XI XH))))))
| X77 -> Npos (XI (XI (XI (XO (XI (XI XH))))))
| X78 -> Npos (XO (XO (XO (XI (XI (XI XH))))))
| X79 -> Npos (XI (XO (XO (XI (XI (XI XH))))))
| X7a -> Npos (XO (XI (XO (XI (XI (XI XH))))))
| X7b -> Npos (XI (XI (XO (XI (XI (XI XH))))))
| X7c -> Npos (XO (XO (XI (XI (XI (XI XH))))))
| X7d -> Npos (XI (XO (XI (XI (XI (XI XH))))))
| X7e -> Npos (XO (XI (XI (XI (XI (XI XH))))))
| X7f -> Npos (XI (XI (XI (XI (XI (XI XH))))))
| X80 -> Npos (XO (XO (XO (XO (XO (XO (XO XH)))))))
| X81 -> Npos (XI (XO (XO (XO (XO (XO (XO XH)))))))
| X82 -> Npos (XO (XI (XO (XO (XO (XO (XO XH)))))))
| X83 -> Npos (XI (XI (XO (XO (XO (XO (XO XH)))))))
| X84 -> Npos (XO (XO (XI (XO (XO (XO (XO XH)))))))
| X85 -> Npos (XI (XO (XI (XO (XO (XO (XO XH)))))))
| X86 -> Npos (XO (XI (XI (XO (XO (XO (XO XH)))))))
| X87 -> Npos (XI (XI (XI (XO (XO (XO (XO XH)))))))
| X88 -> Npos (XO (XO (XO (XI (XO (XO (XO XH)))))))
| X89 -> Npos (XI (XO (XO (XI (XO (XO (XO XH)))))))
| X8a -> Npos (XO (XI (XO (XI (XO (XO (XO XH)))))))
| X8b -> Npos (XI (XI (XO (XI (XO (XO (XO XH)))))))
| X8c -> Npos (XO (XO (XI (XI (XO (XO (XO XH)))))))
| X8d -> Npos (XI (XO (XI (XI (XO (XO (XO XH)))))))
| X8e -> Npos (XO (XI (XI (XI (XO (XO (XO XH)))))))
| X8f -> Npos (XI (XI (XI (XI (XO (XO (XO XH)))))))
| X90 -> Npos (XO (XO (XO (XO (XI (XO (XO XH)))))))
| X91 -> Npos (XI (XO (XO (XO (XI (XO (XO XH)))))))
| X92 -> Npos (XO (XI (XO (XO (XI (XO (XO XH)))))))
| X93 -> Npos (XI (XI (XO (XO (XI (XO (XO XH)))))))
| X94 -> Npos (XO (XO (XI (XO (XI (XO (XO XH)))))))
| X95 -> Npos (XI (XO (XI (XO (XI (XO (XO XH)))))))
| X96 -> Npos (XO (XI (XI (XO (XI (XO (XO XH)))))))
| X97 -> Npos (XI (XI (XI (XO (XI (XO (XO XH)))))))
| X98 -> Npos (XO (XO (XO (XI (XI (XO (XO XH)))))))
| X99 -> Npos (XI (XO (XO (XI (XI (XO (XO XH)))))))
| X9a -> Npos (XO (XI (XO (XI (XI (XO (XO XH)))))))
| X9b -> Npos (XI (XI (XO (XI (XI (XO (XO XH)))))))
| X9c -> Npos (XO (XO (XI (XI (XI (XO (XO XH)))))))
| X9d -> Npos (XI (XO (XI (XI (XI (XO (XO XH)))))))
| X9e -> Npos (XO (XI (XI (XI (XI (XO (XO XH)))))))
| X9f -> Npos (XI (XI (XI (XI (XI (XO (XO XH)))))))
| Xa0 -> Npos (XO (XO (XO (XO (XO (XI (XO XH)))))))
| Xa1 -> Npos (XI (XO (XO (XO (XO (XI (XO XH)))))))
| Xa2 -> Npos (XO (XI (XO (XO (XO (XI (XO XH)))))))
| Xa3 -> Npos (XI (XI (XO (XO (XO (XI (XO XH)))))))
| Xa4 -> Npos (XO (XO (XI (XO (XO (XI (XO XH)))))))
| Xa5 -> Npos (XI (XO (XI (XO (XO (XI (XO XH)))))))
| Xa6 -> Npos (XO (XI (XI (XO (XO (XI (XO XH)))))))
| Xa7 -> Npos (XI (XI (XI (XO (XO (XI (XO XH)))))))
| Xa8 -> Npos (XO (XO (XO (XI (XO (XI (XO XH)))))))
| Xa9 -> Npos (XI (XO (XO (XI (XO (XI (XO XH)))))))
| Xaa -> Npos (XO (XI (XO (XI (XO (XI (XO XH)))))))
| Xab -> Npos (XI (XI (XO (XI (XO (XI (XO XH)))))))
| Xac -> Npos (XO (XO (XI (XI (XO (XI (XO XH)))))))
| Xad -> Npos (XI (XO (XI (XI (XO (XI (XO XH)))))))
| Xae -> Npos (XO (XI (XI (XI (XO (XI (XO XH)))))))
| Xaf -> Npos (XI (XI (XI (XI (XO (XI (XO XH)))))))
| Xb0 -> Npos (XO (XO (XO (XO (XI (XI (XO XH)))))))
| Xb1 -> Npos (XI (XO (XO (XO (XI (XI (XO XH)))))))
| Xb2 -> Npos (XO (XI (XO (XO (XI (XI (XO XH)))))))
| Xb3 -> Npos (XI (XI (XO (XO (XI (XI (XO XH)))))))
| Xb4 -> Npos (XO (XO (XI (XO (XI (XI (XO XH)))))))
| Xb5 -> Npos (XI (XO (XI (XO (XI (XI (XO XH)))))))
| Xb6 -> Npos (XO (XI (XI (XO (XI (XI (XO XH)))))))
| Xb7 -> Npos (XI (XI (XI (XO (XI (XI (XO XH)))))))
| Xb8 -> Npos (XO (XO (XO (XI (XI (XI (XO XH)))))))
| Xb9 -> Npos (XI (XO (XO (XI (XI (XI (XO XH)))))))
| Xba -> Npos (XO (XI (XO (XI (XI (XI (XO XH)))))))
| Xbb -> Npos (XI (XI (XO (XI (XI (XI (XO XH)))))))
| Xbc -> Npos (XO (XO (XI (XI (XI (XI (XO XH)))))))
| Xbd -> Npos (XI (XO (XI (XI (XI (XI (XO XH)))))))
| Xbe -> Npos (XO (XI (XI (XI (XI (XI (XO XH)))))))
| Xbf -> Npos (XI (XI (XI (XI (XI (XI (XO XH)))))))
| Xc0 -> Npos (XO (XO (XO (XO (XO (XO (XI XH)))))))
| Xc1 -> Npos (XI (XO (XO (XO (XO (XO (XI XH)))))))
| Xc2 -> Npos (XO (XI (XO (XO (XO (XO (XI XH)))))))
| Xc3 -> Npos (XI (XI (XO (XO (XO (XO (XI XH)))))))
| Xc4 -> Npos (XO (XO (XI (XO (XO (XO (XI XH)))))))
| Xc5 -> Npos (XI (XO (XI (XO (XO (XO (XI XH)))))))
| Xc6 -> Npos (XO (XI (XI (XO (XO (XO (XI XH)))))))
| Xc7 -> Npos (XI (XI (XI (XO (XO (XO (XI XH)))))))
| Xc8 -> Npos (XO (XO (XO (XI (XO (XO (XI XH)))))))
| Xc9 -> Npos (XI (XO (XO (XI (XO (XO (XI XH)))))))
| Xca -> Npos (XO (XI (XO (XI (XO (XO (XI XH)))))))
| Xcb -> Npos (XI (XI (XO (XI (XO (XO (XI XH)))))))
| Xcc -> Npos (XO (XO (XI (XI (XO (XO (XI XH)))))))
| Xcd -> Npos (XI (XO (XI (XI (XO (XO (XI XH)))))))
| Xce -> Npos (XO (XI (XI (XI (XO (XO (XI XH)))))))
| Xcf -> Npos (XI (XI (XI (XI (XO (XO (XI XH)))))))
| Xd0 -> Npos (XO (XO (XO (XO (XI (XO (XI XH)))))))
| Xd1 -> Npos (XI (XO (XO (XO (XI (XO (XI XH)))))))
| Xd2 -> Npos (XO (XI (XO (XO (XI (XO (XI XH)))))))
| Xd3 -> Npos (XI (XI (XO (XO (XI (XO (XI XH)))))))
| Xd4 -> Npos (XO (XO (XI (XO (XI (XO (XI XH)))))))
| Xd5 -> Npos (XI (XO (XI (XO (XI (XO (XI XH)))))))
| Xd6 -> Npos (XO (XI (XI (XO (XI (XO (XI XH)))))))
| Xd7 -> Npos (XI (XI (XI (XO (XI (XO (XI XH)))))))
| Xd8 -> Npos (XO (XO (XO (XI (XI (XO (XI XH)))))))
| Xd9 -> Npos (XI (XO (XO (XI (XI (XO (XI XH)))))))
| Xda -> Npos (XO (XI (XO (XI (XI (XO (XI XH)))))))
| Xdb -> Npos (XI (XI (XO (XI (XI (XO (XI XH)))))))
| Xdc -> Npos (XO (XO (XI (XI (XI (XO (XI XH)))))))
| Xdd -> Npos (XI (XO (XI (XI (XI (XO (XI XH)))))))
| Xde -> Npos (XO (XI (XI (XI (XI (XO (XI XH)))))))
| Xdf -> Npos (XI (XI (XI (XI (XI (XO (XI XH)))))))
| Xe0 -> Npos (XO (XO (XO (XO (XO (XI (XI XH)))))))
| Xe1 -> Npos (XI (XO (XO (XO (XO (XI (XI XH)))))))
| Xe2 -> Npos (XO (XI (XO (XO (XO (XI (XI XH)))))))
| Xe3 -> Npos (XI (XI (XO (XO (XO (XI (XI XH)))))))
| Xe4 -> Npos (XO (XO (XI (XO (XO (XI (XI XH)))))))
| Xe5 -> Npos (XI (XO (XI (XO (XO (XI (XI XH)))))))
| Xe6 -> Npos (XO (XI (XI (XO (XO (XI (XI XH)))))))
| Xe7 -> Npos (XI (XI (XI (XO (XO (XI (XI XH)))))))
| Xe8 -> Npos (XO (XO (XO (XI (XO (XI (XI XH)))))))
| Xe9 -> Npos (XI (XO (XO (XI (XO (XI (XI XH)))))))
| Xea -> Npos (XO (XI (XO (XI (XO (XI (XI XH)))))))
| Xeb -> Npos (XI (XI (XO (XI (XO (XI (XI XH)))))))
| Xec -> Npos (XO (XO (XI (XI (XO (XI (XI XH)))))))
| Xed -> Npos (XI (XO (XI (XI (XO (XI (XI XH)))))))
| Xee -> Npos (XO (XI (XI (XI (XO (XI (XI XH)))))))
| Xef -> Npos (XI (XI (XI (XI (XO (XI (XI XH)))))))
| Xf0 -> Npos (XO (XO (XO (XO (XI (XI (XI XH)))))))
| Xf1 -> Npos (XI (XO (XO (XO (XI (XI (XI XH)))))))
| Xf2 -> Npos (XO (XI (XO (XO (XI (XI (XI XH)))))))
| Xf3 -> Npos (XI (XI (XO (XO (XI (XI (XI XH)))))))
| Xf4 -> Npos (XO (XO (XI (XO (XI (XI (XI XH)))))))
| Xf5 -> Npos (XI (XO (XI (XO (XI (XI (XI XH)))))))
| Xf6 -> Npos (XO (XI (XI (XO (XI (XI (XI XH)))))))
| Xf7 -> Npos (XI (XI (XI (XO (XI (XI (XI XH)))))))
| Xf8 -> Npos (XO (XO (XO (XI (XI (XI (XI XH)))))))
| Xf9 -> Npos (XI (XO (XO (XI (XI (XI (XI XH)))))))
| Xfa -> Npos (XO (XI (XO (XI (XI (XI (XI XH)))))))
| Xfb -> Npos (XI (XI (XO (XI (XI (XI (XI XH)))))))
| Xfc -> Npos (XO (XO (XI (XI (XI (XI (XI XH)))))))
| Xfd -> Npos (XI (XO (XI (XI (XI (XI (XI XH)))))))
| Xfe -> Npos (XO (XI (XI (XI (XI (XI (XI XH)))))))
| Xff -> Npos (XI (XI (XI (XI (XI (XI (XI XH)))))))

(** val of_N : n -> byte option **)

let of_N = function
| N0 -> Some X00
| Npos p ->
  (match p with
   | XI p0 ->
     (match p0 with
      | XI p1 ->
        (match p1 with
         | XI p2 ->
           (match p2 with
            | XI p3 ->
              (match p3 with
               | XI p4 ->
                 (match p4 with
                  | XI p5 ->
                    (match p5 with
                     | XI p6 -> (match p6 with
                                 | XH -> Some Xff
                                 | _ -> None)
                     | XO p6 -> (match p6 with
                                 | XH -> Some Xbf
                                 | _ -> None)
                     | XH -> Some X7f)
                  | XO p5 ->
                    (match p5 with
                     | XI p6 -> (match p6 with
                                 | XH -> Some Xdf
                                 | _ -> None)
                     | XO p6 -> (match p6 with
                                 | XH -> Some X9f
                                 | _ -> None)
                     | XH -> Some X5f)
                  | XH -> Some X3f)
               | XO p4 ->
                 (match p4 with
                  | XI p5 ->
                    (match p5 with
                     | XI p6 -> (match p6 with
                                 | XH -> Some Xef
                                 | _ -> None)
                     | XO p6 -> (match p6 with
                                 | XH -> Some Xaf
                                 | _ -> None)
                     | XH -> Some X6f)
                  | XO p5 ->
                    (match p5 with
                     | XI p6 -> (match p6 with
                                 | XH -> Some Xcf
                                 | _ -> None)
                     | XO p6 -> (match p6 with
                                 | XH -> Some X8f
                                 | _ -> None)
                     | XH -> Some X4f)
                  | XH -> Some X2f)
               | XH -> Some X1f)
            | XO p3 ->
              (match p3 with
               | XI p4 ->
                 (match p4 with
                  | XI p5 ->
                    (match p5 with
                     | XI p6 -> (match p6 with
                                 | XH -> Some Xf7
                                 | _ -> None)
                     | XO p6 -> (match p6 with
                                 | XH -> Some Xb7
                                 | _ -> None)
                     | XH -> Some X77)
                  | XO p5 ->
                    (match p5 with
                     | XI p6 -> (match p6 with
                                 | XH -> Some Xd7
                                 | _ -> None)
                     | XO p6 -> (match p6 with
                                 | XH -> Some X97
                                 | _ -> None)
                     | XH -> Some X57)
                  | XH -> Some X37)
               | XO p4 ->
                 (match p4 with
                  | XI p5 ->
                    (match p5 with
                     | XI p6 -> (match p6 with
                                 | XH -> Some Xe7
                                 | _ -> None)
                     | XO p6 -> (match p6 with
                                 | XH -> Some Xa7
                                 | _ -> None)
                     | XH -> Some X67)
                  | XO p5 ->
                    (match p5 with
                     | XI p6 -> (match p6 with
                                 | XH -> Some Xc7
                                 | _ -> None)
                     | XO p6 -> (match p6 with
                                 | XH -> Some X87
                                 | _ -> None)
                     | XH -> Some X47)
                  | XH -> Some X27)
               | XH -> Some X17)
            | XH -> Some X0f)
         | XO p2 ->
           (match p2 with
            | XI p3 ->
              (match p3 with
               | XI p4 ->
                 (match p4 with
                  | XI p5 ->
                    (match p5 with
                     | XI p6 -> (match p6 with
                                 | XH -> Some Xfb
                                 | _ -> None)
                     | XO p6 -> (match p6 with
                                 | XH -> Some Xbb
                                 | _ -> None)
                     | XH -> Some X7b)
                  | XO p5 ->
                    (match p5 with
                     | XI p6 -> (match p6 with
                                 | XH -> Some Xdb
                                 | _ -> None)
                     | XO p6 -> (match p6 with
                                 | XH -> Some X9b
                                 | _ -> None)
                     | XH -> Some X5b)
                  | XH -> Some X3b)
               | XO p4 ->
                 (match p4 with
                  | XI p5 ->
                    (match p5 with
                     | XI p6 -> (match p6 with
                                 | XH -> Some Xeb
                                 | _ -> None)
                     | XO p6 -> (match p6 with
                                 | XH -> Some Xab
                                 | _ -> None)
                     | XH -> Some X6b)
                  | XO p5 ->
                    (match p5 with
                     | XI p6 -> (match p6 with
                                 | XH -> Some Xcb
                                 | _ -> None)
                     | XO p6 -> (match p6 with
                                 | XH -> Some X8b
                                 | _ -> None)
                     | XH -> Some X4b)
                  | XH -> Some X2b)
               | XH -> Some X1b)
            | XO p3 ->
              (match p3 with
               | XI p4 ->
                 (match p4 with
                  | XI p5 ->
                    (match p5 with
                     | XI p6 -> (match p6 with
                                 | XH -> Some Xf3
                                 | _ -> None)
                     | XO p6 -> (match p6 with
                                 | XH -> Some Xb3
                                 | _ -> None)
                     | XH -> Some X73)
                  | XO p5 ->
                    (match p5 with
                     | XI p6 -> (match p6 with
                                 | XH -> Some Xd3
                                 | _ -> None)
                     | XO p6 -> (match p6 with
                                 | XH -> Some X93
                                 | _ -> None)
                     | XH -> Some X53)
                  | XH -> Some X33)
               | XO p4 ->
                 (match p4 with
                  | XI p5 ->
                    (match p5 with
                     | XI p6 -> (match p6 with
                                 | XH -> Some Xe3
                                 | _ -> None)
                     | XO p6 -> (match p6 with
                                 | XH -> Some Xa3
                                 | _ -> None)
                     | XH -> Some X63)
                  | XO p5 ->
                    (match p5 with
                     | XI p6 -> (match p6 with
                                 | XH -> Some Xc3
                                 | _ -> None)
                     | XO p6 -> (match p6 with
                                 | XH -> Some X83
                                 | _ -> None)
                     | XH -> Some X43)
                  | XH -> Some X23)
               | XH -> Some X13)
            | XH -> Some X0b)
         | XH -> Some X07)
      | XO p1 ->
        (match p1 with
         | XI p2 ->
           (match p2 with
            | XI p3 ->
              (match p3 with
               | XI p4 ->
                 (match p4 with
                  | XI p5 ->
                    (match p5 with
                     | XI p6 -> (match p6 with
                                 | XH -> Some Xfd
                                 | _ -> None)
                     | XO p6 -> (match p6 with
                                 | XH -> Some Xbd
                                 | _ -> None)
                     | XH -> Some X7d)
                  | XO p5 ->
                    (match p5 with
                     | XI p6 -> (match p6 with
                                 | XH -> Some Xdd
                                 | _ -> None)
                     | XO p6 -> (match p6 with
                                 | XH -> Some X9d
                                 | _ -> None)
                     | XH -> Some X5d)
                  | XH -> Some X3d)
               | XO p4 ->
                 (match p4 with
                  | XI p5 ->
                    (match p5 with
                     | XI p6 -> (match p6 with
                                 | XH -> Some Xed
                                 | _ -> None)
                     | XO p6 -> (match p6 with
                                 | XH -> Some Xad
                                 | _ -> None)
                     | XH -> Some X6d)
                  | XO p5 ->
                    (match p5 with
                     | XI p6 -> (match p6 with
                                 | XH -> Some Xcd
                                 | _ -> None)
                     | XO p6 -> (match p6 with
                                 | XH -> Some X8d
                                 | _ -> None)
                     | XH -> Some X4d)
                  | XH -> Some X2d)
               | XH -> Some X1d)
            | XO p3 ->
              (match p3 with
               | XI p4 ->
                 (match p4 with
                  | XI p5 ->
                    (match p5 with
                     | XI p6 -> (match p6 with
                                 | XH -> Some Xf5
                                 | _ -> None)
                     | XO p6 -> (match p6 with
                                 | XH -> Some Xb5
                                 | _ -> None)
                     | XH -> Some X75)
                  | XO p5 ->
                    (match p5 with
                     | XI p6 -> (match p6 with
                                 | XH -> Some Xd5
                                 | _ -> None)
                     | XO p6 -> (match p6 with
                                 | XH -> Some X95
                                 | _ -> None)
                     | XH -> Some X55)
                  | XH -> Some X35)
               | XO p4 ->
                 (match p4 with
                  | XI p5 ->
                    (match p5 with
                     | XI p6 -> (match p6 with
                                 | XH -> Some Xe5
                                 | _ -> None)
                     | XO p6 -> (match p6 with
                                 | XH -> Some Xa5
                                 | _ -> None)
                     | XH -> Some X65)
                  | XO p5 ->
                    (match p5 with
                     | XI p6 -> (match p6 with
                                 | XH -> Some Xc5
                                 | _ -> None)
                     | XO p6 -> (match p6 with
                                 | XH -> Some X85
                                 | _ -> None)
                     | XH -> Some X45)
                  | XH -> Some X25)
               | XH -> Some X15)
            | XH -> Some X0d)
         | XO p2 ->
           (match p2 with
            | XI p3 ->
              (match p3 with
               | XI p4 ->
                 (match p4 with
                  | XI p5 ->
                    (match p5 with
                     | XI p6 -> (match p6 with
                                 | XH -> Some Xf9
                                 | _ -> None)
                     | XO p6 -> (match p6 with
                                 | XH -> Some Xb9
                                 | _ -> None)
                     | XH -> Some X79)
                  | XO p5 ->
                    (match p5 with
                     | XI p6 -> (match p6 with
                                 | XH -> Some Xd9
                                 | _ -> None)
                     | XO p6 -> (match p6 with
                                 | XH -> Some X99
                                 | _ -> None)
                     | XH -> Some X59)
                  | XH -> Some X39)
               | XO p4 ->
                 (match p4 with
                  | XI p5 ->
                    (match p5 with
                     | XI p6 -> (match p6 with
                                 | XH -> Some Xe9
                                 | _ -> None)
                     | XO p6 -> (match p6 with
                                 | XH -> Some Xa9
                                 | _ -> None)
                     | XH -> Some X69)
                  | XO p5 ->
                    (match p5 with
                     | XI p6 -> (match p6 with
                                 | XH -> Some Xc9
                                 | _ -> None)
                     | XO p6 -> (match p6 with
                                 | XH -> Some X89
                                 | _ -> None)
                     | XH -> Some X49)
                  | XH -> Some X29)
               | XH -> Some X19)
            | XO p3 ->
              (match p3 with
               | XI p4 ->
                 (match p4 with
                  | XI p5 ->
                    (match p5 with
                     | XI p6 -> (match p6 with
                                 | XH -> Some Xf1
                                 | _ -> None)
                     | XO p6 -> (match p6 with
                                 | XH -> Some Xb1
                                 | _ -> None)
                     | XH -> Some X71)
                  | XO p5 ->
                    (match p5 with
                     | XI p6 -> (match p6 with
                                 | XH -> Some Xd1
                                 | _ -> None)
                     | XO p6 -> (match p6 with
                                 | XH -> Some X91
                                 | _ -> None)
                     | XH -> Some X51)
                  | XH -> Some X31)
               | XO p4 ->
                 (match p4 with
                  | XI p5 ->
                    (match p5 with
                     | XI p6 -> (match p6 with
                                 | XH -> Some Xe1
                                 | _ -> None)
                     | XO p6 -> (match p6 with
                                 | XH -> Some Xa1
                                 | _ -> None)
                     | XH -> Some X61)
                  | XO p5 ->
                    (match p5 with
                     | XI p6 -> (match p6 with
                                 | XH -> Some Xc1
                                 | _ -> None)
                     | XO p6 -> (match p6 with
                                 | XH -> Some X81
                                 | _ -> None)
                     | XH -> Some X41)
                  | XH -> Some X21)
               | XH -> Some X11)
            | XH -> Some X09)
         | XH -> Some X05)
      | XH -> Some X03)
   | XO p0 ->
     (match p0 with
      | XI p1 ->
        (match p1 with
         | XI p2 ->
           (match p2 with
            | XI p3 ->
              (match p3 with
               | XI p4 ->
                 (match p4 with
                  | XI p5 ->
                    (match p5 with
                     | XI p6 -> (match p6 with
                                 | XH -> Some Xfe
                                 | _ -> None)
                     | XO p6 -> (match p6 with
                                 | XH -> Some Xbe
                                 | _ -> None)
                     | XH -> Some X7e)
                  | XO p5 ->
                    (match p5 with
                     | XI p6 -> (match p6 with
                                 | XH -> Some Xde
                                 | _ -> None)
                     | XO p6 -> (match p6 with
                                 | XH -> Some X9e
                                 | _ -> None)
                     | XH -> Some X5e)
                  | XH -> Some X3e)
               | XO p4 ->
                 (match p4 with
                  | XI p5 ->
                    (match p5 with
                     | XI p6 -> (match p6 with
                                 | XH -> Some Xee
                                 | _ -> None)
                     | XO p6 -> (match p6 with
                                 | XH -> Some Xae
                                 | _ -> None)
                     | XH -> Some X6e)
                  | XO p5 ->
                    (match p5 with
                     | XI p6 -> (match p6 with
                                 | XH -> Some Xce
                                 | _ -> None)
                     | XO p6 -> (match p6 with
                                 | XH -> Some X8e
                                 | _ -> None)
                     | XH -> Some X4e)
                  | XH -> Some X2e)
               | XH -> Some X1e)
            | XO p3 ->
              (match p3 with
               | XI p4 ->
                 (match p4 with
                  | XI p5 ->
                    (match p5 with
                     | XI p6 -> (match p6 with
                                 | XH -> Some Xf6
                                 | _ -> None)
                     | XO p6 -> (match p6 with
                                 | XH -> Some Xb6
                                 | _ -> None)
                     | XH -> Some X76)
                  | XO p5 ->
                    (match p5 with
                     | XI p6 -> (match p6 with
                                 | XH -> Some Xd6
                                 | _ -> None)
                     | XO p6 -> (match p6 with
                                 | XH -> Some X96
                                 | _ -> None)
                     | XH -> Some X56)
                  | XH -> Some X36)
               | XO p4 ->
                 (match p4 with
                  | XI p5 ->
                    (match p5 with
                     | XI p6 -> (match p6 with
                                 | XH -> Some Xe6
                                 | _ -> None)
                     | XO p6 -> (match p6 with
                                 | XH -> Some Xa6
                                 | _ -> None)
                     | XH -> Some X66)
                  | XO p5 ->
                    (match p5 with
                     | XI p6 -> (match p6 with
                                 | XH -> Some Xc6
                                 | _ -> None)
                     | XO p6 -> (match p6 with
                                 | XH -> Some X86
                                 | _ -> None)
                     | XH -> Some X46)
                  | XH -> Some X26)
               | XH -> Some X16)
            | XH -> Some X0e)
         | XO p2 ->
           (match p2 with
            | XI p3 ->
              (match p3 with
               | XI p4 ->
                 (match p4 with
                  | XI p5 ->
                    (match p5 with
                     | XI p6 -> (match p6 with
                                 | XH -> Some Xfa
                                 | _ -> None)
                     | XO p6 -> (match p6 with
                                 | XH -> Some Xba
                                 | _ -> None)
                     | XH -> Some X7a)
                  | XO p5 ->
                    (match p5 with
                     | XI p6 -> (match p6 with
                                 | XH -> Some Xda
                                 | _ -> None)
                     | XO p6 -> (match p6 with
                                 | XH -> Some X9a
                                 | _ -> None)
                     | XH -> Some X5a)
                  | XH -> Some X3a)
               | XO p4 ->
                 (match p4 with
                  | XI p5 ->
                    (match p5 with
                     | XI p6 -> (match p6 with
                                 | XH -> Some Xea
                                 | _ -> None)
                     | XO p6 -> (match p6 with
                                 | XH -> Some Xaa
                                 | _ -> None)
                     | XH -> Some X6a)
                  | XO p5 ->
                    (match p5 with
                     | XI p6 -> (match p6 with
                                 | XH -> Some Xca
                                 | _ -> None)
                     | XO p6 -> (match p6 with
                                 | XH -> Some X8a
                                 | _ -> None)
                     | XH -> Some X4a)
                  | XH -> Some X2a)
               | XH -> Some X1a)
            | XO p3 ->
              (match p3 with
               | XI p4 ->
                 (match p4 with
                  | XI p5 ->
                    (match p5 with
                     | XI p6 -> (match p6 with
                                 | XH -> Some Xf2
                                 | _ -> None)
                     | XO p6 -> (match p6 with
                                 | XH -> Some Xb2
                                 | _ -> None)
                     | XH -> Some X72)
                  | XO p5 ->
                    (match p5 with
                     | XI p6 -> (match p6 with
                                 | XH -> Some Xd2
                                 | _ -> None)
                     | XO p6 -> (match p6 with
                                 | XH -> Some X92
                                 | _ -> None)
                     | XH -> Some X52)
                  | XH -> Some X32)
               | XO p4 ->
                 (match p4 with
                  | XI p5 ->
                    (match p5 with
                     | XI p6 -> (match p6 with
                                 | XH -> Some Xe2
                                 | _ -> None)
                     | XO p6 -> (match p6 with
                                 | XH -> Some Xa2
                                 | _ -> None)
                     | XH -> Some X62)
                  | XO p5 ->
                    (match p5 with
                     | XI p6 -> (match p6 with
                                 | XH -> Some Xc2
                                 | _ -> None)
                     | XO p6 -> (match p6 with
                                 | XH -> Some X82
                                 | _ -> None)
                     | XH -> Some X42)
                  | XH -> Some X22)
               | XH -> Some X12)
            | XH -> Some X0a)
         | XH -> Some X06)
      | XO p1 ->
        (match p1 with
         | XI p2 ->
           (match p2 with
            | XI p3 ->
              (match p3 with
               | XI p4 ->
                 (match p4 with
                  | XI p5 ->
                    (match p5 with
                     | XI p6 -> (match p6 with
                                 | XH -> Some Xfc
                                 | _ -> None)
                     | XO p6 -> (match p6 with
                                 | XH -> Some Xbc
                                 | _ -> None)
                     | XH -> Some X7c)
                  | XO p5 ->
                    (match p5 with
                     | XI p6 -> (match p6 with
                                 | XH -> Some Xdc
                                 | _ -> None)
                     | XO p6 -> (match p6 with
                                 | XH -> Some X9c
                                 | _ -> None)
                     | XH -> Some X5c)
                  | XH -> Some X3c)
               | XO p4 ->
                 (match p4 with
                  | XI p5 ->
                    (match p5 with
                     | XI p6 -> (match p6 with
                                 | XH -> Some Xec
                                 | _ -> None)
                     | XO p6 -> (match p6 with
                                 | XH -> Some Xac
                                 | _ -> None)
                     | XH -> Some X6c)
                  | XO p5 ->
                    (match p5 with
                     | XI p6 -> (match p6 with
                                 | XH -> Some Xcc
                                 | _ -> None)
                     | XO p6 -> (match p6 with
                                 | XH -> Some X8c
                                 | _ -> None)
                     | XH -> Some X4c)
                  | XH -> Some X2c)
               | XH -> Some X1c)
            | XO p3 ->
              (match p3 with
               | XI p4 ->
                 (match p4 with
                  | XI p5 ->
                    (match p5 with
                     | XI p6 -> (match p6 with
                                 | XH -> Some Xf4
                                 | _ -> None)
                     | XO p6 -> (match p6 with
                                 | XH -> Some Xb4
                                 | _ -> None)
                     | XH -> Some X74)
                  | XO p5 ->
                    (match p5 with
                     | XI p6 -> (match p6 with
                                 | XH -> Some Xd4
                                 | _ -> None)
                     | XO p6 -> (match p6 with
                                 | XH -> Some X94
                                 | _ -> None)
                     | XH -> Some X54)
                  | XH -> Some X34)
               | XO p4 ->
                 (match p4 with
                  | XI p5 ->
                    (match p5 with
                     | XI p6 -> (match p6 with
                                 | XH -> Some Xe4
                                 | _ -> None)
                     | XO p6 -> (match p6 with
                                 | XH -> Some Xa4
                                 | _ -> None)
                     | XH -> Some X64)
                  | XO p5 ->
                    (match p5 with
                     | XI p6 -> (match p6 with
                                 | XH -> Some Xc4
                                 | _ -> None)
                     | XO p6 -> (match p6 with
                                 | XH -> Some X84
                                 | _ -> None)
                     | XH -> Some X44)
                  | XH -> Some X24)
               | XH -> Some X14)
            | XH -> Some X0c)
         | XO p2 ->
           (match p2 with
            | XI p3 ->
              (match p3 with
               | XI p4 ->
                 (match p4 with
                  | XI p5 ->
                    (match p5 with
                     | XI p6 -> (match p6 with
                                 | XH -> Some Xf8
                                 | _ -> None)
                     | XO p6 -> (match p6 with
                                 | XH -> Some Xb8
                                 | _ -> None)
                     | XH -> Some X78)
                  | XO p5 ->
                    (match p5 with
                     | XI p6 -> (match p6 with
                                 | XH -> Some Xd8
                                 | _ -> None)
                     | XO p6 -> (match p6 with
                                 | XH -> Some X98
                                 | _ -> None)
                     | XH -> Some X58)
                  | XH -> Some X38)
               | XO p4 ->
                 (match p4 with
                  | XI p5 ->
                    (match p5 with
                     | XI p6 -> (match p6 with
                                 | XH -> Some Xe8
                                 | _ -> None)
                     | XO p6 -> (match p6 with
                                 | XH -> Some Xa8
                                 | _ -> None)
                     | XH -> Some X68)
                  | XO p5 ->
                    (match p5 with
                     | XI p6 -> (match p6 with
                                 | XH -> Some Xc8
                                 | _ -> None)
                     | XO p6 -> (match p6 with
                                 | XH -> Some X88
                                 | _ -> None)
                     | XH -> Some X48)
                  | XH -> Some X28)
               | XH -> Some X18)
            | XO p3 ->
              (match p3 with
               | XI p4 ->
                 (match p4 with
                  | XI p5 ->
                    (match p5 with
                     | XI p6 -> (match p6 with
                                 | XH -> Some Xf0
                                 | _ -> None)
                     | XO p6 -> (match p6 with
                                 | XH -> Some Xb0
                                 | _ -> None)
                     | XH -> Some X70)
                  | XO p5 ->
                    (match p5 with
                     | XI p6 -> (match p6 with
                                 | XH -> Some Xd0
                                 | _ -> None)
                     | XO p6 -> (match p6 with
                                 | XH -> Some X90
                                 | _ -> None)
                     | XH -> Some X50)
                  | XH -> Some X30)
               | XO p4 ->
                 (match p4 with
                  | XI p5 ->
                    (match p5 with
                     | XI p6 -> (match p6 with
                                 | XH -> Some Xe0
                                 | _ -> None)
                     | XO p6 -> (match p6 with
                                 | XH -> Some Xa0
                                 | _ -> None)
                     | XH -> Some X60)
                  | XO p5 ->
                    (match p5 with
                     | XI p6 -> (match p6 with
                                 | XH -> Some Xc0
                                 | _ -> None)
                     | XO p6 -> (match p6 with
                                 | XH -> Some X80
                                 | _ -> None)
                     | XH -> Some X40)
                  | XH -> Some X20)
               | XH -> Some X10)
            | XH -> Some X08)
         | XH -> Some X04)
      | XH -> Some X02)
   | XH -> Some X01)

type decision = bool

(** val decide : decision -> bool **)

let decide decision0 =
  decision0

type ('a, 'b) relDecision = 'a -> 'b -> decision

(** val decide_rel : ('a1, 'a2) relDecision -> 'a1 -> 'a2 -> decision **)

let decide_rel relDecision0 =
  relDecision0

type 'a empty = 'a

(** val empty0 : 'a1 empty -> 'a1 **)

let empty0 empty1 =
  empty1

type 'a union = 'a -> 'a -> 'a

(** val union0 : 'a1 union -> 'a1 -> 'a1 -> 'a1 **)

let union0 union1 =
  union1

type ('a, 'b) singleton = 'a -> 'b

(** val singleton0 : ('a1, 'a2) singleton -> 'a1 -> 'a2 **)

let singleton0 singleton1 =
  singleton1

type ('a, 'b) filter0 = __ -> ('a -> decision) -> 'b -> 'b

(** val filter1 : ('a1, 'a2) filter0 -> ('a1 -> decision) -> 'a2 -> 'a2 **)

let filter1 filter2 h x =
  filter2 __ h x

type 'm mRet = __ -> __ -> 'm

(** val mret : 'a1 mRet -> 'a2 -> 'a1 **)

let mret mRet0 x =
  Obj.magic mRet0 __ x

type 'm mBind = __ -> __ -> (__ -> 'm) -> 'm -> 'm

(** val mbind : 'a1 mBind -> ('a2 -> 'a1) -> 'a1 -> 'a1 **)

let mbind mBind0 x x0 =
  Obj.magic mBind0 __ __ x x0

type 'm fMap = __ -> __ -> (__ -> __) -> 'm -> 'm

(** val fmap : 'a1 fMap -> ('a2 -> 'a3) -> 'a1 -> 'a1 **)

let fmap fMap0 x x0 =
  Obj.magic fMap0 __ __ x x0

type 'm oMap = __ -> __ -> (__ -> __ option) -> 'm -> 'm

(** val omap : 'a1 oMap -> ('a2 -> 'a3 option) -> 'a1 -> 'a1 **)

let omap oMap0 x x0 =
  Obj.magic oMap0 __ __ x x0

type ('k, 'a, 'm) lookup = 'k -> 'm -> 'a option

(** val lookup0 : ('a1, 'a2, 'a3) lookup -> 'a1 -> 'a3 -> 'a2 option **)

let lookup0 lookup1 =
  lookup1

type ('k, 'a, 'm) singletonM = 'k -> 'a -> 'm

(** val singletonM0 : ('a1, 'a2, 'a3) singletonM -> 'a1 -> 'a2 -> 'a3 **)

let singletonM0 singletonM1 =
  singletonM1

type ('k, 'a, 'm) insert = 'k -> 'a -> 'm -> 'm

(** val insert0 : ('a1, 'a2, 'a3) insert -> 'a1 -> 'a2 -> 'a3 -> 'a3 **)

let insert0 insert1 =
  insert1

type ('k, 'm) delete = 'k -> 'm -> 'm

(** val delete0 : ('a1, 'a2) delete -> 'a1 -> 'a2 -> 'a2 **)

let delete0 delete1 =
  delete1

type ('k, 'a, 'm) partialAlter = ('a option -> 'a option) -> 'k -> 'm -> 'm

(** val partial_alter :
    ('a1, 'a2, 'a3) partialAlter -> ('a2 option -> 'a2 option) -> 'a1 -> 'a3
    -> 'a3 **)

let partial_alter partialAlter0 =
  partialAlter0

type 'm merge =
  __ -> __ -> __ -> (__ option -> __ option -> __ option) -> 'm -> 'm -> 'm

(** val merge0 :
    'a1 merge -> ('a2 option -> 'a3 option -> 'a4 option) -> 'a1 -> 'a1 -> 'a1 **)

let merge0 merge1 x x0 x1 =
  Obj.magic merge1 __ __ __ x x0 x1

type ('a, 'm) unionWith = ('a -> 'a -> 'a option) -> 'm -> 'm -> 'm

(** val union_with :
    ('a1, 'a2) unionWith -> ('a1 -> 'a1 -> 'a1 option) -> 'a2 -> 'a2 -> 'a2 **)

let union_with unionWith0 =
  unionWith0

type ('a, 'c) elements = 'c -> 'a list

(** val elements0 : ('a1, 'a2) elements -> 'a2 -> 'a1 list **)

let elements0 elements1 =
  elements1

type 'c size = 'c -> nat

(** val size0 : 'a1 size -> 'a1 -> nat **)

let size0 size3 =
  size3

(** val true_dec : decision **)

let true_dec =
  true

(** val false_dec : decision **)

let false_dec =
  false

(** val is_true_dec : bool -> decision **)

let is_true_dec = function
| true -> true_dec
| false -> false_dec

(** val unit_eq_dec : (unit, unit) relDecision **)

let unit_eq_dec _ _ =
  true

(** val prod_eq_dec :
    ('a1, 'a1) relDecision -> ('a2, 'a2) relDecision -> ('a1 * 'a2,
    'a1 * 'a2) relDecision **)

let prod_eq_dec eqDecision0 eqDecision1 x y =
  let (a, b) = x in
  let (a0, b0) = y in
  if decide_rel eqDecision0 a a0 then decide_rel eqDecision1 b b0 else false

(** val bool_decide : decision -> bool **)

let bool_decide = function
| true -> true
| false -> false

(** val from_option : ('a1 -> 'a2) -> 'a2 -> 'a1 option -> 'a2 **)

let from_option f y = function
| Some x -> f x
| None -> y

(** val is_Some_dec : 'a1 option -> decision **)

let is_Some_dec = function
| Some _ -> true
| None -> false

(** val option_eq_dec :
    ('a1, 'a1) relDecision -> ('a1 option, 'a1 option) relDecision **)

let option_eq_dec dec mx my =
  match mx with
  | Some x ->
    (match my with
     | Some y -> decide (decide_rel dec x y)
     | None -> false)
  | None -> (match my with
             | Some _ -> false
             | None -> true)

(** val option_ret : __ -> __ option **)

let option_ret x =
  Some x

(** val option_bind : (__ -> __ option) -> __ option -> __ option **)

let option_bind f = function
| Some x -> f x
| None -> None

(** val option_fmap : (__ -> __) -> __ option -> __ option **)

let option_fmap =
  option_map

(** val option_union_with : ('a1, 'a1 option) unionWith **)

let option_union_with f mx my =
  match mx with
  | Some x -> (match my with
               | Some y -> f x y
               | None -> Some x)
  | None -> my

module Coq0_Pos =
 struct
  (** val eq_dec : (positive, positive) relDecision **)

  let eq_dec =
    Coq_Pos.eq_dec

  (** val app : positive -> positive -> positive **)

  let rec app p1 = function
  | XI p3 -> XI (app p1 p3)
  | XO p3 -> XO (app p1 p3)
  | XH -> p1

  (** val reverse_go : positive -> positive -> positive **)

  let rec reverse_go p1 = function
  | XI p3 -> reverse_go (XI p1) p3
  | XO p3 -> reverse_go (XO p1) p3
  | XH -> p1

  (** val reverse : positive -> positive **)

  let reverse =
    reverse_go XH

  (** val dup : positive -> positive **)

  let rec dup = function
  | XI p' -> XI (XI (dup p'))
  | XO p' -> XO (XO (dup p'))
  | XH -> XH
 end

(** val n_eq_dec : (n, n) relDecision **)

let n_eq_dec =
  N.eq_dec

(** val list_filter : ('a1 -> decision) -> 'a1 list -> 'a1 list **)

let rec list_filter x = function
| [] -> []
| x0 :: l0 ->
  if decide (x x0)
  then x0 :: (filter1 (fun _ -> list_filter) x l0)
  else filter1 (fun _ -> list_filter) x l0

(** val replicate : nat -> 'a1 -> 'a1 list **)

let rec replicate n0 x =
  match n0 with
  | O -> []
  | S n1 -> x :: (replicate n1 x)

(** val list_fmap : (__ -> __) -> __ list -> __ list **)

let rec list_fmap f = function
| [] -> []
| x :: l0 -> (f x) :: (list_fmap f l0)

(** val list_omap : (__ -> __ option) -> __ list -> __ list **)

let rec list_omap f = function
| [] -> []
| x :: l0 ->
  (match f x with
   | Some y -> y :: (list_omap f l0)
   | None -> list_omap f l0)

(** val mapM : 'a1 mBind -> 'a1 mRet -> ('a2 -> 'a1) -> 'a2 list -> 'a1 **)

let rec mapM h h0 f = function
| [] -> mret h0 []
| x :: l0 ->
  mbind h (fun y -> mbind h (fun k -> mret h0 (y :: k)) (mapM h h0 f l0))
    (f x)

(** val imap : (nat -> 'a1 -> 'a2) -> 'a1 list -> 'a2 list **)

let rec imap f = function
| [] -> []
| x :: l0 -> (f O x) :: (imap (compose f (fun x0 -> S x0)) l0)

(** val positives_flatten_go : positive list -> positive -> positive **)

let rec positives_flatten_go xs acc =
  match xs with
  | [] -> acc
  | x :: xs0 ->
    positives_flatten_go xs0
      (Coq0_Pos.app (XO (XI acc)) (Coq0_Pos.reverse (Coq0_Pos.dup x)))

(** val positives_flatten : positive list -> positive **)

let positives_flatten xs =
  positives_flatten_go xs XH

(** val positives_unflatten_go :
    positive -> positive list -> positive -> positive list option **)

let rec positives_unflatten_go p acc_xs acc_elm =
  match p with
  | XI p0 ->
    (match p0 with
     | XI p' -> positives_unflatten_go p' acc_xs (XI acc_elm)
     | _ -> None)
  | XO p0 ->
    (match p0 with
     | XI p' -> positives_unflatten_go p' (acc_elm :: acc_xs) XH
     | XO p' -> positives_unflatten_go p' acc_xs (XO acc_elm)
     | XH -> None)
  | XH -> Some acc_xs

(** val positives_unflatten : positive -> positive list option **)

let positives_unflatten p =
  positives_unflatten_go p [] XH

(** val list_eq_dec0 :
    ('a1, 'a1) relDecision -> ('a1 list, 'a1 list) relDecision **)

let list_eq_dec0 =
  list_eq_dec

(** val list_eq_nil_dec : 'a1 list -> decision **)

let list_eq_nil_dec = function
| [] -> true
| _ :: _ -> false

type 'a countable = { encode : ('a -> positive);
                      decode : (positive -> 'a option) }

(** val inj_countable :
    ('a1, 'a1) relDecision -> 'a1 countable -> ('a2, 'a2) relDecision -> ('a2
    -> 'a1) -> ('a1 -> 'a2 option) -> 'a2 countable **)

let inj_countable _ h _ f g =
  { encode = (fun y -> h.encode (f y)); decode = (fun p ->
    mbind (Obj.magic (fun _ _ -> option_bind)) g ((Obj.magic h).decode p)) }

(** val prod_encode_fst : positive -> positive **)

let rec prod_encode_fst = function
| XI p0 -> XI (XO (prod_encode_fst p0))
| XO p0 -> XO (XO (prod_encode_fst p0))
| XH -> XH

(** val prod_encode_snd : positive -> positive **)

let rec prod_encode_snd = function
| XI p0 -> XO (XI (prod_encode_snd p0))
| XO p0 -> XO (XO (prod_encode_snd p0))
| XH -> XO XH

(** val prod_encode : positive -> positive -> positive **)

let rec prod_encode p q =
  match p with
  | XI p0 ->
    (match q with
     | XI q0 -> XI (XI (prod_encode p0 q0))
     | XO q0 -> XI (XO (prod_encode p0 q0))
     | XH -> XI (XI (prod_encode_fst p0)))
  | XO p0 ->
    (match q with
     | XI q0 -> XO (XI (prod_encode p0 q0))
     | XO q0 -> XO (XO (prod_encode p0 q0))
     | XH -> XO (XI (prod_encode_fst p0)))
  | XH ->
    (match q with
     | XI q0 -> XI (XI (prod_encode_snd q0))
     | XO q0 -> XI (XO (prod_encode_snd q0))
     | XH -> XI XH)

(** val prod_decode_fst : positive -> positive option **)

let rec prod_decode_fst = function
| XI p0 ->
  (match p0 with
   | XI p1 -> Some (match prod_decode_fst p1 with
                    | Some q -> XI q
                    | None -> XH)
   | XO p1 -> Some (match prod_decode_fst p1 with
                    | Some q -> XI q
                    | None -> XH)
   | XH -> Some XH)
| XO p0 ->
  (match p0 with
   | XI p1 ->
     fmap (Obj.magic (fun _ _ -> option_fmap)) (fun x -> XO x)
       (prod_decode_fst p1)
   | XO p1 ->
     fmap (Obj.magic (fun _ _ -> option_fmap)) (fun x -> XO x)
       (prod_decode_fst p1)
   | XH -> None)
| XH -> Some XH

(** val prod_decode_snd : positive -> positive option **)

let rec prod_decode_snd = function
| XI p0 ->
  (match p0 with
   | XI p1 -> Some (match prod_decode_snd p1 with
                    | Some q -> XI q
                    | None -> XH)
   | XO p1 ->
     fmap (Obj.magic (fun _ _ -> option_fmap)) (fun x -> XO x)
       (prod_decode_snd p1)
   | XH -> Some XH)
| XO p0 ->
  (match p0 with
   | XI p1 -> Some (match prod_decode_snd p1 with
                    | Some q -> XI q
                    | None -> XH)
   | XO p1 ->
     fmap (Obj.magic (fun _ _ -> option_fmap)) (fun x -> XO x)
       (prod_decode_snd p1)
   | XH -> Some XH)
| XH -> None

(** val prod_countable :
    ('a1, 'a1) relDecision -> 'a1 countable -> ('a2, 'a2) relDecision -> 'a2
    countable -> ('a1 * 'a2) countable **)

let prod_countable _ h _ h0 =
  { encode = (fun xy ->
    prod_encode (h.encode (fst xy)) (h0.encode (snd xy))); decode = (fun p ->
    mbind (Obj.magic (fun _ _ -> option_bind)) (fun x ->
      mbind (Obj.magic (fun _ _ -> option_bind)) (fun y -> Some (x, y))
        (mbind (Obj.magic (fun _ _ -> option_bind)) (Obj.magic h0).decode
          (Obj.magic prod_decode_snd p)))
      (mbind (Obj.magic (fun _ _ -> option_bind)) (Obj.magic h).decode
        (Obj.magic prod_decode_fst p))) }

(** val list_countable :
    ('a1, 'a1) relDecision -> 'a1 countable -> 'a1 list countable **)

let list_countable _ h =
  { encode = (fun xs ->
    positives_flatten
      (fmap (Obj.magic (fun _ _ -> list_fmap)) h.encode (Obj.magic xs)));
    decode = (fun p ->
    mbind (Obj.magic (fun _ _ -> option_bind)) (fun positives ->
      mapM (Obj.magic (fun _ _ -> option_bind))
        (Obj.magic (fun _ -> option_ret)) (Obj.magic h).decode positives)
      (Obj.magic positives_unflatten p)) }

(** val n_countable : n countable **)

let n_countable =
  { encode = (fun x -> match x with
                       | N0 -> XH
                       | Npos p -> Coq_Pos.succ p); decode = (fun p ->
    if decide (decide_rel Coq0_Pos.eq_dec p XH)
    then Some N0
    else Some (Npos (Coq_Pos.pred p))) }

(** val set_size : ('a1, 'a2) elements -> 'a2 size **)

let set_size h =
  compose length (elements0 h)

type ('k, 'a, 'm) finMapToList = 'm -> ('k * 'a) list

(** val map_to_list :
    ('a1, 'a2, 'a3) finMapToList -> 'a3 -> ('a1 * 'a2) list **)

let map_to_list finMapToList0 =
  finMapToList0

(** val diag_None :
    ('a1 option -> 'a2 option -> 'a3 option) -> 'a1 option -> 'a2 option ->
    'a3 option **)

let diag_None f mx my =
  match mx with
  | Some _ -> f mx my
  | None -> (match my with
             | Some _ -> f mx my
             | None -> None)

(** val map_insert :
    ('a1, 'a2, 'a3) partialAlter -> ('a1, 'a2, 'a3) insert **)

let map_insert h i x =
  partial_alter h (fun _ -> Some x) i

(** val map_delete : ('a1, 'a2, 'a3) partialAlter -> ('a1, 'a3) delete **)

let map_delete h =
  partial_alter h (fun _ -> None)

(** val map_singleton :
    ('a1, 'a2, 'a3) partialAlter -> 'a3 empty -> ('a1, 'a2, 'a3) singletonM **)

let map_singleton h h0 i x =
  insert0 (map_insert h) i x (empty0 h0)

(** val list_to_map :
    ('a1, 'a2, 'a3) insert -> 'a3 empty -> ('a1 * 'a2) list -> 'a3 **)

let list_to_map h h0 =
  fold_right (fun p -> insert0 h (fst p) (snd p)) (empty0 h0)

(** val map_size : ('a1, 'a2, 'a3) finMapToList -> 'a3 size **)

let map_size h m =
  length (map_to_list h m)

(** val map_union_with : 'a1 merge -> ('a2, 'a1) unionWith **)

let map_union_with h f =
  merge0 h (union_with option_union_with f)

(** val map_union : 'a1 merge -> 'a1 union **)

let map_union h =
  union_with (map_union_with h) (fun x _ -> Some x)

(** val map_fold :
    ('a1, 'a2, 'a3) finMapToList -> ('a1 -> 'a2 -> 'a4 -> 'a4) -> 'a4 -> 'a3
    -> 'a4 **)

let map_fold h f b =
  compose (fold_right (prod_curry_subdef f) b) (map_to_list h)

(** val map_filter :
    ('a1, 'a2, 'a3) finMapToList -> ('a1, 'a2, 'a3) insert -> 'a3 empty ->
    (('a1 * 'a2) -> decision) -> 'a3 -> 'a3 **)

let map_filter h h0 h1 h2 =
  map_fold h (fun k v m ->
    if decide (h2 (k, v)) then insert0 h0 k v m else m) (empty0 h1)

type 'munit mapset' = { mapset_car : 'munit }

(** val mapset_empty : (__ -> 'a1 empty) -> 'a1 mapset' empty **)

let mapset_empty h1 =
  { mapset_car = (empty0 (h1 __)) }

(** val mapset_singleton :
    (__ -> 'a2 empty) -> (__ -> ('a1, __, 'a2) partialAlter) -> ('a1, 'a2
    mapset') singleton **)

let mapset_singleton h1 h2 x =
  { mapset_car =
    (singletonM0 (map_singleton (Obj.magic h2 __) (h1 __)) x ()) }

(** val mapset_union : 'a1 merge -> 'a1 mapset' union **)

let mapset_union h4 x1 x2 =
  let { mapset_car = m1 } = x1 in
  let { mapset_car = m2 } = x2 in
  { mapset_car = (union0 (map_union h4) m1 m2) }

(** val mapset_elements :
    (__ -> ('a1, __, 'a2) finMapToList) -> ('a1, 'a2 mapset') elements **)

let mapset_elements h5 x =
  let { mapset_car = m } = x in
  fmap (Obj.magic (fun _ _ -> list_fmap)) fst
    (Obj.magic map_to_list (h5 __) m)

(** val mapset_elem_of_dec :
    (__ -> ('a1, __, 'a2) lookup) -> ('a1, 'a2 mapset') relDecision **)

let mapset_elem_of_dec h0 x x0 =
  decide
    (decide_rel (Obj.magic option_eq_dec unit_eq_dec)
      (lookup0 (h0 __) x x0.mapset_car) (Some ()))

type 'a pmap_raw =
| PLeaf
| PNode of 'a option * 'a pmap_raw * 'a pmap_raw

(** val pmap_raw_eq_dec :
    ('a1, 'a1) relDecision -> ('a1 pmap_raw, 'a1 pmap_raw) relDecision **)

let rec pmap_raw_eq_dec eqDecision0 x y =
  match x with
  | PLeaf -> (match y with
              | PLeaf -> true
              | PNode (_, _, _) -> false)
  | PNode (o, p, p0) ->
    (match y with
     | PLeaf -> false
     | PNode (o0, p1, p2) ->
       if decide_rel (option_eq_dec eqDecision0) o o0
       then if pmap_raw_eq_dec eqDecision0 p p1
            then pmap_raw_eq_dec eqDecision0 p0 p2
            else false
       else false)

(** val pNode' :
    'a1 option -> 'a1 pmap_raw -> 'a1 pmap_raw -> 'a1 pmap_raw **)

let pNode' o l r =
  match l with
  | PLeaf ->
    (match o with
     | Some _ -> PNode (o, l, r)
     | None ->
       (match r with
        | PLeaf -> PLeaf
        | PNode (_, _, _) -> PNode (o, l, r)))
  | PNode (_, _, _) -> PNode (o, l, r)

(** val pempty_raw : 'a1 pmap_raw empty **)

let pempty_raw =
  PLeaf

(** val plookup_raw : (positive, 'a1, 'a1 pmap_raw) lookup **)

let rec plookup_raw i = function
| PLeaf -> None
| PNode (o, l, r) ->
  (match i with
   | XI i0 -> lookup0 plookup_raw i0 r
   | XO i0 -> lookup0 plookup_raw i0 l
   | XH -> o)

(** val psingleton_raw : positive -> 'a1 -> 'a1 pmap_raw **)

let rec psingleton_raw i x =
  match i with
  | XI i0 -> PNode (None, PLeaf, (psingleton_raw i0 x))
  | XO i0 -> PNode (None, (psingleton_raw i0 x), PLeaf)
  | XH -> PNode ((Some x), PLeaf, PLeaf)

(** val ppartial_alter_raw :
    ('a1 option -> 'a1 option) -> positive -> 'a1 pmap_raw -> 'a1 pmap_raw **)

let rec ppartial_alter_raw f i = function
| PLeaf -> (match f None with
            | Some x -> psingleton_raw i x
            | None -> PLeaf)
| PNode (o, l, r) ->
  (match i with
   | XI i0 -> pNode' o l (ppartial_alter_raw f i0 r)
   | XO i0 -> pNode' o (ppartial_alter_raw f i0 l) r
   | XH -> pNode' (f o) l r)

(** val pto_list_raw :
    positive -> 'a1 pmap_raw -> (positive * 'a1) list -> (positive * 'a1) list **)

let rec pto_list_raw j t acc =
  match t with
  | PLeaf -> acc
  | PNode (o, l, r) ->
    app (from_option (fun x -> ((Coq0_Pos.reverse j), x) :: []) [] o)
      (pto_list_raw (XO j) l (pto_list_raw (XI j) r acc))

(** val pomap_raw : ('a1 -> 'a2 option) -> 'a1 pmap_raw -> 'a2 pmap_raw **)

let rec pomap_raw f = function
| PLeaf -> PLeaf
| PNode (o, l, r) ->
  pNode' (mbind (Obj.magic (fun _ _ -> option_bind)) f (Obj.magic o))
    (pomap_raw f l) (pomap_raw f r)

(** val pmerge_raw :
    ('a1 option -> 'a2 option -> 'a3 option) -> 'a1 pmap_raw -> 'a2 pmap_raw
    -> 'a3 pmap_raw **)

let rec pmerge_raw f t1 t2 =
  match t1 with
  | PLeaf -> pomap_raw (compose (f None) (fun x -> Some x)) t2
  | PNode (o1, l1, r1) ->
    (match t2 with
     | PLeaf -> pomap_raw (compose (flip f None) (fun x -> Some x)) t1
     | PNode (o2, l2, r2) ->
       pNode' (diag_None f o1 o2) (pmerge_raw f l1 l2) (pmerge_raw f r1 r2))

type 'a pmap = { pmap_car : 'a pmap_raw }

(** val pmap_eq_dec :
    ('a1, 'a1) relDecision -> ('a1 pmap, 'a1 pmap) relDecision **)

let pmap_eq_dec eqDecision0 m1 m2 =
  pmap_raw_eq_dec eqDecision0 m1.pmap_car m2.pmap_car

(** val pempty : 'a1 pmap empty **)

let pempty =
  { pmap_car = (empty0 pempty_raw) }

(** val plookup : (positive, 'a1, 'a1 pmap) lookup **)

let plookup i m =
  lookup0 plookup_raw i m.pmap_car

(** val ppartial_alter : (positive, 'a1, 'a1 pmap) partialAlter **)

let ppartial_alter f i m =
  let { pmap_car = t } = m in
  { pmap_car = (partial_alter ppartial_alter_raw f i t) }

(** val pto_list : (positive, 'a1, 'a1 pmap) finMapToList **)

let pto_list m =
  let { pmap_car = t } = m in pto_list_raw XH t []

(** val pmerge :
    (__ option -> __ option -> __ option) -> __ pmap -> __ pmap -> __ pmap **)

let pmerge f m1 m2 =
  let { pmap_car = t1 } = m1 in
  let { pmap_car = t2 } = m2 in { pmap_car = (pmerge_raw f t1 t2) }

type ('k, 'a) gmap = { gmap_car : 'a pmap }

(** val gmap_eq_eq :
    ('a1, 'a1) relDecision -> 'a1 countable -> ('a2, 'a2) relDecision ->
    (('a1, 'a2) gmap, ('a1, 'a2) gmap) relDecision **)

let gmap_eq_eq _ _ eqDecision1 m1 m2 =
  decide (decide_rel (pmap_eq_dec eqDecision1) m1.gmap_car m2.gmap_car)

(** val gmap_lookup :
    ('a1, 'a1) relDecision -> 'a1 countable -> ('a1, 'a2, ('a1, 'a2) gmap)
    lookup **)

let gmap_lookup _ h i pat =
  let { gmap_car = m } = pat in lookup0 plookup (h.encode i) m

(** val gmap_empty :
    ('a1, 'a1) relDecision -> 'a1 countable -> ('a1, 'a2) gmap empty **)

let gmap_empty _ _ =
  { gmap_car = (empty0 pempty) }

(** val gmap_partial_alter :
    ('a1, 'a1) relDecision -> 'a1 countable -> ('a1, 'a2, ('a1, 'a2) gmap)
    partialAlter **)

let gmap_partial_alter _ h f i pat =
  let { gmap_car = m } = pat in
  { gmap_car = (partial_alter ppartial_alter f (h.encode i) m) }

(** val gmap_merge :
    ('a1, 'a1) relDecision -> 'a1 countable -> (__ option -> __ option -> __
    option) -> ('a1, __) gmap -> ('a1, __) gmap -> ('a1, __) gmap **)

let gmap_merge _ _ f pat pat0 =
  let { gmap_car = m1 } = pat in
  let { gmap_car = m2 } = pat0 in
  { gmap_car = (merge0 (fun _ _ _ -> pmerge) f m1 m2) }

(** val gmap_to_list :
    ('a1, 'a1) relDecision -> 'a1 countable -> ('a1, 'a2, ('a1, 'a2) gmap)
    finMapToList **)

let gmap_to_list _ h pat =
  let { gmap_car = m } = pat in
  omap (Obj.magic (fun _ _ -> list_omap)) (fun pat0 ->
    let (i, x) = pat0 in
    fmap (Obj.magic (fun _ _ -> option_fmap)) (fun x0 -> (x0, x)) (h.decode i))
    (map_to_list (Obj.magic pto_list) m)

type 'k gset = ('k, unit) gmap mapset'

(** val gset_empty :
    ('a1, 'a1) relDecision -> 'a1 countable -> 'a1 gset empty **)

let gset_empty eqDecision0 h =
  mapset_empty (fun _ -> gmap_empty eqDecision0 h)

(** val gset_singleton :
    ('a1, 'a1) relDecision -> 'a1 countable -> ('a1, 'a1 gset) singleton **)

let gset_singleton eqDecision0 h =
  mapset_singleton (fun _ -> gmap_empty eqDecision0 h)
    (Obj.magic (fun _ -> gmap_partial_alter eqDecision0 h))

(** val gset_union :
    ('a1, 'a1) relDecision -> 'a1 countable -> 'a1 gset union **)

let gset_union eqDecision0 h =
  mapset_union (Obj.magic (fun _ _ _ -> gmap_merge eqDecision0 h))

(** val gset_elements :
    ('a1, 'a1) relDecision -> 'a1 countable -> ('a1, 'a1 gset) elements **)

let gset_elements eqDecision0 h =
  mapset_elements (Obj.magic (fun _ -> gmap_to_list eqDecision0 h))

(** val gset_elem_of_dec :
    ('a1, 'a1) relDecision -> 'a1 countable -> ('a1, 'a1 gset) relDecision **)

let gset_elem_of_dec eqDecision0 h =
  mapset_elem_of_dec (Obj.magic (fun _ -> gmap_lookup eqDecision0 h))

(** val w : n **)

let w =
  Npos (XO (XO (XO (XO (XO (XO (XO (XO (XO (XO (XO (XO (XO (XO (XO (XO (XO
    (XO (XO (XO (XO (XO (XO (XO (XO (XO (XO (XO (XO (XO (XO (XO (XO (XO (XO
    (XO (XO (XO (XO (XO (XO (XO (XO (XO (XO (XO (XO (XO (XO (XO (XO (XO (XO
    (XO (XO (XO (XO (XO (XO (XO (XO (XO (XO (XO
    XH))))))))))))))))))))))))))))))))))))))))))))))))))))))))))))))))

(** val bS : n **)

let bS =
  Npos (XO (XO (XO (XO (XO (XO (XO (XO (XO (XO (XO (XO XH))))))))))))

type sbyte = n

type ino = { size1 : n; blk : sbyte list }

(** val sum_overflows : n -> n -> bool **)

let sum_overflows n0 m =
  N.ltb (N.modulo (N.add n0 m) w) n0

(** val lenN : 'a1 list -> n **)

let lenN l =
  N.of_nat (length l)

(** val sub0 : sbyte list -> n -> n -> sbyte list **)

let sub0 l off cnt =
  firstn (N.to_nat cnt) (skipn (N.to_nat off) l)

(** val splice : sbyte list -> n -> sbyte list -> sbyte list **)

let splice l off d =
  app (firstn (N.to_nat off) l)
    (app d (skipn (add (N.to_nat off) (length d)) l))

(** val i_read : ino -> n -> n -> sbyte list * bool **)

let i_read ip offset bytesToRead =
  if N.leb ip.size1 offset
  then ([], true)
  else let count =
         if N.ltb (N.sub ip.size1 offset) bytesToRead
         then N.sub ip.size1 offset
         else bytesToRead
       in
       ((sub0 ip.blk offset count),
       (N.leb ip.size1 (N.modulo (N.add offset count) w)))

(** val i_write : ino -> n -> n -> sbyte list -> (n * ino) option **)

let i_write ip offset count data =
  if negb (N.eqb count (lenN data))
  then None
  else if sum_overflows offset count
       then None
       else if N.ltb bS (N.modulo (N.add offset count) w)
            then None
            else if N.ltb ip.size1 offset
                 then None
                 else let b' = splice ip.blk offset data in
                      let sz' =
                        if N.ltb ip.size1 (N.modulo (N.add offset count) w)
                        then N.modulo (N.add offset count) w
                        else ip.size1
                      in
                      Some (count, { size1 = sz'; blk = b' })

(** val i_setsize : ino -> n -> ino option * n **)

let i_setsize ip newsize =
  if N.ltb bS newsize
  then (None, N0)
  else if N.ltb ip.size1 newsize
       then let n0 = N.sub newsize ip.size1 in
            (match i_write ip ip.size1 n0 (repeat N0 (N.to_nat n0)) with
             | Some p ->
               let (_, ip') = p in
               ((if N.eqb ip'.size1 newsize then Some ip' else None), n0)
             | None -> (None, n0))
       else ((Some { size1 = newsize; blk = ip.blk }), N0)

type file = sbyte list

(** val s_read : file -> n -> n -> sbyte list * bool **)

let s_read f offset count =
  if N.leb (lenN f) offset
  then ([], true)
  else ((firstn (N.to_nat (N.min count (N.sub (lenN f) offset)))
          (skipn (N.to_nat offset) f)),
         (N.leb (lenN f) (N.add offset (N.min count (N.sub (lenN f) offset)))))

(** val s_write : file -> n -> sbyte list -> file option **)

let s_write f offset data =
  if (&&) (N.leb offset (lenN f)) (N.leb (N.add offset (lenN data)) bS)
  then Some
         (app (firstn (N.to_nat offset) f)
           (app data (skipn (add (N.to_nat offset) (length data)) f)))
  else None

(** val s_setsize : file -> n -> file option **)

let s_setsize f newsize =
  if N.ltb bS newsize
  then None
  else if N.ltb (lenN f) newsize
       then Some (app f (repeat N0 (N.to_nat (N.sub newsize (lenN f)))))
       else Some (firstn (N.to_nat newsize) f)

(** val nINODE : n **)

let nINODE =
  Npos (XO (XO (XO (XO (XO XH)))))

(** val valid_inum : n -> bool **)

let valid_inum i =
  (&&) ((&&) (negb (N.eqb i N0)) (negb (N.eqb i (Npos XH)))) (N.ltb i nINODE)

type scall =
| SGetattr of n
| SSetattr of n * n option
| SRead of n * n * n
| SWrite of n * n * n * sbyte list

type sreply =
| SErr
| SAttr of bool * n
| SOk
| SData of sbyte list * bool
| SWritten of n

type sstate = (n, file) gmap

(** val s_file : sstate -> n -> file **)

let s_file s i =
  from_option (Obj.magic id) []
    (lookup0 (gmap_lookup n_eq_dec n_countable) i s)

(** val sstep : sstate -> scall -> sstate * sreply **)

let sstep s = function
| SGetattr i ->
  if N.eqb i (Npos XH)
  then (s, (SAttr (true, N0)))
  else if valid_inum i
       then (s, (SAttr (false, (lenN (s_file s i)))))
       else (s, SErr)
| SSetattr (i, newsize) ->
  (match newsize with
   | Some n0 ->
     if valid_inum i
     then (match s_setsize (s_file s i) n0 with
           | Some f' ->
             ((insert0 (map_insert (gmap_partial_alter n_eq_dec n_countable))
                i f' s), SOk)
           | None -> (s, SErr))
     else (s, SErr)
   | None -> if valid_inum i then (s, SOk) else (s, SErr))
| SRead (i, off, cnt) ->
  if valid_inum i
  then let (d, eof) = s_read (s_file s i) off cnt in (s, (SData (d, eof)))
  else (s, SErr)
| SWrite (i, off, cnt, d) ->
  if valid_inum i
  then if negb (N.eqb cnt (lenN d))
       then (s, SErr)
       else (match s_write (s_file s i) off d with
             | Some f' ->
               ((insert0
                  (map_insert (gmap_partial_alter n_eq_dec n_countable)) i f'
                  s), (SWritten cnt))
             | None -> (s, SErr))
  else (s, SErr)

type istate = (n, ino) gmap

(** val zero_ino : ino **)

let zero_ino =
  { size1 = N0; blk = (repeat N0 (N.to_nat bS)) }

(** val i_ino : istate -> n -> ino **)

let i_ino s i =
  from_option (Obj.magic id) zero_ino
    (lookup0 (gmap_lookup n_eq_dec n_countable) i s)

(** val istep : istate -> scall -> istate * sreply **)

let istep s = function
| SGetattr i ->
  if N.eqb i (Npos XH)
  then (s, (SAttr (true, N0)))
  else if valid_inum i
       then (s, (SAttr (false, (i_ino s i).size1)))
       else (s, SErr)
| SSetattr (i, newsize) ->
  (match newsize with
   | Some n0 ->
     if valid_inum i
     then (match fst (i_setsize (i_ino s i) n0) with
           | Some ip' ->
             ((insert0 (map_insert (gmap_partial_alter n_eq_dec n_countable))
                i ip' s), SOk)
           | None -> (s, SErr))
     else (s, SErr)
   | None -> if valid_inum i then (s, SOk) else (s, SErr))
| SRead (i, off, cnt) ->
  if valid_inum i
  then let (d, eof) = i_read (i_ino s i) off cnt in (s, (SData (d, eof)))
  else (s, SErr)
| SWrite (i, off, cnt, d) ->
  if valid_inum i
  then (match i_write (i_ino s i) off cnt d with
        | Some p ->
          let (c', ip') = p in
          ((insert0 (map_insert (gmap_partial_alter n_eq_dec n_countable)) i
             ip' s), (SWritten c'))
        | None -> (s, SErr))
  else (s, SErr)

(** val simple_abs : (n -> sbyte list) -> n -> file **)

let simple_abs rd0 i =
  let ib = rd0 (Npos (XI (XO (XO (XO (XO (XO (XO (XO (XO XH)))))))))) in
  let le8 = fun l ->
    fold_right (fun b acc ->
      N.add b (N.mul (Npos (XO (XO (XO (XO (XO (XO (XO (XO XH))))))))) acc))
      N0 (firstn (S (S (S (S (S (S (S (S O)))))))) l)
  in
  let sz =
    le8
      (skipn
        (N.to_nat (N.mul i (Npos (XO (XO (XO (XO (XO (XO (XO XH)))))))))) ib)
  in
  let db =
    le8
      (skipn
        (N.to_nat
          (N.add (N.mul i (Npos (XO (XO (XO (XO (XO (XO (XO XH))))))))) (Npos
            (XO (XO (XO XH)))))) ib)
  in
  firstn (N.to_nat (N.min sz bS)) (rd0 db)

(** val simple_inum_of_handle : sbyte list -> n **)

let simple_inum_of_handle h =
  if N.ltb (lenN h) (Npos (XO (XO (XO XH))))
  then N0
  else fold_right (fun b acc ->
         N.add b (N.mul (Npos (XO (XO (XO (XO (XO (XO (XO (XO XH))))))))) acc))
         N0 (firstn (S (S (S (S (S (S (S (S O)))))))) h)

(** val simple_empty_s : sstate **)

let simple_empty_s =
  empty0 (gmap_empty n_eq_dec n_countable)

(** val simple_empty_i : istate **)

let simple_empty_i =
  empty0 (gmap_empty n_eq_dec n_countable)

type byte0 = byte

(** val x00 : byte0 **)

let x00 =
  X00

(** val byte_eq_dec0 : (byte0, byte0) relDecision **)

let byte_eq_dec0 =
  byte_eq_dec

(** val byte_countable : byte0 countable **)

let byte_countable =
  inj_countable n_eq_dec n_countable byte_eq_dec0 to_N of_N

type bytes = byte0 list

(** val bytes_eqb : bytes -> bytes -> bool **)

let bytes_eqb a b =
  bool_decide (decide_rel (list_eq_dec0 byte_eq_dec0) a b)

(** val bS0 : n **)

let bS0 =
  Npos (XO (XO (XO (XO (XO (XO (XO (XO (XO (XO (XO (XO XH))))))))))))

(** val zeros : n -> bytes **)

let zeros n0 =
  replicate (N.to_nat n0) x00

(** val zero_block : bytes **)

let zero_block =
  zeros bS0

(** val all_zero : bytes -> bool **)

let all_zero b =
  forallb (fun x -> eqb0 x x00) b

(** val byte_of_N : n -> byte0 **)

let byte_of_N x =
  from_option (Obj.magic id) x00
    (of_N (N.modulo x (Npos (XO (XO (XO (XO (XO (XO (XO (XO XH)))))))))))

(** val le : nat -> n -> bytes **)

let rec le n0 x =
  match n0 with
  | O -> []
  | S n1 ->
    (byte_of_N x) :: (le n1
                       (N.div x (Npos (XO (XO (XO (XO (XO (XO (XO (XO
                         XH)))))))))))

(** val unle : bytes -> n **)

let rec unle = function
| [] -> N0
| b :: r ->
  N.add (to_N b)
    (N.mul (Npos (XO (XO (XO (XO (XO (XO (XO (XO XH))))))))) (unle r))

(** val takeN : n -> 'a1 list -> 'a1 list **)

let takeN n0 l =
  firstn (N.to_nat n0) l

(** val dropN : n -> 'a1 list -> 'a1 list **)

let dropN n0 l =
  skipn (N.to_nat n0) l

(** val lenN0 : 'a1 list -> n **)

let lenN0 l =
  N.of_nat (length l)

(** val get : nat -> bytes -> n -> n **)

let get n0 b off =
  unle (firstn n0 (dropN off b))

(** val get64 : bytes -> n -> n **)

let get64 =
  get (S (S (S (S (S (S (S (S O))))))))

(** val get32 : bytes -> n -> n **)

let get32 =
  get (S (S (S (S O))))

(** val splice0 : bytes -> n -> bytes -> bytes **)

let splice0 l off d =
  app (takeN off l) (app d (skipn (add (N.to_nat off) (length d)) l))

type name = bytes

type handle = bytes

(** val mk_handle : n -> n -> handle **)

let mk_handle i g =
  app (le (S (S (S (S (S (S (S (S O)))))))) i)
    (le (S (S (S (S (S (S (S (S O)))))))) g)

(** val parse_handle : handle -> (n * n) option **)

let parse_handle h =
  if N.eqb (lenN0 h) (Npos (XO (XO (XO (XO XH)))))
  then Some ((unle (firstn (S (S (S (S (S (S (S (S O)))))))) h)),
         (unle (skipn (S (S (S (S (S (S (S (S O)))))))) h)))
  else None

(** val b_dot : byte0 **)

let b_dot =
  X2e

(** val b_slash : byte0 **)

let b_slash =
  X2f

(** val dot : name **)

let dot =
  b_dot :: []

(** val dotdot : name **)

let dotdot =
  b_dot :: (b_dot :: [])

type kstate = (n, bytes) gmap

(** val kput : kstate -> (n * bytes) list -> kstate **)

let kput s pairs =
  fold_left (fun s0 p ->
    insert0 (map_insert (gmap_partial_alter n_eq_dec n_countable)) (fst p)
      (snd p) s0) pairs s

(** val kget : kstate -> n -> bytes **)

let kget s k =
  from_option (Obj.magic id) zero_block
    (lookup0 (gmap_lookup n_eq_dec n_countable) k s)

(** val k_valid : n -> n -> bool **)

let k_valid sz k =
  (&&) (N.leb (Npos (XI (XO (XO (XO (XO (XO (XO (XO (XO XH)))))))))) k)
    (N.ltb k sz)

(** val kput_ok : n -> (n * bytes) list -> bool **)

let kput_ok sz pairs =
  forallb (fun p -> k_valid sz (fst p)) pairs

(** val kvs_empty : kstate **)

let kvs_empty =
  empty0 (gmap_empty n_eq_dec n_countable)

(** val w0 : n **)

let w0 =
  Npos (XO (XO (XO (XO (XO (XO (XO (XO (XO (XO (XO (XO (XO (XO (XO (XO (XO
    (XO (XO (XO (XO (XO (XO (XO (XO (XO (XO (XO (XO (XO (XO (XO (XO (XO (XO
    (XO (XO (XO (XO (XO (XO (XO (XO (XO (XO (XO (XO (XO (XO (XO (XO (XO (XO
    (XO (XO (XO (XO (XO (XO (XO (XO (XO (XO (XO
    XH))))))))))))))))))))))))))))))))))))))))))))))))))))))))))))))))

(** val w64 : n -> n **)

let w64 x =
  N.modulo x w0

type fsSuper = { size2 : n; nLog : n; nBlockBitmap : n; nInodeBitmap : 
                 n; nInodeBlk : n; maxaddr : n }

(** val nBlockBitmap : fsSuper -> n **)

let nBlockBitmap f =
  f.nBlockBitmap

(** val mkFsSuper : n -> fsSuper **)

let mkFsSuper sz =
  let nblockbitmap =
    w64
      (N.add
        (N.div sz (Npos (XO (XO (XO (XO (XO (XO (XO (XO (XO (XO (XO (XO (XO
          (XO (XO XH))))))))))))))))) (Npos XH))
  in
  { size2 = sz; nLog = (Npos (XI (XO (XO (XO (XO (XO (XO (XO (XO
  XH)))))))))); nBlockBitmap = nblockbitmap; nInodeBitmap = (Npos XH);
  nInodeBlk = (Npos (XO (XO (XO (XO (XO (XO (XO (XO (XO (XO XH)))))))))));
  maxaddr = sz }

(** val maxBnum : fsSuper -> n **)

let maxBnum fs =
  fs.maxaddr

(** val bitmapBlockStart : fsSuper -> n **)

let bitmapBlockStart fs =
  fs.nLog

(** val bitmapInodeStart : fsSuper -> n **)

let bitmapInodeStart fs =
  w64 (N.add (bitmapBlockStart fs) fs.nBlockBitmap)

(** val inodeStart : fsSuper -> n **)

let inodeStart fs =
  w64 (N.add (bitmapInodeStart fs) fs.nInodeBitmap)

(** val dataStart : fsSuper -> n **)

let dataStart fs =
  w64 (N.add (inodeStart fs) fs.nInodeBlk)

(** val nInode : fsSuper -> n **)

let nInode fs =
  w64 (N.mul fs.nInodeBlk (Npos (XO (XO (XO (XO (XO XH)))))))

(** val inum2Addr : fsSuper -> n -> n * n **)

let inum2Addr fs inum0 =
  ((w64
     (N.add (inodeStart fs) (N.div inum0 (Npos (XO (XO (XO (XO (XO XH))))))))),
    (w64
      (N.mul
        (w64
          (N.mul (N.modulo inum0 (Npos (XO (XO (XO (XO (XO XH))))))) (Npos
            (XO (XO (XO (XO (XO (XO (XO XH)))))))))) (Npos (XO (XO (XO XH)))))))

(** val nBITBLOCK : n **)

let nBITBLOCK =
  Npos (XO (XO (XO (XO (XO (XO (XO (XO (XO (XO (XO (XO (XO (XO (XO
    XH)))))))))))))))

(** val lOGSIZE : n **)

let lOGSIZE =
  Npos (XI (XO (XO (XO (XO (XO (XO (XO (XO XH)))))))))

(** val markAlloc_sane : fsSuper -> bool **)

let markAlloc_sane fs =
  negb
    ((||)
      ((||) (N.leb nBITBLOCK (dataStart fs))
        (N.leb (w64 (N.mul nBITBLOCK fs.nBlockBitmap)) (maxBnum fs)))
      (N.ltb (maxBnum fs) (dataStart fs)))

(** val mk_bit : fsSuper -> n -> bool **)

let mk_bit fs b =
  let n0 = dataStart fs in
  let m = maxBnum fs in
  let last = N.div m nBITBLOCK in
  let blk0 = N.div b nBITBLOCK in
  let off = N.modulo b nBITBLOCK in
  if N.eqb last N0
  then (&&) (N.eqb blk0 N0)
         ((||) (N.ltb off n0) (N.leb (N.modulo m nBITBLOCK) off))
  else (||) ((&&) (N.eqb blk0 N0) (N.ltb off n0))
         ((&&) (N.eqb blk0 last) (N.leb (N.modulo m nBITBLOCK) off))

(** val mk_ibit : n -> bool **)

let mk_ibit i =
  N.ltb i (Npos (XO XH))

(** val fresh_free_blocks : fsSuper -> n **)

let fresh_free_blocks fs =
  N.sub (maxBnum fs) (dataStart fs)

(** val fresh_free_inodes : fsSuper -> n **)

let fresh_free_inodes fs =
  N.sub (nInode fs) (Npos (XO XH))

(** val layout_ok_b : n -> bool **)

let layout_ok_b sz =
  let fs = mkFsSuper sz in
  (||) (negb (markAlloc_sane fs))
    ((&&)
      ((&&)
        ((&&)
          ((&&)
            ((&&)
              ((&&)
                ((&&) (N.eqb (bitmapBlockStart fs) lOGSIZE)
                  (N.eqb (bitmapInodeStart fs)
                    (N.add (bitmapBlockStart fs) fs.nBlockBitmap)))
                (N.eqb (inodeStart fs)
                  (N.add (bitmapInodeStart fs) (Npos XH))))
              (N.eqb (dataStart fs)
                (N.add (inodeStart fs) (Npos (XO (XO (XO (XO (XO (XO (XO (XO
                  (XO (XO XH)))))))))))))) (N.leb (dataStart fs) sz))
          (N.eqb (nInode fs) (Npos (XO (XO (XO (XO (XO (XO (XO (XO (XO (XO
            (XO (XO (XO (XO (XO XH))))))))))))))))))
        (N.ltb sz (N.mul fs.nBlockBitmap nBITBLOCK)))
      (N.leb (N.mul (N.sub fs.nBlockBitmap (Npos XH)) nBITBLOCK) sz))

(** val bitmap_ok_b : n -> n -> bool **)

let bitmap_ok_b sz b =
  let fs = mkFsSuper sz in
  (||)
    ((||) (negb (markAlloc_sane fs))
      (negb (N.ltb b (N.mul fs.nBlockBitmap nBITBLOCK))))
    (eqb (mk_bit fs b) ((||) (N.ltb b (dataStart fs)) (N.leb sz b)))

type inum = n

(** val rOOT : inum **)

let rOOT =
  Npos XH

type params = { p_name_max : n; p_maxfilesize : n; p_wtmax : n; p_ninode : n }

type kind =
| KFile
| KDir
| KLnk

(** val kind_eq_dec : (kind, kind) relDecision **)

let kind_eq_dec x y =
  match x with
  | KFile -> (match y with
              | KFile -> true
              | _ -> false)
  | KDir -> (match y with
             | KDir -> true
             | _ -> false)
  | KLnk -> (match y with
             | KLnk -> true
             | _ -> false)

type obj = { o_kind : kind; o_gen : n; o_size : n; o_data : (n, bytes) gmap;
             o_ents : (name, inum) gmap; o_parent : inum;
             o_atime : (n * n) option; o_mtime : (n * n) option }

type afs = { objs : (inum, obj) gmap; issued : (n * n) gset;
             unstable_opt : bool }

(** val objs : afs -> (inum, obj) gmap **)

let objs a =
  a.objs

(** val set_obj : afs -> inum -> obj -> afs **)

let set_obj s i o =
  { objs =
    (insert0 (map_insert (gmap_partial_alter n_eq_dec n_countable)) i o
      s.objs); issued = s.issued; unstable_opt = s.unstable_opt }

(** val del_obj : afs -> inum -> afs **)

let del_obj s i =
  { objs =
    (delete0 (map_delete (gmap_partial_alter n_eq_dec n_countable)) i s.objs);
    issued = s.issued; unstable_opt = s.unstable_opt }

(** val with_ents : obj -> (name, inum) gmap -> obj **)

let with_ents d e =
  { o_kind = d.o_kind; o_gen = d.o_gen; o_size = d.o_size; o_data = d.o_data;
    o_ents = e; o_parent = d.o_parent; o_atime = d.o_atime; o_mtime =
    d.o_mtime }

(** val with_parent : obj -> inum -> obj **)

let with_parent d p =
  { o_kind = d.o_kind; o_gen = d.o_gen; o_size = d.o_size; o_data = d.o_data;
    o_ents = d.o_ents; o_parent = p; o_atime = d.o_atime; o_mtime =
    d.o_mtime }

(** val with_content : obj -> n -> (n, bytes) gmap -> obj **)

let with_content o sz m =
  { o_kind = o.o_kind; o_gen = o.o_gen; o_size = sz; o_data = m; o_ents =
    o.o_ents; o_parent = o.o_parent; o_atime = o.o_atime; o_mtime =
    o.o_mtime }

(** val with_times : obj -> (n * n) option -> (n * n) option -> obj **)

let with_times o a m =
  { o_kind = o.o_kind; o_gen = o.o_gen; o_size = o.o_size; o_data = o.o_data;
    o_ents = o.o_ents; o_parent = o.o_parent; o_atime = a; o_mtime = m }

(** val chunk_of : (n, bytes) gmap -> n -> bytes **)

let chunk_of m i =
  from_option (Obj.magic id) zero_block
    (lookup0 (gmap_lookup n_eq_dec n_countable) i m)

(** val read_chunks : (n, bytes) gmap -> nat -> n -> n -> n -> bytes **)

let rec read_chunks m fuel ci skip cnt =
  match fuel with
  | O -> []
  | S f ->
    if N.eqb cnt N0
    then []
    else let take_n = N.min cnt (N.sub bS0 skip) in
         app (takeN take_n (dropN skip (chunk_of m ci)))
           (read_chunks m f (N.add ci (Npos XH)) N0 (N.sub cnt take_n))

(** val read_bytes : (n, bytes) gmap -> n -> n -> bytes **)

let read_bytes m off cnt =
  read_chunks m (add (N.to_nat (N.div cnt bS0)) (S (S O))) (N.div off bS0)
    (N.modulo off bS0) cnt

(** val write_chunks :
    (n, bytes) gmap -> nat -> n -> n -> bytes -> (n, bytes) gmap **)

let rec write_chunks m fuel ci skip d =
  match fuel with
  | O -> m
  | S f ->
    (match d with
     | [] -> m
     | _ :: _ ->
       let room = N.sub bS0 skip in
       write_chunks
         (insert0 (map_insert (gmap_partial_alter n_eq_dec n_countable)) ci
           (splice0 (chunk_of m ci) skip (takeN room d)) m) f
         (N.add ci (Npos XH)) N0 (dropN room d))

(** val write_bytes : (n, bytes) gmap -> n -> bytes -> (n, bytes) gmap **)

let write_bytes m off d =
  write_chunks m
    (add
      (Nat.div (length d) (S (S (S (S (S (S (S (S (S (S (S (S (S (S (S (S (S
        (S (S (S (S (S (S (S (S (S (S (S (S (S (S (S (S (S (S (S (S (S (S (S
        (S (S (S (S (S (S (S (S (S (S (S (S (S (S (S (S (S (S (S (S (S (S (S
        (S (S (S (S (S (S (S (S (S (S (S (S (S (S (S (S (S (S (S (S (S (S (S
        (S (S (S (S (S (S (S (S (S (S (S (S (S (S (S (S (S (S (S (S (S (S (S
        (S (S (S (S (S (S (S (S (S (S (S (S (S (S (S (S (S (S (S (S (S (S (S
        (S (S (S (S (S (S (S (S (S (S (S (S (S (S (S (S (S (S (S (S (S (S (S
        (S (S (S (S (S (S (S (S (S (S (S (S (S (S (S (S (S (S (S (S (S (S (S
        (S (S (S (S (S (S (S (S (S (S (S (S (S (S (S (S (S (S (S (S (S (S (S
        (S (S (S (S (S (S (S (S (S (S (S (S (S (S (S (S (S (S (S (S (S (S (S
        (S (S (S (S (S (S (S (S (S (S (S (S (S (S (S (S (S (S (S (S (S (S (S
        (S (S (S (S (S (S (S (S (S (S (S (S (S (S (S (S (S (S (S (S (S (S (S
        (S (S (S (S (S (S (S (S (S (S (S (S (S (S (S (S (S (S (S (S (S (S (S
        (S (S (S (S (S (S (S (S (S (S (S (S (S (S (S (S (S (S (S (S (S (S (S
        (S (S (S (S (S (S (S (S (S (S (S (S (S (S (S (S (S (S (S (S (S (S (S
        (S (S (S (S (S (S (S (S (S (S (S (S (S (S (S (S (S (S (S (S (S (S (S
        (S (S (S (S (S (S (S (S (S (S (S (S (S (S (S (S (S (S (S (S (S (S (S
        (S (S (S (S (S (S (S (S (S (S (S (S (S (S (S (S (S (S (S (S (S (S (S
        (S (S (S (S (S (S (S (S (S (S (S (S (S (S (S (S (S (S (S (S (S (S (S
        (S (S (S (S (S (S (S (S (S (S (S (S (S (S (S (S (S (S (S (S (S (S (S
        (S (S (S (S (S (S (S (S (S (S (S (S (S (S (S (S (S (S (S (S (S (S (S
        (S (S (S (S (S (S (S (S (S (S (S (S (S (S (S (S (S (S (S (S (S (S (S
        (S (S (S (S (S (S (S (S (S (S (S (S (S (S (S (S (S (S (S (S (S (S (S
        (S (S (S (S (S (S (S (S (S (S (S (S (S (S (S (S (S (S (S (S (S (S (S
        (S (S (S (S (S (S (S (S (S (S (S (S (S (S (S (S (S (S (S (S (S (S (S
        (S (S (S (S (S (S (S (S (S (S (S (S (S (S (S (S (S (S (S (S (S (S (S
        (S (S (S (S (S (S (S (S (S (S (S (S (S (S (S (S (S (S (S (S (S (S (S
        (S (S (S (S (S (S (S (S (S (S (S (S (S (S (S (S (S (S (S (S (S (S (S
        (S (S (S (S (S (S (S (S (S (S (S (S (S (S (S (S (S (S (S (S (S (S (S
        (S (S (S (S (S (S (S (S (S (S (S (S (S (S (S (S (S (S (S (S (S (S (S
        (S (S (S (S (S (S (S (S (S (S (S (S (S (S (S (S (S (S (S (S (S (S (S
        (S (S (S (S (S (S (S (S (S (S (S (S (S (S (S (S (S (S (S (S (S (S (S
        (S (S (S (S (S (S (S (S (S (S (S (S (S (S (S (S (S (S (S (S (S (S (S
        (S (S (S (S (S (S (S (S (S (S (S (S (S (S (S (S (S (S (S (S (S (S (S
        (S (S (S (S (S (S (S (S (S (S (S (S (S (S (S (S (S (S (S (S (S (S (S
        (S (S (S (S (S (S (S (S (S (S (S (S (S (S (S (S (S (S (S (S (S (S (S
        (S (S (S (S (S (S (S (S (S (S (S (S (S (S (S (S (S (S (S (S (S (S (S
        (S (S (S (S (S (S (S (S (S (S (S (S (S (S (S (S (S (S (S (S (S (S (S
        (S (S (S (S (S (S (S (S (S (S (S (S (S (S (S (S (S (S (S (S (S (S (S
        (S (S (S (S (S (S (S (S (S (S (S (S (S (S (S (S (S (S (S (S (S (S (S
        (S (S (S (S (S (S (S (S (S (S (S (S (S (S (S (S (S (S (S (S (S (S (S
        (S (S (S (S (S (S (S (S (S (S (S (S (S (S (S (S (S (S (S (S (S (S (S
        (S (S (S (S (S (S (S (S (S (S (S (S (S (S (S (S (S (S (S (S (S (S (S
        (S (S (S (S (S (S (S (S (S (S (S (S (S (S (S (S (S (S (S (S (S (S (S
        (S (S (S (S (S (S (S (S (S (S (S (S (S (S (S (S (S (S (S (S (S (S (S
        (S (S (S (S (S (S (S (S (S (S (S (S (S (S (S (S (S (S (S (S (S (S (S
        (S (S (S (S (S (S (S (S (S (S (S (S (S (S (S (S (S (S (S (S (S (S (S
        (S (S (S (S (S (S (S (S (S (S (S (S (S (S (S (S (S (S (S (S (S (S (S
        (S (S (S (S (S (S (S (S (S (S (S (S (S (S (S (S (S (S (S (S (S (S (S
        (S (S (S (S (S (S (S (S (S (S (S (S (S (S (S (S (S (S (S (S (S (S (S
        (S (S (S (S (S (S (S (S (S (S (S (S (S (S (S (S (S (S (S (S (S (S (S
        (S (S (S (S (S (S (S (S (S (S (S (S (S (S (S (S (S (S (S (S (S (S (S
        (S (S (S (S (S (S (S (S (S (S (S (S (S (S (S (S (S (S (S (S (S (S (S
        (S (S (S (S (S (S (S (S (S (S (S (S (S (S (S (S (S (S (S (S (S (S (S
        (S (S (S (S (S (S (S (S (S (S (S (S (S (S (S (S (S (S (S (S (S (S (S
        (S (S (S (S (S (S (S (S (S (S (S (S (S (S (S (S (S (S (S (S (S (S (S
        (S (S (S (S (S (S (S (S (S (S (S (S (S (S (S (S (S (S (S (S (S (S (S
        (S (S (S (S (S (S (S (S (S (S (S (S (S (S (S (S (S (S (S (S (S (S (S
        (S (S (S (S (S (S (S (S (S (S (S (S (S (S (S (S (S (S (S (S (S (S (S
        (S (S (S (S (S (S (S (S (S (S (S (S (S (S (S (S (S (S (S (S (S (S (S
        (S (S (S (S (S (S (S (S (S (S (S (S (S (S (S (S (S (S (S (S (S (S (S
        (S (S (S (S (S (S (S (S (S (S (S (S (S (S (S (S (S (S (S (S (S (S (S
        (S (S (S (S (S (S (S (S (S (S (S (S (S (S (S (S (S (S (S (S (S (S (S
        (S (S (S (S (S (S (S (S (S (S (S (S (S (S (S (S (S (S (S (S (S (S (S
        (S (S (S (S (S (S (S (S (S (S (S (S (S (S (S (S (S (S (S (S (S (S (S
        (S (S (S (S (S (S (S (S (S (S (S (S (S (S (S (S (S (S (S (S (S (S (S
        (S (S (S (S (S (S (S (S (S (S (S (S (S (S (S (S (S (S (S (S (S (S (S
        (S (S (S (S (S (S (S (S (S (S (S (S (S (S (S (S (S (S (S (S (S (S (S
        (S (S (S (S (S (S (S (S (S (S (S (S (S (S (S (S (S (S (S (S (S (S (S
        (S (S (S (S (S (S (S (S (S (S (S (S (S (S (S (S (S (S (S (S (S (S (S
        (S (S (S (S (S (S (S (S (S (S (S (S (S (S (S (S (S (S (S (S (S (S (S
        (S (S (S (S (S (S (S (S (S (S (S (S (S (S (S (S (S (S (S (S (S (S (S
        (S (S (S (S (S (S (S (S (S (S (S (S (S (S (S (S (S (S (S (S (S (S (S
        (S (S (S (S (S (S (S (S (S (S (S (S (S (S (S (S (S (S (S (S (S (S (S
        (S (S (S (S (S (S (S (S (S (S (S (S (S (S (S (S (S (S (S (S (S (S (S
        (S (S (S (S (S (S (S (S (S (S (S (S (S (S (S (S (S (S (S (S (S (S (S
        (S (S (S (S (S (S (S (S (S (S (S (S (S (S (S (S (S (S (S (S (S (S (S
        (S (S (S (S (S (S (S (S (S (S (S (S (S (S (S (S (S (S (S (S (S (S (S
        (S (S (S (S (S (S (S (S (S (S (S (S (S (S (S (S (S (S (S (S (S (S (S
        (S (S (S (S (S (S (S (S (S (S (S (S (S (S (S (S (S (S (S (S (S (S (S
        (S (S (S (S (S (S (S (S (S (S (S (S (S (S (S (S (S (S (S (S (S (S (S
        (S (S (S (S (S (S (S (S (S (S (S (S (S (S (S (S (S (S (S (S (S (S (S
        (S (S (S (S (S (S (S (S (S (S (S (S (S (S (S (S (S (S (S (S (S (S (S
        (S (S (S (S (S (S (S (S (S (S (S (S (S (S (S (S (S (S (S (S (S (S (S
        (S (S (S (S (S (S (S (S (S (S (S (S (S (S (S (S (S (S (S (S (S (S (S
        (S (S (S (S (S (S (S (S (S (S (S (S (S (S (S (S (S (S (S (S (S (S (S
        (S (S (S (S (S (S (S (S (S (S (S (S (S (S (S (S (S (S (S (S (S (S (S
        (S (S (S (S (S (S (S (S (S (S (S (S (S (S (S (S (S (S (S (S (S (S (S
        (S (S (S (S (S (S (S (S (S (S (S (S (S (S (S (S (S (S (S (S (S (S (S
        (S (S (S (S (S (S (S (S (S (S (S (S (S (S (S (S (S (S (S (S (S (S (S
        (S (S (S (S (S (S (S (S (S (S (S (S (S (S (S (S (S (S (S (S (S (S (S
        (S (S (S (S (S (S (S (S (S (S (S (S (S (S (S (S (S (S (S (S (S (S (S
        (S (S (S (S (S (S (S (S (S (S (S (S (S (S (S (S (S (S (S (S (S (S (S
        (S (S (S (S (S (S (S (S (S (S (S (S (S (S (S (S (S (S (S (S (S (S (S
        (S (S (S (S (S (S (S (S (S (S (S (S (S (S (S (S (S (S (S (S (S (S (S
        (S (S (S (S (S (S (S (S (S (S (S (S (S (S (S (S (S (S (S (S (S (S (S
        (S (S (S (S (S (S (S (S (S (S (S (S (S (S (S (S (S (S (S (S (S (S (S
        (S (S (S (S (S (S (S (S (S (S (S (S (S (S (S (S (S (S (S (S (S (S (S
        (S (S (S (S (S (S (S (S (S (S (S (S (S (S (S (S (S (S (S (S (S (S (S
        (S (S (S (S (S (S (S (S (S (S (S (S (S (S (S (S (S (S (S (S (S (S (S
        (S (S (S (S (S (S (S (S (S (S (S (S (S (S (S (S (S (S (S (S (S (S (S
        (S (S (S (S (S (S (S (S (S (S (S (S (S (S (S (S (S (S (S (S (S (S (S
        (S (S (S (S (S (S (S (S (S (S (S (S (S (S (S (S (S (S (S (S (S (S (S
        (S (S (S (S (S (S (S (S (S (S (S (S (S (S (S (S (S (S (S (S (S (S (S
        (S (S (S (S (S (S (S (S (S (S (S (S (S (S (S (S (S (S (S (S (S (S (S
        (S (S (S (S (S (S (S (S (S (S (S (S (S (S (S (S (S (S (S (S (S (S (S
        (S (S (S (S (S (S (S (S (S (S (S (S (S (S (S (S (S (S (S (S (S (S (S
        (S (S (S (S (S (S (S (S (S (S (S (S (S (S (S (S (S (S (S (S (S (S (S
        (S (S (S (S (S (S (S (S (S (S (S (S (S (S (S (S (S (S (S (S (S (S (S
        (S (S (S (S (S (S (S (S (S (S (S (S (S (S (S (S (S (S (S (S (S (S (S
        (S (S (S (S (S (S (S (S (S (S (S (S (S (S (S (S (S (S (S (S (S (S (S
        (S (S (S (S (S (S (S (S (S (S (S (S (S (S (S (S (S (S (S (S (S (S (S
        (S (S (S (S (S (S (S (S (S (S (S (S (S (S (S (S (S (S (S (S (S (S (S
        (S (S (S (S (S (S (S (S (S (S (S (S (S (S (S (S (S (S (S (S (S (S (S
        (S (S (S (S (S (S (S (S (S (S (S (S (S (S (S (S (S (S (S (S (S (S (S
        (S (S (S (S (S (S (S (S (S (S (S (S (S (S (S (S (S (S (S (S (S (S (S
        (S (S (S (S (S (S (S (S (S (S (S (S (S (S (S (S (S (S (S (S (S (S (S
        (S (S (S (S (S (S (S (S (S (S (S (S (S (S (S (S (S (S (S (S (S (S (S
        (S (S (S (S (S (S (S (S (S (S (S (S (S (S (S (S (S (S (S (S (S (S (S
        (S (S (S (S (S (S (S (S (S (S (S (S (S (S (S (S (S (S (S (S (S (S (S
        (S (S (S (S (S (S (S (S (S (S (S (S (S (S (S (S (S (S (S (S (S (S (S
        (S (S (S (S (S (S (S (S (S (S (S (S (S (S (S (S (S (S (S (S (S (S (S
        (S (S (S (S (S (S (S (S (S (S (S (S (S (S (S (S (S (S (S (S (S (S (S
        (S (S (S (S (S (S (S (S (S (S (S (S (S (S (S (S (S (S (S (S (S (S (S
        (S (S (S (S (S (S (S (S (S (S (S (S (S (S (S (S (S (S (S (S (S (S (S
        (S (S (S (S (S (S (S (S (S (S (S (S (S (S (S (S (S (S (S (S (S (S (S
        (S (S (S (S (S (S (S (S (S (S (S (S (S (S (S (S (S (S (S (S (S (S (S
        (S (S (S (S (S (S (S (S (S (S (S (S (S (S (S (S (S (S (S (S (S (S (S
        (S (S (S (S (S (S (S (S (S (S (S (S (S (S (S (S (S (S (S (S (S (S (S
        (S (S (S (S (S (S (S (S (S (S (S (S (S (S (S (S (S (S (S (S (S (S (S
        (S (S (S (S (S (S (S (S (S (S (S (S (S (S (S (S (S (S (S (S (S (S (S
        (S (S (S (S (S (S (S (S (S (S (S (S (S (S (S (S (S (S (S (S (S (S (S
        (S (S (S (S (S (S (S (S (S (S (S (S (S (S (S (S (S (S (S (S (S (S (S
        (S (S (S (S (S (S (S (S (S (S (S (S (S (S (S (S (S (S (S (S (S (S (S
        (S (S (S (S (S (S (S (S (S (S (S (S (S (S (S (S (S (S (S (S (S (S (S
        (S (S (S (S (S (S (S (S (S (S (S (S (S (S (S (S (S (S (S (S (S (S (S
        (S (S (S (S (S (S (S (S (S (S (S (S (S (S (S (S (S (S (S (S (S (S (S
        (S (S (S (S (S (S (S (S (S (S (S (S (S (S (S (S (S (S (S (S (S (S (S
        (S (S (S (S (S (S (S (S (S (S (S (S (S (S (S (S (S (S (S (S (S (S (S
        (S (S (S (S (S (S (S (S (S (S (S (S (S (S (S (S (S (S (S (S (S (S (S
        (S (S (S (S (S (S (S (S (S (S (S (S (S (S (S (S (S (S (S (S (S (S (S
        (S (S (S (S (S (S (S (S (S (S (S (S (S (S (S (S (S (S (S (S (S (S (S
        (S (S (S (S (S (S (S (S (S (S (S (S (S (S (S (S (S (S (S (S (S (S (S
        (S (S (S (S (S (S (S (S (S (S (S (S (S (S (S (S (S (S (S (S (S (S (S
        (S (S (S (S (S (S (S (S (S (S (S (S (S (S (S (S (S (S (S (S (S (S (S
        (S (S (S (S (S (S (S (S (S (S (S (S (S (S (S (S (S (S (S (S (S (S (S
        (S (S (S (S (S (S (S (S (S (S (S (S (S (S (S (S (S (S (S (S (S (S (S
        (S (S (S (S (S (S (S (S (S (S (S (S (S (S (S (S (S (S (S (S (S (S (S
        (S (S (S (S (S (S (S (S (S (S (S (S (S (S (S (S (S (S (S (S (S (S (S
        (S (S (S (S (S (S (S (S (S (S (S (S (S (S (S (S (S (S (S (S (S (S (S
        (S (S (S (S (S (S (S (S (S (S (S (S (S (S (S (S (S (S (S (S (S (S (S
        (S (S (S (S (S (S (S (S (S (S (S (S (S (S (S (S (S (S (S (S (S (S (S
        (S (S (S (S (S (S (S (S (S (S (S (S (S (S (S (S (S (S (S (S (S (S (S
        (S (S (S (S (S (S (S (S (S (S (S (S (S (S (S (S (S (S (S (S (S (S (S
        (S (S (S (S (S (S (S (S (S (S (S (S (S (S (S (S (S (S (S (S (S (S (S
        (S (S (S (S (S (S (S (S (S (S (S (S (S (S (S (S (S (S (S (S (S (S (S
        (S (S (S (S (S (S (S (S (S (S (S (S (S (S (S (S (S (S (S (S (S (S (S
        (S (S (S (S (S (S (S (S (S (S (S (S (S (S (S (S (S (S (S (S (S (S (S
        (S (S (S (S (S (S (S (S (S (S (S (S (S (S (S (S (S (S (S (S (S (S (S
        (S (S (S (S (S (S (S (S (S (S (S (S (S (S (S (S (S (S (S (S (S (S (S
        (S (S (S (S (S (S (S (S (S (S (S (S (S (S (S (S (S (S (S (S (S (S (S
        (S (S (S (S (S (S (S (S (S (S (S (S (S (S (S (S (S (S (S (S (S (S (S
        (S (S (S (S (S (S (S (S (S (S (S (S (S (S (S (S (S (S (S (S (S (S (S
        (S (S (S (S (S (S (S (S (S (S (S (S (S (S (S (S (S (S (S (S (S (S (S
        (S (S (S (S (S (S (S (S (S (S (S (S (S (S (S (S (S (S (S (S (S (S (S
        (S (S (S (S (S (S (S (S (S (S (S (S (S (S (S (S (S (S (S (S (S (S (S
        (S (S (S (S (S (S (S (S (S (S (S (S (S (S (S (S (S (S (S (S (S (S (S
        (S (S (S (S (S (S (S (S (S (S (S (S (S (S (S (S (S (S (S (S (S (S (S
        (S (S (S (S (S (S (S (S (S (S (S (S (S (S (S (S (S (S (S (S (S (S (S
        (S (S (S (S (S (S (S (S (S (S (S (S (S (S (S (S (S (S (S (S (S (S (S
        (S (S (S (S (S (S (S (S (S (S (S (S (S (S (S (S (S (S (S (S (S (S (S
        (S (S (S (S (S (S (S (S (S (S (S (S (S (S (S (S (S (S (S (S (S (S (S
        (S (S (S (S (S (S (S (S (S (S (S (S (S (S (S (S (S (S (S (S (S (S (S
        (S (S (S (S (S (S (S (S (S (S (S (S (S (S (S (S (S (S (S (S (S (S (S
        (S (S (S (S (S (S (S (S (S (S (S (S (S (S (S (S (S (S (S (S (S (S (S
        (S (S (S (S (S (S (S (S (S (S (S (S (S (S (S (S (S (S (S (S (S (S (S
        (S (S (S (S (S (S (S (S (S (S (S (S (S (S (S (S (S (S (S (S (S (S (S
        (S (S (S (S (S (S (S (S (S (S (S (S (S (S (S (S (S (S (S (S (S (S (S
        (S (S (S (S (S (S (S (S
        O)))))))))))))))))))))))))))))))))))))))))))))))))))))))))))))))))))))))))))))))))))))))))))))))))))))))))))))))))))))))))))))))))))))))))))))))))))))))))))))))))))))))))))))))))))))))))))))))))))))))))))))))))))))))))))))))))))))))))))))))))))))))))))))))))))))))))))))))))))))))))))))))))))))))))))))))))))))))))))))))))))))))))))))))))))))))))))))))))))))))))))))))))))))))))))))))))))))))))))))))))))))))))))))))))))))))))))))))))))))))))))))))))))))))))))))))))))))))))))))))))))))))))))))))))))))))))))))))))))))))))))))))))))))))))))))))))))))))))))))))))))))))))))))))))))))))))))))))))))))))))))))))))))))))))))))))))))))))))))))))))))))))))))))))))))))))))))))))))))))))))))))))))))))))))))))))))))))))))))))))))))))))))))))))))))))))))))))))))))))))))))))))))))))))))))))))))))))))))))))))))))))))))))))))))))))))))))))))))))))))))))))))))))))))))))))))))))))))))))))))))))))))))))))))))))))))))))))))))))))))))))))))))))))))))))))))))))))))))))))))))))))))))))))))))))))))))))))))))))))))))))))))))))))))))))))))))))))))))))))))))))))))))))))))))))))))))))))))))))))))))))))))))))))))))))))))))))))))))))))))))))))))))))))))))))))))))))))))))))))))))))))))))))))))))))))))))))))))))))))))))))))))))))))))))))))))))))))))))))))))))))))))))))))))))))))))))))))))))))))))))))))))))))))))))))))))))))))))))))))))))))))))))))))))))))))))))))))))))))))))))))))))))))))))))))))))))))))))))))))))))))))))))))))))))))))))))))))))))))))))))))))))))))))))))))))))))))))))))))))))))))))))))))))))))))))))))))))))))))))))))))))))))))))))))))))))))))))))))))))))))))))))))))))))))))))))))))))))))))))))))))))))))))))))))))))))))))))))))))))))))))))))))))))))))))))))))))))))))))))))))))))))))))))))))))))))))))))))))))))))))))))))))))))))))))))))))))))))))))))))))))))))))))))))))))))))))))))))))))))))))))))))))))))))))))))))))))))))))))))))))))))))))))))))))))))))))))))))))))))))))))))))))))))))))))))))))))))))))))))))))))))))))))))))))))))))))))))))))))))))))))))))))))))))))))))))))))))))))))))))))))))))))))))))))))))))))))))))))))))))))))))))))))))))))))))))))))))))))))))))))))))))))))))))))))))))))))))))))))))))))))))))))))))))))))))))))))))))))))))))))))))))))))))))))))))))))))))))))))))))))))))))))))))))))))))))))))))))))))))))))))))))))))))))))))))))))))))))))))))))))))))))))))))))))))))))))))))))))))))))))))))))))))))))))))))))))))))))))))))))))))))))))))))))))))))))))))))))))))))))))))))))))))))))))))))))))))))))))))))))))))))))))))))))))))))))))))))))))))))))))))))))))))))))))))))))))))))))))))))))))))))))))))))))))))))))))))))))))))))))))))))))))))))))))))))))))))))))))))))))))))))))))))))))))))))))))))))))))))))))))))))))))))))))))))))))))))))))))))))))))))))))))))))))))))))))))))))))))))))))))))))))))))))))))))))))))))))))))))))))))))))))))))))))))))))))))))))))))))))))))))))))))))))))))))))))))))))))))))))))))))))))))))))))))))))))))))))))))))))))))))))))))))))))))))))))))))))))))))))))))))))))))))))))))))))))))))))))))))))))))))))))))))))))))))))))))))))))))))))))))))))))))))))))))))))))))))))))))))))))))))))))))))))))))))))))))))))))))))))))))))))))))))))))))))))))))))))))))))))))))))))))))))))))))))))))))))))))))))))))))))))))))))))))))))))))))))))))))))))))))))))))))))))))))))))))))))))))))))))))))))))))))))))))))))))))))))))))))))))))))))))))))))))))))))))))))))))))))))))))))))))))))))))))))))))))))))))))))))))))))))))))))))))))))))))))))))))))))))))))))))))))))))))))))))))))))))))))))))))))))))))))))))))))))))))))))))))))))))))))))))))))))))))))))))))))))))))))))))))))))))))))))))))))))))))))))))))))))))))))))))))))))))))))))))))))))))))))))))))))))))))))))))))))))))))))))))))))))))))))))))))))))))))))))))))))))))))))))))))))))))))))))))))))))))))))))))))))))))))))))))))))))))))))))))))))))))))))))))))))))))))))))))))))))))))))))))))))))))))))))))))))))))))))))))))))))))))))))))))))))))))))))))))))))))))))))))))))))))))))))))))))))))))))))))))))))))))))))))))))))))))))))))))))))))))))))))))))))))))))))))))))))))))))))))))))))))))))))))))))))))))))))))))))))))))))))))))))))))))))))))))))))))))))))))))))))))))))))))))))))))))))))))))))))
      (S (S O))) (N.div off bS0) (N.modulo off bS0) d

(** val trunc_data : (n, bytes) gmap -> n -> (n, bytes) gmap **)

let trunc_data m sz =
  let last = N.div sz bS0 in
  if N.eqb (N.modulo sz bS0) N0
  then filter1 (fun _ ->
         map_filter (gmap_to_list n_eq_dec n_countable)
           (map_insert (gmap_partial_alter n_eq_dec n_countable))
           (gmap_empty n_eq_dec n_countable)) (fun x ->
         is_true_dec (N.ltb (fst x) last)) m
  else let m1 =
         filter1 (fun _ ->
           map_filter (gmap_to_list n_eq_dec n_countable)
             (map_insert (gmap_partial_alter n_eq_dec n_countable))
             (gmap_empty n_eq_dec n_countable)) (fun x ->
           is_true_dec (N.ltb (fst x) (N.add last (Npos XH)))) m
       in
       (match lookup0 (gmap_lookup n_eq_dec n_countable) last m1 with
        | Some c ->
          insert0 (map_insert (gmap_partial_alter n_eq_dec n_countable)) last
            (app (takeN (N.modulo sz bS0) c)
              (zeros (N.sub bS0 (N.modulo sz bS0)))) m1
        | None -> m1)

type settime =
| DontChange
| ServerTime
| ClientTime of (n * n)

type stable =
| Unstable
| DataSync
| FileSync

type call =
| CGetattr of handle
| CSetattr of handle * n option * settime * settime
| CLookup of handle * name
| CAccess of handle
| CReadlink of handle
| CRead of handle * n * n
| CWrite of handle * n * n * stable * bytes
| CCreate of handle * name * bool
| CMkdir of handle * name
| CSymlink of handle * name * bytes
| CRemove of handle * name
| CRmdir of handle * name
| CRename of handle * name * handle * name
| CReaddir of handle * n
| CCommit of handle * n * n
| CFsinfo of handle
| CPathconf of handle
| CUnsupported
| CNull
| CRestart

type status =
| OK
| STALE
| NOTSUPP
| ERR

(** val status_eq_dec : (status, status) relDecision **)

let status_eq_dec x y =
  match x with
  | OK -> (match y with
           | OK -> true
           | _ -> false)
  | STALE -> (match y with
              | STALE -> true
              | _ -> false)
  | NOTSUPP -> (match y with
                | NOTSUPP -> true
                | _ -> false)
  | ERR -> (match y with
            | ERR -> true
            | _ -> false)

type attrs = { a_kind : kind; a_size : n option; a_fileid : inum;
               a_atime : (n * n) option; a_mtime : (n * n) option }

type reply =
| RStatus of status
| RAttrs of attrs
| RHandle of handle * attrs
| RData of bytes * bool option
| RWritten of n * stable * attrs
| RLink of bytes
| RDir of inum * n
| RFsinfo of n * n
| RPathconf of n

(** val attrs_of : inum -> obj -> attrs **)

let attrs_of i o =
  { a_kind = o.o_kind; a_size =
    (if decide (decide_rel kind_eq_dec o.o_kind KDir)
     then None
     else Some o.o_size); a_fileid = i; a_atime = o.o_atime; a_mtime =
    o.o_mtime }

type hint =
| HNone
| HHandle of handle
| HNoSpace
| HShort of n

(** val resolve : params -> afs -> handle -> (inum * obj) option **)

let resolve p s h =
  match parse_handle h with
  | Some p0 ->
    let (i, g) = p0 in
    if N.ltb i p.p_ninode
    then (match lookup0 (gmap_lookup n_eq_dec n_countable) i s.objs with
          | Some o -> if N.eqb o.o_gen g then Some (i, o) else None
          | None -> None)
    else None
  | None -> None

(** val is_dir : obj -> bool **)

let is_dir o =
  bool_decide (decide_rel kind_eq_dec o.o_kind KDir)

(** val wf_name : params -> name -> bool **)

let wf_name p n0 =
  (&&)
    ((&&)
      ((&&)
        ((&&) (negb (N.eqb (lenN0 n0) N0)) (N.leb (lenN0 n0) p.p_name_max))
        (forallb (fun b ->
          (&&) (negb (bool_decide (decide_rel byte_eq_dec0 b b_slash)))
            (negb (bool_decide (decide_rel byte_eq_dec0 b x00)))) n0))
      (negb (bool_decide (decide_rel (list_eq_dec0 byte_eq_dec0) n0 dot))))
    (negb (bool_decide (decide_rel (list_eq_dec0 byte_eq_dec0) n0 dotdot)))

(** val is_dots : name -> bool **)

let is_dots n0 =
  (||) (bool_decide (decide_rel (list_eq_dec0 byte_eq_dec0) n0 dot))
    (bool_decide (decide_rel (list_eq_dec0 byte_eq_dec0) n0 dotdot))

(** val lookup_name : inum -> obj -> name -> inum option **)

let lookup_name i d n0 =
  if bool_decide (decide_rel (list_eq_dec0 byte_eq_dec0) n0 dot)
  then Some i
  else if bool_decide (decide_rel (list_eq_dec0 byte_eq_dec0) n0 dotdot)
       then Some d.o_parent
       else lookup0
              (gmap_lookup (list_eq_dec0 byte_eq_dec0)
                (list_countable byte_eq_dec0 byte_countable)) n0 d.o_ents

(** val is_ancestor : afs -> nat -> inum -> inum -> bool **)

let rec is_ancestor s fuel anc i =
  if N.eqb i anc
  then true
  else (match fuel with
        | O -> false
        | S f ->
          (match lookup0 (gmap_lookup n_eq_dec n_countable) i s.objs with
           | Some o ->
             if N.eqb o.o_parent i
             then false
             else is_ancestor s f anc o.o_parent
           | None -> false))

(** val new_obj : kind -> n -> inum -> obj **)

let new_obj k g parent =
  { o_kind = k; o_gen = g; o_size = N0; o_data =
    (empty0 (gmap_empty n_eq_dec n_countable)); o_ents =
    (empty0
      (gmap_empty (list_eq_dec0 byte_eq_dec0)
        (list_countable byte_eq_dec0 byte_countable))); o_parent = parent;
    o_atime = None; o_mtime = None }

(** val upd_time : (n * n) option -> settime -> (n * n) option **)

let upd_time cur = function
| DontChange -> cur
| ServerTime -> None
| ClientTime x -> Some x

(** val fresh : params -> afs -> n -> n -> bool **)

let fresh p s i g =
  (&&)
    ((&&)
      ((&&)
        ((&&)
          (negb
            (bool_decide
              (is_Some_dec
                (lookup0 (gmap_lookup n_eq_dec n_countable) i s.objs))))
          (negb
            (bool_decide
              (decide_rel
                (gset_elem_of_dec (prod_eq_dec n_eq_dec n_eq_dec)
                  (prod_countable n_eq_dec n_countable n_eq_dec n_countable))
                (i, g) s.issued)))) (N.leb (Npos (XO XH)) i))
      (N.ltb i p.p_ninode)) (N.leb (Npos XH) g)

(** val create :
    params -> afs -> handle -> name -> kind -> bytes -> hint -> afs * reply **)

let create p s h n0 k content hi =
  match resolve p s h with
  | Some p0 ->
    let (di, d) = p0 in
    if negb (is_dir d)
    then (s, (RStatus ERR))
    else if negb (wf_name p n0)
         then (s, (RStatus ERR))
         else if bool_decide
                   (is_Some_dec
                     (lookup0
                       (gmap_lookup (list_eq_dec0 byte_eq_dec0)
                         (list_countable byte_eq_dec0 byte_countable)) n0
                       d.o_ents))
              then (s, (RStatus ERR))
              else if N.ltb p.p_wtmax (lenN0 content)
                   then (s, (RStatus ERR))
                   else (match hi with
                         | HHandle hh ->
                           (match parse_handle hh with
                            | Some p1 ->
                              let (i, g) = p1 in
                              if negb (fresh p s i g)
                              then (s, (RStatus ERR))
                              else let o =
                                     with_content (new_obj k g di)
                                       (lenN0 content)
                                       (write_bytes
                                         (empty0
                                           (gmap_empty n_eq_dec n_countable))
                                         N0 content)
                                   in
                                   ({ objs =
                                   (insert0
                                     (map_insert
                                       (gmap_partial_alter n_eq_dec
                                         n_countable)) i o
                                     (insert0
                                       (map_insert
                                         (gmap_partial_alter n_eq_dec
                                           n_countable)) di
                                       (with_ents d
                                         (insert0
                                           (map_insert
                                             (gmap_partial_alter
                                               (list_eq_dec0 byte_eq_dec0)
                                               (list_countable byte_eq_dec0
                                                 byte_countable))) n0 i
                                           d.o_ents)) s.objs)); issued =
                                   (union0
                                     (gset_union
                                       (prod_eq_dec n_eq_dec n_eq_dec)
                                       (prod_countable n_eq_dec n_countable
                                         n_eq_dec n_countable))
                                     (singleton0
                                       (gset_singleton
                                         (prod_eq_dec n_eq_dec n_eq_dec)
                                         (prod_countable n_eq_dec n_countable
                                           n_eq_dec n_countable)) (i, g))
                                     s.issued); unstable_opt =
                                   s.unstable_opt }, (RHandle (hh,
                                   (attrs_of i o))))
                            | None -> (s, (RStatus ERR)))
                         | HNoSpace -> (s, (RStatus ERR))
                         | _ -> (s, (RStatus OK)))
  | None -> (s, (RStatus STALE))

(** val unlink : afs -> inum -> obj -> name -> inum -> afs **)

let unlink s di d n0 i =
  del_obj
    (set_obj s di
      (with_ents d
        (delete0
          (map_delete
            (gmap_partial_alter (list_eq_dec0 byte_eq_dec0)
              (list_countable byte_eq_dec0 byte_countable))) n0 d.o_ents))) i

(** val remove : params -> afs -> handle -> name -> bool -> afs * reply **)

let remove p s h n0 want_dir =
  if is_dots n0
  then (s, (RStatus ERR))
  else (match resolve p s h with
        | Some p0 ->
          let (di, d) = p0 in
          (match if is_dir d
                 then lookup0
                        (gmap_lookup (list_eq_dec0 byte_eq_dec0)
                          (list_countable byte_eq_dec0 byte_countable)) n0
                        d.o_ents
                 else None with
           | Some i ->
             (match lookup0 (gmap_lookup n_eq_dec n_countable) i s.objs with
              | Some o ->
                if want_dir
                then if negb (is_dir o)
                     then (s, (RStatus ERR))
                     else if negb
                               (bool_decide
                                 (decide_rel
                                   (gmap_eq_eq (list_eq_dec0 byte_eq_dec0)
                                     (list_countable byte_eq_dec0
                                       byte_countable) n_eq_dec) o.o_ents
                                   (empty0
                                     (gmap_empty (list_eq_dec0 byte_eq_dec0)
                                       (list_countable byte_eq_dec0
                                         byte_countable)))))
                          then (s, (RStatus ERR))
                          else ((unlink s di d n0 i), (RStatus OK))
                else if is_dir o
                     then (s, (RStatus ERR))
                     else ((unlink s di d n0 i), (RStatus OK))
              | None -> (s, (RStatus ERR)))
           | None -> (s, (RStatus ERR)))
        | None -> (s, (RStatus STALE)))

(** val move : afs -> inum -> name -> inum -> name -> inum -> afs **)

let move s d1i n1 d2i n2 fi =
  let s2 =
    match lookup0 (gmap_lookup n_eq_dec n_countable) d1i s.objs with
    | Some d1 ->
      set_obj s d1i
        (with_ents d1
          (delete0
            (map_delete
              (gmap_partial_alter (list_eq_dec0 byte_eq_dec0)
                (list_countable byte_eq_dec0 byte_countable))) n1 d1.o_ents))
    | None -> s
  in
  let s3 =
    match lookup0 (gmap_lookup n_eq_dec n_countable) d2i s2.objs with
    | Some d2 ->
      set_obj s2 d2i
        (with_ents d2
          (insert0
            (map_insert
              (gmap_partial_alter (list_eq_dec0 byte_eq_dec0)
                (list_countable byte_eq_dec0 byte_countable))) n2 fi
            d2.o_ents))
    | None -> s2
  in
  (match lookup0 (gmap_lookup n_eq_dec n_countable) fi s3.objs with
   | Some fo -> set_obj s3 fi (with_parent fo d2i)
   | None -> s3)

(** val rename :
    params -> afs -> handle -> name -> handle -> name -> afs * reply **)

let rename p s h1 n1 h2 n2 =
  if is_dots n1
  then (s, (RStatus ERR))
  else (match resolve p s h1 with
        | Some p0 ->
          let (d1i, d1) = p0 in
          (match resolve p s h2 with
           | Some p1 ->
             let (d2i, d2) = p1 in
             if (||) (negb (is_dir d1)) (negb (is_dir d2))
             then (s, (RStatus ERR))
             else (match lookup0
                           (gmap_lookup (list_eq_dec0 byte_eq_dec0)
                             (list_countable byte_eq_dec0 byte_countable)) n1
                           d1.o_ents with
                   | Some fi ->
                     if negb (wf_name p n2)
                     then (s, (RStatus ERR))
                     else (match lookup0 (gmap_lookup n_eq_dec n_countable)
                                   fi s.objs with
                           | Some fo ->
                             if (&&) (is_dir fo)
                                  (is_ancestor s (N.to_nat p.p_ninode) fi d2i)
                             then (s, (RStatus ERR))
                             else (match lookup0
                                           (gmap_lookup
                                             (list_eq_dec0 byte_eq_dec0)
                                             (list_countable byte_eq_dec0
                                               byte_countable)) n2 d2.o_ents with
                                   | Some ti ->
                                     if N.eqb ti fi
                                     then (s, (RStatus OK))
                                     else (match lookup0
                                                   (gmap_lookup n_eq_dec
                                                     n_countable) ti s.objs with
                                           | Some to0 ->
                                             if negb
                                                  (bool_decide
                                                    (decide_rel kind_eq_dec
                                                      to0.o_kind fo.o_kind))
                                             then (s, (RStatus ERR))
                                             else if (&&) (is_dir to0)
                                                       (negb
                                                         (bool_decide
                                                           (decide_rel
                                                             (gmap_eq_eq
                                                               (list_eq_dec0
                                                                 byte_eq_dec0)
                                                               (list_countable
                                                                 byte_eq_dec0
                                                                 byte_countable)
                                                               n_eq_dec)
                                                             to0.o_ents
                                                             (empty0
                                                               (gmap_empty
                                                                 (list_eq_dec0
                                                                   byte_eq_dec0)
                                                                 (list_countable
                                                                   byte_eq_dec0
                                                                   byte_countable))))))
                                                  then (s, (RStatus ERR))
                                                  else ((move (del_obj s ti)
                                                          d1i n1 d2i n2 fi),
                                                         (RStatus OK))
                                           | None -> (s, (RStatus ERR)))
                                   | None ->
                                     ((move s d1i n1 d2i n2 fi), (RStatus OK)))
                           | None -> (s, (RStatus ERR)))
                   | None -> (s, (RStatus ERR)))
           | None -> (s, (RStatus STALE)))
        | None -> (s, (RStatus STALE)))

(** val do_read : params -> afs -> handle -> n -> n -> afs * reply **)

let do_read p s h off cnt =
  match resolve p s h with
  | Some p0 ->
    let (_, o) = p0 in
    if negb (bool_decide (decide_rel kind_eq_dec o.o_kind KFile))
    then (s, (RStatus ERR))
    else if N.leb o.o_size off
         then (s, (RData ([], (Some true))))
         else let c = N.min cnt (N.sub o.o_size off) in
              (s, (RData ((read_bytes o.o_data off c),
              (if N.ltb (N.add off c) o.o_size then Some false else None))))
  | None -> (s, (RStatus STALE))

(** val do_write :
    params -> afs -> handle -> n -> n -> stable -> bytes -> hint ->
    afs * reply **)

let do_write p s h off cnt st d hi =
  match resolve p s h with
  | Some p0 ->
    let (i, o) = p0 in
    if negb (bool_decide (decide_rel kind_eq_dec o.o_kind KFile))
    then (s, (RStatus ERR))
    else if negb (N.eqb cnt (lenN0 d))
         then (s, (RStatus ERR))
         else if N.ltb p.p_wtmax cnt
              then (s, (RStatus ERR))
              else if N.ltb p.p_maxfilesize (N.add off cnt)
                   then (s, (RStatus ERR))
                   else (match hi with
                         | HNoSpace -> (s, (RStatus ERR))
                         | _ ->
                           let n0 =
                             match hi with
                             | HShort k -> N.min k cnt
                             | _ -> cnt
                           in
                           let o' =
                             if N.eqb n0 N0
                             then o
                             else with_content o
                                    (N.max o.o_size (N.add off n0))
                                    (write_bytes o.o_data off (takeN n0 d))
                           in
                           let committed0 =
                             if s.unstable_opt then st else FileSync
                           in
                           ((set_obj s i o'), (RWritten (n0, committed0,
                           (attrs_of i o')))))
  | None -> (s, (RStatus STALE))

(** val do_setattr :
    params -> afs -> handle -> n option -> settime -> settime -> hint ->
    afs * reply **)

let do_setattr p s h size3 at_ mt hi =
  match resolve p s h with
  | Some p0 ->
    let (i, o) = p0 in
    (match size3 with
     | Some sz ->
       if negb (bool_decide (decide_rel kind_eq_dec o.o_kind KFile))
       then (s, (RStatus ERR))
       else if N.ltb p.p_maxfilesize sz
            then (s, (RStatus ERR))
            else (match hi with
                  | HNoSpace -> (s, (RStatus ERR))
                  | _ ->
                    let m =
                      if N.ltb sz o.o_size
                      then trunc_data o.o_data sz
                      else o.o_data
                    in
                    let o' =
                      with_times (with_content o sz m)
                        (upd_time o.o_atime at_) (upd_time o.o_mtime mt)
                    in
                    ((set_obj s i o'), (RAttrs (attrs_of i o'))))
     | None ->
       let o' = with_times o (upd_time o.o_atime at_) (upd_time o.o_mtime mt)
       in
       ((set_obj s i o'), (RAttrs (attrs_of i o'))))
  | None -> (s, (RStatus STALE))

(** val step : params -> afs -> call -> hint -> afs * reply **)

let step p s c hi =
  match c with
  | CGetattr h ->
    (match resolve p s h with
     | Some p0 -> let (i, o) = p0 in (s, (RAttrs (attrs_of i o)))
     | None -> (s, (RStatus STALE)))
  | CSetattr (h, sz, a, m) -> do_setattr p s h sz a m hi
  | CLookup (h, n0) ->
    (match resolve p s h with
     | Some p0 ->
       let (di, d) = p0 in
       if negb (is_dir d)
       then (s, (RStatus ERR))
       else (match lookup_name di d n0 with
             | Some i ->
               (match lookup0 (gmap_lookup n_eq_dec n_countable) i s.objs with
                | Some o ->
                  (s, (RHandle ((mk_handle i o.o_gen), (attrs_of i o))))
                | None -> (s, (RStatus ERR)))
             | None -> (s, (RStatus ERR)))
     | None -> (s, (RStatus STALE)))
  | CAccess h ->
    (match resolve p s h with
     | Some _ -> (s, (RStatus OK))
     | None -> (s, (RStatus STALE)))
  | CReadlink h ->
    (match resolve p s h with
     | Some p0 ->
       let (_, o) = p0 in
       if bool_decide (decide_rel kind_eq_dec o.o_kind KLnk)
       then (s, (RLink (read_bytes o.o_data N0 o.o_size)))
       else (s, (RStatus ERR))
     | None -> (s, (RStatus STALE)))
  | CRead (h, off, cnt) -> do_read p s h off cnt
  | CWrite (h, off, cnt, st, d) -> do_write p s h off cnt st d hi
  | CCreate (h, n0, excl) ->
    if excl then (s, (RStatus NOTSUPP)) else create p s h n0 KFile [] hi
  | CMkdir (h, n0) -> create p s h n0 KDir [] hi
  | CSymlink (h, n0, t) -> create p s h n0 KLnk t hi
  | CRemove (h, n0) -> remove p s h n0 false
  | CRmdir (h, n0) -> remove p s h n0 true
  | CRename (h1, n1, h2, n2) -> rename p s h1 n1 h2 n2
  | CReaddir (h, cookie) ->
    (match resolve p s h with
     | Some p0 ->
       let (i, o) = p0 in
       if is_dir o then (s, (RDir (i, cookie))) else (s, (RStatus ERR))
     | None -> (s, (RStatus STALE)))
  | CCommit (h, off, cnt) ->
    (match resolve p s h with
     | Some p0 ->
       let (_, o) = p0 in
       if negb (bool_decide (decide_rel kind_eq_dec o.o_kind KFile))
       then (s, (RStatus ERR))
       else if N.ltb o.o_size (N.add off cnt)
            then (s, (RStatus ERR))
            else (s, (RStatus OK))
     | None -> (s, (RStatus STALE)))
  | CFsinfo h ->
    (match resolve p s h with
     | Some _ -> (s, (RFsinfo (p.p_wtmax, p.p_maxfilesize)))
     | None -> (s, (RStatus STALE)))
  | CPathconf h ->
    (match resolve p s h with
     | Some _ -> (s, (RPathconf p.p_name_max))
     | None -> (s, (RStatus STALE)))
  | CUnsupported -> (s, (RStatus NOTSUPP))
  | _ -> (s, (RStatus OK))

(** val set_unstable : afs -> bool -> afs **)

let set_unstable s b =
  { objs = s.objs; issued = s.issued; unstable_opt = b }

(** val init_afs : bool -> afs **)

let init_afs unst =
  { objs =
    (singletonM0
      (map_singleton (gmap_partial_alter n_eq_dec n_countable)
        (gmap_empty n_eq_dec n_countable)) rOOT (new_obj KDir (Npos XH) rOOT));
    issued =
    (singleton0
      (gset_singleton (prod_eq_dec n_eq_dec n_eq_dec)
        (prod_countable n_eq_dec n_countable n_eq_dec n_countable)) (rOOT,
      (Npos XH))); unstable_opt = unst }

type disk = (n, bytes) gmap

(** val rd : disk -> n -> bytes **)

let rd d a =
  from_option (Obj.magic id) zero_block
    (lookup0 (gmap_lookup n_eq_dec n_countable) a d)

(** val disk_set : disk -> n -> bytes -> disk **)

let disk_set d a b =
  if all_zero b
  then delete0 (map_delete (gmap_partial_alter n_eq_dec n_countable)) a d
  else insert0 (map_insert (gmap_partial_alter n_eq_dec n_countable)) a b d

type layout = { l_size : n; l_bbstart : n; l_nbb : n; l_ibstart : n;
                l_istart : n; l_dstart : n; l_ninode : n }

(** val mk_layout : n -> layout **)

let mk_layout sz =
  let fs = mkFsSuper sz in
  { l_size = sz; l_bbstart = (bitmapBlockStart fs); l_nbb = fs.nBlockBitmap;
  l_ibstart = (bitmapInodeStart fs); l_istart = (inodeStart fs); l_dstart =
  (dataStart fs); l_ninode = (nInode fs) }

(** val nDIRECT : n **)

let nDIRECT =
  Npos (XO (XO (XO XH)))

(** val nPTR : n **)

let nPTR =
  Npos (XO (XO (XO (XO (XO (XO (XO (XO (XO XH)))))))))

(** val dIRENTSZ : n **)

let dIRENTSZ =
  Npos (XO (XO (XO (XO (XO (XO (XO XH)))))))

type dinode = { i_kind : n; i_nlink : n; i_gen : n; i_size : n; i_shrink : 
                n; i_atime : (n * n); i_mtime : (n * n); i_blks : n list }

(** val words : nat -> bytes -> n list **)

let rec words n0 b =
  match n0 with
  | O -> []
  | S n1 ->
    (unle (firstn (S (S (S (S (S (S (S (S O)))))))) b)) :: (words n1
                                                             (skipn (S (S (S
                                                               (S (S (S (S (S
                                                               O)))))))) b))

(** val decode_inode : bytes -> dinode **)

let decode_inode b =
  { i_kind = (get32 b N0); i_nlink = (get32 b (Npos (XO (XO XH)))); i_gen =
    (get64 b (Npos (XO (XO (XO XH))))); i_size =
    (get64 b (Npos (XO (XO (XO (XO XH)))))); i_shrink =
    (get64 b (Npos (XO (XO (XO (XI XH)))))); i_atime =
    ((get32 b (Npos (XO (XO (XO (XO (XO XH))))))),
    (get32 b (Npos (XO (XO (XI (XO (XO XH)))))))); i_mtime =
    ((get32 b (Npos (XO (XO (XO (XI (XO XH))))))),
    (get32 b (Npos (XO (XO (XI (XI (XO XH)))))))); i_blks =
    (words (S (S (S (S (S (S (S (S (S (S O))))))))))
      (skipn (S (S (S (S (S (S (S (S (S (S (S (S (S (S (S (S (S (S (S (S (S
        (S (S (S (S (S (S (S (S (S (S (S (S (S (S (S (S (S (S (S (S (S (S (S
        (S (S (S (S O)))))))))))))))))))))))))))))))))))))))))))))))) b)) }

(** val inode_bytes : layout -> disk -> n -> bytes **)

let inode_bytes l d i =
  let a = inum2Addr (mkFsSuper l.l_size) i in
  takeN (Npos (XO (XO (XO (XO (XO (XO (XO XH))))))))
    (dropN (N.div (snd a) (Npos (XO (XO (XO XH))))) (rd d (fst a)))

(** val read_inode : layout -> disk -> n -> dinode **)

let read_inode l d i =
  decode_inode (inode_bytes l d i)

(** val blk_count : n -> n **)

let blk_count size3 =
  N.div (N.sub (N.add size3 bS0) (Npos XH)) bS0

(** val tree : disk -> nat -> n -> n -> n -> (n * n) list * n list **)

let rec tree d lvl root base span =
  if N.eqb root N0
  then ([], [])
  else (match lvl with
        | O -> (((base, root) :: []), [])
        | S l ->
          let sub1 = N.div span nPTR in
          let rs =
            imap (fun k p ->
              tree d l p (N.add base (N.mul (N.of_nat k) sub1)) sub1)
              (words (S (S (S (S (S (S (S (S (S (S (S (S (S (S (S (S (S (S (S
                (S (S (S (S (S (S (S (S (S (S (S (S (S (S (S (S (S (S (S (S
                (S (S (S (S (S (S (S (S (S (S (S (S (S (S (S (S (S (S (S (S
                (S (S (S (S (S (S (S (S (S (S (S (S (S (S (S (S (S (S (S (S
                (S (S (S (S (S (S (S (S (S (S (S (S (S (S (S (S (S (S (S (S
                (S (S (S (S (S (S (S (S (S (S (S (S (S (S (S (S (S (S (S (S
                (S (S (S (S (S (S (S (S (S (S (S (S (S (S (S (S (S (S (S (S
                (S (S (S (S (S (S (S (S (S (S (S (S (S (S (S (S (S (S (S (S
                (S (S (S (S (S (S (S (S (S (S (S (S (S (S (S (S (S (S (S (S
                (S (S (S (S (S (S (S (S (S (S (S (S (S (S (S (S (S (S (S (S
                (S (S (S (S (S (S (S (S (S (S (S (S (S (S (S (S (S (S (S (S
                (S (S (S (S (S (S (S (S (S (S (S (S (S (S (S (S (S (S (S (S
                (S (S (S (S (S (S (S (S (S (S (S (S (S (S (S (S (S (S (S (S
                (S (S (S (S (S (S (S (S (S (S (S (S (S (S (S (S (S (S (S (S
                (S (S (S (S (S (S (S (S (S (S (S (S (S (S (S (S (S (S (S (S
                (S (S (S (S (S (S (S (S (S (S (S (S (S (S (S (S (S (S (S (S
                (S (S (S (S (S (S (S (S (S (S (S (S (S (S (S (S (S (S (S (S
                (S (S (S (S (S (S (S (S (S (S (S (S (S (S (S (S (S (S (S (S
                (S (S (S (S (S (S (S (S (S (S (S (S (S (S (S (S (S (S (S (S
                (S (S (S (S (S (S (S (S (S (S (S (S (S (S (S (S (S (S (S (S
                (S (S (S (S (S (S (S (S (S (S (S (S (S (S (S (S (S (S (S (S
                (S (S (S (S (S (S (S (S (S (S (S (S (S (S (S (S (S (S (S (S
                (S (S (S (S (S (S (S (S (S (S (S (S (S (S (S (S (S (S (S (S
                (S (S (S (S (S (S (S (S (S (S (S (S (S (S (S (S (S (S (S (S
                (S (S (S (S (S (S (S (S (S (S (S (S (S (S (S (S (S (S (S (S
                (S (S (S (S (S (S (S (S (S (S (S (S (S
                O))))))))))))))))))))))))))))))))))))))))))))))))))))))))))))))))))))))))))))))))))))))))))))))))))))))))))))))))))))))))))))))))))))))))))))))))))))))))))))))))))))))))))))))))))))))))))))))))))))))))))))))))))))))))))))))))))))))))))))))))))))))))))))))))))))))))))))))))))))))))))))))))))))))))))))))))))))))))))))))))))))))))))))))))))))))))))))))))))))))))))))))))))))))))))))))))))))))))))))))))))))))))))))))))))))))))))))))))))))))))))))))))))))))))))))))))))))))))))))))))))))))))))))))))))))))))))))))))
                (rd d root))
          in
          ((concat (map fst rs)), (root :: (concat (map snd rs)))))

(** val inode_blocks : disk -> dinode -> (n * n) list * n list **)

let inode_blocks d ip =
  let direct =
    omap (Obj.magic (fun _ _ -> list_omap)) (fun kp ->
      if N.eqb (snd kp) N0 then None else Some ((N.of_nat (fst kp)), (snd kp)))
      (imap (fun k p -> (k, p))
        (firstn (S (S (S (S (S (S (S (S O)))))))) ip.i_blks))
  in
  let (l1, x1) =
    tree d (S O) (nth (S (S (S (S (S (S (S (S O)))))))) ip.i_blks N0) nDIRECT
      nPTR
  in
  let (l2, x2) =
    tree d (S (S O)) (nth (S (S (S (S (S (S (S (S (S O))))))))) ip.i_blks N0)
      (N.add nDIRECT nPTR) (N.mul nPTR nPTR)
  in
  ((app (Obj.magic direct) (app l1 l2)), (app x1 x2))

type aobj = { ab_kind : n; ab_gen : n; ab_size : n;
              ab_chunks : (n * bytes) list; ab_ents : (name * n) list;
              ab_parent : n; ab_atime : (n * n); ab_mtime : (n * n);
              ab_nlink : n }

(** val leaf_map : (n * n) list -> (n, n) gmap **)

let leaf_map leaves =
  list_to_map (map_insert (gmap_partial_alter n_eq_dec n_countable))
    (gmap_empty n_eq_dec n_countable) leaves

(** val slot_of : bytes -> n -> (name * n) option **)

let slot_of b o =
  let i = get64 b o in
  let len = get64 b (N.add o (Npos (XO (XO (XO XH))))) in
  if N.eqb i N0
  then None
  else Some ((takeN len (dropN (N.add o (Npos (XO (XO (XO (XO XH)))))) b)), i)

(** val dir_slots : disk -> (n, n) gmap -> n -> (name * n) option list **)

let dir_slots d lm size3 =
  map (fun k ->
    let off = N.mul (N.of_nat k) dIRENTSZ in
    slot_of
      (match lookup0 (gmap_lookup n_eq_dec n_countable) (N.div off bS0) lm with
       | Some pb -> rd d pb
       | None -> zero_block) (N.modulo off bS0))
    (seq O (N.to_nat (N.div size3 dIRENTSZ)))

type wf_error =
| EBadPtr of n * n
| EDupBlock of n
| EBitClear of n
| EBitSetUnowned of n
| ENonZeroFree of n
| EBitmapFixed
| EInodeBit of n
| EInodeLeak of n
| EInodeBitFree of n
| EDot of n
| EDotDot of n
| EDangling of n * n
| EDupName of n
| EBadName of n
| EDirSize of n
| ETwoNames of n
| ETooBig of n
| EBeyondSize of n * n
| ETailNonZero of n
| EKind of n
| EGen of n
| ENlink of n
| EFreeOwns of n
| EFuel

(** val bad_name_b : n -> name -> bool **)

let bad_name_b name_max n0 =
  (||) ((||) (N.eqb (lenN0 n0) N0) (N.ltb name_max (lenN0 n0)))
    (negb
      (forallb (fun b ->
        (&&) (negb (bool_decide (decide_rel byte_eq_dec0 b b_slash)))
          (negb (bool_decide (decide_rel byte_eq_dec0 b x00)))) n0))

(** val gs_add :
    ('a1, 'a1) relDecision -> 'a1 countable -> 'a1 -> 'a1 gset -> 'a1 gset **)

let gs_add eqDecision0 h x s =
  { mapset_car =
    (insert0 (map_insert (gmap_partial_alter eqDecision0 h)) x ()
      s.mapset_car) }

(** val gs_of_list :
    ('a1, 'a1) relDecision -> 'a1 countable -> 'a1 list -> 'a1 gset **)

let gs_of_list eqDecision0 h l =
  fold_left (fun s x -> gs_add eqDecision0 h x s) l
    (empty0 (gset_empty eqDecision0 h))

(** val has_dup : name list -> name gset -> bool **)

let rec has_dup l seen =
  match l with
  | [] -> false
  | x :: r ->
    if bool_decide
         (decide_rel
           (gset_elem_of_dec (list_eq_dec0 byte_eq_dec0)
             (list_countable byte_eq_dec0 byte_countable)) x seen)
    then true
    else has_dup r
           (gs_add (list_eq_dec0 byte_eq_dec0)
             (list_countable byte_eq_dec0 byte_countable) x seen)

(** val check_blocks :
    layout -> n -> dinode -> (n * n) list -> n list -> wf_error list **)

let check_blocks l inum0 ip leaves idx =
  let lim = N.max (blk_count ip.i_size) ip.i_shrink in
  app
    (omap (Obj.magic (fun _ _ -> list_omap)) (fun b ->
      if (&&) (N.leb l.l_dstart b) (N.ltb b l.l_size)
      then None
      else Some (EBadPtr (inum0, b)))
      (app (map (Obj.magic snd) leaves) (Obj.magic idx)))
    (omap (Obj.magic (fun _ _ -> list_omap)) (fun p ->
      if N.ltb (fst p) lim then None else Some (EBeyondSize (inum0, (snd p))))
      (Obj.magic leaves))

type walk_st = { w_objs : (n * aobj) list; w_owned : n list;
                 w_errs : wf_error list; w_seen : n gset }

(** val visit :
    n -> n -> layout -> disk -> n -> n -> walk_st -> walk_st * (n * n) list **)

let visit name_max maxfilesize l d inum0 parent st =
  let ip = read_inode l d inum0 in
  let (leaves, idx) = inode_blocks d ip in
  let mine = app (map snd leaves) idx in
  let lm = leaf_map leaves in
  let e0 =
    app (check_blocks l inum0 ip leaves idx)
      (app (if N.eqb ip.i_gen N0 then (EGen inum0) :: [] else [])
        (app (if N.eqb ip.i_nlink N0 then (ENlink inum0) :: [] else [])
          (if N.ltb maxfilesize ip.i_size then (ETooBig inum0) :: [] else [])))
  in
  if bool_decide
       (decide_rel (gset_elem_of_dec n_eq_dec n_countable) inum0 st.w_seen)
  then ({ w_objs = st.w_objs; w_owned = st.w_owned; w_errs = ((ETwoNames
         inum0) :: st.w_errs); w_seen = st.w_seen }, [])
  else if N.eqb ip.i_kind (Npos (XO XH))
       then let slots = dir_slots d lm ip.i_size in
            let ents =
              omap (Obj.magic (fun _ _ -> list_omap)) (Obj.magic id) slots
            in
            let real =
              filter1 (Obj.magic (fun _ -> list_filter)) (fun x ->
                is_true_dec
                  ((&&)
                    (negb
                      (bool_decide
                        (decide_rel (list_eq_dec0 byte_eq_dec0) (fst x) dot)))
                    (negb
                      (bool_decide
                        (decide_rel (list_eq_dec0 byte_eq_dec0) (fst x)
                          dotdot))))) ents
            in
            let e1 =
              app
                (match slots with
                 | [] -> (EDot inum0) :: []
                 | o :: _ ->
                   (match o with
                    | Some p ->
                      let (n0, i) = p in
                      if (&&)
                           (bool_decide
                             (decide_rel (list_eq_dec0 byte_eq_dec0) n0 dot))
                           (N.eqb i inum0)
                      then []
                      else (EDot inum0) :: []
                    | None -> (EDot inum0) :: []))
                (app
                  (match slots with
                   | [] -> (EDotDot inum0) :: []
                   | _ :: l0 ->
                     (match l0 with
                      | [] -> (EDotDot inum0) :: []
                      | o0 :: _ ->
                        (match o0 with
                         | Some p0 ->
                           let (n0, p) = p0 in
                           if (&&)
                                (bool_decide
                                  (decide_rel (list_eq_dec0 byte_eq_dec0) n0
                                    dotdot)) (N.eqb p parent)
                           then []
                           else (EDotDot inum0) :: []
                         | None -> (EDotDot inum0) :: [])))
                  (app
                    (if N.eqb (N.modulo ip.i_size dIRENTSZ) N0
                     then []
                     else (EDirSize inum0) :: [])
                    (app
                      (if has_dup (map (Obj.magic fst) ents)
                            (empty0
                              (gset_empty (list_eq_dec0 byte_eq_dec0)
                                (list_countable byte_eq_dec0 byte_countable)))
                       then (EDupName inum0) :: []
                       else [])
                      (app
                        (if existsb (fun e ->
                              bad_name_b name_max (fst (Obj.magic e))) real
                         then (EBadName inum0) :: []
                         else [])
                        (if Nat.eqb (length ents)
                              (add (length real) (S (S O)))
                         then []
                         else (EBadName inum0) :: [])))))
            in
            let o = { ab_kind = (Npos (XO XH)); ab_gen = ip.i_gen; ab_size =
              ip.i_size; ab_chunks = []; ab_ents = (Obj.magic real);
              ab_parent = parent; ab_atime = ip.i_atime; ab_mtime =
              ip.i_mtime; ab_nlink = ip.i_nlink }
            in
            ({ w_objs = ((inum0, o) :: st.w_objs); w_owned =
            (app mine st.w_owned); w_errs = (app e1 (app e0 st.w_errs));
            w_seen = (gs_add n_eq_dec n_countable inum0 st.w_seen) },
            (map (fun e -> ((snd (Obj.magic e)), inum0)) real))
       else let last = N.div ip.i_size bS0 in
            let e1 =
              app
                (if (||) (N.eqb ip.i_kind (Npos XH))
                      (N.eqb ip.i_kind (Npos (XI (XO XH))))
                 then []
                 else if N.eqb ip.i_kind N0
                      then (EDangling (parent, inum0)) :: []
                      else (EKind inum0) :: [])
                (if N.eqb (N.modulo ip.i_size bS0) N0
                 then []
                 else (match lookup0 (gmap_lookup n_eq_dec n_countable) last
                               lm with
                       | Some pb ->
                         if all_zero
                              (dropN (N.modulo ip.i_size bS0) (rd d pb))
                         then []
                         else (ETailNonZero inum0) :: []
                       | None -> []))
            in
            let o = { ab_kind = ip.i_kind; ab_gen = ip.i_gen; ab_size =
              ip.i_size; ab_chunks =
              (map (fun p -> ((fst p), (rd d (snd p)))) leaves); ab_ents =
              []; ab_parent = parent; ab_atime = ip.i_atime; ab_mtime =
              ip.i_mtime; ab_nlink = ip.i_nlink }
            in
            ({ w_objs = ((inum0, o) :: st.w_objs); w_owned =
            (app mine st.w_owned); w_errs = (app e1 (app e0 st.w_errs));
            w_seen = (gs_add n_eq_dec n_countable inum0 st.w_seen) }, [])

(** val walk :
    n -> n -> layout -> disk -> nat -> (n * n) list -> walk_st -> walk_st **)

let rec walk name_max maxfilesize l d fuel todo st =
  match fuel with
  | O ->
    (match todo with
     | [] -> st
     | _ :: _ ->
       { w_objs = st.w_objs; w_owned = st.w_owned; w_errs =
         (EFuel :: st.w_errs); w_seen = st.w_seen })
  | S f ->
    (match todo with
     | [] -> st
     | p :: rest ->
       let (inum0, parent) = p in
       if N.ltb inum0 l.l_ninode
       then let (st', more) = visit name_max maxfilesize l d inum0 parent st
            in
            walk name_max maxfilesize l d f (app rest more) st'
       else walk name_max maxfilesize l d f rest { w_objs = st.w_objs;
              w_owned = st.w_owned; w_errs = ((EDangling (parent,
              inum0)) :: st.w_errs); w_seen = st.w_seen })

(** val scan_block :
    layout -> disk -> bool -> n gset -> n -> (n list * wf_error list) -> n
    list * wf_error list **)

let scan_block l d quiescent seen blkno acc =
  fold_left (fun acc0 k ->
    let inum0 =
      N.add
        (N.mul (N.sub blkno l.l_istart) (Npos (XO (XO (XO (XO (XO XH)))))))
        (N.of_nat k)
    in
    if (||)
         (bool_decide
           (decide_rel (gset_elem_of_dec n_eq_dec n_countable) inum0 seen))
         (N.eqb inum0 N0)
    then acc0
    else let ip = read_inode l d inum0 in
         let (leaves, idx) = inode_blocks d ip in
         let mine = app (map snd leaves) idx in
         let errs =
           app (if N.eqb ip.i_kind N0 then [] else (EInodeLeak inum0) :: [])
             (app (check_blocks l inum0 ip leaves idx)
               (match mine with
                | [] -> []
                | _ :: _ ->
                  if (&&) (N.eqb ip.i_kind N0)
                       ((||) quiescent (N.eqb ip.i_shrink N0))
                  then (EFreeOwns inum0) :: []
                  else []))
         in
         ((app mine (fst acc0)), (app errs (snd acc0))))
    (seq O (S (S (S (S (S (S (S (S (S (S (S (S (S (S (S (S (S (S (S (S (S (S
      (S (S (S (S (S (S (S (S (S (S O))))))))))))))))))))))))))))))))) acc

(** val testbit_byte : byte0 -> n -> bool **)

let testbit_byte b k =
  N.testbit (to_N b) k

(** val popcount : byte0 -> n **)

let popcount b =
  let x = to_N b in
  N.add
    (N.add
      (N.add
        (N.add
          (N.add
            (N.add
              (N.add (N.modulo x (Npos (XO XH)))
                (N.modulo (N.div x (Npos (XO XH))) (Npos (XO XH))))
              (N.modulo (N.div x (Npos (XO (XO XH)))) (Npos (XO XH))))
            (N.modulo (N.div x (Npos (XO (XO (XO XH))))) (Npos (XO XH))))
          (N.modulo (N.div x (Npos (XO (XO (XO (XO XH)))))) (Npos (XO XH))))
        (N.modulo (N.div x (Npos (XO (XO (XO (XO (XO XH))))))) (Npos (XO XH))))
      (N.modulo (N.div x (Npos (XO (XO (XO (XO (XO (XO XH)))))))) (Npos (XO
        XH)))) (N.div x (Npos (XO (XO (XO (XO (XO (XO (XO XH)))))))))

(** val set_bits_bytes :
    n -> n -> bytes -> n -> (n list * n) -> n list * n **)

let rec set_bits_bytes lo hi bs base acc =
  match bs with
  | [] -> acc
  | b :: r ->
    let acc' =
      if eqb0 b x00
      then acc
      else ((if (||) (N.leb (N.add base (Npos (XO (XO (XO XH))))) lo)
                  (N.leb hi base)
             then fst acc
             else fold_left (fun a k ->
                    let n0 = N.add base (N.of_nat k) in
                    if (&&)
                         ((&&) (testbit_byte b (N.of_nat k)) (N.leb lo n0))
                         (N.ltb n0 hi)
                    then n0 :: a
                    else a) (seq O (S (S (S (S (S (S (S (S O)))))))))
                    (fst acc)), (N.add (snd acc) (popcount b)))
    in
    set_bits_bytes lo hi r (N.add base (Npos (XO (XO (XO XH))))) acc'

(** val set_bits : disk -> n -> n -> n -> n -> n list * n **)

let set_bits d start nblk lo hi =
  fold_left (fun acc k ->
    match lookup0 (gmap_lookup n_eq_dec n_countable)
            (N.add start (N.of_nat k)) d with
    | Some b ->
      set_bits_bytes lo hi b
        (N.mul (N.of_nat k) (Npos (XO (XO (XO (XO (XO (XO (XO (XO (XO (XO (XO
          (XO (XO (XO (XO XH))))))))))))))))) acc
    | None -> acc) (seq O (N.to_nat nblk)) ([], N0)

type abs_result = { r_objs : (n * aobj) list; r_errs : wf_error list;
                    r_used_blocks : n; r_used_inodes : n }

(** val in_data : layout -> n -> bool **)

let in_data l b =
  (&&) (N.leb l.l_dstart b) (N.ltb b l.l_size)

(** val abs_disk : n -> n -> n -> bool -> disk -> abs_result **)

let abs_disk name_max maxfilesize sz quiescent d =
  let l = mk_layout sz in
  let st0 = { w_objs = []; w_owned = []; w_errs = []; w_seen =
    (empty0 (gset_empty n_eq_dec n_countable)) }
  in
  let st =
    walk name_max maxfilesize l d (N.to_nat l.l_ninode) (((Npos XH), (Npos
      XH)) :: []) st0
  in
  let (owned2, errs2) =
    fold_left (fun acc k ->
      let b = N.add l.l_istart (N.of_nat k) in
      (match lookup0 (gmap_lookup n_eq_dec n_countable) b d with
       | Some _ -> scan_block l d quiescent st.w_seen b acc
       | None -> acc)) (seq O (N.to_nat (N.sub l.l_dstart l.l_istart))) ([],
      [])
  in
  let owned = app st.w_owned owned2 in
  let ownedset = gs_of_list n_eq_dec n_countable owned in
  let derr =
    if Nat.eqb (length owned)
         (size0 (set_size (gset_elements n_eq_dec n_countable)) ownedset)
    then []
    else let rec dups xs seen =
           match xs with
           | [] -> []
           | x :: r ->
             if bool_decide
                  (decide_rel (gset_elem_of_dec n_eq_dec n_countable) x seen)
             then (EDupBlock x) :: (dups r seen)
             else dups r (gs_add n_eq_dec n_countable x seen)
         in dups owned (empty0 (gset_empty n_eq_dec n_countable))
  in
  let (used, nset) = set_bits d l.l_bbstart l.l_nbb l.l_dstart sz in
  let usedset = gs_of_list n_eq_dec n_countable used in
  let berr =
    omap (Obj.magic (fun _ _ -> list_omap)) (fun b ->
      if (||)
           (bool_decide
             (decide_rel (gset_elem_of_dec n_eq_dec n_countable) b usedset))
           (negb (in_data l b))
      then None
      else Some (EBitClear b)) owned
  in
  let uerr =
    omap (Obj.magic (fun _ _ -> list_omap)) (fun b ->
      if negb
           (bool_decide
             (decide_rel (gset_elem_of_dec n_eq_dec n_countable) b ownedset))
      then Some (EBitSetUnowned b)
      else None) used
  in
  let nused_data = N.of_nat (length used) in
  let fixed_ok =
    N.eqb nset
      (N.add (N.add nused_data l.l_dstart)
        (N.sub
          (N.mul l.l_nbb (Npos (XO (XO (XO (XO (XO (XO (XO (XO (XO (XO (XO
            (XO (XO (XO (XO XH))))))))))))))))) sz))
  in
  let zerr =
    omap (Obj.magic (fun _ _ -> list_omap)) (fun p ->
      let b = fst p in
      if (&&)
           ((&&) (in_data l b)
             (negb
               (bool_decide
                 (decide_rel (gset_elem_of_dec n_eq_dec n_countable) b
                   ownedset))))
           (negb
             (bool_decide
               (decide_rel (gset_elem_of_dec n_eq_dec n_countable) b usedset)))
      then Some (ENonZeroFree b)
      else None) (map_to_list (gmap_to_list n_eq_dec n_countable) d)
  in
  let (iused, _) = set_bits d l.l_ibstart (Npos XH) N0 l.l_ninode in
  let iusedset = gs_of_list n_eq_dec n_countable iused in
  let ierr =
    app
      (omap (Obj.magic (fun _ _ -> list_omap)) (fun i ->
        if (||)
             (bool_decide
               (decide_rel (gset_elem_of_dec n_eq_dec n_countable) i
                 st.w_seen)) (N.eqb i N0)
        then None
        else if N.eqb (read_inode l d i).i_kind N0
             then Some (EInodeBitFree i)
             else None) (Obj.magic iused))
      (omap (Obj.magic (fun _ _ -> list_omap)) (fun p ->
        if bool_decide
             (decide_rel (gset_elem_of_dec n_eq_dec n_countable) (fst p)
               iusedset)
        then None
        else Some (EInodeBit (fst p))) st.w_objs)
  in
  { r_objs = st.w_objs; r_errs =
  (app st.w_errs
    (app errs2
      (app derr
        (app (Obj.magic berr)
          (app (Obj.magic uerr)
            (app (if fixed_ok then [] else EBitmapFixed :: [])
              (app (Obj.magic zerr) (Obj.magic ierr)))))))); r_used_blocks =
  nused_data; r_used_inodes = (N.of_nat (length iused)) }

(** val empty_disk : disk **)

let empty_disk =
  empty0 (gmap_empty n_eq_dec n_countable)

(** val encode_inode : dinode -> bytes **)

let encode_inode ip =
  app (le (S (S (S (S O)))) ip.i_kind)
    (app (le (S (S (S (S O)))) ip.i_nlink)
      (app (le (S (S (S (S (S (S (S (S O)))))))) ip.i_gen)
        (app (le (S (S (S (S (S (S (S (S O)))))))) ip.i_size)
          (app (le (S (S (S (S (S (S (S (S O)))))))) ip.i_shrink)
            (app (le (S (S (S (S O)))) (fst ip.i_atime))
              (app (le (S (S (S (S O)))) (snd ip.i_atime))
                (app (le (S (S (S (S O)))) (fst ip.i_mtime))
                  (app (le (S (S (S (S O)))) (snd ip.i_mtime))
                    (concat
                      (map (le (S (S (S (S (S (S (S (S O))))))))) ip.i_blks))))))))))

type 'entry slot = 'entry option

type 'entry dir = 'entry slot list

(** val scan :
    ('a1 -> n) -> 'a1 dir -> nat -> n -> n -> ((nat * 'a1) list * bool) * nat **)

let rec scan cost l base n0 count =
  match l with
  | [] -> (([], true), base)
  | s :: r ->
    (match s with
     | Some e ->
       let n' = N.add n0 (cost e) in
       if N.leb count n'
       then ((((base, e) :: []), false), (S base))
       else let (p, nx) = scan cost r (S base) n' count in
            let (es, eof) = p in ((((base, e) :: es), eof), nx)
     | None -> scan cost r (S base) n0 count)

(** val page :
    ('a1 -> n) -> 'a1 dir -> nat -> n -> ((nat * 'a1) list * bool) * nat **)

let page cost d cookie count =
  scan cost (skipn cookie d) cookie (Npos (XO (XO (XO (XO (XO (XO XH)))))))
    count

type oattrs = { oa_ftype : n; oa_size : n; oa_fileid : n; oa_atime : 
                (n * n); oa_mtime : (n * n); oa_nlink : n }

type odirent = { de_fileid : n; de_name : name; de_cookie : n;
                 de_plus : (handle * oattrs) option }

type oreply =
| OStatus of n
| OAttrs of n * oattrs
| OHandle of n * handle * oattrs
| OData of n * bytes * bool
| OWritten of n * n * n * oattrs
| OLink of n * bytes
| ODir of n * odirent list * bool
| OFsinfo of n * n * n
| OPathconf of n * n

(** val code_of : oreply -> n **)

let code_of = function
| OStatus c -> c
| OAttrs (c, _) -> c
| OHandle (c, _, _) -> c
| OData (c, _, _) -> c
| OWritten (c, _, _, _) -> c
| OLink (c, _) -> c
| ODir (c, _, _) -> c
| OFsinfo (c, _, _) -> c
| OPathconf (c, _) -> c

(** val class_of : n -> status **)

let class_of c =
  if N.eqb c N0
  then OK
  else if N.eqb c (Npos (XO (XI (XI (XO (XO (XO XH)))))))
       then STALE
       else if N.eqb c (Npos (XO (XO (XI (XO (XI (XO (XO (XO (XI (XI (XI (XO
                 (XO XH))))))))))))))
            then NOTSUPP
            else ERR

(** val kind_code : kind -> n **)

let kind_code = function
| KFile -> Npos XH
| KDir -> Npos (XO XH)
| KLnk -> Npos (XI (XO XH))

(** val opt_agree : ('a1 -> 'a1 -> bool) -> 'a1 option -> 'a1 -> bool **)

let opt_agree eqb1 x y =
  match x with
  | Some v -> eqb1 v y
  | None -> true

(** val pair_eqb : (n * n) -> (n * n) -> bool **)

let pair_eqb a b =
  (&&) (N.eqb (fst a) (fst b)) (N.eqb (snd a) (snd b))

(** val attrs_agree : attrs -> oattrs -> bool **)

let attrs_agree a o =
  (&&)
    ((&&)
      ((&&)
        ((&&) (N.eqb (kind_code a.a_kind) o.oa_ftype)
          (opt_agree N.eqb a.a_size o.oa_size))
        (N.eqb a.a_fileid o.oa_fileid))
      (opt_agree pair_eqb a.a_atime o.oa_atime))
    (opt_agree pair_eqb a.a_mtime o.oa_mtime)

(** val stable_code : stable -> n **)

let stable_code = function
| Unstable -> N0
| DataSync -> Npos XH
| FileSync -> Npos (XO XH)

(** val increasing : n -> n list -> bool **)

let rec increasing prev = function
| [] -> true
| x :: r -> (&&) (N.ltb prev x) (increasing x r)

(** val dirent_ok : afs -> inum -> obj -> odirent -> bool **)

let dirent_ok s di d e =
  (&&)
    (if bool_decide (decide_rel (list_eq_dec0 byte_eq_dec0) e.de_name dot)
     then N.eqb e.de_fileid di
     else if bool_decide
               (decide_rel (list_eq_dec0 byte_eq_dec0) e.de_name dotdot)
          then N.eqb e.de_fileid d.o_parent
          else bool_decide
                 (decide_rel (option_eq_dec n_eq_dec)
                   (lookup0
                     (gmap_lookup (list_eq_dec0 byte_eq_dec0)
                       (list_countable byte_eq_dec0 byte_countable))
                     e.de_name d.o_ents) (Some e.de_fileid)))
    (match e.de_plus with
     | Some p ->
       let (h, oa) = p in
       (match lookup0 (gmap_lookup n_eq_dec n_countable) e.de_fileid s.objs with
        | Some o ->
          (&&) (bytes_eqb h (mk_handle e.de_fileid o.o_gen))
            (attrs_agree (attrs_of e.de_fileid o) oa)
        | None -> false)
     | None -> true)

(** val dir_agree : afs -> inum -> n -> odirent list -> bool -> bool **)

let dir_agree s di cookie ents eof =
  match lookup0 (gmap_lookup n_eq_dec n_countable) di s.objs with
  | Some d ->
    (&&)
      ((&&)
        ((&&)
          ((&&) (forallb (dirent_ok s di d) ents)
            (negb
              (has_dup (map (fun o -> o.de_name) ents)
                (empty0
                  (gset_empty (list_eq_dec0 byte_eq_dec0)
                    (list_countable byte_eq_dec0 byte_countable))))))
          (increasing cookie (map (fun o -> o.de_cookie) ents)))
        ((||) (negb (bool_decide (list_eq_nil_dec ents))) eof))
      (if (&&) (N.eqb cookie N0) eof
       then Nat.eqb (length ents)
              (add
                (size0
                  (map_size
                    (gmap_to_list (list_eq_dec0 byte_eq_dec0)
                      (list_countable byte_eq_dec0 byte_countable))) d.o_ents)
                (S (S O)))
       else true)
  | None -> false

(** val agree : afs -> reply -> oreply -> bool **)

let agree s r o =
  match r with
  | RStatus st ->
    bool_decide (decide_rel status_eq_dec (class_of (code_of o)) st)
  | RAttrs a ->
    (match o with
     | OAttrs (code, oa) ->
       (match code with
        | N0 -> attrs_agree a oa
        | Npos _ -> false)
     | _ -> false)
  | RHandle (h, a) ->
    (match o with
     | OHandle (code, oh, oa) ->
       (match code with
        | N0 -> (&&) (bytes_eqb h oh) (attrs_agree a oa)
        | Npos _ -> false)
     | _ -> false)
  | RData (dd, eof) ->
    (match o with
     | OData (code, od, oeof) ->
       (match code with
        | N0 -> (&&) (bytes_eqb dd od) (opt_agree eqb eof oeof)
        | Npos _ -> false)
     | _ -> false)
  | RWritten (cnt, st, a) ->
    (match o with
     | OWritten (code, ocnt, ocm, oa) ->
       (match code with
        | N0 ->
          (&&) ((&&) (N.eqb cnt ocnt) (N.eqb (stable_code st) ocm))
            (attrs_agree a oa)
        | Npos _ -> false)
     | _ -> false)
  | RLink dd ->
    (match o with
     | OLink (code, od) ->
       (match code with
        | N0 -> bytes_eqb dd od
        | Npos _ -> false)
     | _ -> false)
  | RDir (di, cookie) ->
    (match o with
     | ODir (code, ents, eof) ->
       (match code with
        | N0 -> dir_agree s di cookie ents eof
        | Npos _ -> false)
     | _ -> false)
  | RFsinfo (w1, m) ->
    (match o with
     | OFsinfo (code, ow, om) ->
       (match code with
        | N0 -> (&&) (N.eqb w1 ow) (N.eqb m om)
        | Npos _ -> false)
     | _ -> false)
  | RPathconf n0 ->
    (match o with
     | OPathconf (code, on) ->
       (match code with
        | N0 -> N.eqb n0 on
        | Npos _ -> false)
     | _ -> false)

(** val hint_of : call -> oreply -> hint **)

let hint_of c o = match o with
| OHandle (code, h, _) ->
  (match code with
   | N0 -> HHandle h
   | Npos _ ->
     if (||) (N.eqb (code_of o) (Npos (XO (XO (XI (XI XH))))))
          (N.eqb (code_of o) (Npos (XI (XO (XI (XO (XO (XO XH))))))))
     then HNoSpace
     else HNone)
| OWritten (code, ocnt, _, _) ->
  (match code with
   | N0 ->
     (match c with
      | CWrite (_, _, cnt, _, _) ->
        if N.ltb ocnt cnt then HShort ocnt else HNone
      | _ -> HNone)
   | Npos _ ->
     if (||) (N.eqb (code_of o) (Npos (XO (XO (XI (XI XH))))))
          (N.eqb (code_of o) (Npos (XI (XO (XI (XO (XO (XO XH))))))))
     then HNoSpace
     else HNone)
| _ ->
  if (||) (N.eqb (code_of o) (Npos (XO (XO (XI (XI XH))))))
       (N.eqb (code_of o) (Npos (XI (XO (XI (XO (XO (XO XH))))))))
  then HNoSpace
  else HNone

type mismatch =
| MMissing of n
| MExtra of n
| MKind of n
| MGen of n
| MSize of n
| MParent of n
| MEnts of n
| MData of n * n
| MTime of n

(** val chunks_agree :
    n -> (n, bytes) gmap -> (n * bytes) list -> mismatch list **)

let chunks_agree i am ab =
  let abm =
    list_to_map (map_insert (gmap_partial_alter n_eq_dec n_countable))
      (gmap_empty n_eq_dec n_countable) ab
  in
  app
    (omap (Obj.magic (fun _ _ -> list_omap)) (fun p ->
      if bytes_eqb (snd p) (chunk_of abm (fst p))
      then None
      else Some (MData (i, (fst p))))
      (Obj.magic map_to_list (gmap_to_list n_eq_dec n_countable) am))
    (omap (Obj.magic (fun _ _ -> list_omap)) (fun p ->
      if bytes_eqb (snd p) (chunk_of am (fst p))
      then None
      else Some (MData (i, (fst p)))) (Obj.magic ab))

(** val obj_agree : n -> obj -> aobj -> mismatch list **)

let obj_agree i o a =
  app (if N.eqb (kind_code o.o_kind) a.ab_kind then [] else (MKind i) :: [])
    (app (if N.eqb o.o_gen a.ab_gen then [] else (MGen i) :: [])
      (app
        (if is_dir o
         then []
         else if N.eqb o.o_size a.ab_size then [] else (MSize i) :: [])
        (app (if N.eqb o.o_parent a.ab_parent then [] else (MParent i) :: [])
          (app
            (if bool_decide
                  (decide_rel
                    (gmap_eq_eq (list_eq_dec0 byte_eq_dec0)
                      (list_countable byte_eq_dec0 byte_countable) n_eq_dec)
                    o.o_ents
                    (list_to_map
                      (map_insert
                        (gmap_partial_alter (list_eq_dec0 byte_eq_dec0)
                          (list_countable byte_eq_dec0 byte_countable)))
                      (gmap_empty (list_eq_dec0 byte_eq_dec0)
                        (list_countable byte_eq_dec0 byte_countable))
                      a.ab_ents))
             then []
             else (MEnts i) :: [])
            (app
              (if (&&) (opt_agree pair_eqb o.o_atime a.ab_atime)
                    (opt_agree pair_eqb o.o_mtime a.ab_mtime)
               then []
               else (MTime i) :: [])
              (if is_dir o then [] else chunks_agree i o.o_data a.ab_chunks))))))

(** val cmp_state : afs -> abs_result -> mismatch list **)

let cmp_state s r =
  let abm =
    list_to_map (map_insert (gmap_partial_alter n_eq_dec n_countable))
      (gmap_empty n_eq_dec n_countable) r.r_objs
  in
  app
    (omap (Obj.magic (fun _ _ -> list_omap)) (fun p ->
      match lookup0 (gmap_lookup n_eq_dec n_countable) (fst p) abm with
      | Some _ -> None
      | None -> Some (MMissing (fst p)))
      (Obj.magic map_to_list (gmap_to_list n_eq_dec n_countable) s.objs))
    (concat
      (map (fun p ->
        match lookup0 (gmap_lookup n_eq_dec n_countable) (fst p) s.objs with
        | Some o -> obj_agree (fst p) o (snd p)
        | None -> (MExtra (fst p)) :: []) r.r_objs))

(** val need_blocks : call -> n **)

let need_blocks = function
| CWrite (_, _, cnt, _, _) ->
  N.add (N.add (N.div cnt bS0) (Npos (XO XH))) (Npos (XI XH))
| CCreate (_, _, _) -> Npos XH
| CMkdir (_, _) -> Npos (XO XH)
| CSymlink (_, _, t) ->
  N.add (N.add (N.div (lenN0 t) bS0) (Npos (XO XH))) (Npos XH)
| CRename (_, _, _, _) -> Npos XH
| _ -> N0

(** val needs_inode : call -> bool **)

let needs_inode = function
| CCreate (_, _, _) -> true
| CMkdir (_, _) -> true
| CSymlink (_, _, _) -> true
| _ -> false

(** val nospace_plausible : call -> n -> n -> bool **)

let nospace_plausible c free_blocks free_inodes =
  (||) (N.ltb free_blocks (need_blocks c))
    ((&&) (needs_inode c) (N.eqb free_inodes N0))

(** val cached_inode_ok : n -> disk -> n -> bytes -> bool **)

let cached_inode_ok sz d i enc =
  (&&) (bytes_eqb enc (inode_bytes (mk_layout sz) d i))
    (bytes_eqb (encode_inode (decode_inode enc)) enc)

(** val dir_slot_list : n -> disk -> n -> ((name * n) * n) list **)

let dir_slot_list sz d i =
  let l = mk_layout sz in
  let ip = read_inode l d i in
  let (leaves, _) = inode_blocks d ip in
  let slots = dir_slots d (leaf_map leaves) ip.i_size in
  omap (Obj.magic (fun _ _ -> list_omap)) (fun ks ->
    match snd ks with
    | Some y ->
      let (n0, j) = y in Some ((n0, j), (N.mul (N.of_nat (fst ks)) dIRENTSZ))
    | None -> None) (imap (fun k s -> ((Obj.magic k), (Obj.magic s))) slots)

(** val triple_eqb : ((name * n) * n) -> ((name * n) * n) -> bool **)

let triple_eqb a b =
  (&&)
    ((&&) (bytes_eqb (fst (fst a)) (fst (fst b)))
      (N.eqb (snd (fst a)) (snd (fst b)))) (N.eqb (snd a) (snd b))

(** val name_cache_ok : n -> disk -> n -> ((name * n) * n) list -> bool **)

let name_cache_ok sz d i ents =
  let want = dir_slot_list sz d i in
  (&&)
    ((&&) (Nat.eqb (length ents) (length want))
      (forallb (fun e -> existsb (triple_eqb e) want) ents))
    (forallb (fun e -> existsb (triple_eqb e) ents) want)

(** val enum_names : afs -> inum -> name list **)

let enum_names s di =
  match lookup0 (gmap_lookup n_eq_dec n_countable) di s.objs with
  | Some d ->
    dot :: (dotdot :: (map fst
                        (map_to_list
                          (gmap_to_list (list_eq_dec0 byte_eq_dec0)
                            (list_countable byte_eq_dec0 byte_countable))
                          d.o_ents)))
  | None -> []

(** val dir_slots_of : n -> disk -> n -> (name * n) option list **)

let dir_slots_of sz d i =
  let l = mk_layout sz in
  let ip = read_inode l d i in
  let (leaves, _) = inode_blocks d ip in
  dir_slots d (leaf_map leaves) ip.i_size

(** val readdir_cost : (name * n) -> n **)

let readdir_cost e =
  N.add (lenN0 (fst e)) (Npos (XO (XO (XO (XO (XO XH))))))

(** val model_page :
    (name * n) option list -> n -> n -> ((nat * (name * n)) list * bool) * nat **)

let model_page slots cookie count =
  page readdir_cost slots (N.to_nat (N.div cookie dIRENTSZ)) count

(** val readdir_matches_model :
    n -> disk -> n -> n -> n -> odirent list -> bool -> bool **)

let readdir_matches_model sz d i cookie count ents eof =
  let (p, _) = model_page (dir_slots_of sz d i) cookie count in
  let (es, meof) = p in
  (&&) ((&&) (eqb eof meof) (Nat.eqb (length ents) (length es)))
    (forallb (fun p0 ->
      let (e, y) = p0 in
      let (idx, y0) = y in
      let (nm, inum0) = y0 in
      (&&) ((&&) (bytes_eqb e.de_name nm) (N.eqb e.de_fileid inum0))
        (N.eqb e.de_cookie (N.mul (N.add (N.of_nat idx) (Npos XH)) dIRENTSZ)))
      (combine ents es))

(** val lOGSZ : n **)

let lOGSZ =
  Npos (XI (XI (XI (XI (XI (XI (XI (XI XH))))))))

(** val lOGSTART : n **)

let lOGSTART =
  Npos (XO XH)

type log_hdr = { lh_start : n; lh_end : n; lh_addrs : n list }

(** val read_hdr : disk -> log_hdr **)

let read_hdr d =
  let h1 = rd d N0 in
  { lh_start = (get64 (rd d (Npos XH)) N0); lh_end = (get64 h1 N0);
  lh_addrs =
  (words (S (S (S (S (S (S (S (S (S (S (S (S (S (S (S (S (S (S (S (S (S (S (S
    (S (S (S (S (S (S (S (S (S (S (S (S (S (S (S (S (S (S (S (S (S (S (S (S
    (S (S (S (S (S (S (S (S (S (S (S (S (S (S (S (S (S (S (S (S (S (S (S (S
    (S (S (S (S (S (S (S (S (S (S (S (S (S (S (S (S (S (S (S (S (S (S (S (S
    (S (S (S (S (S (S (S (S (S (S (S (S (S (S (S (S (S (S (S (S (S (S (S (S
    (S (S (S (S (S (S (S (S (S (S (S (S (S (S (S (S (S (S (S (S (S (S (S (S
    (S (S (S (S (S (S (S (S (S (S (S (S (S (S (S (S (S (S (S (S (S (S (S (S
    (S (S (S (S (S (S (S (S (S (S (S (S (S (S (S (S (S (S (S (S (S (S (S (S
    (S (S (S (S (S (S (S (S (S (S (S (S (S (S (S (S (S (S (S (S (S (S (S (S
    (S (S (S (S (S (S (S (S (S (S (S (S (S (S (S (S (S (S (S (S (S (S (S (S
    (S (S (S (S (S (S (S (S (S (S (S (S (S (S (S (S (S (S (S (S (S (S (S (S
    (S (S (S (S (S (S (S (S (S (S (S (S (S (S (S (S (S (S (S (S (S (S (S (S
    (S (S (S (S (S (S (S (S (S (S (S (S (S (S (S (S (S (S (S (S (S (S (S (S
    (S (S (S (S (S (S (S (S (S (S (S (S (S (S (S (S (S (S (S (S (S (S (S (S
    (S (S (S (S (S (S (S (S (S (S (S (S (S (S (S (S (S (S (S (S (S (S (S (S
    (S (S (S (S (S (S (S (S (S (S (S (S (S (S (S (S (S (S (S (S (S (S (S (S
    (S (S (S (S (S (S (S (S (S (S (S (S (S (S (S (S (S (S (S (S (S (S (S (S
    (S (S (S (S (S (S (S (S (S (S (S (S (S (S (S (S (S (S (S (S (S (S (S (S
    (S (S (S (S (S (S (S (S (S (S (S (S (S (S (S (S (S (S (S (S (S (S (S (S
    (S (S (S (S (S (S (S (S (S (S (S (S (S (S (S (S (S (S (S (S (S (S (S (S
    (S (S (S (S (S (S (S (S (S (S (S (S (S (S (S (S (S (S (S (S (S (S (S (S
    (S (S (S (S (S (S (S (S
    O)))))))))))))))))))))))))))))))))))))))))))))))))))))))))))))))))))))))))))))))))))))))))))))))))))))))))))))))))))))))))))))))))))))))))))))))))))))))))))))))))))))))))))))))))))))))))))))))))))))))))))))))))))))))))))))))))))))))))))))))))))))))))))))))))))))))))))))))))))))))))))))))))))))))))))))))))))))))))))))))))))))))))))))))))))))))))))))))))))))))))))))))))))))))))))))))))))))))))))))))))))))))))))))))))))))))))))))))))))))))))))))))))))))))))))))))))))))))))))))))))))))))))))))))))))))))))))))))
    (skipn (S (S (S (S (S (S (S (S O)))))))) h1)) }

(** val positions : nat -> n -> n list **)

let rec positions n0 start =
  match n0 with
  | O -> []
  | S n1 -> start :: (positions n1 (N.add start (Npos XH)))

(** val recover_log : disk -> disk option **)

let recover_log d =
  let h = read_hdr d in
  if (||) (N.ltb h.lh_end h.lh_start)
       (N.ltb lOGSZ (N.sub h.lh_end h.lh_start))
  then None
  else Some
         (fold_left (fun acc pos ->
           let slot0 = N.modulo pos lOGSZ in
           disk_set acc (nth (N.to_nat slot0) h.lh_addrs N0)
             (rd d (N.add lOGSTART slot0)))
           (positions (N.to_nat (N.sub h.lh_end h.lh_start)) h.lh_start) d)

(** val fs_part : disk -> (n * bytes) list **)

let fs_part d =
  filter1 (fun _ -> list_filter) (fun x ->
    is_true_dec
      (N.leb (Npos (XI (XO (XO (XO (XO (XO (XO (XO (XO XH)))))))))) (fst x)))
    (map_to_list (gmap_to_list n_eq_dec n_countable) d)

type tev =
| TAcq of n
| TRel of n
| TCommit of bool
| TCommitted of bool
| TAbort
| TFlush
| TFlushed of bool
| TFresh of n

(** val remove1 : n -> n list -> n list **)

let rec remove1 i = function
| [] -> []
| x :: r -> if N.eqb x i then r else x :: (remove1 i r)

(** val asc_f : n list -> n list -> tev list -> bool **)

let rec asc_f fresh0 held = function
| [] -> true
| t :: r ->
  (match t with
   | TAcq i ->
     (&&)
       (if existsb (N.eqb i) fresh0
        then negb (existsb (N.eqb i) held)
        else forallb (fun h -> N.ltb h i)
               (filter (fun h -> negb (existsb (N.eqb h) fresh0)) held))
       (asc_f fresh0 (i :: held) r)
   | TRel i -> asc_f fresh0 (remove1 i held) r
   | TFresh i -> asc_f (i :: fresh0) held r
   | _ -> asc_f fresh0 held r)

(** val asc_b : n list -> tev list -> bool **)

let rec asc_b held = function
| [] -> true
| t :: r ->
  (match t with
   | TAcq i -> (&&) (forallb (fun h -> N.ltb h i) held) (asc_b (i :: held) r)
   | TRel i -> asc_b (remove1 i held) r
   | _ -> asc_b held r)

(** val commit_phase_b : n -> tev list -> bool **)

let rec commit_phase_b st = function
| [] -> true
| t :: r ->
  (match t with
   | TAcq _ -> (&&) (N.eqb st N0) (commit_phase_b st r)
   | TRel _ -> (&&) (negb (N.eqb st (Npos XH))) (commit_phase_b st r)
   | TCommit _ -> (&&) (N.eqb st N0) (commit_phase_b (Npos XH) r)
   | TAbort -> (&&) (N.eqb st N0) (commit_phase_b st r)
   | TFlush -> (&&) (N.eqb st N0) (commit_phase_b (Npos XH) r)
   | TFresh _ -> commit_phase_b st r
   | _ -> (&&) (N.eqb st (Npos XH)) (commit_phase_b (Npos (XO XH)) r))

(** val balanced_b : n list -> tev list -> bool **)

let rec balanced_b held = function
| [] -> (match held with
         | [] -> true
         | _ :: _ -> false)
| t :: r ->
  (match t with
   | TAcq i -> balanced_b (i :: held) r
   | TRel i -> (&&) (existsb (N.eqb i) held) (balanced_b (remove1 i held) r)
   | _ -> balanced_b held r)

(** val waits : tev list -> bool list **)

let waits evs =
  flat_map (fun e -> match e with
                     | TCommit w1 -> w1 :: []
                     | _ -> []) evs

(** val committed : tev list -> bool **)

let committed evs =
  existsb (fun e ->
    match e with
    | TCommitted ok -> ok
    | TFlushed ok -> ok
    | _ -> false) evs
