(* GENERATED from nfstypes/nfs_xdr.go and cmd/*/main.go — do not edit *)
From Coq Require Import List NArith String.
From V Require Import Model.Xdr.
Import ListNotations.
Open Scope string_scope.
Open Scope N_scope.

Definition gen_env : env := [
  ("ACCESS3args", (TSeq [IField "Object" (TRef "Nfs_fh3"); IField "Access" (TRef "Uint32")]));
  ("ACCESS3res", (TSeq [IField "Status" (TRef "Nfsstat3"); ISwitch "Status" [(0, [IField "Resok" (TRef "ACCESS3resok")])] (Some [IField "Resfail" (TRef "ACCESS3resfail")])]));
  ("ACCESS3resfail", (TSeq [IField "Obj_attributes" (TRef "Post_op_attr")]));
  ("ACCESS3resok", (TSeq [IField "Obj_attributes" (TRef "Post_op_attr"); IField "Access" (TRef "Uint32")]));
  ("Bool", TBool);
  ("COMMIT3args", (TSeq [IField "File" (TRef "Nfs_fh3"); IField "Offset" (TRef "Offset3"); IField "Count" (TRef "Count3")]));
  ("COMMIT3res", (TSeq [IField "Status" (TRef "Nfsstat3"); ISwitch "Status" [(0, [IField "Resok" (TRef "COMMIT3resok")])] (Some [IField "Resfail" (TRef "COMMIT3resfail")])]));
  ("COMMIT3resfail", (TSeq [IField "File_wcc" (TRef "Wcc_data")]));
  ("COMMIT3resok", (TSeq [IField "File_wcc" (TRef "Wcc_data"); IField "Verf" (TRef "Writeverf3")]));
  ("CREATE3args", (TSeq [IField "Where" (TRef "Diropargs3"); IField "How" (TRef "Createhow3")]));
  ("CREATE3res", (TSeq [IField "Status" (TRef "Nfsstat3"); ISwitch "Status" [(0, [IField "Resok" (TRef "CREATE3resok")])] (Some [IField "Resfail" (TRef "CREATE3resfail")])]));
  ("CREATE3resfail", (TSeq [IField "Dir_wcc" (TRef "Wcc_data")]));
  ("CREATE3resok", (TSeq [IField "Obj" (TRef "Post_op_fh3"); IField "Obj_attributes" (TRef "Post_op_attr"); IField "Dir_wcc" (TRef "Wcc_data")]));
  ("Cookie3", (TRef "Uint64"));
  ("Cookieverf3", (TFixed 8));
  ("Count3", (TRef "Uint32"));
  ("Createhow3", (TSeq [IField "Mode" (TRef "Createmode3"); ISwitch "Mode" [(0, [IField "Obj_attributes" (TRef "Sattr3")]); (1, [IField "Obj_attributes" (TRef "Sattr3")]); (2, [IField "Verf" (TRef "Createverf3")])] None]));
  ("Createmode3", TU32);
  ("Createverf3", (TFixed 8));
  ("Devicedata3", (TSeq [IField "Dev_attributes" (TRef "Sattr3"); IField "Spec" (TRef "Specdata3")]));
  ("Dirlist3", (TSeq [IField "Entries" (TOpt (TRef "Entry3")); IField "Eof" TBool]));
  ("Dirlistplus3", (TSeq [IField "Entries" (TOpt (TRef "Entryplus3")); IField "Eof" TBool]));
  ("Diropargs3", (TSeq [IField "Dir" (TRef "Nfs_fh3"); IField "Name" (TRef "Filename3")]));
  ("Dirpath3", (TVar (Some 1024)));
  ("Entry3", (TSeq [IField "Fileid" (TRef "Fileid3"); IField "Name" (TRef "Filename3"); IField "Cookie" (TRef "Cookie3"); IField "Nextentry" (TOpt (TRef "Entry3"))]));
  ("Entryplus3", (TSeq [IField "Fileid" (TRef "Fileid3"); IField "Name" (TRef "Filename3"); IField "Cookie" (TRef "Cookie3"); IField "Name_attributes" (TRef "Post_op_attr"); IField "Name_handle" (TRef "Post_op_fh3"); IField "Nextentry" (TOpt (TRef "Entryplus3"))]));
  ("Exports3", (TSeq [IField "Ex_dir" (TRef "Dirpath3"); IField "Ex_groups" (TOpt (TRef "Groups3")); IField "Ex_next" (TOpt (TRef "Exports3"))]));
  ("Exportsopt3", (TSeq [IField "P" (TOpt (TRef "Exports3"))]));
  ("FSINFO3args", (TSeq [IField "Fsroot" (TRef "Nfs_fh3")]));
  ("FSINFO3res", (TSeq [IField "Status" (TRef "Nfsstat3"); ISwitch "Status" [(0, [IField "Resok" (TRef "FSINFO3resok")])] (Some [IField "Resfail" (TRef "FSINFO3resfail")])]));
  ("FSINFO3resfail", (TSeq [IField "Obj_attributes" (TRef "Post_op_attr")]));
  ("FSINFO3resok", (TSeq [IField "Obj_attributes" (TRef "Post_op_attr"); IField "Rtmax" (TRef "Uint32"); IField "Rtpref" (TRef "Uint32"); IField "Rtmult" (TRef "Uint32"); IField "Wtmax" (TRef "Uint32"); IField "Wtpref" (TRef "Uint32"); IField "Wtmult" (TRef "Uint32"); IField "Dtpref" (TRef "Uint32"); IField "Maxfilesize" (TRef "Size3"); IField "Time_delta" (TRef "Nfstime3"); IField "Properties" (TRef "Uint32")]));
  ("FSSTAT3args", (TSeq [IField "Fsroot" (TRef "Nfs_fh3")]));
  ("FSSTAT3res", (TSeq [IField "Status" (TRef "Nfsstat3"); ISwitch "Status" [(0, [IField "Resok" (TRef "FSSTAT3resok")])] (Some [IField "Resfail" (TRef "FSSTAT3resfail")])]));
  ("FSSTAT3resfail", (TSeq [IField "Obj_attributes" (TRef "Post_op_attr")]));
  ("FSSTAT3resok", (TSeq [IField "Obj_attributes" (TRef "Post_op_attr"); IField "Tbytes" (TRef "Size3"); IField "Fbytes" (TRef "Size3"); IField "Abytes" (TRef "Size3"); IField "Tfiles" (TRef "Size3"); IField "Ffiles" (TRef "Size3"); IField "Afiles" (TRef "Size3"); IField "Invarsec" (TRef "Uint32")]));
  ("Fattr3", (TSeq [IField "Ftype" (TRef "Ftype3"); IField "Mode" (TRef "Mode3"); IField "Nlink" (TRef "Uint32"); IField "Uid" (TRef "Uid3"); IField "Gid" (TRef "Gid3"); IField "Size" (TRef "Size3"); IField "Used" (TRef "Size3"); IField "Rdev" (TRef "Specdata3"); IField "Fsid" (TRef "Uint64"); IField "Fileid" (TRef "Fileid3"); IField "Atime" (TRef "Nfstime3"); IField "Mtime" (TRef "Nfstime3"); IField "Ctime" (TRef "Nfstime3")]));
  ("Fhandle3", (TVar (Some 64)));
  ("Fileid3", (TRef "Uint64"));
  ("Filename3", (TVar None));
  ("Ftype3", TU32);
  ("GETATTR3args", (TSeq [IField "Object" (TRef "Nfs_fh3")]));
  ("GETATTR3res", (TSeq [IField "Status" (TRef "Nfsstat3"); ISwitch "Status" [(0, [IField "Resok" (TRef "GETATTR3resok")])] (Some [])]));
  ("GETATTR3resok", (TSeq [IField "Obj_attributes" (TRef "Fattr3")]));
  ("Gid3", (TRef "Uint32"));
  ("Groups3", (TSeq [IField "Gr_name" (TRef "Name3"); IField "Gr_next" (TOpt (TRef "Groups3"))]));
  ("Int32", TU32);
  ("Int64", TU64);
  ("LINK3args", (TSeq [IField "File" (TRef "Nfs_fh3"); IField "Link" (TRef "Diropargs3")]));
  ("LINK3res", (TSeq [IField "Status" (TRef "Nfsstat3"); ISwitch "Status" [(0, [IField "Resok" (TRef "LINK3resok")])] (Some [IField "Resfail" (TRef "LINK3resfail")])]));
  ("LINK3resfail", (TSeq [IField "File_attributes" (TRef "Post_op_attr"); IField "Linkdir_wcc" (TRef "Wcc_data")]));
  ("LINK3resok", (TSeq [IField "File_attributes" (TRef "Post_op_attr"); IField "Linkdir_wcc" (TRef "Wcc_data")]));
  ("LOOKUP3args", (TSeq [IField "What" (TRef "Diropargs3")]));
  ("LOOKUP3res", (TSeq [IField "Status" (TRef "Nfsstat3"); ISwitch "Status" [(0, [IField "Resok" (TRef "LOOKUP3resok")])] (Some [IField "Resfail" (TRef "LOOKUP3resfail")])]));
  ("LOOKUP3resfail", (TSeq [IField "Dir_attributes" (TRef "Post_op_attr")]));
  ("LOOKUP3resok", (TSeq [IField "Object" (TRef "Nfs_fh3"); IField "Obj_attributes" (TRef "Post_op_attr"); IField "Dir_attributes" (TRef "Post_op_attr")]));
  ("MKDIR3args", (TSeq [IField "Where" (TRef "Diropargs3"); IField "Attributes" (TRef "Sattr3")]));
  ("MKDIR3res", (TSeq [IField "Status" (TRef "Nfsstat3"); ISwitch "Status" [(0, [IField "Resok" (TRef "MKDIR3resok")])] (Some [IField "Resfail" (TRef "MKDIR3resfail")])]));
  ("MKDIR3resfail", (TSeq [IField "Dir_wcc" (TRef "Wcc_data")]));
  ("MKDIR3resok", (TSeq [IField "Obj" (TRef "Post_op_fh3"); IField "Obj_attributes" (TRef "Post_op_attr"); IField "Dir_wcc" (TRef "Wcc_data")]));
  ("MKNOD3args", (TSeq [IField "Where" (TRef "Diropargs3"); IField "What" (TRef "Mknoddata3")]));
  ("MKNOD3res", (TSeq [IField "Status" (TRef "Nfsstat3"); ISwitch "Status" [(0, [IField "Resok" (TRef "MKNOD3resok")])] (Some [IField "Resfail" (TRef "MKNOD3resfail")])]));
  ("MKNOD3resfail", (TSeq [IField "Dir_wcc" (TRef "Wcc_data")]));
  ("MKNOD3resok", (TSeq [IField "Obj" (TRef "Post_op_fh3"); IField "Obj_attributes" (TRef "Post_op_attr"); IField "Dir_wcc" (TRef "Wcc_data")]));
  ("Mknoddata3", (TSeq [IField "Ftype" (TRef "Ftype3"); ISwitch "Ftype" [(4, [IField "Device" (TRef "Devicedata3")]); (3, [IField "Device" (TRef "Devicedata3")]); (6, [IField "Pipe_attributes" (TRef "Sattr3")]); (7, [IField "Pipe_attributes" (TRef "Sattr3")])] (Some [])]));
  ("Mode3", (TRef "Uint32"));
  ("Mount3", (TSeq [IField "Ml_hostname" (TRef "Name3"); IField "Ml_directory" (TRef "Dirpath3"); IField "Ml_next" (TOpt (TRef "Mount3"))]));
  ("Mountopt3", (TSeq [IField "P" (TOpt (TRef "Mount3"))]));
  ("Mountres3", (TSeq [IField "Fhs_status" (TRef "Mountstat3"); ISwitch "Fhs_status" [(0, [IField "Mountinfo" (TRef "Mountres3_ok")])] (Some [])]));
  ("Mountres3_ok", (TSeq [IField "Fhandle" (TRef "Fhandle3"); IField "Auth_flavors" TArr32]));
  ("Mountstat3", TU32);
  ("Name3", (TVar (Some 255)));
  ("Nfs_fh3", (TSeq [IField "Data" (TVar (Some 64))]));
  ("Nfspath3", (TVar None));
  ("Nfsstat3", TU32);
  ("Nfstime3", (TSeq [IField "Seconds" (TRef "Uint32"); IField "Nseconds" (TRef "Uint32")]));
  ("Offset3", (TRef "Uint64"));
  ("PATHCONF3args", (TSeq [IField "Object" (TRef "Nfs_fh3")]));
  ("PATHCONF3res", (TSeq [IField "Status" (TRef "Nfsstat3"); ISwitch "Status" [(0, [IField "Resok" (TRef "PATHCONF3resok")])] (Some [IField "Resfail" (TRef "PATHCONF3resfail")])]));
  ("PATHCONF3resfail", (TSeq [IField "Obj_attributes" (TRef "Post_op_attr")]));
  ("PATHCONF3resok", (TSeq [IField "Obj_attributes" (TRef "Post_op_attr"); IField "Linkmax" (TRef "Uint32"); IField "Name_max" (TRef "Uint32"); IField "No_trunc" TBool; IField "Chown_restricted" TBool; IField "Case_insensitive" TBool; IField "Case_preserving" TBool]));
  ("Post_op_attr", (TSeq [IField "Attributes_follow" TBool; ISwitch "Attributes_follow" [(1, [IField "Attributes" (TRef "Fattr3")]); (0, [])] None]));
  ("Post_op_fh3", (TSeq [IField "Handle_follows" TBool; ISwitch "Handle_follows" [(1, [IField "Handle" (TRef "Nfs_fh3")]); (0, [])] None]));
  ("Pre_op_attr", (TSeq [IField "Attributes_follow" TBool; ISwitch "Attributes_follow" [(1, [IField "Attributes" (TRef "Wcc_attr")]); (0, [])] None]));
  ("READ3args", (TSeq [IField "File" (TRef "Nfs_fh3"); IField "Offset" (TRef "Offset3"); IField "Count" (TRef "Count3")]));
  ("READ3res", (TSeq [IField "Status" (TRef "Nfsstat3"); ISwitch "Status" [(0, [IField "Resok" (TRef "READ3resok")])] (Some [IField "Resfail" (TRef "READ3resfail")])]));
  ("READ3resfail", (TSeq [IField "File_attributes" (TRef "Post_op_attr")]));
  ("READ3resok", (TSeq [IField "File_attributes" (TRef "Post_op_attr"); IField "Count" (TRef "Count3"); IField "Eof" TBool; IField "Data" (TVar None)]));
  ("READDIR3args", (TSeq [IField "Dir" (TRef "Nfs_fh3"); IField "Cookie" (TRef "Cookie3"); IField "Cookieverf" (TRef "Cookieverf3"); IField "Count" (TRef "Count3")]));
  ("READDIR3res", (TSeq [IField "Status" (TRef "Nfsstat3"); ISwitch "Status" [(0, [IField "Resok" (TRef "READDIR3resok")])] (Some [IField "Resfail" (TRef "READDIR3resfail")])]));
  ("READDIR3resfail", (TSeq [IField "Dir_attributes" (TRef "Post_op_attr")]));
  ("READDIR3resok", (TSeq [IField "Dir_attributes" (TRef "Post_op_attr"); IField "Cookieverf" (TRef "Cookieverf3"); IField "Reply" (TRef "Dirlist3")]));
  ("READDIRPLUS3args", (TSeq [IField "Dir" (TRef "Nfs_fh3"); IField "Cookie" (TRef "Cookie3"); IField "Cookieverf" (TRef "Cookieverf3"); IField "Dircount" (TRef "Count3"); IField "Maxcount" (TRef "Count3")]));
  ("READDIRPLUS3res", (TSeq [IField "Status" (TRef "Nfsstat3"); ISwitch "Status" [(0, [IField "Resok" (TRef "READDIRPLUS3resok")])] (Some [IField "Resfail" (TRef "READDIRPLUS3resfail")])]));
  ("READDIRPLUS3resfail", (TSeq [IField "Dir_attributes" (TRef "Post_op_attr")]));
  ("READDIRPLUS3resok", (TSeq [IField "Dir_attributes" (TRef "Post_op_attr"); IField "Cookieverf" (TRef "Cookieverf3"); IField "Reply" (TRef "Dirlistplus3")]));
  ("READLINK3args", (TSeq [IField "Symlink" (TRef "Nfs_fh3")]));
  ("READLINK3res", (TSeq [IField "Status" (TRef "Nfsstat3"); ISwitch "Status" [(0, [IField "Resok" (TRef "READLINK3resok")])] (Some [IField "Resfail" (TRef "READLINK3resfail")])]));
  ("READLINK3resfail", (TSeq [IField "Symlink_attributes" (TRef "Post_op_attr")]));
  ("READLINK3resok", (TSeq [IField "Symlink_attributes" (TRef "Post_op_attr"); IField "Data" (TRef "Nfspath3")]));
  ("REMOVE3args", (TSeq [IField "Object" (TRef "Diropargs3")]));
  ("REMOVE3res", (TSeq [IField "Status" (TRef "Nfsstat3"); ISwitch "Status" [(0, [IField "Resok" (TRef "REMOVE3resok")])] (Some [IField "Resfail" (TRef "REMOVE3resfail")])]));
  ("REMOVE3resfail", (TSeq [IField "Dir_wcc" (TRef "Wcc_data")]));
  ("REMOVE3resok", (TSeq [IField "Dir_wcc" (TRef "Wcc_data")]));
  ("RENAME3args", (TSeq [IField "From" (TRef "Diropargs3"); IField "To" (TRef "Diropargs3")]));
  ("RENAME3res", (TSeq [IField "Status" (TRef "Nfsstat3"); ISwitch "Status" [(0, [IField "Resok" (TRef "RENAME3resok")])] (Some [IField "Resfail" (TRef "RENAME3resfail")])]));
  ("RENAME3resfail", (TSeq [IField "Fromdir_wcc" (TRef "Wcc_data"); IField "Todir_wcc" (TRef "Wcc_data")]));
  ("RENAME3resok", (TSeq [IField "Fromdir_wcc" (TRef "Wcc_data"); IField "Todir_wcc" (TRef "Wcc_data")]));
  ("RMDIR3args", (TSeq [IField "Object" (TRef "Diropargs3")]));
  ("RMDIR3res", (TSeq [IField "Status" (TRef "Nfsstat3"); ISwitch "Status" [(0, [IField "Resok" (TRef "RMDIR3resok")])] (Some [IField "Resfail" (TRef "RMDIR3resfail")])]));
  ("RMDIR3resfail", (TSeq [IField "Dir_wcc" (TRef "Wcc_data")]));
  ("RMDIR3resok", (TSeq [IField "Dir_wcc" (TRef "Wcc_data")]));
  ("SETATTR3args", (TSeq [IField "Object" (TRef "Nfs_fh3"); IField "New_attributes" (TRef "Sattr3"); IField "Guard" (TRef "Sattrguard3")]));
  ("SETATTR3res", (TSeq [IField "Status" (TRef "Nfsstat3"); ISwitch "Status" [(0, [IField "Resok" (TRef "SETATTR3resok")])] (Some [IField "Resfail" (TRef "SETATTR3resfail")])]));
  ("SETATTR3resfail", (TSeq [IField "Obj_wcc" (TRef "Wcc_data")]));
  ("SETATTR3resok", (TSeq [IField "Obj_wcc" (TRef "Wcc_data")]));
  ("SYMLINK3args", (TSeq [IField "Where" (TRef "Diropargs3"); IField "Symlink" (TRef "Symlinkdata3")]));
  ("SYMLINK3res", (TSeq [IField "Status" (TRef "Nfsstat3"); ISwitch "Status" [(0, [IField "Resok" (TRef "SYMLINK3resok")])] (Some [IField "Resfail" (TRef "SYMLINK3resfail")])]));
  ("SYMLINK3resfail", (TSeq [IField "Dir_wcc" (TRef "Wcc_data")]));
  ("SYMLINK3resok", (TSeq [IField "Obj" (TRef "Post_op_fh3"); IField "Obj_attributes" (TRef "Post_op_attr"); IField "Dir_wcc" (TRef "Wcc_data")]));
  ("Sattr3", (TSeq [IField "Mode" (TRef "Set_mode3"); IField "Uid" (TRef "Set_uid3"); IField "Gid" (TRef "Set_gid3"); IField "Size" (TRef "Set_size3"); IField "Atime" (TRef "Set_atime"); IField "Mtime" (TRef "Set_mtime")]));
  ("Sattrguard3", (TSeq [IField "Check" TBool; ISwitch "Check" [(1, [IField "Obj_ctime" (TRef "Nfstime3")]); (0, [])] None]));
  ("Set_atime", (TSeq [IField "Set_it" (TRef "Time_how"); ISwitch "Set_it" [(2, [IField "Atime" (TRef "Nfstime3")])] (Some [])]));
  ("Set_gid3", (TSeq [IField "Set_it" TBool; ISwitch "Set_it" [(1, [IField "Gid" (TRef "Gid3")])] (Some [])]));
  ("Set_mode3", (TSeq [IField "Set_it" TBool; ISwitch "Set_it" [(1, [IField "Mode" (TRef "Mode3")])] (Some [])]));
  ("Set_mtime", (TSeq [IField "Set_it" (TRef "Time_how"); ISwitch "Set_it" [(2, [IField "Mtime" (TRef "Nfstime3")])] (Some [])]));
  ("Set_size3", (TSeq [IField "Set_it" TBool; ISwitch "Set_it" [(1, [IField "Size" (TRef "Size3")])] (Some [])]));
  ("Set_uid3", (TSeq [IField "Set_it" TBool; ISwitch "Set_it" [(1, [IField "Uid" (TRef "Uid3")])] (Some [])]));
  ("Size3", (TRef "Uint64"));
  ("Specdata3", (TSeq [IField "Specdata1" (TRef "Uint32"); IField "Specdata2" (TRef "Uint32")]));
  ("Stable_how", TU32);
  ("Symlinkdata3", (TSeq [IField "Symlink_attributes" (TRef "Sattr3"); IField "Symlink_data" (TRef "Nfspath3")]));
  ("Time_how", TU32);
  ("Uid3", (TRef "Uint32"));
  ("Uint32", TU32);
  ("Uint64", TU64);
  ("WRITE3args", (TSeq [IField "File" (TRef "Nfs_fh3"); IField "Offset" (TRef "Offset3"); IField "Count" (TRef "Count3"); IField "Stable" (TRef "Stable_how"); IField "Data" (TVar None)]));
  ("WRITE3res", (TSeq [IField "Status" (TRef "Nfsstat3"); ISwitch "Status" [(0, [IField "Resok" (TRef "WRITE3resok")])] (Some [IField "Resfail" (TRef "WRITE3resfail")])]));
  ("WRITE3resfail", (TSeq [IField "File_wcc" (TRef "Wcc_data")]));
  ("WRITE3resok", (TSeq [IField "File_wcc" (TRef "Wcc_data"); IField "Count" (TRef "Count3"); IField "Committed" (TRef "Stable_how"); IField "Verf" (TRef "Writeverf3")]));
  ("Wcc_attr", (TSeq [IField "Size" (TRef "Size3"); IField "Mtime" (TRef "Nfstime3"); IField "Ctime" (TRef "Nfstime3")]));
  ("Wcc_data", (TSeq [IField "Before" (TRef "Pre_op_attr"); IField "After" (TRef "Post_op_attr")]));
  ("Writeverf3", (TFixed 8))
].

(* (program, version, procedure, wrapper, argument type, handler method, result type) *)
Definition gen_procs : list (N * N * N * string * string * string * string) := [
  (100003, 3, 0, "NFSPROC3_NULL", "void", "NFSPROC3_NULL", "void");
  (100003, 3, 1, "NFSPROC3_GETATTR", "GETATTR3args", "NFSPROC3_GETATTR", "GETATTR3res");
  (100003, 3, 2, "NFSPROC3_SETATTR", "SETATTR3args", "NFSPROC3_SETATTR", "SETATTR3res");
  (100003, 3, 3, "NFSPROC3_LOOKUP", "LOOKUP3args", "NFSPROC3_LOOKUP", "LOOKUP3res");
  (100003, 3, 4, "NFSPROC3_ACCESS", "ACCESS3args", "NFSPROC3_ACCESS", "ACCESS3res");
  (100003, 3, 5, "NFSPROC3_READLINK", "READLINK3args", "NFSPROC3_READLINK", "READLINK3res");
  (100003, 3, 6, "NFSPROC3_READ", "READ3args", "NFSPROC3_READ", "READ3res");
  (100003, 3, 7, "NFSPROC3_WRITE", "WRITE3args", "NFSPROC3_WRITE", "WRITE3res");
  (100003, 3, 8, "NFSPROC3_CREATE", "CREATE3args", "NFSPROC3_CREATE", "CREATE3res");
  (100003, 3, 9, "NFSPROC3_MKDIR", "MKDIR3args", "NFSPROC3_MKDIR", "MKDIR3res");
  (100003, 3, 10, "NFSPROC3_SYMLINK", "SYMLINK3args", "NFSPROC3_SYMLINK", "SYMLINK3res");
  (100003, 3, 11, "NFSPROC3_MKNOD", "MKNOD3args", "NFSPROC3_MKNOD", "MKNOD3res");
  (100003, 3, 12, "NFSPROC3_REMOVE", "REMOVE3args", "NFSPROC3_REMOVE", "REMOVE3res");
  (100003, 3, 13, "NFSPROC3_RMDIR", "RMDIR3args", "NFSPROC3_RMDIR", "RMDIR3res");
  (100003, 3, 14, "NFSPROC3_RENAME", "RENAME3args", "NFSPROC3_RENAME", "RENAME3res");
  (100003, 3, 15, "NFSPROC3_LINK", "LINK3args", "NFSPROC3_LINK", "LINK3res");
  (100003, 3, 16, "NFSPROC3_READDIR", "READDIR3args", "NFSPROC3_READDIR", "READDIR3res");
  (100003, 3, 17, "NFSPROC3_READDIRPLUS", "READDIRPLUS3args", "NFSPROC3_READDIRPLUS", "READDIRPLUS3res");
  (100003, 3, 18, "NFSPROC3_FSSTAT", "FSSTAT3args", "NFSPROC3_FSSTAT", "FSSTAT3res");
  (100003, 3, 19, "NFSPROC3_FSINFO", "FSINFO3args", "NFSPROC3_FSINFO", "FSINFO3res");
  (100003, 3, 20, "NFSPROC3_PATHCONF", "PATHCONF3args", "NFSPROC3_PATHCONF", "PATHCONF3res");
  (100003, 3, 21, "NFSPROC3_COMMIT", "COMMIT3args", "NFSPROC3_COMMIT", "COMMIT3res");
  (100005, 3, 0, "MOUNTPROC3_NULL", "void", "MOUNTPROC3_NULL", "void");
  (100005, 3, 1, "MOUNTPROC3_MNT", "Dirpath3", "MOUNTPROC3_MNT", "Mountres3");
  (100005, 3, 2, "MOUNTPROC3_DUMP", "void", "MOUNTPROC3_DUMP", "Mountopt3");
  (100005, 3, 3, "MOUNTPROC3_UMNT", "Dirpath3", "MOUNTPROC3_UMNT", "void");
  (100005, 3, 4, "MOUNTPROC3_UMNTALL", "void", "MOUNTPROC3_UMNTALL", "void");
  (100005, 3, 5, "MOUNTPROC3_EXPORT", "void", "MOUNTPROC3_EXPORT", "Exportsopt3")
].

(* registration tables each server binary registers *)
Definition gen_registered : list (string * string) := [("go-nfsd", "MOUNT_PROGRAM_MOUNT_V3_regs"); ("go-nfsd", "NFS_PROGRAM_NFS_V3_regs"); ("simple-nfsd", "MOUNT_PROGRAM_MOUNT_V3_regs"); ("simple-nfsd", "NFS_PROGRAM_NFS_V3_regs")].
