(* GENERATED from the RFC 1813 specification file prot.x of the go-rpcgen module — do not edit *)
From Coq Require Import List NArith String.
From V Require Import Model.Xdr.
Import ListNotations.
Open Scope string_scope.
Open Scope N_scope.

Definition rfc_env : env := [
  ("ACCESS3args", (TSeq [IField "object" (TRef "nfs_fh3"); IField "access" (TRef "uint32")]));
  ("ACCESS3res", (TSeq [IField "status" (TRef "nfsstat3"); ISwitch "status" [(0, [IField "resok" (TRef "ACCESS3resok")])] (Some [IField "resfail" (TRef "ACCESS3resfail")])]));
  ("ACCESS3resfail", (TSeq [IField "obj_attributes" (TRef "post_op_attr")]));
  ("ACCESS3resok", (TSeq [IField "obj_attributes" (TRef "post_op_attr"); IField "access" (TRef "uint32")]));
  ("COMMIT3args", (TSeq [IField "file" (TRef "nfs_fh3"); IField "offset" (TRef "offset3"); IField "count" (TRef "count3")]));
  ("COMMIT3res", (TSeq [IField "status" (TRef "nfsstat3"); ISwitch "status" [(0, [IField "resok" (TRef "COMMIT3resok")])] (Some [IField "resfail" (TRef "COMMIT3resfail")])]));
  ("COMMIT3resfail", (TSeq [IField "file_wcc" (TRef "wcc_data")]));
  ("COMMIT3resok", (TSeq [IField "file_wcc" (TRef "wcc_data"); IField "verf" (TRef "writeverf3")]));
  ("CREATE3args", (TSeq [IField "where" (TRef "diropargs3"); IField "how" (TRef "createhow3")]));
  ("CREATE3res", (TSeq [IField "status" (TRef "nfsstat3"); ISwitch "status" [(0, [IField "resok" (TRef "CREATE3resok")])] (Some [IField "resfail" (TRef "CREATE3resfail")])]));
  ("CREATE3resfail", (TSeq [IField "dir_wcc" (TRef "wcc_data")]));
  ("CREATE3resok", (TSeq [IField "obj" (TRef "post_op_fh3"); IField "obj_attributes" (TRef "post_op_attr"); IField "dir_wcc" (TRef "wcc_data")]));
  ("FSINFO3args", (TSeq [IField "fsroot" (TRef "nfs_fh3")]));
  ("FSINFO3res", (TSeq [IField "status" (TRef "nfsstat3"); ISwitch "status" [(0, [IField "resok" (TRef "FSINFO3resok")])] (Some [IField "resfail" (TRef "FSINFO3resfail")])]));
  ("FSINFO3resfail", (TSeq [IField "obj_attributes" (TRef "post_op_attr")]));
  ("FSINFO3resok", (TSeq [IField "obj_attributes" (TRef "post_op_attr"); IField "rtmax" (TRef "uint32"); IField "rtpref" (TRef "uint32"); IField "rtmult" (TRef "uint32"); IField "wtmax" (TRef "uint32"); IField "wtpref" (TRef "uint32"); IField "wtmult" (TRef "uint32"); IField "dtpref" (TRef "uint32"); IField "maxfilesize" (TRef "size3"); IField "time_delta" (TRef "nfstime3"); IField "properties" (TRef "uint32")]));
  ("FSSTAT3args", (TSeq [IField "fsroot" (TRef "nfs_fh3")]));
  ("FSSTAT3res", (TSeq [IField "status" (TRef "nfsstat3"); ISwitch "status" [(0, [IField "resok" (TRef "FSSTAT3resok")])] (Some [IField "resfail" (TRef "FSSTAT3resfail")])]));
  ("FSSTAT3resfail", (TSeq [IField "obj_attributes" (TRef "post_op_attr")]));
  ("FSSTAT3resok", (TSeq [IField "obj_attributes" (TRef "post_op_attr"); IField "tbytes" (TRef "size3"); IField "fbytes" (TRef "size3"); IField "abytes" (TRef "size3"); IField "tfiles" (TRef "size3"); IField "ffiles" (TRef "size3"); IField "afiles" (TRef "size3"); IField "invarsec" (TRef "uint32")]));
  ("GETATTR3args", (TSeq [IField "object" (TRef "nfs_fh3")]));
  ("GETATTR3res", (TSeq [IField "status" (TRef "nfsstat3"); ISwitch "status" [(0, [IField "resok" (TRef "GETATTR3resok")])] (Some [])]));
  ("GETATTR3resok", (TSeq [IField "obj_attributes" (TRef "fattr3")]));
  ("LINK3args", (TSeq [IField "file" (TRef "nfs_fh3"); IField "link" (TRef "diropargs3")]));
  ("LINK3res", (TSeq [IField "status" (TRef "nfsstat3"); ISwitch "status" [(0, [IField "resok" (TRef "LINK3resok")])] (Some [IField "resfail" (TRef "LINK3resfail")])]));
  ("LINK3resfail", (TSeq [IField "file_attributes" (TRef "post_op_attr"); IField "linkdir_wcc" (TRef "wcc_data")]));
  ("LINK3resok", (TSeq [IField "file_attributes" (TRef "post_op_attr"); IField "linkdir_wcc" (TRef "wcc_data")]));
  ("LOOKUP3args", (TSeq [IField "what" (TRef "diropargs3")]));
  ("LOOKUP3res", (TSeq [IField "status" (TRef "nfsstat3"); ISwitch "status" [(0, [IField "resok" (TRef "LOOKUP3resok")])] (Some [IField "resfail" (TRef "LOOKUP3resfail")])]));
  ("LOOKUP3resfail", (TSeq [IField "dir_attributes" (TRef "post_op_attr")]));
  ("LOOKUP3resok", (TSeq [IField "object" (TRef "nfs_fh3"); IField "obj_attributes" (TRef "post_op_attr"); IField "dir_attributes" (TRef "post_op_attr")]));
  ("MKDIR3args", (TSeq [IField "where" (TRef "diropargs3"); IField "attributes" (TRef "sattr3")]));
  ("MKDIR3res", (TSeq [IField "status" (TRef "nfsstat3"); ISwitch "status" [(0, [IField "resok" (TRef "MKDIR3resok")])] (Some [IField "resfail" (TRef "MKDIR3resfail")])]));
  ("MKDIR3resfail", (TSeq [IField "dir_wcc" (TRef "wcc_data")]));
  ("MKDIR3resok", (TSeq [IField "obj" (TRef "post_op_fh3"); IField "obj_attributes" (TRef "post_op_attr"); IField "dir_wcc" (TRef "wcc_data")]));
  ("MKNOD3args", (TSeq [IField "where" (TRef "diropargs3"); IField "what" (TRef "mknoddata3")]));
  ("MKNOD3res", (TSeq [IField "status" (TRef "nfsstat3"); ISwitch "status" [(0, [IField "resok" (TRef "MKNOD3resok")])] (Some [IField "resfail" (TRef "MKNOD3resfail")])]));
  ("MKNOD3resfail", (TSeq [IField "dir_wcc" (TRef "wcc_data")]));
  ("MKNOD3resok", (TSeq [IField "obj" (TRef "post_op_fh3"); IField "obj_attributes" (TRef "post_op_attr"); IField "dir_wcc" (TRef "wcc_data")]));
  ("PATHCONF3args", (TSeq [IField "object" (TRef "nfs_fh3")]));
  ("PATHCONF3res", (TSeq [IField "status" (TRef "nfsstat3"); ISwitch "status" [(0, [IField "resok" (TRef "PATHCONF3resok")])] (Some [IField "resfail" (TRef "PATHCONF3resfail")])]));
  ("PATHCONF3resfail", (TSeq [IField "obj_attributes" (TRef "post_op_attr")]));
  ("PATHCONF3resok", (TSeq [IField "obj_attributes" (TRef "post_op_attr"); IField "linkmax" (TRef "uint32"); IField "name_max" (TRef "uint32"); IField "no_trunc" TBool; IField "chown_restricted" TBool; IField "case_insensitive" TBool; IField "case_preserving" TBool]));
  ("READ3args", (TSeq [IField "file" (TRef "nfs_fh3"); IField "offset" (TRef "offset3"); IField "count" (TRef "count3")]));
  ("READ3res", (TSeq [IField "status" (TRef "nfsstat3"); ISwitch "status" [(0, [IField "resok" (TRef "READ3resok")])] (Some [IField "resfail" (TRef "READ3resfail")])]));
  ("READ3resfail", (TSeq [IField "file_attributes" (TRef "post_op_attr")]));
  ("READ3resok", (TSeq [IField "file_attributes" (TRef "post_op_attr"); IField "count" (TRef "count3"); IField "eof" TBool; IField "data" (TVar None)]));
  ("READDIR3args", (TSeq [IField "dir" (TRef "nfs_fh3"); IField "cookie" (TRef "cookie3"); IField "cookieverf" (TRef "cookieverf3"); IField "count" (TRef "count3")]));
  ("READDIR3res", (TSeq [IField "status" (TRef "nfsstat3"); ISwitch "status" [(0, [IField "resok" (TRef "READDIR3resok")])] (Some [IField "resfail" (TRef "READDIR3resfail")])]));
  ("READDIR3resfail", (TSeq [IField "dir_attributes" (TRef "post_op_attr")]));
  ("READDIR3resok", (TSeq [IField "dir_attributes" (TRef "post_op_attr"); IField "cookieverf" (TRef "cookieverf3"); IField "reply" (TRef "dirlist3")]));
  ("READDIRPLUS3args", (TSeq [IField "dir" (TRef "nfs_fh3"); IField "cookie" (TRef "cookie3"); IField "cookieverf" (TRef "cookieverf3"); IField "dircount" (TRef "count3"); IField "maxcount" (TRef "count3")]));
  ("READDIRPLUS3res", (TSeq [IField "status" (TRef "nfsstat3"); ISwitch "status" [(0, [IField "resok" (TRef "READDIRPLUS3resok")])] (Some [IField "resfail" (TRef "READDIRPLUS3resfail")])]));
  ("READDIRPLUS3resfail", (TSeq [IField "dir_attributes" (TRef "post_op_attr")]));
  ("READDIRPLUS3resok", (TSeq [IField "dir_attributes" (TRef "post_op_attr"); IField "cookieverf" (TRef "cookieverf3"); IField "reply" (TRef "dirlistplus3")]));
  ("READLINK3args", (TSeq [IField "symlink" (TRef "nfs_fh3")]));
  ("READLINK3res", (TSeq [IField "status" (TRef "nfsstat3"); ISwitch "status" [(0, [IField "resok" (TRef "READLINK3resok")])] (Some [IField "resfail" (TRef "READLINK3resfail")])]));
  ("READLINK3resfail", (TSeq [IField "symlink_attributes" (TRef "post_op_attr")]));
  ("READLINK3resok", (TSeq [IField "symlink_attributes" (TRef "post_op_attr"); IField "data" (TRef "nfspath3")]));
  ("REMOVE3args", (TSeq [IField "object" (TRef "diropargs3")]));
  ("REMOVE3res", (TSeq [IField "status" (TRef "nfsstat3"); ISwitch "status" [(0, [IField "resok" (TRef "REMOVE3resok")])] (Some [IField "resfail" (TRef "REMOVE3resfail")])]));
  ("REMOVE3resfail", (TSeq [IField "dir_wcc" (TRef "wcc_data")]));
  ("REMOVE3resok", (TSeq [IField "dir_wcc" (TRef "wcc_data")]));
  ("RENAME3args", (TSeq [IField "from" (TRef "diropargs3"); IField "to" (TRef "diropargs3")]));
  ("RENAME3res", (TSeq [IField "status" (TRef "nfsstat3"); ISwitch "status" [(0, [IField "resok" (TRef "RENAME3resok")])] (Some [IField "resfail" (TRef "RENAME3resfail")])]));
  ("RENAME3resfail", (TSeq [IField "fromdir_wcc" (TRef "wcc_data"); IField "todir_wcc" (TRef "wcc_data")]));
  ("RENAME3resok", (TSeq [IField "fromdir_wcc" (TRef "wcc_data"); IField "todir_wcc" (TRef "wcc_data")]));
  ("RMDIR3args", (TSeq [IField "object" (TRef "diropargs3")]));
  ("RMDIR3res", (TSeq [IField "status" (TRef "nfsstat3"); ISwitch "status" [(0, [IField "resok" (TRef "RMDIR3resok")])] (Some [IField "resfail" (TRef "RMDIR3resfail")])]));
  ("RMDIR3resfail", (TSeq [IField "dir_wcc" (TRef "wcc_data")]));
  ("RMDIR3resok", (TSeq [IField "dir_wcc" (TRef "wcc_data")]));
  ("SETATTR3args", (TSeq [IField "object" (TRef "nfs_fh3"); IField "new_attributes" (TRef "sattr3"); IField "guard" (TRef "sattrguard3")]));
  ("SETATTR3res", (TSeq [IField "status" (TRef "nfsstat3"); ISwitch "status" [(0, [IField "resok" (TRef "SETATTR3resok")])] (Some [IField "resfail" (TRef "SETATTR3resfail")])]));
  ("SETATTR3resfail", (TSeq [IField "obj_wcc" (TRef "wcc_data")]));
  ("SETATTR3resok", (TSeq [IField "obj_wcc" (TRef "wcc_data")]));
  ("SYMLINK3args", (TSeq [IField "where" (TRef "diropargs3"); IField "symlink" (TRef "symlinkdata3")]));
  ("SYMLINK3res", (TSeq [IField "status" (TRef "nfsstat3"); ISwitch "status" [(0, [IField "resok" (TRef "SYMLINK3resok")])] (Some [IField "resfail" (TRef "SYMLINK3resfail")])]));
  ("SYMLINK3resfail", (TSeq [IField "dir_wcc" (TRef "wcc_data")]));
  ("SYMLINK3resok", (TSeq [IField "obj" (TRef "post_op_fh3"); IField "obj_attributes" (TRef "post_op_attr"); IField "dir_wcc" (TRef "wcc_data")]));
  ("WRITE3args", (TSeq [IField "file" (TRef "nfs_fh3"); IField "offset" (TRef "offset3"); IField "count" (TRef "count3"); IField "stable" (TRef "stable_how"); IField "data" (TVar None)]));
  ("WRITE3res", (TSeq [IField "status" (TRef "nfsstat3"); ISwitch "status" [(0, [IField "resok" (TRef "WRITE3resok")])] (Some [IField "resfail" (TRef "WRITE3resfail")])]));
  ("WRITE3resfail", (TSeq [IField "file_wcc" (TRef "wcc_data")]));
  ("WRITE3resok", (TSeq [IField "file_wcc" (TRef "wcc_data"); IField "count" (TRef "count3"); IField "committed" (TRef "stable_how"); IField "verf" (TRef "writeverf3")]));
  ("cookie3", (TRef "uint64"));
  ("cookieverf3", (TFixed 8));
  ("count3", (TRef "uint32"));
  ("createhow3", (TSeq [IField "mode" (TRef "createmode3"); ISwitch "mode" [(0, [IField "obj_attributes" (TRef "sattr3")]); (1, [IField "obj_attributes" (TRef "sattr3")]); (2, [IField "verf" (TRef "createverf3")])] None]));
  ("createmode3", TU32);
  ("createverf3", (TFixed 8));
  ("devicedata3", (TSeq [IField "dev_attributes" (TRef "sattr3"); IField "spec" (TRef "specdata3")]));
  ("dirlist3", (TSeq [IField "entries" (TOpt (TRef "entry3")); IField "eof" TBool]));
  ("dirlistplus3", (TSeq [IField "entries" (TOpt (TRef "entryplus3")); IField "eof" TBool]));
  ("diropargs3", (TSeq [IField "dir" (TRef "nfs_fh3"); IField "name" (TRef "filename3")]));
  ("dirpath3", (TVar (Some 1024)));
  ("entry3", (TSeq [IField "fileid" (TRef "fileid3"); IField "name" (TRef "filename3"); IField "cookie" (TRef "cookie3"); IField "nextentry" (TOpt (TRef "entry3"))]));
  ("entryplus3", (TSeq [IField "fileid" (TRef "fileid3"); IField "name" (TRef "filename3"); IField "cookie" (TRef "cookie3"); IField "name_attributes" (TRef "post_op_attr"); IField "name_handle" (TRef "post_op_fh3"); IField "nextentry" (TOpt (TRef "entryplus3"))]));
  ("exports3", (TSeq [IField "ex_dir" (TRef "dirpath3"); IField "ex_groups" (TOpt (TRef "groups3")); IField "ex_next" (TOpt (TRef "exports3"))]));
  ("exportsopt3", (TOpt (TRef "exports3")));
  ("fattr3", (TSeq [IField "ftype" (TRef "ftype3"); IField "mode" (TRef "mode3"); IField "nlink" (TRef "uint32"); IField "uid" (TRef "uid3"); IField "gid" (TRef "gid3"); IField "size" (TRef "size3"); IField "used" (TRef "size3"); IField "rdev" (TRef "specdata3"); IField "fsid" (TRef "uint64"); IField "fileid" (TRef "fileid3"); IField "atime" (TRef "nfstime3"); IField "mtime" (TRef "nfstime3"); IField "ctime" (TRef "nfstime3")]));
  ("fhandle3", (TVar (Some 64)));
  ("fileid3", (TRef "uint64"));
  ("filename3", (TVar None));
  ("ftype3", TU32);
  ("gid3", (TRef "uint32"));
  ("groups3", (TSeq [IField "gr_name" (TRef "name3"); IField "gr_next" (TOpt (TRef "groups3"))]));
  ("mknoddata3", (TSeq [IField "ftype" (TRef "ftype3"); ISwitch "ftype" [(4, [IField "device" (TRef "devicedata3")]); (3, [IField "device" (TRef "devicedata3")]); (6, [IField "pipe_attributes" (TRef "sattr3")]); (7, [IField "pipe_attributes" (TRef "sattr3")])] (Some [])]));
  ("mode3", (TRef "uint32"));
  ("mount3", (TSeq [IField "ml_hostname" (TRef "name3"); IField "ml_directory" (TRef "dirpath3"); IField "ml_next" (TOpt (TRef "mount3"))]));
  ("mountopt3", (TOpt (TRef "mount3")));
  ("mountres3", (TSeq [IField "fhs_status" (TRef "mountstat3"); ISwitch "fhs_status" [(0, [IField "mountinfo" (TRef "mountres3_ok")])] (Some [])]));
  ("mountres3_ok", (TSeq [IField "fhandle" (TRef "fhandle3"); IField "auth_flavors" TArr32]));
  ("mountstat3", TU32);
  ("name3", (TVar (Some 255)));
  ("nfs_fh3", (TSeq [IField "data" (TVar (Some 64))]));
  ("nfspath3", (TVar None));
  ("nfsstat3", TU32);
  ("nfstime3", (TSeq [IField "seconds" (TRef "uint32"); IField "nseconds" (TRef "uint32")]));
  ("offset3", (TRef "uint64"));
  ("post_op_attr", (TSeq [IField "attributes_follow" TBool; ISwitch "attributes_follow" [(1, [IField "attributes" (TRef "fattr3")]); (0, [])] None]));
  ("post_op_fh3", (TSeq [IField "handle_follows" TBool; ISwitch "handle_follows" [(1, [IField "handle" (TRef "nfs_fh3")]); (0, [])] None]));
  ("pre_op_attr", (TSeq [IField "attributes_follow" TBool; ISwitch "attributes_follow" [(1, [IField "attributes" (TRef "wcc_attr")]); (0, [])] None]));
  ("sattr3", (TSeq [IField "mode" (TRef "set_mode3"); IField "uid" (TRef "set_uid3"); IField "gid" (TRef "set_gid3"); IField "size" (TRef "set_size3"); IField "atime" (TRef "set_atime"); IField "mtime" (TRef "set_mtime")]));
  ("sattrguard3", (TSeq [IField "check" TBool; ISwitch "check" [(1, [IField "obj_ctime" (TRef "nfstime3")]); (0, [])] None]));
  ("set_atime", (TSeq [IField "set_it" (TRef "time_how"); ISwitch "set_it" [(2, [IField "atime" (TRef "nfstime3")])] (Some [])]));
  ("set_gid3", (TSeq [IField "set_it" TBool; ISwitch "set_it" [(1, [IField "gid" (TRef "gid3")])] (Some [])]));
  ("set_mode3", (TSeq [IField "set_it" TBool; ISwitch "set_it" [(1, [IField "mode" (TRef "mode3")])] (Some [])]));
  ("set_mtime", (TSeq [IField "set_it" (TRef "time_how"); ISwitch "set_it" [(2, [IField "mtime" (TRef "nfstime3")])] (Some [])]));
  ("set_size3", (TSeq [IField "set_it" TBool; ISwitch "set_it" [(1, [IField "size" (TRef "size3")])] (Some [])]));
  ("set_uid3", (TSeq [IField "set_it" TBool; ISwitch "set_it" [(1, [IField "uid" (TRef "uid3")])] (Some [])]));
  ("size3", (TRef "uint64"));
  ("specdata3", (TSeq [IField "specdata1" (TRef "uint32"); IField "specdata2" (TRef "uint32")]));
  ("stable_how", TU32);
  ("symlinkdata3", (TSeq [IField "symlink_attributes" (TRef "sattr3"); IField "symlink_data" (TRef "nfspath3")]));
  ("time_how", TU32);
  ("uid3", (TRef "uint32"));
  ("uint32", TU32);
  ("uint64", TU64);
  ("wcc_attr", (TSeq [IField "size" (TRef "size3"); IField "mtime" (TRef "nfstime3"); IField "ctime" (TRef "nfstime3")]));
  ("wcc_data", (TSeq [IField "before" (TRef "pre_op_attr"); IField "after" (TRef "post_op_attr")]));
  ("writeverf3", (TFixed 8))
].

(* value sets of the enumerations (the codec of the repository treats them as plain 32-bit words) *)
Definition rfc_enums : list (string * list N) := [
  ("createmode3", [0; 1; 2]);
  ("ftype3", [1; 2; 3; 4; 5; 6; 7]);
  ("mountstat3", [0; 1; 2; 5; 13; 20; 22; 63; 10004; 10006]);
  ("nfsstat3", [0; 1; 2; 5; 6; 13; 17; 18; 19; 20; 21; 22; 27; 28; 30; 31; 63; 66; 69; 70; 71; 10001; 10002; 10003; 10004; 10005; 10006; 10007; 10008]);
  ("stable_how", [0; 1; 2]);
  ("time_how", [0; 1; 2])
].

(* (program, version, procedure number, procedure name, argument type, result type) *)
Definition rfc_procs : list (N * N * N * string * string * string) := [
  (100003, 3, 0, "NFSPROC3_NULL", "void", "void");
  (100003, 3, 1, "NFSPROC3_GETATTR", "GETATTR3args", "GETATTR3res");
  (100003, 3, 2, "NFSPROC3_SETATTR", "SETATTR3args", "SETATTR3res");
  (100003, 3, 3, "NFSPROC3_LOOKUP", "LOOKUP3args", "LOOKUP3res");
  (100003, 3, 4, "NFSPROC3_ACCESS", "ACCESS3args", "ACCESS3res");
  (100003, 3, 5, "NFSPROC3_READLINK", "READLINK3args", "READLINK3res");
  (100003, 3, 6, "NFSPROC3_READ", "READ3args", "READ3res");
  (100003, 3, 7, "NFSPROC3_WRITE", "WRITE3args", "WRITE3res");
  (100003, 3, 8, "NFSPROC3_CREATE", "CREATE3args", "CREATE3res");
  (100003, 3, 9, "NFSPROC3_MKDIR", "MKDIR3args", "MKDIR3res");
  (100003, 3, 10, "NFSPROC3_SYMLINK", "SYMLINK3args", "SYMLINK3res");
  (100003, 3, 11, "NFSPROC3_MKNOD", "MKNOD3args", "MKNOD3res");
  (100003, 3, 12, "NFSPROC3_REMOVE", "REMOVE3args", "REMOVE3res");
  (100003, 3, 13, "NFSPROC3_RMDIR", "RMDIR3args", "RMDIR3res");
  (100003, 3, 14, "NFSPROC3_RENAME", "RENAME3args", "RENAME3res");
  (100003, 3, 15, "NFSPROC3_LINK", "LINK3args", "LINK3res");
  (100003, 3, 16, "NFSPROC3_READDIR", "READDIR3args", "READDIR3res");
  (100003, 3, 17, "NFSPROC3_READDIRPLUS", "READDIRPLUS3args", "READDIRPLUS3res");
  (100003, 3, 18, "NFSPROC3_FSSTAT", "FSSTAT3args", "FSSTAT3res");
  (100003, 3, 19, "NFSPROC3_FSINFO", "FSINFO3args", "FSINFO3res");
  (100003, 3, 20, "NFSPROC3_PATHCONF", "PATHCONF3args", "PATHCONF3res");
  (100003, 3, 21, "NFSPROC3_COMMIT", "COMMIT3args", "COMMIT3res");
  (100005, 3, 0, "MOUNTPROC3_NULL", "void", "void");
  (100005, 3, 1, "MOUNTPROC3_MNT", "dirpath3", "mountres3");
  (100005, 3, 2, "MOUNTPROC3_DUMP", "void", "mountopt3");
  (100005, 3, 3, "MOUNTPROC3_UMNT", "dirpath3", "void");
  (100005, 3, 4, "MOUNTPROC3_UMNTALL", "void", "void");
  (100005, 3, 5, "MOUNTPROC3_EXPORT", "void", "exportsopt3")
].
