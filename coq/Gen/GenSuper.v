(* GENERATED from super/super.go — do not edit *)
From Coq Require Import NArith.
Open Scope N_scope.
Definition W := 18446744073709551616.
Definition w64 (x:N) := x mod W.
Record FsSuper := { Size : N; nLog : N; NBlockBitmap : N; NInodeBitmap : N; nInodeBlk : N; Maxaddr : N }.
Definition MkFsSuper (sz:N) : FsSuper :=
  let sz := sz in
  let nblockbitmap := w64 ((sz / 32768) + 1) in
  {| Size := sz; nLog := 513; NBlockBitmap := nblockbitmap; NInodeBitmap := 1; nInodeBlk := 1024; Maxaddr := sz |}.
Definition MaxBnum (fs:FsSuper)  := (Maxaddr fs).
Definition BitmapBlockStart (fs:FsSuper)  := (nLog fs).
Definition BitmapInodeStart (fs:FsSuper)  := w64 ((BitmapBlockStart fs) + (NBlockBitmap fs)).
Definition InodeStart (fs:FsSuper)  := w64 ((BitmapInodeStart fs) + (NInodeBitmap fs)).
Definition DataStart (fs:FsSuper)  := w64 ((InodeStart fs) + (nInodeBlk fs)).
Definition Block2addr (fs:FsSuper) (blkno:N) := (blkno, 0).
Definition NInode (fs:FsSuper)  := w64 ((nInodeBlk fs) * 32).
Definition Inum2Addr (fs:FsSuper) (inum:N) := (w64 ((InodeStart fs) + (inum / 32)), w64 (w64 ((inum mod 32) * 128) * 8)).
