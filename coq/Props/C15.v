(* C15 — every supported disk size yields a consistent, fully usable file system.
   Statements only; proofs are in Proofs/Super.v.  The layout functions are the
   ones the translator regenerates from super/super.go on every run. *)
From Coq Require Import NArith Bool.
From V Require Import Gen.GenSuper Model.SuperModel Proofs.Super.
Open Scope N_scope.

(* "accepted sz" = MakeNfs does not refuse the size (markAlloc's sanity test passes). *)

Theorem C15_layout_regions : forall sz, accepted sz ->
  let fs := MkFsSuper sz in
  BitmapBlockStart fs = LOGSIZE /\
  BitmapInodeStart fs = BitmapBlockStart fs + NBlockBitmap fs /\
  InodeStart fs = BitmapInodeStart fs + 1 /\
  DataStart fs = InodeStart fs + 1024 /\
  DataStart fs <= sz /\ NInode fs = 32768 /\
  sz < NBlockBitmap fs * NBITBLOCK /\ (NBlockBitmap fs - 1) * NBITBLOCK <= sz.
Proof. exact layout_regions. Qed.
Print Assumptions C15_layout_regions.

Theorem C15_inode_addrs : forall sz i j, accepted sz ->
  let fs := MkFsSuper sz in i < NInode fs -> j < NInode fs ->
  InodeStart fs <= fst (Inum2Addr fs i) < DataStart fs /\
  snd (Inum2Addr fs i) + 1024 <= NBITBLOCK /\
  (i <> j -> fst (Inum2Addr fs i) <> fst (Inum2Addr fs j) \/
             snd (Inum2Addr fs i) + 1024 <= snd (Inum2Addr fs j) \/ snd (Inum2Addr fs j) + 1024 <= snd (Inum2Addr fs i)).
Proof. exact inode_addrs. Qed.
Print Assumptions C15_inode_addrs.

Theorem C15_mkfs_bitmap_exact : forall sz b, accepted sz ->
  let fs := MkFsSuper sz in b < NBlockBitmap fs * NBITBLOCK ->
  mk_bit fs b = (b <? DataStart fs) || (sz <=? b).
Proof. exact mkfs_bitmap_exact. Qed.
Print Assumptions C15_mkfs_bitmap_exact.

(* the premises are satisfiable, and the acceptance test is not vacuous *)
Example C15_accepted_10000 : accepted 10000.
Proof. exact accepted_10000. Qed.
Example C15_not_accepted_1538 : ~ accepted 1538.
Proof. exact not_accepted_1538. Qed.
