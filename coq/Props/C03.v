(* C03 — concurrent RPCs are linearizable.  PARTIAL BY NATURE (see below).
   LM (Proofs/TwoPL.v): a system of transactions over a store of locations, each location protected
   by a guard lock; a transaction is a program that acquires locks, reads and buffers writes only under
   the guard of the location, publishes its buffered writes atomically at one commit step and releases
   afterwards (or aborts without publishing).  Theorem: for EVERY interleaving, the final store and the
   values every committed transaction read are those of running the committed transactions one at a time
   in the order of their commit steps (which respects real time, the commit lying between invoke and
   return).
   Tie: the hooks report each transaction's acquire / release / commit-start / commit-end / abort events
   on the real server; the extracted predicates commit_phase_b (no release between commit start and end,
   no acquisition after the commit), balanced_b and asc_f are evaluated on every transaction of
   concurrent runs, and each recorded history (same names, cross-directory renames over existing
   targets, create/remove races, concurrent write/truncate/read of one file) is searched for a
   sequential order, respecting real time, under which the extracted reference AM gives exactly the
   replies observed and ends in the state abs_disk decodes from the final disk.
   Not covered by any theorem: which interleavings the Go runtime produces between hook points (they are
   sampled with seeded yields/sleeps), and that every access of the Go code to an inode happens under its
   lock (that is the hypothesis of the theorem; C14's race-detector runs observe it). *)
From Coq Require Import List Arith.
From Coq Require Import NArith.
From V Require Import Proofs.TwoPL Model.TraceCheck.

Theorem C03_two_phase_serializable : forall (guard : nat -> nat) s0 ps s,
  reach guard (init s0 ps) s -> serial s0 (order s) (sto s).
Proof. exact two_phase_serializable. Qed.
Print Assumptions C03_two_phase_serializable.

(* the executable discipline predicate rejects early release and late acquisition *)
Example C03_commit_phase_examples :
  commit_phase_b 0%N (TAcq 1%N :: TAcq 5%N :: TCommit true :: TCommitted true :: TRel 5%N :: TRel 1%N :: nil) = true /\
  commit_phase_b 0%N (TAcq 1%N :: TCommit true :: TRel 1%N :: TCommitted true :: nil) = false /\
  commit_phase_b 0%N (TAcq 1%N :: TCommit true :: TCommitted true :: TAcq 2%N :: nil) = false.
Proof. vm_compute. auto. Qed.

(* what the concurrent check reports as "linearizable" is linearizable: the order found by the (untrusted)
   search is accepted only by the extracted lin_check, and an accepted order is a permutation of the
   operations that respects real time, replays on the reference with every observed reply agreeing, and
   ends in the state decoded from the implementation's final disk *)
From V Require Model.Lin Proofs.LinProofs.
Theorem C03_certificate_sound : forall P ops s0 final order,
  V.Model.Lin.lin_check P ops s0 final order = true -> V.Proofs.LinProofs.linearizable P ops s0 final.
Proof. exact V.Proofs.LinProofs.lin_check_sound. Qed.
Print Assumptions C03_certificate_sound.
