(* C12 — bytes never written read as zero; old data is never exposed.
   TM (Proofs/Tree.v): every block on the free list is all-zero before and after allocation-on-demand
   and after freeing (freed blocks are zeroed in the same step), so a freshly allocated block is zero;
   mappings of other offsets are unchanged, so no file sees another file's block.
   Reference (AM): what a READ must return is defined in Model/Afs.v (holes and re-exposed regions are
   zero by construction of trunc_data / write_bytes); the implementation is compared with it on
   block-recycling sequences, and wf_disk checks on the implementation's disk after every operation that
   every unowned data block is zero and that the bytes of a file's last block beyond its size are zero
   (the invariant that makes grow-after-shrink read zeros). *)
From Coq Require Import List Arith Permutation.
From V Require Import Proofs.Tree Proofs.TreeCor.

Theorem C12_free_blocks_stay_zero_alloc : forall NB, 0 < NB -> forall lvl root off d fr,
  off < pw NB lvl -> NoDup (blocks NB d lvl root ++ fr) -> free_zero d fr -> ~ In 0 fr ->
  let '(blk, root', d', fr') := indbmap NB lvl root off d fr in
  NoDup (blocks NB d' lvl root' ++ fr') /\
  Permutation (blocks NB d' lvl root' ++ fr') (blocks NB d lvl root ++ fr) /\
  free_zero d' fr' /\
  (forall off', off' < pw NB lvl -> off' <> off -> leaf NB d' lvl root' off' = leaf NB d lvl root off').
Proof. exact indbmap_ownership. Qed.
Print Assumptions C12_free_blocks_stay_zero_alloc.

Theorem C12_freed_blocks_are_zero : forall NB, 0 < NB -> forall lvl root bn d fr,
  bn < pw NB lvl -> NoDup (blocks NB d lvl root ++ fr) -> free_zero d fr -> trimmed NB d lvl root bn ->
  let '(root', d', fr') := shrink_one NB lvl root bn d fr in
  NoDup (blocks NB d' lvl root' ++ fr') /\
  Permutation (blocks NB d' lvl root' ++ fr') (blocks NB d lvl root ++ fr) /\
  free_zero d' fr' /\
  (forall off', off' < pw NB lvl -> leaf NB d' lvl root' off' = if Nat.ltb off' bn then leaf NB d lvl root off' else 0).
Proof. exact shrink_ownership. Qed.
Print Assumptions C12_freed_blocks_are_zero.

(* ---- the reference (AM): what READ must return never contains old data ---- *)
From stdpp Require Import gmap.
From Coq Require Import NArith.
From V Require Import Model.Lib Model.Afs Proofs.AfsData.

(* in every reachable state of the reference, every position at or beyond the size of an object is zero:
   growing a file (SETATTR, a WRITE beyond the end) can only expose zeros *)
Theorem C12_reference_beyond_size_is_zero : forall P u cs i o k,
  objs (run P (init_afs u) cs) !! i = Some o -> (o_size o <= k)%N -> byte_at (o_data o) k = x00.
Proof. exact beyond_size_is_zero. Qed.
Print Assumptions C12_reference_beyond_size_is_zero.

(* a truncation zeroes everything from the new size on at once (nothing cut off can come back) *)
Theorem C12_reference_truncate_zeroes : forall m sz, wfm m ->
  wfm (trunc_data m sz) /\ forall i, byte_at (trunc_data m sz) i = if (i <? sz)%N then byte_at m i else x00.
Proof. exact trunc_data_spec. Qed.
Print Assumptions C12_reference_truncate_zeroes.

(* a position nobody ever wrote holds zero *)
Theorem C12_reference_unwritten_is_zero : forall i, byte_at ∅ i = x00.
Proof. exact byte_at_empty. Qed.
