(* C09 — a failed operation leaves no trace.
   On the reference AM this is a theorem for every state, call and outcome hint; the implementation is
   compared with AM after every failing RPC (abstraction of its disk, allocator counts, replies of
   arbitrary suffixes and after a restart).  The corresponding statement for a transliteration of the
   Go transaction code (abort undoes cache mutations, allocations returned) is not proved:
   see C09_partial below. *)
From stdpp Require Import gmap list.
From Coq Require Import NArith.
From V Require Import Model.Lib Model.Afs Proofs.AfsLaws.
Open Scope N_scope.

Theorem C09_failed_call_identity : forall P s c h,
  is_error (snd (step P s c h)) -> fst (step P s c h) = s.
Proof. exact failed_call_identity. Qed.
Print Assumptions C09_failed_call_identity.

(* in particular after any further history the observable behaviour is that of the never-issued run *)
Theorem C09_suffix_equal : forall P s c h cs,
  is_error (snd (step P s c h)) -> run P (fst (step P s c h)) cs = run P s cs.
Proof. intros P s c h cs H. rewrite (failed_call_identity P s c h H). reflexivity. Qed.
Print Assumptions C09_suffix_equal.

(* Full statement, of which the above is the reference half.  [impl_step] stands for the
   implementation's transition on its concrete state (disk, caches, allocators) and [abs] for abs_disk;
   the refinement hypothesis is what the correspondence check samples. *)
Definition C09_statement : Prop :=
  forall (cstate : Type) (impl_step : cstate -> call -> cstate * reply * hint) (abs : cstate -> afs) P,
    (forall c0 c, let '(c1, r, h) := impl_step c0 c in
                  step P (abs c0) c h = (abs c1, r)) ->
    forall c0 c, let '(c1, r, _) := impl_step c0 c in is_error r -> abs c1 = abs c0.

(* it follows from the refinement hypothesis and the reference theorem *)
Theorem C09_partial : C09_statement.
Proof.
  intros cstate impl_step abs P Href c0 c. specialize (Href c0 c).
  destruct (impl_step c0 c) as [[c1 r] h]. intros He.
  pose proof (failed_call_identity P (abs c0) c h) as F. rewrite Href in F. simpl in F. apply F. exact He.
Qed.
Print Assumptions C09_partial.

(* AT (Model/AllocModel.v) — the allocation side of an aborted transaction (alloctxn.PostAbort): the on-disk bitmap is
   untouched and the in-memory allocator forgets exactly the numbers the transaction took; a transaction that begins,
   allocates and frees at will and aborts, with nothing else in between, leaves disk, allocator and the other
   transactions exactly as they were. *)
From V Require Model.AllocModel Proofs.AllocProofs.
Theorem C09_abort_effect : forall s t tx s',
  AllocModel.astep s (AllocModel.AAbort t) = Some s' -> AllocModel.a_txns s !! t = Some tx ->
  AllocModel.a_disk s' = AllocModel.a_disk s /\
  (forall n, n ∈ AllocModel.a_mem s' <-> n ∈ AllocModel.a_mem s /\ n ∉ AllocModel.t_al tx) /\
  AllocModel.a_txns s' = delete t (AllocModel.a_txns s).
Proof. exact AllocProofs.abort_effect. Qed.
Print Assumptions C09_abort_effect.

Theorem C09_aborted_transaction_leaves_no_allocation_trace : forall s t ops s1 s2,
  AllocProofs.ainv s -> AllocModel.a_txns s !! t = None ->
  AllocModel.astep s (AllocModel.ABegin t) = Some s1 ->
  Forall (fun o => match o with AllocModel.AAlloc t' _ | AllocModel.AFree t' _ => t' = t | _ => False end) ops ->
  AllocModel.aruns s1 ops = s2 ->
  forall s3, AllocModel.astep s2 (AllocModel.AAbort t) = Some s3 ->
  AllocModel.a_disk s3 = AllocModel.a_disk s /\ AllocModel.a_mem s3 = AllocModel.a_mem s /\ AllocModel.a_txns s3 = AllocModel.a_txns s.
Proof. exact AllocProofs.begin_abort_identity. Qed.
Print Assumptions C09_aborted_transaction_leaves_no_allocation_trace.

(* IC (Model/IcacheModel.v) — the cache side of an aborted transaction (FsTxn.Abort: evict, then release): the disk is
   untouched, none of the inodes it held stays cached or buffered, every other inode is exactly as it was. *)
From V Require Model.IcacheModel Proofs.IcacheProofs.
Theorem C09_abort_evicts_what_it_edited :
  forall (V : Type) (E : EqDecision V) (dflt : V) (s : IcacheModel.icstate) (t : nat) (s' : IcacheModel.icstate),
  IcacheModel.icstep dflt s (IcacheModel.IAbort t) = Some s' ->
  IcacheModel.c_disk s' = IcacheModel.c_disk s /\
  (forall i, IcacheModel.c_owner s !! i = Some t ->
     IcacheModel.c_cache s' !! i = None /\ IcacheModel.c_wbuf s' !! i = None /\ IcacheModel.c_owner s' !! i = None) /\
  (forall i, IcacheModel.c_owner s !! i <> Some t ->
     IcacheModel.c_cache s' !! i = IcacheModel.c_cache s !! i /\ IcacheModel.c_wbuf s' !! i = IcacheModel.c_wbuf s !! i /\
     IcacheModel.c_owner s' !! i = IcacheModel.c_owner s !! i).
Proof. exact @IcacheProofs.ic_abort_effect. Qed.
Print Assumptions C09_abort_evicts_what_it_edited.
