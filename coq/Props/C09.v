(* C09 — a failed operation leaves no trace.
   On the reference AM this is a theorem for every state, call and outcome hint; the implementation is
   compared with AM after every failing RPC (abstraction of its disk, allocator counts, replies of
   arbitrary suffixes and after a restart).  The corresponding statement for a transliteration of the
   Go transaction code (abort undoes cache mutations, allocations returned) is not proved:
   see C09_partial below. *)
From stdpp Require Import gmap list.
From Coq Require Import NArith.
From V Require Import Model.Lib Model.Afs Proofs.AfsLaws.
Open Scope N_scope.

Theorem C09_failed_call_identity : forall P s c h,
  is_error (snd (step P s c h)) -> fst (step P s c h) = s.
Proof. exact failed_call_identity. Qed.
Print Assumptions C09_failed_call_identity.

(* in particular after any further history the observable behaviour is that of the never-issued run *)
Theorem C09_suffix_equal : forall P s c h cs,
  is_error (snd (step P s c h)) -> run P (fst (step P s c h)) cs = run P s cs.
Proof. intros P s c h cs H. rewrite (failed_call_identity P s c h H). reflexivity. Qed.
Print Assumptions C09_suffix_equal.

(* Full statement, of which the above is the reference half.  [impl_step] stands for the
   implementation's transition on its concrete state (disk, caches, allocators) and [abs] for abs_disk;
   the refinement hypothesis is what the correspondence check samples. *)
Definition C09_statement : Prop :=
  forall (cstate : Type) (impl_step : cstate -> call -> cstate * reply * hint) (abs : cstate -> afs) P,
    (forall c0 c, let '(c1, r, h) := impl_step c0 c in
                  step P (abs c0) c h = (abs c1, r)) ->
    forall c0 c, let '(c1, r, _) := impl_step c0 c in is_error r -> abs c1 = abs c0.

(* it follows from the refinement hypothesis and the reference theorem *)
Theorem C09_partial : C09_statement.
Proof.
  intros cstate impl_step abs P Href c0 c. specialize (Href c0 c).
  destruct (impl_step c0 c) as [[c1 r] h]. intros He.
  pose proof (failed_call_identity P (abs c0) c h) as F. rewrite Href in F. simpl in F. apply F. exact He.
Qed.
Print Assumptions C09_partial.
