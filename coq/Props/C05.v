(* C05 — freed space is fully reclaimed.
   TM (Proofs/Tree.v): the block map of an inode as an index tree of arbitrary depth and fan-out over a
   disk, with the allocator as a free list; indbmap / shrink_one transliterate inode.indbmap and
   inode.indshrink (plus what the caller does with the returned root).
   Theorems: the blocks owned by the tree together with the free list are a permutation of what they
   were (nothing leaks, nothing is owned twice) for allocation-on-demand and for freeing from the top;
   freeing down to block 0 returns every block of the tree, zeroed.
   The statement for whole histories of the real server (bitmaps = reachability on disk and in memory,
   at quiescence and in crash states) is what the correspondence checks after every operation with
   the extracted wf_disk / abs_disk and the allocator counts: C05_partial. *)
From Coq Require Import List Arith Permutation.
From V Require Import Proofs.Tree Proofs.TreeCor.

Theorem C05_alloc_keeps_ownership : forall NB, 0 < NB -> forall lvl root off d fr,
  off < pw NB lvl -> NoDup (blocks NB d lvl root ++ fr) -> free_zero d fr -> ~ In 0 fr ->
  let '(blk, root', d', fr') := indbmap NB lvl root off d fr in
  NoDup (blocks NB d' lvl root' ++ fr') /\
  Permutation (blocks NB d' lvl root' ++ fr') (blocks NB d lvl root ++ fr) /\
  free_zero d' fr' /\
  (forall off', off' < pw NB lvl -> off' <> off -> leaf NB d' lvl root' off' = leaf NB d lvl root off').
Proof. exact indbmap_ownership. Qed.
Print Assumptions C05_alloc_keeps_ownership.

Theorem C05_free_keeps_ownership : forall NB, 0 < NB -> forall lvl root bn d fr,
  bn < pw NB lvl -> NoDup (blocks NB d lvl root ++ fr) -> free_zero d fr -> trimmed NB d lvl root bn ->
  let '(root', d', fr') := shrink_one NB lvl root bn d fr in
  NoDup (blocks NB d' lvl root' ++ fr') /\
  Permutation (blocks NB d' lvl root' ++ fr') (blocks NB d lvl root ++ fr) /\
  free_zero d' fr' /\
  (forall off', off' < pw NB lvl -> leaf NB d' lvl root' off' = if Nat.ltb off' bn then leaf NB d lvl root off' else 0).
Proof. exact shrink_ownership. Qed.
Print Assumptions C05_free_keeps_ownership.

Theorem C05_free_all_returns_all : forall NB, 0 < NB -> forall lvl root d fr,
  NoDup (blocks NB d lvl root ++ fr) -> free_zero d fr -> trimmed NB d lvl root 0 ->
  let '(root', d', fr') := shrink_one NB lvl root 0 d fr in
  root' = 0 /\ Permutation fr' (blocks NB d lvl root ++ fr) /\ free_zero d' fr'.
Proof. exact shrink_to_zero_returns_all. Qed.
Print Assumptions C05_free_all_returns_all.

(* the mapping function as the code has it since fix 7466992 (a failed mapping is undone: the index blocks it
   had allocated go back, the inode keeps its old root): ownership as above, and nothing at all changes on failure *)
Theorem C05_mapping_failure_is_undone : forall NB : nat, (0 < NB)%nat -> forall (lvl root off : nat) d (fr : list nat),
  (off < pw NB lvl)%nat -> NoDup (blocks NB d lvl root ++ fr) -> free_zero d fr -> ~ In 0%nat fr ->
  let '(blk, root', d', fr') := indbmap_undo NB lvl root off d fr in
  NoDup (blocks NB d' lvl root' ++ fr') /\
  Permutation (blocks NB d' lvl root' ++ fr') (blocks NB d lvl root ++ fr) /\
  free_zero d' fr' /\
  (forall off', (off' < pw NB lvl)%nat -> off' <> off -> leaf NB d' lvl root' off' = leaf NB d lvl root off') /\
  (blk = 0%nat -> root' = root /\ d' = d /\ fr' = fr).
Proof. exact indbmap_undo_ownership. Qed.
Print Assumptions C05_mapping_failure_is_undone.

(* AT (Model/AllocModel.v, Proofs/AllocProofs.v) — alloctxn/alloctxn.go over alloc.Alloc, for any number of interleaved
   transactions that allocate, free, commit and abort: whenever no transaction runs, the in-memory allocator marks
   exactly the numbers the on-disk bitmap marks (this is the relation R-alloc the harness evaluates after every RPC,
   after recovery and on the twin); a commit makes exactly its allocations and frees durable and releases the freed
   numbers in memory; a number allocated and given back inside one transaction is free in both afterwards
   (PreCommit writes the allocation bits first and the free bits second). *)
From stdpp Require Import gmap.
From V Require Model.AllocModel Proofs.AllocProofs.
Theorem C05_allocator_agrees_with_bitmap_when_quiescent : forall d os,
  AllocModel.a_txns (AllocModel.aruns (AllocModel.a_init d) os) = ∅ ->
  AllocModel.a_mem (AllocModel.aruns (AllocModel.a_init d) os) = AllocModel.a_disk (AllocModel.aruns (AllocModel.a_init d) os).
Proof. exact AllocProofs.quiescent_agree_reachable. Qed.
Print Assumptions C05_allocator_agrees_with_bitmap_when_quiescent.

Theorem C05_commit_effect : forall s t tx s',
  AllocModel.astep s (AllocModel.ACommit t) = Some s' -> AllocModel.a_txns s !! t = Some tx ->
  (forall n, n ∈ AllocModel.a_disk s' <-> (n ∈ AllocModel.a_disk s \/ n ∈ AllocModel.t_al tx) /\ n ∉ AllocModel.t_fr tx) /\
  (forall n, n ∈ AllocModel.a_mem s' <-> n ∈ AllocModel.a_mem s /\ n ∉ AllocModel.t_fr tx) /\
  AllocModel.a_txns s' = delete t (AllocModel.a_txns s).
Proof. exact AllocProofs.commit_effect. Qed.
Print Assumptions C05_commit_effect.

Theorem C05_allocated_and_given_back_is_free : forall s t tx s' n,
  AllocModel.astep s (AllocModel.ACommit t) = Some s' -> AllocModel.a_txns s !! t = Some tx ->
  n ∈ AllocModel.t_al tx -> n ∈ AllocModel.t_fr tx -> n ∉ AllocModel.a_disk s' /\ n ∉ AllocModel.a_mem s'.
Proof. exact AllocProofs.alloc_then_free_is_free. Qed.
Print Assumptions C05_allocated_and_given_back_is_free.
