(* C05 — freed space is fully reclaimed.
   TM (Proofs/Tree.v): the block map of an inode as an index tree of arbitrary depth and fan-out over a
   disk, with the allocator as a free list; indbmap / shrink_one transliterate inode.indbmap and
   inode.indshrink (plus what the caller does with the returned root).
   Theorems: the blocks owned by the tree together with the free list are a permutation of what they
   were (nothing leaks, nothing is owned twice) for allocation-on-demand and for freeing from the top;
   freeing down to block 0 returns every block of the tree, zeroed.
   The statement for whole histories of the real server (bitmaps = reachability on disk and in memory,
   at quiescence and in crash states) is what the correspondence checks after every operation with
   the extracted wf_disk / abs_disk and the allocator counts: C05_partial. *)
From Coq Require Import List Arith Permutation.
From V Require Import Proofs.Tree Proofs.TreeCor.

Theorem C05_alloc_keeps_ownership : forall NB, 0 < NB -> forall lvl root off d fr,
  off < pw NB lvl -> NoDup (blocks NB d lvl root ++ fr) -> free_zero d fr -> ~ In 0 fr ->
  let '(blk, root', d', fr') := indbmap NB lvl root off d fr in
  NoDup (blocks NB d' lvl root' ++ fr') /\
  Permutation (blocks NB d' lvl root' ++ fr') (blocks NB d lvl root ++ fr) /\
  free_zero d' fr' /\
  (forall off', off' < pw NB lvl -> off' <> off -> leaf NB d' lvl root' off' = leaf NB d lvl root off').
Proof. exact indbmap_ownership. Qed.
Print Assumptions C05_alloc_keeps_ownership.

Theorem C05_free_keeps_ownership : forall NB, 0 < NB -> forall lvl root bn d fr,
  bn < pw NB lvl -> NoDup (blocks NB d lvl root ++ fr) -> free_zero d fr -> trimmed NB d lvl root bn ->
  let '(root', d', fr') := shrink_one NB lvl root bn d fr in
  NoDup (blocks NB d' lvl root' ++ fr') /\
  Permutation (blocks NB d' lvl root' ++ fr') (blocks NB d lvl root ++ fr) /\
  free_zero d' fr' /\
  (forall off', off' < pw NB lvl -> leaf NB d' lvl root' off' = if Nat.ltb off' bn then leaf NB d lvl root off' else 0).
Proof. exact shrink_ownership. Qed.
Print Assumptions C05_free_keeps_ownership.

Theorem C05_free_all_returns_all : forall NB, 0 < NB -> forall lvl root d fr,
  NoDup (blocks NB d lvl root ++ fr) -> free_zero d fr -> trimmed NB d lvl root 0 ->
  let '(root', d', fr') := shrink_one NB lvl root 0 d fr in
  root' = 0 /\ Permutation fr' (blocks NB d lvl root ++ fr) /\ free_zero d' fr'.
Proof. exact shrink_to_zero_returns_all. Qed.
Print Assumptions C05_free_all_returns_all.

(* the mapping function as the code has it since fix 7466992 (a failed mapping is undone: the index blocks it
   had allocated go back, the inode keeps its old root): ownership as above, and nothing at all changes on failure *)
Theorem C05_mapping_failure_is_undone : forall NB : nat, (0 < NB)%nat -> forall (lvl root off : nat) d (fr : list nat),
  (off < pw NB lvl)%nat -> NoDup (blocks NB d lvl root ++ fr) -> free_zero d fr -> ~ In 0%nat fr ->
  let '(blk, root', d', fr') := indbmap_undo NB lvl root off d fr in
  NoDup (blocks NB d' lvl root' ++ fr') /\
  Permutation (blocks NB d' lvl root' ++ fr') (blocks NB d lvl root ++ fr) /\
  free_zero d' fr' /\
  (forall off', (off' < pw NB lvl)%nat -> off' <> off -> leaf NB d' lvl root' off' = leaf NB d lvl root off') /\
  (blk = 0%nat -> root' = root /\ d' = d /\ fr' = fr).
Proof. exact indbmap_undo_ownership. Qed.
Print Assumptions C05_mapping_failure_is_undone.
