(* C08 — a file handle denotes one object for ever; stale handles stay stale.
   Stated on the reference AM (Model/Afs.v), which the correspondence check compares with the
   implementation reply by reply (dead handles are re-presented to every procedure and position,
   after restarts that force immediate reuse of inode numbers).  Proofs: Proofs/AfsLaws.v. *)
From stdpp Require Import gmap list.
From Coq Require Import NArith.
From V Require Import Model.Lib Model.Afs Proofs.AfsLaws.
Open Scope N_scope.

(* once dead (issued, not the generation of a live inode), dead after every later history,
   including restarts (CRestart is a call) and whatever numbers are reused *)
Theorem C08_dead_forever : forall P cs s i g, dead s i g -> dead (run P s cs) i g.
Proof. exact dead_forever_run. Qed.
Print Assumptions C08_dead_forever.

(* a successful CREATE/MKDIR/SYMLINK returns a (number, generation) pair never handed out before *)
Theorem C08_create_fresh : forall P s d n k content hh s' a,
  create P s d n k content (HHandle hh) = (s', RHandle hh a) ->
  exists i g, parse_handle hh = Some (i, g) /\ (i, g) ∉ issued s /\ (i, g) ∈ issued s' /\ gen_of s' i = Some g.
Proof. exact create_fresh. Qed.
Print Assumptions C08_create_fresh.

(* every procedure, every handle-typed argument position: a handle that does not resolve makes the
   call fail without effect ... *)
Theorem C08_stale_everywhere : forall P s c hi h,
  h ∈ handles_of c -> resolve P s h = None ->
  is_error (snd (step P s c hi)) /\ fst (step P s c hi) = s.
Proof. exact stale_everywhere. Qed.
Print Assumptions C08_stale_everywhere.

(* ... and the failure is NFS3ERR_STALE unless the request is refused for its other arguments first *)
Theorem C08_stale_class : forall P s c hi h,
  h ∈ handles_of c -> resolve P s h = None -> stale_first c = true ->
  snd (step P s c hi) = RStatus STALE.
Proof. exact stale_class. Qed.
Print Assumptions C08_stale_class.

(* non-vacuity: removing a created file makes its handle dead *)
Example C08_example :
  let P := {| p_name_max := 112; p_maxfilesize := 1073774592; p_wtmax := 2027520; p_ninode := 32768 |} in
  let root := mk_handle 1 1 in
  let s1 := fst (step P (init_afs true) (CCreate root [Byte.x61] false) (HHandle (mk_handle 2 1))) in
  let s2 := fst (step P s1 (CRemove root [Byte.x61]) HNone) in
  gen_of s1 2 = Some 1 /\ gen_of s2 2 = None /\ resolve P s2 (mk_handle 2 1) = None.
Proof. vm_compute. auto. Qed.
