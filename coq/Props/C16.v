(* C16 — wire format and dispatch conform to RFC 1813.
   XM (Model/Xdr.v): one generic XDR encoder/decoder over a closed descriptor grammar.
   Proved for EVERY descriptor environment, type, value and fuel: decoding what was encoded returns the
   value and leaves the rest of the input untouched (so two values never share an encoding, and nothing
   is read past the end of the encoding).
   Gen/GenXdr.v is regenerated on every run from nfstypes/nfs_xdr.go (every Xdr method, the registration
   tables, the wrappers, both main.go files); Gen/GenRfc.v is regenerated from the RFC's prot.x.
   Decided by computation on these closed terms (finite, stated as such): every RFC type has the same
   descriptor in the repository's codec up to capitalisation; every RFC procedure number is registered
   exactly once with the wrapper/argument type/handler/result type of that procedure, nothing else is
   registered, and both servers register both tables.
   Tie of XM to the code: every value of every argument/result type that the harness generates is
   encoded by the Go codec, decoded by the extracted XM with the generated descriptors (must succeed,
   consume everything, and re-encode to the same bytes) and by the independent rfc1813 package; truncated
   and corrupted encodings must be rejected or decoded identically by Go and XM. *)
From Coq Require Import List NArith String.
From V Require Import Model.Lib Model.Xdr Model.XdrConform Proofs.XdrProofs Gen.GenXdr Gen.GenRfc.
Import ListNotations.

Theorem C16_decode_encode : forall (E : env) f t v bs rest,
  enc E f t v = Some bs -> dec E f t (bs ++ rest)%list = Some (v, rest).
Proof. exact decode_encode. Qed.
Print Assumptions C16_decode_encode.

Theorem C16_decode_encode_exact : forall (E : env) f t v bs,
  enc E f t v = Some bs -> dec E f t bs = Some (v, []).
Proof. exact decode_encode_exact. Qed.

(* injectivity: different values of a type never have the same encoding *)
Theorem C16_encoding_injective : forall (E : env) f t v1 v2 bs,
  enc E f t v1 = Some bs -> enc E f t v2 = Some bs -> v1 = v2.
Proof.
  intros E f t v1 v2 bs H1 H2. pose proof (decode_encode_exact E f t v1 bs H1) as D1.
  pose proof (decode_encode_exact E f t v2 bs H2) as D2. congruence.
Qed.
Print Assumptions C16_encoding_injective.

(* the repository's codec has the RFC's layout for every RFC type *)
Theorem C16_types_conform : nonconforming gen_env rfc_env = [].
Proof. vm_compute. reflexivity. Qed.

(* dispatch *)
Theorem C16_dispatch_conforms : procs_conform gen_procs rfc_procs = true.
Proof. vm_compute. reflexivity. Qed.

Theorem C16_both_servers_register_both_tables : registered_ok gen_registered = true.
Proof. vm_compute. reflexivity. Qed.

(* non-vacuity: a READ reply with data round-trips through the generated descriptors *)
Example C16_example :
  let v := VS [("Status", VN 0); ("Resok", VS [("File_attributes", VS [("Attributes_follow", VN 0)]);
               ("Count", VN 3); ("Eof", VN 1); ("Data", VB [Byte.x01; Byte.x02; Byte.x03])])]%string in
  match enc gen_env 40 (TRef "READ3res") v with
  | Some bs => dec gen_env 40 (TRef "READ3res") bs = Some (v, []) /\ List.length bs = 24%nat
  | None => False end.
Proof. vm_compute. auto. Qed.
