(* C07 — unstable-write contract.
   Reference level (AM): unstable data is visible at once (the effect of WRITE does not depend on the
   stability level), the committed level reported is never weaker than the level requested, and with
   the server option off every write reports FILE_SYNC.
   Journal level (WM, model of go-journal's wal): every crash image recovers a *prefix* of the appended
   transactions (so lost unstable operations form a suffix of acknowledgement order and nothing flushed
   is lost), and once the log has been flushed past a transaction (COMMIT, or any later waited
   transaction) every later crash image contains it.
   The verifier clause (a different write verifier per server instance) and the link "one RPC = one
   transaction, waited unless UNSTABLE" are checked on the real server by the crash-image
   correspondence (window of admissible prefixes per crash point, verifier of the recovered instance). *)
From stdpp Require Import gmap list.
From Coq Require Import NArith List Arith.
From V Require Import Model.Lib Model.Afs Proofs.AfsLaws.
From V Require Proofs.Wal.

Theorem C07_unstable_visible : forall P s h off cnt st1 st2 d hi,
  fst (step P s (CWrite h off cnt st1 d) hi) = fst (step P s (CWrite h off cnt st2 d) hi).
Proof. exact write_effect_independent_of_stability. Qed.
Print Assumptions C07_unstable_visible.

Theorem C07_committed_not_weaker : forall P s h off cnt st d hi n c a,
  snd (step P s (CWrite h off cnt st d) hi) = RWritten n c a -> (stable_rank st <= stable_rank c)%N.
Proof. exact committed_not_weaker. Qed.
Print Assumptions C07_committed_not_weaker.

Theorem C07_option_off_file_sync : forall P s h off cnt st d hi n c a,
  unstable_opt s = false ->
  snd (step P s (CWrite h off cnt st d) hi) = RWritten n c a -> c = FileSync.
Proof. exact option_off_file_sync. Qed.
Print Assumptions C07_option_off_file_sync.

(* loss is a suffix: whatever is recovered is the first k transactions, k at least what the logger had
   acknowledged (Wal.diskEnd) *)
Theorem C07_loss_is_suffix : forall L : nat, (0 < L)%nat -> forall base0 s c,
  Wal.reach L base0 s -> Wal.crash_img (Wal.dur s) (Wal.pend s) c ->
  exists k, In (Wal.hend c, k) (Wal.bnd s) /\ (k <= length (Wal.txns s))%nat /\ (Wal.diskEnd s <= Wal.hend c)%nat /\
            Wal.meq (Wal.recover L c) (Wal.apply_txns (firstn k (Wal.txns s)) base0).
Proof. exact Wal.wal_crash_prefix. Qed.
Print Assumptions C07_loss_is_suffix.

(* commit makes durable: once flushed, the transaction (and all before it) is in every later crash image *)
Theorem C07_commit_durable : forall L : nat, (0 < L)%nat -> forall base0 s0 t s c,
  Wal.Inv L base0 s0 -> t <> nil -> Wal.steps L (Wal.append_st s0 t) s ->
  (length (Wal.flog (Wal.append_st s0 t)) <= Wal.diskEnd s)%nat ->
  Wal.crash_img (Wal.dur s) (Wal.pend s) c ->
  exists k, (length (Wal.txns s0) + 1 <= k)%nat /\ (k <= length (Wal.txns s))%nat /\
            Wal.meq (Wal.recover L c) (Wal.apply_txns (firstn k (Wal.txns s)) base0).
Proof. exact Wal.wal_durable. Qed.
Print Assumptions C07_commit_durable.
