(* C13 — directory enumeration is complete, duplicate-free and terminates.
   PM (Proofs/Paging.v): a directory is a list of slots (free or entry); a page is ApplyEnts' loop with
   the cookie of an entry = index of the NEXT slot and the page ending after the entry that reaches the
   limit.  For any sequence of directory states (arbitrary additions/removals between calls, slots never
   move, directories never shrink) and any limits:
   - the enumeration started at cookie 0 and continued with the last cookie received terminates within
     (#slots + 1) calls,
   - an entry that occupies the same slot in all states served is returned exactly once.
   Tie: every READDIR reply of the real server is compared with the extracted page function run on the
   slots decoded from the implementation's disk (Agree.readdir_matches_model); whole enumerations with
   ~20 limit values and a dense sweep, for READDIR and READDIRPLUS (dircount / maxcount), with entries
   added and removed between pages, are checked for progress, termination, no duplicates, completeness,
   and entries/handles/attributes against the reference AM (Agree.dir_agree). *)
From Coq Require Import List Arith NArith.
From V Require Import Proofs.Paging.

Theorem C13_enum_terminates : forall (entry : Type) (cost : entry -> N) (ds : nat -> dir entry) (counts : nat -> N),
  (forall k, length (ds k) <= length (ds (S k))) ->
  forall M, (forall k, length (ds k) <= M) ->
  forall fuel k c, c <= length (ds k) -> M + 1 - c <= fuel -> snd (enum entry cost ds counts fuel k c) = true.
Proof. exact enum_terminates. Qed.
Print Assumptions C13_enum_terminates.

Theorem C13_enum_exactly_once : forall (entry : Type) (cost : entry -> N) (ds : nat -> dir entry) (counts : nat -> N),
  (forall k, length (ds k) <= length (ds (S k))) ->
  forall fuel k c i e,
  c <= length (ds k) -> c <= i ->
  (forall j, nth_error (ds (k + j)) i = Some (Some e)) ->
  snd (enum entry cost ds counts fuel k c) = true ->
  count_idx entry i (concat (fst (enum entry cost ds counts fuel k c))) = 1 /\
  In (i, e) (concat (fst (enum entry cost ds counts fuel k c))).
Proof. exact enum_exactly_once. Qed.
Print Assumptions C13_enum_exactly_once.
