(* C13 — directory enumeration is complete, duplicate-free and terminates.
   PM (Proofs/Paging.v): a directory is a list of slots (free or entry); a page is the loop of dir.ApplyEnts /
   dir.Apply with the cookie of an entry = index of the NEXT slot and the page ending after the entry that
   fills the reply.  The size accounting is a parameter (a budget, what an entry charges, when the reply is
   full); READDIR (one counter against `count`) and READDIRPLUS (two counters against `dircount` and
   `maxcount`) are its two instances, and an enumeration may switch between them from call to call.
   For any sequence of directory states (arbitrary additions/removals between calls, slots never move,
   directories never shrink), any procedure and any limits per call (0 included):
   - the enumeration started at cookie 0 and continued with the last cookie received terminates within
     (#slots + 1) calls,
   - an entry that occupies the same slot in all states served is returned exactly once.
   Tie: every READDIR and every READDIRPLUS reply of the real server is compared with the extracted page
   function of its instance run on the slots decoded from the implementation's disk
   (Agree.readdir_matches_model, Agree.readdirplus_matches_model); whole enumerations with ~20 limit values
   and a dense sweep, for READDIR and READDIRPLUS (dircount / maxcount), with entries added and removed
   between pages, are checked for progress, termination, no duplicates, completeness, and
   entries/handles/attributes against the reference AM (Agree.dir_agree). *)
From Coq Require Import List Arith NArith.
From V Require Import Proofs.Paging.

Theorem C13_enum_terminates : forall (entry budget : Type) (charge : budget -> entry -> budget) (full : budget -> bool)
    (ds : nat -> dir entry) (counts : nat -> budget),
  (forall k, length (ds k) <= length (ds (S k))) ->
  forall M, (forall k, length (ds k) <= M) ->
  forall fuel k c, c <= length (ds k) -> M + 1 - c <= fuel -> snd (enum entry budget charge full ds counts fuel k c) = true.
Proof. exact enum_terminates. Qed.
Print Assumptions C13_enum_terminates.

Theorem C13_enum_exactly_once : forall (entry budget : Type) (charge : budget -> entry -> budget) (full : budget -> bool)
    (ds : nat -> dir entry) (counts : nat -> budget),
  (forall k, length (ds k) <= length (ds (S k))) ->
  forall fuel k c i e,
  c <= length (ds k) -> c <= i ->
  (forall j, nth_error (ds (k + j)) i = Some (Some e)) ->
  snd (enum entry budget charge full ds counts fuel k c) = true ->
  count_idx entry i (concat (fst (enum entry budget charge full ds counts fuel k c))) = 1 /\
  In (i, e) (concat (fst (enum entry budget charge full ds counts fuel k c))).
Proof. exact enum_exactly_once. Qed.
Print Assumptions C13_enum_exactly_once.

(* The server's instance: every call is a READDIR with its count or a READDIRPLUS with its dircount/maxcount, and
   the page served is the page of that procedure's loop. *)
Theorem C13_server_page_is_the_procedure's : forall (entry : Type) (cost dcost pcost : entry -> N) (d : dir entry) (c : nat),
  (forall count, sv_page entry cost dcost pcost d c (Readdir count) = page_readdir cost d c count) /\
  (forall dc mc, sv_page entry cost dcost pcost d c (Readdirplus dc mc) = page_readdirplus dcost pcost d c dc mc).
Proof. exact (fun entry cost dcost pcost d c => conj (sv_page_readdir entry cost dcost pcost d c) (sv_page_readdirplus entry cost dcost pcost d c)). Qed.
Print Assumptions C13_server_page_is_the_procedure's.

Theorem C13_server_enum_terminates : forall (entry : Type) (cost dcost pcost : entry -> N) (ds : nat -> dir entry) (lims : nat -> limits),
  (forall k, length (ds k) <= length (ds (S k))) ->
  forall M, (forall k, length (ds k) <= M) ->
  forall fuel k c, c <= length (ds k) -> M + 1 - c <= fuel -> snd (sv_enum entry cost dcost pcost ds lims fuel k c) = true.
Proof. exact (fun entry cost dcost pcost ds lims => enum_terminates entry _ _ _ ds _). Qed.
Print Assumptions C13_server_enum_terminates.

Theorem C13_server_enum_exactly_once : forall (entry : Type) (cost dcost pcost : entry -> N) (ds : nat -> dir entry) (lims : nat -> limits),
  (forall k, length (ds k) <= length (ds (S k))) ->
  forall fuel k c i e,
  c <= length (ds k) -> c <= i ->
  (forall j, nth_error (ds (k + j)) i = Some (Some e)) ->
  snd (sv_enum entry cost dcost pcost ds lims fuel k c) = true ->
  count_idx entry i (concat (fst (sv_enum entry cost dcost pcost ds lims fuel k c))) = 1 /\
  In (i, e) (concat (fst (sv_enum entry cost dcost pcost ds lims fuel k c))).
Proof. exact (fun entry cost dcost pcost ds lims => enum_exactly_once entry _ _ _ ds _). Qed.
Print Assumptions C13_server_enum_exactly_once.

(* the numbers the two page instances use are the code's constants (translated on every run) *)
From V Require Gen.GenConsts Model.Abs Model.Agree Proofs.ConstsConform.
Theorem C13_page_constants_conform :
  GenConsts.go_dir_entryplus3Baggage = Agree.ENTRYPLUS_BAGGAGE /\ GenConsts.go_dir_DIRENTSZ = Abs.DIRENTSZ.
Proof. exact (conj ConstsConform.readdirplus_baggage (proj1 ConstsConform.dirent_size)). Qed.
Print Assumptions C13_page_constants_conform.

(* DM (Model/DirModel.v, Proofs/DirProofs.v) — the directory layer of dir/dir.go and dir/dcache.go.  What the
   enumeration theorems assume of consecutive directory states ("never shrinks, an entry that keeps existing stays
   in its slot") is a theorem about that layer: every operation on a coherent directory (LookupName, guarded
   AddName with or without room to grow, RemName, loss of the name cache) leaves it coherent and is a `step_ok`
   step; and along any sequence of `step_ok` steps an enumeration that mixes READDIR and READDIRPLUS with any
   limits lists an entry that exists throughout exactly once.  Tie: the extracted `step_ok_b` (sound for
   `step_ok`) is run on the decoded slots of every directory before and after every RPC of the sequential runs. *)
From V Require Model.Lib Model.DirModel Proofs.DirProofs.
Theorem C13_directory_operations_keep_slots : forall (st : DirModel.dstate) (o : DirProofs.dop),
  DirProofs.coh st ->
  DirProofs.coh (DirProofs.dstep st o) /\ DirProofs.step_ok (DirModel.d_slots st) (DirModel.d_slots (DirProofs.dstep st o)).
Proof. exact DirProofs.dstep_ok. Qed.
Print Assumptions C13_directory_operations_keep_slots.

Theorem C13_step_check_sound : forall a b, DirModel.step_ok_b a b = true -> DirProofs.step_ok a b.
Proof. exact DirProofs.step_ok_b_sound. Qed.
Print Assumptions C13_step_check_sound.

(* ... and complete: it accepts every pair of directory states the theorems allow (no alarm where the property holds) *)
Theorem C13_step_check_complete : forall a b, DirProofs.step_ok a b -> DirModel.step_ok_b a b = true.
Proof. exact DirProofs.step_ok_b_complete. Qed.
Print Assumptions C13_step_check_complete.

Theorem C13_listed_once_from_directory_steps :
  forall (cost dcost pcost : Lib.name * N -> N) (st : nat -> list (option (Lib.name * N))) (tm : nat -> nat) (lims : nat -> limits),
  (forall t, DirProofs.step_ok (st t) (st (S t))) ->
  (forall k, tm k <= tm (S k)) ->
  forall fuel i e, DirProofs.at_ (st (tm 0)) i e ->
  (forall t, tm 0 <= t -> exists j, DirProofs.at_ (st t) j e) ->
  snd (sv_enum (Lib.name * N) cost dcost pcost (fun k => st (tm k)) lims fuel 0 0) = true ->
  count_idx (Lib.name * N) i (concat (fst (sv_enum (Lib.name * N) cost dcost pcost (fun k => st (tm k)) lims fuel 0 0))) = 1 /\
  In (i, e) (concat (fst (sv_enum (Lib.name * N) cost dcost pcost (fun k => st (tm k)) lims fuel 0 0))).
Proof. exact DirProofs.listed_once_from_dir_steps. Qed.
Print Assumptions C13_listed_once_from_directory_steps.
