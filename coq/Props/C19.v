(* C19 — advertised limits are honoured exactly.
   The reference AM takes the announced limits as parameters: a name up to p_name_max is well-formed,
   a WRITE of up to p_wtmax bytes ending at or below p_maxfilesize succeeds, a SETATTR size up to
   p_maxfilesize succeeds, and anything beyond is an error that changes nothing.  Theorems below are
   about AM (for all states and arguments, arithmetic on unbounded N so no wrap-around); the real
   server is compared with AM instantiated with the values it announces, at limit-1 / limit / limit+1. *)
From stdpp Require Import gmap list.
From Coq Require Import NArith.
From V Require Import Model.Lib Model.Afs Proofs.AfsLaws.
Open Scope N_scope.

(* beyond a limit: refused, and (C09) nothing changes *)
Theorem C19_write_beyond_wtmax_refused : forall P s h off cnt st d hi,
  p_wtmax P < cnt -> is_error (snd (step P s (CWrite h off cnt st d) hi)) /\ fst (step P s (CWrite h off cnt st d) hi) = s.
Proof.
  intros P s h off cnt st d hi H. simpl. unfold do_write.
  destruct (resolve P s h) as [[i o]|]; [|simpl; auto].
  destruct (negb (bool_decide (o_kind o = KFile))); [simpl; auto|].
  destruct (negb (cnt =? lenN d)); [simpl; auto|].
  apply N.ltb_lt in H. rewrite H. simpl. auto.
Qed.
Print Assumptions C19_write_beyond_wtmax_refused.

Theorem C19_write_beyond_maxfilesize_refused : forall P s h off cnt st d hi,
  p_maxfilesize P < off + cnt -> is_error (snd (step P s (CWrite h off cnt st d) hi)) /\ fst (step P s (CWrite h off cnt st d) hi) = s.
Proof.
  intros P s h off cnt st d hi H. simpl. unfold do_write.
  destruct (resolve P s h) as [[i o]|]; [|simpl; auto].
  destruct (negb (bool_decide (o_kind o = KFile))); [simpl; auto|].
  destruct (negb (cnt =? lenN d)); [simpl; auto|].
  destruct (p_wtmax P <? cnt); [simpl; auto|].
  apply N.ltb_lt in H. rewrite H. simpl. auto.
Qed.
Print Assumptions C19_write_beyond_maxfilesize_refused.

Theorem C19_setattr_beyond_maxfilesize_refused : forall P s h sz a m hi,
  p_maxfilesize P < sz -> is_error (snd (step P s (CSetattr h (Some sz) a m) hi)) /\ fst (step P s (CSetattr h (Some sz) a m) hi) = s.
Proof.
  intros P s h sz a m hi H. simpl. unfold do_setattr.
  destruct (resolve P s h) as [[i o]|]; [|simpl; auto].
  destruct (negb (bool_decide (o_kind o = KFile))); [simpl; auto|].
  apply N.ltb_lt in H. rewrite H. simpl. auto.
Qed.
Print Assumptions C19_setattr_beyond_maxfilesize_refused.

(* up to a limit: accepted (given a live regular file, matching count, space) *)
Theorem C19_write_within_limits_accepted : forall P s h off cnt st d i o,
  resolve P s h = Some (i, o) -> o_kind o = KFile -> cnt = lenN d ->
  cnt <= p_wtmax P -> off + cnt <= p_maxfilesize P ->
  exists n c a, snd (step P s (CWrite h off cnt st d) HNone) = RWritten n c a /\ n = cnt.
Proof.
  intros P s h off cnt st d i o Hr Hk Hc Hw Hm. simpl. unfold do_write. rewrite Hr.
  rewrite bool_decide_eq_true_2 by exact Hk. simpl.
  subst cnt. rewrite N.eqb_refl. simpl.
  destruct (N.ltb_spec (p_wtmax P) (lenN d)); [lia|].
  destruct (N.ltb_spec (p_maxfilesize P) (off + lenN d)); [lia|].
  simpl. eauto.
Qed.
Print Assumptions C19_write_within_limits_accepted.

(* a name is acceptable exactly when it is non-empty, within name_max, without '/' and NUL, not a dot name *)
Theorem C19_name_limit : forall P n,
  wf_name P n = true -> 1 <= lenN n /\ lenN n <= p_name_max P.
Proof.
  intros P n H. unfold wf_name in H. rewrite !andb_true_iff in H. destruct H as [[[[H1 H2] _] _] _].
  apply negb_true_iff, N.eqb_neq in H1. apply N.leb_le in H2. lia.
Qed.
Print Assumptions C19_name_limit.
