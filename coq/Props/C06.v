(* C06 — no deadlock or livelock: every RPC terminates.
   LM (Proofs/Locks.v): any number of threads, each a transaction that acquires a fixed strictly
   ascending list of blocking locks and then releases them all.  For every schedule, every reachable
   state is terminal or has an enabled step: no wait-for cycle, no self-acquire.
   Link to the code: the verif hooks report every inode-lock acquire/release of every transaction;
   the executable predicate asc_b (Model/TraceCheck.v) says "a lock is requested only while all locks
   still held are smaller"; C06_asc_gives_hypothesis shows that a transaction passing asc_b (and not
   releasing early) has exactly the acquisition list the theorem asks for.  The check evaluates the
   extracted asc_b on every transaction of generated runs over trees in which children have smaller and
   larger inode numbers than their parents, four-inode renames, listings, stale handles and cold caches,
   and counts the transactions each RPC needs (a request that keeps aborting is a livelock).
   Schedules of the Go runtime are not enumerated: the theorem covers all schedules of the model; the
   code is tied to the model through the per-transaction acquisition order only. *)
From Coq Require Import List Arith NArith Sorted.
From V Require Import Proofs.Locks Model.TraceCheck Proofs.TraceLocks.

Theorem C06_ordered_no_deadlock : forall s0 s,
  init_ok s0 -> reach s0 s -> Forall done s \/ enabled s.
Proof. exact ordered_no_deadlock. Qed.
Print Assumptions C06_ordered_no_deadlock.

Theorem C06_asc_gives_hypothesis : forall evs,
  no_early_release false evs = true -> asc_b nil evs = true ->
  StronglySorted N.lt (acquisitions evs).
Proof. exact asc_b_sorted. Qed.
Print Assumptions C06_asc_gives_hypothesis.

(* the predicate is not vacuous: it accepts an ascending transaction and rejects a descending one and
   a double acquisition *)
Example C06_asc_examples :
  asc_b nil (TAcq 1 :: TAcq 5 :: TCommit true :: TCommitted true :: TRel 5 :: TRel 1 :: nil) = true /\
  asc_b nil (TAcq 5 :: TAcq 1 :: nil) = false /\ asc_b nil (TAcq 5 :: TAcq 5 :: nil) = false.
Proof. vm_compute. auto. Qed.
