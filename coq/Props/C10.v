(* C10 — the running server and a restart from its disk are indistinguishable.
   Reference: a clean restart is the identity on AM (no observable change).
   Layouts: decoding what was encoded gives back every field, for inodes (all field values in range,
   128 bytes), directory entries (names up to 112 bytes, 128-byte slots) and file handles (16 bytes):
   what the server writes from its cache is what a restarted server reads.
   Checked on every run: (R-cache) every cached inode of the running server, as the server itself
   encodes it, equals the 128 bytes of its disk inode, re-encoding the decoded bytes reproduces them
   (ties Model/Layout.v to inode.Encode/Decode), every directory's name cache equals the occupied slots
   decoded from disk, allocator counts equal bitmap counts; (twin) at quiescent points a second real
   server is started on a copy of the raw disk (log recovery included) and both are walked through the
   API (listings, handles, attributes, data digests, link targets) and must agree, including workloads
   with more live objects than the inode cache holds, multi-block directories and failed operations. *)
From stdpp Require Import gmap list.
From Coq Require Import NArith.
From V Require Import Model.Lib Model.Afs Model.Abs Model.Layout Proofs.AfsLaws Proofs.LayoutProofs.
Open Scope N_scope.

Theorem C10_restart_identity : forall P s h, step P s CRestart h = (s, RStatus OK).
Proof. exact restart_identity. Qed.

Theorem C10_decode_encode_inode : forall ip, inode_in_range ip -> decode_inode (encode_inode ip) = ip.
Proof. exact decode_encode_inode. Qed.
Print Assumptions C10_decode_encode_inode.

Theorem C10_decode_encode_dirent : forall inum n, 0 < inum -> inum < 2^64 -> lenN n <= 112 ->
  slot_of (encode_dirent inum n) 0 = Some (n, inum) /\ length (encode_dirent inum n) = 128%nat.
Proof. exact decode_encode_dirent. Qed.
Print Assumptions C10_decode_encode_dirent.

Theorem C10_decode_encode_fh : forall i g, i < 2^64 -> g < 2^64 -> parse_handle (encode_fh i g) = Some (i, g).
Proof. exact decode_encode_fh. Qed.
Print Assumptions C10_decode_encode_fh.

(* The name cache the running server answers LOOKUP from is what a restarted server would read from the slots:
   DM (Model/DirModel.v: mkDcache, LookupName, AddName, RemName of dir/dir.go + dir/dcache.go), for every history
   of directory operations starting from a freshly made directory — cache present or dropped in between. *)
From V Require Model.DirModel Proofs.DirProofs.
Theorem C10_name_cache_coherent : forall self parent os,
  DirProofs.coh (DirProofs.druns (DirProofs.dir_init self parent) os).
Proof. exact (fun self parent os => DirProofs.druns_coh os _ (DirProofs.dir_init_coh self parent)). Qed.
Print Assumptions C10_name_cache_coherent.

Theorem C10_lookup_answers_from_the_slots : forall st n st' r, DirProofs.coh st -> DirModel.dm_lookup st n = (st', r) ->
  DirProofs.coh st' /\ DirModel.d_slots st' = DirModel.d_slots st /\
  (forall i k, r = Some (i, k) <-> DirProofs.at_ (DirModel.d_slots st) k (n, i)).
Proof. exact DirProofs.dm_lookup_spec. Qed.
Print Assumptions C10_lookup_answers_from_the_slots.

(* IC (Model/IcacheModel.v, Proofs/IcacheProofs.v) — the inode cache under transactions (fstxn, cache, WriteInode):
   for every interleaving of transactions that lock, edit in place, log, commit and abort inodes, and of evictions,
   a cached inode that no transaction holds equals the disk's; hence what the running server serves for an inode
   nobody holds is what a server restarted from its disk serves.  The model assumes the discipline that a committing
   transaction has logged every inode it edited (guard `all_clean`); R-cache compares every cached inode with the
   disk bytes at every quiescent checkpoint of the real server, which is where a missing WriteInode shows. *)
From V Require Model.IcacheModel Proofs.IcacheProofs.
Theorem C10_unlocked_cached_inodes_are_the_disk's :
  forall (V : Type) (E : EqDecision V) (dflt : V) (d : gmap N V) (os : list IcacheModel.icop),
  IcacheProofs.icinv dflt (IcacheModel.icruns dflt (IcacheModel.ic_init d) os).
Proof. exact @IcacheProofs.icinv_reachable. Qed.
Print Assumptions C10_unlocked_cached_inodes_are_the_disk's.

Theorem C10_running_equals_restarted :
  forall (V : Type) (E : EqDecision V) (dflt : V) (d : gmap N V) (os : list IcacheModel.icop) (i : N),
  let s := IcacheModel.icruns dflt (IcacheModel.ic_init d) os in
  IcacheModel.c_owner s !! i = None ->
  IcacheProofs.served dflt s i = IcacheProofs.served dflt (IcacheModel.ic_init (IcacheModel.c_disk s)) i.
Proof. exact @IcacheProofs.running_equals_restarted. Qed.
Print Assumptions C10_running_equals_restarted.
