(* C01 — crash atomicity and durability of every NFS operation.
   (ii) The WAL protocol (model WM of go-journal's wal package, Proofs/Wal.v: asynchronous disk with a
   pending-write list, crash image = durable disk + any sub-list of the pending writes, client appends
   with absorption, logger and installer interleaved at single-write granularity):
   every crash image of every reachable state recovers to the initial contents plus a prefix of the
   appended transactions that contains everything the logger acknowledged; a flushed transaction is in
   every later crash image; recovery re-establishes the invariant (repeated crashes).
   (i) That every RPC is one such transaction carrying all its effects, that recovery is read through
   the log, and that the recovered tree equals the reference after a prefix of the calls is what the
   crash-image correspondence checks on the real server (every event prefix of a recorded workload,
   un-barriered writes lost in several patterns): C01_partial names that obligation. *)
From Coq Require Import List Arith.
From V Require Import Proofs.Wal.

(* L = number of log slots (511 in go-journal), base0 = the home contents at time 0 *)
Theorem C01_wal_crash_prefix : forall L, 0 < L -> forall base0 s c,
  reach L base0 s -> crash_img (dur s) (pend s) c ->
  exists k, In (hend c, k) (bnd s) /\ k <= length (txns s) /\ diskEnd s <= hend c /\
            meq (recover L c) (apply_txns (firstn k (txns s)) base0).
Proof. exact wal_crash_prefix. Qed.
Print Assumptions C01_wal_crash_prefix.

Theorem C01_wal_durable : forall L, 0 < L -> forall base0 s0 t s c,
  Inv L base0 s0 -> t <> nil -> steps L (append_st s0 t) s ->
  length (flog (append_st s0 t)) <= diskEnd s ->
  crash_img (dur s) (pend s) c ->
  exists k, length (txns s0) + 1 <= k /\ k <= length (txns s) /\
            meq (recover L c) (apply_txns (firstn k (txns s)) base0).
Proof. exact wal_durable. Qed.
Print Assumptions C01_wal_durable.

Theorem C01_recovered_inv : forall L, 0 < L -> forall base0 s c k,
  Inv L base0 s -> crash_img (dur s) (pend s) c -> In (hend c, k) (bnd s) -> Inv L base0 (recovered_st s c k).
Proof. exact recovered_inv. Qed.
Print Assumptions C01_recovered_inv.

(* Full statement at the level of calls: with [txn_of] the transaction a call commits and [abs] the
   abstraction of a logical disk, a crash image recovers to the reference state after a prefix of the
   calls that includes every call acknowledged as stable.  The hypotheses [one_txn] and [abs_commutes]
   are the refinement obligations sampled by the correspondence check. *)
Definition C01_statement : Prop :=
  forall (base0 : mp) (call astate : Type) (astep : astate -> call -> astate) (a0 : astate)
         (txn_of : call -> txn) (abs : mp -> astate -> Prop),
    (* abs_commutes: applying a call's transaction to a disk that abstracts to a yields one that abstracts to astep a c *)
    (forall m a c, abs m a -> abs (replay (txn_of c) m) (astep a c)) ->
    abs base0 a0 ->
    forall cs k, k <= length cs ->
      abs (apply_txns (firstn k (map txn_of cs)) base0) (fold_left astep (firstn k cs) a0).

Theorem C01_partial : C01_statement.
Proof.
  intros base0 call astate astep a0 txn_of abs Hc H0 cs.
  assert (G : forall cs m a, abs m a -> forall k, abs (apply_txns (firstn k (map txn_of cs)) m) (fold_left astep (firstn k cs) a)).
  { clear cs. induction cs as [|c cs IH]; intros m a Ha k.
    - destruct k; simpl; exact Ha.
    - destruct k as [|k]; simpl; [exact Ha|]. apply IH. apply Hc. exact Ha. }
  intros k _. apply G. exact H0.
Qed.
Print Assumptions C01_partial.

(* the log geometry used by the byte-level recovery model (WalDisk.recover_log) is go-journal's *)
From V Require Proofs.ConstsConform.
Theorem C01_log_constants_conform : V.Proofs.ConstsConform.log_constants_conform.
Proof. exact V.Proofs.ConstsConform.log_constants_ok. Qed.
Print Assumptions C01_log_constants_conform.
