(* C14 — no data races.  PARTIAL BY NATURE.
   LM (Proofs/Drf.v): traces of lock acquisitions, releases and memory accesses by threads; if the
   trace is well-formed (mutual exclusion respected) and every access to a location happens while its
   guard lock is held, then any two accesses to the same location by different threads are separated by
   a release of the guard by the first thread and a later acquisition by the second: they are ordered by
   happens-before, i.e. there is no data race.
   What the model cannot express is the memory the Go code actually touches; that hypothesis is
   observed: the harness is rebuilt with the Go race detector and the concurrent workloads of C03
   (conflicting operations on the same inodes, listings during updates, background shrinker active,
   restart while shrinking) are run; a race report (both stacks) is a violation and the replay. *)
From Coq Require Import List Arith.
From V Require Import Proofs.Drf.

Theorem C14_lockset_drf : forall (guard : nat -> nat) tr i j t1 t2 x w1 w2,
  wf guard (fun _ => None) tr -> i < j -> t1 <> t2 ->
  nth_error tr i = Some (Acc t1 x w1) -> nth_error tr j = Some (Acc t2 x w2) ->
  exists a b, i < a /\ a < b /\ b < j /\
    nth_error tr a = Some (Rel t1 (guard x)) /\ nth_error tr b = Some (Acq t2 (guard x)).
Proof. exact lockset_drf. Qed.
Print Assumptions C14_lockset_drf.
