(* C02 — sequential NFSv3 semantics match a reference file system.
   The reference *is* AM (Model/Afs.v); what is proved here is that the reference deserves the name
   (its laws), and what is checked on every run is that the implementation agrees with it reply by
   reply and state by state (extracted Afs.step / abs_disk / Agree on the real server).
   The refinement "Go code refines AM" itself is not a theorem: C02_partial. *)
From stdpp Require Import gmap list.
From Coq Require Import NArith.
From V Require Import Model.Lib Model.Afs Proofs.AfsLaws Proofs.AfsInv Proofs.AfsData Proofs.AfsRename.
Open Scope N_scope.

Theorem C02_failed_call_identity : forall P s c h,
  is_error (snd (step P s c h)) -> fst (step P s c h) = s.
Proof. exact failed_call_identity. Qed.
Print Assumptions C02_failed_call_identity.

Theorem C02_read_only_identity : forall P s c h, read_only c = true -> fst (step P s c h) = s.
Proof. exact read_only_identity. Qed.
Print Assumptions C02_read_only_identity.

Theorem C02_unsupported_no_effect : forall P s h, step P s CUnsupported h = (s, RStatus NOTSUPP).
Proof. exact unsupported_no_effect. Qed.

Theorem C02_restart_identity : forall P s h, step P s CRestart h = (s, RStatus OK).
Proof. exact restart_identity. Qed.

(* the namespace of the reference is a tree for every history of calls, replies and resource hints:
   entries are held by directories only, name live non-root objects whose parent field points back,
   every non-root object has exactly one name, and only the root is its own parent *)
Theorem C02_namespace_is_a_tree : forall P unstable cs, ainv (run P (init_afs unstable) cs).
Proof. exact ainv_reachable. Qed.
Print Assumptions C02_namespace_is_a_tree.

Theorem C02_dotdot_inverse : forall P u cs di d n i o,
  let s := run P (init_afs u) cs in
  objs s !! di = Some d -> o_ents d !! n = Some i -> objs s !! i = Some o ->
  lookup_name i o dotdot = Some di.
Proof. exact dotdot_inverse. Qed.
Print Assumptions C02_dotdot_inverse.

(* READ after WRITE: in every reachable state (cinv holds for all histories, C02_content_invariant), a READ of
   the range a WRITE was just acknowledged for returns exactly the acknowledged bytes — for every offset,
   length, stability level, short write and earlier history *)
Theorem C02_content_invariant : forall P unstable cs, cinv (run P (init_afs unstable) cs).
Proof. exact cinv_reachable. Qed.
Print Assumptions C02_content_invariant.

Theorem C02_read_after_write : forall P s h off cnt st d hi s' n cm a hi',
  cinv s -> step P s (CWrite h off cnt st d) hi = (s', RWritten n cm a) -> 0 < n ->
  exists eof, snd (step P s' (CRead h off n) hi') = RData (takeN n d) eof.
Proof. exact read_after_write. Qed.
Print Assumptions C02_read_after_write.

(* ... and changes nothing else: no other object, and no byte of the file outside the acknowledged range *)
Theorem C02_write_frame : forall P s h off cnt st d hi s' n cm a,
  cinv s -> step P s (CWrite h off cnt st d) hi = (s', RWritten n cm a) ->
  exists i o o', resolve P s h = Some (i, o) /\ objs s' = <[i := o']> (objs s) /\
    (forall k, ~ (off <= k < off + n) -> byte_at (o_data o') k = byte_at (o_data o) k) /\
    o_size o' = (if n =? 0 then o_size o else N.max (o_size o) (off + n)).
Proof. exact write_frame. Qed.
Print Assumptions C02_write_frame.

(* the file-type, status and stability numbers the agreement relations read off replies are those of nfstypes *)
From V Require Proofs.ConstsConform.
Theorem C02_reply_constants_conform : V.Proofs.ConstsConform.reply_constants_conform.
Proof. exact V.Proofs.ConstsConform.reply_constants_ok. Qed.
Print Assumptions C02_reply_constants_conform.

(* a successful RENAME, in every state satisfying the namespace invariant (i.e. every reachable state): the object is
   found under the new name, the old name is gone, the object itself is unchanged, a replaced target no longer exists *)
Theorem C02_rename_effect : forall P s h1 n1 h2 n2 s' d1i d1 d2i d2 fi fo,
  ainv s -> rename P s h1 n1 h2 n2 = (s', RStatus OK) ->
  resolve P s h1 = Some (d1i, d1) -> resolve P s h2 = Some (d2i, d2) ->
  o_ents d1 !! n1 = Some fi -> objs s !! fi = Some fo -> o_ents d2 !! n2 <> Some fi ->
  exists d1' d2' fo',
    objs s' !! d1i = Some d1' /\ objs s' !! d2i = Some d2' /\ objs s' !! fi = Some fo' /\
    o_ents d2' !! n2 = Some fi /\ ((d1i, n1) <> (d2i, n2) -> o_ents d1' !! n1 = None) /\
    same_object fo fo' /\ o_parent fo' = d2i /\ (forall ti, o_ents d2 !! n2 = Some ti -> objs s' !! ti = None).
Proof. exact rename_effect. Qed.
Print Assumptions C02_rename_effect.

(* The directory layer (DM = Model/DirModel.v, transliterating dir/dir.go + dir/dcache.go) implements a finite map
   from names to inode numbers: an added name is found with its number and no other name changes; a removed name
   is gone and no other name changes; failures change no slot. *)
From V Require Model.DirModel Proofs.DirProofs.
Theorem C02_dir_add_name : forall st i n room st', DirProofs.coh st -> DirProofs.absent (DirModel.d_slots st) n ->
  DirModel.add_name st i n room = (st', true) ->
  DirProofs.coh st' /\ (lenN n <= DirModel.DM_MAXNAMELEN)%N /\
  (exists k, DirProofs.at_ (DirModel.d_slots st') k (n, i)) /\
  (forall k e, fst e <> n -> (DirProofs.at_ (DirModel.d_slots st') k e <-> DirProofs.at_ (DirModel.d_slots st) k e)) /\
  DirProofs.step_ok (DirModel.d_slots st) (DirModel.d_slots st').
Proof. exact DirProofs.add_name_ok. Qed.
Print Assumptions C02_dir_add_name.

Theorem C02_dir_add_name_total : forall st i n, (lenN n <= DirModel.DM_MAXNAMELEN)%N -> snd (DirModel.add_name st i n true) = true.
Proof. exact DirProofs.add_name_succeeds. Qed.

Theorem C02_dir_rem_name : forall st n st', DirProofs.coh st -> DirModel.rem_name st n = (st', true) ->
  DirProofs.coh st' /\ DirProofs.absent (DirModel.d_slots st') n /\ ~ DirProofs.absent (DirModel.d_slots st) n /\
  (forall k e, fst e <> n -> (DirProofs.at_ (DirModel.d_slots st') k e <-> DirProofs.at_ (DirModel.d_slots st) k e)) /\
  DirProofs.step_ok (DirModel.d_slots st) (DirModel.d_slots st').
Proof. exact DirProofs.rem_name_ok. Qed.
Print Assumptions C02_dir_rem_name.

Theorem C02_dir_failures_change_nothing : forall st,
  DirProofs.coh st ->
  (forall i n room st', DirModel.add_name st i n room = (st', false) -> DirProofs.coh st' /\ DirModel.d_slots st' = DirModel.d_slots st) /\
  (forall n st', DirModel.rem_name st n = (st', false) ->
     DirProofs.coh st' /\ DirModel.d_slots st' = DirModel.d_slots st /\ ((lenN n <= DirModel.DM_MAXNAMELEN)%N -> DirProofs.absent (DirModel.d_slots st) n)).
Proof. exact (fun st H => conj (fun i n room st' => DirProofs.add_name_fail st i n room st' H) (fun n st' => DirProofs.rem_name_fail st n st' H)). Qed.
Print Assumptions C02_dir_failures_change_nothing.
