(* C18 — KVS multi-put is atomic, durable and read-your-writes.
   KM (Model/KvsModel.v): a multi-put is a single state transition installing all its pairs (later pairs
   of the same call win, other keys untouched); a get returns the value of the latest put of the key.
   Durability and atomicity across crashes come from the journal: MultiPut is one transaction committed
   with wait, and by the WAL-model theorems every crash image recovers a prefix of the transactions
   containing every flushed one.  The correspondence check compares kvs.KVS with the extracted KM on
   generated calls (valid keys, both boundaries of the key range, overlapping key sets) and on crash
   images of the recorded disk trace (every key's block must equal KM after a prefix of the calls that
   contains every acknowledged call). *)
From stdpp Require Import gmap list.
From Coq Require Import NArith.
From V Require Import Model.Lib Model.KvsModel Proofs.KvsProofs.
From V Require Proofs.Wal.
Open Scope N_scope.

Theorem C18_get_latest : forall s before ps1 k v ps2 after,
  k ∉ ps2.*1 -> Forall (fun ps => k ∉ ps.*1) after ->
  kget (kruns s (before ++ (ps1 ++ (k, v) :: ps2) :: after)) k = v.
Proof. exact kvs_get_latest. Qed.
Print Assumptions C18_get_latest.

Theorem C18_put_frame : forall s pairs k, k ∉ pairs.*1 -> kget (kput s pairs) k = kget s k.
Proof. exact kput_other. Qed.
Print Assumptions C18_put_frame.

Theorem C18_crash_is_prefix : forall L : nat, (0 < L)%nat -> forall base0 s c,
  Wal.reach L base0 s -> Wal.crash_img (Wal.dur s) (Wal.pend s) c ->
  exists k, In (Wal.hend c, k) (Wal.bnd s) /\ (k <= length (Wal.txns s))%nat /\ (Wal.diskEnd s <= Wal.hend c)%nat /\
            Wal.meq (Wal.recover L c) (Wal.apply_txns (firstn k (Wal.txns s)) base0).
Proof. exact Wal.wal_crash_prefix. Qed.
Print Assumptions C18_crash_is_prefix.

Theorem C18_durable_once_flushed : forall L : nat, (0 < L)%nat -> forall base0 s0 t s c,
  Wal.Inv L base0 s0 -> t <> nil -> Wal.steps L (Wal.append_st s0 t) s ->
  (length (Wal.flog (Wal.append_st s0 t)) <= Wal.diskEnd s)%nat ->
  Wal.crash_img (Wal.dur s) (Wal.pend s) c ->
  exists k, (length (Wal.txns s0) + 1 <= k)%nat /\ (k <= length (Wal.txns s))%nat /\
            Wal.meq (Wal.recover L c) (Wal.apply_txns (firstn k (Wal.txns s)) base0).
Proof. exact Wal.wal_durable. Qed.
Print Assumptions C18_durable_once_flushed.
