(* C04 — on-disk structure is always a well-formed file system.
   Proved: (layout) regions are disjoint and inside the disk for every accepted size (see C15, same
   generated layout that abs_disk/wf_disk use); (ownership) the index-tree operations of TM never give a
   block two owners, never lose one, keep free blocks zero and leave other mappings alone, for trees of
   any depth; (journal) every crash state is a transaction prefix (C01), so an invariant preserved by
   each transaction holds in every crash state.
   Checked on every run: wf_disk (Model/Abs.v: pointers in range, no shared block, used = owned, inode
   bitmap = live inodes, tree shape from the root, one name per object, unique well-formed names, '.' and
   '..', sizes vs. blocks) is evaluated, extracted, on the implementation's logical disk after every
   operation of generated sequences and on every crash image.
   Not proved: that each transaction of the Go code preserves wf_disk as a whole (C04_partial). *)
From Coq Require Import List Arith Permutation NArith.
From V Require Import Proofs.Tree Proofs.TreeCor Gen.GenSuper Model.SuperModel Proofs.Super.

Theorem C04_no_shared_block_alloc : forall NB : nat, (0 < NB)%nat -> forall lvl root off d fr,
  (off < pw NB lvl)%nat -> NoDup (blocks NB d lvl root ++ fr) -> free_zero d fr -> ~ In 0%nat fr ->
  let '(blk, root', d', fr') := indbmap NB lvl root off d fr in
  NoDup (blocks NB d' lvl root' ++ fr') /\
  Permutation (blocks NB d' lvl root' ++ fr') (blocks NB d lvl root ++ fr) /\
  free_zero d' fr' /\
  (forall off', (off' < pw NB lvl)%nat -> off' <> off -> leaf NB d' lvl root' off' = leaf NB d lvl root off').
Proof. exact indbmap_ownership. Qed.
Print Assumptions C04_no_shared_block_alloc.

Theorem C04_no_shared_block_free : forall NB : nat, (0 < NB)%nat -> forall lvl root bn d fr,
  (bn < pw NB lvl)%nat -> NoDup (blocks NB d lvl root ++ fr) -> free_zero d fr -> trimmed NB d lvl root bn ->
  let '(root', d', fr') := shrink_one NB lvl root bn d fr in
  NoDup (blocks NB d' lvl root' ++ fr') /\
  Permutation (blocks NB d' lvl root' ++ fr') (blocks NB d lvl root ++ fr) /\
  free_zero d' fr' /\
  (forall off', (off' < pw NB lvl)%nat -> leaf NB d' lvl root' off' = if Nat.ltb off' bn then leaf NB d lvl root off' else 0%nat).
Proof. exact shrink_ownership. Qed.
Print Assumptions C04_no_shared_block_free.

Theorem C04_regions : forall sz, accepted sz ->
  let fs := MkFsSuper sz in
  (BitmapBlockStart fs = LOGSIZE /\
  BitmapInodeStart fs = BitmapBlockStart fs + NBlockBitmap fs /\
  InodeStart fs = BitmapInodeStart fs + 1 /\
  DataStart fs = InodeStart fs + 1024 /\
  DataStart fs <= sz /\ NInode fs = 32768 /\
  sz < NBlockBitmap fs * NBITBLOCK /\ (NBlockBitmap fs - 1) * NBITBLOCK <= sz)%N.
Proof. exact layout_regions. Qed.
Print Assumptions C04_regions.

(* the block size, the inode slots, the pointers per block, the directory entry size, the inode and bitmap geometry and the root number used by abs_disk / wf_disk are the constants of the code (Gen/GenConsts.v is regenerated from /repo and its dependencies on every run) *)
From V Require Proofs.ConstsConform.
Theorem C04_disk_constants_conform : V.Proofs.ConstsConform.disk_constants_conform.
Proof. exact V.Proofs.ConstsConform.disk_constants_ok. Qed.
Print Assumptions C04_disk_constants_conform.

(* the ownership part of the executable invariant wf_disk means what C04 says: when it reports nothing, no
   block has two owners, every owned data block is marked in use, and every block marked in use is owned *)
From V Require Proofs.AbsOwn Model.Abs.
Theorem C04_ownership_report_sound : forall l (owned used : list N),
  V.Model.Abs.own_errors l owned used = nil ->
  stdpp.base.NoDup owned /\
  (forall b, stdpp.base.elem_of b owned -> V.Model.Abs.in_data l b = true -> stdpp.base.elem_of b used) /\
  (forall b, stdpp.base.elem_of b used -> stdpp.base.elem_of b owned).
Proof. exact V.Proofs.AbsOwn.own_errors_nil. Qed.
Print Assumptions C04_ownership_report_sound.

(* the mapping function as the code has it since fix 7466992 (a failed mapping is undone: the index blocks it
   had allocated go back, the inode keeps its old root): ownership as above, and nothing at all changes on failure *)
Theorem C04_mapping_failure_is_undone : forall NB : nat, (0 < NB)%nat -> forall (lvl root off : nat) d (fr : list nat),
  (off < pw NB lvl)%nat -> NoDup (blocks NB d lvl root ++ fr) -> free_zero d fr -> ~ In 0%nat fr ->
  let '(blk, root', d', fr') := indbmap_undo NB lvl root off d fr in
  NoDup (blocks NB d' lvl root' ++ fr') /\
  Permutation (blocks NB d' lvl root' ++ fr') (blocks NB d lvl root ++ fr) /\
  free_zero d' fr' /\
  (forall off', (off' < pw NB lvl)%nat -> off' <> off -> leaf NB d' lvl root' off' = leaf NB d lvl root off') /\
  (blk = 0%nat -> root' = root /\ d' = d /\ fr' = fr).
Proof. exact indbmap_undo_ownership. Qed.
Print Assumptions C04_mapping_failure_is_undone.
