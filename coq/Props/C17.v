(* C17 — SimpleNFS implements its specification, atomically and durably.
   SM: i_* / istep transliterate simple/inode.go and simple/ops.go with explicit uint64 wrap-around;
   s_* / sstep is the specification "30 files of at most 4096 bytes".  The transliterated server
   refines the specification server for ALL offsets, counts and sizes below 2^64 and all inode numbers,
   over whole histories; the buffer SETATTR allocates is bounded by one block.  Atomicity/durability:
   each RPC is one transaction committed with wait (journal theorems as in C01).  The correspondence
   check compares simple.Nfs with both extracted servers on boundary-dense calls (invalid inode numbers,
   short handles, offsets and counts around 0, size, 4096, 2^32, 2^63, 2^64-1, counts that disagree with
   the data) and judges crash images of the recorded disk trace against the specification states.
   Linearizability of concurrent requests is not covered by a theorem here (per-inode lock around one
   transaction; see C03 for the locking discipline theorems): C17_partial. *)
From Coq Require Import List NArith.
From V Require Import Model.SimpleModel Proofs.SimpleProofs.
From V Require Proofs.Wal.
Open Scope N_scope.

Theorem C17_simple_refines : forall si ss c, srep si ss -> call_in_range c ->
  snd (istep si c) = snd (sstep ss c) /\ srep (fst (istep si c)) (fst (sstep ss c)).
Proof. exact simple_refines. Qed.
Print Assumptions C17_simple_refines.

Theorem C17_simple_refines_history : forall cs si ss, srep si ss -> Forall call_in_range cs ->
  snd (iruns si cs) = snd (sruns ss cs) /\ srep (fst (iruns si cs)) (fst (sruns ss cs)).
Proof. exact simple_refines_history. Qed.
Print Assumptions C17_simple_refines_history.

Theorem C17_setattr_allocation_bounded : forall ip newsize, snd (i_setsize ip newsize) <= BS.
Proof. exact setsize_alloc_bounded. Qed.
Print Assumptions C17_setattr_allocation_bounded.

Theorem C17_crash_is_prefix : forall L : nat, (0 < L)%nat -> forall base0 s c,
  Wal.reach L base0 s -> Wal.crash_img (Wal.dur s) (Wal.pend s) c ->
  exists k, In (Wal.hend c, k) (Wal.bnd s) /\ (k <= length (Wal.txns s))%nat /\ (Wal.diskEnd s <= Wal.hend c)%nat /\
            Wal.meq (Wal.recover L c) (Wal.apply_txns (firstn k (Wal.txns s)) base0).
Proof. exact Wal.wal_crash_prefix. Qed.
Print Assumptions C17_crash_is_prefix.

(* the initial states are related, so the history theorem applies from server start *)
Example C17_init : srep simple_empty_i simple_empty_s.
Proof. exact srep_init. Qed.
