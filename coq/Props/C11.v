(* C11 — no request can crash or wedge the server.
   What a theorem can carry here: the reference answers EVERY call, whatever its argument values
   (Afs.step and the SimpleNFS servers are total functions over unbounded numbers, so no argument value
   is outside their domain): handles that do not resolve (any length, any content) are refused without
   effect, sizes/offsets/counts beyond the limits are refused without wrap-around, the transliterated
   SimpleNFS server agrees with its specification for all offsets/counts/sizes below 2^64 and never
   allocates more than one block for SETATTR.  That the Go code neither panics, nor exhausts memory, nor
   blocks is observed, not proved: hostile argument values (handles of 0..65 bytes, inode numbers around
   the table size and up to 2^64-1, names of 0..300 bytes and the dot names, offsets/counts/sizes/cookies
   at every power-of-two and limit boundary, counts that disagree with the data, renames with coinciding
   inodes) are sent to the real server under a watchdog (20 s, 2000 aborted transactions per RPC) and
   the server must keep serving.  Memory safety and the Go runtime are outside the model: C11_partial. *)
From stdpp Require Import gmap list.
From Coq Require Import NArith List.
From V Require Import Model.Lib Model.Afs Proofs.AfsLaws.
From V Require Model.SimpleModel Proofs.SimpleProofs Model.Layout Proofs.LayoutProofs.
Open Scope N_scope.

Theorem C11_unresolvable_handle_refused : forall P s c hi h,
  h ∈ handles_of c -> resolve P s h = None ->
  is_error (snd (step P s c hi)) /\ fst (step P s c hi) = s.
Proof. exact stale_everywhere. Qed.
Print Assumptions C11_unresolvable_handle_refused.

(* a handle of the wrong length never resolves *)
Theorem C11_wrong_length_handle : forall P s h, lenN h <> 16 -> resolve P s h = None.
Proof.
  intros P s h H. unfold resolve, parse_handle. destruct (lenN h =? 16) eqn:E; [apply N.eqb_eq in E; contradiction|reflexivity].
Qed.
Print Assumptions C11_wrong_length_handle.

(* an inode number outside the table never resolves *)
Theorem C11_out_of_range_inum : forall P s i g, p_ninode P <= i -> i < 2^64 -> g < 2^64 -> resolve P s (mk_handle i g) = None.
Proof.
  intros P s i g H Hi Hg. unfold resolve. change (mk_handle i g) with (Layout.encode_fh i g).
  rewrite (LayoutProofs.decode_encode_fh i g Hi Hg).
  destruct (N.ltb_spec i (p_ninode P)); [lia|reflexivity].
Qed.
Print Assumptions C11_out_of_range_inum.

Theorem C11_simple_total_and_correct : forall cs si ss, SimpleProofs.srep si ss -> Forall SimpleProofs.call_in_range cs ->
  snd (SimpleProofs.iruns si cs) = snd (SimpleProofs.sruns ss cs) /\ SimpleProofs.srep (fst (SimpleProofs.iruns si cs)) (fst (SimpleProofs.sruns ss cs)).
Proof. exact SimpleProofs.simple_refines_history. Qed.
Print Assumptions C11_simple_total_and_correct.

Theorem C11_simple_setattr_allocation_bounded : forall ip newsize, snd (SimpleModel.i_setsize ip newsize) <= SimpleModel.BS.
Proof. exact SimpleProofs.setsize_alloc_bounded. Qed.
