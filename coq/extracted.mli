
type __ = Obj.t

val xorb : bool -> bool -> bool

val negb : bool -> bool

type nat =
| O
| S of nat

val option_map : ('a1 -> 'a2) -> 'a1 option -> 'a2 option

type ('a, 'b) sum =
| Inl of 'a
| Inr of 'b

val fst : ('a1 * 'a2) -> 'a1

val snd : ('a1 * 'a2) -> 'a2

val uncurry : ('a1 -> 'a2 -> 'a3) -> ('a1 * 'a2) -> 'a3

val prod_curry_subdef : ('a1 -> 'a2 -> 'a3) -> ('a1 * 'a2) -> 'a3

val length : 'a1 list -> nat

val app : 'a1 list -> 'a1 list -> 'a1 list

type comparison =
| Eq
| Lt
| Gt

type compareSpecT =
| CompEqT
| CompLtT
| CompGtT

val compareSpec2Type : comparison -> compareSpecT

type 'a compSpecT = compareSpecT

val compSpec2Type : 'a1 -> 'a1 -> comparison -> 'a1 compSpecT

val id : __ -> __

type 'a sig0 =
| Exist of 'a



type uint =
| Nil
| D0 of uint
| D1 of uint
| D2 of uint
| D3 of uint
| D4 of uint
| D5 of uint
| D6 of uint
| D7 of uint
| D8 of uint
| D9 of uint

type signed_int =
| Pos of uint
| Neg of uint

val nzhead : uint -> uint

val unorm : uint -> uint

val norm : signed_int -> signed_int

val revapp : uint -> uint -> uint

val rev : uint -> uint

module Little :
 sig
  val succ : uint -> uint
 end

type uint0 =
| Nil0
| D10 of uint0
| D11 of uint0
| D12 of uint0
| D13 of uint0
| D14 of uint0
| D15 of uint0
| D16 of uint0
| D17 of uint0
| D18 of uint0
| D19 of uint0
| Da of uint0
| Db of uint0
| Dc of uint0
| Dd of uint0
| De of uint0
| Df of uint0

type signed_int0 =
| Pos0 of uint0
| Neg0 of uint0

val nzhead0 : uint0 -> uint0

val unorm0 : uint0 -> uint0

val norm0 : signed_int0 -> signed_int0

val revapp0 : uint0 -> uint0 -> uint0

val rev0 : uint0 -> uint0

module Coq_Little :
 sig
  val succ : uint0 -> uint0
 end

type uint1 =
| UIntDecimal of uint
| UIntHexadecimal of uint0

type signed_int1 =
| IntDecimal of signed_int
| IntHexadecimal of signed_int0

val add : nat -> nat -> nat

type byte =
| X00
| X01
| X02
| X03
| X04
| X05
| X06
| X07
| X08
| X09
| X0a
| X0b
| X0c
| X0d
| X0e
| X0f
| X10
| X11
| X12
| X13
| X14
| X15
| X16
| X17
| X18
| X19
| X1a
| X1b
| X1c
| X1d
| X1e
| X1f
| X20
| X21
| X22
| X23
| X24
| X25
| X26
| X27
| X28
| X29
| X2a
| X2b
| X2c
| X2d
| X2e
| X2f
| X30
| X31
| X32
| X33
| X34
| X35
| X36
| X37
| X38
| X39
| X3a
| X3b
| X3c
| X3d
| X3e
| X3f
| X40
| X41
| X42
| X43
| X44
| X45
| X46
| X47
| X48
| X49
| X4a
| X4b
| X4c
| X4d
| X4e
| X4f
| X50
| X51
| X52
| X53
| X54
| X55
| X56
| X57
| X58
| X59
| X5a
| X5b
| X5c
| X5d
| X5e
| X5f
| X60
| X61
| X62
| X63
| X64
| X65
| X66
| X67
| X68
| X69
| X6a
| X6b
| X6c
| X6d
| X6e
| X6f
| X70
| X71
| X72
| X73
| X74
| X75
| X76
| X77
| X78
| X79
| X7a
| X7b
| X7c
| X7d
| X7e
| X7f
| X80
| X81
| X82
| X83
| X84
| X85
| X86
| X87
| X88
| X89
| X8a
| X8b
| X8c
| X8d
| X8e
| X8f
| X90
| X91
| X92
| X93
| X94
| X95
| X96
| X97
| X98
| X99
| X9a
| X9b
| X9c
| X9d
| X9e
| X9f
| Xa0
| Xa1
| Xa2
| Xa3
| Xa4
| Xa5
| Xa6
| Xa7
| Xa8
| Xa9
| Xaa
| Xab
| Xac
| Xad
| Xae
| Xaf
| Xb0
| Xb1
| Xb2
| Xb3
| Xb4
| Xb5
| Xb6
| Xb7
| Xb8
| Xb9
| Xba
| Xbb
| Xbc
| Xbd
| Xbe
| Xbf
| Xc0
| Xc1
| Xc2
| Xc3
| Xc4
| Xc5
| Xc6
| Xc7
| Xc8
| Xc9
| Xca
| Xcb
| Xcc
| Xcd
| Xce
| Xcf
| Xd0
| Xd1
| Xd2
| Xd3
| Xd4
| Xd5
| Xd6
| Xd7
| Xd8
| Xd9
| Xda
| Xdb
| Xdc
| Xdd
| Xde
| Xdf
| Xe0
| Xe1
| Xe2
| Xe3
| Xe4
| Xe5
| Xe6
| Xe7
| Xe8
| Xe9
| Xea
| Xeb
| Xec
| Xed
| Xee
| Xef
| Xf0
| Xf1
| Xf2
| Xf3
| Xf4
| Xf5
| Xf6
| Xf7
| Xf8
| Xf9
| Xfa
| Xfb
| Xfc
| Xfd
| Xfe
| Xff

val to_bits :
  byte -> bool * (bool * (bool * (bool * (bool * (bool * (bool * bool))))))

type positive =
| XI of positive
| XO of positive
| XH

type n =
| N0
| Npos of positive

val compose : ('a2 -> 'a3) -> ('a1 -> 'a2) -> 'a1 -> 'a3

val flip : ('a1 -> 'a2 -> 'a3) -> 'a2 -> 'a1 -> 'a3

val eqb : bool -> bool -> bool

type reflect =
| ReflectT
| ReflectF

val iff_reflect : bool -> reflect

module Nat :
 sig
  type t = nat

  val zero : nat

  val one : nat

  val two : nat

  val succ : nat -> nat

  val pred : nat -> nat

  val add : nat -> nat -> nat

  val double : nat -> nat

  val mul : nat -> nat -> nat

  val sub : nat -> nat -> nat

  val eqb : nat -> nat -> bool

  val leb : nat -> nat -> bool

  val ltb : nat -> nat -> bool

  val compare : nat -> nat -> comparison

  val max : nat -> nat -> nat

  val min : nat -> nat -> nat

  val even : nat -> bool

  val odd : nat -> bool

  val pow : nat -> nat -> nat

  val tail_add : nat -> nat -> nat

  val tail_addmul : nat -> nat -> nat -> nat

  val tail_mul : nat -> nat -> nat

  val of_uint_acc : uint -> nat -> nat

  val of_uint : uint -> nat

  val of_hex_uint_acc : uint0 -> nat -> nat

  val of_hex_uint : uint0 -> nat

  val of_num_uint : uint1 -> nat

  val to_little_uint : nat -> uint -> uint

  val to_uint : nat -> uint

  val to_little_hex_uint : nat -> uint0 -> uint0

  val to_hex_uint : nat -> uint0

  val to_num_uint : nat -> uint1

  val to_num_hex_uint : nat -> uint1

  val of_int : signed_int -> nat option

  val of_hex_int : signed_int0 -> nat option

  val of_num_int : signed_int1 -> nat option

  val to_int : nat -> signed_int

  val to_hex_int : nat -> signed_int0

  val to_num_int : nat -> signed_int1

  val divmod : nat -> nat -> nat -> nat -> nat * nat

  val div : nat -> nat -> nat

  val modulo : nat -> nat -> nat

  val gcd : nat -> nat -> nat

  val square : nat -> nat

  val sqrt_iter : nat -> nat -> nat -> nat -> nat

  val sqrt : nat -> nat

  val log2_iter : nat -> nat -> nat -> nat -> nat

  val log2 : nat -> nat

  val iter : nat -> ('a1 -> 'a1) -> 'a1 -> 'a1

  val div2 : nat -> nat

  val testbit : nat -> nat -> bool

  val shiftl : nat -> nat -> nat

  val shiftr : nat -> nat -> nat

  val bitwise : (bool -> bool -> bool) -> nat -> nat -> nat -> nat

  val coq_land : nat -> nat -> nat

  val coq_lor : nat -> nat -> nat

  val ldiff : nat -> nat -> nat

  val coq_lxor : nat -> nat -> nat

  val recursion : 'a1 -> (nat -> 'a1 -> 'a1) -> nat -> 'a1

  val eq_dec : nat -> nat -> bool

  val leb_spec0 : nat -> nat -> reflect

  val ltb_spec0 : nat -> nat -> reflect

  module Private_OrderTac :
   sig
    module IsTotal :
     sig
     end

    module Tac :
     sig
     end
   end

  module Private_Tac :
   sig
   end

  module Private_Dec :
   sig
    val max_case_strong :
      nat -> nat -> (nat -> nat -> __ -> 'a1 -> 'a1) -> (__ -> 'a1) -> (__ ->
      'a1) -> 'a1

    val max_case :
      nat -> nat -> (nat -> nat -> __ -> 'a1 -> 'a1) -> 'a1 -> 'a1 -> 'a1

    val max_dec : nat -> nat -> bool

    val min_case_strong :
      nat -> nat -> (nat -> nat -> __ -> 'a1 -> 'a1) -> (__ -> 'a1) -> (__ ->
      'a1) -> 'a1

    val min_case :
      nat -> nat -> (nat -> nat -> __ -> 'a1 -> 'a1) -> 'a1 -> 'a1 -> 'a1

    val min_dec : nat -> nat -> bool
   end

  val max_case_strong : nat -> nat -> (__ -> 'a1) -> (__ -> 'a1) -> 'a1

  val max_case : nat -> nat -> 'a1 -> 'a1 -> 'a1

  val max_dec : nat -> nat -> bool

  val min_case_strong : nat -> nat -> (__ -> 'a1) -> (__ -> 'a1) -> 'a1

  val min_case : nat -> nat -> 'a1 -> 'a1 -> 'a1

  val min_dec : nat -> nat -> bool

  module Private_Parity :
   sig
   end

  module Private_NZPow :
   sig
   end

  module Private_NZSqrt :
   sig
   end

  val sqrt_up : nat -> nat

  val log2_up : nat -> nat

  module Private_NZDiv :
   sig
   end

  val lcm : nat -> nat -> nat

  val eqb_spec : nat -> nat -> reflect

  val b2n : bool -> nat

  val setbit : nat -> nat -> nat

  val clearbit : nat -> nat -> nat

  val ones : nat -> nat

  val lnot : nat -> nat -> nat

  val coq_Even_Odd_dec : nat -> bool

  type coq_EvenT = nat sig0

  type coq_OddT = nat sig0

  val coq_EvenT_0 : coq_EvenT

  val coq_EvenT_2 : nat -> coq_EvenT -> coq_EvenT

  val coq_OddT_1 : coq_OddT

  val coq_OddT_2 : nat -> coq_OddT -> coq_OddT

  val coq_EvenT_S_OddT : nat -> coq_EvenT -> coq_OddT

  val coq_OddT_S_EvenT : nat -> coq_OddT -> coq_EvenT

  val even_EvenT : nat -> coq_EvenT

  val odd_OddT : nat -> coq_OddT

  val coq_Even_EvenT : nat -> coq_EvenT

  val coq_Odd_OddT : nat -> coq_OddT

  val coq_EvenT_OddT_dec : nat -> (coq_EvenT, coq_OddT) sum

  val coq_OddT_EvenT_rect :
    (nat -> coq_EvenT -> 'a2 -> 'a1) -> 'a2 -> (nat -> coq_OddT -> 'a1 ->
    'a2) -> nat -> coq_OddT -> 'a1

  val coq_EvenT_OddT_rect :
    (nat -> coq_EvenT -> 'a2 -> 'a1) -> 'a2 -> (nat -> coq_OddT -> 'a1 ->
    'a2) -> nat -> coq_EvenT -> 'a2
 end

module Pos :
 sig
  type mask =
  | IsNul
  | IsPos of positive
  | IsNeg
 end

module Coq_Pos :
 sig
  val succ : positive -> positive

  val add : positive -> positive -> positive

  val add_carry : positive -> positive -> positive

  val pred_double : positive -> positive

  val pred : positive -> positive

  val pred_N : positive -> n

  type mask = Pos.mask =
  | IsNul
  | IsPos of positive
  | IsNeg

  val succ_double_mask : mask -> mask

  val double_mask : mask -> mask

  val double_pred_mask : positive -> mask

  val sub_mask : positive -> positive -> mask

  val sub_mask_carry : positive -> positive -> mask

  val mul : positive -> positive -> positive

  val compare_cont : comparison -> positive -> positive -> comparison

  val compare : positive -> positive -> comparison

  val eqb : positive -> positive -> bool

  val testbit : positive -> n -> bool

  val iter_op : ('a1 -> 'a1 -> 'a1) -> positive -> 'a1 -> 'a1

  val to_nat : positive -> nat

  val of_succ_nat : nat -> positive

  val eq_dec : positive -> positive -> bool
 end

module N :
 sig
  val succ_double : n -> n

  val double : n -> n

  val add : n -> n -> n

  val sub : n -> n -> n

  val mul : n -> n -> n

  val compare : n -> n -> comparison

  val eqb : n -> n -> bool

  val leb : n -> n -> bool

  val ltb : n -> n -> bool

  val min : n -> n -> n

  val max : n -> n -> n

  val pos_div_eucl : positive -> n -> n * n

  val div_eucl : n -> n -> n * n

  val div : n -> n -> n

  val modulo : n -> n -> n

  val testbit : n -> n -> bool

  val to_nat : n -> nat

  val of_nat : nat -> n

  val eq_dec : n -> n -> bool
 end

val tl : 'a1 list -> 'a1 list

val nth : nat -> 'a1 list -> 'a1 -> 'a1

val rev1 : 'a1 list -> 'a1 list

val concat : 'a1 list list -> 'a1 list

val list_eq_dec : ('a1 -> 'a1 -> bool) -> 'a1 list -> 'a1 list -> bool

val map : ('a1 -> 'a2) -> 'a1 list -> 'a2 list

val flat_map : ('a1 -> 'a2 list) -> 'a1 list -> 'a2 list

val fold_left : ('a1 -> 'a2 -> 'a1) -> 'a2 list -> 'a1 -> 'a1

val fold_right : ('a2 -> 'a1 -> 'a1) -> 'a1 -> 'a2 list -> 'a1

val existsb : ('a1 -> bool) -> 'a1 list -> bool

val forallb : ('a1 -> bool) -> 'a1 list -> bool

val filter : ('a1 -> bool) -> 'a1 list -> 'a1 list

val combine : 'a1 list -> 'a2 list -> ('a1 * 'a2) list

val firstn : nat -> 'a1 list -> 'a1 list

val skipn : nat -> 'a1 list -> 'a1 list

val seq : nat -> nat -> nat list

val repeat : 'a1 -> nat -> 'a1 list

val eqb0 : byte -> byte -> bool

val byte_eq_dec : byte -> byte -> bool

val to_N : byte -> n

val of_N : n -> byte option

type ascii =
| Ascii of bool * bool * bool * bool * bool * bool * bool * bool

val zero0 : ascii

val one0 : ascii

val shift : bool -> ascii -> ascii

val eqb1 : ascii -> ascii -> bool

val ascii_of_pos : positive -> ascii

val ascii_of_N : n -> ascii

val n_of_digits : bool list -> n

val n_of_ascii : ascii -> n

type string =
| EmptyString
| String of ascii * string

val eqb2 : string -> string -> bool

module Coq_Nat :
 sig
  type t = nat

  val zero : nat

  val one : nat

  val two : nat

  val succ : nat -> nat

  val pred : nat -> nat

  val add : nat -> nat -> nat

  val double : nat -> nat

  val mul : nat -> nat -> nat

  val sub : nat -> nat -> nat

  val eqb : nat -> nat -> bool

  val leb : nat -> nat -> bool

  val ltb : nat -> nat -> bool

  val compare : nat -> nat -> comparison

  val max : nat -> nat -> nat

  val min : nat -> nat -> nat

  val even : nat -> bool

  val odd : nat -> bool

  val pow : nat -> nat -> nat

  val tail_add : nat -> nat -> nat

  val tail_addmul : nat -> nat -> nat -> nat

  val tail_mul : nat -> nat -> nat

  val of_uint_acc : uint -> nat -> nat

  val of_uint : uint -> nat

  val of_hex_uint_acc : uint0 -> nat -> nat

  val of_hex_uint : uint0 -> nat

  val of_num_uint : uint1 -> nat

  val to_little_uint : nat -> uint -> uint

  val to_uint : nat -> uint

  val to_little_hex_uint : nat -> uint0 -> uint0

  val to_hex_uint : nat -> uint0

  val to_num_uint : nat -> uint1

  val to_num_hex_uint : nat -> uint1

  val of_int : signed_int -> nat option

  val of_hex_int : signed_int0 -> nat option

  val of_num_int : signed_int1 -> nat option

  val to_int : nat -> signed_int

  val to_hex_int : nat -> signed_int0

  val to_num_int : nat -> signed_int1

  val divmod : nat -> nat -> nat -> nat -> nat * nat

  val div : nat -> nat -> nat

  val modulo : nat -> nat -> nat

  val gcd : nat -> nat -> nat

  val square : nat -> nat

  val sqrt_iter : nat -> nat -> nat -> nat -> nat

  val sqrt : nat -> nat

  val log2_iter : nat -> nat -> nat -> nat -> nat

  val log2 : nat -> nat

  val iter : nat -> ('a1 -> 'a1) -> 'a1 -> 'a1

  val div2 : nat -> nat

  val testbit : nat -> nat -> bool

  val shiftl : nat -> nat -> nat

  val shiftr : nat -> nat -> nat

  val bitwise : (bool -> bool -> bool) -> nat -> nat -> nat -> nat

  val coq_land : nat -> nat -> nat

  val coq_lor : nat -> nat -> nat

  val ldiff : nat -> nat -> nat

  val coq_lxor : nat -> nat -> nat

  val recursion : 'a1 -> (nat -> 'a1 -> 'a1) -> nat -> 'a1

  val eq_dec : nat -> nat -> bool

  val leb_spec0 : nat -> nat -> reflect

  val ltb_spec0 : nat -> nat -> reflect

  module Private_OrderTac :
   sig
    module IsTotal :
     sig
     end

    module Tac :
     sig
     end
   end

  module Private_Tac :
   sig
   end

  module Private_Dec :
   sig
    val max_case_strong :
      nat -> nat -> (nat -> nat -> __ -> 'a1 -> 'a1) -> (__ -> 'a1) -> (__ ->
      'a1) -> 'a1

    val max_case :
      nat -> nat -> (nat -> nat -> __ -> 'a1 -> 'a1) -> 'a1 -> 'a1 -> 'a1

    val max_dec : nat -> nat -> bool

    val min_case_strong :
      nat -> nat -> (nat -> nat -> __ -> 'a1 -> 'a1) -> (__ -> 'a1) -> (__ ->
      'a1) -> 'a1

    val min_case :
      nat -> nat -> (nat -> nat -> __ -> 'a1 -> 'a1) -> 'a1 -> 'a1 -> 'a1

    val min_dec : nat -> nat -> bool
   end

  val max_case_strong : nat -> nat -> (__ -> 'a1) -> (__ -> 'a1) -> 'a1

  val max_case : nat -> nat -> 'a1 -> 'a1 -> 'a1

  val max_dec : nat -> nat -> bool

  val min_case_strong : nat -> nat -> (__ -> 'a1) -> (__ -> 'a1) -> 'a1

  val min_case : nat -> nat -> 'a1 -> 'a1 -> 'a1

  val min_dec : nat -> nat -> bool

  module Private_Parity :
   sig
   end

  module Private_NZPow :
   sig
   end

  module Private_NZSqrt :
   sig
   end

  val sqrt_up : nat -> nat

  val log2_up : nat -> nat

  module Private_NZDiv :
   sig
   end

  val lcm : nat -> nat -> nat

  val eqb_spec : nat -> nat -> reflect

  val b2n : bool -> nat

  val setbit : nat -> nat -> nat

  val clearbit : nat -> nat -> nat

  val ones : nat -> nat

  val lnot : nat -> nat -> nat

  val coq_Even_Odd_dec : nat -> bool

  type coq_EvenT = nat sig0

  type coq_OddT = nat sig0

  val coq_EvenT_0 : coq_EvenT

  val coq_EvenT_2 : nat -> coq_EvenT -> coq_EvenT

  val coq_OddT_1 : coq_OddT

  val coq_OddT_2 : nat -> coq_OddT -> coq_OddT

  val coq_EvenT_S_OddT : nat -> coq_EvenT -> coq_OddT

  val coq_OddT_S_EvenT : nat -> coq_OddT -> coq_EvenT

  val even_EvenT : nat -> coq_EvenT

  val odd_OddT : nat -> coq_OddT

  val coq_Even_EvenT : nat -> coq_EvenT

  val coq_Odd_OddT : nat -> coq_OddT

  val coq_EvenT_OddT_dec : nat -> (coq_EvenT, coq_OddT) sum

  val coq_OddT_EvenT_rect :
    (nat -> coq_EvenT -> 'a2 -> 'a1) -> 'a2 -> (nat -> coq_OddT -> 'a1 ->
    'a2) -> nat -> coq_OddT -> 'a1

  val coq_EvenT_OddT_rect :
    (nat -> coq_EvenT -> 'a2 -> 'a1) -> 'a2 -> (nat -> coq_OddT -> 'a1 ->
    'a2) -> nat -> coq_EvenT -> 'a2
 end

type decision = bool

val decide : decision -> bool

type ('a, 'b) relDecision = 'a -> 'b -> decision

val decide_rel : ('a1, 'a2) relDecision -> 'a1 -> 'a2 -> decision

type 'a empty = 'a

val empty0 : 'a1 empty -> 'a1

type 'a union = 'a -> 'a -> 'a

val union0 : 'a1 union -> 'a1 -> 'a1 -> 'a1

type 'a difference = 'a -> 'a -> 'a

val difference0 : 'a1 difference -> 'a1 -> 'a1 -> 'a1

type ('a, 'b) singleton = 'a -> 'b

val singleton0 : ('a1, 'a2) singleton -> 'a1 -> 'a2

val list_to_set :
  ('a1, 'a2) singleton -> 'a2 empty -> 'a2 union -> 'a1 list -> 'a2

type ('a, 'b) filter0 = __ -> ('a -> decision) -> 'b -> 'b

val filter1 : ('a1, 'a2) filter0 -> ('a1 -> decision) -> 'a2 -> 'a2

type 'm mRet = __ -> __ -> 'm

val mret : 'a1 mRet -> 'a2 -> 'a1

type 'm mBind = __ -> __ -> (__ -> 'm) -> 'm -> 'm

val mbind : 'a1 mBind -> ('a2 -> 'a1) -> 'a1 -> 'a1

type 'm fMap = __ -> __ -> (__ -> __) -> 'm -> 'm

val fmap : 'a1 fMap -> ('a2 -> 'a3) -> 'a1 -> 'a1

type 'm oMap = __ -> __ -> (__ -> __ option) -> 'm -> 'm

val omap : 'a1 oMap -> ('a2 -> 'a3 option) -> 'a1 -> 'a1

type ('k, 'a, 'm) lookup = 'k -> 'm -> 'a option

val lookup0 : ('a1, 'a2, 'a3) lookup -> 'a1 -> 'a3 -> 'a2 option

type ('k, 'a, 'm) singletonM = 'k -> 'a -> 'm

val singletonM0 : ('a1, 'a2, 'a3) singletonM -> 'a1 -> 'a2 -> 'a3

type ('k, 'a, 'm) insert = 'k -> 'a -> 'm -> 'm

val insert0 : ('a1, 'a2, 'a3) insert -> 'a1 -> 'a2 -> 'a3 -> 'a3

type ('k, 'm) delete = 'k -> 'm -> 'm

val delete0 : ('a1, 'a2) delete -> 'a1 -> 'a2 -> 'a2

type ('k, 'a, 'm) partialAlter = ('a option -> 'a option) -> 'k -> 'm -> 'm

val partial_alter :
  ('a1, 'a2, 'a3) partialAlter -> ('a2 option -> 'a2 option) -> 'a1 -> 'a3 ->
  'a3

type 'm merge =
  __ -> __ -> __ -> (__ option -> __ option -> __ option) -> 'm -> 'm -> 'm

val merge0 :
  'a1 merge -> ('a2 option -> 'a3 option -> 'a4 option) -> 'a1 -> 'a1 -> 'a1

type ('a, 'm) unionWith = ('a -> 'a -> 'a option) -> 'm -> 'm -> 'm

val union_with :
  ('a1, 'a2) unionWith -> ('a1 -> 'a1 -> 'a1 option) -> 'a2 -> 'a2 -> 'a2

type ('a, 'm) differenceWith = ('a -> 'a -> 'a option) -> 'm -> 'm -> 'm

val difference_with :
  ('a1, 'a2) differenceWith -> ('a1 -> 'a1 -> 'a1 option) -> 'a2 -> 'a2 -> 'a2

type ('a, 'c) elements = 'c -> 'a list

val elements0 : ('a1, 'a2) elements -> 'a2 -> 'a1 list

type 'c size = 'c -> nat

val size0 : 'a1 size -> 'a1 -> nat

val true_dec : decision

val false_dec : decision

val is_true_dec : bool -> decision

val not_dec : decision -> decision

val and_dec : decision -> decision -> decision

val or_dec : decision -> decision -> decision

val impl_dec : decision -> decision -> decision

val unit_eq_dec : (unit, unit) relDecision

val prod_eq_dec :
  ('a1, 'a1) relDecision -> ('a2, 'a2) relDecision -> ('a1 * 'a2, 'a1 * 'a2)
  relDecision

val uncurry_dec : ('a1 -> 'a2 -> decision) -> ('a1 * 'a2) -> decision

val bool_decide : decision -> bool

val from_option : ('a1 -> 'a2) -> 'a2 -> 'a1 option -> 'a2

val is_Some_dec : 'a1 option -> decision

val option_eq_None_dec : 'a1 option -> decision

val option_eq_dec :
  ('a1, 'a1) relDecision -> ('a1 option, 'a1 option) relDecision

val option_ret : __ -> __ option

val option_bind : (__ -> __ option) -> __ option -> __ option

val option_fmap : (__ -> __) -> __ option -> __ option

val option_union_with : ('a1, 'a1 option) unionWith

val option_difference_with : ('a1, 'a1 option) differenceWith

module Coq0_Nat :
 sig
  val eq_dec : (nat, nat) relDecision
 end

module Coq0_Pos :
 sig
  val eq_dec : (positive, positive) relDecision

  val app : positive -> positive -> positive

  val reverse_go : positive -> positive -> positive

  val reverse : positive -> positive

  val dup : positive -> positive
 end

val n_eq_dec : (n, n) relDecision

val list_lookup : (nat, 'a1, 'a1 list) lookup

val list_filter : ('a1 -> decision) -> 'a1 list -> 'a1 list

val replicate : nat -> 'a1 -> 'a1 list

val list_fmap : (__ -> __) -> __ list -> __ list

val list_omap : (__ -> __ option) -> __ list -> __ list

val mapM : 'a1 mBind -> 'a1 mRet -> ('a2 -> 'a1) -> 'a2 list -> 'a1

val imap : (nat -> 'a1 -> 'a2) -> 'a1 list -> 'a2 list

val elem_of_list_dec : ('a1, 'a1) relDecision -> ('a1, 'a1 list) relDecision

val positives_flatten_go : positive list -> positive -> positive

val positives_flatten : positive list -> positive

val positives_unflatten_go :
  positive -> positive list -> positive -> positive list option

val positives_unflatten : positive -> positive list option

val list_eq_dec0 : ('a1, 'a1) relDecision -> ('a1 list, 'a1 list) relDecision

val list_eq_nil_dec : 'a1 list -> decision

val forall_Exists_dec : ('a1 -> bool) -> 'a1 list -> bool

val forall_dec : ('a1 -> decision) -> 'a1 list -> decision

type 'a countable = { encode : ('a -> positive);
                      decode : (positive -> 'a option) }

val inj_countable :
  ('a1, 'a1) relDecision -> 'a1 countable -> ('a2, 'a2) relDecision -> ('a2
  -> 'a1) -> ('a1 -> 'a2 option) -> 'a2 countable

val prod_encode_fst : positive -> positive

val prod_encode_snd : positive -> positive

val prod_encode : positive -> positive -> positive

val prod_decode_fst : positive -> positive option

val prod_decode_snd : positive -> positive option

val prod_countable :
  ('a1, 'a1) relDecision -> 'a1 countable -> ('a2, 'a2) relDecision -> 'a2
  countable -> ('a1 * 'a2) countable

val list_countable :
  ('a1, 'a1) relDecision -> 'a1 countable -> 'a1 list countable

val n_countable : n countable

val nat_countable : nat countable

val set_size : ('a1, 'a2) elements -> 'a2 size

type ('k, 'a, 'm) finMapToList = 'm -> ('k * 'a) list

val map_to_list : ('a1, 'a2, 'a3) finMapToList -> 'a3 -> ('a1 * 'a2) list

val diag_None :
  ('a1 option -> 'a2 option -> 'a3 option) -> 'a1 option -> 'a2 option -> 'a3
  option

val map_insert : ('a1, 'a2, 'a3) partialAlter -> ('a1, 'a2, 'a3) insert

val map_delete : ('a1, 'a2, 'a3) partialAlter -> ('a1, 'a3) delete

val map_singleton :
  ('a1, 'a2, 'a3) partialAlter -> 'a3 empty -> ('a1, 'a2, 'a3) singletonM

val list_to_map :
  ('a1, 'a2, 'a3) insert -> 'a3 empty -> ('a1 * 'a2) list -> 'a3

val map_size : ('a1, 'a2, 'a3) finMapToList -> 'a3 size

val map_union_with : 'a1 merge -> ('a2, 'a1) unionWith

val map_difference_with : 'a1 merge -> ('a2, 'a1) differenceWith

val map_union : 'a1 merge -> 'a1 union

val map_difference : 'a1 merge -> 'a1 difference

val map_fold :
  ('a1, 'a2, 'a3) finMapToList -> ('a1 -> 'a2 -> 'a4 -> 'a4) -> 'a4 -> 'a3 ->
  'a4

val map_filter :
  ('a1, 'a2, 'a3) finMapToList -> ('a1, 'a2, 'a3) insert -> 'a3 empty ->
  (('a1 * 'a2) -> decision) -> 'a3 -> 'a3

val map_Forall_dec :
  'a2 fMap -> (__ -> ('a1, __, 'a2) lookup) -> (__ -> 'a2 empty) -> (__ ->
  ('a1, __, 'a2) partialAlter) -> 'a2 oMap -> 'a2 merge -> (__ -> ('a1, __,
  'a2) finMapToList) -> ('a1, 'a1) relDecision -> ('a1 -> 'a3 -> decision) ->
  'a2 -> decision

type 'munit mapset' = { mapset_car : 'munit }

val mapset_empty : (__ -> 'a1 empty) -> 'a1 mapset' empty

val mapset_singleton :
  (__ -> 'a2 empty) -> (__ -> ('a1, __, 'a2) partialAlter) -> ('a1, 'a2
  mapset') singleton

val mapset_union : 'a1 merge -> 'a1 mapset' union

val mapset_difference : 'a1 merge -> 'a1 mapset' difference

val mapset_elements :
  (__ -> ('a1, __, 'a2) finMapToList) -> ('a1, 'a2 mapset') elements

val mapset_elem_of_dec :
  (__ -> ('a1, __, 'a2) lookup) -> ('a1, 'a2 mapset') relDecision

type 'a pmap_raw =
| PLeaf
| PNode of 'a option * 'a pmap_raw * 'a pmap_raw

val pmap_raw_eq_dec :
  ('a1, 'a1) relDecision -> ('a1 pmap_raw, 'a1 pmap_raw) relDecision

val pNode' : 'a1 option -> 'a1 pmap_raw -> 'a1 pmap_raw -> 'a1 pmap_raw

val pempty_raw : 'a1 pmap_raw empty

val plookup_raw : (positive, 'a1, 'a1 pmap_raw) lookup

val psingleton_raw : positive -> 'a1 -> 'a1 pmap_raw

val ppartial_alter_raw :
  ('a1 option -> 'a1 option) -> positive -> 'a1 pmap_raw -> 'a1 pmap_raw

val pfmap_raw : ('a1 -> 'a2) -> 'a1 pmap_raw -> 'a2 pmap_raw

val pto_list_raw :
  positive -> 'a1 pmap_raw -> (positive * 'a1) list -> (positive * 'a1) list

val pomap_raw : ('a1 -> 'a2 option) -> 'a1 pmap_raw -> 'a2 pmap_raw

val pmerge_raw :
  ('a1 option -> 'a2 option -> 'a3 option) -> 'a1 pmap_raw -> 'a2 pmap_raw ->
  'a3 pmap_raw

type 'a pmap = { pmap_car : 'a pmap_raw }

val pmap_eq_dec : ('a1, 'a1) relDecision -> ('a1 pmap, 'a1 pmap) relDecision

val pempty : 'a1 pmap empty

val plookup : (positive, 'a1, 'a1 pmap) lookup

val ppartial_alter : (positive, 'a1, 'a1 pmap) partialAlter

val pfmap : (__ -> __) -> __ pmap -> __ pmap

val pto_list : (positive, 'a1, 'a1 pmap) finMapToList

val pomap : (__ -> __ option) -> __ pmap -> __ pmap

val pmerge :
  (__ option -> __ option -> __ option) -> __ pmap -> __ pmap -> __ pmap

type ('k, 'a) gmap = { gmap_car : 'a pmap }

val gmap_eq_eq :
  ('a1, 'a1) relDecision -> 'a1 countable -> ('a2, 'a2) relDecision -> (('a1,
  'a2) gmap, ('a1, 'a2) gmap) relDecision

val gmap_lookup :
  ('a1, 'a1) relDecision -> 'a1 countable -> ('a1, 'a2, ('a1, 'a2) gmap)
  lookup

val gmap_empty :
  ('a1, 'a1) relDecision -> 'a1 countable -> ('a1, 'a2) gmap empty

val gmap_partial_alter :
  ('a1, 'a1) relDecision -> 'a1 countable -> ('a1, 'a2, ('a1, 'a2) gmap)
  partialAlter

val gmap_fmap :
  ('a1, 'a1) relDecision -> 'a1 countable -> (__ -> __) -> ('a1, __) gmap ->
  ('a1, __) gmap

val gmap_omap :
  ('a1, 'a1) relDecision -> 'a1 countable -> (__ -> __ option) -> ('a1, __)
  gmap -> ('a1, __) gmap

val gmap_merge :
  ('a1, 'a1) relDecision -> 'a1 countable -> (__ option -> __ option -> __
  option) -> ('a1, __) gmap -> ('a1, __) gmap -> ('a1, __) gmap

val gmap_to_list :
  ('a1, 'a1) relDecision -> 'a1 countable -> ('a1, 'a2, ('a1, 'a2) gmap)
  finMapToList

type 'k gset = ('k, unit) gmap mapset'

val gset_empty : ('a1, 'a1) relDecision -> 'a1 countable -> 'a1 gset empty

val gset_singleton :
  ('a1, 'a1) relDecision -> 'a1 countable -> ('a1, 'a1 gset) singleton

val gset_union : ('a1, 'a1) relDecision -> 'a1 countable -> 'a1 gset union

val gset_difference :
  ('a1, 'a1) relDecision -> 'a1 countable -> 'a1 gset difference

val gset_elements :
  ('a1, 'a1) relDecision -> 'a1 countable -> ('a1, 'a1 gset) elements

val gset_elem_of_dec :
  ('a1, 'a1) relDecision -> 'a1 countable -> ('a1, 'a1 gset) relDecision

type byte0 = byte

val x00 : byte0

val byte_eq_dec0 : (byte0, byte0) relDecision

val byte_countable : byte0 countable

type bytes = byte0 list

val bytes_eqb : bytes -> bytes -> bool

val bS : n

val zeros : n -> bytes

val zero_block : bytes

val all_zero : bytes -> bool

val byte_of_N : n -> byte0

val le : nat -> n -> bytes

val unle : bytes -> n

val takeN : n -> 'a1 list -> 'a1 list

val dropN : n -> 'a1 list -> 'a1 list

val lenN : 'a1 list -> n

val get : nat -> bytes -> n -> n

val get64 : bytes -> n -> n

val get32 : bytes -> n -> n

val splice : bytes -> n -> bytes -> bytes

val gs_add :
  ('a1, 'a1) relDecision -> 'a1 countable -> 'a1 -> 'a1 gset -> 'a1 gset

type name = bytes

type handle = bytes

val mk_handle : n -> n -> handle

val parse_handle : handle -> (n * n) option

val b_dot : byte0

val b_slash : byte0

val dot : name

val dotdot : name

type ty =
| TU32
| TU64
| TBool
| TFixed of n
| TVar of n option
| TOpt of ty
| TArr32
| TRef of string
| TSeq of item list
and item =
| IField of string * ty
| ISwitch of string * (n * item list) list * item list option

type env = (string * ty) list

val lookup_ty : env -> string -> ty option

type val0 =
| VN of n
| VB of bytes
| VO of val0 option
| VL of val0 list
| VS of (string * val0) list

val be : nat -> n -> bytes

val unbe : bytes -> n -> n

val pad_len : n -> n

val w32 : n

val w64 : n

val field_val : (string * val0) list -> string -> n option

val find_arm : (n * 'a1) list -> n -> 'a1 option

val enc_words : val0 list -> bytes option

val enc : env -> nat -> ty -> val0 -> bytes option

val take_bytes : n -> bytes -> (bytes * bytes) option

val word : nat -> bytes -> (n * bytes) option

val dec_words : nat -> bytes -> (val0 list * bytes) option

val dec : env -> nat -> ty -> bytes -> (val0 * bytes) option

val lower_ascii : ascii -> ascii

val lower : string -> string

val name_eqb : string -> string -> bool

val lookup_ci : env -> string -> ty option

val gen_env : env

val rfc_env : env

val w : n

val bS0 : n

type sbyte = n

type ino = { size1 : n; blk : sbyte list }

val sum_overflows : n -> n -> bool

val lenN0 : 'a1 list -> n

val sub0 : sbyte list -> n -> n -> sbyte list

val splice0 : sbyte list -> n -> sbyte list -> sbyte list

val i_read : ino -> n -> n -> sbyte list * bool

val i_write : ino -> n -> n -> sbyte list -> (n * ino) option

val i_setsize : ino -> n -> ino option * n

type file = sbyte list

val s_read : file -> n -> n -> sbyte list * bool

val s_write : file -> n -> sbyte list -> file option

val s_setsize : file -> n -> file option

val nINODE : n

val valid_inum : n -> bool

type scall =
| SGetattr of n
| SSetattr of n * n option
| SRead of n * n * n
| SWrite of n * n * n * sbyte list

type sreply =
| SErr
| SAttr of bool * n
| SOk
| SData of sbyte list * bool
| SWritten of n

type sstate = (n, file) gmap

val s_file : sstate -> n -> file

val sstep : sstate -> scall -> sstate * sreply

type istate = (n, ino) gmap

val zero_ino : ino

val i_ino : istate -> n -> ino

val istep : istate -> scall -> istate * sreply

val simple_abs : (n -> sbyte list) -> n -> file

val simple_inum_of_handle : sbyte list -> n

val simple_empty_s : sstate

val simple_empty_i : istate

type kstate = (n, bytes) gmap

val kput : kstate -> (n * bytes) list -> kstate

val kget : kstate -> n -> bytes

val k_valid : n -> n -> bool

val kput_ok : n -> (n * bytes) list -> bool

val kvs_empty : kstate

val w0 : n

val w1 : n -> n

type fsSuper = { size2 : n; nLog : n; nBlockBitmap : n; nInodeBitmap : 
                 n; nInodeBlk : n; maxaddr : n }

val nBlockBitmap : fsSuper -> n

val mkFsSuper : n -> fsSuper

val maxBnum : fsSuper -> n

val bitmapBlockStart : fsSuper -> n

val bitmapInodeStart : fsSuper -> n

val inodeStart : fsSuper -> n

val dataStart : fsSuper -> n

val nInode : fsSuper -> n

val inum2Addr : fsSuper -> n -> n * n

val nBITBLOCK : n

val lOGSIZE : n

val markAlloc_sane : fsSuper -> bool

val mk_bit : fsSuper -> n -> bool

val mk_ibit : n -> bool

val fresh_free_blocks : fsSuper -> n

val fresh_free_inodes : fsSuper -> n

val layout_ok_b : n -> bool

val bitmap_ok_b : n -> n -> bool

type inum = n

val rOOT : inum

type params = { p_name_max : n; p_maxfilesize : n; p_wtmax : n; p_ninode : n }

type kind =
| KFile
| KDir
| KLnk

val kind_eq_dec : (kind, kind) relDecision

type obj = { o_kind : kind; o_gen : n; o_size : n; o_data : (n, bytes) gmap;
             o_ents : (name, inum) gmap; o_parent : inum;
             o_atime : (n * n) option; o_mtime : (n * n) option }

type afs = { objs : (inum, obj) gmap; issued : (n * n) gset;
             unstable_opt : bool }

val objs : afs -> (inum, obj) gmap

val set_obj : afs -> inum -> obj -> afs

val del_obj : afs -> inum -> afs

val with_ents : obj -> (name, inum) gmap -> obj

val with_parent : obj -> inum -> obj

val with_content : obj -> n -> (n, bytes) gmap -> obj

val with_times : obj -> (n * n) option -> (n * n) option -> obj

val chunk_of : (n, bytes) gmap -> n -> bytes

val read_chunks : (n, bytes) gmap -> nat -> n -> n -> n -> bytes

val read_bytes : (n, bytes) gmap -> n -> n -> bytes

val write_chunks :
  (n, bytes) gmap -> nat -> n -> n -> bytes -> (n, bytes) gmap

val write_bytes : (n, bytes) gmap -> n -> bytes -> (n, bytes) gmap

val trunc_data : (n, bytes) gmap -> n -> (n, bytes) gmap

type settime =
| DontChange
| ServerTime
| ClientTime of (n * n)

type stable =
| Unstable
| DataSync
| FileSync

type call =
| CGetattr of handle
| CSetattr of handle * n option * settime * settime
| CLookup of handle * name
| CAccess of handle
| CReadlink of handle
| CRead of handle * n * n
| CWrite of handle * n * n * stable * bytes
| CCreate of handle * name * bool
| CMkdir of handle * name
| CSymlink of handle * name * bytes
| CRemove of handle * name
| CRmdir of handle * name
| CRename of handle * name * handle * name
| CReaddir of handle * n
| CCommit of handle * n * n
| CFsinfo of handle
| CPathconf of handle
| CUnsupported
| CNull
| CRestart

type status =
| OK
| STALE
| NOTSUPP
| ERR

val status_eq_dec : (status, status) relDecision

type attrs = { a_kind : kind; a_size : n option; a_fileid : inum;
               a_atime : (n * n) option; a_mtime : (n * n) option }

type reply =
| RStatus of status
| RAttrs of attrs
| RHandle of handle * attrs
| RData of bytes * bool option
| RWritten of n * stable * attrs
| RLink of bytes
| RDir of inum * n
| RFsinfo of n * n
| RPathconf of n

val attrs_of : inum -> obj -> attrs

type hint =
| HNone
| HHandle of handle
| HNoSpace
| HShort of n

val resolve : params -> afs -> handle -> (inum * obj) option

val is_dir : obj -> bool

val wf_name : params -> name -> bool

val is_dots : name -> bool

val lookup_name : inum -> obj -> name -> inum option

val is_ancestor : afs -> nat -> inum -> inum -> bool

val new_obj : kind -> n -> inum -> obj

val upd_time : (n * n) option -> settime -> (n * n) option

val fresh : params -> afs -> n -> n -> bool

val create :
  params -> afs -> handle -> name -> kind -> bytes -> hint -> afs * reply

val unlink : afs -> inum -> obj -> name -> inum -> afs

val remove : params -> afs -> handle -> name -> bool -> afs * reply

val move : afs -> inum -> name -> inum -> name -> inum -> afs

val rename : params -> afs -> handle -> name -> handle -> name -> afs * reply

val do_read : params -> afs -> handle -> n -> n -> afs * reply

val do_write :
  params -> afs -> handle -> n -> n -> stable -> bytes -> hint -> afs * reply

val do_setattr :
  params -> afs -> handle -> n option -> settime -> settime -> hint ->
  afs * reply

val step : params -> afs -> call -> hint -> afs * reply

val set_unstable : afs -> bool -> afs

val init_afs : bool -> afs

type disk = (n, bytes) gmap

val rd : disk -> n -> bytes

val disk_set : disk -> n -> bytes -> disk

type layout = { l_size : n; l_bbstart : n; l_nbb : n; l_ibstart : n;
                l_istart : n; l_dstart : n; l_ninode : n }

val mk_layout : n -> layout

val nDIRECT : n

val nPTR : n

val dIRENTSZ : n

type dinode = { i_kind : n; i_nlink : n; i_gen : n; i_size : n; i_shrink : 
                n; i_atime : (n * n); i_mtime : (n * n); i_blks : n list }

val words : nat -> bytes -> n list

val decode_inode : bytes -> dinode

val inode_bytes : layout -> disk -> n -> bytes

val read_inode : layout -> disk -> n -> dinode

val blk_count : n -> n

val tree : disk -> nat -> n -> n -> n -> (n * n) list * n list

val inode_blocks : disk -> dinode -> (n * n) list * n list

type aobj = { ab_kind : n; ab_gen : n; ab_size : n;
              ab_chunks : (n * bytes) list; ab_ents : (name * n) list;
              ab_parent : n; ab_atime : (n * n); ab_mtime : (n * n);
              ab_nlink : n }

val leaf_map : (n * n) list -> (n, n) gmap

val slot_of : bytes -> n -> (name * n) option

val dir_slots : disk -> (n, n) gmap -> n -> (name * n) option list

type wf_error =
| EBadPtr of n * n
| EDupBlock of n
| EBitClear of n
| EBitSetUnowned of n
| ENonZeroFree of n
| EBitmapFixed
| EInodeBit of n
| EInodeLeak of n
| EInodeBitFree of n
| EDot of n
| EDotDot of n
| EDangling of n * n
| EDupName of n
| EBadName of n
| EDirSize of n
| ETwoNames of n
| ETooBig of n
| EBeyondSize of n * n
| ETailNonZero of n
| EKind of n
| EGen of n
| ENlink of n
| EFreeOwns of n
| EFuel

val bad_name_b : n -> name -> bool

val gs_of_list :
  ('a1, 'a1) relDecision -> 'a1 countable -> 'a1 list -> 'a1 gset

val has_dup : name list -> name gset -> bool

val check_blocks :
  layout -> n -> dinode -> (n * n) list -> n list -> wf_error list

type walk_st = { w_objs : (n * aobj) list; w_owned : n list;
                 w_errs : wf_error list; w_seen : n gset }

val visit :
  n -> n -> layout -> disk -> n -> n -> walk_st -> walk_st * (n * n) list

val walk :
  n -> n -> layout -> disk -> nat -> (n * n) list -> walk_st -> walk_st

val scan_block :
  layout -> disk -> bool -> n gset -> n -> (n list * wf_error list) -> n
  list * wf_error list

val testbit_byte : byte0 -> n -> bool

val popcount : byte0 -> n

val set_bits_bytes : n -> n -> bytes -> n -> (n list * n) -> n list * n

val set_bits : disk -> n -> n -> n -> n -> n list * n

type abs_result = { r_objs : (n * aobj) list; r_errs : wf_error list;
                    r_used_blocks : n; r_used_inodes : n }

val in_data : layout -> n -> bool

val dup_errors : n list -> n gset -> wf_error list

val own_errors : layout -> n list -> n list -> wf_error list

val abs_disk : n -> n -> n -> bool -> disk -> abs_result

val empty_disk : disk

val go_disk_BlockSize : n

val go_dir_MAXNAMELEN : n

val go_inode_NDIRECT : n

val go_inode_NBLKBLK : n

val encode_inode : dinode -> bytes

type 'entry slot = 'entry option

type 'entry dir = 'entry slot list

val scan :
  ('a2 -> 'a1 -> 'a2) -> ('a2 -> bool) -> 'a1 dir -> nat -> 'a2 ->
  ((nat * 'a1) list * bool) * nat

val page :
  ('a2 -> 'a1 -> 'a2) -> ('a2 -> bool) -> 'a1 dir -> nat -> 'a2 ->
  ((nat * 'a1) list * bool) * nat

type rd_budget = n * n

val rd_charge : ('a1 -> n) -> rd_budget -> 'a1 -> rd_budget

val rd_full : rd_budget -> bool

val page_readdir :
  ('a1 -> n) -> 'a1 dir -> nat -> n -> ((nat * 'a1) list * bool) * nat

type rdp_budget = (n * n) * (n * n)

val rdp_charge : ('a1 -> n) -> ('a1 -> n) -> rdp_budget -> 'a1 -> rdp_budget

val rdp_full : rdp_budget -> bool

val page_readdirplus :
  ('a1 -> n) -> ('a1 -> n) -> 'a1 dir -> nat -> n -> n -> ((nat * 'a1)
  list * bool) * nat

type dcache = { dc_map : (name, n * nat) gmap; dc_last : nat }

type dstate = { d_slots : (name * n) option list; d_cache : dcache option }

val d_slots : dstate -> (name * n) option list

val dM_MAXNAMELEN : n

val cache_of :
  (name * n) option list -> nat -> (name, n * nat) gmap -> (name, n * nat)
  gmap

val mk_dcache : (name * n) option list -> dcache

val ensure : dstate -> dstate * dcache

val dm_lookup : dstate -> name -> dstate * (n * nat) option

val first_free : (name * n) option list -> nat -> nat -> nat option

val upd_nth : 'a1 list -> nat -> 'a1 -> 'a1 list

val add_slot : (name * n) option list -> nat -> nat

val write_slot :
  (name * n) option list -> nat -> (name * n) option -> (name * n) option list

val add_name : dstate -> n -> name -> bool -> dstate * bool

val rem_name : dstate -> name -> dstate * bool

val dm_addx : dstate -> n -> name -> bool -> dstate * bool option

val drop_cache : dstate -> dstate

val slot_eqb : (name * n) -> (name * n) -> bool

val has_entry : (name * n) option list -> (name * n) -> bool

val stays :
  (name * n) option list -> (name * n) option list -> (name * n) option list
  -> bool

val step_ok_b : (name * n) option list -> (name * n) option list -> bool

val dm_make :
  (name * n) option list -> (nat * (name * (n * nat)) list) option -> dstate

val dm_cache_list : dstate -> (nat * (name * (n * nat)) list) option

type oattrs = { oa_ftype : n; oa_size : n; oa_fileid : n; oa_atime : 
                (n * n); oa_mtime : (n * n); oa_nlink : n }

type odirent = { de_fileid : n; de_name : name; de_cookie : n;
                 de_plus : (handle * oattrs) option }

type oreply =
| OStatus of n
| OAttrs of n * oattrs
| OHandle of n * handle * oattrs
| OData of n * bytes * bool
| OWritten of n * n * n * oattrs
| OLink of n * bytes
| ODir of n * odirent list * bool
| OFsinfo of n * n * n
| OPathconf of n * n

val code_of : oreply -> n

val class_of : n -> status

val kind_code : kind -> n

val opt_agree : ('a1 -> 'a1 -> bool) -> 'a1 option -> 'a1 -> bool

val pair_eqb : (n * n) -> (n * n) -> bool

val attrs_agree : attrs -> oattrs -> bool

val stable_code : stable -> n

val increasing : n -> n list -> bool

val dirent_ok : afs -> inum -> obj -> odirent -> bool

val dir_agree : afs -> inum -> n -> odirent list -> bool -> bool

val agree : afs -> reply -> oreply -> bool

val hint_of : call -> oreply -> hint

type mismatch =
| MMissing of n
| MExtra of n
| MKind of n
| MGen of n
| MSize of n
| MParent of n
| MEnts of n
| MData of n * n
| MTime of n

val chunks_agree : n -> (n, bytes) gmap -> (n * bytes) list -> mismatch list

val obj_agree : n -> obj -> aobj -> mismatch list

val cmp_state : afs -> abs_result -> mismatch list

val need_blocks : call -> n

val needs_inode : call -> bool

val nospace_plausible : n -> call -> n -> n -> bool

val limits_plausible : n -> n -> bool

val cached_inode_ok : n -> disk -> n -> bytes -> bool

val dir_slot_list : n -> disk -> n -> ((name * n) * n) list

val triple_eqb : ((name * n) * n) -> ((name * n) * n) -> bool

val name_cache_ok : n -> disk -> n -> ((name * n) * n) list -> bool

val enum_names : afs -> inum -> name list

val dir_slots_of : n -> disk -> n -> (name * n) option list

val readdir_cost : (name * n) -> n

val model_page :
  (name * n) option list -> n -> n -> ((nat * (name * n)) list * bool) * nat

val eNTRYPLUS_BAGGAGE : n

val rdplus_dcost : (name * n) -> n

val rdplus_pcost : (name * n) -> n

val model_pageplus :
  (name * n) option list -> n -> n -> n -> ((nat * (name * n))
  list * bool) * nat

val readdir_matches_model :
  n -> disk -> n -> n -> n -> odirent list -> bool -> bool

val dir_slot_table :
  n -> disk -> abs_result -> (n * (n * (name * n) option list)) list

val slots_moved :
  (n * (n * (name * n) option list)) list -> (n * (n * (name * n) option
  list)) list -> n list

val readdirplus_matches_model :
  n -> disk -> n -> n -> n -> n -> odirent list -> bool -> bool

val lOGSZ : n

val lOGSTART : n

type log_hdr = { lh_start : n; lh_end : n; lh_addrs : n list }

val read_hdr : disk -> log_hdr

val positions : nat -> n -> n list

val recover_log : disk -> disk option

val fs_part : disk -> (n * bytes) list

type tev =
| TAcq of n
| TRel of n
| TCommit of bool
| TCommitted of bool
| TAbort
| TFlush
| TFlushed of bool
| TFresh of n

val remove1 : n -> n list -> n list

val asc_f : n list -> n list -> tev list -> bool

val asc_b : n list -> tev list -> bool

val commit_phase_b : n -> tev list -> bool

val balanced_b : n list -> tev list -> bool

val waits : tev list -> bool list

val committed : tev list -> bool

type hop = { h_inv : n; h_ret : n; h_call : call; h_rep : oreply }

val replay : params -> hop list -> afs -> nat list -> afs option

val rt_ok : hop list -> nat list -> bool

val nodupb : nat list -> bool

val is_perm : nat -> nat list -> bool

val lin_check : params -> hop list -> afs -> (afs -> bool) -> nat list -> bool

type atxn = { t_al : n list; t_fr : n list }

type astate = { a_mem : n gset; a_disk : n gset; a_txns : (nat, atxn) gmap }

type aop =
| ABegin of nat
| AAlloc of nat * n
| AFree of nat * n
| ACommit of nat
| AAbort of nat

val set_bits0 : n gset -> n list -> n gset

val clear_bits : n gset -> n list -> n gset

val pre_commit : n gset -> atxn -> n gset

val release : n gset -> n list -> n gset

val nobody_freed_dec : (nat, atxn) gmap -> n -> decision

val astep : astate -> aop -> astate option

val a_init : n gset -> astate

val a_init_list : n list -> astate

val a_disk_list : astate -> n list

val a_mem_size : astate -> nat

type 'v icstate = { c_disk : (n, 'v) gmap; c_cache : (n, 'v) gmap;
                    c_wbuf : (n, 'v) gmap; c_owner : (n, nat) gmap }

type 'v icop =
| ILock of nat * n
| IMod of nat * n * 'v
| IWrite of nat * n
| ICommit of nat
| IAbort of nat
| IEvict of n

val disk_val : 'a1 -> 'a1 icstate -> n -> 'a1

val mine : 'a1 icstate -> nat -> (n, 'a2) gmap -> (n, 'a2) gmap

val not_mine : 'a1 icstate -> nat -> (n, 'a2) gmap -> (n, 'a2) gmap

val clean_dec : ('a1, 'a1) relDecision -> 'a1 -> 'a1 icstate -> n -> decision

val all_clean_dec :
  ('a1, 'a1) relDecision -> 'a1 -> 'a1 icstate -> nat -> decision

val icstep :
  ('a1, 'a1) relDecision -> 'a1 -> 'a1 icstate -> 'a1 icop -> 'a1 icstate
  option

val ic_init : (n, 'a1) gmap -> 'a1 icstate

val ic_make : (n * 'a1) list -> 'a1 icstate

val ic_disk_at : 'a1 icstate -> n -> 'a1 option

val ic_cache_at : 'a1 icstate -> n -> 'a1 option
