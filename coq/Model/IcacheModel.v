(* IC — the inode cache under transactions (fstxn/fstxn.go, fstxn/commit.go, cache/cache.go, inode.WriteInode):
     disk   committed contents of every inode (what a server started now would read)
     cache  the cached copies; transactions modify them in place
     wbuf   what running transactions have handed to the journal (inode.WriteInode) and not yet committed
     owner  which transaction holds the lock of an inode
   A transaction locks an inode (loading it when it is not cached), edits the cached copy, logs it, and either
   commits - its logged inodes become the disk's - or aborts - its inodes are dropped from the cache
   (FsTxn.Abort: "evict, then release").  Unlocked inodes may be evicted at any time.
   `commit` demands that every inode the transaction holds is clean: the cached copy is what was logged last, or was
   never changed.  That is the discipline of inode/*.go (every in-place edit is followed by WriteInode before the
   commit); the model does not establish it, the per-RPC comparison R-cache observes it. *)
From stdpp Require Import gmap.
From Coq Require Import NArith.


Section IC.
Context {V : Type} `{EqDecision V}.
Variable dflt : V.                 (* a free inode: all zero *)

Record icstate := { c_disk : gmap N V; c_cache : gmap N V; c_wbuf : gmap N V; c_owner : gmap N nat }.

Inductive icop :=
| ILock (t : nat) (i : N)
| IMod (t : nat) (i : N) (v : V)
| IWrite (t : nat) (i : N)
| ICommit (t : nat)
| IAbort (t : nat)
| IEvict (i : N).

Definition disk_val (s : icstate) (i : N) : V := default dflt (c_disk s !! i).
Definition mine (s : icstate) (t : nat) {A} (m : gmap N A) : gmap N A :=
  filter (fun p => c_owner s !! fst p = Some t) m.
Definition not_mine (s : icstate) (t : nat) {A} (m : gmap N A) : gmap N A :=
  filter (fun p => c_owner s !! fst p <> Some t) m.
Definition clean (s : icstate) (i : N) : Prop :=
  forall v, c_cache s !! i = Some v -> c_wbuf s !! i = Some v \/ (c_wbuf s !! i = None /\ disk_val s i = v).
Global Instance clean_dec s i : Decision (clean s i).
Proof.
  unfold clean. destruct (c_cache s !! i) as [v|].
  - destruct (decide (c_wbuf s !! i = Some v \/ (c_wbuf s !! i = None /\ disk_val s i = v))) as [H|H].
    + left. intros v' [= <-]. exact H.
    + right. intros X. apply H. apply X. reflexivity.
  - left. intros v' [=].
Defined.
Definition all_clean (s : icstate) (t : nat) : Prop := map_Forall (fun i o => o = t -> clean s i) (c_owner s).
Global Instance all_clean_dec s t : Decision (all_clean s t).
Proof. unfold all_clean. apply map_Forall_dec. intros ? ?. apply _. Defined.

Definition icstep (s : icstate) (o : icop) : option icstate :=
  match o with
  | ILock t i =>
      match c_owner s !! i with
      | None => Some {| c_disk := c_disk s;
                        c_cache := match c_cache s !! i with Some _ => c_cache s | None => <[i := disk_val s i]> (c_cache s) end;
                        c_wbuf := c_wbuf s; c_owner := <[i := t]> (c_owner s) |}
      | Some _ => None end
  | IMod t i v =>
      if bool_decide (c_owner s !! i = Some t) then
        Some {| c_disk := c_disk s; c_cache := <[i := v]> (c_cache s); c_wbuf := c_wbuf s; c_owner := c_owner s |}
      else None
  | IWrite t i =>
      if bool_decide (c_owner s !! i = Some t) then
        match c_cache s !! i with
        | Some v => Some {| c_disk := c_disk s; c_cache := c_cache s; c_wbuf := <[i := v]> (c_wbuf s); c_owner := c_owner s |}
        | None => None end
      else None
  | ICommit t =>
      if bool_decide (all_clean s t) then
        Some {| c_disk := mine s t (c_wbuf s) ∪ c_disk s; c_cache := c_cache s;
                c_wbuf := not_mine s t (c_wbuf s); c_owner := filter (fun p => snd p <> t) (c_owner s) |}
      else None
  | IAbort t =>
      Some {| c_disk := c_disk s; c_cache := not_mine s t (c_cache s);
              c_wbuf := not_mine s t (c_wbuf s); c_owner := filter (fun p => snd p <> t) (c_owner s) |}
  | IEvict i =>
      match c_owner s !! i with
      | None => Some {| c_disk := c_disk s; c_cache := delete i (c_cache s); c_wbuf := c_wbuf s; c_owner := c_owner s |}
      | Some _ => None end
  end.

Definition icstep' (s : icstate) (o : icop) : icstate := match icstep s o with Some s' => s' | None => s end.
Definition icruns (s : icstate) (os : list icop) : icstate := fold_left icstep' os s.
(* a server just started on disk d *)
Definition ic_init (d : gmap N V) : icstate := {| c_disk := d; c_cache := ∅; c_wbuf := ∅; c_owner := ∅ |}.
(* ---- for the correspondence run (harness `icmodel`) ---- *)
Definition ic_make (l : list (N * V)) : icstate := ic_init (list_to_map l).
Definition ic_disk_at (s : icstate) (i : N) : option V := c_disk s !! i.
Definition ic_cache_at (s : icstate) (i : N) : option V := c_cache s !! i.
End IC.
