(* On-disk layouts (hand transcription of inode.Encode/Decode, dir.encodeDirEnt/decodeDirEnt,
   fh.MakeFh3/MakeFh): encoders; the decoders are the ones abs_disk uses (Model/Abs.v, Model/Lib.v).
   The correspondence check validates them on every cached inode of the running server:
   encode (decode bytes) = bytes and bytes = the server's own Encode(). *)
From stdpp Require Import list.
From Coq Require Import NArith.
From V Require Import Model.Lib Model.Abs.
Open Scope N_scope.

Definition encode_inode (ip : dinode) : bytes :=
  le 4 (i_kind ip) ++ le 4 (i_nlink ip) ++ le 8 (i_gen ip) ++ le 8 (i_size ip) ++ le 8 (i_shrink ip) ++
  le 4 (fst (i_atime ip)) ++ le 4 (snd (i_atime ip)) ++ le 4 (fst (i_mtime ip)) ++ le 4 (snd (i_mtime ip)) ++
  concat (map (le 8) (i_blks ip)).

Definition inode_in_range (ip : dinode) : Prop :=
  i_kind ip < 2^32 /\ i_nlink ip < 2^32 /\ i_gen ip < 2^64 /\ i_size ip < 2^64 /\ i_shrink ip < 2^64 /\
  fst (i_atime ip) < 2^32 /\ snd (i_atime ip) < 2^32 /\ fst (i_mtime ip) < 2^32 /\ snd (i_mtime ip) < 2^32 /\
  length (i_blks ip) = 10%nat /\ Forall (fun b => b < 2^64) (i_blks ip).

(* directory entry: inode number, name length, name, zero padding to 128 bytes *)
Definition encode_dirent (inum : N) (n : name) : bytes :=
  le 8 inum ++ le 8 (lenN n) ++ n ++ zeros (DIRENTSZ - 16 - lenN n).

(* file handle *)
Definition encode_fh (inum gen : N) : bytes := mk_handle inum gen.
