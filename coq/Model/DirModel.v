(* DM — the directory layer of dir/dir.go + dir/dcache.go: a directory is a list of 128-byte slots (free or
   (name, inode number)); a per-inode name cache maps a name to (inode number, slot index) and remembers the
   slot touched last (Dcache.Lastoff), from which AddNameDir starts looking for a free slot.
   Transliterated: mkDcache, LookupName, AddName (with AddNameDir's loop and its `finalOff == 0` sentinel),
   RemName (with RemNameDir).  The write that appends a slot needs a block when the directory grows into a new
   one; whether that allocation succeeds is the parameter `room`.  No proofs here. *)
From stdpp Require Import gmap.
From Coq Require Import NArith List.
From V Require Import Model.Lib.
Import ListNotations.

Notation dslot := (option (name * N)) (only parsing).
Notation dslots := (list (option (name * N))) (only parsing).
Record dcache := { dc_map : gmap name (N * nat); dc_last : nat }.
Record dstate := { d_slots : dslots; d_cache : option dcache }.
Definition DM_MAXNAMELEN : N := 112.

(* mkDcache: ApplyEnts over the whole directory, Dcache.Add(name, inum, offset of the slot) *)
Fixpoint cache_of (l : dslots) (base : nat) (m : gmap name (N * nat)) : gmap name (N * nat) :=
  match l with
  | [] => m
  | None :: r => cache_of r (S base) m
  | Some (n, i) :: r => cache_of r (S base) (<[n := (i, base)]> m)
  end.
Definition mk_dcache (l : dslots) : dcache := {| dc_map := cache_of l 0 ∅; dc_last := 0 |}.
Definition ensure (st : dstate) : dstate * dcache :=
  match d_cache st with
  | Some c => (st, c)
  | None => let c := mk_dcache (d_slots st) in ({| d_slots := d_slots st; d_cache := Some c |}, c)
  end.

(* LookupName *)
Definition dm_lookup (st : dstate) (n : name) : dstate * option (N * nat) :=
  let '(st', c) := ensure st in (st', dc_map c !! n).

(* AddNameDir's loop `for off := lastoff; off < dip.Size; off += DIRENTSZ`: the first free slot at or after `from` *)
Fixpoint first_free (l : dslots) (idx from : nat) : option nat :=
  match l with
  | [] => None
  | None :: r => if (from <=? idx)%nat then Some idx else first_free r (S idx) from
  | Some _ :: r => first_free r (S idx) from
  end.
Fixpoint upd_nth {A} (l : list A) (k : nat) (x : A) : list A :=
  match l, k with
  | [], _ => []
  | _ :: r, O => x :: r
  | y :: r, S k => y :: upd_nth r k x
  end.
(* the slot AddNameDir writes: a found offset of 0 counts as "none found" (slot 0 holds "." and is never free) *)
Definition add_slot (l : dslots) (last : nat) : nat :=
  match first_free l 0 last with Some (S k) => S k | _ => length l end.
Definition write_slot (l : dslots) (off : nat) (s : dslot) : dslots :=
  if (off <? length l)%nat then upd_nth l off s else l ++ [s].

(* AddName: false when the name is too long or the directory could not grow *)
Definition add_name (st : dstate) (i : N) (n : name) (room : bool) : dstate * bool :=
  if (DM_MAXNAMELEN <? lenN n)%N then (st, false) else
  let '(st1, c) := ensure st in
  let off := add_slot (d_slots st1) (dc_last c) in
  if (length (d_slots st1) <=? off)%nat && negb room then (st1, false) else
  ({| d_slots := write_slot (d_slots st1) off (Some (n, i));
      d_cache := Some {| dc_map := <[n := (i, off)]> (dc_map c); dc_last := off |} |}, true).

(* RemName *)
Definition rem_name (st : dstate) (n : name) : dstate * bool :=
  if (DM_MAXNAMELEN <? lenN n)%N then (st, false) else
  let '(st1, c) := ensure st in
  match dc_map c !! n with
  | None => (st1, false)
  | Some (_, off) =>
      ({| d_slots := upd_nth (d_slots st1) off None;
          d_cache := Some {| dc_map := delete n (dc_map c); dc_last := off |} |}, true)
  end.

(* as the callers in nfs_ops.go do: look the name up, add it when absent (None = the name exists) *)
Definition dm_addx (st : dstate) (i : N) (n : name) (room : bool) : dstate * option bool :=
  let '(st1, r) := dm_lookup st n in
  match r with
  | Some _ => (st1, None)
  | None => let '(st2, ok) := add_name st1 i n room in (st2, Some ok)
  end.

(* an aborted transaction drops the inode (and its name cache) from the inode cache *)
Definition drop_cache (st : dstate) : dstate := {| d_slots := d_slots st; d_cache := None |}.

(* ---- what consecutive directory states must satisfy for the enumeration theorems (C13): the directory does not
   shrink and an entry stays in its slot until it disappears.  Executable, run on the decoded slots of every
   directory before and after every RPC. ---- *)
Definition slot_eqb (a b : name * N) : bool := bytes_eqb (fst a) (fst b) && (snd a =? snd b)%N.
Definition has_entry (l : dslots) (e : name * N) : bool :=
  existsb (fun s => match s with Some e' => slot_eqb e e' | None => false end) l.
Fixpoint stays (a b : dslots) (b_all : dslots) : bool :=
  match a with
  | [] => true
  | None :: ra => stays ra (tl b) b_all
  | Some e :: ra =>
      (match b with Some e' :: _ => slot_eqb e e' || negb (has_entry b_all e) | _ => negb (has_entry b_all e) end)
      && stays ra (tl b) b_all
  end.
Definition step_ok_b (a b : dslots) : bool := (length a <=? length b)%nat && stays a b b.

(* ---- for the correspondence run (harness `dirmodel`): a state from / to plain lists ---- *)
Definition dm_make (slots : dslots) (cache : option (nat * list (name * (N * nat)))) : dstate :=
  {| d_slots := slots;
     d_cache := match cache with Some (last, l) => Some {| dc_map := list_to_map l; dc_last := last |} | None => None end |}.
Definition dm_cache_list (st : dstate) : option (nat * list (name * (N * nat))) :=
  match d_cache st with Some c => Some (dc_last c, map_to_list (dc_map c)) | None => None end.
