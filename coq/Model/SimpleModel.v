(* SM — SimpleNFS.  Two executable models:
   i_*  : transliteration of simple/inode.go and the SETATTR path of simple/ops.go with explicit
          uint64 arithmetic (mod 2^64);
   s_*  : the specification "a file is a list of at most 4096 bytes";
   and the server-level step functions built on each (istep / sstep).  Files are at most one block,
   so bytes are plain numbers here.  Proofs: Proofs/SimpleProofs.v. *)
From Coq Require Import List NArith Bool.
From stdpp Require Import gmap.
Import ListNotations.
Open Scope N_scope.

(* ---------- transliteration of simple/inode.go (uint64 arithmetic explicit) ---------- *)
Definition W := 18446744073709551616.           (* 2^64 *)
Definition BS := 4096.
Definition sbyte := N.                            (* spike: bytes as N *)

Record ino := { size : N; blk : list sbyte }.     (* the inode's size and its one data block *)

Definition sum_overflows (n m:N) : bool := ((n + m) mod W) <? n.
Definition lenN {A} (l:list A) : N := N.of_nat (length l).

Definition sub (l:list sbyte) (off cnt:N) : list sbyte := firstn (N.to_nat cnt) (skipn (N.to_nat off) l).
Definition splice (l:list sbyte) (off:N) (d:list sbyte) : list sbyte :=
  firstn (N.to_nat off) l ++ d ++ skipn (N.to_nat off + length d) l.

(* Inode.Read *)
Definition i_read (ip:ino) (offset bytesToRead:N) : list sbyte * bool :=
  if size ip <=? offset then ([], true) else
  let count := if (size ip - offset) <? bytesToRead then size ip - offset else bytesToRead in
  (sub (blk ip) offset count, size ip <=? (offset + count) mod W).

(* Inode.Write : returns (count, ok) and the new inode *)
Definition i_write (ip:ino) (offset count:N) (data:list sbyte) : option (N * ino) :=
  if negb (count =? lenN data) then None else
  if sum_overflows offset count then None else
  if BS <? (offset + count) mod W then None else
  if size ip <? offset then None else
  let b' := splice (blk ip) offset data in
  let sz' := if size ip <? (offset + count) mod W then (offset + count) mod W else size ip in
  Some (count, {| size := sz'; blk := b' |}).

(* SETATTR size path: returns new inode or NOSPC (None), plus bytes allocated by make() *)
Definition i_setsize (ip:ino) (newsize:N) : option ino * N :=
  if BS <? newsize then (None, 0) else
  if size ip <? newsize then
    let n := newsize - size ip in
    match i_write ip (size ip) n (repeat 0 (N.to_nat n)) with
    | Some (_, ip') => (if size ip' =? newsize then Some ip' else None, n)
    | None => (None, n)
    end
  else (Some {| size := newsize; blk := blk ip |}, 0).

(* ---------- specification: a file is a list of at most 4096 bytes ---------- *)
Definition file := list sbyte.
Definition s_read (f:file) (offset count:N) : list sbyte * bool :=
  if lenN f <=? offset then ([], true)
  else (firstn (N.to_nat (N.min count (lenN f - offset))) (skipn (N.to_nat offset) f),
        lenN f <=? offset + N.min count (lenN f - offset)).
Definition s_write (f:file) (offset:N) (data:list sbyte) : option file :=
  if (offset <=? lenN f) && (offset + lenN data <=? BS)
  then Some (firstn (N.to_nat offset) f ++ data ++ skipn (N.to_nat offset + length data) f) else None.
Definition s_setsize (f:file) (newsize:N) : option file :=
  if BS <? newsize then None
  else if lenN f <? newsize then Some (f ++ repeat 0 (N.to_nat (newsize - lenN f)))
  else Some (firstn (N.to_nat newsize) f).


(* ---------- the server: 30 files, inode numbers 2..31 ---------- *)
Definition NINODE : N := 32.
Definition valid_inum (i:N) : bool := negb (i =? 0) && negb (i =? 1) && (i <? NINODE).

Inductive scall :=
| SGetattr (inum:N)
| SSetattr (inum:N) (newsize:option N)
| SRead (inum:N) (offset count:N)
| SWrite (inum:N) (offset count:N) (data:list sbyte).

(* reply classes: the size for GETATTR, data+eof for READ, count for WRITE *)
Inductive sreply :=
| SErr
| SAttr (isdir:bool) (sz:N)
| SOk
| SData (d:list sbyte) (eof:bool)
| SWritten (count:N).

(* specification server *)
Definition sstate := gmap N file.
Definition s_file (s:sstate) (i:N) : file := default [] (s !! i).
Definition sstep (s:sstate) (c:scall) : sstate * sreply :=
  match c with
  | SGetattr i => if i =? 1 then (s, SAttr true 0) else
                  if valid_inum i then (s, SAttr false (lenN (s_file s i))) else (s, SErr)
  | SSetattr i None => if valid_inum i then (s, SOk) else (s, SErr)
  | SSetattr i (Some n) =>
      if valid_inum i then
        match s_setsize (s_file s i) n with Some f' => (<[i := f']> s, SOk) | None => (s, SErr) end
      else (s, SErr)
  | SRead i off cnt =>
      if valid_inum i then let '(d, eof) := s_read (s_file s i) off cnt in (s, SData d eof) else (s, SErr)
  | SWrite i off cnt d =>
      if valid_inum i then
        if negb (cnt =? lenN d) then (s, SErr) else
        match s_write (s_file s i) off d with Some f' => (<[i := f']> s, SWritten cnt) | None => (s, SErr) end
      else (s, SErr)
  end.

(* transliterated server: inode table of (size, block) *)
Definition istate := gmap N ino.
Definition zero_ino : ino := {| size := 0; blk := repeat 0 (N.to_nat BS) |}.
Definition i_ino (s:istate) (i:N) : ino := default zero_ino (s !! i).
Definition istep (s:istate) (c:scall) : istate * sreply :=
  match c with
  | SGetattr i => if i =? 1 then (s, SAttr true 0) else
                  if valid_inum i then (s, SAttr false (size (i_ino s i))) else (s, SErr)
  | SSetattr i None => if valid_inum i then (s, SOk) else (s, SErr)
  | SSetattr i (Some n) =>
      if valid_inum i then
        match fst (i_setsize (i_ino s i) n) with Some ip' => (<[i := ip']> s, SOk) | None => (s, SErr) end
      else (s, SErr)
  | SRead i off cnt =>
      if valid_inum i then let '(d, eof) := i_read (i_ino s i) off cnt in (s, SData d eof) else (s, SErr)
  | SWrite i off cnt d =>
      if valid_inum i then
        match i_write (i_ino s i) off cnt d with Some (c', ip') => (<[i := ip']> s, SWritten c') | None => (s, SErr) end
      else (s, SErr)
  end.

(* abstraction of a raw logical disk of the simple server: inode i lives at sbyte i*128 of block 513,
   (size, data block number) little-endian; the file is the first [size] bytes of its data block *)
Definition simple_abs (rd : N -> list sbyte) (i:N) : file :=
  let ib := rd 513 in
  let le8 (l:list sbyte) := fold_right (fun b acc => b + 256 * acc) 0 (firstn 8 l) in
  let sz := le8 (skipn (N.to_nat (i * 128)) ib) in
  let db := le8 (skipn (N.to_nat (i * 128 + 8)) ib) in
  firstn (N.to_nat (N.min sz BS)) (rd db).

(* the inode number a handle names (simple/fh.go MakeFh): first 8 bytes little-endian; a handle
   shorter than that names inode 0, which is never valid *)
Definition simple_inum_of_handle (h : list sbyte) : N :=
  if lenN h <? 8 then 0 else fold_right (fun b acc => b + 256 * acc) 0 (firstn 8 h).

Definition simple_empty_s : sstate := ∅.
Definition simple_empty_i : istate := ∅.
