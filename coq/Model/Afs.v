From stdpp Require Import gmap list.
From Coq Require Import NArith ZArith Lia.
Open Scope N_scope.

(* ---------- basic types ---------- *)
Definition byte := N.                         (* 0..255 *)
Definition name := list N.
Definition handle := list N.                  (* opaque bytes: 8 LE bytes inum ++ 8 LE bytes gen *)
Definition inum := N.

Definition BS : N := 4096.
Definition ROOT : inum := 1.

Section Params.
Variable name_max : N.        (* PATHCONF name_max *)
Variable maxfilesize : N.     (* FSINFO maxfilesize *)
Variable wtmax : N.           (* FSINFO wtmax *)
Variable ninode : N.

(* ---------- little-endian handle codec ---------- *)
Fixpoint le (n:nat) (x:N) : list N := match n with O => [] | S n => (x mod 256) :: le n (x / 256) end.
Fixpoint unle (l:list N) : N := match l with [] => 0 | b :: r => b + 256 * unle r end.
Definition mk_handle (i g:N) : handle := le 8 i ++ le 8 g.
Definition parse_handle (h:handle) : option (N * N) :=
  if (N.of_nat (length h) =? 16) && forallb (fun b => b <? 256) h
  then Some (unle (take 8 h), unle (drop 8 h)) else None.

(* ---------- objects ---------- *)
Inductive kind := KFile | KDir | KLnk.
Global Instance kind_eq_dec : EqDecision kind. Proof. solve_decision. Defined.

Record obj := {
  o_kind : kind;
  o_gen : N;
  o_size : N;                         (* files and symlinks; directories: not compared *)
  o_data : gmap N (list byte);        (* chunk index -> 4096 bytes; absent = zeros *)
  o_ents : gmap name inum;            (* directories: entries other than "." and ".." *)
  o_parent : inum;                    (* the directory that names this object (root: itself) *)
  o_atime : option (N * N);           (* Some = set by the client and hence comparable *)
  o_mtime : option (N * N)
}.

Record afs := {
  objs : gmap inum obj;
  issued : gset (N * N);              (* every (inum, gen) ever handed out *)
  unstable_opt : bool                 (* server option: unstable writes honoured *)
}.

Definition set_obj (s:afs) (i:inum) (o:obj) : afs :=
  {| objs := <[i := o]> (objs s); issued := issued s; unstable_opt := unstable_opt s |}.
Definition del_obj (s:afs) (i:inum) : afs :=
  {| objs := delete i (objs s); issued := issued s; unstable_opt := unstable_opt s |}.

(* ---------- sparse contents ---------- *)
Definition zeros (n:N) : list byte := replicate (N.to_nat n) 0.
Definition chunk (o:obj) (i:N) : list byte := default (zeros BS) (o_data o !! i).

(* bytes [off, off+cnt) of the object, cnt small enough to build a list (caller clamps to size) *)
Fixpoint read_chunks (o:obj) (fuel:nat) (ci:N) (skip:N) (cnt:N) : list byte :=
  match fuel with
  | O => []
  | S f => if cnt =? 0 then [] else
           let c := drop (N.to_nat skip) (chunk o ci) in
           let take_n := N.min cnt (BS - skip) in
           take (N.to_nat take_n) c ++ read_chunks o f (ci + 1) 0 (cnt - take_n)
  end.
Definition read_bytes (o:obj) (off cnt:N) : list byte :=
  read_chunks o (N.to_nat (cnt / BS) + 2) (off / BS) (off mod BS) cnt.

Definition splice (l:list byte) (off:N) (d:list byte) : list byte :=
  take (N.to_nat off) l ++ d ++ drop (N.to_nat off + length d) l.

Fixpoint write_chunks (m:gmap N (list byte)) (fuel:nat) (ci:N) (skip:N) (d:list byte) : gmap N (list byte) :=
  match fuel with
  | O => m
  | S f => match d with [] => m | _ =>
           let room := N.to_nat (BS - skip) in
           let now := take room d in
           let c := default (zeros BS) (m !! ci) in
           write_chunks (<[ci := splice c skip now]> m) f (ci + 1) 0 (drop room d) end
  end.
Definition write_bytes (o:obj) (off:N) (d:list byte) : gmap N (list byte) :=
  write_chunks (o_data o) (length d / 4096 + 2) (off / BS) (off mod BS) d.

(* truncate: drop whole chunks at or above the new end, zero the tail of the last one *)
Definition trunc_data (m:gmap N (list byte)) (sz:N) : gmap N (list byte) :=
  let last := sz / BS in
  let m1 := filter (fun p => fst p <? last + (if sz mod BS =? 0 then 0 else 1)) m in
  if sz mod BS =? 0 then m1 else
  match m1 !! last with
  | Some c => <[last := take (N.to_nat (sz mod BS)) c ++ zeros (BS - sz mod BS)]> m1
  | None => m1
  end.

(* ---------- calls and replies ---------- *)
Inductive settime := DontChange | ServerTime | ClientTime (t:N*N).
Inductive stable := Unstable | DataSync | FileSync | BadStable (n:N).

Inductive call :=
| CGetattr (h:handle)
| CSetattr (h:handle) (size:option N) (at_ mt:settime)
| CLookup (h:handle) (n:name)
| CAccess (h:handle)
| CReadlink (h:handle)
| CRead (h:handle) (off cnt:N)
| CWrite (h:handle) (off cnt:N) (st:stable) (d:list byte)
| CCreate (h:handle) (n:name) (exclusive:bool)
| CMkdir (h:handle) (n:name)
| CSymlink (h:handle) (n:name) (target:list byte)
| CRemove (h:handle) (n:name)
| CRmdir (h:handle) (n:name)
| CRename (h1:handle) (n1:name) (h2:handle) (n2:name)
| CCommit (h:handle) (off cnt:N)
| CUnsupported                                 (* MKNOD, LINK, FSSTAT *)
| CRestart.                                    (* clean restart: no observable change *)

Inductive status := OK | STALE | NOTSUPP | ERR.   (* failure classes *)
Record attrs := { a_kind : kind; a_size : option N; a_fileid : inum;
                  a_atime : option (N*N); a_mtime : option (N*N) }.
Inductive reply :=
| RStatus (s:status)
| RAttrs (a:attrs)
| RHandle (h:handle) (a:attrs)
| RData (d:list byte) (eof:option bool)          (* None = either value accepted *)
| RWritten (cnt:N) (committed:stable) (a:attrs)
| RLink (d:list byte).

Definition attrs_of (i:inum) (o:obj) : attrs :=
  {| a_kind := o_kind o; a_size := (if decide (o_kind o = KDir) then None else Some (o_size o));
     a_fileid := i; a_atime := o_atime o; a_mtime := o_mtime o |}.

(* ---------- handle resolution ---------- *)
Definition resolve (s:afs) (h:handle) : option (inum * obj) :=
  match parse_handle h with
  | Some (i, g) =>
      if (i <? ninode) then
        match objs s !! i with
        | Some o => if o_gen o =? g then Some (i, o) else None
        | None => None
        end
      else None
  | None => None
  end.

(* ---------- names ---------- *)
Definition dot : name := [46]. Definition dotdot : name := [46;46].
Definition wf_name (n:name) : bool :=
  negb (N.of_nat (length n) =? 0) && (N.of_nat (length n) <=? name_max) &&
  forallb (fun b => negb (b =? 47) && negb (b =? 0) && (b <? 256)) n &&
  negb (bool_decide (n = dot)) && negb (bool_decide (n = dotdot)).

Definition lookup_name (i:inum) (d:obj) (n:name) : option inum :=
  if bool_decide (n = dot) then Some i
  else if bool_decide (n = dotdot) then Some (o_parent d)
  else o_ents d !! n.

(* is `anc` an ancestor-or-self of directory i ? (walk up with fuel) *)
Fixpoint is_ancestor (s:afs) (fuel:nat) (anc i:inum) : bool :=
  if i =? anc then true else
  match fuel with O => false | S f =>
    match objs s !! i with
    | Some o => if o_parent o =? i then false else is_ancestor s f anc (o_parent o)
    | None => false end end.

(* ---------- the step function ---------- *)
Definition new_obj (k:kind) (g:N) (parent:inum) : obj :=
  {| o_kind := k; o_gen := g; o_size := 0; o_data := ∅; o_ents := ∅; o_parent := parent;
     o_atime := None; o_mtime := None |}.

Definition upd_time (cur:option (N*N)) (t:settime) : option (N*N) :=
  match t with DontChange => cur | ServerTime => None | ClientTime x => Some x end.

(* hint = the handle the implementation returned for a creating call *)
Definition create (s:afs) (h:handle) (n:name) (k:kind) (content:list byte) (hint:option handle) : afs * reply :=
  match resolve s h with
  | None => (s, RStatus STALE)
  | Some (di, d) =>
    if negb (bool_decide (o_kind d = KDir)) then (s, RStatus ERR) else
    if negb (wf_name n) then (s, RStatus ERR) else
    if bool_decide (is_Some (o_ents d !! n)) then (s, RStatus ERR) else
    if wtmax <=? N.of_nat (length content) then (s, RStatus ERR) else
    match hint with
    | None => (s, RStatus ERR)                      (* resource failure reported by the implementation: no effect *)
    | Some hh =>
      match parse_handle hh with
      | Some (i, g) =>
        (* the implementation's choice must be fresh: inode not live, handle never issued *)
        if bool_decide (is_Some (objs s !! i)) || bool_decide ((i,g) ∈ issued s) || (i <? 2) || negb (i <? ninode)
        then (s, RStatus ERR)   (* the driver reports this as a C08 violation *)
        else
          let o0 := new_obj k g di in
          let o := {| o_kind := k; o_gen := g; o_size := N.of_nat (length content);
                      o_data := write_bytes o0 0 content; o_ents := ∅; o_parent := di;
                      o_atime := None; o_mtime := None |} in
          let d' := {| o_kind := o_kind d; o_gen := o_gen d; o_size := o_size d; o_data := o_data d;
                       o_ents := <[n := i]> (o_ents d); o_parent := o_parent d;
                       o_atime := o_atime d; o_mtime := o_mtime d |} in
          ({| objs := <[i := o]> (<[di := d']> (objs s)); issued := {[ (i,g) ]} ∪ issued s;
              unstable_opt := unstable_opt s |},
           RHandle hh (attrs_of i o))
      | None => (s, RStatus ERR)
      end
    end
  end.
Definition with_ents (d:obj) (e:gmap name inum) : obj :=
  {| o_kind := o_kind d; o_gen := o_gen d; o_size := o_size d; o_data := o_data d;
     o_ents := e; o_parent := o_parent d; o_atime := o_atime d; o_mtime := o_mtime d |}.
Definition with_parent (d:obj) (p:inum) : obj :=
  {| o_kind := o_kind d; o_gen := o_gen d; o_size := o_size d; o_data := o_data d;
     o_ents := o_ents d; o_parent := p; o_atime := o_atime d; o_mtime := o_mtime d |}.
Definition with_content (o:obj) (sz:N) (m:gmap N (list byte)) : obj :=
  {| o_kind := o_kind o; o_gen := o_gen o; o_size := sz; o_data := m;
     o_ents := o_ents o; o_parent := o_parent o; o_atime := o_atime o; o_mtime := o_mtime o |}.
Definition with_times (o:obj) (a m:option (N*N)) : obj :=
  {| o_kind := o_kind o; o_gen := o_gen o; o_size := o_size o; o_data := o_data o;
     o_ents := o_ents o; o_parent := o_parent o; o_atime := a; o_mtime := m |}.

(* unlink object i named n in directory (di,d); the object disappears (no hard links) *)
Definition unlink (s:afs) (di:inum) (d:obj) (n:name) (i:inum) : afs :=
  del_obj (set_obj s di (with_ents d (delete n (o_ents d)))) i.

Definition remove (s:afs) (h:handle) (n:name) (want_dir:bool) : afs * reply :=
  if bool_decide (n = dot) || bool_decide (n = dotdot) then (s, RStatus ERR) else
  match resolve s h with
  | None => (s, RStatus STALE)
  | Some (di, d) =>
    match (if bool_decide (o_kind d = KDir) then o_ents d !! n else None) with
    | None => (s, RStatus ERR)
    | Some i =>
      match objs s !! i with
      | None => (s, RStatus ERR)               (* cannot happen under afs_inv *)
      | Some o =>
        if want_dir then
          if negb (bool_decide (o_kind o = KDir)) then (s, RStatus ERR)
          else if negb (bool_decide (o_ents o = ∅)) then (s, RStatus ERR)
          else (unlink s di d n i, RStatus OK)
        else
          if bool_decide (o_kind o = KDir) then (s, RStatus ERR)
          else (unlink s di d n i, RStatus OK)
      end
    end
  end.

Definition move (s:afs) (d1i:inum) (d1:obj) (n1:name) (d2i:inum) (d2:obj) (n2:name) (fi:inum) (fo:obj) : afs :=
  let d1' := with_ents d1 (delete n1 (o_ents d1)) in
  let s2 := set_obj s d1i d1' in
  let d2cur := default d2 (objs s2 !! d2i) in
  let s3 := set_obj s2 d2i (with_ents d2cur (<[n2 := fi]> (o_ents d2cur))) in
  set_obj s3 fi (with_parent fo d2i).

Definition rename (s:afs) (h1:handle) (n1:name) (h2:handle) (n2:name) : afs * reply :=
  if bool_decide (n1 = dot) || bool_decide (n1 = dotdot) then (s, RStatus ERR) else
  match resolve s h1, resolve s h2 with
  | None, _ | _, None => (s, RStatus STALE)
  | Some (d1i, d1), Some (d2i, d2) =>
    if negb (bool_decide (o_kind d1 = KDir)) || negb (bool_decide (o_kind d2 = KDir)) then (s, RStatus ERR) else
    match o_ents d1 !! n1 with
    | None => (s, RStatus ERR)
    | Some fi =>
      if negb (wf_name n2) then (s, RStatus ERR) else
      match objs s !! fi with
      | None => (s, RStatus ERR)
      | Some fo =>
        (* a directory may not be moved into its own subtree *)
        if bool_decide (o_kind fo = KDir) && is_ancestor s (N.to_nat ninode) fi d2i then (s, RStatus ERR) else
        match o_ents d2 !! n2 with
        | Some ti =>
          if (ti =? fi) then (s, RStatus OK) else           (* same object: no-op *)
          match objs s !! ti with
          | None => (s, RStatus ERR)
          | Some to =>
            if negb (bool_decide (o_kind to = o_kind fo)) then (s, RStatus ERR)
            else if bool_decide (o_kind to = KDir) && negb (bool_decide (o_ents to = ∅)) then (s, RStatus ERR)
            else (move (del_obj s ti) d1i d1 n1 d2i d2 n2 fi fo, RStatus OK)
          end
        | None => (move s d1i d1 n1 d2i d2 n2 fi fo, RStatus OK)
        end
      end
    end
  end.

Definition do_read (s:afs) (h:handle) (off cnt:N) : afs * reply :=
  match resolve s h with
  | None => (s, RStatus STALE)
  | Some (i, o) =>
    if negb (bool_decide (o_kind o = KFile)) then (s, RStatus ERR) else
    if o_size o <=? off then (s, RData [] (Some true))
    else let c := N.min cnt (o_size o - off) in
         (s, RData (read_bytes o off c) (if off + c <? o_size o then Some false else None))
  end.

Definition do_write (s:afs) (h:handle) (off cnt:N) (st:stable) (d:list byte) : afs * reply :=
  match resolve s h with
  | None => (s, RStatus STALE)
  | Some (i, o) =>
    if negb (bool_decide (o_kind o = KFile)) then (s, RStatus ERR) else
    if negb (cnt =? N.of_nat (length d)) then (s, RStatus ERR) else
    if wtmax <? cnt then (s, RStatus ERR) else
    if maxfilesize <? off + cnt then (s, RStatus ERR) else        (* unbounded N: no wrap *)
    match st with
    | BadStable _ => (s, RStatus ERR)
    | _ =>
      let o' := with_content o (N.max (o_size o) (off + cnt)) (write_bytes o off d) in
      let committed := if unstable_opt s then st else FileSync in
      (set_obj s i o', RWritten cnt committed (attrs_of i o'))
    end
  end.

Definition do_setattr (s:afs) (h:handle) (size:option N) (at_ mt:settime) : afs * reply :=
  match resolve s h with
  | None => (s, RStatus STALE)
  | Some (i, o) =>
    match size with
    | Some sz =>
      if negb (bool_decide (o_kind o = KFile)) then (s, RStatus ERR) else
      if maxfilesize <? sz then (s, RStatus ERR) else
      let m := if sz <? o_size o then trunc_data (o_data o) sz else o_data o in
      let o' := with_times (with_content o sz m) (upd_time (o_atime o) at_) (upd_time (o_mtime o) mt) in
      (set_obj s i o', RAttrs (attrs_of i o'))
    | None =>
      let o' := with_times o (upd_time (o_atime o) at_) (upd_time (o_mtime o) mt) in
      (set_obj s i o', RAttrs (attrs_of i o'))
    end
  end.

Definition step (s:afs) (c:call) (hint:option handle) : afs * reply :=
  match c with
  | CGetattr h => match resolve s h with Some (i,o) => (s, RAttrs (attrs_of i o)) | None => (s, RStatus STALE) end
  | CSetattr h sz a m => do_setattr s h sz a m
  | CLookup h n =>
      match resolve s h with
      | None => (s, RStatus STALE)
      | Some (di, d) =>
        if negb (bool_decide (o_kind d = KDir)) then (s, RStatus ERR) else
        match lookup_name di d n with
        | Some i => match objs s !! i with
                    | Some o => (s, RHandle (mk_handle i (o_gen o)) (attrs_of i o))
                    | None => (s, RStatus ERR) end
        | None => (s, RStatus ERR)
        end
      end
  | CAccess h => match resolve s h with Some _ => (s, RStatus OK) | None => (s, RStatus STALE) end
  | CReadlink h =>
      match resolve s h with
      | None => (s, RStatus STALE)
      | Some (i, o) => if bool_decide (o_kind o = KLnk) then (s, RLink (read_bytes o 0 (o_size o))) else (s, RStatus ERR)
      end
  | CRead h off cnt => do_read s h off cnt
  | CWrite h off cnt st d => do_write s h off cnt st d
  | CCreate h n excl => if excl then (s, RStatus NOTSUPP) else create s h n KFile [] hint
  | CMkdir h n => create s h n KDir [] hint
  | CSymlink h n t => create s h n KLnk t hint
  | CRemove h n => remove s h n false
  | CRmdir h n => remove s h n true
  | CRename h1 n1 h2 n2 => rename s h1 n1 h2 n2
  | CCommit h off cnt =>
      match resolve s h with
      | None => (s, RStatus STALE)
      | Some (i, o) => if negb (bool_decide (o_kind o = KFile)) then (s, RStatus ERR)
                       else if o_size o <? off + cnt then (s, RStatus ERR) else (s, RStatus OK)
      end
  | CUnsupported => (s, RStatus NOTSUPP)
  | CRestart => (s, RStatus OK)
  end.

Definition init_afs (unst:bool) : afs :=
  {| objs := {[ ROOT := new_obj KDir 1 ROOT ]}; issued := {[ (ROOT, 1) ]}; unstable_opt := unst |}.
End Params.

(* ---------- smoke tests by computation ---------- *)
Definition st0 := init_afs true.
Definition P := step 112 1082130432 2093056 32768.
Definition root_h := mk_handle 1 1.
Definition run1 :=
  let '(s1, r1) := P st0 (CMkdir root_h [100] ) (Some (mk_handle 2 1)) in
  let '(s2, r2) := P s1 (CCreate (mk_handle 2 1) [102] false) (Some (mk_handle 3 1)) in
  let '(s3, r3) := P s2 (CWrite (mk_handle 3 1) 4090 10 FileSync [1;2;3;4;5;6;7;8;9;10]) None in
  let '(s4, r4) := P s3 (CRead (mk_handle 3 1) 4088 100) None in
  let '(s5, r5) := P s4 (CSetattr (mk_handle 3 1) (Some 4093) DontChange DontChange) None in
  let '(s6, r6) := P s5 (CSetattr (mk_handle 3 1) (Some 4100) DontChange DontChange) None in
  let '(s7, r7) := P s6 (CRead (mk_handle 3 1) 4088 100) None in
  let '(s8, r8) := P s7 (CRename root_h [100] (mk_handle 2 1) [120]) None in
  let '(s9, r9) := P s8 (CRemove root_h [100]) None in
  let '(s10, r10) := P s9 (CRemove (mk_handle 2 1) [102]) None in
  let '(s11, r11) := P s10 (CGetattr (mk_handle 3 1)) None in
  (r4, r7, r8, r9, r10, r11).
Eval vm_compute in run1.
