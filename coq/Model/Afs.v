(* AM — the abstract file system: the "plain in-memory reference" that the
   sequential-semantics properties (C02 C08 C09 C10 C12 C13 C19) speak about.
   Executable, total, no proofs here (see Proofs/AfsInv.v). *)
From stdpp Require Import gmap list.
From Coq Require Import NArith ZArith Lia.
From V Require Import Model.Lib.
Open Scope N_scope.

Definition inum := N.
Definition ROOT : inum := 1.

Record params := {
  p_name_max : N;        (* PATHCONF name_max *)
  p_maxfilesize : N;     (* FSINFO maxfilesize *)
  p_wtmax : N;           (* FSINFO wtmax *)
  p_ninode : N           (* size of the inode table *)
}.

Inductive kind := KFile | KDir | KLnk.
Global Instance kind_eq_dec : EqDecision kind. Proof. solve_decision. Defined.

Record obj := {
  o_kind : kind;
  o_gen : N;
  o_size : N;                       (* files and symlinks *)
  o_data : gmap N bytes;            (* chunk index -> BS bytes; absent = zeros *)
  o_ents : gmap name inum;          (* directories: entries other than "." and ".." *)
  o_parent : inum;                  (* the directory naming this object (root: itself) *)
  o_atime : option (N * N);         (* Some = set by the client, hence comparable *)
  o_mtime : option (N * N)
}.

Record afs := {
  objs : gmap inum obj;
  issued : gset (N * N);            (* every (inum, gen) ever handed out *)
  unstable_opt : bool               (* server option: unstable writes honoured *)
}.

Definition set_obj (s : afs) (i : inum) (o : obj) : afs :=
  {| objs := <[i := o]> (objs s); issued := issued s; unstable_opt := unstable_opt s |}.
Definition del_obj (s : afs) (i : inum) : afs :=
  {| objs := delete i (objs s); issued := issued s; unstable_opt := unstable_opt s |}.

Definition with_ents (d : obj) (e : gmap name inum) : obj :=
  {| o_kind := o_kind d; o_gen := o_gen d; o_size := o_size d; o_data := o_data d;
     o_ents := e; o_parent := o_parent d; o_atime := o_atime d; o_mtime := o_mtime d |}.
Definition with_parent (d : obj) (p : inum) : obj :=
  {| o_kind := o_kind d; o_gen := o_gen d; o_size := o_size d; o_data := o_data d;
     o_ents := o_ents d; o_parent := p; o_atime := o_atime d; o_mtime := o_mtime d |}.
Definition with_content (o : obj) (sz : N) (m : gmap N bytes) : obj :=
  {| o_kind := o_kind o; o_gen := o_gen o; o_size := sz; o_data := m;
     o_ents := o_ents o; o_parent := o_parent o; o_atime := o_atime o; o_mtime := o_mtime o |}.
Definition with_times (o : obj) (a m : option (N * N)) : obj :=
  {| o_kind := o_kind o; o_gen := o_gen o; o_size := o_size o; o_data := o_data o;
     o_ents := o_ents o; o_parent := o_parent o; o_atime := a; o_mtime := m |}.

(* ---------- sparse contents ---------- *)
Definition chunk_of (m : gmap N bytes) (i : N) : bytes := default zero_block (m !! i).

Fixpoint read_chunks (m : gmap N bytes) (fuel : nat) (ci skip cnt : N) : bytes :=
  match fuel with
  | O => []
  | S f => if cnt =? 0 then [] else
           let take_n := N.min cnt (BS - skip) in
           takeN take_n (dropN skip (chunk_of m ci)) ++ read_chunks m f (ci + 1) 0 (cnt - take_n)
  end.
(* bytes [off, off+cnt); the caller clamps cnt to the size, so cnt is bounded by data present *)
Definition read_bytes (m : gmap N bytes) (off cnt : N) : bytes :=
  read_chunks m (N.to_nat (cnt / BS) + 2) (off / BS) (off mod BS) cnt.

Fixpoint write_chunks (m : gmap N bytes) (fuel : nat) (ci skip : N) (d : bytes) : gmap N bytes :=
  match fuel with
  | O => m
  | S f => match d with [] => m | _ =>
           let room := BS - skip in
           write_chunks (<[ci := splice (chunk_of m ci) skip (takeN room d)]> m) f (ci + 1) 0 (dropN room d) end
  end.
Definition write_bytes (m : gmap N bytes) (off : N) (d : bytes) : gmap N bytes :=
  write_chunks m (length d / 4096 + 2) (off / BS) (off mod BS) d.

(* truncate: drop chunks at or above the new end, zero the tail of the last one *)
Definition trunc_data (m : gmap N bytes) (sz : N) : gmap N bytes :=
  let last := sz / BS in
  if sz mod BS =? 0 then filter (fun p => fst p <? last) m
  else
    let m1 := filter (fun p => fst p <? last + 1) m in
    match m1 !! last with
    | Some c => <[last := takeN (sz mod BS) c ++ zeros (BS - sz mod BS)]> m1
    | None => m1
    end.

(* ---------- calls and replies ---------- *)
Inductive settime := DontChange | ServerTime | ClientTime (t : N * N).
Inductive stable := Unstable | DataSync | FileSync.

Inductive call :=
| CGetattr (h : handle)
| CSetattr (h : handle) (size : option N) (at_ mt : settime)
| CLookup (h : handle) (n : name)
| CAccess (h : handle)
| CReadlink (h : handle)
| CRead (h : handle) (off cnt : N)
| CWrite (h : handle) (off cnt : N) (st : stable) (d : bytes)
| CCreate (h : handle) (n : name) (exclusive : bool)
| CMkdir (h : handle) (n : name)
| CSymlink (h : handle) (n : name) (target : bytes)
| CRemove (h : handle) (n : name)
| CRmdir (h : handle) (n : name)
| CRename (h1 : handle) (n1 : name) (h2 : handle) (n2 : name)
| CReaddir (h : handle) (cookie : N)              (* both READDIR and READDIRPLUS *)
| CCommit (h : handle) (off cnt : N)
| CFsinfo (h : handle)
| CPathconf (h : handle)
| CUnsupported                                    (* MKNOD, LINK, FSSTAT *)
| CNull
| CRestart.                                       (* clean restart: no observable change *)

Inductive status := OK | STALE | NOTSUPP | ERR.   (* failure classes *)
Global Instance status_eq_dec : EqDecision status. Proof. solve_decision. Defined.

Record attrs := { a_kind : kind; a_size : option N; a_fileid : inum;
                  a_atime : option (N * N); a_mtime : option (N * N) }.
Inductive reply :=
| RStatus (s : status)
| RAttrs (a : attrs)
| RHandle (h : handle) (a : attrs)
| RData (d : bytes) (eof : option bool)           (* None = either value accepted *)
| RWritten (cnt : N) (committed : stable) (a : attrs)
| RLink (d : bytes)
| RDir (di : inum) (cookie : N)                   (* checked relationally, see Agree.v *)
| RFsinfo (wtmax maxfilesize : N)
| RPathconf (name_max : N).

Definition attrs_of (i : inum) (o : obj) : attrs :=
  {| a_kind := o_kind o; a_size := (if decide (o_kind o = KDir) then None else Some (o_size o));
     a_fileid := i; a_atime := o_atime o; a_mtime := o_mtime o |}.

(* what the implementation did about resources for a creating call *)
(* HShort n: the implementation wrote only the first n bytes (a short write, which NFS allows
   when space runs out; believed only when space really is short, see Agree.nospace_plausible) *)
Inductive hint := HNone | HHandle (h : handle) | HNoSpace | HShort (n : N).

Section WithParams.
Variable P : params.

Definition resolve (s : afs) (h : handle) : option (inum * obj) :=
  match parse_handle h with
  | Some (i, g) =>
      if i <? p_ninode P then
        match objs s !! i with
        | Some o => if o_gen o =? g then Some (i, o) else None
        | None => None
        end
      else None
  | None => None
  end.

Definition is_dir (o : obj) : bool := bool_decide (o_kind o = KDir).

Definition wf_name (n : name) : bool :=
  negb (lenN n =? 0) && (lenN n <=? p_name_max P) &&
  forallb (fun b => negb (bool_decide (b = b_slash)) && negb (bool_decide (b = x00))) n &&
  negb (bool_decide (n = dot)) && negb (bool_decide (n = dotdot)).

Definition is_dots (n : name) : bool := bool_decide (n = dot) || bool_decide (n = dotdot).

Definition lookup_name (i : inum) (d : obj) (n : name) : option inum :=
  if bool_decide (n = dot) then Some i
  else if bool_decide (n = dotdot) then Some (o_parent d)
  else o_ents d !! n.

(* is [anc] an ancestor-or-self of directory i ?  fuel bounds the depth *)
Fixpoint is_ancestor (s : afs) (fuel : nat) (anc i : inum) : bool :=
  if i =? anc then true else
  match fuel with O => false | S f =>
    match objs s !! i with
    | Some o => if o_parent o =? i then false else is_ancestor s f anc (o_parent o)
    | None => false end end.

Definition new_obj (k : kind) (g : N) (parent : inum) : obj :=
  {| o_kind := k; o_gen := g; o_size := 0; o_data := ∅; o_ents := ∅; o_parent := parent;
     o_atime := None; o_mtime := None |}.

Definition upd_time (cur : option (N * N)) (t : settime) : option (N * N) :=
  match t with DontChange => cur | ServerTime => None | ClientTime x => Some x end.

(* fresh: not live, never issued, inside the table, not reserved *)
Definition fresh (s : afs) (i g : N) : bool :=
  negb (bool_decide (is_Some (objs s !! i))) && negb (bool_decide ((i, g) ∈ issued s)) &&
  (2 <=? i) && (i <? p_ninode P) && (1 <=? g).

Definition create (s : afs) (h : handle) (n : name) (k : kind) (content : bytes) (hi : hint) : afs * reply :=
  match resolve s h with
  | None => (s, RStatus STALE)
  | Some (di, d) =>
    if negb (is_dir d) then (s, RStatus ERR) else
    if negb (wf_name n) then (s, RStatus ERR) else
    if bool_decide (is_Some (o_ents d !! n)) then (s, RStatus ERR) else
    (* a link target larger than the largest WRITE is refused (it need not fit one journal transaction) *)
    if p_wtmax P <? lenN content then (s, RStatus ERR) else
    match hi with
    | HNoSpace => (s, RStatus ERR)                    (* resource failure: no effect (plausibility: Agree.need) *)
    | HNone | HShort _ => (s, RStatus OK)             (* the call must succeed: no error reply can agree *)
    | HHandle hh =>
      match parse_handle hh with
      | Some (i, g) =>
        if negb (fresh s i g) then (s, RStatus ERR)   (* reported as a C08 violation by the driver *)
        else
          let o := with_content (new_obj k g di) (lenN content) (write_bytes ∅ 0 content) in
          ({| objs := <[i := o]> (<[di := with_ents d (<[n := i]> (o_ents d))]> (objs s));
              issued := gs_add (i, g) (issued s); unstable_opt := unstable_opt s |},
           RHandle hh (attrs_of i o))
      | None => (s, RStatus ERR)
      end
    end
  end.

Definition unlink (s : afs) (di : inum) (d : obj) (n : name) (i : inum) : afs :=
  del_obj (set_obj s di (with_ents d (delete n (o_ents d)))) i.

Definition remove (s : afs) (h : handle) (n : name) (want_dir : bool) : afs * reply :=
  if is_dots n then (s, RStatus ERR) else
  match resolve s h with
  | None => (s, RStatus STALE)
  | Some (di, d) =>
    match (if is_dir d then o_ents d !! n else None) with
    | None => (s, RStatus ERR)
    | Some i =>
      match objs s !! i with
      | None => (s, RStatus ERR)               (* excluded by afs_inv *)
      | Some o =>
        if want_dir then
          if negb (is_dir o) then (s, RStatus ERR)
          else if negb (bool_decide (o_ents o = ∅)) then (s, RStatus ERR)
          else (unlink s di d n i, RStatus OK)
        else
          if is_dir o then (s, RStatus ERR)
          else (unlink s di d n i, RStatus OK)
      end
    end
  end.

Definition move (s : afs) (d1i : inum) (n1 : name) (d2i : inum) (n2 : name) (fi : inum) : afs :=
  let s2 := match objs s !! d1i with
            | Some d1 => set_obj s d1i (with_ents d1 (delete n1 (o_ents d1))) | None => s end in
  let s3 := match objs s2 !! d2i with
            | Some d2 => set_obj s2 d2i (with_ents d2 (<[n2 := fi]> (o_ents d2))) | None => s2 end in
  match objs s3 !! fi with
  | Some fo => set_obj s3 fi (with_parent fo d2i) | None => s3 end.

Definition rename (s : afs) (h1 : handle) (n1 : name) (h2 : handle) (n2 : name) : afs * reply :=
  if is_dots n1 then (s, RStatus ERR) else
  match resolve s h1, resolve s h2 with
  | None, _ | _, None => (s, RStatus STALE)
  | Some (d1i, d1), Some (d2i, d2) =>
    if negb (is_dir d1) || negb (is_dir d2) then (s, RStatus ERR) else
    match o_ents d1 !! n1 with
    | None => (s, RStatus ERR)
    | Some fi =>
      if negb (wf_name n2) then (s, RStatus ERR) else
      match objs s !! fi with
      | None => (s, RStatus ERR)
      | Some fo =>
        (* a directory may not be moved into its own subtree *)
        if is_dir fo && is_ancestor s (N.to_nat (p_ninode P)) fi d2i then (s, RStatus ERR) else
        match o_ents d2 !! n2 with
        | Some ti =>
          if ti =? fi then (s, RStatus OK) else           (* same object: no-op *)
          match objs s !! ti with
          | None => (s, RStatus ERR)
          | Some to =>
            if negb (bool_decide (o_kind to = o_kind fo)) then (s, RStatus ERR)
            else if is_dir to && negb (bool_decide (o_ents to = ∅)) then (s, RStatus ERR)
            else (move (del_obj s ti) d1i n1 d2i n2 fi, RStatus OK)
          end
        | None => (move s d1i n1 d2i n2 fi, RStatus OK)
        end
      end
    end
  end.

Definition do_read (s : afs) (h : handle) (off cnt : N) : afs * reply :=
  match resolve s h with
  | None => (s, RStatus STALE)
  | Some (i, o) =>
    if negb (bool_decide (o_kind o = KFile)) then (s, RStatus ERR) else
    if o_size o <=? off then (s, RData [] (Some true))
    else let c := N.min cnt (o_size o - off) in
         (s, RData (read_bytes (o_data o) off c) (if off + c <? o_size o then Some false else None))
  end.

Definition do_write (s : afs) (h : handle) (off cnt : N) (st : stable) (d : bytes) (hi : hint) : afs * reply :=
  match resolve s h with
  | None => (s, RStatus STALE)
  | Some (i, o) =>
    if negb (bool_decide (o_kind o = KFile)) then (s, RStatus ERR) else
    if negb (cnt =? lenN d) then (s, RStatus ERR) else
    if p_wtmax P <? cnt then (s, RStatus ERR) else
    if p_maxfilesize P <? off + cnt then (s, RStatus ERR) else        (* unbounded N: no wrap *)
    match hi with
    | HNoSpace => (s, RStatus ERR)
    | _ =>
      let n := match hi with HShort k => N.min k cnt | _ => cnt end in
      (* a zero-length write changes nothing (in particular it does not extend the file) *)
      let o' := if n =? 0 then o else
                with_content o (N.max (o_size o) (off + n)) (write_bytes (o_data o) off (takeN n d)) in
      let committed := if unstable_opt s then st else FileSync in
      (set_obj s i o', RWritten n committed (attrs_of i o'))
    end
  end.

Definition do_setattr (s : afs) (h : handle) (size : option N) (at_ mt : settime) (hi : hint) : afs * reply :=
  match resolve s h with
  | None => (s, RStatus STALE)
  | Some (i, o) =>
    match size with
    | Some sz =>
      if negb (bool_decide (o_kind o = KFile)) then (s, RStatus ERR) else
      if p_maxfilesize P <? sz then (s, RStatus ERR) else
      match hi with
      | HNoSpace => (s, RStatus ERR)
      | _ =>
        let m := if sz <? o_size o then trunc_data (o_data o) sz else o_data o in
        let o' := with_times (with_content o sz m) (upd_time (o_atime o) at_) (upd_time (o_mtime o) mt) in
        (set_obj s i o', RAttrs (attrs_of i o'))
      end
    | None =>
      let o' := with_times o (upd_time (o_atime o) at_) (upd_time (o_mtime o) mt) in
      (set_obj s i o', RAttrs (attrs_of i o'))
    end
  end.

Definition step (s : afs) (c : call) (hi : hint) : afs * reply :=
  match c with
  | CGetattr h => match resolve s h with Some (i, o) => (s, RAttrs (attrs_of i o)) | None => (s, RStatus STALE) end
  | CSetattr h sz a m => do_setattr s h sz a m hi
  | CLookup h n =>
      match resolve s h with
      | None => (s, RStatus STALE)
      | Some (di, d) =>
        if negb (is_dir d) then (s, RStatus ERR) else
        match lookup_name di d n with
        | Some i => match objs s !! i with
                    | Some o => (s, RHandle (mk_handle i (o_gen o)) (attrs_of i o))
                    | None => (s, RStatus ERR) end
        | None => (s, RStatus ERR)
        end
      end
  | CAccess h => match resolve s h with Some _ => (s, RStatus OK) | None => (s, RStatus STALE) end
  | CReadlink h =>
      match resolve s h with
      | None => (s, RStatus STALE)
      | Some (i, o) => if bool_decide (o_kind o = KLnk) then (s, RLink (read_bytes (o_data o) 0 (o_size o)))
                       else (s, RStatus ERR)
      end
  | CRead h off cnt => do_read s h off cnt
  | CWrite h off cnt st d => do_write s h off cnt st d hi
  | CCreate h n excl => if excl then (s, RStatus NOTSUPP) else create s h n KFile [] hi
  | CMkdir h n => create s h n KDir [] hi
  | CSymlink h n t => create s h n KLnk t hi
  | CRemove h n => remove s h n false
  | CRmdir h n => remove s h n true
  | CRename h1 n1 h2 n2 => rename s h1 n1 h2 n2
  | CReaddir h cookie =>
      match resolve s h with
      | None => (s, RStatus STALE)
      | Some (i, o) => if is_dir o then (s, RDir i cookie) else (s, RStatus ERR)
      end
  | CCommit h off cnt =>
      match resolve s h with
      | None => (s, RStatus STALE)
      | Some (i, o) => if negb (bool_decide (o_kind o = KFile)) then (s, RStatus ERR)
                       else if o_size o <? off + cnt then (s, RStatus ERR) else (s, RStatus OK)
      end
  | CFsinfo h => match resolve s h with Some _ => (s, RFsinfo (p_wtmax P) (p_maxfilesize P)) | None => (s, RStatus STALE) end
  | CPathconf h => match resolve s h with Some _ => (s, RPathconf (p_name_max P)) | None => (s, RStatus STALE) end
  | CUnsupported => (s, RStatus NOTSUPP)
  | CNull => (s, RStatus OK)
  | CRestart => (s, RStatus OK)
  end.

Definition run (s : afs) (cs : list (call * hint)) : afs :=
  fold_left (fun s ch => fst (step s (fst ch) (snd ch))) cs s.

End WithParams.

Definition set_unstable (s : afs) (b : bool) : afs :=
  {| objs := objs s; issued := issued s; unstable_opt := b |}.

Definition init_afs (unst : bool) : afs :=
  {| objs := {[ ROOT := new_obj KDir 1 ROOT ]}; issued := {[ (ROOT, 1) ]}; unstable_opt := unst |}.
