(* Executable model of mkfs on top of the generated layout (Gen/GenSuper.v):
   the acceptance test of markAlloc and the bitmap it writes.  No proofs here. *)
From Coq Require Import NArith Bool List.
From V Require Import Gen.GenSuper.
Import ListNotations.
Open Scope N_scope.
Definition NBITBLOCK := 32768.
Definition LOGSIZE := 513.
Definition INODEBLK := 32.
Definition INODESZ := 128.
Definition NINODEBITMAP := 1.
(* markAlloc's sanity test (guard) *)
Definition markAlloc_sane fs : bool :=
  negb ((NBITBLOCK <=? DataStart fs) || (w64 (NBITBLOCK * NBlockBitmap fs) <=? MaxBnum fs) || (MaxBnum fs <? DataStart fs)).

Definition accepted (sz:N) : Prop := sz < W /\ markAlloc_sane (MkFsSuper sz) = true.

(* ---- hand model of markAlloc at bit level: which bits are set in the block bitmap ---- *)
(* bit b of the whole block-bitmap region (b < NBlockBitmap*NBITBLOCK) *)
Definition mk_bit (fs:FsSuper) (b:N) : bool :=
  let n := DataStart fs in let m := MaxBnum fs in
  let last := m / NBITBLOCK in                    (* index of bitmap block written second *)
  let blk := b / NBITBLOCK in let off := b mod NBITBLOCK in
  if last =? 0 then
    (* both loops hit the same block 0 *)
    (blk =? 0) && ((off <? n) || (m mod NBITBLOCK <=? off))
  else
    ((blk =? 0) && (off <? n)) || ((blk =? last) && (m mod NBITBLOCK <=? off)).



(* inode bitmap written by markAlloc: exactly inodes 0 and 1 *)
Definition mk_ibit (i:N) : bool := i <? 2.

(* number of free data blocks / inodes of a fresh file system (root directory not yet created) *)
Definition fresh_free_blocks (fs:FsSuper) : N := MaxBnum fs - DataStart fs.
Definition fresh_free_inodes (fs:FsSuper) : N := NInode fs - 2.

(* boolean twins used to search for a failing size when a proof breaks *)
Definition layout_ok_b (sz:N) : bool :=
  let fs := MkFsSuper sz in
  negb (markAlloc_sane fs) ||
  ((BitmapBlockStart fs =? LOGSIZE) && (BitmapInodeStart fs =? BitmapBlockStart fs + NBlockBitmap fs) &&
   (InodeStart fs =? BitmapInodeStart fs + 1) && (DataStart fs =? InodeStart fs + 1024) &&
   (DataStart fs <=? sz) && (NInode fs =? 32768) && (sz <? NBlockBitmap fs * NBITBLOCK) &&
   ((NBlockBitmap fs - 1) * NBITBLOCK <=? sz)).
Definition bitmap_ok_b (sz b:N) : bool :=
  let fs := MkFsSuper sz in
  negb (markAlloc_sane fs) || negb (b <? NBlockBitmap fs * NBITBLOCK) ||
  Bool.eqb (mk_bit fs b) ((b <? DataStart fs) || (sz <=? b)).
