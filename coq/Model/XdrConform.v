(* Conformance of the repository's codec descriptors (Gen/GenXdr.v) with the RFC's (Gen/GenRfc.v):
   equality of descriptors up to the capitalisation of identifiers, decided by computation on the two
   closed environments; and conformance of the registration tables with the RFC's program definitions. *)
From Coq Require Import List NArith Bool String Ascii.
From V Require Import Model.Lib Model.Xdr.
Import ListNotations.
Open Scope N_scope.

Definition lower_ascii (c : ascii) : ascii :=
  let n := N_of_ascii c in if (65 <=? n) && (n <=? 90) then ascii_of_N (n + 32) else c.
Fixpoint lower (s : string) : string :=
  match s with EmptyString => EmptyString | String c r => String (lower_ascii c) (lower r) end.
Definition name_eqb (a b : string) : bool := String.eqb (lower a) (lower b).

Definition opt_eqb {A} (e : A -> A -> bool) (a b : option A) : bool :=
  match a, b with Some x, Some y => e x y | None, None => true | _, _ => false end.
Fixpoint list_eqb {A} (e : A -> A -> bool) (a b : list A) : bool :=
  match a, b with [] , [] => true | x :: a', y :: b' => e x y && list_eqb e a' b' | _, _ => false end.

(* structural equality up to capitalisation; fuel bounds the nesting depth of a single descriptor *)
Fixpoint ty_eqb (f : nat) (a b : ty) {struct f} : bool :=
  match f with O => false | S f' =>
  match a, b with
  | TU32, TU32 | TU64, TU64 | TBool, TBool | TArr32, TArr32 => true
  | TFixed n, TFixed m => n =? m
  | TVar x, TVar y => opt_eqb N.eqb x y
  | TOpt x, TOpt y => ty_eqb f' x y
  | TRef x, TRef y => name_eqb x y
  | TSeq x, TSeq y => list_eqb (item_eqb f') x y
  (* a struct with a single field has the wire layout of that field (rpcgen wraps `typedef T *name`
     into a one-field struct) *)
  | TSeq [IField _ t], (TOpt _ as u) | (TOpt _ as u), TSeq [IField _ t] => ty_eqb f' t u
  | _, _ => false
  end end
with item_eqb (f : nat) (a b : item) {struct f} : bool :=
  match f with O => false | S f' =>
  match a, b with
  | IField n t, IField m u => name_eqb n m && ty_eqb f' t u
  | ISwitch o arms d, ISwitch o' arms' d' =>
      name_eqb o o' &&
      list_eqb (fun x y => (fst x =? fst y) && list_eqb (item_eqb f') (snd x) (snd y)) arms arms' &&
      opt_eqb (list_eqb (item_eqb f')) d d'
  | _, _ => false
  end end.

Fixpoint lookup_ci (e : env) (nm : string) : option ty :=
  match e with [] => None | (n, t) :: r => if name_eqb n nm then Some t else lookup_ci r nm end.

(* names of RFC types whose descriptor in the repository's codec is missing or different *)
Definition nonconforming (gen rfc : env) : list string :=
  flat_map (fun p => match lookup_ci gen (fst p) with
                     | Some t => if ty_eqb 64 t (snd p) then [] else [fst p]
                     | None => [fst p] end) rfc.

(* registration tables: every RFC procedure is registered exactly once, with a wrapper that decodes the
   RFC's argument type, calls the handler method of that name and encodes the RFC's result type; nothing
   else is registered *)
Definition proc_ok (g : N * N * N * string * string * string * string) (r : N * N * N * string * string * string) : bool :=
  let '(gp, gv, gn, gw, ga, gh, gr) := g in
  let '(rp, rv, rn, rname, ra, rr) := r in
  (gp =? rp) && (gv =? rv) && (gn =? rn) && String.eqb gw rname && String.eqb gh rname && name_eqb ga ra && name_eqb gr rr.
Definition same_slot (g : N * N * N * string * string * string * string) (r : N * N * N * string * string * string) : bool :=
  let '(gp, gv, gn, _, _, _, _) := g in let '(rp, rv, rn, _, _, _) := r in (gp =? rp) && (gv =? rv) && (gn =? rn).
Definition procs_conform (gen : list (N * N * N * string * string * string * string))
                         (rfc : list (N * N * N * string * string * string)) : bool :=
  forallb (fun r => match filter (fun g => same_slot g r) gen with [g] => proc_ok g r | _ => false end) rfc &&
  forallb (fun g => existsb (fun r => same_slot g r) rfc) gen.

Definition registered_ok (regs : list (string * string)) : bool :=
  forallb (fun cmd => forallb (fun tbl => existsb (fun p => String.eqb (fst p) cmd && String.eqb (snd p) tbl) regs)
                              ["NFS_PROGRAM_NFS_V3_regs"; "MOUNT_PROGRAM_MOUNT_V3_regs"]%string)
          ["go-nfsd"; "simple-nfsd"]%string.
