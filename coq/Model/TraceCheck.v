(* Decidable discipline predicates evaluated on the lock/commit event trace of each transaction of the
   real server (R-trace).  They are the hypotheses of the LM theorems (Proofs/Locks.v, TwoPL.v, Drf.v)
   in executable form. *)
From Coq Require Import List NArith Bool.
Import ListNotations.
Open Scope N_scope.

Inductive tev :=
| TAcq (i : N)          (* inode lock acquired *)
| TRel (i : N)          (* about to release *)
| TCommit (wait : bool) (* journal commit starts *)
| TCommitted (ok : bool)
| TAbort
| TFlush | TFlushed (ok : bool)
| TFresh (i : N).       (* inode number just allocated by this transaction: nobody else can hold its lock
                           while holding another one (see DESIGN, C06) *)

Fixpoint remove1 (i : N) (l : list N) : list N :=
  match l with [] => [] | x :: r => if x =? i then r else x :: remove1 i r end.

(* ascending: a lock is only requested while every lock still held is smaller (in particular never
   one that is already held) *)
Fixpoint asc_f (fresh held : list N) (evs : list tev) : bool :=
  match evs with
  | [] => true
  | TFresh i :: r => asc_f (i :: fresh) held r
  | TAcq i :: r =>
      (if existsb (N.eqb i) fresh
       then negb (existsb (N.eqb i) held)            (* a fresh number: only "not already held" *)
       else forallb (fun h => h <? i) (filter (fun h => negb (existsb (N.eqb h) fresh)) held))
      && asc_f fresh (i :: held) r
  | TRel i :: r => asc_f fresh (remove1 i held) r
  | _ :: r => asc_f fresh held r
  end.
(* without fresh allocations *)
Fixpoint asc_b (held : list N) (evs : list tev) : bool :=
  match evs with
  | [] => true
  | TAcq i :: r => forallb (fun h => h <? i) held && asc_b (i :: held) r
  | TRel i :: r => asc_b (remove1 i held) r
  | _ :: r => asc_b held r
  end.

(* two-phase around the commit: nothing is released between the start and the end of the journal
   commit, and nothing is acquired after it *)
Fixpoint commit_phase_b (st : N) (evs : list tev) : bool :=   (* st: 0 before, 1 during, 2 after, 3 after a commit the journal refused *)
  match evs with
  | [] => true
  | (TCommit _ | TFlush) :: r => (st =? 0) && commit_phase_b 1 r
  | TCommitted ok :: r => (st =? 1) && commit_phase_b (if ok then 2 else 3) r
  | TFlushed _ :: r => (st =? 1) && commit_phase_b 2 r
  | TRel _ :: r => negb (st =? 1) && commit_phase_b st r
  | TAcq _ :: r => (st =? 0) && commit_phase_b st r
  (* a transaction is given up before its commit, or after the journal refused the commit (nothing was written) *)
  | TAbort :: r => ((st =? 0) || (st =? 3)) && commit_phase_b st r
  | TFresh _ :: r => commit_phase_b st r
  end.

(* everything acquired is released again by the end of the transaction *)
Fixpoint balanced_b (held : list N) (evs : list tev) : bool :=
  match evs with
  | [] => match held with [] => true | _ => false end
  | TAcq i :: r => balanced_b (i :: held) r
  | TRel i :: r => existsb (N.eqb i) held && balanced_b (remove1 i held) r
  | _ :: r => balanced_b held r
  end.

Definition waits (evs : list tev) : list bool :=
  flat_map (fun e => match e with TCommit w => [w] | _ => [] end) evs.
Definition committed (evs : list tev) : bool :=
  existsb (fun e => match e with TCommitted true | TFlushed true => true | _ => false end) evs.

(* the acquisition sequence of a transaction without early release, as Proofs/Locks.v takes it *)
Definition acquisitions (evs : list tev) : list N :=
  flat_map (fun e => match e with TAcq i => [i] | _ => [] end) evs.
