(* Linearizability of a concurrent history against the reference AM, as a checkable certificate:
   a sequential order of the operations (a list of indices) that is a permutation, respects real time
   (an operation that had returned before another was invoked comes first), replays on the reference
   with every observed reply agreeing, and ends in a state accepted by [final] (the abstraction of the
   implementation's final disk).  The search for the order is untrusted (OCaml); what is reported as
   "linearizable" has passed [lin_check]. *)
From stdpp Require Import gmap list.
From Coq Require Import NArith Lia.
From V Require Import Model.Lib Model.Afs Model.Agree.

Record hop := { h_inv : N; h_ret : N; h_call : call; h_rep : oreply }.

Section Lin.
Variable P : params.

Fixpoint replay (ops : list hop) (s : afs) (order : list nat) : option afs :=
  match order with
  | [] => Some s
  | i :: r =>
    match ops !! i with
    | None => None
    | Some o =>
      let sr := step P s (h_call o) (hint_of (h_call o) (h_rep o)) in
      if agree (fst sr) (snd sr) (h_rep o) then replay ops (fst sr) r else None
    end
  end.

(* nobody placed later had already returned when this one was invoked *)
Fixpoint rt_ok (ops : list hop) (order : list nat) : bool :=
  match order with
  | [] => true
  | i :: r =>
    forallb (fun j => match ops !! i, ops !! j with
                      | Some oi, Some oj => negb (h_ret oj <? h_inv oi)%N
                      | _, _ => false
                      end) r && rt_ok ops r
  end.

Fixpoint nodupb (l : list nat) : bool :=
  match l with [] => true | x :: r => negb (existsb (Nat.eqb x) r) && nodupb r end.

Definition is_perm (n : nat) (order : list nat) : bool :=
  (length order =? n)%nat && forallb (fun i => (i <? n)%nat) order && nodupb order.

Definition lin_check (ops : list hop) (s0 : afs) (final : afs -> bool) (order : list nat) : bool :=
  is_perm (length ops) order && rt_ok ops order &&
  match replay ops s0 order with Some s => final s | None => false end.
End Lin.
