(* AT — allocation inside transactions (alloctxn/alloctxn.go over go-journal's alloc.Alloc), for one allocator
   (the block allocator and the inode allocator are two instances).
     mem   numbers marked in the in-memory allocator (alloc.Alloc.bitmap)
     disk  numbers whose bit is set in the committed on-disk bitmap
     txns  per running transaction: the numbers it allocated (allocBnums) and freed (freeBnums), in order
   AllocNum marks a free number in memory at once; FreeBlock only records the number; PreCommit writes the bits of the
   allocated numbers and THEN clears the bits of the freed ones (in that order: a number allocated and given back
   by the same transaction ends up clear); PostCommit releases the freed numbers in memory; PostAbort releases the
   allocated ones.  Which free number AllocNum picks is not modelled: any number not marked is possible.
   The guards of `free` are what the layers above guarantee (Proofs/Tree.v: a block has one owner; an owner is locked
   by one transaction): the number is in use, and nobody has recorded it as freed already. *)
From stdpp Require Import gmap.
From Coq Require Import NArith List.
Import ListNotations.

Record atxn := { t_al : list N; t_fr : list N }.
Record astate := { a_mem : gset N; a_disk : gset N; a_txns : gmap nat atxn }.

Inductive aop :=
| ABegin (t : nat)
| AAlloc (t : nat) (n : N)
| AFree (t : nat) (n : N)
| ACommit (t : nat)
| AAbort (t : nat).

(* WriteBits, one bit after the other *)
Definition set_bits (d : gset N) (l : list N) : gset N := fold_left (fun d n => d ∪ {[n]}) l d.
Definition clear_bits (d : gset N) (l : list N) : gset N := fold_left (fun d n => d ∖ {[n]}) l d.
(* PreCommit: allocated first, then freed *)
Definition pre_commit (d : gset N) (tx : atxn) : gset N := clear_bits (set_bits d (t_al tx)) (t_fr tx).
(* PostCommit / PostAbort: FreeNum on every recorded number *)
Definition release (m : gset N) (l : list N) : gset N := fold_left (fun m n => m ∖ {[n]}) l m.

Definition nobody_freed (T : gmap nat atxn) (n : N) : Prop := map_Forall (fun _ tx => n ∉ t_fr tx) T.
Global Instance nobody_freed_dec T n : Decision (nobody_freed T n).
Proof. unfold nobody_freed. apply map_Forall_dec. intros ? ?. apply _. Defined.

Definition astep (s : astate) (o : aop) : option astate :=
  match o with
  | ABegin t =>
      match a_txns s !! t with
      | None => Some {| a_mem := a_mem s; a_disk := a_disk s; a_txns := <[t := {| t_al := []; t_fr := [] |}]> (a_txns s) |}
      | Some _ => None end
  | AAlloc t n =>
      match a_txns s !! t with
      | Some tx =>
          if bool_decide (n ∉ a_mem s) && negb (N.eqb n 0) then
            Some {| a_mem := a_mem s ∪ {[n]}; a_disk := a_disk s;
                    a_txns := <[t := {| t_al := t_al tx ++ [n]; t_fr := t_fr tx |}]> (a_txns s) |}
          else None
      | None => None end
  | AFree t n =>
      match a_txns s !! t with
      | Some tx =>
          if bool_decide (n ∈ a_disk s \/ n ∈ t_al tx) && bool_decide (nobody_freed (a_txns s) n) then
            Some {| a_mem := a_mem s; a_disk := a_disk s;
                    a_txns := <[t := {| t_al := t_al tx; t_fr := t_fr tx ++ [n] |}]> (a_txns s) |}
          else None
      | None => None end
  | ACommit t =>
      match a_txns s !! t with
      | Some tx => Some {| a_mem := release (a_mem s) (t_fr tx); a_disk := pre_commit (a_disk s) tx;
                           a_txns := delete t (a_txns s) |}
      | None => None end
  | AAbort t =>
      match a_txns s !! t with
      | Some tx => Some {| a_mem := release (a_mem s) (t_al tx); a_disk := a_disk s; a_txns := delete t (a_txns s) |}
      | None => None end
  end.

(* operations whose guard fails are skipped *)
Definition astep' (s : astate) (o : aop) : astate := match astep s o with Some s' => s' | None => s end.
Definition aruns (s : astate) (os : list aop) : astate := fold_left astep' os s.
(* a server just started from a disk whose bitmap marks `d` *)
Definition a_init (d : gset N) : astate := {| a_mem := d; a_disk := d; a_txns := ∅ |}.

(* ---- for the correspondence run (harness `atmodel`) ---- *)
Definition a_init_list (l : list N) : astate := a_init (list_to_set l).
Definition a_disk_list (s : astate) : list N := elements (a_disk s).
Definition a_mem_size (s : astate) : nat := size (a_mem s).
