(* Correspondence relations R-reply and R-abs as executable boolean checks:
   observed replies of the implementation against AM replies, and the
   abstraction of the implementation's disk against the AM state. *)
From stdpp Require Import gmap list.
From Coq Require Import NArith ZArith Lia.
From V Require Import Gen.GenConsts Model.Lib Model.Afs Model.Abs Model.Layout.
Open Scope N_scope.

Record oattrs := { oa_ftype : N; oa_size : N; oa_fileid : N; oa_atime : N * N; oa_mtime : N * N;
                   oa_nlink : N }.
Record odirent := { de_fileid : N; de_name : name; de_cookie : N; de_plus : option (handle * oattrs) }.

Inductive oreply :=
| OStatus (code : N)
| OAttrs (code : N) (a : oattrs)
| OHandle (code : N) (h : handle) (a : oattrs)
| OData (code : N) (d : bytes) (eof : bool)
| OWritten (code : N) (cnt committed : N) (a : oattrs)
| OLink (code : N) (d : bytes)
| ODir (code : N) (ents : list odirent) (eof : bool)
| OFsinfo (code : N) (wtmax maxfilesize : N)
| OPathconf (code : N) (name_max : N).

Definition code_of (o : oreply) : N :=
  match o with
  | OStatus c | OAttrs c _ | OHandle c _ _ | OData c _ _ | OWritten c _ _ _ | OLink c _
  | ODir c _ _ | OFsinfo c _ _ | OPathconf c _ => c end.

Definition class_of (c : N) : status :=
  if c =? 0 then OK else if c =? 70 then STALE else if c =? 10004 then NOTSUPP else ERR.

Definition kind_code (k : kind) : N := match k with KFile => 1 | KDir => 2 | KLnk => 5 end.

Definition opt_agree {A} (eqb : A -> A -> bool) (x : option A) (y : A) : bool :=
  match x with Some v => eqb v y | None => true end.
Definition pair_eqb (a b : N * N) : bool := (fst a =? fst b) && (snd a =? snd b).

Definition attrs_agree (a : attrs) (o : oattrs) : bool :=
  (kind_code (a_kind a) =? oa_ftype o) && opt_agree N.eqb (a_size a) (oa_size o) &&
  (a_fileid a =? oa_fileid o) && opt_agree pair_eqb (a_atime a) (oa_atime o) &&
  opt_agree pair_eqb (a_mtime a) (oa_mtime o).

Definition stable_code (s : stable) : N := match s with Unstable => 0 | DataSync => 1 | FileSync => 2 end.

Fixpoint increasing (prev : N) (l : list N) : bool :=
  match l with [] => true | x :: r => (prev <? x) && increasing x r end.

Definition dirent_ok (s : afs) (di : inum) (d : obj) (e : odirent) : bool :=
  (if bool_decide (de_name e = dot) then de_fileid e =? di
   else if bool_decide (de_name e = dotdot) then de_fileid e =? o_parent d
   else bool_decide (o_ents d !! de_name e = Some (de_fileid e))) &&
  match de_plus e with
  | None => true
  | Some (h, oa) =>
    match objs s !! de_fileid e with
    | Some o => bytes_eqb h (mk_handle (de_fileid e) (o_gen o)) && attrs_agree (attrs_of (de_fileid e) o) oa
    | None => false
    end
  end.

Definition dir_agree (s : afs) (di : inum) (cookie : N) (ents : list odirent) (eof : bool) : bool :=
  match objs s !! di with
  | None => false
  | Some d =>
    forallb (dirent_ok s di d) ents &&
    negb (has_dup (map de_name ents) ∅) &&
    (* the first cookie may equal the start only if the start is 0 and ... never: strictly above *)
    increasing cookie (map de_cookie ents) &&
    (negb (bool_decide (ents = [])) || eof) &&
    (if (cookie =? 0) && eof then (length ents =? size (o_ents d) + 2)%nat else true)
  end.

(* does the observed reply agree with the reference reply (evaluated in the state after the call)? *)
Definition agree (s : afs) (r : reply) (o : oreply) : bool :=
  match r with
  | RStatus st => bool_decide (class_of (code_of o) = st)
  | RAttrs a => match o with OAttrs 0 oa => attrs_agree a oa | _ => false end
  | RHandle h a => match o with OHandle 0 oh oa => bytes_eqb h oh && attrs_agree a oa | _ => false end
  | RData dd eof => match o with OData 0 od oeof => bytes_eqb dd od && opt_agree Bool.eqb eof oeof | _ => false end
  | RWritten cnt st a => match o with OWritten 0 ocnt ocm oa => (cnt =? ocnt) && (stable_code st =? ocm) && attrs_agree a oa | _ => false end
  | RLink dd => match o with OLink 0 od => bytes_eqb dd od | _ => false end
  | RDir di cookie => match o with ODir 0 ents eof => dir_agree s di cookie ents eof | _ => false end
  | RFsinfo w m => match o with OFsinfo 0 ow om => (w =? ow) && (m =? om) | _ => false end
  | RPathconf n => match o with OPathconf 0 on => n =? on | _ => false end
  end.

(* the hint a reply carries for the reference (handle chosen / out of space / short write) *)
Definition hint_of (c : call) (o : oreply) : hint :=
  match o with
  | OHandle 0 h _ => HHandle h
  | OWritten 0 ocnt _ _ => match c with
                           | CWrite _ _ cnt _ _ => if ocnt <? cnt then HShort ocnt else HNone
                           | _ => HNone end
  (* NFS3ERR_NOSPC / DQUOT, and SERVERFAULT (the journal refused the commit): resource failures, believed
     only when nospace_plausible agrees *)
  | _ => if (code_of o =? 28) || (code_of o =? 69) || (code_of o =? 10006) then HNoSpace else HNone
  end.

(* ---------- R-abs: abstraction of the implementation's disk vs. the AM state ---------- *)
Inductive mismatch :=
| MMissing (i : N)        (* in AM, not on disk *)
| MExtra (i : N)          (* on disk, not in AM *)
| MKind (i : N) | MGen (i : N) | MSize (i : N) | MParent (i : N) | MEnts (i : N) | MData (i chunk : N)
| MTime (i : N).

Definition chunks_agree (i : N) (am : gmap N bytes) (ab : list (N * bytes)) : list mismatch :=
  let abm : gmap N bytes := list_to_map ab in
  omap (fun p => if bytes_eqb (snd p) (chunk_of abm (fst p)) then None else Some (MData i (fst p))) (map_to_list am) ++
  omap (fun p => if bytes_eqb (snd p) (chunk_of am (fst p)) then None else Some (MData i (fst p))) ab.

Definition obj_agree (i : N) (o : obj) (a : aobj) : list mismatch :=
  (if kind_code (o_kind o) =? ab_kind a then [] else [MKind i]) ++
  (if o_gen o =? ab_gen a then [] else [MGen i]) ++
  (if is_dir o then [] else if o_size o =? ab_size a then [] else [MSize i]) ++
  (if o_parent o =? ab_parent a then [] else [MParent i]) ++
  (if bool_decide (o_ents o = list_to_map (ab_ents a)) then [] else [MEnts i]) ++
  (if opt_agree pair_eqb (o_atime o) (ab_atime a) && opt_agree pair_eqb (o_mtime o) (ab_mtime a) then [] else [MTime i]) ++
  (if is_dir o then [] else chunks_agree i (o_data o) (ab_chunks a)).

Definition cmp_state (s : afs) (r : abs_result) : list mismatch :=
  let abm : gmap N aobj := list_to_map (r_objs r) in
  omap (fun p => match abm !! fst p with None => Some (MMissing (fst p)) | Some _ => None end) (map_to_list (objs s)) ++
  concat (map (fun p => match objs s !! fst p with
                        | None => [MExtra (fst p)]
                        | Some o => obj_agree (fst p) o (snd p) end) (r_objs r)).

(* ---------- resource outcome: when is "no space" a believable answer? ---------- *)
(* upper bound on the data blocks a call may need; NOSPC is accepted only when fewer are free *)
Definition need_blocks (c : call) : N :=
  match c with
  | CWrite _ off cnt _ _ => cnt / BS + 2 + 3          (* data blocks (unaligned ends) + index blocks *)
  | CCreate _ _ _ => 1                                (* the directory may grow *)
  | CMkdir _ _ => 2
  | CSymlink _ _ t => lenN t / BS + 2 + 1
  | CRename _ _ _ _ => 1
  | _ => 0
  end.
Definition needs_inode (c : call) : bool :=
  match c with CCreate _ _ _ | CMkdir _ _ | CSymlink _ _ _ => true | _ => false end.
Definition nospace_plausible (wtmax : N) (c : call) (free_blocks free_inodes : N) : bool :=
  (* ([wtmax] is unused since SYMLINK refuses oversize targets before allocating; kept for the driver's interface) *)
  (free_blocks <? need_blocks c) || (needs_inode c && (free_inodes =? 0)).

(* the limits a server announces (PATHCONF name_max, FSINFO maxfilesize) against the constants of the code:
   names up to the announced length must fit a directory slot, and every byte below the announced maximum file
   size must be addressable by the index tree (direct + indirect + double-indirect blocks) *)
Definition limits_plausible (name_max maxfilesize : N) : bool :=
  (name_max =? GenConsts.go_dir_MAXNAMELEN) &&
  (maxfilesize <=? (GenConsts.go_inode_NDIRECT + GenConsts.go_inode_NBLKBLK + GenConsts.go_inode_NBLKBLK * GenConsts.go_inode_NBLKBLK) * GenConsts.go_disk_BlockSize).

(* ---------- R-cache: what the server holds in memory agrees with its logical disk ---------- *)
(* a cached inode = the 128 bytes of its disk inode *)
Definition cached_inode_ok (sz : N) (d : disk) (i : N) (enc : bytes) : bool :=
  bytes_eqb enc (inode_bytes (mk_layout sz) d i) &&
  (* the layout model agrees with the server's encoder on these bytes *)
  bytes_eqb (Layout.encode_inode (decode_inode enc)) enc.

(* a name cache = the occupied slots of the directory (name, inode number, byte offset of the slot),
   "." and ".." included *)
Definition dir_slot_list (sz : N) (d : disk) (i : N) : list (name * N * N) :=
  let l := mk_layout sz in
  let ip := read_inode l d i in
  let '(leaves, _) := inode_blocks d ip in
  let slots := dir_slots d (leaf_map leaves) (i_size ip) in
  omap (fun ks => match snd ks with Some (n, j) => Some (n, j, N.of_nat (fst ks) * DIRENTSZ) | None => None end)
       (imap (fun k s => (k, s)) slots).
Definition triple_eqb (a b : name * N * N) : bool :=
  bytes_eqb (fst (fst a)) (fst (fst b)) && (snd (fst a) =? snd (fst b)) && (snd a =? snd b).
Definition name_cache_ok (sz : N) (d : disk) (i : N) (ents : list (name * N * N)) : bool :=
  let want := dir_slot_list sz d i in
  (length ents =? length want)%nat &&
  forallb (fun e => existsb (triple_eqb e) want) ents &&
  forallb (fun e => existsb (triple_eqb e) ents) want.

(* names a complete enumeration of directory di must contain (C13) *)
Definition enum_names (s : afs) (di : inum) : list name :=
  match objs s !! di with
  | Some d => dot :: dotdot :: map fst (map_to_list (o_ents d))
  | None => [] end.

(* ---------- READDIR page = the slot-model page of Proofs/Paging.v (tie of that model to the code) ---------- *)
From V Require Proofs.Paging.
Definition dir_slots_of (sz : N) (d : disk) (i : N) : list (option (name * N)) :=
  let l := mk_layout sz in
  let ip := read_inode l d i in
  let '(leaves, _) := inode_blocks d ip in
  dir_slots d (leaf_map leaves) (i_size ip).
(* reply bytes ApplyEnts charges for an entry: 16 + len(name) + 8 + 8 *)
Definition readdir_cost (e : name * N) : N := lenN (fst e) + 32.
Definition model_page (slots : list (option (name * N))) (cookie count : N) :=
  Paging.page_readdir readdir_cost slots (N.to_nat (cookie / DIRENTSZ)) count.
(* READDIRPLUS (dir.Apply): dirbytes is charged 8 + len(name), the reply estimate entryplus3Baggage + len(name) *)
Definition ENTRYPLUS_BAGGAGE : N := 132.
Definition rdplus_dcost (e : name * N) : N := lenN (fst e) + 8.
Definition rdplus_pcost (e : name * N) : N := lenN (fst e) + ENTRYPLUS_BAGGAGE.
Definition model_pageplus (slots : list (option (name * N))) (cookie dircount maxcount : N) :=
  Paging.page_readdirplus rdplus_dcost rdplus_pcost slots (N.to_nat (cookie / DIRENTSZ)) dircount maxcount.
Definition readdir_matches_model (sz : N) (d : disk) (i cookie count : N) (ents : list odirent) (eof : bool) : bool :=
  let '(es, meof, _) := model_page (dir_slots_of sz d i) cookie count in
  Bool.eqb eof meof &&
  (length ents =? length es)%nat &&
  forallb (fun p => let '(e, (idx, (nm, inum))) := p in
                    bytes_eqb (de_name e) nm && (de_fileid e =? inum) && (de_cookie e =? (N.of_nat idx + 1) * DIRENTSZ))
          (combine ents es).
(* ---------- directories between two consecutive checkpoints: DirModel.step_ok_b on the decoded slots ---------- *)
From V Require Model.DirModel.
Definition dir_slot_table (sz : N) (d : disk) (ar : abs_result) : list (N * (N * list (option (name * N)))) :=
  omap (fun p => if ab_kind (snd p) =? 2 then Some (fst p, (ab_gen (snd p), dir_slots_of sz d (fst p))) else None) (r_objs ar).
(* directories (same number, same generation) in which an entry moved or that shrank *)
Definition slots_moved (old new : list (N * (N * list (option (name * N))))) : list N :=
  let om : gmap N (N * list (option (name * N))) := list_to_map old in
  omap (fun p => match om !! fst p with
                 | Some (g0, sl0) => if (g0 =? fst (snd p)) && negb (DirModel.step_ok_b sl0 (snd (snd p))) then Some (fst p) else None
                 | None => None end) new.
Definition readdirplus_matches_model (sz : N) (d : disk) (i cookie dircount maxcount : N) (ents : list odirent) (eof : bool) : bool :=
  let '(es, meof, _) := model_pageplus (dir_slots_of sz d i) cookie dircount maxcount in
  Bool.eqb eof meof &&
  (length ents =? length es)%nat &&
  forallb (fun p => let '(e, (idx, (nm, inum))) := p in
                    bytes_eqb (de_name e) nm && (de_fileid e =? inum) && (de_cookie e =? (N.of_nat idx + 1) * DIRENTSZ))
          (combine ents es).
