(* KM — the key/value store of kvs/kvs.go: keys are block numbers beyond the log, values whole blocks. *)
From stdpp Require Import gmap list.
From Coq Require Import NArith.
From V Require Import Model.Lib.
Open Scope N_scope.

Definition kstate := gmap N bytes.
Definition kput (s : kstate) (pairs : list (N * bytes)) : kstate :=
  fold_left (fun s p => <[fst p := snd p]> s) pairs s.
Definition kget (s : kstate) (k : N) : bytes := default zero_block (s !! k).
(* keys the store accepts *)
Definition k_valid (sz k : N) : bool := (513 <=? k) && (k <? sz).
Definition kput_ok (sz : N) (pairs : list (N * bytes)) : bool := forallb (fun p => k_valid sz (fst p)) pairs.

Definition kvs_empty : kstate := ∅.
