(* Shared definitions for the executable models: bytes, little-endian
   integers, N-indexed list helpers.  No proofs of properties here. *)
From stdpp Require Import gmap list mapset.
From Coq Require Import NArith ZArith Lia Strings.Byte.
Open Scope N_scope.

Definition byte := Byte.byte.
Definition x00 : byte := Byte.x00.

Global Instance byte_eq_dec : EqDecision byte := Byte.byte_eq_dec.
Global Program Instance byte_countable : Countable byte :=
  inj_countable Byte.to_N Byte.of_N Byte.of_to_N.

Definition bytes := list byte.
Definition bytes_eqb (a b : bytes) : bool := bool_decide (a = b).

Definition BS : N := 4096.
Definition W64 : N := 18446744073709551616.
Definition W32 : N := 4294967296.
Definition w64 (x : N) : N := x mod W64.
Definition w32 (x : N) : N := x mod W32.

Definition zeros (n : N) : bytes := replicate (N.to_nat n) x00.
Definition zero_block : bytes := zeros BS.
Definition all_zero (b : bytes) : bool := forallb (fun x => Byte.eqb x x00) b.

Definition byte_of_N (x : N) : byte := default x00 (Byte.of_N (x mod 256)).

(* little-endian integers *)
Fixpoint le (n : nat) (x : N) : bytes :=
  match n with O => [] | S n => byte_of_N x :: le n (x / 256) end.
Fixpoint unle (l : bytes) : N :=
  match l with [] => 0 | b :: r => Byte.to_N b + 256 * unle r end.

Definition takeN {A} (n : N) (l : list A) := take (N.to_nat n) l.
Definition dropN {A} (n : N) (l : list A) := drop (N.to_nat n) l.
Definition lenN {A} (l : list A) : N := N.of_nat (length l).

Definition get (n : nat) (b : bytes) (off : N) : N := unle (take n (dropN off b)).
Definition get64 := get 8.
Definition get32 := get 4.

(* overwrite l at offset off with d (l long enough) *)
Definition splice (l : bytes) (off : N) (d : bytes) : bytes :=
  takeN off l ++ d ++ drop (N.to_nat off + length d) l.

(* insertion into a finite set (stdpp's union with a singleton walks the whole set when run) *)
Definition gs_add `{Countable K} (x : K) (s : gset K) : gset K := Mapset (<[x := ()]> (mapset_car s)).

(* handles and names are byte strings *)
Definition name := bytes.
Definition handle := bytes.
Definition mk_handle (i g : N) : handle := le 8 i ++ le 8 g.
Definition parse_handle (h : handle) : option (N * N) :=
  if lenN h =? 16 then Some (unle (take 8 h), unle (drop 8 h)) else None.

Definition b_dot : byte := Byte.x2e.
Definition b_slash : byte := Byte.x2f.
Definition dot : name := [b_dot].
Definition dotdot : name := [b_dot; b_dot].
