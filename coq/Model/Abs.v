From stdpp Require Import gmap list.
From Coq Require Import NArith ZArith Lia.
Open Scope N_scope.

(* ---------- disk image ---------- *)
Definition byte := N.
Definition block := list byte.
Definition disk := gmap N block.
Definition BS : N := 4096.
Definition zeros (n:N) : list byte := replicate (N.to_nat n) 0.
Definition zero_block : block := zeros BS.
Definition rd (d:disk) (a:N) : block := default zero_block (d !! a).

(* little-endian integers inside a block *)
Fixpoint unle (l:list N) : N := match l with [] => 0 | b :: r => b + 256 * unle r end.
Definition get (n:nat) (b:list byte) (off:N) : N := unle (take n (drop (N.to_nat off) b)).
Definition get64 := get 8. Definition get32 := get 4.

(* ---------- layout (as super.go computes it) ---------- *)
Record layout := { l_size : N; l_bbstart : N; l_nbb : N; l_ibstart : N; l_istart : N; l_dstart : N; l_ninode : N }.
Definition mk_layout (sz:N) : layout :=
  let nbb := sz / 32768 + 1 in
  {| l_size := sz; l_bbstart := 513; l_nbb := nbb; l_ibstart := 513 + nbb; l_istart := 514 + nbb;
     l_dstart := 514 + nbb + 1024; l_ninode := 32768 |}.

(* ---------- inodes ---------- *)
Record dinode := { i_kind : N; i_nlink : N; i_gen : N; i_size : N; i_shrink : N;
                   i_atime : N * N; i_mtime : N * N; i_blks : list N }.
Definition read_inode (l:layout) (d:disk) (inum:N) : dinode :=
  let b := rd d (l_istart l + inum / 32) in
  let o := (inum mod 32) * 128 in
  {| i_kind := get32 b o; i_nlink := get32 b (o+4); i_gen := get64 b (o+8); i_size := get64 b (o+16);
     i_shrink := get64 b (o+24); i_atime := (get32 b (o+32), get32 b (o+36)); i_mtime := (get32 b (o+40), get32 b (o+44));
     i_blks := map (fun k => get64 b (o + 48 + 8 * N.of_nat k)) (seq 0 10) |}.

Definition ptrs (d:disk) (a:N) : list N := map (fun k => get64 (rd d a) (8 * N.of_nat k)) (seq 0 512).

(* leaves of an index tree in logical order: (logical block number, physical block), holes skipped;
   also collects the index blocks *)
Fixpoint tree (d:disk) (lvl:nat) (root base span:N) : list (N*N) * list N :=
  if root =? 0 then ([], []) else
  match lvl with
  | O => ([(base, root)], [])
  | S l =>
      let sub := span / 512 in
      let rs := imap (fun k p => tree d l p (base + N.of_nat k * sub) sub) (ptrs d root) in
      (concat (map fst rs), root :: concat (map snd rs))
  end.

Definition inode_blocks (d:disk) (ip:dinode) : list (N*N) * list N :=
  let direct := omap (fun kp => if snd kp =? 0 then None else Some (N.of_nat (fst kp), snd kp))
                     (imap (fun k p => (k, p)) (take 8 (i_blks ip))) in
  let '(l1, x1) := tree d 1 (nth 8 (i_blks ip) 0) 8 512 in
  let '(l2, x2) := tree d 2 (nth 9 (i_blks ip) 0) (8 + 512) (512 * 512) in
  (direct ++ l1 ++ l2, x1 ++ x2).

(* ---------- abstract objects ---------- *)
Record aobj := { a_kind : N; a_gen : N; a_size : N; a_chunks : list (N * block);
                 a_ents : list (list N * N); a_parent : N }.

Definition file_block (d:disk) (leaves:list (N*N)) (bn:N) : block :=
  match list_find (fun p => bool_decide (fst p = bn)) leaves with
  | Some (_, (_, pb)) => rd d pb | None => zero_block end.

(* directory slots *)
Definition slot_of (b:block) (o:N) : option (list N * N) :=
  let inum := get64 b o in let len := get64 b (o+8) in
  if inum =? 0 then None else Some (take (N.to_nat len) (drop (N.to_nat (o+16)) b), inum).
Definition dir_slots (d:disk) (leaves:list (N*N)) (size:N) : list (option (list N * N)) :=
  map (fun k => let off := N.of_nat k * 128 in slot_of (file_block d leaves (off / BS)) (off mod BS))
      (seq 0 (N.to_nat (size / 128))).

Inductive wf_error :=
| EBadPtr (inum blk:N) | EDupBlock (blk:N) | EBitClear (blk:N) | EBitSetUnowned (blk:N)
| EInodeBit (inum:N) | EDot (inum:N) | EDotDot (inum:N) | EDangling (dir inum:N) | EFuel | ENonZeroFree (blk:N).

Definition bit_of (d:disk) (start n:N) : bool :=
  let b := rd d (start + n / 32768) in
  N.testbit (nth (N.to_nat ((n mod 32768) / 8)) b 0) (n mod 8).

(* walk the tree from the root; fuel bounds the number of objects visited *)
Fixpoint walk (l:layout) (d:disk) (fuel:nat) (todo:list (N*N)) (acc:list (N*aobj)) (owned:list N) (errs:list wf_error)
  : list (N*aobj) * list N * list wf_error :=
  match fuel with
  | O => (acc, owned, match todo with [] => errs | _ => EFuel :: errs end)
  | S f =>
    match todo with
    | [] => (acc, owned, errs)
    | (inum, parent) :: rest =>
      let ip := read_inode l d inum in
      let '(leaves, idx) := inode_blocks d ip in
      let mine := map snd leaves ++ idx in
      let errs1 := (if bit_of d (l_ibstart l) inum then [] else [EInodeBit inum]) ++
                   omap (fun b => if (l_dstart l <=? b) && (b <? l_size l) then None else Some (EBadPtr inum b)) mine in
      if i_kind ip =? 2 then
        let slots := dir_slots d leaves (i_size ip) in
        let ents := omap id slots in
        let real := filter (fun e => negb (bool_decide (fst e = [46])) && negb (bool_decide (fst e = [46;46]))) ents in
        let errs2 := (match slots with Some ([46], i) :: _ => if i =? inum then [] else [EDot inum] | _ => [EDot inum] end) ++
                     (match slots with _ :: Some ([46;46], p) :: _ => if p =? parent then [] else [EDotDot inum] | _ => [EDotDot inum] end) in
        let o := {| a_kind := 2; a_gen := i_gen ip; a_size := i_size ip; a_chunks := []; a_ents := real; a_parent := parent |} in
        walk l d f (rest ++ map (fun e => (snd e, inum)) real) ((inum, o) :: acc) (mine ++ owned) (errs2 ++ errs1 ++ errs)
      else
        let o := {| a_kind := i_kind ip; a_gen := i_gen ip; a_size := i_size ip;
                    a_chunks := map (fun p => (fst p, rd d (snd p))) leaves; a_ents := []; a_parent := parent |} in
        walk l d f rest ((inum, o) :: acc) (mine ++ owned)
             ((if i_kind ip =? 0 then [EDangling parent inum] else []) ++ errs1 ++ errs)
    end
  end.

Fixpoint dups (l:list N) (seen:gset N) : list N :=
  match l with [] => [] | x :: r => if bool_decide (x ∈ seen) then x :: dups r seen else dups r ({[x]} ∪ seen) end.

Definition all_zero (b:block) : bool := forallb (fun x => x =? 0) b.

(* abstraction + invariant check of a whole disk image *)
Definition abs_disk (sz:N) (d:disk) : list (N*aobj) * list wf_error :=
  let l := mk_layout sz in
  let '(objs, owned, errs) := walk l d (N.to_nat 40000) [(1, 1)] [] [] [] in
  let ownedset : gset N := list_to_set owned in
  let derr := map EDupBlock (dups owned ∅) in
  let berr := omap (fun b => if bit_of d (l_bbstart l) b then None else Some (EBitClear b)) owned in
  (* every data block marked used is owned; every unowned data block is zero *)
  let scan := omap (fun k => let b := l_dstart l + N.of_nat k in
                             if bool_decide (b ∈ ownedset) then None
                             else if bit_of d (l_bbstart l) b then Some (EBitSetUnowned b)
                             else if all_zero (rd d b) then None else Some (ENonZeroFree b))
                   (seq 0 (N.to_nat (sz - l_dstart l))) in
  (objs, errs ++ derr ++ berr ++ scan).

Definition empty_disk : disk := ∅.
Definition disk_insert (d:disk) (a:N) (b:block) : disk := <[a:=b]> d.
