(* ABS — executable abstraction function and well-formedness checker of a raw
   logical disk image (home blocks overlaid with the journal).  These are the
   definitions the C04/C05/C12 theorems speak about, and the same definitions
   are extracted and run on the implementation's real disk.
   The layout comes from the *generated* transcription of super/super.go. *)
From stdpp Require Import gmap list mapset.
From Coq Require Import NArith ZArith Lia.
From V Require Import Model.Lib Gen.GenSuper.
Open Scope N_scope.

(* only non-zero blocks are stored *)
Definition disk := gmap N bytes.
Definition rd (d : disk) (a : N) : bytes := default zero_block (d !! a).
Definition disk_set (d : disk) (a : N) (b : bytes) : disk :=
  if all_zero b then delete a d else <[a := b]> d.

Record layout := { l_size : N; l_bbstart : N; l_nbb : N; l_ibstart : N; l_istart : N;
                   l_dstart : N; l_ninode : N }.
Definition mk_layout (sz : N) : layout :=
  let fs := GenSuper.MkFsSuper sz in
  {| l_size := sz; l_bbstart := GenSuper.BitmapBlockStart fs; l_nbb := GenSuper.NBlockBitmap fs;
     l_ibstart := GenSuper.BitmapInodeStart fs; l_istart := GenSuper.InodeStart fs;
     l_dstart := GenSuper.DataStart fs; l_ninode := GenSuper.NInode fs |}.

Definition NDIRECT : N := 8.
Definition NPTR : N := 512.
Definition DIRENTSZ : N := 128.

(* ---------- inodes ---------- *)
Record dinode := { i_kind : N; i_nlink : N; i_gen : N; i_size : N; i_shrink : N;
                   i_atime : N * N; i_mtime : N * N; i_blks : list N }.

(* n consecutive little-endian 64-bit words *)
Fixpoint words (n : nat) (b : bytes) : list N :=
  match n with O => [] | S n => unle (take 8 b) :: words n (drop 8 b) end.

Definition decode_inode (b : bytes) : dinode :=
  {| i_kind := get32 b 0; i_nlink := get32 b 4; i_gen := get64 b 8; i_size := get64 b 16;
     i_shrink := get64 b 24; i_atime := (get32 b 32, get32 b 36); i_mtime := (get32 b 40, get32 b 44);
     i_blks := words 10 (drop 48 b) |}.

Definition inode_bytes (l : layout) (d : disk) (i : N) : bytes :=
  let a := GenSuper.Inum2Addr (GenSuper.MkFsSuper (l_size l)) i in
  takeN 128 (dropN (snd a / 8) (rd d (fst a))).
Definition read_inode (l : layout) (d : disk) (i : N) : dinode := decode_inode (inode_bytes l d i).

Definition blk_count (size : N) : N := (size + BS - 1) / BS.

(* leaves of an index tree in logical order: (logical block number, physical block);
   also the index blocks themselves *)
Fixpoint tree (d : disk) (lvl : nat) (root base span : N) : list (N * N) * list N :=
  if root =? 0 then ([], []) else
  match lvl with
  | O => ([(base, root)], [])
  | S l =>
      let sub := span / NPTR in
      let rs := imap (fun k p => tree d l p (base + N.of_nat k * sub) sub) (words 512 (rd d root)) in
      (concat (map fst rs), root :: concat (map snd rs))
  end.

Definition inode_blocks (d : disk) (ip : dinode) : list (N * N) * list N :=
  let direct := omap (fun kp => if snd kp =? 0 then None else Some (N.of_nat (fst kp), snd kp))
                     (imap (fun k p => (k, p)) (take 8 (i_blks ip))) in
  let '(l1, x1) := tree d 1 (nth 8 (i_blks ip) 0) NDIRECT NPTR in
  let '(l2, x2) := tree d 2 (nth 9 (i_blks ip) 0) (NDIRECT + NPTR) (NPTR * NPTR) in
  (direct ++ l1 ++ l2, x1 ++ x2).

(* ---------- abstract objects ---------- *)
Record aobj := { ab_kind : N; ab_gen : N; ab_size : N; ab_chunks : list (N * bytes);
                 ab_ents : list (name * N); ab_parent : N; ab_atime : N * N; ab_mtime : N * N;
                 ab_nlink : N }.

Definition leaf_map (leaves : list (N * N)) : gmap N N := list_to_map leaves.

Definition slot_of (b : bytes) (o : N) : option (name * N) :=
  let i := get64 b o in let len := get64 b (o + 8) in
  if i =? 0 then None else Some (takeN len (dropN (o + 16) b), i).
Definition slot_len (b : bytes) (o : N) : N := get64 b (o + 8).

Definition dir_slots (d : disk) (lm : gmap N N) (size : N) : list (option (name * N)) :=
  map (fun k => let off := N.of_nat k * DIRENTSZ in
                slot_of (match lm !! (off / BS) with Some pb => rd d pb | None => zero_block end) (off mod BS))
      (seq 0 (N.to_nat (size / DIRENTSZ))).

Inductive wf_error :=
| EBadPtr (inum blk : N)            (* pointer outside the data region *)
| EDupBlock (blk : N)               (* block with two owners *)
| EBitClear (blk : N)               (* owned block not marked used *)
| EBitSetUnowned (blk : N)          (* marked used, owned by nobody *)
| ENonZeroFree (blk : N)            (* free block with non-zero contents *)
| EBitmapFixed                      (* reserved part of the block bitmap wrong *)
| EInodeBit (inum : N)              (* live inode not marked in the inode bitmap *)
| EInodeLeak (inum : N)             (* marked / non-free inode not reachable from the root *)
| EInodeBitFree (inum : N)          (* bit set but inode free (other than 0) *)
| EDot (inum : N) | EDotDot (inum : N)
| EDangling (dir inum : N)          (* entry pointing to a free inode *)
| EDupName (dir : N) | EBadName (dir : N) | EDirSize (inum : N)
| ETwoNames (inum : N)              (* object reachable through two entries *)
| ETooBig (inum : N) | EBeyondSize (inum blk : N) | ETailNonZero (inum : N)
| EKind (inum : N) | EGen (inum : N) | ENlink (inum : N)
| EFreeOwns (inum : N)              (* free inode owning blocks although not shrinking *)
| EFuel.

Definition bad_name_b (name_max : N) (n : name) : bool :=
  (lenN n =? 0) || (name_max <? lenN n) ||
  negb (forallb (fun b => negb (bool_decide (b = b_slash)) && negb (bool_decide (b = x00))) n).

(* insertion-based set construction (stdpp's union-based list_to_set is quadratic when run) *)
Definition gs_of_list `{Countable K} (l : list K) : gset K := fold_left (fun s x => gs_add x s) l ∅.

Fixpoint has_dup (l : list name) (seen : gset name) : bool :=
  match l with [] => false | x :: r => if bool_decide (x ∈ seen) then true else has_dup r (gs_add x seen) end.

(* per-inode structural checks shared by reachable and unreachable inodes *)
Definition check_blocks (l : layout) (inum : N) (ip : dinode) (leaves : list (N * N)) (idx : list N) : list wf_error :=
  let lim := N.max (blk_count (i_size ip)) (i_shrink ip) in
  omap (fun b => if (l_dstart l <=? b) && (b <? l_size l) then None else Some (EBadPtr inum b)) (map snd leaves ++ idx) ++
  omap (fun p => if fst p <? lim then None else Some (EBeyondSize inum (snd p))) leaves.

Record walk_st := { w_objs : list (N * aobj); w_owned : list N; w_errs : list wf_error; w_seen : gset N }.

Section Walk.
Variable name_max maxfilesize : N.
Variable l : layout.
Variable d : disk.

Definition visit (inum parent : N) (st : walk_st) : walk_st * list (N * N) :=
  let ip := read_inode l d inum in
  let '(leaves, idx) := inode_blocks d ip in
  let mine := map snd leaves ++ idx in
  let lm := leaf_map leaves in
  let e0 := check_blocks l inum ip leaves idx ++
            (if i_gen ip =? 0 then [EGen inum] else []) ++
            (if i_nlink ip =? 0 then [ENlink inum] else []) ++
            (if maxfilesize <? i_size ip then [ETooBig inum] else []) in
  if bool_decide (inum ∈ w_seen st) then
    ({| w_objs := w_objs st; w_owned := w_owned st; w_errs := ETwoNames inum :: w_errs st; w_seen := w_seen st |}, [])
  else if i_kind ip =? 2 then
    let slots := dir_slots d lm (i_size ip) in
    let ents := omap id slots in
    let real := filter (fun e => negb (bool_decide (fst e = dot)) && negb (bool_decide (fst e = dotdot))) ents in
    let e1 := (match slots with Some (n, i) :: _ => if bool_decide (n = dot) && (i =? inum) then [] else [EDot inum] | _ => [EDot inum] end) ++
              (match slots with _ :: Some (n, p) :: _ => if bool_decide (n = dotdot) && (p =? parent) then [] else [EDotDot inum] | _ => [EDotDot inum] end) ++
              (if i_size ip mod DIRENTSZ =? 0 then [] else [EDirSize inum]) ++
              (if has_dup (map fst ents) ∅ then [EDupName inum] else []) ++
              (if existsb (fun e => bad_name_b name_max (fst e)) real then [EBadName inum] else []) ++
              (if (length ents =? length real + 2)%nat then [] else [EBadName inum]) in
    let o := {| ab_kind := 2; ab_gen := i_gen ip; ab_size := i_size ip; ab_chunks := []; ab_ents := real;
                ab_parent := parent; ab_atime := i_atime ip; ab_mtime := i_mtime ip; ab_nlink := i_nlink ip |} in
    ({| w_objs := (inum, o) :: w_objs st; w_owned := mine ++ w_owned st;
        w_errs := e1 ++ e0 ++ w_errs st; w_seen := gs_add inum (w_seen st) |},
     map (fun e => (snd e, inum)) real)
  else
    let last := i_size ip / BS in
    let e1 := (if (i_kind ip =? 1) || (i_kind ip =? 5) then [] else
               if i_kind ip =? 0 then [EDangling parent inum] else [EKind inum]) ++
              (if i_size ip mod BS =? 0 then [] else
               match lm !! last with
               | Some pb => if all_zero (dropN (i_size ip mod BS) (rd d pb)) then [] else [ETailNonZero inum]
               | None => [] end) in
    let o := {| ab_kind := i_kind ip; ab_gen := i_gen ip; ab_size := i_size ip;
                (* blocks past the size belong to an unfinished shrink: no client can see them *)
                ab_chunks := map (fun p => (fst p, rd d (snd p)))
                                 (filter (fun p => fst p <? blk_count (i_size ip)) leaves);
                ab_ents := []; ab_parent := parent;
                ab_atime := i_atime ip; ab_mtime := i_mtime ip; ab_nlink := i_nlink ip |} in
    ({| w_objs := (inum, o) :: w_objs st; w_owned := mine ++ w_owned st;
        w_errs := e1 ++ e0 ++ w_errs st; w_seen := gs_add inum (w_seen st) |}, []).

Fixpoint walk (fuel : nat) (todo : list (N * N)) (st : walk_st) : walk_st :=
  match fuel with
  | O => match todo with [] => st | _ =>
           {| w_objs := w_objs st; w_owned := w_owned st; w_errs := EFuel :: w_errs st; w_seen := w_seen st |} end
  | S f =>
    match todo with
    | [] => st
    | (inum, parent) :: rest =>
      if (inum <? l_ninode l) then
        let '(st', more) := visit inum parent st in walk f (rest ++ more) st'
      else walk f rest {| w_objs := w_objs st; w_owned := w_owned st;
                           w_errs := EDangling parent inum :: w_errs st; w_seen := w_seen st |}
    end
  end.

(* inodes not reached from the root: scan the inode blocks present in the image *)
Definition scan_block (quiescent : bool) (seen : gset N) (blkno : N) (acc : list N * list wf_error) : list N * list wf_error :=
  fold_left (fun acc k =>
    let inum := (blkno - l_istart l) * 32 + N.of_nat k in
    if bool_decide (inum ∈ seen) || (inum =? 0) then acc else
    let ip := read_inode l d inum in
    let '(leaves, idx) := inode_blocks d ip in
    let mine := map snd leaves ++ idx in
    let errs := (if i_kind ip =? 0 then [] else [EInodeLeak inum]) ++
                check_blocks l inum ip leaves idx ++
                (match mine with [] => [] | _ =>
                   if (i_kind ip =? 0) && (quiescent || (i_shrink ip =? 0)) then [EFreeOwns inum] else [] end) in
    (mine ++ fst acc, errs ++ snd acc)) (seq 0 32) acc.

End Walk.

(* ---------- bitmaps ---------- *)
Definition testbit_byte (b : byte) (k : N) : bool := N.testbit (Byte.to_N b) k.
Definition bit_of (d : disk) (start n : N) : bool :=
  let b := rd d (start + n / 32768) in
  testbit_byte (nth (N.to_nat ((n mod 32768) / 8)) b x00) (n mod 8).

Definition popcount (b : byte) : N :=
  let x := Byte.to_N b in
  (x mod 2) + (x / 2 mod 2) + (x / 4 mod 2) + (x / 8 mod 2) + (x / 16 mod 2) + (x / 32 mod 2) + (x / 64 mod 2) + (x / 128).

(* set bits of a bitmap region: the numbers inside [lo, hi) as a list, and the total count
   (only non-zero bytes are expanded) *)
Fixpoint set_bits_bytes (lo hi : N) (bs : bytes) (base : N) (acc : list N * N) : list N * N :=
  match bs with
  | [] => acc
  | b :: r =>
    let acc' := if Byte.eqb b x00 then acc else
      (if (base + 8 <=? lo) || (hi <=? base) then fst acc else
       fold_left (fun a k => let n := base + N.of_nat k in
                             if testbit_byte b (N.of_nat k) && (lo <=? n) && (n <? hi) then n :: a else a) (seq 0 8) (fst acc),
       snd acc + popcount b) in
    set_bits_bytes lo hi r (base + 8) acc'
  end.
Definition set_bits (d : disk) (start nblk lo hi : N) : list N * N :=
  fold_left (fun acc k => match d !! (start + N.of_nat k) with
                          | Some b => set_bits_bytes lo hi b (N.of_nat k * 32768) acc
                          | None => acc end) (seq 0 (N.to_nat nblk)) ([], 0).

Record abs_result := {
  r_objs : list (N * aobj);
  r_errs : list wf_error;
  r_used_blocks : N;       (* set bits of the block bitmap inside the data region *)
  r_used_inodes : N        (* set bits of the inode bitmap *)
}.

Definition in_data (l : layout) (b : N) : bool := (l_dstart l <=? b) && (b <? l_size l).

(* ownership against the block bitmap: no block with two owners (EDupBlock), every owned data block marked
   used (EBitClear), every block marked used owned by somebody (EBitSetUnowned).  Proofs/AbsOwn.v shows that
   an empty result means exactly that. *)
Fixpoint dup_errors (xs : list N) (seen : gset N) : list wf_error :=
  match xs with
  | [] => []
  | x :: r => if bool_decide (x ∈ seen) then EDupBlock x :: dup_errors r seen else dup_errors r (gs_add x seen)
  end.
Definition own_errors (l : layout) (owned used : list N) : list wf_error :=
  let ownedset : gset N := gs_of_list owned in
  let usedset : gset N := gs_of_list used in
  (if (length owned =? size ownedset)%nat then [] else dup_errors owned ∅) ++
  omap (fun b => if bool_decide (b ∈ usedset) || negb (in_data l b) then None else Some (EBitClear b)) owned ++
  omap (fun b => if negb (bool_decide (b ∈ ownedset)) then Some (EBitSetUnowned b) else None) used.

(* abstraction + invariant of a whole image.  [quiescent]: no background freeing is in
   progress, so a free inode owns nothing. *)
Definition abs_disk (name_max maxfilesize sz : N) (quiescent : bool) (d : disk) : abs_result :=
  let l := mk_layout sz in
  let st0 := {| w_objs := []; w_owned := []; w_errs := []; w_seen := ∅ |} in
  let st := walk name_max maxfilesize l d (N.to_nat (l_ninode l)) [(1, 1)] st0 in
  (* unreachable inodes *)
  let '(owned2, errs2) :=
    fold_left (fun acc k => let b := l_istart l + N.of_nat k in
                 match d !! b with Some _ => scan_block l d quiescent (w_seen st) b acc | None => acc end)
              (seq 0 (N.to_nat (l_dstart l - l_istart l))) ([], []) in
  let owned := w_owned st ++ owned2 in
  let ownedset : gset N := gs_of_list owned in
  let '(used, nset) := set_bits d (l_bbstart l) (l_nbb l) (l_dstart l) sz in
  let usedset : gset N := gs_of_list used in
  let oerr := own_errors l owned used in
  let nused_data := N.of_nat (length used) in
  let fixed_ok := (nset =? nused_data + l_dstart l + (l_nbb l * 32768 - sz)) in
  let zerr := omap (fun p => let b := fst p in
                      if in_data l b && negb (bool_decide (b ∈ ownedset)) && negb (bool_decide (b ∈ usedset))
                      then Some (ENonZeroFree b) else None) (map_to_list d) in
  let '(iused, _) := set_bits d (l_ibstart l) 1 0 (l_ninode l) in
  let iusedset : gset N := gs_of_list iused in
  let ierr := omap (fun i => if bool_decide (i ∈ w_seen st) || (i =? 0) then None else
                             if i_kind (read_inode l d i) =? 0 then Some (EInodeBitFree i) else None) iused ++
              omap (fun p => if bool_decide (fst p ∈ iusedset) then None else Some (EInodeBit (fst p)))
                   (w_objs st) in
  {| r_objs := w_objs st;
     r_errs := w_errs st ++ errs2 ++ oerr ++ (if fixed_ok then [] else [EBitmapFixed]) ++ zerr ++ ierr;
     r_used_blocks := nused_data;
     r_used_inodes := N.of_nat (length iused) |}.

Definition empty_disk : disk := ∅.
