From Coq Require Import List NArith ZArith Lia Bool ZifyN ZifyNat ZifyBool.
Import ListNotations.
Open Scope N_scope.
Ltac Zify.zify_post_hook ::= Z.div_mod_to_equations.

(* bytes as N < 256 for the spike *)
Definition byte := N.
Definition be32 (n:N) : list byte := [n / 16777216 mod 256; n / 65536 mod 256; n / 256 mod 256; n mod 256].
Definition de32 (l:list byte) : option (N * list byte) :=
  match l with a::b::c::d::r => Some (a*16777216 + b*65536 + c*256 + d, r) | _ => None end.

Lemma de32_be32 n r : n < 4294967296 -> de32 (be32 n ++ r) = Some (n, r).
Proof. intros H. unfold be32, de32. simpl. f_equal. f_equal.
  lia. Qed.

Definition pad (n:N) : N := (4 - n mod 4) mod 4.
Definition zeros (n:N) : list byte := repeat 0 (N.to_nat n).

Inductive ty :=
| TU32 | TBool | TVar (max: option N) | TUnit | TPair (a b: ty)
| TUnion (a: arms) | TChain (t: ty)
with arms := ADef (t: ty) | ACase (tag:N) (t: ty) (rest: arms).

Inductive val := VU32 (n:N) | VBool (b:bool) | VBytes (l: list byte) | VUnit | VPair (a b: val)
| VUnion (tag:N) (v:val) | VList (l: list val).

Fixpoint arm_of (a:arms) (tag:N) : ty :=
  match a with ADef t => t | ACase g t r => if g =? tag then t else arm_of r tag end.

Definition lenN {A} (l:list A) : N := N.of_nat (length l).

Section enc.
Fixpoint enc (t:ty) (v:val) {struct t} : option (list byte) :=
  match t, v with
  | TU32, VU32 n => if n <? 4294967296 then Some (be32 n) else None
  | TBool, VBool b => Some (be32 (if b then 1 else 0))
  | TVar max, VBytes l =>
      let n := lenN l in
      if (n <? 4294967296) && (match max with Some m => n <=? m | None => true end)
      then Some (be32 n ++ l ++ zeros (pad n)) else None
  | TUnit, VUnit => Some []
  | TPair a b, VPair x y => match enc a x, enc b y with Some p, Some q => Some (p ++ q) | _,_ => None end
  | TUnion a, VUnion tag v =>
      if tag <? 4294967296 then
      match enc_arm a tag v with Some p => Some (be32 tag ++ p) | None => None end else None
  | TChain t, VList l =>
      (fix go (l:list val) : option (list byte) :=
        match l with [] => Some (be32 0)
        | x::r => match enc t x, go r with Some p, Some q => Some (be32 1 ++ p ++ q) | _,_ => None end end) l
  | _, _ => None
  end
with enc_arm (a:arms) (tag:N) (v:val) {struct a} : option (list byte) :=
  match a with
  | ADef t => enc t v
  | ACase g t r => if g =? tag then enc t v else enc_arm r tag v
  end.
End enc.

Fixpoint skipN {A} (n:nat) (l:list A) : option (list A) :=
  match n, l with O, _ => Some l | S n, _::r => skipN n r | S _, [] => None end.
Fixpoint takeN {A} (n:nat) (l:list A) : option (list A * list A) :=
  match n, l with O, _ => Some ([], l) | S n, x::r => match takeN n r with Some (a,b) => Some (x::a, b) | None => None end | S _, [] => None end.

Fixpoint dec (fuel:nat) (t:ty) (l:list byte) {struct fuel} : option (val * list byte) :=
  match fuel with O => None | S f =>
  match t with
  | TU32 => match de32 l with Some (n,r) => Some (VU32 n, r) | None => None end
  | TBool => match de32 l with Some (n,r) => Some (VBool (negb (n =? 0)), r) | None => None end
  | TVar max => match de32 l with
      | Some (n,r) => if (match max with Some m => n <=? m | None => true end) then
           match takeN (N.to_nat n) r with
           | Some (b, r') => match skipN (N.to_nat (pad n)) r' with Some r'' => Some (VBytes b, r'') | None => None end
           | None => None end else None
      | None => None end
  | TUnit => Some (VUnit, l)
  | TPair a b => match dec f a l with Some (x,r) => match dec f b r with Some (y,r') => Some (VPair x y, r') | None => None end | None => None end
  | TUnion a => match de32 l with Some (tag, r) => match dec f (arm_of a tag) r with Some (v,r') => Some (VUnion tag v, r') | None => None end | None => None end
  | TChain t' => match de32 l with
      | Some (n, r) => if n =? 0 then Some (VList [], r) else
          match dec f t' r with Some (x, r') => match dec f (TChain t') r' with Some (VList xs, r'') => Some (VList (x::xs), r'') | _ => None end | None => None end
      | None => None end
  end end.

(* size of a value, to supply fuel *)
Fixpoint vsize (v:val) : nat :=
  match v with VPair a b => S (vsize a + vsize b) | VUnion _ v => S (vsize v)
  | VList l => S ((fix go l := match l with [] => O | x::r => S (vsize x + go r) end) l) | _ => 1%nat end.

Fixpoint tsize (t:ty) : nat :=
  match t with TPair a b => S (tsize a + tsize b) | TUnion a => S (asize a) | TChain t => S (tsize t) | _ => 1%nat end
with asize (a:arms) : nat := match a with ADef t => S (tsize t) | ACase _ t r => S (tsize t + asize r) end.
