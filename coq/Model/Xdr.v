(* XM — XDR codec over a closed descriptor grammar.  One generic encoder/decoder pair; the
   descriptors of the repository's codec (Gen/GenXdr.v, translated from nfstypes/nfs_xdr.go) and of
   RFC 1813 (Gen/GenRfc.v, translated from the RFC's prot.x) are data.  All recursion is on fuel, so
   recursive types (entry lists) need no special treatment. *)
From Coq Require Import List NArith Bool String.
From V Require Import Model.Lib.
Import ListNotations.
Open Scope N_scope.

Inductive ty :=
| TU32 | TU64 | TBool
| TFixed (n : N)                 (* opaque[n] *)
| TVar (max : option N)          (* opaque<max> / string<max> *)
| TOpt (t : ty)                  (* optional data: bool then value *)
| TArr32                         (* counted array of 32-bit words: u32 count then the words *)
| TRef (nm : string)             (* named type *)
| TSeq (items : list item)       (* struct / union body *)
with item :=
| IField (nm : string) (t : ty)
| ISwitch (on : string) (arms : list (N * list item)) (dflt : option (list item)).

Definition env := list (string * ty).
Fixpoint lookup_ty (e : env) (nm : string) : option ty :=
  match e with [] => None | (n, t) :: r => if String.eqb n nm then Some t else lookup_ty r nm end.

(* values: numbers (also booleans 0/1 and discriminants), byte strings, optional, arrays, and the
   fields of a struct/union body in wire order *)
Inductive val :=
| VN (n : N) | VB (b : bytes) | VO (o : option val) | VL (l : list val) | VS (fields : list (string * val)).

(* big-endian words *)
Fixpoint be (n : nat) (x : N) : bytes :=
  match n with O => [] | S n => be n (x / 256) ++ [byte_of_N x] end.
Fixpoint unbe (l : bytes) (acc : N) : N :=
  match l with [] => acc | b :: r => unbe r (acc * 256 + Byte.to_N b) end.

Definition pad_len (n : N) : N := (4 - n mod 4) mod 4.
Definition W32 : N := 4294967296.
Definition W64 : N := 18446744073709551616.

Fixpoint field_val (seen : list (string * val)) (nm : string) : option N :=
  match seen with
  | [] => None
  | (n, v) :: r => if String.eqb n nm then match v with VN x => Some x | _ => None end else field_val r nm
  end.

Fixpoint find_arm {A} (arms : list (N * A)) (d : N) : option A :=
  match arms with [] => None | (k, a) :: r => if k =? d then Some a else find_arm r d end.

(* words of a counted array *)
Fixpoint enc_words (l : list val) : option bytes :=
  match l with
  | [] => Some []
  | VN n :: r => if n <? W32 then match enc_words r with Some b => Some (be 4 n ++ b) | None => None end else None
  | _ :: _ => None
  end.

(* ---------- encoder ---------- *)
Section Enc.
Variable E : env.

Fixpoint enc (f : nat) (t : ty) (v : val) {struct f} : option bytes :=
  match f with O => None | S f' =>
  match t, v with
  | TU32, VN n => if n <? W32 then Some (be 4 n) else None
  | TU64, VN n => if n <? W64 then Some (be 8 n) else None
  | TBool, VN n => if n <? 2 then Some (be 4 n) else None
  | TFixed k, VB b => if lenN b =? k then Some (b ++ zeros (pad_len k)) else None
  | TVar mx, VB b =>
      if (lenN b <? W32) && (match mx with Some m => lenN b <=? m | None => true end)
      then Some (be 4 (lenN b) ++ b ++ zeros (pad_len (lenN b))) else None
  | TOpt t', VO None => Some (be 4 0)
  | TOpt t', VO (Some x) => match enc f' t' x with Some bs => Some (be 4 1 ++ bs) | None => None end
  | TArr32, VL l =>
      if lenN l <? W32 then
        match enc_words l with Some bs => Some (be 4 (lenN l) ++ bs) | None => None end
      else None
  | TRef nm, _ => match lookup_ty E nm with Some t' => enc f' t' v | None => None end
  | TSeq items, VS fs => enc_items f' items fs []
  | _, _ => None
  end end
with enc_items (f : nat) (items : list item) (fs seen : list (string * val)) {struct f} : option bytes :=
  match f with O => None | S f' =>
  match items with
  | [] => match fs with [] => Some [] | _ => None end
  | IField nm t :: rest =>
      match fs with
      | (n, v) :: fs' =>
          if String.eqb n nm then
            match enc f' t v, enc_items f' rest fs' ((n, v) :: seen) with
            | Some a, Some b => Some (a ++ b) | _, _ => None end
          else None
      | [] => None end
  | ISwitch on arms dflt :: rest =>
      match field_val seen on with
      | Some d =>
          match (match find_arm arms d with Some a => Some a | None => dflt end) with
          | Some body => enc_items f' (body ++ rest) fs seen
          | None => None end
      | None => None end
  end end.
End Enc.

(* ---------- decoder ---------- *)
Section Dec.
Variable E : env.

Definition take_bytes (n : N) (bs : bytes) : option (bytes * bytes) :=
  if n <=? lenN bs then Some (takeN n bs, dropN n bs) else None.
Definition word (n : nat) (bs : bytes) : option (N * bytes) :=
  match take_bytes (N.of_nat n) bs with Some (w, r) => Some (unbe w 0, r) | None => None end.

Fixpoint dec_words (k : nat) (bs : bytes) : option (list val * bytes) :=
  match k with
  | O => Some ([], bs)
  | S k' => match word 4 bs with
            | Some (n, r) => match dec_words k' r with Some (l, r') => Some (VN n :: l, r') | None => None end
            | None => None end
  end.

Fixpoint dec (f : nat) (t : ty) (bs : bytes) {struct f} : option (val * bytes) :=
  match f with O => None | S f' =>
  match t with
  | TU32 => match word 4 bs with Some (n, r) => Some (VN n, r) | None => None end
  | TU64 => match word 8 bs with Some (n, r) => Some (VN n, r) | None => None end
  | TBool => match word 4 bs with Some (n, r) => Some (VN (if n =? 0 then 0 else 1), r) | None => None end
  | TFixed k =>
      match take_bytes k bs with
      | Some (b, r) => match take_bytes (pad_len k) r with Some (_, r') => Some (VB b, r') | None => None end
      | None => None end
  | TVar mx =>
      match word 4 bs with
      | Some (n, r) =>
          if (match mx with Some m => n <=? m | None => true end) then
            match take_bytes n r with
            | Some (b, r1) => match take_bytes (pad_len n) r1 with Some (_, r2) => Some (VB b, r2) | None => None end
            | None => None end
          else None
      | None => None end
  | TOpt t' =>
      match word 4 bs with
      | Some (n, r) => if n =? 0 then Some (VO None, r)
                       else match dec f' t' r with Some (x, r') => Some (VO (Some x), r') | None => None end
      | None => None end
  | TArr32 =>
      match word 4 bs with
      | Some (n, r) =>
          (* a count beyond the input is refused before anything is built *)
          if n * 4 <=? lenN r then
            match dec_words (N.to_nat n) r with Some (l, r') => Some (VL l, r') | None => None end
          else None
      | None => None end
  | TRef nm => match lookup_ty E nm with Some t' => dec f' t' bs | None => None end
  | TSeq items => match dec_items f' items bs [] with Some (fs, r) => Some (VS (rev fs), r) | None => None end
  end end
with dec_items (f : nat) (items : list item) (bs : bytes) (seen : list (string * val)) {struct f}
  : option (list (string * val) * bytes) :=
  match f with O => None | S f' =>
  match items with
  | [] => Some (seen, bs)
  | IField nm t :: rest =>
      match dec f' t bs with
      | Some (v, r) => dec_items f' rest r ((nm, v) :: seen)
      | None => None end
  | ISwitch on arms dflt :: rest =>
      match field_val seen on with
      | Some d =>
          match (match find_arm arms d with Some a => Some a | None => dflt end) with
          | Some body => dec_items f' (body ++ rest) bs seen
          | None => None end
      | None => None end
  end end.
End Dec.

(* fuel that suffices for a message of a given length under descriptors of bounded nesting *)
Definition fuel_for (bs : bytes) : nat := 64 + 8 * List.length bs.
