(* Byte-level model of what go-journal's recovery reads from a raw disk image
   (wal/0circular.go recoverCircular + replay onto the home blocks): the
   logical disk of a crash image.  A model of dependency code, validated on
   every crash image against the real recovery (same logical disk digest). *)
From stdpp Require Import gmap list.
From Coq Require Import NArith.
From V Require Import Model.Lib Model.Abs.
Open Scope N_scope.

Definition LOGSZ : N := 511.
Definition LOGSTART : N := 2.

Record log_hdr := { lh_start : N; lh_end : N; lh_addrs : list N }.
Definition read_hdr (d : disk) : log_hdr :=
  let h1 := rd d 0 in
  {| lh_start := get64 (rd d 1) 0; lh_end := get64 h1 0; lh_addrs := words 511 (drop 8 h1) |}.

Fixpoint positions (n : nat) (start : N) : list N :=
  match n with O => [] | S n => start :: positions n (start + 1) end.

(* None: the header is not one the logger can have written (more than LOGSZ live entries) *)
Definition recover_log (d : disk) : option disk :=
  let h := read_hdr d in
  if (lh_end h <? lh_start h) || (LOGSZ <? lh_end h - lh_start h) then None else
  Some (fold_left (fun acc pos =>
                     let slot := pos mod LOGSZ in
                     disk_set acc (nth (N.to_nat slot) (lh_addrs h) 0) (rd d (LOGSTART + slot)))
                  (positions (N.to_nat (lh_end h - lh_start h)) (lh_start h)) d).

(* the file-system part of an image (everything after the log region) *)
Definition fs_part (d : disk) : list (N * bytes) :=
  filter (fun p => 513 <=? fst p) (map_to_list d).
