From Coq Require Import List NArith ZArith Lia Bool ZifyN ZifyNat ZifyBool.
From V Require Import Model.SimpleModel.
Import ListNotations.
Open Scope N_scope.

(* representation *)
Definition rep (ip:ino) (f:file) : Prop :=
  length (blk ip) = N.to_nat BS /\ size ip <= BS /\ f = firstn (N.to_nat (size ip)) (blk ip).

Ltac Zify.zify_post_hook ::= Z.div_mod_to_equations.

Lemma rep_len ip f : rep ip f -> lenN f = size ip.
Proof. intros (L & S & ->). unfold lenN. rewrite firstn_length. unfold BS in *. lia. Qed.

Lemma sum_overflows_spec n m : n < W -> m < W -> sum_overflows n m = (W <=? n + m).
Proof.
  intros Hn Hm. unfold sum_overflows.
  destruct (N.leb_spec W (n + m)) as [Hge|Hlt].
  - assert ((n + m) mod W = n + m - W).
    { symmetry. apply (N.mod_unique _ _ 1); unfold W in *; lia. }
    rewrite H. apply N.ltb_lt. unfold W in *. lia.
  - rewrite N.mod_small by exact Hlt. apply N.ltb_ge. lia.
Qed.

(* ---------- list plumbing ---------- *)
Section Plumb.
Local Open Scope nat_scope.
Lemma splice_length l off d : N.to_nat off + length d <= length l -> length (splice l off d) = length l.
Proof. intros H. unfold splice. rewrite !app_length, firstn_length, skipn_length. lia. Qed.

Lemma firstn_splice_ge l off d n :
  N.to_nat off + length d <= length l -> N.to_nat off + length d <= n ->
  firstn n (splice l off d) = firstn (N.to_nat off) l ++ d ++ firstn (n - (N.to_nat off + length d)) (skipn (N.to_nat off + length d) l).
Proof.
  intros H1 H2. unfold splice. rewrite firstn_app. rewrite firstn_length.
  replace (Nat.min (N.to_nat off) (length l)) with (N.to_nat off) by lia.
  rewrite (firstn_all2 (n:=n)) by (rewrite firstn_length; lia).
  f_equal. rewrite firstn_app. rewrite (firstn_all2 (n:=n - N.to_nat off)) by lia.
  f_equal. f_equal. lia.
Qed.
End Plumb.

(* ---------- refinement theorems ---------- *)
Theorem read_refines ip f offset count : rep ip f -> offset < W -> count < W ->
  i_read ip offset count = s_read f offset count.
Proof.
  intros R Ho Hc. pose proof (rep_len _ _ R) as Hl. destruct R as (L & S & ->).
  unfold i_read, s_read. rewrite Hl. destruct (N.leb_spec (size ip) offset) as [Hge|Hlt]; [reflexivity|].
  f_equal.
  - unfold sub. rewrite skipn_firstn_comm. rewrite firstn_firstn. f_equal.
    destruct (N.ltb_spec (size ip - offset) count) as [H|H]; lia.
  - destruct (N.ltb_spec (size ip - offset) count) as [H|H].
    + rewrite N.mod_small by (unfold W, BS in *; lia). f_equal. lia.
    + rewrite N.mod_small by (unfold W, BS in *; lia). f_equal. lia.
Qed.

Theorem write_refines ip f offset count data : rep ip f -> offset < W -> count < W ->
  match i_write ip offset count data with
  | Some (c, ip') => c = count /\ count = lenN data /\ exists f', s_write f offset data = Some f' /\ rep ip' f'
  | None => count <> lenN data \/ s_write f offset data = None
  end.
Proof.
  intros R Ho Hc. pose proof (rep_len _ _ R) as Hl. destruct R as (L & S & ->).
  unfold i_write. destruct (N.eqb_spec count (lenN data)) as [Ec|Nc]; simpl; [|now left].
  rewrite sum_overflows_spec by assumption. unfold s_write. rewrite Hl.
  destruct (N.leb_spec W (offset + count)) as [Hov|Hnov].
  { right. rewrite <- Ec. destruct (N.leb_spec (offset + count) BS); [unfold W, BS in *; lia|]. now rewrite andb_false_r. }
  rewrite (N.mod_small (offset + count) W) by exact Hnov.
  destruct (N.ltb_spec BS (offset + count)) as [Hbig|Hfit].
  { right. rewrite <- Ec. destruct (N.leb_spec (offset + count) BS); [lia|]. now rewrite andb_false_r. }
  destruct (N.ltb_spec (size ip) offset) as [Hhole|Hok].
  { right. destruct (N.leb_spec offset (size ip)); [lia|]. reflexivity. }
  split; [reflexivity|]. split; [exact Ec|].
  destruct (N.leb_spec offset (size ip)); [|lia]. rewrite <- Ec. destruct (N.leb_spec (offset + count) BS); [|lia]. simpl.
  eexists. split; [reflexivity|].
  assert (Hd: length data = N.to_nat count) by (unfold lenN in Ec; lia).
  assert (Hfit': (N.to_nat offset + length data <= length (blk ip))%nat) by (unfold BS in *; lia).
  split; [|split]; simpl.
  - rewrite splice_length by exact Hfit'. exact L.
  - destruct (N.ltb_spec (size ip) (offset + count)); lia.
  - destruct (N.ltb_spec (size ip) (offset + count)) as [Hext|Hin].
    + (* the write extends the file *)
      rewrite firstn_splice_ge by lia.
      replace (N.to_nat (offset + count) - (N.to_nat offset + length data))%nat with 0%nat by lia.
      rewrite firstn_firstn. replace (Nat.min (N.to_nat offset) (N.to_nat (size ip))) with (N.to_nat offset) by lia.
      f_equal. f_equal. simpl. rewrite skipn_all2; [reflexivity|]. rewrite firstn_length. lia.
    + (* overwrite inside the file *)
      rewrite firstn_splice_ge by lia. rewrite firstn_firstn.
      replace (Nat.min (N.to_nat offset) (N.to_nat (size ip))) with (N.to_nat offset) by lia.
      f_equal. f_equal. rewrite skipn_firstn_comm. reflexivity.
Qed.

(* the buffer SETATTR allocates (make([]sbyte, newsize-size)) never exceeds one block *)
Lemma setsize_alloc_bounded ip newsize : snd (i_setsize ip newsize) <= BS.
Proof.
  unfold i_setsize. destruct (N.ltb_spec BS newsize); [simpl; unfold BS; lia|].
  destruct (N.ltb_spec (size ip) newsize); [|simpl; unfold BS; lia].
  destruct (i_write _ _ _ _) as [[c ip']|]; simpl; lia.
Qed.

Lemma lenN_repeat (x:sbyte) n : lenN (repeat x (N.to_nat n)) = n.
Proof. unfold lenN. rewrite repeat_length. lia. Qed.

Theorem setsize_refines ip f newsize : rep ip f -> newsize < W ->
  match fst (i_setsize ip newsize) with
  | Some ip' => exists f', s_setsize f newsize = Some f' /\ rep ip' f'
  | None => s_setsize f newsize = None
  end.
Proof.
  intros R Hn. pose proof (rep_len _ _ R) as Hl. pose proof R as R0. destruct R as (L & S & Ef).
  unfold i_setsize, s_setsize. rewrite Hl.
  destruct (N.ltb_spec BS newsize) as [Hbig|Hsmall]; [reflexivity|].
  destruct (N.ltb_spec (size ip) newsize) as [Hgrow|Hshrink].
  - (* grow: goes through Write with a zero buffer *)
    pose proof (write_refines ip f (size ip) (newsize - size ip) (repeat 0 (N.to_nat (newsize - size ip))) R0) as WR.
    assert (size ip < W) by (unfold W, BS in *; lia). assert (newsize - size ip < W) by lia.
    specialize (WR H H0).
    destruct (i_write ip (size ip) (newsize - size ip) (repeat 0 (N.to_nat (newsize - size ip)))) as [[c ip']|] eqn:E.
    + destruct WR as (_ & _ & f' & Hs & R'). simpl.
      unfold s_write in Hs. rewrite Hl, lenN_repeat in Hs.
      destruct (N.leb_spec (size ip) (size ip)); [|lia].
      destruct (N.leb_spec (size ip + (newsize - size ip)) BS) as [Hfit|]; [|discriminate]. simpl in Hs.
      assert (Hsz: size ip' = newsize).
      { unfold i_write in E. rewrite lenN_repeat in E. rewrite N.eqb_refl in E. simpl in E.
        rewrite sum_overflows_spec in E by assumption.
        destruct (N.leb_spec W (size ip + (newsize - size ip))); [unfold W, BS in *; lia|].
        rewrite (N.mod_small (size ip + (newsize - size ip)) W) in E by lia.
        destruct (N.ltb_spec BS (size ip + (newsize - size ip))); [lia|].
        destruct (N.ltb_spec (size ip) (size ip)); [lia|].
        destruct (N.ltb_spec (size ip) (size ip + (newsize - size ip))); [|lia].
        injection E as _ <-. simpl. lia. }
      rewrite Hsz, N.eqb_refl.
      exists f'. split; [|exact R']. f_equal. injection Hs as <-.
      assert (Hlf: length f = N.to_nat (size ip)) by (unfold lenN in Hl; lia).
      rewrite (firstn_all2 (n:=N.to_nat (size ip)) f) by lia.
      rewrite skipn_all2 by lia. now rewrite app_nil_r.
    + simpl. destruct WR as [C|Hs]; [rewrite lenN_repeat in C; lia|].
      unfold s_write in Hs. rewrite Hl, lenN_repeat in Hs.
      destruct (N.leb_spec (size ip) (size ip)); [|lia].
      destruct (N.leb_spec (size ip + (newsize - size ip)) BS); [discriminate|]. lia.
  - simpl.
    eexists. split; [reflexivity|]. split; [exact L|]. split; [simpl; lia|]. simpl.
    rewrite Ef. rewrite firstn_firstn. f_equal. lia.
Qed.
Print Assumptions setsize_refines.

(* ---------- server level: the transliterated server refines the specification server ---------- *)
From stdpp Require Import gmap.
Open Scope N_scope.

Definition srep (si:istate) (ss:sstate) : Prop := forall i, rep (i_ino si i) (s_file ss i).

Definition call_in_range (c:scall) : Prop :=
  match c with
  | SGetattr _ => True
  | SSetattr _ None => True
  | SSetattr _ (Some n) => n < W
  | SRead _ off cnt => off < W /\ cnt < W
  | SWrite _ off cnt _ => off < W /\ cnt < W
  end.

Lemma srep_init : srep ∅ ∅.
Proof.
  intros i. unfold i_ino, s_file.
  replace ((∅ : istate) !! i) with (@None ino) by (symmetry; apply lookup_empty).
  replace ((∅ : sstate) !! i) with (@None file) by (symmetry; apply lookup_empty). simpl.
  unfold rep, zero_ino. cbn [size blk]. split; [apply repeat_length|]. split; [apply N.le_0_l|reflexivity].
Qed.

Lemma srep_insert si ss i ip f : srep si ss -> rep ip f -> srep (<[i:=ip]> si) (<[i:=f]> ss).
Proof.
  intros H R j. specialize (H j). unfold i_ino, s_file, istate, sstate in *. destruct (decide (i = j)) as [->|Hn].
  - rewrite (lookup_insert si j ip), (lookup_insert ss j f). exact R.
  - rewrite (lookup_insert_ne si i j ip Hn), (lookup_insert_ne ss i j f Hn). exact H.
Qed.

Theorem simple_refines si ss c : srep si ss -> call_in_range c ->
  snd (istep si c) = snd (sstep ss c) /\ srep (fst (istep si c)) (fst (sstep ss c)).
Proof.
  intros H Hr. destruct c as [i|i [n|]|i off cnt|i off cnt d]; simpl in *.
  - destruct (i =? 1); [auto|]. destruct (valid_inum i); [|auto]. simpl. split; [|auto].
    f_equal. symmetry. apply rep_len. apply H.
  - destruct (valid_inum i); [|auto].
    pose proof (setsize_refines (i_ino si i) (s_file ss i) n (H i) Hr) as R.
    destruct (fst (i_setsize (i_ino si i) n)) as [ip'|].
    + destruct R as (f' & -> & R'). simpl. split; [reflexivity|]. apply srep_insert; auto.
    + rewrite R. auto.
  - destruct (valid_inum i); auto.
  - destruct Hr as [Ho Hc]. destruct (valid_inum i); [|auto].
    rewrite (read_refines _ _ off cnt (H i) Ho Hc). destruct (s_read (s_file ss i) off cnt). auto.
  - destruct Hr as [Ho Hc]. destruct (valid_inum i); [|auto].
    pose proof (write_refines (i_ino si i) (s_file ss i) off cnt d (H i) Ho Hc) as R.
    destruct (i_write (i_ino si i) off cnt d) as [[c' ip']|].
    + destruct R as (-> & Hl & f' & Hs & R'). rewrite Hl, N.eqb_refl. simpl. rewrite Hs. simpl.
      split; [congruence|]. apply srep_insert; auto.
    + destruct R as [Hne|Hs].
      * apply N.eqb_neq in Hne. rewrite Hne. simpl. auto.
      * destruct (cnt =? lenN d); simpl; [rewrite Hs|]; auto.
Qed.

(* for whole histories: same replies, related final states *)
Fixpoint iruns (s:istate) (cs:list scall) : istate * list sreply :=
  match cs with [] => (s, []) | c :: r => let '(s1, x) := istep s c in let '(s2, xs) := iruns s1 r in (s2, x :: xs) end.
Fixpoint sruns (s:sstate) (cs:list scall) : sstate * list sreply :=
  match cs with [] => (s, []) | c :: r => let '(s1, x) := sstep s c in let '(s2, xs) := sruns s1 r in (s2, x :: xs) end.

Theorem simple_refines_history cs : forall si ss, srep si ss -> Forall call_in_range cs ->
  snd (iruns si cs) = snd (sruns ss cs) /\ srep (fst (iruns si cs)) (fst (sruns ss cs)).
Proof.
  induction cs as [|c cs IH]; intros si ss H Hr; simpl; [auto|].
  inversion Hr as [|? ? Hc Hcs]; subst.
  destruct (simple_refines si ss c H Hc) as [E R].
  destruct (istep si c) as [s1 x] eqn:Ei. destruct (sstep ss c) as [t1 y] eqn:Es. simpl in *.
  destruct (IH s1 t1 R Hcs) as [E2 R2].
  destruct (iruns s1 cs) as [s2 xs]. destruct (sruns t1 cs) as [t2 ys]. simpl in *. split; [congruence|auto].
Qed.
