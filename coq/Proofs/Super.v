From Coq Require Import NArith ZArith Lia Bool List ZifyN ZifyNat ZifyBool.
From V Require Import Gen.GenSuper Model.SuperModel.
Import ListNotations.
Open Scope N_scope.
Ltac Zify.zify_post_hook ::= Z.div_mod_to_equations.

(* ---- staged simplification: remove every wrap under the acceptance hypothesis ---- *)
Lemma w64_small x : x < W -> w64 x = x.
Proof. intros. unfold w64. now apply N.mod_small. Qed.

Lemma nInodeBlk_val sz : nInodeBlk (MkFsSuper sz) = 1024.
Proof. vm_compute. reflexivity. Qed.

Lemma NBB_val sz : sz < W -> NBlockBitmap (MkFsSuper sz) = sz / 32768 + 1.
Proof. intros H. cbn [MkFsSuper NBlockBitmap]. unfold NBITBLOCK. apply w64_small. unfold W in *. 
  assert (sz / 32768 <= sz) by (apply N.div_le_upper_bound; lia). lia. Qed.

Record simple_layout (sz:N) : Prop := {
  sl_bbs : BitmapBlockStart (MkFsSuper sz) = 513;
  sl_nbb : NBlockBitmap (MkFsSuper sz) = sz / 32768 + 1;
  sl_bis : BitmapInodeStart (MkFsSuper sz) = 514 + sz / 32768;
  sl_is  : InodeStart (MkFsSuper sz) = 515 + sz / 32768;
  sl_ds  : DataStart (MkFsSuper sz) = 1539 + sz / 32768;
  sl_ni  : NInode (MkFsSuper sz) = 32768;
  sl_lo  : 1539 + sz / 32768 <= sz;
  sl_hi  : sz / 32768 < 31229 }.

Lemma q_bound sz : sz < W -> sz / 32768 < 562949953421312.
Proof. intros H. apply N.div_lt_upper_bound; [discriminate|]. unfold W in H. lia. Qed.

Lemma accepted_simple sz : accepted sz -> simple_layout sz.
Proof.
  intros [Hw H]. pose proof (q_bound _ Hw) as Hq.
  assert (Ebbs: BitmapBlockStart (MkFsSuper sz) = 513) by reflexivity.
  pose proof (NBB_val _ Hw) as Enbb.
  assert (Ebis: BitmapInodeStart (MkFsSuper sz) = 514 + sz / 32768).
  { unfold BitmapInodeStart. rewrite Ebbs, Enbb. rewrite w64_small; unfold W; lia. }
  assert (Eis: InodeStart (MkFsSuper sz) = 515 + sz / 32768).
  { unfold InodeStart. rewrite Ebis. cbn [MkFsSuper NInodeBitmap]. unfold NINODEBITMAP. rewrite w64_small; unfold W; lia. }
  assert (Eds: DataStart (MkFsSuper sz) = 1539 + sz / 32768).
  { unfold DataStart. rewrite Eis, nInodeBlk_val. rewrite w64_small; unfold W; lia. }
  assert (Eni: NInode (MkFsSuper sz) = 32768) by (unfold NInode; rewrite nInodeBlk_val; vm_compute; reflexivity).
  unfold markAlloc_sane in H. rewrite negb_true_iff, !orb_false_iff in H. destruct H as [[H1 H2] H3].
  rewrite Eds in H1, H3. unfold MaxBnum in *. cbn [MkFsSuper Maxaddr] in *. unfold NBITBLOCK in *.
  constructor; auto; lia.
Qed.

Theorem layout_regions sz : accepted sz ->
  let fs := MkFsSuper sz in
  BitmapBlockStart fs = LOGSIZE /\
  BitmapInodeStart fs = BitmapBlockStart fs + NBlockBitmap fs /\
  InodeStart fs = BitmapInodeStart fs + 1 /\
  DataStart fs = InodeStart fs + 1024 /\
  DataStart fs <= sz /\ NInode fs = 32768 /\
  sz < NBlockBitmap fs * NBITBLOCK /\ (NBlockBitmap fs - 1) * NBITBLOCK <= sz.
Proof.
  intros Ha. destruct (accepted_simple _ Ha) as [A B C D E F G H]. cbv zeta.
  rewrite A, B, C, D, E, F. unfold LOGSIZE, NBITBLOCK. lia.
Qed.

Theorem inode_addrs sz i j : accepted sz ->
  let fs := MkFsSuper sz in i < NInode fs -> j < NInode fs ->
  InodeStart fs <= fst (Inum2Addr fs i) < DataStart fs /\
  snd (Inum2Addr fs i) + 1024 <= NBITBLOCK /\
  (i <> j -> fst (Inum2Addr fs i) <> fst (Inum2Addr fs j) \/
             snd (Inum2Addr fs i) + 1024 <= snd (Inum2Addr fs j) \/ snd (Inum2Addr fs j) + 1024 <= snd (Inum2Addr fs i)).
Proof.
  intros Ha. destruct (accepted_simple _ Ha) as [A B C D E F G H]. cbv zeta. rewrite F, D, E.
  intros Hi Hj. unfold Inum2Addr. cbn [fst snd]. rewrite D. unfold INODEBLK, INODESZ, NBITBLOCK.
  assert (forall k, k < 32768 -> w64 (515 + sz / 32768 + k / 32) = 515 + sz / 32768 + k / 32) as X.
  { intros k Hk. apply w64_small. unfold W. lia. }
  assert (forall k, w64 (w64 (k mod 32 * 128) * 8) = k mod 32 * 1024) as Y.
  { intros k. rewrite (w64_small (k mod 32 * 128)) by (unfold W; lia). rewrite w64_small by (unfold W; lia). lia. }
  rewrite !X, !Y by assumption. lia.
Qed.

Theorem mkfs_bitmap_exact sz b : accepted sz ->
  let fs := MkFsSuper sz in b < NBlockBitmap fs * NBITBLOCK ->
  mk_bit fs b = (b <? DataStart fs) || (sz <=? b).
Proof.
  intros Ha. destruct (accepted_simple _ Ha) as [A B C D E F G H]. cbv zeta. rewrite B. unfold mk_bit.
  rewrite E. unfold MaxBnum. cbn [MkFsSuper Maxaddr]. unfold NBITBLOCK. intros Hb.
  destruct (sz / 32768 =? 0) eqn:E0; lia.
Qed.
Example accepted_10000 : accepted 10000.
Proof. split; [reflexivity| vm_compute; reflexivity]. Qed.
Example not_accepted_1538 : ~ accepted 1538.
Proof. intros [_ H]. vm_compute in H. discriminate. Qed.
Example accepted_1539 : accepted 1539.
Proof. split; [reflexivity| vm_compute; reflexivity]. Qed.
Print Assumptions mkfs_bitmap_exact.
