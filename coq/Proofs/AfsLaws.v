(* Laws of the abstract file system AM (Model/Afs.v): the reference that the
   sequential-semantics properties are stated against. *)
From stdpp Require Import gmap list.
From Coq Require Import NArith ZArith Lia.
From V Require Import Model.Lib Model.Afs.
Open Scope N_scope.

(* the insertion used by the executable model is the union with a singleton *)
Lemma gs_add_union `{Countable K} (x : K) (s : gset K) : gs_add x s = {[x]} ∪ s.
Proof.
  apply set_eq. intros y. rewrite elem_of_union, elem_of_singleton.
  unfold gs_add. destruct s as [m]. unfold elem_of at 1, gset_elem_of, mapset.mapset_elem_of. simpl.
  destruct (decide (y = x)) as [->|Hne].
  - rewrite lookup_insert. split; auto.
  - rewrite lookup_insert_ne by auto. split; [auto|intros [E|E]; [contradiction|exact E]].
Qed.

Definition is_error (r : reply) : Prop :=
  match r with RStatus OK => False | RStatus _ => True | _ => False end.

Ltac cm := repeat (case_match; simpl in *; try tauto; try discriminate; try reflexivity).

(* C09 on the reference: a call answered with an error changes nothing *)
Theorem failed_call_identity P s c h : is_error (snd (step P s c h)) -> fst (step P s c h) = s.
Proof.
  destruct c; simpl; unfold do_setattr, do_read, do_write, create, remove, rename; intros H; cm.
  all: try (simpl in *; tauto).
Qed.

(* procedures the server does not support fail without effect *)
Theorem unsupported_no_effect P s h : step P s CUnsupported h = (s, RStatus NOTSUPP).
Proof. reflexivity. Qed.
Theorem exclusive_create_no_effect P s d n h : step P s (CCreate d n true) h = (s, RStatus NOTSUPP).
Proof. reflexivity. Qed.

(* a clean restart is invisible *)
Theorem restart_identity P s h : step P s CRestart h = (s, RStatus OK).
Proof. reflexivity. Qed.

(* read-only procedures never change the state *)
Definition read_only (c : call) : bool :=
  match c with
  | CGetattr _ | CLookup _ _ | CAccess _ | CReadlink _ | CRead _ _ _ | CReaddir _ _ | CCommit _ _ _
  | CFsinfo _ | CPathconf _ | CUnsupported | CNull | CRestart => true
  | _ => false end.
Theorem read_only_identity P s c h : read_only c = true -> fst (step P s c h) = s.
Proof. destruct c; simpl; try discriminate; intros _; unfold do_read; cm; try (simpl in *; tauto). Qed.

(* ---------- handles (C08) ---------- *)

(* every (inum, generation) pair ever handed out stays recorded *)
Lemma issued_mono P s c h : issued s ⊆ issued (fst (step P s c h)).
Proof.
  destruct c; simpl; unfold do_setattr, do_read, do_write, create, remove, rename, unlink, move, set_obj, del_obj;
    cm; rewrite ?gs_add_union; try set_solver.
Qed.

(* where do the objects of the next state come from?  Either the object existed with the same
   generation, or it was created by this call under a pair that had never been issued. *)
Definition gen_of (s : afs) (i : inum) : option N := o_gen <$> (objs s !! i).

Lemma lookup_set_obj_gen s i o j :
  gen_of (set_obj s i o) j = if decide (i = j) then Some (o_gen o) else gen_of s j.
Proof. unfold gen_of, set_obj; simpl. destruct (decide (i = j)); simplify_map_eq; auto. Qed.
Lemma lookup_del_obj_gen s i j :
  gen_of (del_obj s i) j = if decide (i = j) then None else gen_of s j.
Proof. unfold gen_of, del_obj; simpl. destruct (decide (i = j)); simplify_map_eq; auto. Qed.

Lemma gen_of_lookup s i o : objs s !! i = Some o -> gen_of s i = Some (o_gen o).
Proof. intros H. unfold gen_of. rewrite H. reflexivity. Qed.

Definition origin (s s' : afs) : Prop :=
  forall j g, gen_of s' j = Some g -> gen_of s j = Some g \/ ((j, g) ∉ issued s /\ (j, g) ∈ issued s').

Lemma origin_refl s : origin s s.
Proof. intros j g H; auto. Qed.

Lemma origin_set_same s i o o0 :
  objs s !! i = Some o0 -> o_gen o = o_gen o0 -> origin s (set_obj s i o).
Proof.
  intros H Hg j g. rewrite lookup_set_obj_gen. destruct (decide (i = j)) as [->|]; auto.
  intros [= <-]. left. unfold gen_of. rewrite H. simpl. congruence.
Qed.
Lemma origin_del s i : origin s (del_obj s i).
Proof. intros j g. rewrite lookup_del_obj_gen. destruct (decide (i = j)); [discriminate|auto]. Qed.
Lemma origin_trans s1 s2 s3 : issued s1 ⊆ issued s2 -> issued s2 ⊆ issued s3 ->
  origin s1 s2 -> origin s2 s3 -> origin s1 s3.
Proof.
  intros M1 M2 A B j g H. destruct (B j g H) as [H2|[H2 H3]].
  - destruct (A j g H2) as [|[? ?]]; [auto|right; split; [auto|set_solver]].
  - destruct (decide ((j, g) ∈ issued s1)); [|right; auto]. exfalso. set_solver.
Qed.

(* steps that keep the issued set and only rewrite existing objects (same generation) or delete *)
Definition quiet (s s' : afs) : Prop := issued s' = issued s /\ origin s s'.
Lemma quiet_refl s : quiet s s. Proof. split; [reflexivity|apply origin_refl]. Qed.
Lemma quiet_trans s1 s2 s3 : quiet s1 s2 -> quiet s2 s3 -> quiet s1 s3.
Proof.
  intros [I1 O1] [I2 O2]. split; [congruence|].
  apply (origin_trans s1 s2 s3); auto; [rewrite I1|rewrite I2]; reflexivity.
Qed.
Lemma quiet_set s i o o0 : objs s !! i = Some o0 -> o_gen o = o_gen o0 -> quiet s (set_obj s i o).
Proof. intros; split; [reflexivity|eapply origin_set_same; eauto]. Qed.
Lemma quiet_del s i : quiet s (del_obj s i).
Proof. split; [reflexivity|apply origin_del]. Qed.

Lemma quiet_move s d1i n1 d2i n2 fi : quiet s (move s d1i n1 d2i n2 fi).
Proof.
  unfold move.
  set (s2 := match objs s !! d1i with Some d1 => _ | None => s end).
  set (s3 := match objs s2 !! d2i with Some d2 => _ | None => s2 end).
  assert (Q2 : quiet s s2).
  { unfold s2. destruct (objs s !! d1i) eqn:E; [eapply quiet_set; eauto|apply quiet_refl]. }
  assert (Q3 : quiet s2 s3).
  { unfold s3. destruct (objs s2 !! d2i) eqn:E; [eapply quiet_set; eauto|apply quiet_refl]. }
  eapply quiet_trans; [exact Q2|]. eapply quiet_trans; [exact Q3|].
  destruct (objs s3 !! fi) eqn:E; [eapply quiet_set; eauto|apply quiet_refl].
Qed.

Lemma quiet_unlink s di d d0 n i : objs s !! di = Some d0 -> o_gen d = o_gen d0 ->
  quiet s (unlink s di d n i).
Proof.
  intros H Hg. unfold unlink. eapply quiet_trans; [|apply quiet_del].
  eapply quiet_set; eauto.
Qed.

Lemma resolve_Some P s h i o : resolve P s h = Some (i, o) -> objs s !! i = Some o.
Proof.
  unfold resolve. destruct (parse_handle h) as [[i' g]|]; [|discriminate].
  destruct (i' <? p_ninode P); [|discriminate]. destruct (objs s !! i') eqn:E; [|discriminate].
  destruct (o_gen o0 =? g); [|discriminate]. intros [= <- <-]. exact E.
Qed.

Lemma origin_create s i g di d' o d0 :
  objs s !! di = Some d0 -> o_gen d' = o_gen d0 -> o_gen o = g -> (i, g) ∉ issued s ->
  origin s {| objs := <[i := o]> (<[di := d']> (objs s)); issued := gs_add (i, g) (issued s);
              unstable_opt := unstable_opt s |}.
Proof.
  intros Hd Hg Ho Hf j g'. unfold gen_of at 1. simpl.
  destruct (decide (i = j)) as [->|Hij].
  - rewrite lookup_insert. simpl. intros [= <-]. right. rewrite Ho. split; [auto|rewrite gs_add_union; set_solver].
  - rewrite lookup_insert_ne by auto. destruct (decide (di = j)) as [->|Hdj].
    + rewrite lookup_insert. simpl. intros [= <-]. left. unfold gen_of. rewrite Hd. simpl. congruence.
    + rewrite lookup_insert_ne by auto. auto.
Qed.

Lemma fresh_not_issued P s i g : fresh P s i g = true -> (i, g) ∉ issued s.
Proof.
  unfold fresh. rewrite !andb_true_iff. intros [[[[_ H] _] _] _].
  apply negb_true_iff in H. apply bool_decide_eq_false in H. exact H.
Qed.

Lemma step_origin P s c h : origin s (fst (step P s c h)).
Proof.
  destruct c; simpl; try apply origin_refl.
  - (* getattr *) cm; apply origin_refl.
  - (* setattr *) unfold do_setattr. destruct (resolve P s h0) as [[i o]|] eqn:R; [|apply origin_refl].
    apply resolve_Some in R. cm; try apply origin_refl; eapply origin_set_same; eauto.
  - cm; apply origin_refl.
  - cm; apply origin_refl.
  - cm; apply origin_refl.
  - unfold do_read. cm; apply origin_refl.
  - (* write *) unfold do_write. destruct (resolve P s h0) as [[i o]|] eqn:R; [|apply origin_refl].
    apply resolve_Some in R. cm; try apply origin_refl; eapply origin_set_same; eauto; cm.
  - (* create *) destruct exclusive; [apply origin_refl|]. unfold create.
    destruct (resolve P s h0) as [[di d]|] eqn:R; [|apply origin_refl]. apply resolve_Some in R.
    cm; try apply origin_refl. eapply origin_create; eauto. eapply fresh_not_issued.
    match goal with H : negb (fresh _ _ _ _) = false |- _ => apply negb_false_iff in H; exact H end.
  - (* mkdir *) unfold create.
    destruct (resolve P s h0) as [[di d]|] eqn:R; [|apply origin_refl]. apply resolve_Some in R.
    cm; try apply origin_refl. eapply origin_create; eauto. eapply fresh_not_issued.
    match goal with H : negb (fresh _ _ _ _) = false |- _ => apply negb_false_iff in H; exact H end.
  - (* symlink *) unfold create.
    destruct (resolve P s h0) as [[di d]|] eqn:R; [|apply origin_refl]. apply resolve_Some in R.
    cm; try apply origin_refl. eapply origin_create; eauto. eapply fresh_not_issued.
    match goal with H : negb (fresh _ _ _ _) = false |- _ => apply negb_false_iff in H; exact H end.
  - (* remove *) unfold remove. destruct (is_dots n); [apply origin_refl|].
    destruct (resolve P s h0) as [[di d]|] eqn:R; [|apply origin_refl]. apply resolve_Some in R.
    cm; try apply origin_refl; eapply quiet_unlink; eauto.
  - (* rmdir *) unfold remove. destruct (is_dots n); [apply origin_refl|].
    destruct (resolve P s h0) as [[di d]|] eqn:R; [|apply origin_refl]. apply resolve_Some in R.
    cm; try apply origin_refl; eapply quiet_unlink; eauto.
  - (* rename *) unfold rename. cm; try apply origin_refl.
    + eapply quiet_trans; [apply quiet_del|apply quiet_move].
    + apply quiet_move.
  - cm; apply origin_refl.
  - cm; apply origin_refl.
  - cm; apply origin_refl.
  - cm; apply origin_refl.
Qed.

(* ---------- C08 on the reference ---------- *)
Definition dead (s : afs) (i g : N) : Prop := (i, g) ∈ issued s /\ gen_of s i <> Some g.

(* a handle that is dead stays dead across every later call, whatever its arguments *)
Theorem dead_forever P s c h i g : dead s i g -> dead (fst (step P s c h)) i g.
Proof.
  intros [Hi Hd]. split; [eapply issued_mono; eauto|].
  intros H. destruct (step_origin P s c h i g H) as [|[? _]]; contradiction.
Qed.

Theorem dead_forever_run P cs : forall s i g, dead s i g -> dead (run P s cs) i g.
Proof.
  induction cs as [|[c h] cs IH]; simpl; intros s i g H; [exact H|].
  apply IH. apply dead_forever. exact H.
Qed.

(* a dead handle is refused as stale by resolution *)
Lemma dead_resolve P s i g : dead s i g -> i < 2 ^ 64 -> g < 2 ^ 64 -> resolve P s (mk_handle i g) = None \/
  exists j g', parse_handle (mk_handle i g) = Some (j, g') /\ (j, g') <> (i, g).
Proof.
  intros [_ Hd] _ _. unfold resolve. destruct (parse_handle (mk_handle i g)) as [[j g']|] eqn:E; [|auto].
  destruct (decide ((j, g') = (i, g))) as [[= -> ->]|]; [|right; eauto].
  left. destruct (i <? p_ninode P); [|reflexivity].
  destruct (objs s !! i) as [o|] eqn:Eo; [|reflexivity].
  destruct (o_gen o =? g) eqn:Eg; [|reflexivity]. apply N.eqb_eq in Eg.
  exfalso. apply Hd. rewrite (gen_of_lookup _ _ _ Eo). f_equal. exact Eg.
Qed.

(* a successful creation returns a pair never issued before: no two objects ever share a handle *)
Theorem create_fresh P s d n k content hh s' a :
  create P s d n k content (HHandle hh) = (s', RHandle hh a) ->
  exists i g, parse_handle hh = Some (i, g) /\ (i, g) ∉ issued s /\ (i, g) ∈ issued s' /\ gen_of s' i = Some g.
Proof.
  unfold create. cm; intros [= <- _].
  match goal with H : parse_handle hh = Some (?i, ?g) |- _ => exists i, g end.
  split; [auto|]. split.
  - eapply fresh_not_issued. match goal with H : negb (fresh _ _ _ _) = false |- _ => apply negb_false_iff in H; exact H end.
  - split; [simpl; rewrite gs_add_union; set_solver|]. unfold gen_of; simpl. rewrite lookup_insert. reflexivity.
Qed.

(* every handle-typed argument position of every procedure *)
Definition handles_of (c : call) : list handle :=
  match c with
  | CGetattr h | CSetattr h _ _ _ | CLookup h _ | CAccess h | CReadlink h | CRead h _ _ | CWrite h _ _ _ _
  | CCreate h _ _ | CMkdir h _ | CSymlink h _ _ | CRemove h _ | CRmdir h _ | CReaddir h _ | CCommit h _ _
  | CFsinfo h | CPathconf h => [h]
  | CRename h1 _ h2 _ => [h1; h2]
  | CUnsupported | CNull | CRestart => []
  end.

(* a request carrying a handle that does not resolve fails and changes nothing ... *)
Theorem stale_everywhere P s c hi h :
  h ∈ handles_of c -> resolve P s h = None ->
  is_error (snd (step P s c hi)) /\ fst (step P s c hi) = s.
Proof.
  intros Hin Hr. destruct c; simpl in Hin; repeat (apply elem_of_cons in Hin as [->|Hin]); try (apply elem_of_nil in Hin; tauto);
    simpl; unfold do_setattr, do_read, do_write, create, remove, rename; rewrite ?Hr; cm; simpl; auto.
Qed.

(* ... and the failure is STALE unless the request is refused for its other arguments first
   (REMOVE/RMDIR/RENAME of "." or "..", exclusive CREATE) *)
Definition stale_first (c : call) : bool :=
  match c with
  | CRemove _ n | CRmdir _ n | CRename _ n _ _ => negb (is_dots n)
  | CCreate _ _ excl => negb excl
  | _ => true end.
Theorem stale_class P s c hi h :
  h ∈ handles_of c -> resolve P s h = None -> stale_first c = true ->
  snd (step P s c hi) = RStatus STALE.
Proof.
  intros Hin Hr Hf. destruct c; simpl in Hin; repeat (apply elem_of_cons in Hin as [->|Hin]); try (apply elem_of_nil in Hin; tauto);
    simpl in *; unfold do_setattr, do_read, do_write, create, remove, rename; rewrite ?Hr;
    try (apply negb_true_iff in Hf; rewrite Hf); cm; reflexivity.
Qed.

(* ---------- stability levels (C07) ---------- *)
(* the effect of a write does not depend on the stability level: unstable data is visible at once *)
Theorem write_effect_independent_of_stability P s h off cnt st1 st2 d hi :
  fst (step P s (CWrite h off cnt st1 d) hi) = fst (step P s (CWrite h off cnt st2 d) hi).
Proof. simpl. unfold do_write. cm. Qed.

Definition stable_rank (s : stable) : N := match s with Unstable => 0 | DataSync => 1 | FileSync => 2 end.
(* the committed level reported is never weaker than the level requested *)
Theorem committed_not_weaker P s h off cnt st d hi n c a :
  snd (step P s (CWrite h off cnt st d) hi) = RWritten n c a -> stable_rank st <= stable_rank c.
Proof.
  simpl. unfold do_write. cm; intros [= _ <- _]; destruct st; simpl; try lia.
  all: destruct (unstable_opt s); simpl; lia.
Qed.
(* with the unstable option off every write is reported FILE_SYNC *)
Theorem option_off_file_sync P s h off cnt st d hi n c a :
  unstable_opt s = false ->
  snd (step P s (CWrite h off cnt st d) hi) = RWritten n c a -> c = FileSync.
Proof. intros Hu. simpl. unfold do_write. rewrite Hu. cm; intros [= _ <- _]; reflexivity. Qed.
