(* The namespace invariant of the reference AM: for every history the objects form a forest hanging
   off the root in which every object other than the root has exactly one name, held by the directory
   recorded as its parent; only directories have entries.  ("." and ".." are not stored: lookup_name
   answers them from the object itself and its parent field, so they are right by construction.) *)
From stdpp Require Import gmap list.
From Coq Require Import NArith ZArith Lia.
From V Require Import Model.Lib Model.Afs Proofs.AfsLaws.
Open Scope N_scope.

Record ainv (s : afs) : Prop := {
  (* an entry of a live object: the holder is a directory, the target is live, is not the root, and
     records the holder as its parent *)
  a_ents : forall di d n i, objs s !! di = Some d -> o_ents d !! n = Some i ->
             o_kind d = KDir /\ i <> ROOT /\ exists o, objs s !! i = Some o /\ o_parent o = di;
  (* every object but the root is named by its parent *)
  a_named : forall i o, objs s !! i = Some o -> i <> ROOT ->
             exists d n, objs s !! (o_parent o) = Some d /\ o_ents d !! n = Some i;
  (* one name per object *)
  a_one : forall di d n1 n2 i, objs s !! di = Some d -> o_ents d !! n1 = Some i -> o_ents d !! n2 = Some i -> n1 = n2;
  a_root : exists o, objs s !! ROOT = Some o /\ o_kind o = KDir /\ o_parent o = ROOT;
  a_files : forall i o, objs s !! i = Some o -> o_kind o <> KDir -> o_ents o = ∅;
  (* only the root is its own parent *)
  a_self : forall i o, objs s !! i = Some o -> o_parent o = i -> i = ROOT
}.

Lemma ainv_init u : ainv (init_afs u).
Proof.
  unfold init_afs, new_obj. split; simpl.
  - intros di d n i H. apply lookup_singleton_Some in H as [<- <-]. simpl. rewrite lookup_empty. discriminate.
  - intros i o H. apply lookup_singleton_Some in H as [<- <-]. congruence.
  - intros di d n1 n2 i H. apply lookup_singleton_Some in H as [<- <-]. simpl. rewrite lookup_empty. discriminate.
  - eexists. rewrite lookup_singleton. simpl. auto.
  - intros i o H. apply lookup_singleton_Some in H as [<- <-]. simpl. congruence.
  - intros i o H. apply lookup_singleton_Some in H as [<- <-]. reflexivity.
Qed.

(* an update of an object that keeps kind, entries and parent *)
Definition same_shape (o o' : obj) : Prop :=
  o_kind o' = o_kind o /\ o_ents o' = o_ents o /\ o_parent o' = o_parent o.

Lemma ainv_set_same s i o o' : ainv s -> objs s !! i = Some o -> same_shape o o' -> ainv (set_obj s i o').
Proof.
  intros [E N U R F S] Hi (Hk & He & Hp). unfold set_obj. split; simpl.
  - intros di d n j Hd Hn. destruct (decide (di = i)) as [->|Hne].
    + rewrite lookup_insert in Hd. injection Hd as <-. rewrite He in Hn.
      destruct (E _ _ _ _ Hi Hn) as (K & Hr & o2 & Ho2 & Hp2). rewrite Hk. split; [exact K|]. split; [exact Hr|].
      destruct (decide (j = i)) as [->|Hji].
      * rewrite lookup_insert. eexists. split; [reflexivity|]. rewrite Hp. congruence.
      * rewrite lookup_insert_ne by auto. eauto.
    + rewrite lookup_insert_ne in Hd by auto.
      destruct (E _ _ _ _ Hd Hn) as (K & Hr & o2 & Ho2 & Hp2). split; [exact K|]. split; [exact Hr|].
      destruct (decide (j = i)) as [->|Hji].
      * rewrite lookup_insert. eexists. split; [reflexivity|]. rewrite Hp. congruence.
      * rewrite lookup_insert_ne by auto. eauto.
  - intros j oj Hj Hr. destruct (decide (j = i)) as [->|Hji].
    + rewrite lookup_insert in Hj. injection Hj as <-. rewrite Hp.
      destruct (N _ _ Hi Hr) as (d & n & Hd & Hn).
      destruct (decide (o_parent o = i)) as [Hpi|Hpi].
      * rewrite Hpi in *. rewrite lookup_insert. rewrite Hi in Hd. injection Hd as <-. exists o', n. rewrite He. auto.
      * rewrite lookup_insert_ne by auto. eauto.
    + rewrite lookup_insert_ne in Hj by auto. destruct (N _ _ Hj Hr) as (d & n & Hd & Hn).
      destruct (decide (o_parent oj = i)) as [Hpi|Hpi].
      * rewrite Hpi in *. rewrite lookup_insert. rewrite Hi in Hd. injection Hd as <-. exists o', n. rewrite He. auto.
      * rewrite lookup_insert_ne by auto. eauto.
  - intros di d n1 n2 j Hd H1 H2. destruct (decide (di = i)) as [->|Hne].
    + rewrite lookup_insert in Hd. injection Hd as <-. rewrite He in *. eapply U; eauto.
    + rewrite lookup_insert_ne in Hd by auto. eapply U; eauto.
  - destruct R as (r & Hr & Kr & Pr). destruct (decide (i = ROOT)) as [->|Hne].
    + rewrite lookup_insert. eexists. split; [reflexivity|]. rewrite Hi in Hr. injection Hr as <-. rewrite Hk, Hp. auto.
    + rewrite lookup_insert_ne by auto. eauto.
  - intros j oj Hj Hkj. destruct (decide (j = i)) as [->|Hji].
    + rewrite lookup_insert in Hj. injection Hj as <-. rewrite He. apply (F _ _ Hi). rewrite <- Hk. exact Hkj.
    + rewrite lookup_insert_ne in Hj by auto. eapply F; eauto.
  - intros j oj Hj Hs. destruct (decide (j = i)) as [->|Hji].
    + rewrite lookup_insert in Hj. injection Hj as <-. rewrite Hp in Hs. eapply S; eauto.
    + rewrite lookup_insert_ne in Hj by auto. eapply S; eauto.
Qed.

(* creating a fresh object i named n in directory di *)
Lemma ainv_create s di d n i o u :
  ainv s -> objs s !! di = Some d -> o_kind d = KDir -> o_ents d !! n = None ->
  objs s !! i = None -> i <> ROOT ->
  o_parent o = di -> o_ents o = ∅ ->
  ainv {| objs := <[i := o]> (<[di := with_ents d (<[n := i]> (o_ents d))]> (objs s)); issued := u; unstable_opt := unstable_opt s |}.
Proof.
  intros [E N U R F S] Hd Kd Hn Hi Hir Hp He.
  assert (Hdi : di <> i) by (intros ->; congruence).
  split; simpl.
  - intros dj dd m j Hdj Hm. destruct (decide (dj = i)) as [->|Hji].
    + rewrite lookup_insert in Hdj. injection Hdj as <-. rewrite He, lookup_empty in Hm. discriminate.
    + rewrite lookup_insert_ne in Hdj by auto. destruct (decide (dj = di)) as [->|Hjd].
      * rewrite lookup_insert in Hdj. injection Hdj as <-. simpl in *. split; [exact Kd|].
        destruct (decide (m = n)) as [->|Hmn].
        -- rewrite lookup_insert in Hm. injection Hm as <-. split; [exact Hir|]. rewrite lookup_insert. eauto.
        -- rewrite lookup_insert_ne in Hm by auto. destruct (E _ _ _ _ Hd Hm) as (_ & Hr & o2 & Ho2 & Hp2).
           split; [exact Hr|]. assert (j <> i) by (intros ->; congruence).
           rewrite lookup_insert_ne by auto. destruct (decide (j = di)) as [->|Hjd].
           ++ rewrite lookup_insert. rewrite Hd in Ho2. injection Ho2 as <-. eexists. split; [reflexivity|]. exact Hp2.
           ++ rewrite lookup_insert_ne by auto. eauto.
      * rewrite lookup_insert_ne in Hdj by auto. destruct (E _ _ _ _ Hdj Hm) as (K & Hr & o2 & Ho2 & Hp2).
        split; [exact K|]. split; [exact Hr|]. assert (j <> i) by (intros ->; congruence).
        rewrite lookup_insert_ne by auto. destruct (decide (j = di)) as [->|Hjd2].
        -- rewrite lookup_insert. rewrite Hd in Ho2. injection Ho2 as <-. eexists. split; [reflexivity|]. exact Hp2.
        -- rewrite lookup_insert_ne by auto. eauto.
  - intros j oj Hj Hr. destruct (decide (j = i)) as [->|Hji].
    + rewrite lookup_insert in Hj. injection Hj as <-. rewrite Hp. rewrite lookup_insert_ne by auto. rewrite lookup_insert.
      eexists _, n. split; [reflexivity|]. simpl. apply lookup_insert.
    + rewrite lookup_insert_ne in Hj by auto.
      assert (G : forall oj0, objs s !! j = Some oj0 -> exists d0 n0,
                 (<[i:=o]> (<[di:=with_ents d (<[n:=i]> (o_ents d))]> (objs s))) !! o_parent oj0 = Some d0 /\ o_ents d0 !! n0 = Some j).
      { intros oj0 Hj0. destruct (N _ _ Hj0 Hr) as (d0 & n0 & Hd0 & Hn0).
        assert (o_parent oj0 <> i) by (intros Heq; rewrite Heq in Hd0; congruence).
        rewrite lookup_insert_ne by auto. destruct (decide (o_parent oj0 = di)) as [Hpd|Hpd].
        - rewrite Hpd in *. rewrite lookup_insert. rewrite Hd in Hd0. injection Hd0 as <-.
          eexists _, n0. split; [reflexivity|]. simpl. rewrite lookup_insert_ne; [exact Hn0|]. intros ->. congruence.
        - rewrite lookup_insert_ne by auto. eauto. }
      destruct (decide (j = di)) as [->|Hjd].
      * rewrite lookup_insert in Hj. injection Hj as <-. simpl. apply (G d Hd).
      * rewrite lookup_insert_ne in Hj by auto. apply (G oj Hj).
  - intros dj dd n1 n2 j Hdj H1 H2. destruct (decide (dj = i)) as [->|Hji].
    + rewrite lookup_insert in Hdj. injection Hdj as <-. rewrite He, lookup_empty in H1. discriminate.
    + rewrite lookup_insert_ne in Hdj by auto. destruct (decide (dj = di)) as [->|Hjd].
      * rewrite lookup_insert in Hdj. injection Hdj as <-. simpl in *.
        destruct (decide (n1 = n)) as [->|H1n]; destruct (decide (n2 = n)) as [->|H2n]; auto.
        -- rewrite lookup_insert in H1. injection H1 as <-. rewrite lookup_insert_ne in H2 by auto.
           destruct (E _ _ _ _ Hd H2) as (_ & _ & o2 & Ho2 & _). congruence.
        -- rewrite lookup_insert in H2. injection H2 as <-. rewrite lookup_insert_ne in H1 by auto.
           destruct (E _ _ _ _ Hd H1) as (_ & _ & o2 & Ho2 & _). congruence.
        -- rewrite lookup_insert_ne in H1, H2 by auto. eapply U; eauto.
      * rewrite lookup_insert_ne in Hdj by auto. eapply U; eauto.
  - destruct R as (r & Hr & Kr & Pr). rewrite lookup_insert_ne by auto.
    destruct (decide (di = ROOT)) as [->|Hne].
    + rewrite lookup_insert. rewrite Hd in Hr. injection Hr as <-. eexists. split; [reflexivity|]. simpl. auto.
    + rewrite lookup_insert_ne by auto. eauto.
  - intros j oj Hj Hk. destruct (decide (j = i)) as [->|Hji].
    + rewrite lookup_insert in Hj. injection Hj as <-. exact He.
    + rewrite lookup_insert_ne in Hj by auto. destruct (decide (j = di)) as [->|Hjd].
      * rewrite lookup_insert in Hj. injection Hj as <-. simpl in Hk. congruence.
      * rewrite lookup_insert_ne in Hj by auto. eapply F; eauto.
  - intros j oj Hj Hs. destruct (decide (j = i)) as [->|Hji].
    + rewrite lookup_insert in Hj. injection Hj as <-. congruence.
    + rewrite lookup_insert_ne in Hj by auto. destruct (decide (j = di)) as [->|Hjd].
      * rewrite lookup_insert in Hj. injection Hj as <-. simpl in Hs. eapply S; eauto.
      * rewrite lookup_insert_ne in Hj by auto. eapply S; eauto.
Qed.

(* removing the (childless) object i named n in directory di *)
Lemma ainv_unlink s di d n i o :
  ainv s -> objs s !! di = Some d -> o_ents d !! n = Some i -> objs s !! i = Some o -> o_ents o = ∅ ->
  ainv (unlink s di d n i).
Proof.
  intros [E N U R F S] Hd Hn Hi He. unfold unlink, del_obj, set_obj. simpl.
  destruct (E _ _ _ _ Hd Hn) as (Kd & Hir & o' & Hi' & Hp). rewrite Hi in Hi'. injection Hi' as <-.
  assert (Hdi : di <> i). { intros ->. apply Hir. eapply S; eauto. }
  split; simpl.
  - intros dj dd m j Hdj Hm. apply lookup_delete_Some in Hdj as [Hji Hdj].
    destruct (decide (dj = di)) as [->|Hjd].
    + rewrite lookup_insert in Hdj. injection Hdj as <-. simpl in *.
      apply lookup_delete_Some in Hm as [Hmn Hm].
      destruct (E _ _ _ _ Hd Hm) as (K & Hr & o2 & Ho2 & Hp2). split; [exact K|]. split; [exact Hr|].
      assert (j <> i). { intros Hji2. subst j. apply Hmn. exact (U _ _ _ _ _ Hd Hn Hm). }
      rewrite lookup_delete_ne by auto. destruct (decide (j = di)) as [->|Hjdi].
      * rewrite lookup_insert. rewrite Hd in Ho2. injection Ho2 as <-. eexists. split; [reflexivity|]. exact Hp2.
      * rewrite lookup_insert_ne by auto. eauto.
    + rewrite lookup_insert_ne in Hdj by auto.
      destruct (E _ _ _ _ Hdj Hm) as (K & Hr & o2 & Ho2 & Hp2). split; [exact K|]. split; [exact Hr|].
      assert (j <> i). { intros ->. rewrite Hi in Ho2. injection Ho2 as <-. congruence. }
      rewrite lookup_delete_ne by auto. destruct (decide (j = di)) as [->|Hjdi].
      * rewrite lookup_insert. rewrite Hd in Ho2. injection Ho2 as <-. eexists. split; [reflexivity|]. exact Hp2.
      * rewrite lookup_insert_ne by auto. eauto.
  - intros j oj Hj Hr. apply lookup_delete_Some in Hj as [Hji Hj].
    assert (G : forall oj0, objs s !! j = Some oj0 -> exists d0 n0,
               delete i (<[di:=with_ents d (delete n (o_ents d))]> (objs s)) !! o_parent oj0 = Some d0 /\ o_ents d0 !! n0 = Some j).
    { intros oj0 Hj0. destruct (N _ _ Hj0 Hr) as (d0 & n0 & Hd0 & Hn0).
      assert (o_parent oj0 <> i). { intros Heq. rewrite Heq in Hd0. rewrite Hi in Hd0. injection Hd0 as <-. rewrite He, lookup_empty in Hn0. discriminate. }
      rewrite lookup_delete_ne by auto. destruct (decide (o_parent oj0 = di)) as [Hpd|Hpd].
      - rewrite Hpd in *. rewrite lookup_insert. rewrite Hd in Hd0. injection Hd0 as <-.
        eexists _, n0. split; [reflexivity|]. simpl. rewrite lookup_delete_ne; [exact Hn0|]. intros <-. congruence.
      - rewrite lookup_insert_ne by auto. eauto. }
    destruct (decide (j = di)) as [->|Hjd].
    + rewrite lookup_insert in Hj. injection Hj as <-. simpl. apply (G d Hd).
    + rewrite lookup_insert_ne in Hj by auto. apply (G oj Hj).
  - intros dj dd n1 n2 j Hdj H1 H2. apply lookup_delete_Some in Hdj as [Hji Hdj].
    destruct (decide (dj = di)) as [->|Hjd].
    + rewrite lookup_insert in Hdj. injection Hdj as <-. simpl in *.
      apply lookup_delete_Some in H1 as [_ H1]. apply lookup_delete_Some in H2 as [_ H2]. exact (U _ _ _ _ _ Hd H1 H2).
    + rewrite lookup_insert_ne in Hdj by auto. eapply U; eauto.
  - destruct R as (r & Hr & Kr & Pr). rewrite lookup_delete_ne by auto.
    destruct (decide (di = ROOT)) as [->|Hne].
    + rewrite lookup_insert. rewrite Hd in Hr. injection Hr as <-. eexists. split; [reflexivity|]. simpl. auto.
    + rewrite lookup_insert_ne by auto. eauto.
  - intros j oj Hj Hk. apply lookup_delete_Some in Hj as [Hji Hj]. destruct (decide (j = di)) as [->|Hjd].
    + rewrite lookup_insert in Hj. injection Hj as <-. simpl in Hk. congruence.
    + rewrite lookup_insert_ne in Hj by auto. eapply F; eauto.
  - intros j oj Hj Hs. apply lookup_delete_Some in Hj as [Hji Hj]. destruct (decide (j = di)) as [->|Hjd].
    + rewrite lookup_insert in Hj. injection Hj as <-. simpl in Hs. eapply S; eauto.
    + rewrite lookup_insert_ne in Hj by auto. eapply S; eauto.
Qed.

(* ---------- rename: the object fi, named n1 in d1i, becomes n2 in d2i ---------- *)
Lemma move_objs s d1i n1 d2i n2 fi d1 d2 fo :
  objs s !! d1i = Some d1 -> objs s !! d2i = Some d2 -> objs s !! fi = Some fo -> fi <> d1i -> fi <> d2i ->
  let d1' := with_ents d1 (delete n1 (o_ents d1)) in
  let d2c := if decide (d1i = d2i) then d1' else d2 in
  objs (move s d1i n1 d2i n2 fi) =
    <[fi := with_parent fo d2i]> (<[d2i := with_ents d2c (<[n2 := fi]> (o_ents d2c))]> (<[d1i := d1']> (objs s))).
Proof.
  intros H1 H2 Hf Hf1 Hf2 d1' d2c. unfold move. rewrite H1. fold d1'.
  set (s2 := set_obj s d1i d1').
  assert (L2 : objs s2 !! d2i = Some d2c).
  { unfold s2, set_obj. cbn [objs]. unfold d2c. destruct (decide (d1i = d2i)) as [->|Hne]; [apply lookup_insert|rewrite lookup_insert_ne by auto; exact H2]. }
  rewrite L2.
  set (s3 := set_obj s2 d2i (with_ents d2c (<[n2 := fi]> (o_ents d2c)))).
  assert (L3 : objs s3 !! fi = Some fo).
  { unfold s3, s2, set_obj. cbn [objs]. rewrite !lookup_insert_ne by auto. exact Hf. }
  rewrite L3. reflexivity.
Qed.

Lemma ainv_move s d1i n1 d2i n2 fi d1 d2 fo :
  ainv s ->
  objs s !! d1i = Some d1 -> objs s !! d2i = Some d2 -> objs s !! fi = Some fo ->
  o_kind d2 = KDir -> o_ents d1 !! n1 = Some fi -> fi <> d2i ->
  (if decide (d1i = d2i) then delete n1 (o_ents d1) else o_ents d2) !! n2 = None ->
  ainv (move s d1i n1 d2i n2 fi).
Proof.
  intros I H1 H2 Hf K2 Hn1 Hf2 Hn2. pose proof I as [E N U R F S].
  destruct (E _ _ _ _ H1 Hn1) as (K1 & Hfr & fo' & Hf' & Hpf). rewrite Hf in Hf'. injection Hf' as <-.
  assert (Hf1 : fi <> d1i). { intros ->. apply Hfr. eapply S; eauto. }
  set (d1' := with_ents d1 (delete n1 (o_ents d1))).
  set (d2c := if decide (d1i = d2i) then d1' else d2).
  set (d2' := with_ents d2c (<[n2 := fi]> (o_ents d2c))).
  set (fo' := with_parent fo d2i).
  assert (Hobjs : objs (move s d1i n1 d2i n2 fi) = <[fi := fo']> (<[d2i := d2']> (<[d1i := d1']> (objs s))))
    by (apply move_objs; assumption).
  (* lookups in the new state *)
  assert (Lk : forall k, objs (move s d1i n1 d2i n2 fi) !! k =
                if decide (k = fi) then Some fo' else if decide (k = d2i) then Some d2' else
                if decide (k = d1i) then Some d1' else objs s !! k).
  { intros k. rewrite Hobjs. destruct (decide (k = fi)) as [->|]; [apply lookup_insert|rewrite lookup_insert_ne by auto].
    destruct (decide (k = d2i)) as [->|]; [apply lookup_insert|rewrite lookup_insert_ne by auto].
    destruct (decide (k = d1i)) as [->|]; [apply lookup_insert|rewrite lookup_insert_ne by auto]. reflexivity. }
  (* shape facts *)
  assert (Ed2c : o_ents d2c !! n2 = None).
  { unfold d2c. destruct (decide (d1i = d2i)); [exact Hn2|exact Hn2]. }
  assert (Kd2c : o_kind d2c = KDir).
  { unfold d2c. destruct (decide (d1i = d2i)); [exact K1|exact K2]. }
  assert (Pd2c : o_parent d2c = o_parent d2).
  { unfold d2c. destruct (decide (d1i = d2i)) as [e|]; [|reflexivity]. subst d2i. rewrite H1 in H2. injection H2 as <-. reflexivity. }
  (* entries of the new objects in terms of the old ones *)
  assert (Ents : forall k ok m j, objs (move s d1i n1 d2i n2 fi) !! k = Some ok -> o_ents ok !! m = Some j ->
            (k = d2i /\ m = n2 /\ j = fi) \/
            (exists ok0, objs s !! k = Some ok0 /\ o_ents ok0 !! m = Some j /\ o_kind ok = o_kind ok0 /\ ~ (k = d1i /\ m = n1))).
  { intros k ok m j Hk Hm. rewrite Lk in Hk.
    destruct (decide (k = fi)) as [->|Hkf].
    { injection Hk as <-. right. exists fo. unfold fo' in Hm. simpl in Hm. split; [exact Hf|]. split; [exact Hm|]. split; [reflexivity|]. intros [e _]. contradiction. }
    destruct (decide (k = d2i)) as [->|Hk2].
    { injection Hk as <-. unfold d2' in Hm. simpl in Hm. destruct (decide (m = n2)) as [->|Hmn].
      - rewrite lookup_insert in Hm. injection Hm as <-. left. auto.
      - rewrite lookup_insert_ne in Hm by auto. right. unfold d2c in Hm |- *.
        destruct (decide (d1i = d2i)) as [e|ne].
        + subst d2i. unfold d1' in Hm. simpl in Hm. apply lookup_delete_Some in Hm as [Hmn1 Hm].
          exists d1. split; [exact H1|]. split; [exact Hm|]. split; [simpl; reflexivity|]. intros [_ e]. congruence.
        + exists d2. split; [exact H2|]. split; [exact Hm|]. split; [simpl; reflexivity|]. intros [e _]. congruence. }
    destruct (decide (k = d1i)) as [->|Hk1].
    { injection Hk as <-. unfold d1' in Hm. simpl in Hm. apply lookup_delete_Some in Hm as [Hmn1 Hm].
      right. exists d1. split; [exact H1|]. split; [exact Hm|]. split; [reflexivity|]. intros [_ e]. congruence. }
    right. exists ok. split; [exact Hk|]. split; [exact Hm|]. split; [reflexivity|]. intros [e _]. contradiction. }
  (* parents of the new objects *)
  assert (Par : forall k ok, objs (move s d1i n1 d2i n2 fi) !! k = Some ok ->
            (k = fi /\ o_parent ok = d2i) \/ (k <> fi /\ exists ok0, objs s !! k = Some ok0 /\ o_parent ok = o_parent ok0)).
  { intros k ok Hk. rewrite Lk in Hk. destruct (decide (k = fi)) as [->|Hkf]; [injection Hk as <-; left; auto|].
    right. split; [exact Hkf|]. destruct (decide (k = d2i)) as [->|Hk2].
    { injection Hk as <-. exists d2. split; [exact H2|]. unfold d2'. simpl. exact Pd2c. }
    destruct (decide (k = d1i)) as [->|Hk1]; [injection Hk as <-; exists d1; auto|]. eauto. }
  assert (Live : forall k ok0, objs s !! k = Some ok0 -> exists ok, objs (move s d1i n1 d2i n2 fi) !! k = Some ok).
  { intros k ok0 Hk. rewrite Lk. repeat (destruct (decide _)); eauto. }
  split.
  - (* a_ents *)
    intros k ok m j Hk Hm. destruct (Ents _ _ _ _ Hk Hm) as [(-> & -> & ->)|(ok0 & Hk0 & Hm0 & Kk & Hnot)].
    + rewrite Lk in Hk. destruct (decide (d2i = fi)); [congruence|]. destruct (decide (d2i = d2i)); [|congruence].
      injection Hk as <-. split; [unfold d2'; simpl; exact Kd2c|]. split; [exact Hfr|].
      exists fo'. rewrite Lk. destruct (decide (fi = fi)); [|congruence]. auto.
    + destruct (E _ _ _ _ Hk0 Hm0) as (K0 & Hjr & oj & Hoj & Hpj). split; [congruence|]. split; [exact Hjr|].
      destruct (Live _ _ Hoj) as (oj' & Hoj'). exists oj'. split; [exact Hoj'|].
      destruct (Par _ _ Hoj') as [(-> & Hp)|(Hjf & oj0 & Hoj0 & Hp)].
      * (* the target is fi: then (k, m) was (d1i, n1), excluded *)
        exfalso. rewrite Hf in Hoj. injection Hoj as <-. rewrite Hpf in Hpj. subst k.
        apply Hnot. split; [reflexivity|]. rewrite H1 in Hk0. injection Hk0 as <-. exact (U _ _ _ _ _ H1 Hm0 Hn1).
      * rewrite Hoj in Hoj0. injection Hoj0 as <-. congruence.
  - (* a_named *)
    intros k ok Hk Hkr. destruct (Par _ _ Hk) as [(-> & Hp)|(Hkf & ok0 & Hk0 & Hp)].
    + rewrite Hp. exists d2', n2. rewrite Lk. destruct (decide (d2i = fi)); [congruence|]. destruct (decide (d2i = d2i)); [|congruence].
      split; [reflexivity|]. unfold d2'. simpl. apply lookup_insert.
    + rewrite Hp. destruct (N _ _ Hk0 Hkr) as (dp & m & Hdp & Hm).
      (* the parent of k is neither changed in kind nor loses the entry m (m names k <> fi) *)
      rewrite Lk. destruct (decide (o_parent ok0 = fi)) as [e|nf].
      { rewrite e in Hdp. rewrite Hf in Hdp. injection Hdp as <-. exists fo', m. split; [reflexivity|]. unfold fo'. simpl. exact Hm. }
      destruct (decide (o_parent ok0 = d2i)) as [e|n2i].
      { rewrite e in Hdp. exists d2', m. split; [reflexivity|]. unfold d2'. simpl.
        assert (m <> n2 \/ True) by auto.
        destruct (decide (m = n2)) as [->|Hmn].
        - (* n2 was free in d2c, so k cannot have been named n2 there *)
          exfalso. unfold d2c in Ed2c. destruct (decide (d1i = d2i)) as [e2|ne2].
          + subst d2i. rewrite H1 in Hdp. injection Hdp as <-. unfold d1' in Ed2c. simpl in Ed2c.
            apply lookup_delete_None in Ed2c as [->|Ed]; [|congruence].
            assert (k = fi) by congruence. contradiction.
          + rewrite H2 in Hdp. injection Hdp as <-. congruence.
        - rewrite lookup_insert_ne by auto. unfold d2c. destruct (decide (d1i = d2i)) as [e2|ne2].
          + subst d2i. rewrite H1 in Hdp. injection Hdp as <-. unfold d1'. simpl. rewrite lookup_delete_ne; [exact Hm|].
            intros <-. assert (k = fi) by congruence. contradiction.
          + rewrite H2 in Hdp. injection Hdp as <-. exact Hm. }
      destruct (decide (o_parent ok0 = d1i)) as [e|n1i].
      { rewrite e in Hdp. rewrite H1 in Hdp. injection Hdp as <-. exists d1', m. split; [reflexivity|]. unfold d1'. simpl.
        rewrite lookup_delete_ne; [exact Hm|]. intros <-. assert (k = fi) by congruence. contradiction. }
      eauto.
  - (* a_one *)
    intros k ok m1 m2 j Hk Hm1 Hm2.
    destruct (Ents _ _ _ _ Hk Hm1) as [(ea & eb & ec)|(ok1 & Hk1 & Hm1' & _ & Hnot1)];
    destruct (Ents _ _ _ _ Hk Hm2) as [(e1 & e2 & e3)|(ok2 & Hk2 & Hm2' & _ & Hnot2)].
    + congruence.
    + (* n2 -> fi and an old entry m2 -> fi in d2i: the old one must be (d1i, n1) *)
      exfalso. rewrite ec in Hm2'. rewrite ea in Hk2. destruct (E _ _ _ _ Hk2 Hm2') as (_ & _ & o3 & Ho3 & Hp3). rewrite Hf in Ho3. injection Ho3 as <-.
      rewrite Hpf in Hp3. apply Hnot2. split; [congruence|]. rewrite <- Hp3 in Hk2. rewrite H1 in Hk2. injection Hk2 as <-. exact (U _ _ _ _ _ H1 Hm2' Hn1).
    + exfalso. rewrite e3 in Hm1'. rewrite e1 in Hk1. destruct (E _ _ _ _ Hk1 Hm1') as (_ & _ & o3 & Ho3 & Hp3). rewrite Hf in Ho3. injection Ho3 as <-.
      rewrite Hpf in Hp3. apply Hnot1. split; [congruence|]. rewrite <- Hp3 in Hk1. rewrite H1 in Hk1. injection Hk1 as <-. exact (U _ _ _ _ _ H1 Hm1' Hn1).
    + rewrite Hk1 in Hk2. injection Hk2 as <-. exact (U _ _ _ _ _ Hk1 Hm1' Hm2').
  - (* a_root *)
    destruct R as (r & Hr & Kr & Pr). destruct (Live _ _ Hr) as (r' & Hr'). exists r'. split; [exact Hr'|].
    destruct (Par _ _ Hr') as [(e & _)|(_ & r0 & Hr0 & Hp)]; [congruence|]. rewrite Hr in Hr0. injection Hr0 as <-.
    split; [|congruence]. rewrite Lk in Hr'. destruct (decide (ROOT = fi)); [congruence|].
    destruct (decide (ROOT = d2i)); [injection Hr' as <-; unfold d2'; simpl; exact Kd2c|].
    destruct (decide (ROOT = d1i)); [injection Hr' as <-; exact K1|]. congruence.
  - (* a_files *)
    intros k ok Hk Hkk. rewrite Lk in Hk. destruct (decide (k = fi)) as [->|].
    { injection Hk as <-. unfold fo'. simpl. apply (F _ _ Hf). exact Hkk. }
    destruct (decide (k = d2i)); [injection Hk as <-; unfold d2' in Hkk; simpl in Hkk; congruence|].
    destruct (decide (k = d1i)); [injection Hk as <-; unfold d1' in Hkk; simpl in Hkk; congruence|]. eapply F; eauto.
  - (* a_self *)
    intros k ok Hk Hs. destruct (Par _ _ Hk) as [(-> & Hp)|(_ & ok0 & Hk0 & Hp)]; [congruence|]. eapply S; eauto. congruence.
Qed.

(* replacing an existing target ti: deleting it outright and then moving gives the same state as
   unlinking it properly first *)
Lemma move_del_unlink s d1i n1 d2i n2 fi ti d1 d2 fo :
  objs s !! d1i = Some d1 -> objs s !! d2i = Some d2 -> objs s !! fi = Some fo ->
  fi <> d1i -> fi <> d2i -> ti <> d1i -> ti <> d2i -> ti <> fi ->
  move (del_obj s ti) d1i n1 d2i n2 fi = move (unlink s d2i d2 n2 ti) d1i n1 d2i n2 fi.
Proof.
  intros H1 H2 Hf Hf1 Hf2 Ht1 Ht2 Htf.
  assert (EQ : forall a b : afs, objs a = objs b -> issued a = issued b -> unstable_opt a = unstable_opt b -> a = b).
  { intros [] []; simpl; intros -> -> ->; reflexivity. }
  apply EQ; [|unfold move, unlink, del_obj, set_obj; repeat (destruct (_ !! _); simpl); reflexivity ..].
  set (d2u := with_ents d2 (delete n2 (o_ents d2))).
  set (d1u := if decide (d1i = d2i) then d2u else d1).
  rewrite (move_objs (del_obj s ti) d1i n1 d2i n2 fi d1 d2 fo);
    [|unfold del_obj; simpl; rewrite lookup_delete_ne by auto; assumption ..|assumption|assumption].
  rewrite (move_objs (unlink s d2i d2 n2 ti) d1i n1 d2i n2 fi d1u d2u fo); [| | | |assumption|assumption].
  2:{ unfold unlink, del_obj, set_obj; simpl. rewrite lookup_delete_ne by auto. unfold d1u.
      destruct (decide (d1i = d2i)) as [->|]; [apply lookup_insert|rewrite lookup_insert_ne by auto; exact H1]. }
  2:{ unfold unlink, del_obj, set_obj; simpl. rewrite lookup_delete_ne by auto. apply lookup_insert. }
  2:{ unfold unlink, del_obj, set_obj; simpl. rewrite lookup_delete_ne by auto. rewrite lookup_insert_ne by auto. exact Hf. }
  unfold unlink, del_obj, set_obj. cbn [objs]. fold d2u.
  apply map_eq. intros k.
  destruct (decide (k = fi)) as [->|Hkf]; [rewrite !lookup_insert; reflexivity|rewrite !(lookup_insert_ne _ fi) by auto].
  destruct (decide (k = d2i)) as [->|Hk2].
  { rewrite !lookup_insert. f_equal. unfold d1u. destruct (decide (d1i = d2i)) as [e|ne].
    - subst d2i. rewrite H1 in H2. injection H2 as <-. unfold with_ents, d2u. simpl. f_equal.
      apply map_eq. intros m. destruct (decide (m = n2)) as [->|]; [rewrite !lookup_insert; reflexivity|rewrite !lookup_insert_ne by auto].
      destruct (decide (m = n1)) as [->|]; [rewrite !lookup_delete; reflexivity|rewrite !lookup_delete_ne by auto]. reflexivity.
    - unfold with_ents, d2u. simpl. f_equal. rewrite insert_delete_insert. reflexivity. }
  rewrite !(lookup_insert_ne _ d2i) by auto.
  destruct (decide (k = d1i)) as [->|Hk1].
  { rewrite !lookup_insert. unfold d1u. destruct (decide (d1i = d2i)); [congruence|reflexivity]. }
  rewrite !(lookup_insert_ne _ d1i) by auto.
  destruct (decide (k = ti)) as [->|Hkt]; [rewrite !lookup_delete; reflexivity|rewrite !lookup_delete_ne by auto].
  rewrite lookup_insert_ne by auto. reflexivity.
Qed.

Section Step.
Variable P : params.

Lemma is_ancestor_self s fuel i : is_ancestor s fuel i i = true.
Proof. destruct fuel; simpl; rewrite N.eqb_refl; reflexivity. Qed.

Lemma fresh_facts s i g : fresh P s i g = true -> objs s !! i = None /\ i <> ROOT.
Proof.
  unfold fresh. rewrite !andb_true_iff. intros [[[[H _] H2] _] _].
  apply negb_true_iff, bool_decide_eq_false in H. apply N.leb_le in H2. split.
  - destruct (objs s !! i); [exfalso; apply H; eauto|reflexivity].
  - unfold ROOT. lia.
Qed.

Lemma look_inj (m : gmap inum obj) i a b : m !! i = Some a -> m !! i = Some b -> a = b.
Proof. congruence. Qed.

Lemma ainv_rename s h1 n1 h2 n2 : ainv s -> ainv (fst (rename P s h1 n1 h2 n2)).
Proof.
  intros I. unfold rename. destruct (is_dots n1); [exact I|].
  destruct (resolve P s h1) as [[d1i d1]|] eqn:R1; [|exact I].
  destruct (resolve P s h2) as [[d2i d2]|] eqn:R2; [|exact I].
  apply resolve_Some in R1, R2.
  destruct (negb (is_dir d1) || negb (is_dir d2)) eqn:Kd; [exact I|].
  apply orb_false_iff in Kd as [K1 K2]. apply negb_false_iff, bool_decide_eq_true in K1, K2.
  destruct (o_ents d1 !! n1) as [fi|] eqn:Hn1; [|exact I].
  destruct (negb (wf_name P n2)); [exact I|].
  destruct (objs s !! fi) as [fo|] eqn:Hf; [|exact I].
  destruct (is_dir fo && is_ancestor s (N.to_nat (p_ninode P)) fi d2i) eqn:Anc; [exact I|].
  pose proof I as [E N U R F S].
  destruct (E _ _ _ _ R1 Hn1) as (_ & Hfr & fo' & Hf' & Hpf). pose proof (look_inj _ _ _ _ Hf Hf') as <-.
  assert (Hf1 : fi <> d1i). { intros ->. apply Hfr. eapply S; eauto. }
  assert (Hf2 : fi <> d2i).
  { intros ->. rewrite is_ancestor_self, andb_true_r in Anc. pose proof (look_inj _ _ _ _ Hf R2) as <-.
    unfold is_dir in Anc. apply bool_decide_eq_false in Anc. contradiction. }
  destruct (o_ents d2 !! n2) as [ti|] eqn:Hn2.
  - destruct (ti =? fi) eqn:Etf; [exact I|]. apply N.eqb_neq in Etf.
    destruct (objs s !! ti) as [to|] eqn:Ht; [|exact I].
    destruct (negb (bool_decide (o_kind to = o_kind fo))) eqn:Kk; [exact I|].
    apply negb_false_iff, bool_decide_eq_true in Kk.
    destruct (is_dir to && negb (bool_decide (o_ents to = ∅))) eqn:Em; [exact I|].
    simpl.
    assert (Hte : o_ents to = ∅).
    { destruct (decide (o_kind to = KDir)) as [Kt|Kt].
      - unfold is_dir in Em. rewrite (bool_decide_eq_true_2 _ Kt) in Em. simpl in Em.
        apply negb_false_iff, bool_decide_eq_true in Em. exact Em.
      - eapply F; eauto. }
    destruct (E _ _ _ _ R2 Hn2) as (_ & Htr & to' & Ht' & Hpt). assert (X : Some to' = Some to) by (transitivity (objs s !! ti); [symmetry; exact Ht'|exact Ht]). injection X as ->.
    assert (Ht2 : ti <> d2i). { intros ->. apply Htr. eapply S; eauto. }
    assert (Ht1 : ti <> d1i).
    { intros ->. assert (X : Some to = Some d1) by (transitivity (objs s !! d1i); [symmetry; exact Ht|exact R1]).
      injection X as ->. rewrite Hte, lookup_empty in Hn1. discriminate. }
    rewrite (move_del_unlink s d1i n1 d2i n2 fi ti d1 d2 fo) by assumption.
    assert (Iu : ainv (unlink s d2i d2 n2 ti)) by (eapply ainv_unlink; eauto).
    assert (Nn : d1i = d2i -> n1 <> n2). { intros e <-. pose proof R2 as R2'. rewrite <- e in R2'. pose proof (look_inj _ _ _ _ R1 R2') as <-. clear R2'. apply Etf.
      assert (X : Some ti = Some fi) by (transitivity (o_ents d1 !! n1); [symmetry; exact Hn2|exact Hn1]). injection X; auto. }
    set (d2u := with_ents d2 (delete n2 (o_ents d2))).
    eapply (ainv_move _ d1i n1 d2i n2 fi (if decide (d1i = d2i) then d2u else d1) d2u fo Iu).
    + unfold unlink, del_obj, set_obj; simpl. rewrite lookup_delete_ne by auto.
      destruct (decide (d1i = d2i)) as [->|]; [apply lookup_insert|rewrite lookup_insert_ne by auto; exact R1].
    + unfold unlink, del_obj, set_obj; simpl. rewrite lookup_delete_ne by auto. apply lookup_insert.
    + unfold unlink, del_obj, set_obj; simpl. rewrite lookup_delete_ne by auto. rewrite lookup_insert_ne by auto. exact Hf.
    + exact K2.
    + destruct (decide (d1i = d2i)) as [e|]; [|exact Hn1]. unfold d2u. simpl. rewrite lookup_delete_ne by (intros X; apply (Nn e); first [exact X|symmetry; exact X]).
      pose proof R2 as R2'. rewrite <- e in R2'. pose proof (look_inj _ _ _ _ R1 R2') as <-. clear R2'. exact Hn1.
    + exact Hf2.
    + destruct (decide (d1i = d2i)) as [e|].
      * unfold d2u. simpl. rewrite lookup_delete_ne by (intros X; apply (Nn e); first [exact X|symmetry; exact X]). apply lookup_delete.
      * unfold d2u. simpl. apply lookup_delete.
  - simpl. eapply (ainv_move _ d1i n1 d2i n2 fi d1 d2 fo I); try eassumption.
    destruct (decide (d1i = d2i)) as [e|]; [|exact Hn2]. pose proof R2 as R2'. rewrite <- e in R2'. pose proof (look_inj _ _ _ _ R1 R2') as <-. clear R2'.
    destruct (decide (n1 = n2)) as [->|]; [apply lookup_delete|rewrite lookup_delete_ne by auto; exact Hn2].
Qed.

Lemma ainv_create_op s h n k content hi : ainv s -> ainv (fst (create P s h n k content hi)).
Proof.
  intros I. unfold create. destruct (resolve P s h) as [[di d]|] eqn:R1; [|exact I]. apply resolve_Some in R1.
  destruct (negb (is_dir d)) eqn:Kd; [exact I|]. apply negb_false_iff, bool_decide_eq_true in Kd.
  destruct (negb (wf_name P n)); [exact I|].
  destruct (bool_decide (is_Some (o_ents d !! n))) eqn:Ex; [exact I|]. apply bool_decide_eq_false in Ex.
  destruct (p_wtmax P <? lenN content); [exact I|].
  destruct hi as [| hh | |]; try exact I.
  destruct (parse_handle hh) as [[i g]|]; [|exact I].
  destruct (negb (fresh P s i g)) eqn:Fr; [exact I|]. apply negb_false_iff in Fr.
  destruct (fresh_facts _ _ _ Fr) as [Hi Hr]. simpl.
  apply ainv_create; auto.
  destruct (o_ents d !! n); [exfalso; apply Ex; eauto|reflexivity].
Qed.

Lemma ainv_remove_op s h n w : ainv s -> ainv (fst (remove P s h n w)).
Proof.
  intros I. unfold remove. destruct (is_dots n); [exact I|].
  destruct (resolve P s h) as [[di d]|] eqn:R1; [|exact I]. apply resolve_Some in R1.
  destruct (is_dir d); [|exact I]. destruct (o_ents d !! n) as [i|] eqn:Hn; [|exact I].
  destruct (objs s !! i) as [o|] eqn:Hi; [|exact I].
  destruct w.
  - destruct (negb (is_dir o)); [exact I|]. destruct (negb (bool_decide (o_ents o = ∅))) eqn:Em; [exact I|].
    apply negb_false_iff, bool_decide_eq_true in Em. simpl. eapply ainv_unlink; eauto.
  - destruct (is_dir o) eqn:Kd; [exact I|]. apply bool_decide_eq_false in Kd. simpl. eapply ainv_unlink; eauto.
    eapply a_files; eauto.
Qed.

Theorem ainv_step s c hi : ainv s -> ainv (fst (step P s c hi)).
Proof.
  intros I. destruct c; simpl; try exact I;
    try (destruct (resolve P s h) as [[i o]|]; [|exact I]; repeat (destruct (_ : bool)); exact I).
  - (* setattr *)
    unfold do_setattr. destruct (resolve P s h) as [[i o]|] eqn:R1; [|exact I]. apply resolve_Some in R1.
    destruct size as [sz|].
    + destruct (negb _); [exact I|]. destruct (_ <? _); [exact I|].
      destruct hi; try exact I; simpl; (eapply ainv_set_same; [exact I|exact R1|repeat split]).
    + simpl. eapply ainv_set_same; [exact I|exact R1|repeat split].
  - (* lookup *)
    destruct (resolve P s h) as [[i o]|]; [|exact I]. destruct (negb _); [exact I|].
    destruct (lookup_name _ _ _); [|exact I]. destruct (objs s !! _); exact I.
  - (* read *)
    unfold do_read. destruct (resolve P s h) as [[i o]|]; [|exact I]. destruct (negb _); [exact I|]. destruct (_ <=? _); exact I.
  - (* write *)
    unfold do_write. destruct (resolve P s h) as [[i o]|] eqn:R1; [|exact I]. apply resolve_Some in R1.
    destruct (negb _); [exact I|]. destruct (negb _); [exact I|]. destruct (_ <? _); [exact I|]. destruct (_ <? _); [exact I|].
    destruct hi; try exact I; simpl; (eapply ainv_set_same; [exact I|exact R1|]); destruct (_ =? 0); repeat split.
  - destruct exclusive; [exact I|apply ainv_create_op; exact I].
  - apply ainv_create_op; exact I.
  - apply ainv_create_op; exact I.
  - apply ainv_remove_op; exact I.
  - apply ainv_remove_op; exact I.
  - apply ainv_rename; exact I.
Qed.

(* for every history of calls, whatever the replies and resource hints were *)
Theorem ainv_run cs : forall s, ainv s -> ainv (run P s cs).
Proof.
  induction cs as [|[c hi] cs IH]; intros s I; [exact I|]. unfold run. simpl. apply IH. apply ainv_step. exact I.
Qed.

Corollary ainv_reachable u cs : ainv (run P (init_afs u) cs).
Proof. apply ainv_run, ainv_init. Qed.

(* consequences read off the invariant: LOOKUP of ".." from a child of d names d; every live object
   other than the root is reachable by exactly one name from its parent *)
Corollary dotdot_inverse u cs di d n i o :
  let s := run P (init_afs u) cs in
  objs s !! di = Some d -> o_ents d !! n = Some i -> objs s !! i = Some o ->
  lookup_name i o dotdot = Some di.
Proof.
  intros s Hd Hn Hi. destruct (a_ents _ (ainv_reachable u cs) _ _ _ _ Hd Hn) as (_ & _ & o' & Ho' & Hp).
  fold s in Ho'. rewrite Hi in Ho'. injection Ho' as <-. unfold lookup_name.
  assert (dotdot <> dot) by (intros H; discriminate H).
  rewrite bool_decide_eq_false_2 by assumption. rewrite bool_decide_eq_true_2 by reflexivity. congruence.
Qed.
End Step.
