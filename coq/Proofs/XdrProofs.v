(* Round trip of the generic XDR codec: decoding what was encoded gives back the value and the rest
   of the input, for every descriptor environment, type, value and fuel. *)
From Coq Require Import List NArith ZArith Lia Bool String ZifyN ZifyNat ZifyBool.
From V Require Import Model.Lib Model.Xdr.
Import ListNotations.
Open Scope N_scope.
Ltac Zify.zify_post_hook ::= Z.div_mod_to_equations.

(* ---------- bytes ---------- *)
Lemma byte_to_of x : Byte.to_N (byte_of_N x) = x mod 256.
Proof.
  unfold byte_of_N. assert (H : x mod 256 < 256) by (apply N.mod_lt; discriminate).
  destruct (Byte.of_N (x mod 256)) eqn:E.
  - simpl. apply Byte.to_of_N. exact E.
  - apply Byte.of_N_None_iff in E. lia.
Qed.

Lemma unbe_app a b acc : unbe (a ++ b) acc = unbe b (unbe a acc).
Proof. revert acc. induction a as [|x a IH]; intros acc; simpl; [reflexivity|apply IH]. Qed.

Lemma be_length k x : List.length (be k x) = k.
Proof. revert x. induction k as [|k IH]; intros x; simpl; [reflexivity|]. rewrite app_length, IH. simpl. lia. Qed.

Lemma unbe_be k : forall x, unbe (be k x) 0 = x mod 256 ^ N.of_nat k.
Proof.
  induction k as [|k IH]; intros x.
  - simpl. rewrite N.mod_1_r. reflexivity.
  - cbn [be]. rewrite unbe_app. cbn [unbe]. rewrite IH, byte_to_of.
    replace (N.of_nat (S k)) with (N.succ (N.of_nat k)) by lia. rewrite N.pow_succ_r'.
    assert (P : 0 < 256 ^ N.of_nat k) by (apply N.neq_0_lt_0; apply N.pow_nonzero; discriminate).
    rewrite (N.mod_mul_r x 256 (256 ^ N.of_nat k)) by lia. lia.
Qed.

Lemma lenN_app {A} (a b : list A) : lenN (a ++ b) = lenN a + lenN b.
Proof. unfold lenN. rewrite app_length. lia. Qed.

Lemma take_bytes_app b rest : take_bytes (lenN b) (b ++ rest) = Some (b, rest).
Proof.
  unfold take_bytes. rewrite lenN_app. destruct (N.leb_spec (lenN b) (lenN b + lenN rest)); [|lia].
  unfold takeN, dropN, lenN. rewrite Nat2N.id. f_equal. f_equal.
  - rewrite firstn_app, Nat.sub_diag, firstn_all. simpl. apply app_nil_r.
  - rewrite skipn_app, Nat.sub_diag, skipn_all. reflexivity.
Qed.

Lemma take_bytes_app' n b rest : n = lenN b -> take_bytes n (b ++ rest) = Some (b, rest).
Proof. intros ->. apply take_bytes_app. Qed.

Lemma word_be k x rest : x < 256 ^ N.of_nat k -> word k (be k x ++ rest) = Some (x, rest).
Proof.
  intros H. unfold word. rewrite take_bytes_app' by (unfold lenN; rewrite be_length; reflexivity).
  rewrite unbe_be, N.mod_small by exact H. reflexivity.
Qed.

Lemma zeros_len n : lenN (zeros n) = n.
Proof. unfold lenN, zeros. rewrite stdpp.list.replicate_length. lia. Qed.

Opaque be unbe.

(* ---------- arrays of words ---------- *)
Lemma words_roundtrip l : forall bs rest, enc_words l = Some bs ->
  dec_words (List.length l) (bs ++ rest) = Some (l, rest) /\ lenN bs = 4 * lenN l.
Proof.
  induction l as [|v l IH]; intros bs rest H; cbn [enc_words dec_words List.length] in *.
  - injection H as <-. split; reflexivity.
  - destruct v as [n| | | |]; try discriminate.
    destruct (N.ltb_spec n W32) as [Hn|]; [|discriminate].
    destruct (enc_words l) as [b|] eqn:El; [|discriminate]. injection H as <-.
    destruct (IH b rest eq_refl) as [D L].
    rewrite <- app_assoc. rewrite word_be by (exact Hn). rewrite D. split; [reflexivity|].
    rewrite lenN_app, L. unfold lenN at 1. rewrite be_length. unfold lenN. simpl List.length. lia.
Qed.

(* ---------- the codec ---------- *)
Section RT.
Variable E : env.

Definition P_ty (f : nat) : Prop := forall t v bs rest,
  enc E f t v = Some bs -> dec E f t (bs ++ rest) = Some (v, rest).
Definition P_items (f : nat) : Prop := forall items fs seen bs rest,
  enc_items E f items fs seen = Some bs ->
  dec_items E f items (bs ++ rest) seen = Some (rev fs ++ seen, rest).


(* unfolding equations (the mutual fixpoints unfold to anonymous fix terms otherwise) *)
Lemma enc_S f t v : enc E (S f) t v =
  match t, v with
  | TU32, VN n => if n <? W32 then Some (be 4 n) else None
  | TU64, VN n => if n <? W64 then Some (be 8 n) else None
  | TBool, VN n => if n <? 2 then Some (be 4 n) else None
  | TFixed k, VB b => if lenN b =? k then Some (b ++ zeros (pad_len k)) else None
  | TVar mx, VB b =>
      if (lenN b <? W32) && (match mx with Some m => lenN b <=? m | None => true end)
      then Some (be 4 (lenN b) ++ b ++ zeros (pad_len (lenN b))) else None
  | TOpt t', VO None => Some (be 4 0)
  | TOpt t', VO (Some x) => match enc E f t' x with Some bs => Some (be 4 1 ++ bs) | None => None end
  | TArr32, VL l =>
      if lenN l <? W32 then
        match enc_words l with Some bs => Some (be 4 (lenN l) ++ bs) | None => None end
      else None
  | TRef nm, _ => match lookup_ty E nm with Some t' => enc E f t' v | None => None end
  | TSeq items, VS fs => enc_items E f items fs []
  | _, _ => None
  end.
Proof. reflexivity. Qed.

Lemma enc_items_S f items fs seen : enc_items E (S f) items fs seen =
  match items with
  | [] => match fs with [] => Some [] | _ => None end
  | IField nm t :: rest =>
      match fs with
      | (n, v) :: fs' =>
          if String.eqb n nm then
            match enc E f t v, enc_items E f rest fs' ((n, v) :: seen) with
            | Some a, Some b => Some (a ++ b) | _, _ => None end
          else None
      | [] => None end
  | ISwitch on arms dflt :: rest =>
      match field_val seen on with
      | Some d =>
          match (match find_arm arms d with Some a => Some a | None => dflt end) with
          | Some body => enc_items E f (body ++ rest) fs seen
          | None => None end
      | None => None end
  end.
Proof. reflexivity. Qed.

Lemma dec_S f t bs : dec E (S f) t bs =
  match t with
  | TU32 => match word 4 bs with Some (n, r) => Some (VN n, r) | None => None end
  | TU64 => match word 8 bs with Some (n, r) => Some (VN n, r) | None => None end
  | TBool => match word 4 bs with Some (n, r) => Some (VN (if n =? 0 then 0 else 1), r) | None => None end
  | TFixed k =>
      match take_bytes k bs with
      | Some (b, r) => match take_bytes (pad_len k) r with Some (_, r') => Some (VB b, r') | None => None end
      | None => None end
  | TVar mx =>
      match word 4 bs with
      | Some (n, r) =>
          if (match mx with Some m => n <=? m | None => true end) then
            match take_bytes n r with
            | Some (b, r1) => match take_bytes (pad_len n) r1 with Some (_, r2) => Some (VB b, r2) | None => None end
            | None => None end
          else None
      | None => None end
  | TOpt t' =>
      match word 4 bs with
      | Some (n, r) => if n =? 0 then Some (VO None, r)
                       else match dec E f t' r with Some (x, r') => Some (VO (Some x), r') | None => None end
      | None => None end
  | TArr32 =>
      match word 4 bs with
      | Some (n, r) =>
          if n * 4 <=? lenN r then
            match dec_words (N.to_nat n) r with Some (l, r') => Some (VL l, r') | None => None end
          else None
      | None => None end
  | TRef nm => match lookup_ty E nm with Some t' => dec E f t' bs | None => None end
  | TSeq items => match dec_items E f items bs [] with Some (fs, r) => Some (VS (rev fs), r) | None => None end
  end.
Proof. reflexivity. Qed.

Lemma dec_items_S f items bs seen : dec_items E (S f) items bs seen =
  match items with
  | [] => Some (seen, bs)
  | IField nm t :: rest =>
      match dec E f t bs with
      | Some (v, r) => dec_items E f rest r ((nm, v) :: seen)
      | None => None end
  | ISwitch on arms dflt :: rest =>
      match field_val seen on with
      | Some d =>
          match (match find_arm arms d with Some a => Some a | None => dflt end) with
          | Some body => dec_items E f (body ++ rest) bs seen
          | None => None end
      | None => None end
  end.
Proof. reflexivity. Qed.

Lemma rt_step f : P_ty f -> P_items f -> P_ty (S f) /\ P_items (S f).
Proof.
  intros IHt IHi. split.
  - (* types *)
    intros t v bs rest H. rewrite enc_S in H. rewrite dec_S.
    destruct t as [| | |k|mx|t'| |nm|items].
    + destruct v as [n| | | |]; try discriminate. destruct (N.ltb_spec n W32) as [Hn|]; [|discriminate].
      injection H as <-. rewrite word_be by exact Hn. reflexivity.
    + destruct v as [n| | | |]; try discriminate. destruct (N.ltb_spec n W64) as [Hn|]; [|discriminate].
      injection H as <-. rewrite word_be by exact Hn. reflexivity.
    + destruct v as [n| | | |]; try discriminate. destruct (N.ltb_spec n 2) as [Hn|]; [|discriminate].
      injection H as <-. rewrite word_be by (change (256 ^ N.of_nat 4) with W32; unfold W32; lia).
      assert (n = 0 \/ n = 1) as [-> | ->] by lia; reflexivity.
    + destruct v as [|b| | |]; try discriminate. destruct (N.eqb_spec (lenN b) k) as [Hk|]; [|discriminate].
      injection H as <-. rewrite <- app_assoc. rewrite take_bytes_app' by (symmetry; exact Hk).
      rewrite take_bytes_app' by (symmetry; apply zeros_len). reflexivity.
    + destruct v as [|b| | |]; try discriminate.
      destruct (lenN b <? W32) eqn:Hl; [|discriminate]. apply N.ltb_lt in Hl.
      destruct (match mx with Some m => lenN b <=? m | None => true end) eqn:Hm; [|discriminate].
      simpl in H. injection H as <-. rewrite <- !app_assoc. rewrite word_be by exact Hl.
      rewrite Hm. rewrite take_bytes_app. rewrite take_bytes_app' by (symmetry; apply zeros_len). reflexivity.
    + destruct v as [| |o| |]; try discriminate. destruct o as [x|].
      * destruct (enc E f t' x) as [b|] eqn:Ex; [|discriminate]. injection H as <-.
        rewrite <- app_assoc. rewrite word_be by (vm_compute; reflexivity).
        simpl. rewrite (IHt _ _ _ rest Ex). reflexivity.
      * injection H as <-. rewrite word_be by (vm_compute; reflexivity). reflexivity.
    + destruct v as [| | |l|]; try discriminate. destruct (N.ltb_spec (lenN l) W32) as [Hl|]; [|discriminate].
      destruct (enc_words l) as [b|] eqn:El; [|discriminate]. injection H as <-.
      rewrite <- app_assoc. rewrite word_be by exact Hl.
      destruct (words_roundtrip l b rest El) as [D L].
      rewrite lenN_app. destruct (N.leb_spec (lenN l * 4) (lenN b + lenN rest)); [|lia].
      unfold lenN at 1. rewrite Nat2N.id. rewrite D. reflexivity.
    + destruct (lookup_ty E nm) as [t'|]; [|discriminate]. apply IHt. exact H.
    + destruct v as [| | | |fs]; try discriminate.
      rewrite (IHi _ _ _ _ rest H). rewrite app_nil_r, rev_involutive. reflexivity.
  - (* items *)
    intros items fs seen bs rest H. rewrite enc_items_S in H. rewrite dec_items_S.
    destruct items as [|[nm t|on arms dflt] items'].
    + destruct fs; [|discriminate]. injection H as <-. reflexivity.
    + destruct fs as [|[n v] fs']; [discriminate|].
      destruct (String.eqb_spec n nm) as [->|]; [|discriminate].
      destruct (enc E f t v) as [a|] eqn:Ea; [|discriminate].
      destruct (enc_items E f items' fs' ((nm, v) :: seen)) as [b|] eqn:Eb; [|discriminate].
      injection H as <-. rewrite <- app_assoc. rewrite (IHt _ _ _ (b ++ rest) Ea).
      rewrite (IHi _ _ _ _ rest Eb). simpl. rewrite <- app_assoc. reflexivity.
    + destruct (field_val seen on) as [d|]; [|discriminate].
      destruct (match find_arm arms d with Some a => Some a | None => dflt end) as [body|]; [|discriminate].
      apply IHi. exact H.
Qed.

Lemma rt_all f : P_ty f /\ P_items f.
Proof.
  induction f as [|f [IHt IHi]].
  - split; intros ? ? ? ?; [intros H|intros ? H]; simpl in H; discriminate.
  - apply rt_step; assumption.
Qed.

Theorem decode_encode f t v bs rest :
  enc E f t v = Some bs -> dec E f t (bs ++ rest) = Some (v, rest).
Proof. apply (proj1 (rt_all f)). Qed.

(* corollary: an encoding never decodes to a different value *)
Corollary decode_encode_exact f t v bs : enc E f t v = Some bs -> dec E f t bs = Some (v, []).
Proof. intros H. rewrite <- (app_nil_r bs). apply decode_encode. exact H. Qed.
End RT.

(* ---------- truncation: a strict prefix of the needed bytes is rejected, never mis-parsed ---------- *)
Lemma take_bytes_short n bs : lenN bs < n -> take_bytes n bs = None.
Proof. intros H. unfold take_bytes. destruct (N.leb_spec n (lenN bs)); [lia|reflexivity]. Qed.

(* the decoder only ever consumes a prefix: what is left is a suffix of the input *)
Definition suffix_of (r bs : bytes) : Prop := exists p, bs = p ++ r.

Lemma take_bytes_suffix n bs b r : take_bytes n bs = Some (b, r) -> bs = b ++ r.
Proof.
  unfold take_bytes. destruct (n <=? lenN bs); [|discriminate]. intros [= <- <-].
  unfold takeN, dropN. symmetry. apply firstn_skipn.
Qed.
