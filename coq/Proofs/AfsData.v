(* Content laws of the reference AM: what READ returns is, byte for byte, what the latest WRITE to that
   position stored; positions never written, and positions cut off by a truncation, read as zero. *)
From stdpp Require Import gmap list.
From Coq Require Import NArith ZArith Lia ZifyN ZifyNat ZifyBool.
From V Require Import Model.Lib Model.Afs.
Open Scope N_scope.
Ltac Zify.zify_post_hook ::= Z.div_mod_to_equations.

(* every stored chunk is one block long *)
Definition wfm (m : gmap N bytes) : Prop := forall i c, m !! i = Some c -> lenN c = BS.

(* the byte at absolute position i of a sparse content map *)
Definition byte_at (m : gmap N bytes) (i : N) : byte :=
  default x00 (chunk_of m (i / BS) !! N.to_nat (i mod BS)).

Lemma zeros_len n : lenN (zeros n) = n.
Proof. unfold lenN, zeros. rewrite replicate_length. lia. Qed.

Lemma chunk_len m i : wfm m -> lenN (chunk_of m i) = BS.
Proof. intros W. unfold chunk_of. destruct (m !! i) eqn:E; [exact (W _ _ E)|exact (zeros_len BS)]. Qed.

Lemma wfm_empty : wfm ∅.
Proof. intros i c H. rewrite lookup_empty in H. discriminate. Qed.

Lemma zeros_lookup n k : default x00 (zeros n !! k) = x00.
Proof.
  destruct (zeros n !! k) as [x|] eqn:E; [|reflexivity]. unfold zeros in E.
  apply lookup_replicate in E as [-> _]. reflexivity.
Qed.

Lemma byte_at_empty i : byte_at ∅ i = x00.
Proof. unfold byte_at, chunk_of. rewrite lookup_empty. exact (zeros_lookup BS _). Qed.

Lemma divBS q r : r < BS -> (q * BS + r) / BS = q.
Proof. intros H. unfold BS in *. symmetry. apply (N.div_unique _ _ q r); lia. Qed.
Lemma modBS q r : r < BS -> (q * BS + r) mod BS = r.
Proof. intros H. unfold BS in *. symmetry. apply (N.mod_unique _ _ q r); lia. Qed.

Lemma byte_at_chunk m q r : r < BS -> byte_at m (q * BS + r) = default x00 (chunk_of m q !! N.to_nat r).
Proof. intros H. unfold byte_at. rewrite divBS, modBS by assumption. reflexivity. Qed.

Lemma lookup_default_Some (l : bytes) (k : nat) : (k < length l)%nat -> l !! k = Some (default x00 (l !! k)).
Proof. intros H. destruct (l !! k) as [x|] eqn:E; [reflexivity|]. apply lookup_ge_None in E. lia. Qed.

(* ---------- reading ---------- *)
Lemma read_chunks_spec m : wfm m -> forall fuel ci skip cnt,
  skip < BS -> skip + cnt <= N.of_nat fuel * BS ->
  length (read_chunks m fuel ci skip cnt) = N.to_nat cnt /\
  forall k, (k < N.to_nat cnt)%nat ->
    read_chunks m fuel ci skip cnt !! k = Some (byte_at m (ci * BS + skip + N.of_nat k)).
Proof.
  intros W. induction fuel as [|f IH]; intros ci skip cnt Hs Hf.
  - assert (cnt = 0) by (unfold BS in *; lia). subst cnt. simpl. split; [reflexivity|intros k Hk; lia].
  - cbn [read_chunks]. destruct (cnt =? 0) eqn:E0.
    { apply N.eqb_eq in E0. subst cnt. split; [reflexivity|intros k Hk; simpl in Hk; lia]. }
    apply N.eqb_neq in E0.
    set (tn := N.min cnt (BS - skip)).
    pose proof (chunk_len m ci W) as HL. unfold lenN in HL.
    assert (La : length (takeN tn (dropN skip (chunk_of m ci))) = N.to_nat tn).
    { unfold takeN, dropN. rewrite take_length, drop_length. unfold tn. lia. }
    assert (Hf' : 0 + (cnt - tn) <= N.of_nat f * BS) by (unfold tn, BS in *; lia).
    assert (H0 : 0 < BS) by (unfold BS; lia).
    destruct (IH (ci + 1) 0 (cnt - tn) H0 Hf') as [IL IK].
    split.
    + rewrite app_length, La, IL. unfold tn. lia.
    + intros k Hk. unfold bytes in *. destruct (decide (k < N.to_nat tn)%nat) as [Hlt|Hge].
      * rewrite lookup_app_l by lia. unfold takeN, dropN. rewrite lookup_take by lia. rewrite lookup_drop.
        replace (ci * BS + skip + N.of_nat k) with (ci * BS + (skip + N.of_nat k)) by lia.
        rewrite byte_at_chunk by (unfold tn in *; lia).
        replace (N.to_nat (skip + N.of_nat k)) with (N.to_nat skip + k)%nat by lia.
        apply lookup_default_Some. unfold tn in *. lia.
      * rewrite lookup_app_r by lia. rewrite La.
        assert (Htn : tn = BS - skip) by (unfold tn in *; lia).
        rewrite IK by lia. f_equal. f_equal. unfold BS in *. lia.
Qed.

Theorem read_bytes_spec m off cnt : wfm m ->
  length (read_bytes m off cnt) = N.to_nat cnt /\
  forall k, (k < N.to_nat cnt)%nat -> read_bytes m off cnt !! k = Some (byte_at m (off + N.of_nat k)).
Proof.
  intros W. unfold read_bytes.
  assert (Hs : off mod BS < BS) by (unfold BS; lia).
  assert (Hf : off mod BS + cnt <= N.of_nat (N.to_nat (cnt / BS) + 2) * BS) by (unfold BS in *; lia).
  destruct (read_chunks_spec m W _ (off / BS) (off mod BS) cnt Hs Hf) as [L K]. split; [exact L|].
  intros k Hk. rewrite K by assumption. f_equal. f_equal. unfold BS in *. lia.
Qed.

(* ---------- writing ---------- *)
Lemma splice_spec (c d : bytes) (s : N) (j : nat) :
  (N.to_nat s + length d <= length c)%nat ->
  length (splice c s d) = length c /\
  splice c s d !! j = if decide (N.to_nat s <= j < N.to_nat s + length d)%nat then d !! (j - N.to_nat s)%nat else c !! j.
Proof.
  intros H. unfold splice, takeN. unfold bytes in *. split.
  - rewrite !app_length, take_length, drop_length. lia.
  - destruct (decide (N.to_nat s <= j < N.to_nat s + length d)%nat) as [Hin|Hout].
    + rewrite lookup_app_r by (rewrite take_length; lia). rewrite take_length.
      rewrite lookup_app_l by lia. f_equal. lia.
    + destruct (decide (j < N.to_nat s)%nat).
      * rewrite lookup_app_l by (rewrite take_length; lia). apply lookup_take. lia.
      * rewrite lookup_app_r by (rewrite take_length; lia). rewrite take_length.
        rewrite lookup_app_r by lia. rewrite lookup_drop. f_equal. lia.
Qed.

Lemma write_chunks_spec : forall fuel m ci skip d,
  wfm m -> skip < BS -> skip + lenN d <= N.of_nat fuel * BS ->
  wfm (write_chunks m fuel ci skip d) /\
  forall i, byte_at (write_chunks m fuel ci skip d) i =
    if (ci * BS + skip <=? i) && (i <? ci * BS + skip + lenN d)
    then default x00 (d !! N.to_nat (i - (ci * BS + skip))) else byte_at m i.
Proof.
  induction fuel as [|f IH]; intros m ci skip d W Hs Hf.
  - assert (lenN d = 0) by (unfold BS in *; lia). simpl. split; [exact W|]. intros i.
    destruct ((ci * BS + skip <=? i) && (i <? ci * BS + skip + lenN d)) eqn:E; [lia|reflexivity].
  - cbn [write_chunks]. destruct d as [|b d0] eqn:Ed.
    { split; [exact W|]. intros i. unfold lenN. simpl.
      destruct ((ci * BS + skip <=? i) && (i <? ci * BS + skip + 0)) eqn:E; [lia|reflexivity]. }
    rewrite <- Ed in *. assert (Hne : 0 < lenN d) by (subst d; unfold lenN; simpl; lia).
    set (room := BS - skip). set (d1 := takeN room d). set (d2 := dropN room d).
    set (c := chunk_of m ci).
    pose proof (chunk_len m ci W) as HL. fold c in HL. unfold lenN in HL.
    assert (L1 : length d1 = N.to_nat (N.min room (lenN d))) by (unfold d1, takeN, lenN; rewrite take_length; lia).
    assert (L2 : lenN d2 = lenN d - room) by (unfold d2, dropN, lenN; rewrite drop_length; lia).
    assert (Hfit : (N.to_nat skip + length d1 <= length c)%nat) by (unfold room in *; lia).
    set (m' := <[ci := splice c skip d1]> m).
    assert (W' : wfm m').
    { intros j cj Hj. unfold m' in Hj. destruct (decide (j = ci)) as [->|Hne2].
      - rewrite lookup_insert in Hj. injection Hj as <-. unfold lenN. rewrite (proj1 (splice_spec c d1 skip 0 Hfit)). lia.
      - rewrite lookup_insert_ne in Hj by auto. eapply W; eauto. }
    assert (H0 : 0 < BS) by (unfold BS; lia).
    assert (Hf' : 0 + lenN d2 <= N.of_nat f * BS) by (unfold room, BS in *; lia).
    destruct (IH m' (ci + 1) 0 d2 W' H0 Hf') as [WR BR]. split; [exact WR|].
    intros i. rewrite BR.
    assert (Hi : i = (i / BS) * BS + i mod BS) by (unfold BS; lia).
    assert (Hr : i mod BS < BS) by (unfold BS; lia).
    set (q := i / BS) in *. set (r := i mod BS) in *.
    (* the byte of m' *)
    assert (Bm' : byte_at m' i = if decide (q = ci /\ skip <= r < skip + N.of_nat (length d1))
                                 then default x00 (d1 !! N.to_nat (r - skip)) else byte_at m i).
    { rewrite Hi. rewrite !byte_at_chunk by exact Hr. unfold chunk_of, m'.
      destruct (decide (q = ci)) as [->|Hq].
      - rewrite lookup_insert. simpl. rewrite (proj2 (splice_spec c d1 skip (N.to_nat r) Hfit)).
        destruct (decide (N.to_nat skip <= N.to_nat r < N.to_nat skip + length d1)%nat) as [Hin|Hout].
        + rewrite decide_True by lia. f_equal. f_equal. lia.
        + rewrite decide_False by lia. reflexivity.
      - rewrite lookup_insert_ne by auto. rewrite decide_False by tauto. reflexivity. }
    destruct (((ci + 1) * BS + 0 <=? i) && (i <? (ci + 1) * BS + 0 + lenN d2)) eqn:E2.
    + (* in the part written by the recursive call *)
      assert (E1 : (ci * BS + skip <=? i) && (i <? ci * BS + skip + lenN d) = true) by (unfold room, BS in *; lia).
      rewrite E1. unfold d2, dropN. rewrite lookup_drop. f_equal. f_equal. unfold room, BS in *. lia.
    + rewrite Bm'. destruct (decide (q = ci /\ skip <= r < skip + N.of_nat (length d1))) as [Hin|Hout].
      * assert (E1 : (ci * BS + skip <=? i) && (i <? ci * BS + skip + lenN d) = true) by (unfold room, BS in *; lia).
        rewrite E1. unfold d1, takeN. rewrite lookup_take by (unfold room, BS in *; lia).
        f_equal. f_equal. unfold BS in *. lia.
      * assert (E1 : (ci * BS + skip <=? i) && (i <? ci * BS + skip + lenN d) = false) by (unfold room, BS in *; lia).
        rewrite E1. reflexivity.
Qed.

Theorem write_bytes_spec m off d : wfm m ->
  wfm (write_bytes m off d) /\
  forall i, byte_at (write_bytes m off d) i =
    if (off <=? i) && (i <? off + lenN d) then default x00 (d !! N.to_nat (i - off)) else byte_at m i.
Proof.
  intros W. unfold write_bytes.
  assert (Hs : off mod BS < BS) by (unfold BS; lia).
  assert (Hf : off mod BS + lenN d <= N.of_nat (length d / 4096 + 2) * BS).
  { unfold lenN, BS in *. pose proof (Nat.div_mod (length d) 4096). pose proof (Nat.mod_upper_bound (length d) 4096). lia. }
  destruct (write_chunks_spec _ m (off / BS) (off mod BS) d W Hs Hf) as [WR BR]. split; [exact WR|].
  intros i. rewrite BR. replace (off / BS * BS + off mod BS) with off by (unfold BS; lia). reflexivity.
Qed.

(* ---------- truncation ---------- *)
Lemma chunk_of_filter m n q :
  chunk_of (filter (fun p : N * bytes => fst p <? n) m) q = if q <? n then chunk_of m q else zero_block.
Proof.
  unfold chunk_of. destruct (filter (fun p : N * bytes => fst p <? n) m !! q) as [c|] eqn:E.
  - apply map_filter_lookup_Some in E as [E1 E2]. simpl in E2. rewrite E1.
    destruct (q <? n); [reflexivity|contradiction].
  - apply map_filter_lookup_None in E as [E|E].
    + rewrite E. destruct (q <? n); reflexivity.
    + destruct (m !! q) as [c|] eqn:E1; [|destruct (q <? n); reflexivity].
      specialize (E c eq_refl). simpl in E. destruct (q <? n); [exfalso; apply E; exact I|reflexivity].
Qed.

Lemma wfm_filter m (P : N * bytes -> bool) : wfm m -> wfm (filter (fun p => P p) m).
Proof. intros W i c H. apply map_filter_lookup_Some in H as [H _]. eapply W; eauto. Qed.

Theorem trunc_data_spec m sz : wfm m ->
  wfm (trunc_data m sz) /\
  forall i, byte_at (trunc_data m sz) i = if i <? sz then byte_at m i else x00.
Proof.
  intros W. unfold trunc_data. destruct (sz mod BS =? 0) eqn:Em.
  - split; [apply wfm_filter; exact W|]. intros i. unfold byte_at. rewrite chunk_of_filter.
    assert (Hq : (i / BS <? sz / BS) = (i <? sz)) by (unfold BS in *; lia). rewrite Hq.
    destruct (i <? sz); [reflexivity|exact (zeros_lookup BS _)].
  - set (last := sz / BS). set (r := sz mod BS).
    set (m1 := filter (fun p : N * bytes => fst p <? last + 1) m).
    assert (W1 : wfm m1) by (apply (wfm_filter m (fun p => fst p <? last + 1)); exact W).
    assert (Hr : 0 < r < BS) by (unfold r, BS in *; lia).
    assert (Zl : lenN (zeros (BS - r)) = BS - r) by apply zeros_len.
    assert (Zz : forall k, default x00 (zeros (BS - r) !! k) = x00) by (intros k; apply zeros_lookup).
    set (zz := zeros (BS - r)) in *. clearbody zz.
    destruct (m1 !! last) as [c|] eqn:Ec.
    + assert (Lc : lenN c = BS) by (eapply W1; eauto).
      assert (Cm : m !! last = Some c) by (apply map_filter_lookup_Some in Ec as [Ec _]; exact Ec).
      split.
      * intros j cj Hj. destruct (decide (j = last)) as [->|Hne].
        -- rewrite lookup_insert in Hj. injection Hj as <-. unfold lenN, takeN in *.
           rewrite app_length, take_length. lia.
        -- rewrite lookup_insert_ne in Hj by auto. eapply W1; eauto.
      * intros i. unfold byte_at at 1. unfold chunk_of at 1.
        destruct (decide (i / BS = last)) as [Hq|Hq].
        -- rewrite Hq, lookup_insert. cbn [default from_option id].
           destruct (i <? sz) eqn:Ei.
           ++ unfold bytes in *. rewrite lookup_app_l by (unfold takeN, lenN in *; rewrite take_length; unfold last, r, BS in *; lia).
              unfold takeN. rewrite lookup_take by (unfold last, r, BS in *; lia).
              unfold byte_at, chunk_of. unfold bytes in *. rewrite Hq, Cm. reflexivity.
           ++ unfold bytes in *. rewrite lookup_app_r by (unfold takeN, lenN in *; rewrite take_length; unfold last, r, BS in *; lia).
              apply Zz.
        -- rewrite lookup_insert_ne by auto. fold (chunk_of m1 (i / BS)). unfold m1. rewrite chunk_of_filter.
           destruct (i / BS <? last + 1) eqn:Eq.
           ++ assert (Ei : (i <? sz) = true) by (unfold last, BS in *; lia). rewrite Ei. reflexivity.
           ++ assert (Ei : (i <? sz) = false) by (unfold last, BS in *; lia). rewrite Ei. exact (zeros_lookup BS _).
    + split; [exact W1|]. intros i. unfold byte_at. unfold m1. rewrite chunk_of_filter.
      destruct (i / BS <? last + 1) eqn:Eq.
      * destruct (i <? sz) eqn:Ei; [reflexivity|].
        (* the last chunk is absent: it reads as zero anyway *)
        assert (Hq : i / BS = last) by (unfold last, BS in *; lia).
        unfold chunk_of. rewrite Hq.
        assert (Cm : m !! last = None).
        { destruct (m !! last) as [c|] eqn:E; [|reflexivity]. exfalso.
          assert (X : m1 !! last = Some c).
          { apply map_filter_lookup_Some. split; [exact E|]. simpl. apply Is_true_eq_left. lia. }
          unfold bytes in *. rewrite Ec in X. discriminate X. }
        rewrite Cm. exact (zeros_lookup BS _).
      * assert (Ei : (i <? sz) = false) by (unfold last, BS in *; lia). rewrite Ei. exact (zeros_lookup BS _).
Qed.

(* ---------- the invariant of every reachable reference state ---------- *)
(* chunks are whole blocks, and every position at or beyond the size of an object holds zero *)
Definition cgood (o : obj) : Prop :=
  wfm (o_data o) /\ forall k, o_size o <= k -> byte_at (o_data o) k = x00.
Definition cinv (s : afs) : Prop := forall i o, objs s !! i = Some o -> cgood o.

Lemma cinv_init u : cinv (init_afs u).
Proof.
  intros i o H. unfold init_afs in H. simpl in H. apply lookup_singleton_Some in H as [_ <-].
  split; [apply wfm_empty|intros k _; apply byte_at_empty].
Qed.

Lemma cinv_set s i o : cinv s -> cgood o -> cinv (set_obj s i o).
Proof.
  intros I G j oj H. unfold set_obj in H. simpl in H. destruct (decide (j = i)) as [->|Hne].
  - rewrite lookup_insert in H. injection H as <-. exact G.
  - rewrite lookup_insert_ne in H by auto. eapply I; eauto.
Qed.
Lemma cinv_del s i : cinv s -> cinv (del_obj s i).
Proof. intros I j oj H. unfold del_obj in H. simpl in H. apply lookup_delete_Some in H as [_ H]. eapply I; eauto. Qed.

Lemma cgood_same_content o o' : o_data o' = o_data o -> o_size o' = o_size o -> cgood o -> cgood o'.
Proof. intros Hd Hs [W Z]. unfold cgood. rewrite Hd, Hs. auto. Qed.

Lemma cinv_move s d1i n1 d2i n2 fi : cinv s -> cinv (move s d1i n1 d2i n2 fi).
Proof.
  intros I. unfold move.
  assert (I2 : cinv (match objs s !! d1i with Some d1 => set_obj s d1i (with_ents d1 (delete n1 (o_ents d1))) | None => s end)).
  { destruct (objs s !! d1i) as [d1|] eqn:E; [|exact I]. apply cinv_set; [exact I|].
    apply (cgood_same_content d1); [reflexivity|reflexivity|eapply I; eauto]. }
  set (s2 := match objs s !! d1i with Some d1 => set_obj s d1i (with_ents d1 (delete n1 (o_ents d1))) | None => s end) in *.
  assert (I3 : cinv (match objs s2 !! d2i with Some d2 => set_obj s2 d2i (with_ents d2 (<[n2 := fi]> (o_ents d2))) | None => s2 end)).
  { destruct (objs s2 !! d2i) as [d2|] eqn:E; [|exact I2]. apply cinv_set; [exact I2|].
    apply (cgood_same_content d2); [reflexivity|reflexivity|eapply I2; eauto]. }
  set (s3 := match objs s2 !! d2i with Some d2 => set_obj s2 d2i (with_ents d2 (<[n2 := fi]> (o_ents d2))) | None => s2 end) in *.
  destruct (objs s3 !! fi) as [fo|] eqn:E; [|exact I3]. apply cinv_set; [exact I3|].
  apply (cgood_same_content fo); [reflexivity|reflexivity|eapply I3; eauto].
Qed.

Lemma cgood_write o off d : cgood o ->
  cgood (with_content o (N.max (o_size o) (off + lenN d)) (write_bytes (o_data o) off d)).
Proof.
  intros [W Z]. destruct (write_bytes_spec (o_data o) off d W) as [W' B']. split; [exact W'|].
  simpl. intros k Hk. rewrite B'.
  destruct ((off <=? k) && (k <? off + lenN d)) eqn:E; [lia|]. apply Z. lia.
Qed.

Lemma cgood_resize o sz : cgood o ->
  cgood (with_content o sz (if sz <? o_size o then trunc_data (o_data o) sz else o_data o)).
Proof.
  intros [W Z]. destruct (sz <? o_size o) eqn:E.
  - destruct (trunc_data_spec (o_data o) sz W) as [W' B']. split; [exact W'|]. simpl. intros k Hk.
    rewrite B'. destruct (k <? sz) eqn:E2; [lia|reflexivity].
  - split; [exact W|]. simpl. intros k Hk. apply Z. lia.
Qed.

Section Step.
Variable P : params.

Lemma resolve_lookup s h i o : resolve P s h = Some (i, o) -> objs s !! i = Some o.
Proof.
  unfold resolve. destruct (parse_handle h) as [[i' g]|]; [|discriminate].
  destruct (i' <? p_ninode P); [|discriminate]. destruct (objs s !! i') eqn:E; [|discriminate].
  destruct (o_gen o0 =? g); [|discriminate]. intros [= <- <-]. exact E.
Qed.

Theorem cinv_step s c hi : cinv s -> cinv (fst (step P s c hi)).
Proof.
  intros I. destruct c; simpl; try exact I;
    try (destruct (resolve P s h) as [[i o]|]; [|exact I]; repeat (destruct (_ : bool)); exact I).
  - (* setattr *)
    unfold do_setattr. destruct (resolve P s h) as [[i o]|] eqn:R1; [|exact I]. apply resolve_lookup in R1.
    pose proof (I _ _ R1) as G.
    destruct size as [sz|].
    + destruct (negb _); [exact I|]. destruct (_ <? _); [exact I|].
      destruct hi; try exact I; simpl; (apply cinv_set; [exact I|]);
        (eapply cgood_same_content; [| |apply (cgood_resize o sz G)]; reflexivity).
    + simpl. apply cinv_set; [exact I|]. apply (cgood_same_content o); [reflexivity|reflexivity|exact G].
  - (* lookup *)
    destruct (resolve P s h) as [[i o]|]; [|exact I]. destruct (negb _); [exact I|].
    destruct (lookup_name _ _ _); [|exact I]. destruct (objs s !! _); exact I.
  - unfold do_read. destruct (resolve P s h) as [[i o]|]; [|exact I]. destruct (negb _); [exact I|]. destruct (_ <=? _); exact I.
  - (* write *)
    unfold do_write. destruct (resolve P s h) as [[i o]|] eqn:R1; [|exact I]. apply resolve_lookup in R1.
    pose proof (I _ _ R1) as G.
    destruct (negb _); [exact I|]. destruct (negb (cnt =? lenN d)) eqn:Ec; [exact I|].
    apply negb_false_iff, N.eqb_eq in Ec.
    destruct (_ <? _); [exact I|]. destruct (_ <? _); [exact I|].
    assert (K : forall n, n <= cnt -> cgood (if n =? 0 then o else with_content o (N.max (o_size o) (off + n)) (write_bytes (o_data o) off (takeN n d)))).
    { intros n Hn. destruct (n =? 0); [exact G|].
      assert (Ln : lenN (takeN n d) = n) by (unfold lenN, takeN in *; rewrite take_length; lia).
      pose proof (cgood_write o off (takeN n d) G) as X. rewrite Ln in X. exact X. }
    destruct hi; try exact I; simpl; (apply cinv_set; [exact I|]); apply K; lia.
  - destruct exclusive; [exact I|]. unfold create.
    destruct (resolve P s h) as [[di dd]|] eqn:R1; [|exact I]. apply resolve_lookup in R1.
    repeat (match goal with |- context [if ?b then _ else _] => destruct b; [exact I|] end).
    destruct hi as [|hh| |]; try exact I. destruct (parse_handle hh) as [[i g]|]; [|exact I].
    destruct (negb _); [exact I|]. simpl.
    intros j oj H. cbn [objs] in H. unfold inum in *. destruct (decide (j = i)) as [->|Hne].
    + rewrite lookup_insert in H. injection H as <-. split; [exact wfm_empty|intros k _; apply byte_at_empty].
    + rewrite lookup_insert_ne in H by auto. destruct (decide (j = di)) as [->|Hne2].
      * rewrite lookup_insert in H. injection H as <-. apply (cgood_same_content dd); [reflexivity|reflexivity|eapply I; eauto].
      * rewrite lookup_insert_ne in H by auto. eapply I; eauto.
  - unfold create.
    destruct (resolve P s h) as [[di dd]|] eqn:R1; [|exact I]. apply resolve_lookup in R1.
    repeat (match goal with |- context [if ?b then _ else _] => destruct b; [exact I|] end).
    destruct hi as [|hh| |]; try exact I. destruct (parse_handle hh) as [[i g]|]; [|exact I].
    destruct (negb _); [exact I|]. simpl.
    intros j oj H. cbn [objs] in H. unfold inum in *. destruct (decide (j = i)) as [->|Hne].
    + rewrite lookup_insert in H. injection H as <-. split; [exact wfm_empty|intros k _; apply byte_at_empty].
    + rewrite lookup_insert_ne in H by auto. destruct (decide (j = di)) as [->|Hne2].
      * rewrite lookup_insert in H. injection H as <-. apply (cgood_same_content dd); [reflexivity|reflexivity|eapply I; eauto].
      * rewrite lookup_insert_ne in H by auto. eapply I; eauto.
  - (* symlink: the target is the content *)
    unfold create.
    destruct (resolve P s h) as [[di dd]|] eqn:R1; [|exact I]. apply resolve_lookup in R1.
    repeat (match goal with |- context [if ?b then _ else _] => destruct b; [exact I|] end).
    destruct hi as [|hh| |]; try exact I. destruct (parse_handle hh) as [[i g]|]; [|exact I].
    destruct (negb _); [exact I|]. simpl.
    intros j oj H. cbn [objs] in H. unfold inum in *. destruct (decide (j = i)) as [->|Hne].
    + rewrite lookup_insert in H. injection H as <-.
      destruct (write_bytes_spec ∅ 0 target wfm_empty) as [W' B']. split; [exact W'|]. simpl. intros k Hk. rewrite B'.
      destruct ((0 <=? k) && (k <? 0 + lenN target)) eqn:E; [lia|apply byte_at_empty].
    + rewrite lookup_insert_ne in H by auto. destruct (decide (j = di)) as [->|Hne2].
      * rewrite lookup_insert in H. injection H as <-. apply (cgood_same_content dd); [reflexivity|reflexivity|eapply I; eauto].
      * rewrite lookup_insert_ne in H by auto. eapply I; eauto.
  - (* remove *)
    unfold remove. destruct (is_dots n); [exact I|]. destruct (resolve P s h) as [[di dd]|] eqn:R1; [|exact I]. apply resolve_lookup in R1.
    destruct (if is_dir dd then o_ents dd !! n else None) as [i|]; [|exact I]. destruct (objs s !! i); [|exact I].
    destruct (is_dir o); [exact I|]. simpl. unfold unlink. apply cinv_del, cinv_set; [exact I|].
    apply (cgood_same_content dd); [reflexivity|reflexivity|eapply I; eauto].
  - unfold remove. destruct (is_dots n); [exact I|]. destruct (resolve P s h) as [[di dd]|] eqn:R1; [|exact I]. apply resolve_lookup in R1.
    destruct (if is_dir dd then o_ents dd !! n else None) as [i|]; [|exact I]. destruct (objs s !! i); [|exact I].
    destruct (negb (is_dir o)); [exact I|]. destruct (negb _); [exact I|]. simpl. unfold unlink. apply cinv_del, cinv_set; [exact I|].
    apply (cgood_same_content dd); [reflexivity|reflexivity|eapply I; eauto].
  - (* rename *)
    unfold rename. destruct (is_dots n1); [exact I|].
    destruct (resolve P s h1) as [[d1i d1]|]; [|exact I]. destruct (resolve P s h2) as [[d2i d2]|]; [|exact I].
    destruct (_ || _); [exact I|]. destruct (o_ents d1 !! n1) as [fi|]; [|exact I].
    destruct (negb _); [exact I|]. destruct (objs s !! fi) as [fo|]; [|exact I].
    destruct (_ && _); [exact I|]. destruct (o_ents d2 !! n2) as [ti|].
    + destruct (ti =? fi); [exact I|]. destruct (objs s !! ti); [|exact I].
      destruct (negb _); [exact I|]. destruct (_ && _); [exact I|]. simpl. apply cinv_move, cinv_del. exact I.
    + simpl. apply cinv_move. exact I.
Qed.

Theorem cinv_run cs : forall s, cinv s -> cinv (run P s cs).
Proof. induction cs as [|[c hi] cs IH]; intros s I; [exact I|]. unfold run. simpl. apply IH, cinv_step, I. Qed.

Corollary cinv_reachable u cs : cinv (run P (init_afs u) cs).
Proof. apply cinv_run, cinv_init. Qed.
End Step.

(* ---------- what a client sees ---------- *)
Section Client.
Variable P : params.

(* the bytes a successful READ returns are the bytes of the content map *)
Lemma read_is_content o off c : wfm (o_data o) -> 
  forall k, (k < N.to_nat c)%nat -> read_bytes (o_data o) off c !! k = Some (byte_at (o_data o) (off + N.of_nat k)).
Proof. intros W. exact (proj2 (read_bytes_spec (o_data o) off c W)). Qed.

(* READ after WRITE: the bytes just acknowledged come back, whatever was there before, for every offset,
   length, stability level and earlier history *)
Theorem read_after_write s h off cnt st d hi s' n cm a hi' :
  cinv s ->
  step P s (CWrite h off cnt st d) hi = (s', RWritten n cm a) -> 0 < n ->
  exists eof, snd (step P s' (CRead h off n) hi') = RData (takeN n d) eof.
Proof.
  intros I Hw Hn. simpl in Hw. unfold do_write in Hw.
  destruct (resolve P s h) as [[i o]|] eqn:R1; [|discriminate].
  destruct (negb (bool_decide (o_kind o = KFile))) eqn:Kf; [discriminate|].
  destruct (negb (cnt =? lenN d)) eqn:Ec; [discriminate|]. apply negb_false_iff, N.eqb_eq in Ec.
  destruct (p_wtmax P <? cnt); [discriminate|]. destruct (p_maxfilesize P <? off + cnt); [discriminate|].
  pose proof (resolve_lookup P _ _ _ _ R1) as L1. destruct (I _ _ L1) as [W Z].
  set (n0 := match hi with HShort k => N.min k cnt | _ => cnt end) in *.
  assert (Hw' : (set_obj s i (if n0 =? 0 then o else with_content o (N.max (o_size o) (off + n0)) (write_bytes (o_data o) off (takeN n0 d))),
                 RWritten n0 (if unstable_opt s then st else FileSync)
                   (attrs_of i (if n0 =? 0 then o else with_content o (N.max (o_size o) (off + n0)) (write_bytes (o_data o) off (takeN n0 d))))) = (s', RWritten n cm a)).
  { destruct hi; try discriminate; exact Hw. }
  injection Hw' as Hs' Hn0 _ _. subst n.
  assert (E0 : (n0 =? 0) = false) by lia. rewrite E0 in Hs'. clear Hw.
  assert (Hle : n0 <= cnt) by (unfold n0; destruct hi; lia).
  set (o' := with_content o (N.max (o_size o) (off + n0)) (write_bytes (o_data o) off (takeN n0 d))) in *.
  (* the handle still resolves, to the updated object *)
  assert (R2 : resolve P s' h = Some (i, o')).
  { unfold resolve in *. destruct (parse_handle h) as [[i' g]|]; [|discriminate].
    destruct (i' <? p_ninode P); [|discriminate]. destruct (objs s !! i') as [o0|] eqn:E; [|discriminate].
    destruct (o_gen o0 =? g) eqn:Eg; [|discriminate]. injection R1 as <- <-.
    rewrite <- Hs'. unfold set_obj. cbn [objs]. rewrite lookup_insert. unfold o'. cbn [o_gen with_content]. rewrite Eg. reflexivity. }
  simpl. unfold do_read. rewrite R2. change (o_kind o') with (o_kind o). rewrite Kf.
  assert (Es : (o_size o' <=? off) = false) by (unfold o'; simpl; lia). rewrite Es.
  assert (Ec' : N.min n0 (o_size o' - off) = n0) by (unfold o'; simpl; lia). rewrite Ec'.
  eexists. cbn [snd]. apply (f_equal2 RData); [|reflexivity].
  (* byte for byte *)
  destruct (write_bytes_spec (o_data o) off (takeN n0 d) W) as [W' B'].
  assert (Ln : lenN (takeN n0 d) = n0) by (unfold lenN, takeN in *; rewrite take_length; lia).
  destruct (read_bytes_spec (o_data o') off n0 W') as [RL RK].
  apply list_eq. intros k. destruct (decide (k < N.to_nat n0)%nat) as [Hk|Hk].
  - rewrite RK by exact Hk. unfold o'. cbn [o_data with_content]. rewrite B'. rewrite Ln.
    assert (Eb : (off <=? off + N.of_nat k) && (off + N.of_nat k <? off + n0) = true) by lia. rewrite Eb.
    replace (N.to_nat (off + N.of_nat k - off)) with k by lia.
    symmetry. apply lookup_default_Some. unfold lenN in Ln. lia.
  - rewrite !lookup_ge_None_2; [reflexivity| |]; [unfold lenN in Ln|]; lia.
Qed.

(* a WRITE changes nothing outside the range it was acknowledged for, in that file or any other object *)
Theorem write_frame s h off cnt st d hi s' n cm a :
  cinv s -> step P s (CWrite h off cnt st d) hi = (s', RWritten n cm a) ->
  exists i o o', resolve P s h = Some (i, o) /\ objs s' = <[i := o']> (objs s) /\
    (forall k, ~ (off <= k < off + n) -> byte_at (o_data o') k = byte_at (o_data o) k) /\
    o_size o' = (if n =? 0 then o_size o else N.max (o_size o) (off + n)).
Proof.
  intros I Hw. simpl in Hw. unfold do_write in Hw.
  destruct (resolve P s h) as [[i o]|] eqn:R1; [|discriminate].
  destruct (negb (bool_decide (o_kind o = KFile))); [discriminate|].
  destruct (negb (cnt =? lenN d)) eqn:Ec; [discriminate|]. apply negb_false_iff, N.eqb_eq in Ec.
  destruct (p_wtmax P <? cnt); [discriminate|]. destruct (p_maxfilesize P <? off + cnt); [discriminate|].
  pose proof (resolve_lookup P _ _ _ _ R1) as L1. destruct (I _ _ L1) as [W Z].
  set (n0 := match hi with HShort k => N.min k cnt | _ => cnt end) in *.
  assert (Hw' : (set_obj s i (if n0 =? 0 then o else with_content o (N.max (o_size o) (off + n0)) (write_bytes (o_data o) off (takeN n0 d))),
                 RWritten n0 (if unstable_opt s then st else FileSync)
                   (attrs_of i (if n0 =? 0 then o else with_content o (N.max (o_size o) (off + n0)) (write_bytes (o_data o) off (takeN n0 d))))) = (s', RWritten n cm a)).
  { destruct hi; try discriminate; exact Hw. }
  injection Hw' as Hs' Hn0 _ _. subst n.
  assert (Hle : n0 <= cnt) by (unfold n0; destruct hi; lia).
  exists i, o. eexists. split; [reflexivity|]. split; [rewrite <- Hs'; reflexivity|].
  destruct (n0 =? 0) eqn:E0; [split; [reflexivity|reflexivity]|]. split; [|reflexivity].
  intros k Hk. cbn [o_data with_content].
  destruct (write_bytes_spec (o_data o) off (takeN n0 d) W) as [_ B']. rewrite B'.
  assert (Ln : lenN (takeN n0 d) = n0) by (unfold lenN, takeN in *; rewrite take_length; lia). rewrite Ln.
  destruct ((off <=? k) && (k <? off + n0)) eqn:E; [lia|reflexivity].
Qed.

(* no stale data: in every reachable state, every position at or beyond the size of a file holds zero, so
   growing a file (SETATTR, or a WRITE beyond the end) can only expose zeros; together with trunc_data_spec
   (positions cut off are zero at once) nothing that was ever removed from a file can reappear *)
Theorem beyond_size_is_zero u cs i o k :
  objs (run P (init_afs u) cs) !! i = Some o -> o_size o <= k -> byte_at (o_data o) k = x00.
Proof. intros H Hk. exact (proj2 (cinv_reachable P u cs i o H) k Hk). Qed.
End Client.
