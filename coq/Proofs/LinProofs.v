From stdpp Require Import gmap list.
From Coq Require Import NArith Lia Permutation.
From V Require Import Model.Lib Model.Afs Model.Agree Model.Lin.

Section LinProofs.
Variable P : params.

(* the specification: some sequential order of exactly these operations, in which an operation that
   completed before another began comes first, explains every reply and the final state *)
Definition linearizable (ops : list hop) (s0 : afs) (final : afs -> bool) : Prop :=
  exists order : list nat,
    Permutation order (seq 0 (length ops)) /\
    (forall p q i j oi oj, (p < q)%nat -> order !! p = Some i -> order !! q = Some j ->
       ops !! i = Some oi -> ops !! j = Some oj -> ~ (h_ret oj < h_inv oi)%N) /\
    exists s, replay P ops s0 order = Some s /\ final s = true.

Lemma nodupb_sound l : nodupb l = true -> List.NoDup l.
Proof.
  induction l as [|x r IH]; simpl; intros H; [constructor|].
  apply andb_true_iff in H as [H1 H2]. constructor; [|auto].
  intros Hin. apply negb_true_iff in H1. assert (existsb (Nat.eqb x) r = true); [|congruence].
  apply existsb_exists. exists x. split; [exact Hin|apply Nat.eqb_refl].
Qed.

Lemma is_perm_sound n order : is_perm n order = true -> Permutation order (seq 0 n).
Proof.
  unfold is_perm. rewrite !andb_true_iff. intros [[HL HB] HN].
  apply Nat.eqb_eq in HL.
  apply NoDup_Permutation_bis.
  - apply nodupb_sound. exact HN.
  - rewrite seq_length. lia.
  - intros x Hx. apply in_seq. rewrite forallb_forall in HB. specialize (HB x Hx). apply Nat.ltb_lt in HB. lia.
Qed.

Lemma rt_ok_sound ops order : rt_ok ops order = true ->
  forall p q i j oi oj, (p < q)%nat -> order !! p = Some i -> order !! q = Some j ->
    ops !! i = Some oi -> ops !! j = Some oj -> ~ (h_ret oj < h_inv oi)%N.
Proof.
  induction order as [|a r IH]; intros H p q i j oi oj Hpq Hp Hq Hi Hj; [rewrite lookup_nil in Hp; discriminate|].
  simpl in H. apply andb_true_iff in H as [H1 H2].
  destruct p as [|p].
  - simpl in Hp. injection Hp as ->. destruct q as [|q]; [lia|]. simpl in Hq.
    rewrite forallb_forall in H1. specialize (H1 j (proj1 (elem_of_list_In _ _) (elem_of_list_lookup_2 _ _ _ Hq))).
    rewrite Hi, Hj in H1. apply negb_true_iff, N.ltb_ge in H1. lia.
  - destruct q as [|q]; [lia|]. simpl in Hp, Hq. eapply (IH H2 p q); eauto. lia.
Qed.

Theorem lin_check_sound ops s0 final order :
  lin_check P ops s0 final order = true -> linearizable ops s0 final.
Proof.
  unfold lin_check. rewrite !andb_true_iff. intros [[HP HR] HF]. exists order.
  split; [apply is_perm_sound; exact HP|]. split; [apply rt_ok_sound; exact HR|].
  destruct (replay P ops s0 order) as [s|]; [|discriminate]. exists s. auto.
Qed.
End LinProofs.
