(* The numbers the hand-written models use are the numbers of the code: every statement here is closed by
   computation against Gen/GenConsts.v, which the translator regenerates from /repo (and from the go-journal /
   goose packages /repo is built on) on every run.  A changed constant breaks the corresponding line. *)
From stdpp Require Import gmap.
From Coq Require Import NArith.
From V Require Import Gen.GenConsts Model.Lib Model.Afs Model.Abs Model.Agree Model.WalDisk Model.SuperModel Model.TraceCheck.
Open Scope N_scope.

(* blocks, inodes, directories (abs_disk / wf_disk / Layout) *)
Lemma block_size : go_disk_BlockSize = Lib.BS. Proof. reflexivity. Qed.
Lemma ndirect : go_inode_NDIRECT = Abs.NDIRECT. Proof. reflexivity. Qed.
Lemma pointers_per_block : go_inode_NBLKBLK = Abs.NPTR /\ go_inode_NBLKBLK * 8 = go_disk_BlockSize. Proof. split; reflexivity. Qed.
Lemma inode_slots : go_inode_NBLKINO = go_inode_NDIRECT + 2 /\ go_inode_INDIRECT = go_inode_NDIRECT /\
                    go_inode_DINDIRECT = go_inode_NDIRECT + 1 /\ go_inode_NINDLEVEL = 2. Proof. repeat split; reflexivity. Qed.
Lemma dirent_size : go_dir_DIRENTSZ = Abs.DIRENTSZ /\ go_dir_MAXNAMELEN + 16 = go_dir_DIRENTSZ. Proof. split; reflexivity. Qed.
(* the reply-size estimate READDIRPLUS charges per entry (dir.Apply), as used by the page model *)
Lemma readdirplus_baggage : go_dir_entryplus3Baggage = Agree.ENTRYPLUS_BAGGAGE. Proof. reflexivity. Qed.
Lemma inode_size : go_common_INODESZ = SuperModel.INODESZ /\ go_common_INODEBLK = SuperModel.INODEBLK /\
                   go_common_INODESZ * go_common_INODEBLK = go_disk_BlockSize. Proof. repeat split; reflexivity. Qed.
Lemma bitmap_block : go_common_NBITBLOCK = SuperModel.NBITBLOCK /\ go_common_NINODEBITMAP = SuperModel.NINODEBITMAP. Proof. split; reflexivity. Qed.
Lemma root_and_null : go_common_ROOTINUM = Afs.ROOT /\ go_common_NULLINUM = 0 /\ go_common_NULLBNUM = 0. Proof. repeat split; reflexivity. Qed.
(* the largest file the index tree can address, as FSINFO must announce it *)
Lemma max_file_blocks : go_inode_NDIRECT + go_inode_NBLKBLK * go_inode_NBLKBLK = 262152. Proof. reflexivity. Qed.

(* the write-ahead log (WalDisk.recover_log, the layout of the file-system region) *)
Lemma log_region : go_common_LOGSIZE = SuperModel.LOGSIZE /\ go_wal_LOGDISKBLOCKS = go_common_LOGSIZE /\
                   go_wal_LOGSZ = WalDisk.LOGSZ /\ go_wal_LOGSTART = WalDisk.LOGSTART /\ go_wal_HDRADDRS = go_wal_LOGSZ /\
                   go_wal_LOGHDR = 0 /\ go_wal_LOGHDR2 = 1 /\ go_jrnl_LogBlocks = go_wal_LOGSZ. Proof. repeat split; reflexivity. Qed.

(* what the agreement relations read off replies *)
Lemma file_types : kind_code KFile = go_nfstypes_NF3REG /\ kind_code KDir = go_nfstypes_NF3DIR /\ kind_code KLnk = go_nfstypes_NF3LNK /\
                   go_inode_NF3FREE = 0. Proof. repeat split; reflexivity. Qed.
Lemma status_classes : class_of go_nfstypes_NFS3_OK = OK /\ class_of go_nfstypes_NFS3ERR_STALE = STALE /\
                       class_of go_nfstypes_NFS3ERR_NOTSUPP = NOTSUPP /\
                       Forall (fun c => class_of c = ERR)
                         [go_nfstypes_NFS3ERR_NOSPC; go_nfstypes_NFS3ERR_DQUOT; go_nfstypes_NFS3ERR_SERVERFAULT; go_nfstypes_NFS3ERR_NOENT;
                          go_nfstypes_NFS3ERR_EXIST; go_nfstypes_NFS3ERR_NOTDIR; go_nfstypes_NFS3ERR_ISDIR; go_nfstypes_NFS3ERR_INVAL;
                          go_nfstypes_NFS3ERR_NAMETOOLONG; go_nfstypes_NFS3ERR_NOTEMPTY; go_nfstypes_NFS3ERR_BADHANDLE; go_nfstypes_NFS3ERR_FBIG].
Proof. repeat split; try reflexivity. repeat constructor. Qed.
(* the replies treated as resource failures by hint_of are exactly NOSPC, DQUOT and SERVERFAULT *)
Lemma resource_failures : (go_nfstypes_NFS3ERR_NOSPC, go_nfstypes_NFS3ERR_DQUOT, go_nfstypes_NFS3ERR_SERVERFAULT) = (28, 69, 10006). Proof. reflexivity. Qed.
Lemma stability_levels : stable_code Unstable = go_nfstypes_UNSTABLE /\ stable_code DataSync = go_nfstypes_DATA_SYNC /\
                         stable_code FileSync = go_nfstypes_FILE_SYNC. Proof. repeat split; reflexivity. Qed.

(* bundles referenced from Props/ *)
Definition disk_constants_conform : Prop :=
  go_disk_BlockSize = Lib.BS /\ go_inode_NDIRECT = Abs.NDIRECT /\
  (go_inode_NBLKBLK = Abs.NPTR /\ go_inode_NBLKBLK * 8 = go_disk_BlockSize) /\
  (go_inode_NBLKINO = go_inode_NDIRECT + 2 /\ go_inode_INDIRECT = go_inode_NDIRECT /\ go_inode_DINDIRECT = go_inode_NDIRECT + 1 /\ go_inode_NINDLEVEL = 2) /\
  (go_dir_DIRENTSZ = Abs.DIRENTSZ /\ go_dir_MAXNAMELEN + 16 = go_dir_DIRENTSZ) /\
  (go_common_INODESZ = SuperModel.INODESZ /\ go_common_INODEBLK = SuperModel.INODEBLK /\ go_common_INODESZ * go_common_INODEBLK = go_disk_BlockSize) /\
  (go_common_NBITBLOCK = SuperModel.NBITBLOCK /\ go_common_NINODEBITMAP = SuperModel.NINODEBITMAP) /\
  (go_common_ROOTINUM = Afs.ROOT /\ go_common_NULLINUM = 0 /\ go_common_NULLBNUM = 0).
Lemma disk_constants_ok : disk_constants_conform.
Proof. exact (conj block_size (conj ndirect (conj pointers_per_block (conj inode_slots (conj dirent_size (conj inode_size (conj bitmap_block root_and_null))))))). Qed.

Definition log_constants_conform : Prop :=
  go_common_LOGSIZE = SuperModel.LOGSIZE /\ go_wal_LOGDISKBLOCKS = go_common_LOGSIZE /\
  go_wal_LOGSZ = WalDisk.LOGSZ /\ go_wal_LOGSTART = WalDisk.LOGSTART /\ go_wal_HDRADDRS = go_wal_LOGSZ /\
  go_wal_LOGHDR = 0 /\ go_wal_LOGHDR2 = 1 /\ go_jrnl_LogBlocks = go_wal_LOGSZ.
Lemma log_constants_ok : log_constants_conform. Proof. exact log_region. Qed.

Definition reply_constants_conform : Prop :=
  (kind_code KFile = go_nfstypes_NF3REG /\ kind_code KDir = go_nfstypes_NF3DIR /\ kind_code KLnk = go_nfstypes_NF3LNK /\ go_inode_NF3FREE = 0) /\
  (class_of go_nfstypes_NFS3_OK = OK /\ class_of go_nfstypes_NFS3ERR_STALE = STALE /\ class_of go_nfstypes_NFS3ERR_NOTSUPP = NOTSUPP) /\
  (go_nfstypes_NFS3ERR_NOSPC, go_nfstypes_NFS3ERR_DQUOT, go_nfstypes_NFS3ERR_SERVERFAULT) = (28, 69, 10006) /\
  (stable_code Unstable = go_nfstypes_UNSTABLE /\ stable_code DataSync = go_nfstypes_DATA_SYNC /\ stable_code FileSync = go_nfstypes_FILE_SYNC).
Lemma reply_constants_ok : reply_constants_conform.
Proof.
  split; [exact file_types|]. split; [destruct status_classes as (a & b & c & _); auto|].
  split; [exact resource_failures|exact stability_levels].
Qed.
