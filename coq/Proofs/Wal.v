From Coq Require Import List Arith Lia Bool.
Import ListNotations.

Section Wal.
Variable L : nat.                 (* number of log slots (511) *)
Hypothesis Lpos : 0 < L.

(* ---------- maps and replay ---------- *)
Definition mp := nat -> nat.                       (* address -> block value *)
Definition mupd (m:mp) (a v:nat) : mp := fun x => if Nat.eqb x a then v else m x.
Definition upd := (nat * nat)%type.                (* (address, value) *)
Definition replay (l:list upd) (m:mp) : mp := fold_left (fun m u => mupd m (fst u) (snd u)) l m.
Definition txn := list upd.
Definition apply_txns (ts:list txn) (m:mp) : mp := fold_left (fun m t => replay t m) ts m.

Lemma replay_app a b m : replay (a ++ b) m = replay b (replay a m).
Proof. unfold replay. apply fold_left_app. Qed.
Lemma apply_txns_app a b m : apply_txns (a ++ b) m = apply_txns b (apply_txns a m).
Proof. unfold apply_txns. apply fold_left_app. Qed.

Definition meq (m m':mp) := forall x, m x = m' x.
Lemma replay_ext l : forall m m', meq m m' -> meq (replay l m) (replay l m').
Proof.
  induction l as [|[a v] l IH]; intros m m' H; simpl; [exact H|].
  apply IH. intros x. unfold mupd. simpl. destruct (Nat.eqb x a); auto.
Qed.

(* value of address x after replaying l on m: last occurrence wins *)
Lemma replay_notin l : forall m x, ~ In x (map fst l) -> replay l m x = m x.
Proof.
  induction l as [|[a v] l IH]; intros m x H; simpl; [reflexivity|].
  rewrite IH by (intros C; apply H; now right). unfold mupd. simpl.
  destruct (Nat.eqb_spec x a) as [->|]; [exfalso; apply H; now left|reflexivity].
Qed.

(* replaying l on two maps that may differ only on addresses written by l gives the same map *)
Lemma replay_cover l : forall m m', (forall x, ~ In x (map fst l) -> m x = m' x) -> meq (replay l m) (replay l m').
Proof.
  induction l as [|[a v] l IH]; intros m m' H; simpl.
  - intros x. apply H. intros [].
  - intros x. destruct (in_dec Nat.eq_dec x (map fst l)) as [Hin|Hnin].
    + apply IH. intros y Hy. unfold mupd. simpl. destruct (Nat.eqb_spec y a); [reflexivity|].
      (* y not written by l and y <> a : need m y = m' y; but we only know it for y outside a::l *)
      apply H. simpl. intros [C|C]; [congruence|contradiction].
    + rewrite !replay_notin by assumption. unfold mupd. simpl.
      destruct (Nat.eqb_spec x a); [reflexivity|]. apply H. simpl. intros [C|C]; [congruence|contradiction].
Qed.

(* ---------- the persistent disk ---------- *)
Record dsk := { hend : nat; haddr : nat -> nat; hstart : nat; slot : nat -> nat; home : mp }.
Inductive wr := WSlot (i v:nat) | WH1 (e:nat) (ad:nat -> nat) | WH2 (s:nat) | WHome (a v:nat).
Definition apply_wr (c:dsk) (w:wr) : dsk :=
  match w with
  | WSlot i v => {| hend := hend c; haddr := haddr c; hstart := hstart c; slot := mupd (slot c) i v; home := home c |}
  | WH1 e ad  => {| hend := e; haddr := ad; hstart := hstart c; slot := slot c; home := home c |}
  | WH2 s     => {| hend := hend c; haddr := haddr c; hstart := s; slot := slot c; home := home c |}
  | WHome a v => {| hend := hend c; haddr := haddr c; hstart := hstart c; slot := slot c; home := mupd (home c) a v |}
  end.
Definition apply_wrs (c:dsk) (ws:list wr) : dsk := fold_left apply_wr ws c.

Inductive sublist {A} : list A -> list A -> Prop :=
| sl_nil : sublist [] []
| sl_skip x l l' : sublist l l' -> sublist l (x :: l')
| sl_take x l l' : sublist l l' -> sublist (x :: l) (x :: l').

(* crash images: the durable disk plus any subset of the un-barriered writes, in order *)
Definition crash_img (dur:dsk) (pend:list wr) (c:dsk) : Prop := exists ws, sublist ws pend /\ c = apply_wrs dur ws.

Lemma sublist_snoc {A} (ws:list A) pend w : sublist ws (pend ++ [w]) ->
  sublist ws pend \/ exists ws', ws = ws' ++ [w] /\ sublist ws' pend.
Proof.
  revert ws. induction pend as [|p pend IH]; intros ws H; simpl in H.
  - inversion H as [| ? ? ? H1 | ? ? ? H1]; subst; inversion H1; subst.
    + left. constructor.
    + right. exists []. split; [reflexivity|constructor].
  - inversion H as [| ? ? ? H1 | ? ? ? H1]; subst.
    + destruct (IH _ H1) as [Q|(ws' & -> & Q)]; [left; now constructor|right; exists ws'; split; [reflexivity|now constructor]].
    + destruct (IH _ H1) as [Q|(ws' & -> & Q)]; [left; now constructor|right; exists (p :: ws'); split; [reflexivity|now constructor]].
Qed.

Lemma crash_img_snoc dur pend w c : crash_img dur (pend ++ [w]) c ->
  crash_img dur pend c \/ exists c0, crash_img dur pend c0 /\ c = apply_wr c0 w.
Proof.
  intros (ws & Hs & ->). destruct (sublist_snoc _ _ _ Hs) as [Q|(ws' & -> & Q)].
  - left. exists ws. auto.
  - right. exists (apply_wrs dur ws'). split; [exists ws'; auto|]. unfold apply_wrs. rewrite fold_left_app. reflexivity.
Qed.

Lemma sublist_refl {A} (l:list A) : sublist l l.
Proof. induction l; [constructor|now apply sl_take]. Qed.

Lemma crash_img_barrier dur pend c : crash_img (apply_wrs dur pend) [] c -> crash_img dur pend c.
Proof. intros (ws & Hs & ->). inversion Hs; subst. exists pend. split; [apply sublist_refl|reflexivity]. Qed.

(* ---------- volatile state of the WAL and its ghost variables ---------- *)
Inductive lpc := LIdle | LWriting (e k:nat) | LBar1 (e:nat) | LHdr (e:nat).
Inductive ipc := IIdle | IWriting (e k:nat) | IBar1 (e:nat) | IHdr (e:nat).

Record st := {
  dur : dsk; pend : list wr;
  flog : list upd;              (* ghost: whole log since time 0; log position = index *)
  mstart : nat; diskEnd : nat; mutabl : nat;
  amem : nat -> nat;            (* in-memory copy of the slot addresses *)
  lp : lpc; ip : ipc;
  txns : list txn;              (* ghost: every transaction appended so far *)
  bnd : list (nat * nat)        (* ghost: (log position, number of transactions) boundaries *)
}.

Definition pos (fl:list upd) (p:nat) : upd := nth p fl (0,0).
Definition seg (fl:list upd) (a b:nat) : list upd := firstn (b - a) (skipn a fl).   (* positions [a,b) *)

(* absorption into the mutable tail *)
Fixpoint absorb (m:list upd) (a v:nat) : option (list upd) :=
  match m with
  | [] => None
  | (a',v') :: r => if Nat.eqb a' a then Some ((a,v) :: r)
                   else match absorb r a v with Some r' => Some ((a',v') :: r') | None => None end
  end.
Definition memwrite1 (m:list upd) (u:upd) : list upd :=
  match absorb m (fst u) (snd u) with Some m' => m' | None => m ++ [u] end.
Definition memwrite (m:list upd) (t:txn) : list upd := fold_left memwrite1 t m.

Definition addrs (l:list upd) : list nat := map fst l.

Lemma meq_refl m : meq m m. Proof. intros x; reflexivity. Qed.
Lemma meq_trans a b c : meq a b -> meq b c -> meq a c. Proof. intros H1 H2 x. now rewrite H1. Qed.
Lemma meq_sym a b : meq a b -> meq b a. Proof. intros H x. now rewrite H. Qed.

Lemma mupd_comm m a v b w : a <> b -> meq (mupd (mupd m a v) b w) (mupd (mupd m b w) a v).
Proof. intros H x. unfold mupd. destruct (Nat.eqb_spec x b), (Nat.eqb_spec x a); congruence. Qed.
Lemma mupd_shadow m a v w : meq (mupd (mupd m a v) a w) (mupd m a w).
Proof. intros x. unfold mupd. destruct (Nat.eqb x a); reflexivity. Qed.

(* an update commutes past a log that does not mention its address *)
Lemma replay_mupd_notin l : forall m a v, ~ In a (addrs l) -> meq (replay l (mupd m a v)) (mupd (replay l m) a v).
Proof.
  induction l as [|[b w] l IH]; intros m a v H; simpl; [apply meq_refl|].
  assert (a <> b) by (intros ->; apply H; now left).
  eapply meq_trans; [apply replay_ext, mupd_comm; exact H0|]. apply IH. intros C. apply H. now right.
Qed.

Lemma absorb_none m a v : absorb m a v = None -> ~ In a (addrs m).
Proof.
  induction m as [|[a' v'] m IH]; simpl; [auto|]. destruct (Nat.eqb_spec a' a); [discriminate|].
  destruct (absorb m a v); [discriminate|]. intros _ [C|C]; [simpl in C; congruence|now apply IH].
Qed.

Lemma absorb_some m a v : forall m', absorb m a v = Some m' ->
  addrs m' = addrs m /\ length m' = length m /\
  (NoDup (addrs m) -> forall x, meq (replay m' x) (replay (m ++ [(a,v)]) x)).
Proof.
  induction m as [|[a' v'] m IH]; intros m' H; simpl in H; [discriminate|].
  destruct (Nat.eqb_spec a' a) as [->|N].
  - injection H as <-. split; [reflexivity|]. split; [reflexivity|]. intros ND x. simpl in ND. apply NoDup_cons_iff in ND as [Hn _].
    intros y. simpl. rewrite replay_app.
    change (replay ((a, v) :: m) x) with (replay m (mupd x a v)).
    change (replay ((a, v') :: m) x) with (replay m (mupd x a v')).
    change (replay [(a, v)] (replay m (mupd x a v'))) with (mupd (replay m (mupd x a v')) a v).
    rewrite (replay_mupd_notin m x a v Hn y). unfold mupd at 1 2.
    destruct (Nat.eqb y a) eqn:Ey; [reflexivity|]. rewrite (replay_mupd_notin m x a v' Hn y). unfold mupd.
    rewrite Ey. reflexivity.
  - destruct (absorb m a v) as [r'|] eqn:E; [|discriminate]. injection H as <-.
    destruct (IH _ eq_refl) as (A & B & C). split; [simpl; now rewrite A|]. split; [simpl; now rewrite B|].
    intros ND x. simpl in ND. apply NoDup_cons_iff in ND as [_ ND]. simpl. apply C. exact ND.
Qed.

Lemma nodup_snoc (l:list nat) a : NoDup l -> ~ In a l -> NoDup (l ++ [a]).
Proof.
  induction l as [|x l IH]; intros ND Hn; simpl; [constructor; [intros []|constructor]|].
  apply NoDup_cons_iff in ND as [Hx ND]. constructor.
  - intros C. apply in_app_or in C as [C|[C|[]]]; [auto|]. subst. apply Hn. now left.
  - apply IH; [exact ND|]. intros C. apply Hn. now right.
Qed.

Lemma memwrite1_spec m u : NoDup (addrs m) ->
  NoDup (addrs (memwrite1 m u)) /\ length m <= length (memwrite1 m u) /\ forall x, meq (replay (memwrite1 m u) x) (replay (m ++ [u]) x).
Proof.
  intros ND. unfold memwrite1. destruct u as [a v]. simpl. destruct (absorb m a v) as [m'|] eqn:E.
  - destruct (absorb_some _ _ _ _ E) as (A & B & C). rewrite A. split; [exact ND|]. split; [lia|]. apply C, ND.
  - apply absorb_none in E. split.
    + unfold addrs. rewrite map_app. simpl. apply nodup_snoc; assumption.
    + split; [rewrite app_length; lia|intros; apply meq_refl].
Qed.

Lemma memwrite_spec t : forall m, NoDup (addrs m) ->
  NoDup (addrs (memwrite m t)) /\ length m <= length (memwrite m t) /\ forall x, meq (replay (memwrite m t) x) (replay (m ++ t) x).
Proof.
  induction t as [|u t IH]; intros m ND; simpl.
  - split; [exact ND|]. split; [lia|]. intros x. rewrite app_nil_r. apply meq_refl.
  - destruct (memwrite1_spec m u ND) as (A & B & C). destruct (IH _ A) as (A' & B' & C').
    split; [exact A'|]. split; [lia|]. intros x. eapply meq_trans; [apply C'|].
    rewrite !replay_app. change (u :: t) with ([u] ++ t). rewrite replay_app.
    apply replay_ext. rewrite <- replay_app. apply C.
Qed.
Variable base0 : mp.     (* contents of the home region at time 0 *)

Definition barrier (s:st) : st :=
  {| dur := apply_wrs (dur s) (pend s); pend := []; flog := flog s; mstart := mstart s; diskEnd := diskEnd s;
     mutabl := mutabl s; amem := amem s; lp := lp s; ip := ip s; txns := txns s; bnd := bnd s |}.
Definition issue (s:st) (w:wr) : st :=
  {| dur := dur s; pend := pend s ++ [w]; flog := flog s; mstart := mstart s; diskEnd := diskEnd s;
     mutabl := mutabl s; amem := amem s; lp := lp s; ip := ip s; txns := txns s; bnd := bnd s |}.
Definition set_lp (s:st) (l:lpc) : st :=
  {| dur := dur s; pend := pend s; flog := flog s; mstart := mstart s; diskEnd := diskEnd s;
     mutabl := mutabl s; amem := amem s; lp := l; ip := ip s; txns := txns s; bnd := bnd s |}.
Definition set_ip (s:st) (i:ipc) : st :=
  {| dur := dur s; pend := pend s; flog := flog s; mstart := mstart s; diskEnd := diskEnd s;
     mutabl := mutabl s; amem := amem s; lp := lp s; ip := i; txns := txns s; bnd := bnd s |}.

Inductive step : st -> st -> Prop :=
| s_append s t :
    step s {| dur := dur s; pend := pend s;
              flog := firstn (mutabl s) (flog s) ++ memwrite (skipn (mutabl s) (flog s)) t;
              mstart := mstart s; diskEnd := diskEnd s; mutabl := mutabl s; amem := amem s; lp := lp s; ip := ip s;
              txns := txns s ++ [t]; bnd := bnd s |}
| s_mark s :                                   (* flushIfNeeded: close the current group *)
    step s {| dur := dur s; pend := pend s; flog := flog s; mstart := mstart s; diskEnd := diskEnd s;
              mutabl := length (flog s); amem := amem s; lp := lp s; ip := ip s; txns := txns s;
              bnd := bnd s ++ [(length (flog s), length (txns s))] |}
| l_begin s : lp s = LIdle -> diskEnd s < mutabl s -> mutabl s - mstart s <= L ->
    step s (set_lp s (LWriting (mutabl s) (diskEnd s)))
| l_write s e k : lp s = LWriting e k -> k < e ->
    step s {| dur := dur s; pend := pend s ++ [WSlot (k mod L) (snd (pos (flog s) k))];
              flog := flog s; mstart := mstart s; diskEnd := diskEnd s; mutabl := mutabl s;
              amem := mupd (amem s) (k mod L) (fst (pos (flog s) k));
              lp := LWriting e (S k); ip := ip s; txns := txns s; bnd := bnd s |}
| l_bar1 s e : lp s = LWriting e e -> step s (set_lp (barrier s) (LBar1 e))
| l_hdr s e : lp s = LBar1 e -> step s (set_lp (issue s (WH1 e (amem s))) (LHdr e))
| l_bar2 s e : lp s = LHdr e ->
    step s {| dur := apply_wrs (dur s) (pend s); pend := []; flog := flog s; mstart := mstart s; diskEnd := e;
              mutabl := mutabl s; amem := amem s; lp := LIdle; ip := ip s; txns := txns s; bnd := bnd s |}
| i_begin s : ip s = IIdle -> mstart s < diskEnd s -> step s (set_ip s (IWriting (diskEnd s) (mstart s)))
| i_write s e k : ip s = IWriting e k -> k < e ->
    step s (set_ip (issue s (WHome (fst (pos (flog s) k)) (snd (pos (flog s) k)))) (IWriting e (S k)))
| i_bar1 s e : ip s = IWriting e e -> step s (set_ip (barrier s) (IBar1 e))
| i_hdr s e : ip s = IBar1 e -> step s (set_ip (issue s (WH2 e)) (IHdr e))
| i_bar2 s e : ip s = IHdr e ->
    step s {| dur := apply_wrs (dur s) (pend s); pend := []; flog := flog s; mstart := e; diskEnd := diskEnd s;
              mutabl := mutabl s; amem := amem s; lp := lp s; ip := IIdle; txns := txns s; bnd := bnd s |}.

Definition init : st :=
  {| dur := {| hend := 0; haddr := fun _ => 0; hstart := 0; slot := fun _ => 0; home := base0 |};
     pend := []; flog := []; mstart := 0; diskEnd := 0; mutabl := 0; amem := fun _ => 0;
     lp := LIdle; ip := IIdle; txns := []; bnd := [(0,0)] |}.

(* what recovery computes from a crashed disk (recoverCircular + overlay on the home blocks) *)
Definition recovered_log (c:dsk) : list upd :=
  map (fun p => (haddr c (p mod L), slot c (p mod L))) (seq (hstart c) (hend c - hstart c)).
Definition recover (c:dsk) : mp := replay (recovered_log c) (home c).

(* ---------- helper facts ---------- *)
Lemma mod_window m p q : m <= p -> p < q -> q < m + L -> p mod L <> q mod L.
Proof.
  intros H1 H2 H3 E.
  pose proof (Nat.div_mod p L ltac:(lia)). pose proof (Nat.div_mod q L ltac:(lia)).
  pose proof (Nat.mod_upper_bound p L ltac:(lia)).
  assert (q / L <= p / L \/ q / L >= S (p / L)) as [C|C] by lia; nia.
Qed.

Lemma firstn_stable {A} (p mut:nat) (fl x:list A) : p <= mut -> mut <= length fl ->
  firstn p (firstn mut fl ++ x) = firstn p fl.
Proof.
  intros H1 H2. rewrite firstn_app. rewrite firstn_length. replace (p - Nat.min mut (length fl)) with 0 by lia.
  simpl. rewrite app_nil_r. rewrite firstn_firstn. f_equal. lia.
Qed.

Lemma pos_stable (p mut:nat) (fl x:list upd) : p < mut -> mut <= length fl ->
  pos (firstn mut fl ++ x) p = pos fl p.
Proof.
  intros H1 H2. unfold pos. rewrite app_nth1 by (rewrite firstn_length; lia).
  rewrite <- (firstn_skipn mut fl) at 2. rewrite app_nth1 by (rewrite firstn_length; lia). reflexivity.
Qed.

Lemma skipn_firstn_app {A} a mut (fl x:list A) : a <= mut -> mut <= length fl ->
  skipn a (firstn mut fl ++ x) = skipn a (firstn mut fl) ++ x.
Proof. intros. rewrite skipn_app. rewrite firstn_length. replace (a - Nat.min mut (length fl)) with 0 by lia. reflexivity. Qed.

Lemma seg_stable (a b mut:nat) (fl x:list upd) : b <= mut -> mut <= length fl ->
  seg (firstn mut fl ++ x) a b = seg fl a b.
Proof.
  intros H1 H2. unfold seg. destruct (le_lt_dec a b) as [Hab|Hab].
  - rewrite skipn_firstn_app by lia. rewrite firstn_app. rewrite skipn_length, firstn_length.
    replace (b - a - (Nat.min mut (length fl) - a)) with 0 by lia. simpl. rewrite app_nil_r.
    rewrite <- (firstn_skipn mut fl) at 2. rewrite skipn_app. rewrite firstn_length.
    replace (a - Nat.min mut (length fl)) with 0 by lia. simpl. rewrite firstn_app.
    rewrite skipn_length, firstn_length. replace (b - a - (Nat.min mut (length fl) - a)) with 0 by lia.
    simpl. rewrite app_nil_r. reflexivity.
  - replace (b - a) with 0 by lia. reflexivity.
Qed.

Lemma skipn_S {A} : forall a (l:list A) u r, skipn a l = u :: r -> skipn (S a) l = r.
Proof.
  induction a as [|a IH]; intros l u r H; simpl in *.
  - subst. reflexivity.
  - destruct l as [|x l]; [discriminate|]. simpl. destruct l as [|y l']; [destruct a; discriminate|]. apply (IH _ _ _ H).
Qed.

(* positions [a,b) of the log as (address, value) pairs *)
Lemma seg_map fl a b : b <= length fl -> seg fl a b = map (pos fl) (seq a (b - a)).
Proof.
  intros Hb. unfold seg. remember (b - a) as n eqn:En. revert a b Hb En.
  induction n as [|n IH]; intros a b Hb En; simpl; [reflexivity|].
  assert (a < length fl) by lia.
  destruct (skipn a fl) as [|u r] eqn:Es.
  - exfalso. assert (length (skipn a fl) = 0) by now rewrite Es. rewrite skipn_length in H0. lia.
  - simpl. f_equal.
    + unfold pos. rewrite <- (firstn_skipn a fl). rewrite app_nth2; rewrite firstn_length; [|lia].
      replace (a - Nat.min a (length fl)) with 0 by lia. rewrite Es. reflexivity.
    + rewrite <- (skipn_S _ _ _ _ Es). apply (IH (S a) b); lia.
Qed.

Lemma firstn_seg fl a b : a <= b -> firstn b fl = firstn a fl ++ seg fl a b.
Proof.
  intros H. unfold seg. rewrite <- (firstn_skipn a fl) at 1. rewrite firstn_app. rewrite firstn_firstn.
  rewrite firstn_length. replace (Nat.min b a) with a by lia.
  destruct (le_lt_dec a (length fl)).
  - replace (b - Nat.min a (length fl)) with (b - a) by lia. reflexivity.
  - rewrite (skipn_all2 fl) by lia. rewrite !firstn_nil. reflexivity.
Qed.

(* ---------- the invariant ---------- *)
Definition written (s:st) := match lp s with LIdle => diskEnd s | LWriting _ k => k | LBar1 e => e | LHdr e => e end.
Definition lend (s:st) := match lp s with LIdle => diskEnd s | LWriting e _ => e | LBar1 e => e | LHdr e => e end.
Definition dwritten (s:st) := match lp s with LBar1 e => e | LHdr e => e | _ => diskEnd s end.
Definition iend (s:st) : option nat := match ip s with IBar1 e => Some e | IHdr e => Some e | _ => None end.

Record vinv (s:st) : Prop := {
  v_ord : mstart s <= diskEnd s /\ diskEnd s <= mutabl s /\ mutabl s <= length (flog s);
  v_lp : diskEnd s <= written s /\ written s <= lend s /\ lend s <= mutabl s /\ lend s <= mstart s + L;
  v_ip : match ip s with IIdle => True | IWriting e k => mstart s <= k /\ k <= e /\ e <= diskEnd s
                       | IBar1 e => mstart s <= e /\ e <= diskEnd s | IHdr e => mstart s <= e /\ e <= diskEnd s end;
  v_amem : forall p, mstart s <= p -> p < written s -> amem s (p mod L) = fst (pos (flog s) p);
  v_bnd : forall p k, In (p,k) (bnd s) ->
            p <= mutabl s /\ k <= length (txns s) /\
            meq (replay (firstn p (flog s)) base0) (apply_txns (firstn k (txns s)) base0);
  v_bpos : (exists k, In (diskEnd s, k) (bnd s)) /\ (exists k, In (mutabl s, k) (bnd s)) /\ (exists k, In (lend s, k) (bnd s));
  v_end : meq (replay (flog s) base0) (apply_txns (txns s) base0);
  v_nd : NoDup (addrs (skipn (mutabl s) (flog s)))
}.

Record good (s:st) (c:dsk) : Prop := {
  g_hend : hend c = diskEnd s \/ lp s = LHdr (hend c);
  g_hstart : hstart c = mstart s \/ ip s = IHdr (hstart c);
  g_slot : forall p, hstart c <= p -> p < hend c ->
             slot c (p mod L) = snd (pos (flog s) p) /\ haddr c (p mod L) = fst (pos (flog s) p);
  g_dslot : forall p, diskEnd s <= p -> p < dwritten s -> slot c (p mod L) = snd (pos (flog s) p);
  g_home : forall a, home c a = replay (firstn (hstart c) (flog s)) base0 a \/
                     In a (addrs (seg (flog s) (hstart c) (diskEnd s)));
  g_dhome : forall e, iend s = Some e -> forall a,
              home c a = replay (firstn e (flog s)) base0 a \/ In a (addrs (seg (flog s) e (diskEnd s)))
}.

Definition full (s:st) : dsk := apply_wrs (dur s) (pend s).

Record finv (s:st) : Prop := {
  f_home : forall e k, ip s = IWriting e k -> forall a,
             home (full s) a = replay (firstn k (flog s)) base0 a \/ In a (addrs (seg (flog s) k (diskEnd s)));
  f_slot : forall e k, lp s = LWriting e k -> forall p, diskEnd s <= p -> p < k ->
             slot (full s) (p mod L) = snd (pos (flog s) p);
  f_hstart : forall e, ip s = IHdr e -> hstart (full s) = e;
  f_hend : forall e, lp s = LHdr e -> hend (full s) = e
}.

Definition Inv (s:st) : Prop :=
  vinv s /\ (forall c, crash_img (dur s) (pend s) c -> good s c) /\ finv s.

Lemma full_is_crash s : crash_img (dur s) (pend s) (full s).
Proof. exists (pend s). split; [apply sublist_refl|reflexivity]. Qed.

Lemma inv_init : Inv init.
Proof.
  split; [|split].
  - constructor; unfold written, lend; simpl.
    + lia.
    + lia.
    + exact I.
    + intros p H1 H2. lia.
    + intros p k [[= <- <-]|[]]. split; [lia|]. split; [lia|]. apply meq_refl.
    + split; [|split]; exists 0; now left.
    + apply meq_refl.
    + constructor.
  - intros c (ws & Hs & ->). inversion Hs; subst. simpl. constructor; unfold dwritten, iend; simpl.
    + now left.
    + now left.
    + intros; lia.
    + intros; lia.
    + intros a. now left.
    + intros e [=].
  - constructor; simpl; intros; discriminate.
Qed.

(* ---------- more helpers ---------- *)
Lemma in_firstn_mono {A} (l:list A) n n' x : n <= n' -> In x (firstn n l) -> In x (firstn n' l).
Proof.
  revert n n'. induction l as [|y l IH]; intros n n' H Hx; [now rewrite firstn_nil in *|].
  destruct n as [|n]; [destruct Hx|]. destruct n' as [|n']; [lia|]. simpl in *.
  destruct Hx as [->|Hx]; [now left|right]. apply (IH n n'); [lia|exact Hx].
Qed.

Lemma seg_mono_in fl x b b' a : b <= b' -> In a (addrs (seg fl x b)) -> In a (addrs (seg fl x b')).
Proof.
  intros H Ha. unfold addrs, seg in *. apply in_map_iff in Ha as (u & <- & Hu). apply in_map.
  apply (in_firstn_mono _ (b - x) (b' - x)); [lia|exact Hu].
Qed.

Lemma in_seg_pos fl x b p : x <= p -> p < b -> b <= length fl -> In (fst (pos fl p)) (addrs (seg fl x b)).
Proof.
  intros H1 H2 H3. rewrite seg_map by exact H3. unfold addrs. rewrite map_map. apply in_map_iff.
  exists p. split; [reflexivity|]. apply in_seq. lia.
Qed.

Lemma seg_cons fl k b : k < b -> b <= length fl -> seg fl k b = pos fl k :: seg fl (S k) b.
Proof.
  intros H1 H2. rewrite !seg_map by exact H2. replace (b - k) with (S (b - S k)) by lia. reflexivity.
Qed.

Lemma firstn_S_pos fl k : k < length fl -> firstn (S k) fl = firstn k fl ++ [pos fl k].
Proof.
  intros H. rewrite (firstn_seg fl k (S k)) by lia. f_equal. rewrite (seg_cons fl k (S k)) by lia.
  unfold seg. replace (S k - S k) with 0 by lia. reflexivity.
Qed.

Lemma apply_wrs_snoc d p w : apply_wrs d (p ++ [w]) = apply_wr (apply_wrs d p) w.
Proof. unfold apply_wrs. rewrite fold_left_app. reflexivity. Qed.

Lemma replay_snoc l u m : replay (l ++ [u]) m = mupd (replay l m) (fst u) (snd u).
Proof. rewrite replay_app. reflexivity. Qed.

(* bounds that every crash image satisfies *)
Lemma good_bounds s c : vinv s -> good s c ->
  mstart s <= hstart c /\ hstart c <= diskEnd s /\ diskEnd s <= hend c /\ hend c <= lend s /\ lend s <= mutabl s.
Proof.
  intros V G. destruct V as [Vo Vl Vi _ _ _ _ _]. destruct G as [Ge Gs _ _ _ _].
  assert (mstart s <= hstart c /\ hstart c <= diskEnd s).
  { destruct Gs as [->|E]; [lia|]. rewrite E in Vi. lia. }
  assert (diskEnd s <= hend c /\ hend c <= lend s).
  { unfold lend, written in *. destruct Ge as [->|E]; [destruct (lp s); lia|]. rewrite E in *. lia. }
  unfold lend in *. lia.
Qed.

(* ---------- preservation, one transition at a time ---------- *)
Lemma pres_l_begin s : Inv s -> lp s = LIdle -> diskEnd s < mutabl s -> mutabl s - mstart s <= L ->
  Inv (set_lp s (LWriting (mutabl s) (diskEnd s))).
Proof.
  intros (V & G & F) Hlp H1 H2. pose proof V as V0. destruct V as [Vo Vl Vi Va Vb Vp Ve Vn].
  unfold written, lend in *. rewrite Hlp in *.
  split; [|split].
  - constructor; unfold written, lend; simpl.
    + exact Vo.
    + lia.
    + exact Vi.
    + exact Va.
    + exact Vb.
    + destruct Vp as (A & B & C). auto.
    + exact Ve.
    + exact Vn.
  - intros c Hc. specialize (G c Hc). destruct G as [Ge Gs Gl Gd Gh Gdh].
    constructor; unfold dwritten, iend in *; simpl.
    + destruct Ge as [?|E]; [now left|rewrite Hlp in E; discriminate].
    + exact Gs.
    + exact Gl.
    + intros; lia.
    + exact Gh.
    + exact Gdh.
  - destruct F as [Fh Fs Fhs Fhe]. constructor; simpl.
    + exact Fh.
    + intros e k [= <- <-] p Hp1 Hp2. lia.
    + exact Fhs.
    + intros e [=].
Qed.

Lemma pres_l_write s e k : Inv s -> lp s = LWriting e k -> k < e ->
  Inv {| dur := dur s; pend := pend s ++ [WSlot (k mod L) (snd (pos (flog s) k))];
         flog := flog s; mstart := mstart s; diskEnd := diskEnd s; mutabl := mutabl s;
         amem := mupd (amem s) (k mod L) (fst (pos (flog s) k));
         lp := LWriting e (S k); ip := ip s; txns := txns s; bnd := bnd s |}.
Proof.
  intros (V & G & F) Hlp Hk. pose proof V as V0. destruct V as [Vo Vl Vi Va Vb Vp Ve Vn].
  unfold written, lend in *. rewrite Hlp in *.
  split; [|split].
  - constructor; unfold written, lend; simpl.
    + exact Vo.
    + lia.
    + exact Vi.
    + intros p Hp1 Hp2. unfold mupd. destruct (Nat.eq_dec p k) as [->|Np].
      * now rewrite Nat.eqb_refl.
      * assert (p mod L <> k mod L) by (apply (mod_window (mstart s)); lia).
        apply Nat.eqb_neq in H. rewrite H. apply Va; lia.
    + exact Vb.
    + exact Vp.
    + exact Ve.
    + exact Vn.
  - intros c' Hc'. simpl in Hc'. apply crash_img_snoc in Hc' as [Hc|(c & Hc & ->)].
    + specialize (G c' Hc). destruct G as [Ge Gs Gl Gd Gh Gdh].
      constructor; unfold dwritten, iend in *; simpl.
      * destruct Ge as [?|E]; [now left|rewrite Hlp in E; discriminate].
      * exact Gs.
      * exact Gl.
      * intros; lia.
      * exact Gh.
      * exact Gdh.
    + pose proof (good_bounds s c V0 (G c Hc)) as B. unfold lend in B. rewrite Hlp in B.
      specialize (G c Hc). destruct G as [Ge Gs Gl Gd Gh Gdh].
      assert (Hhe: hend c = diskEnd s) by (destruct Ge as [?|E]; [assumption|rewrite Hlp in E; discriminate]).
      constructor; unfold dwritten, iend in *; simpl.
      * now left.
      * exact Gs.
      * intros p Hp1 Hp2. destruct (Gl p Hp1 Hp2) as [A1 A2]. split; [|exact A2].
        unfold mupd. assert (p mod L <> k mod L) by (apply (mod_window (mstart s)); lia).
        apply Nat.eqb_neq in H. rewrite H. exact A1.
      * intros; lia.
      * exact Gh.
      * exact Gdh.
  - destruct F as [Fh Fs Fhs Fhe]. unfold full in *.
    constructor; unfold full; simpl; rewrite apply_wrs_snoc; simpl.
    + exact Fh.
    + intros e' k' [= <- <-] p Hp1 Hp2. unfold mupd. destruct (Nat.eq_dec p k) as [->|Np].
      * now rewrite Nat.eqb_refl.
      * assert (p mod L <> k mod L) by (apply (mod_window (mstart s)); lia).
        apply Nat.eqb_neq in H. rewrite H. apply (Fs e k Hlp); lia.
    + exact Fhs.
    + intros e' [=].
Qed.

Lemma crash_nil d c : crash_img d [] c -> c = d.
Proof. intros (ws & Hs & ->). inversion Hs; subst. reflexivity. Qed.

Lemma pres_l_bar1 s e : Inv s -> lp s = LWriting e e -> Inv (set_lp (barrier s) (LBar1 e)).
Proof.
  intros (V & G & F) Hlp. pose proof V as V0. destruct V as [Vo Vl Vi Va Vb Vp Ve Vn].
  unfold written, lend in *. rewrite Hlp in *.
  pose proof (G _ (full_is_crash s)) as GF.
  split; [|split].
  - constructor; unfold written, lend; simpl.
    + exact Vo.
    + lia.
    + exact Vi.
    + exact Va.
    + exact Vb.
    + exact Vp.
    + exact Ve.
    + exact Vn.
  - intros c Hc. simpl in Hc. apply crash_nil in Hc. subst c. fold (full s).
    destruct GF as [Ge Gs Gl Gd Gh Gdh]. destruct F as [Fh Fs Fhs Fhe].
    constructor; unfold dwritten, iend in *; simpl.
    + destruct Ge as [?|E]; [now left|rewrite Hlp in E; discriminate].
    + exact Gs.
    + exact Gl.
    + intros p Hp1 Hp2. apply (Fs e e Hlp); lia.
    + exact Gh.
    + exact Gdh.
  - destruct F as [Fh Fs Fhs Fhe]. unfold full in *. constructor; unfold full; simpl.
    + exact Fh.
    + intros e' k' [=].
    + exact Fhs.
    + intros e' [=].
Qed.

Lemma pres_l_hdr s e : Inv s -> lp s = LBar1 e -> Inv (set_lp (issue s (WH1 e (amem s))) (LHdr e)).
Proof.
  intros (V & G & F) Hlp. pose proof V as V0. destruct V as [Vo Vl Vi Va Vb Vp Ve Vn].
  unfold written, lend in *. rewrite Hlp in *.
  split; [|split].
  - constructor; unfold written, lend; simpl.
    + exact Vo.
    + lia.
    + exact Vi.
    + exact Va.
    + exact Vb.
    + exact Vp.
    + exact Ve.
    + exact Vn.
  - intros c' Hc'. simpl in Hc'. apply crash_img_snoc in Hc' as [Hc|(c & Hc & ->)].
    + specialize (G c' Hc). destruct G as [Ge Gs Gl Gd Gh Gdh].
      constructor; unfold dwritten, iend in *; simpl; rewrite ?Hlp in *.
      * destruct Ge as [?|E]; [now left|discriminate].
      * exact Gs.
      * exact Gl.
      * exact Gd.
      * exact Gh.
      * exact Gdh.
    + pose proof (good_bounds s c V0 (G c Hc)) as B. unfold lend in B. rewrite Hlp in B.
      specialize (G c Hc). destruct G as [Ge Gs Gl Gd Gh Gdh].
      assert (Hhe: hend c = diskEnd s) by (destruct Ge as [?|E]; [assumption|rewrite Hlp in E; discriminate]).
      constructor; unfold dwritten, iend in *; simpl; rewrite ?Hlp in *.
      * now right.
      * exact Gs.
      * intros p Hp1 Hp2. split.
        -- destruct (le_lt_dec (diskEnd s) p) as [Hge|Hlt]; [apply Gd; lia|apply Gl; lia].
        -- apply Va; lia.
      * exact Gd.
      * exact Gh.
      * exact Gdh.
  - destruct F as [Fh Fs Fhs Fhe]. unfold full in *.
    constructor; unfold full; simpl; rewrite apply_wrs_snoc; simpl.
    + exact Fh.
    + intros e' k' [=].
    + exact Fhs.
    + intros e' [= <-]. reflexivity.
Qed.

Lemma pres_l_bar2 s e : Inv s -> lp s = LHdr e ->
  Inv {| dur := apply_wrs (dur s) (pend s); pend := []; flog := flog s; mstart := mstart s; diskEnd := e;
         mutabl := mutabl s; amem := amem s; lp := LIdle; ip := ip s; txns := txns s; bnd := bnd s |}.
Proof.
  intros (V & G & F) Hlp. pose proof V as V0. destruct V as [Vo Vl Vi Va Vb Vp Ve Vn].
  unfold written, lend in *. rewrite Hlp in *.
  pose proof (G _ (full_is_crash s)) as GF.
  split; [|split].
  - constructor; unfold written, lend; simpl.
    + lia.
    + lia.
    + destruct (ip s); try exact I; lia.
    + exact Va.
    + exact Vb.
    + destruct Vp as (A & B & C). auto.
    + exact Ve.
    + exact Vn.
  - intros c Hc. simpl in Hc. apply crash_nil in Hc. subst c. fold (full s).
    destruct GF as [Ge Gs Gl Gd Gh Gdh]. destruct F as [Fh Fs Fhs Fhe].
    constructor; unfold dwritten, iend in *; simpl.
    + left. apply (Fhe e Hlp).
    + exact Gs.
    + exact Gl.
    + intros; lia.
    + intros a. destruct (Gh a) as [?|H]; [now left|right]. apply (seg_mono_in _ _ (diskEnd s)); [lia|exact H].
    + intros e' He' a. destruct (Gdh e' He' a) as [?|H]; [now left|right]. apply (seg_mono_in _ _ (diskEnd s)); [lia|exact H].
  - destruct F as [Fh Fs Fhs Fhe]. unfold full in *. constructor; unfold full; simpl.
    + intros e' k' Hip a. destruct (Fh e' k' Hip a) as [?|H]; [now left|right]. apply (seg_mono_in _ _ (diskEnd s)); [lia|exact H].
    + intros e' k' [=].
    + exact Fhs.
    + intros e' [=].
Qed.

Lemma pres_i_begin s : Inv s -> ip s = IIdle -> mstart s < diskEnd s ->
  Inv (set_ip s (IWriting (diskEnd s) (mstart s))).
Proof.
  intros (V & G & F) Hip H1. pose proof V as V0. destruct V as [Vo Vl Vi Va Vb Vp Ve Vn].
  pose proof (G _ (full_is_crash s)) as GF.
  split; [|split].
  - constructor; unfold written, lend in *; simpl.
    + exact Vo.
    + exact Vl.
    + lia.
    + exact Va.
    + exact Vb.
    + exact Vp.
    + exact Ve.
    + exact Vn.
  - intros c Hc. specialize (G c Hc). destruct G as [Ge Gs Gl Gd Gh Gdh].
    constructor; unfold dwritten, iend in *; simpl.
    + exact Ge.
    + destruct Gs as [?|E]; [now left|rewrite Hip in E; discriminate].
    + exact Gl.
    + exact Gd.
    + exact Gh.
    + intros e [=].
  - destruct F as [Fh Fs Fhs Fhe]. destruct GF as [Ge Gs Gl Gd Gh Gdh]. constructor; simpl.
    + intros e k [= <- <-] a.
      assert (Hs: hstart (full s) = mstart s) by (destruct Gs as [?|E]; [assumption|rewrite Hip in E; discriminate]).
      rewrite Hs in Gh. apply Gh.
    + exact Fs.
    + intros e [=].
    + exact Fhe.
Qed.

Lemma pres_i_write s e k : Inv s -> ip s = IWriting e k -> k < e ->
  Inv (set_ip (issue s (WHome (fst (pos (flog s) k)) (snd (pos (flog s) k)))) (IWriting e (S k))).
Proof.
  intros (V & G & F) Hip Hk. pose proof V as V0. destruct V as [Vo Vl Vi Va Vb Vp Ve Vn].
  rewrite Hip in Vi.
  split; [|split].
  - constructor; unfold written, lend in *; simpl.
    + exact Vo.
    + exact Vl.
    + lia.
    + exact Va.
    + exact Vb.
    + exact Vp.
    + exact Ve.
    + exact Vn.
  - intros c' Hc'. simpl in Hc'. apply crash_img_snoc in Hc' as [Hc|(c & Hc & ->)].
    + specialize (G c' Hc). destruct G as [Ge Gs Gl Gd Gh Gdh].
      constructor; unfold dwritten, iend in *; simpl; rewrite ?Hip in *.
      * exact Ge.
      * destruct Gs as [?|E]; [now left|discriminate].
      * exact Gl.
      * exact Gd.
      * exact Gh.
      * intros e' [=].
    + specialize (G c Hc). destruct G as [Ge Gs Gl Gd Gh Gdh].
      assert (Hs: hstart c = mstart s) by (destruct Gs as [?|E]; [assumption|rewrite Hip in E; discriminate]).
      constructor; unfold dwritten, iend in *; simpl; rewrite ?Hip in *.
      * exact Ge.
      * now left.
      * exact Gl.
      * exact Gd.
      * intros a. unfold mupd. destruct (Nat.eqb_spec a (fst (pos (flog s) k))) as [->|Na].
        -- right. rewrite Hs. apply in_seg_pos; lia.
        -- apply Gh.
      * intros e' [=].
  - destruct F as [Fh Fs Fhs Fhe]. unfold full in *.
    constructor; unfold full; simpl; rewrite apply_wrs_snoc; simpl.
    + intros e' k' [= <- <-] a. unfold mupd.
      assert (Hkl: k < length (flog s)) by lia.
      rewrite (firstn_S_pos _ _ Hkl). rewrite replay_snoc. unfold mupd.
      destruct (Nat.eqb_spec a (fst (pos (flog s) k))) as [->|Na]; [now left|].
      destruct (Fh e k Hip a) as [?|H]; [now left|right].
      rewrite (seg_cons (flog s) k (diskEnd s)) in H by lia. simpl in H. destruct H as [H|H]; [congruence|exact H].
    + exact Fs.
    + intros e' [=].
    + exact Fhe.
Qed.

Lemma pres_i_bar1 s e : Inv s -> ip s = IWriting e e -> Inv (set_ip (barrier s) (IBar1 e)).
Proof.
  intros (V & G & F) Hip. pose proof V as V0. destruct V as [Vo Vl Vi Va Vb Vp Ve Vn].
  rewrite Hip in Vi. pose proof (G _ (full_is_crash s)) as GF.
  split; [|split].
  - constructor; unfold written, lend in *; simpl.
    + exact Vo.
    + exact Vl.
    + lia.
    + exact Va.
    + exact Vb.
    + exact Vp.
    + exact Ve.
    + exact Vn.
  - intros c Hc. simpl in Hc. apply crash_nil in Hc. subst c. fold (full s).
    destruct GF as [Ge Gs Gl Gd Gh Gdh]. destruct F as [Fh Fs Fhs Fhe].
    constructor; unfold dwritten, iend in *; simpl.
    + exact Ge.
    + destruct Gs as [?|E]; [now left|rewrite Hip in E; discriminate].
    + exact Gl.
    + exact Gd.
    + exact Gh.
    + intros e' [= <-] a. apply (Fh e e Hip).
  - destruct F as [Fh Fs Fhs Fhe]. unfold full in *. constructor; unfold full; simpl.
    + intros e' k' [=].
    + exact Fs.
    + intros e' [=].
    + exact Fhe.
Qed.

Lemma pres_i_hdr s e : Inv s -> ip s = IBar1 e -> Inv (set_ip (issue s (WH2 e)) (IHdr e)).
Proof.
  intros (V & G & F) Hip. pose proof V as V0. destruct V as [Vo Vl Vi Va Vb Vp Ve Vn].
  rewrite Hip in Vi.
  split; [|split].
  - constructor; unfold written, lend in *; simpl.
    + exact Vo.
    + exact Vl.
    + lia.
    + exact Va.
    + exact Vb.
    + exact Vp.
    + exact Ve.
    + exact Vn.
  - intros c' Hc'. simpl in Hc'. apply crash_img_snoc in Hc' as [Hc|(c & Hc & ->)].
    + specialize (G c' Hc). destruct G as [Ge Gs Gl Gd Gh Gdh].
      constructor; unfold dwritten, iend in *; simpl; rewrite ?Hip in *.
      * exact Ge.
      * destruct Gs as [?|E]; [now left|discriminate].
      * exact Gl.
      * exact Gd.
      * exact Gh.
      * exact Gdh.
    + specialize (G c Hc). destruct G as [Ge Gs Gl Gd Gh Gdh].
      assert (Hs: hstart c = mstart s) by (destruct Gs as [?|E]; [assumption|rewrite Hip in E; discriminate]).
      constructor; unfold dwritten, iend in *; simpl; rewrite ?Hip in *.
      * exact Ge.
      * now right.
      * intros p Hp1 Hp2. apply Gl; lia.
      * exact Gd.
      * intros a. apply (Gdh e eq_refl).
      * exact Gdh.
  - destruct F as [Fh Fs Fhs Fhe]. unfold full in *.
    constructor; unfold full; simpl; rewrite apply_wrs_snoc; simpl.
    + intros e' k' [=].
    + exact Fs.
    + intros e' [= <-]. reflexivity.
    + exact Fhe.
Qed.

Lemma pres_i_bar2 s e : Inv s -> ip s = IHdr e ->
  Inv {| dur := apply_wrs (dur s) (pend s); pend := []; flog := flog s; mstart := e; diskEnd := diskEnd s;
         mutabl := mutabl s; amem := amem s; lp := lp s; ip := IIdle; txns := txns s; bnd := bnd s |}.
Proof.
  intros (V & G & F) Hip. pose proof V as V0. destruct V as [Vo Vl Vi Va Vb Vp Ve Vn].
  rewrite Hip in Vi. pose proof (G _ (full_is_crash s)) as GF.
  split; [|split].
  - constructor; unfold written, lend in *; simpl.
    + lia.
    + lia.
    + exact I.
    + intros p Hp1 Hp2. apply Va; lia.
    + exact Vb.
    + exact Vp.
    + exact Ve.
    + exact Vn.
  - intros c Hc. simpl in Hc. apply crash_nil in Hc. subst c. fold (full s).
    destruct GF as [Ge Gs Gl Gd Gh Gdh]. destruct F as [Fh Fs Fhs Fhe].
    constructor; unfold dwritten, iend in *; simpl.
    + exact Ge.
    + left. apply (Fhs e Hip).
    + exact Gl.
    + exact Gd.
    + exact Gh.
    + intros e' [=].
  - destruct F as [Fh Fs Fhs Fhe]. unfold full in *. constructor; unfold full; simpl.
    + intros e' k' [=].
    + exact Fs.
    + intros e' [=].
    + exact Fhe.
Qed.

Lemma pres_mark s : Inv s ->
  Inv {| dur := dur s; pend := pend s; flog := flog s; mstart := mstart s; diskEnd := diskEnd s;
         mutabl := length (flog s); amem := amem s; lp := lp s; ip := ip s; txns := txns s;
         bnd := bnd s ++ [(length (flog s), length (txns s))] |}.
Proof.
  intros (V & G & F). pose proof V as V0. destruct V as [Vo Vl Vi Va Vb Vp Ve Vn].
  split; [|split].
  - constructor; unfold written, lend in *; simpl.
    + lia.
    + lia.
    + exact Vi.
    + exact Va.
    + intros p k Hin. apply in_app_or in Hin as [Hin|[[= <- <-]|[]]].
      * destruct (Vb p k Hin) as (A & B & C). split; [lia|]. split; [exact B|exact C].
      * split; [lia|]. split; [lia|]. rewrite !firstn_all. exact Ve.
    + destruct Vp as ((k1 & A) & (k2 & B) & (k3 & C)). split; [|split].
      * exists k1. apply in_or_app. now left.
      * exists (length (txns s)). apply in_or_app. right. now left.
      * exists k3. apply in_or_app. now left.
    + exact Ve.
    + rewrite skipn_all. constructor.
  - intros c Hc. specialize (G c Hc). destruct G as [Ge Gs Gl Gd Gh Gdh].
    constructor; unfold dwritten, iend in *; simpl; assumption.
  - destruct F as [Fh Fs Fhs Fhe]. unfold full in *. constructor; unfold full; simpl; assumption.
Qed.

Lemma pres_append s t : Inv s ->
  Inv {| dur := dur s; pend := pend s;
         flog := firstn (mutabl s) (flog s) ++ memwrite (skipn (mutabl s) (flog s)) t;
         mstart := mstart s; diskEnd := diskEnd s; mutabl := mutabl s; amem := amem s; lp := lp s; ip := ip s;
         txns := txns s ++ [t]; bnd := bnd s |}.
Proof.
  intros (V & G & F). pose proof V as V0. destruct V as [Vo Vl Vi Va Vb Vp Ve Vn].
  destruct (memwrite_spec t _ Vn) as (MN & ML & MR).
  set (M' := memwrite (skipn (mutabl s) (flog s)) t) in *.
  assert (Hmut: mutabl s <= length (flog s)) by lia.
  assert (FS: forall p, p <= mutabl s -> firstn p (firstn (mutabl s) (flog s) ++ M') = firstn p (flog s))
    by (intros; now apply firstn_stable).
  assert (PS: forall p, p < mutabl s -> pos (firstn (mutabl s) (flog s) ++ M') p = pos (flog s) p)
    by (intros; now apply pos_stable).
  assert (SS: forall a b, b <= mutabl s -> seg (firstn (mutabl s) (flog s) ++ M') a b = seg (flog s) a b)
    by (intros; now apply seg_stable).
  split; [|split].
  - constructor; unfold written, lend in *; simpl.
    + rewrite app_length, firstn_length. rewrite skipn_length in ML. lia.
    + exact Vl.
    + exact Vi.
    + intros p Hp1 Hp2. rewrite PS by lia. apply Va; lia.
    + intros p k Hin. destruct (Vb p k Hin) as (A & B & C). split; [exact A|]. split; [rewrite app_length; lia|].
      rewrite FS by exact A. rewrite firstn_app. replace (k - length (txns s)) with 0 by lia.
      simpl. rewrite app_nil_r. exact C.
    + exact Vp.
    + (* the whole log still equals all transactions *)
      rewrite replay_app. rewrite apply_txns_app. simpl.
      eapply meq_trans; [apply MR|]. rewrite replay_app.
      rewrite <- (replay_app (firstn (mutabl s) (flog s)) (skipn (mutabl s) (flog s)) base0). rewrite firstn_skipn.
      apply replay_ext. exact Ve.
    + rewrite skipn_app. rewrite firstn_length. replace (mutabl s - Nat.min (mutabl s) (length (flog s))) with 0 by lia.
      rewrite skipn_all2 by (rewrite firstn_length; lia). simpl. exact MN.
  - intros c Hc. pose proof (good_bounds s c V0 (G c Hc)) as B.
    specialize (G c Hc). destruct G as [Ge Gs Gl Gd Gh Gdh].
    constructor; unfold dwritten, iend in *; simpl.
    + exact Ge.
    + exact Gs.
    + intros p Hp1 Hp2. rewrite PS by lia. apply Gl; assumption.
    + intros p Hp1 Hp2. rewrite PS; [apply Gd; assumption|]. unfold lend in *. destruct (lp s); lia.
    + intros a. rewrite FS by lia. rewrite SS by lia. apply Gh.
    + intros e He a. assert (e <= diskEnd s) by (destruct (ip s); try discriminate; injection He as <-; lia).
      rewrite FS by lia. rewrite SS by lia. apply (Gdh e He).
  - destruct F as [Fh Fs Fhs Fhe]. unfold full in *. constructor; unfold full; simpl.
    + intros e k Hip a. rewrite Hip in Vi. rewrite FS by lia. rewrite SS by lia. apply (Fh e k Hip).
    + intros e k Hlp p Hp1 Hp2. unfold written, lend in Vl. rewrite Hlp in Vl. rewrite PS by lia. apply (Fs e k Hlp); assumption.
    + exact Fhs.
    + exact Fhe.
Qed.

Theorem inv_step s s' : Inv s -> step s s' -> Inv s'.
Proof.
  intros HI Hs. destruct Hs.
  - now apply pres_append.
  - now apply pres_mark.
  - now apply pres_l_begin.
  - now apply pres_l_write.
  - now apply pres_l_bar1.
  - now apply pres_l_hdr.
  - now apply pres_l_bar2.
  - now apply pres_i_begin.
  - now apply pres_i_write.
  - now apply pres_i_bar1.
  - now apply pres_i_hdr.
  - now apply pres_i_bar2.
Qed.

Inductive reach : st -> Prop :=
| r_init : reach init
| r_step s s' : reach s -> step s s' -> reach s'.

Lemma reach_inv s : reach s -> Inv s.
Proof. induction 1; [apply inv_init|eapply inv_step; eauto]. Qed.

(* ---------- the crash theorem ---------- *)
Lemma recovered_log_is_seg s c : vinv s -> good s c ->
  recovered_log c = seg (flog s) (hstart c) (hend c).
Proof.
  intros V G. pose proof (good_bounds s c V G) as B. destruct V as [Vo _ _ _ _ _ _ _]. destruct G as [_ _ Gl _ _ _].
  rewrite seg_map by lia. unfold recovered_log. apply map_ext_in. intros p Hp. apply in_seq in Hp.
  destruct (Gl p) as [A1 A2]; [lia|lia|]. rewrite A1, A2. symmetry. apply surjective_pairing.
Qed.

(* Whatever the crash point and whichever un-barriered writes are lost, recovery
   yields the initial home contents with a prefix of the appended transactions applied;
   that prefix contains everything the logger has acknowledged (diskEnd). *)
Theorem crash_prefix_inv s c :
  Inv s -> crash_img (dur s) (pend s) c ->
  exists k, In (hend c, k) (bnd s) /\ k <= length (txns s) /\ diskEnd s <= hend c /\
            meq (recover c) (apply_txns (firstn k (txns s)) base0).
Proof.
  intros HI Hc. destruct HI as (V & G & _). specialize (G c Hc).
  pose proof (good_bounds s c V G) as B. pose proof (recovered_log_is_seg s c V G) as RL.
  pose proof V as V0. destruct V as [Vo Vl Vi Va Vb Vp Ve Vn]. pose proof G as G0. destruct G as [Ge Gs Gl Gd Gh Gdh].
  assert (Hb: exists k, In (hend c, k) (bnd s)).
  { destruct Vp as (A & _ & C). destruct Ge as [->|E]; [exact A|]. unfold lend in C. rewrite E in C. exact C. }
  destruct Hb as (k & Hk). exists k. destruct (Vb _ _ Hk) as (B1 & B2 & B3).
  split; [exact Hk|]. split; [exact B2|]. split; [lia|].
  unfold recover. rewrite RL.
  eapply meq_trans; [|exact B3].
  rewrite (firstn_seg (flog s) (hstart c) (hend c)) by lia. rewrite replay_app.
  apply replay_cover. intros x Hx.
  destruct (Gh x) as [E|Hin]; [exact E|]. exfalso. apply Hx.
  apply (seg_mono_in _ _ (diskEnd s)); [lia|exact Hin].
Qed.

Theorem wal_crash_prefix s c :
  reach s -> crash_img (dur s) (pend s) c ->
  exists k, In (hend c, k) (bnd s) /\ k <= length (txns s) /\ diskEnd s <= hend c /\
            meq (recover c) (apply_txns (firstn k (txns s)) base0).
Proof. intros Hr. apply crash_prefix_inv. now apply reach_inv. Qed.

(* ---------- durability of an acknowledged transaction ---------- *)
Inductive steps : st -> st -> Prop :=
| ss_refl s : steps s s
| ss_step s s' s'' : steps s s' -> step s' s'' -> steps s s''.

Lemma inv_steps s s' : Inv s -> steps s s' -> Inv s'.
Proof. intros HI H. induction H as [|a b c0 _ IH Hs]; [exact HI|]. eapply inv_step; [apply IH; exact HI|exact Hs]. Qed.

Definition append_st (s:st) (t:txn) : st :=
  {| dur := dur s; pend := pend s;
     flog := firstn (mutabl s) (flog s) ++ memwrite (skipn (mutabl s) (flog s)) t;
     mstart := mstart s; diskEnd := diskEnd s; mutabl := mutabl s; amem := amem s; lp := lp s; ip := ip s;
     txns := txns s ++ [t]; bnd := bnd s |}.

Lemma memwrite1_nonempty m u : 1 <= length (memwrite1 m u).
Proof.
  unfold memwrite1. destruct u as [a v]. simpl. destruct (absorb m a v) as [m'|] eqn:E.
  - destruct (absorb_some _ _ _ _ E) as (_ & B & _). rewrite B. destruct m; [discriminate|simpl; lia].
  - rewrite app_length. simpl. lia.
Qed.

Lemma memwrite_len_mono t : forall m, length m <= length (memwrite m t).
Proof.
  induction t as [|u t IH]; intros m; simpl; [lia|]. etransitivity; [|apply IH].
  unfold memwrite1. destruct u as [a v]. simpl. destruct (absorb m a v) as [m'|] eqn:E.
  - destruct (absorb_some _ _ _ _ E) as (_ & B & _). lia.
  - rewrite app_length. simpl. lia.
Qed.

Lemma memwrite_nonempty m t : t <> [] -> 1 <= length (memwrite m t).
Proof.
  destruct t as [|u t]; [congruence|]. intros _. simpl. etransitivity; [apply (memwrite1_nonempty m u)|apply memwrite_len_mono].
Qed.

(* boundaries recorded after the transaction's end position count at least n transactions *)
Definition covers (e n:nat) (s:st) : Prop :=
  n <= length (txns s) /\ forall p k, In (p,k) (bnd s) -> e <= p -> n <= k.

Lemma covers_step e n s s' : covers e n s -> step s s' -> covers e n s'.
Proof.
  intros [C1 C2] Hs. destruct Hs; unfold covers; simpl; try (split; assumption).
  - split; [rewrite app_length; lia|exact C2].
  - split; [exact C1|]. intros p k Hin Hp. apply in_app_or in Hin as [Hin|[[= <- <-]|[]]]; [now apply (C2 p k)|exact C1].
Qed.

Lemma covers_steps e n s s' : covers e n s -> steps s s' -> covers e n s'.
Proof. intros C H. induction H as [|a b c0 _ IH Hs]; [exact C|]. eapply covers_step; [apply IH; exact C|exact Hs]. Qed.

(* Once the logger's diskEnd has passed the end position of a (non-empty) transaction,
   every crash image recovers a prefix that contains it. *)
Theorem wal_durable s0 t s c :
  Inv s0 -> t <> [] -> steps (append_st s0 t) s ->
  length (flog (append_st s0 t)) <= diskEnd s ->
  crash_img (dur s) (pend s) c ->
  exists k, length (txns s0) + 1 <= k /\ k <= length (txns s) /\
            meq (recover c) (apply_txns (firstn k (txns s)) base0).
Proof.
  intros HI Ht Hst Hflushed Hc.
  assert (HI1: Inv (append_st s0 t)) by (apply (inv_step s0); [exact HI|apply s_append]).
  pose proof (inv_steps _ _ HI1 Hst) as HIs.
  assert (C1: covers (length (flog (append_st s0 t))) (length (txns s0) + 1) (append_st s0 t)).
  { split; [simpl; rewrite app_length; simpl; lia|]. intros p k Hin Hp. exfalso.
    destruct HI as (V & _ & _). destruct V as [Vo _ _ _ Vb _ _ _]. simpl in Hin.
    destruct (Vb p k Hin) as (A & _ & _). simpl in Hp. rewrite app_length, firstn_length in Hp.
    pose proof (memwrite_nonempty (skipn (mutabl s0) (flog s0)) t Ht). lia. }
  pose proof (covers_steps _ _ _ _ C1 Hst) as [_ C2].
  destruct (crash_prefix_inv s c HIs Hc) as (k & Hk & Hk2 & Hde & Hm).
  exists k. split; [|split; [exact Hk2|exact Hm]]. apply (C2 _ _ Hk). lia.
Qed.

(* ---------- restart: the state the WAL rebuilds from a crashed disk ---------- *)
Definition recovered_st (s:st) (c:dsk) (k:nat) : st :=
  {| dur := c; pend := [];
     flog := firstn (hend c) (flog s);
     mstart := hstart c; diskEnd := hend c; mutabl := hend c;
     amem := haddr c; lp := LIdle; ip := IIdle;
     txns := firstn k (txns s); bnd := [(hend c, k)] |}.

Lemma pos_firstn fl n p : p < n -> pos (firstn n fl) p = pos fl p.
Proof.
  intros H. unfold pos. destruct (le_lt_dec (length fl) p) as [Hge|Hlt].
  - rewrite !nth_overflow; [reflexivity|lia|rewrite firstn_length; lia].
  - rewrite <- (firstn_skipn n fl) at 2. rewrite app_nth1; [reflexivity|rewrite firstn_length; lia].
Qed.

Lemma seg_firstn fl n a b : b <= n -> seg (firstn n fl) a b = seg fl a b.
Proof.
  intros H. unfold seg. rewrite skipn_firstn_comm. rewrite firstn_firstn. f_equal. lia.
Qed.

Theorem recovered_inv s c k :
  Inv s -> crash_img (dur s) (pend s) c -> In (hend c, k) (bnd s) -> Inv (recovered_st s c k).
Proof.
  intros HI Hc Hk. destruct HI as (V & G & _). specialize (G c Hc).
  pose proof (good_bounds s c V G) as B.
  destruct V as [Vo Vl Vi Va Vb Vp Ve Vn]. destruct G as [Ge Gs Gl Gd Gh Gdh].
  destruct (Vb _ _ Hk) as (B1 & B2 & B3).
  assert (Hlen: length (firstn (hend c) (flog s)) = hend c) by (rewrite firstn_length; lia).
  split; [|split].
  - constructor; unfold written, lend; simpl.
    + rewrite Hlen. lia.
    + lia.
    + exact I.
    + intros p Hp1 Hp2. rewrite pos_firstn by lia. apply Gl; lia.
    + intros p k' [[= <- <-]|[]]. split; [lia|]. split; [rewrite firstn_length; lia|].
      rewrite firstn_firstn. replace (Nat.min (hend c) (hend c)) with (hend c) by lia.
      rewrite firstn_firstn. replace (Nat.min k k) with k by lia. exact B3.
    + split; [|split]; exists k; now left.
    + rewrite <- (firstn_all (firstn k (txns s))) at 1. rewrite firstn_length.
      replace (Nat.min k (length (txns s))) with k by lia.
      rewrite firstn_firstn. replace (Nat.min k k) with k by lia. exact B3.
    + rewrite skipn_all2 by lia. constructor.
  - intros c' Hc'. simpl in Hc'. apply crash_nil in Hc'. subst c'.
    constructor; unfold dwritten, iend; simpl.
    + now left.
    + now left.
    + intros p Hp1 Hp2. rewrite pos_firstn by lia. apply Gl; lia.
    + intros; lia.
    + intros a. rewrite firstn_firstn. replace (Nat.min (hstart c) (hend c)) with (hstart c) by lia.
      rewrite seg_firstn by lia. destruct (Gh a) as [E|Hin]; [now left|right].
      apply (seg_mono_in _ _ (diskEnd s)); [lia|exact Hin].
    + intros e [=].
  - constructor; simpl; intros; discriminate.
Qed.
End Wal.
Print Assumptions recovered_inv.
