(* Corollaries of the index-tree theorems (Proofs/Tree.v) in the form the properties use them. *)
From Coq Require Import List Arith Lia Bool Permutation.
From V Require Import Proofs.Tree.
Import ListNotations.

Section Cor.
Variable NB : nat.
Hypothesis NBpos : 0 < NB.

(* mapping a block (allocating on demand) never makes a block have two owners and loses none *)
Theorem indbmap_ownership lvl root off d fr :
  off < pw NB lvl -> NoDup (blocks NB d lvl root ++ fr) -> free_zero d fr -> ~ In 0 fr ->
  let '(blk, root', d', fr') := indbmap NB lvl root off d fr in
  NoDup (blocks NB d' lvl root' ++ fr') /\
  Permutation (blocks NB d' lvl root' ++ fr') (blocks NB d lvl root ++ fr) /\
  free_zero d' fr' /\
  (forall off', off' < pw NB lvl -> off' <> off -> leaf NB d' lvl root' off' = leaf NB d lvl root off').
Proof.
  intros Ho Hn Hz H0. pose proof (indbmap_spec NB NBpos lvl root off d fr Ho Hn Hz H0) as S.
  destruct (indbmap NB lvl root off d fr) as [[[blk root'] d'] fr'].
  destruct S as [_ Qo Qp Qz _ _ _]. split; [|auto].
  eapply Permutation_NoDup; [apply Permutation_sym; exact Qp|exact Hn].
Qed.

(* The code as repaired (fix 7466992): when the mapping fails because no block is left, every index block the
   call had just allocated is given back, nothing has been written, and the inode keeps its old root - the call
   is undone.  [indbmap_undo] is that function; its ownership statement is the one above with the failure case
   made explicit: a failed mapping changes neither the tree, nor the disk, nor the free list. *)
Definition indbmap_undo (lvl root off : nat) (d : disk) (fr : list nat) : nat * nat * disk * list nat :=
  let '(blk, root', d', fr') := indbmap NB lvl root off d fr in
  if Nat.eqb blk 0 then (0, root, d, fr) else (blk, root', d', fr').

Theorem indbmap_undo_ownership lvl root off d fr :
  off < pw NB lvl -> NoDup (blocks NB d lvl root ++ fr) -> free_zero d fr -> ~ In 0 fr ->
  let '(blk, root', d', fr') := indbmap_undo lvl root off d fr in
  NoDup (blocks NB d' lvl root' ++ fr') /\
  Permutation (blocks NB d' lvl root' ++ fr') (blocks NB d lvl root ++ fr) /\
  free_zero d' fr' /\
  (forall off', off' < pw NB lvl -> off' <> off -> leaf NB d' lvl root' off' = leaf NB d lvl root off') /\
  (blk = 0 -> root' = root /\ d' = d /\ fr' = fr).
Proof.
  intros Ho Hn Hz H0. unfold indbmap_undo.
  pose proof (indbmap_ownership lvl root off d fr Ho Hn Hz H0) as S.
  destruct (indbmap NB lvl root off d fr) as [[[blk root'] d'] fr'].
  destruct (Nat.eqb_spec blk 0) as [E|E].
  - split; [exact Hn|]. split; [apply Permutation_refl|]. split; [exact Hz|]. split; [reflexivity|]. auto.
  - destruct S as (S1 & S2 & S3 & S4). repeat (split; [assumption|]). intros C. contradiction.
Qed.

(* freeing from the top: ownership stays a permutation, freed blocks are zero, lower offsets keep
   their blocks *)
Theorem shrink_ownership lvl root bn d fr :
  bn < pw NB lvl -> NoDup (blocks NB d lvl root ++ fr) -> free_zero d fr -> trimmed NB d lvl root bn ->
  let '(root', d', fr') := shrink_one NB lvl root bn d fr in
  NoDup (blocks NB d' lvl root' ++ fr') /\
  Permutation (blocks NB d' lvl root' ++ fr') (blocks NB d lvl root ++ fr) /\
  free_zero d' fr' /\
  (forall off', off' < pw NB lvl -> leaf NB d' lvl root' off' = if off' <? bn then leaf NB d lvl root off' else 0).
Proof.
  intros Hb Hn Hz Ht. pose proof (shrink_one_spec NB NBpos lvl root bn d fr Hb Hn Hz Ht) as S.
  destruct (shrink_one NB lvl root bn d fr) as [[root' d'] fr'].
  destruct S as [_ Pl Pp Pz _ _]. split; [|auto].
  eapply Permutation_NoDup; [apply Permutation_sym; exact Pp|exact Hn].
Qed.

(* freeing down to logical block 0 gives every block of the tree back *)
Theorem shrink_to_zero_returns_all lvl root d fr :
  NoDup (blocks NB d lvl root ++ fr) -> free_zero d fr -> trimmed NB d lvl root 0 ->
  let '(root', d', fr') := shrink_one NB lvl root 0 d fr in
  root' = 0 /\ Permutation fr' (blocks NB d lvl root ++ fr) /\ free_zero d' fr'.
Proof.
  intros Hn Hz Ht. pose proof (shrink_one_spec NB NBpos lvl root 0 d fr (pw_pos NB NBpos lvl) Hn Hz Ht) as S.
  destruct (shrink_one NB lvl root 0 d fr) as [[root' d'] fr'].
  destruct S as [Pr _ Pp Pz _ _]. simpl in Pr. subst root'. split; [reflexivity|]. split; [|exact Pz].
  assert (E : blocks NB d' lvl 0 = []) by (destruct lvl; reflexivity).
  rewrite E in Pp. exact Pp.
Qed.
End Cor.
