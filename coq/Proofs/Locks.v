From Coq Require Import List NArith Lia Bool Sorted Arith.
Import ListNotations.

Record thread := { held : list nat; todo : list nat }.
Definition st := list thread.
Definition all_held (s:st) : list nat := flat_map held s.

Inductive step : st -> st -> Prop :=
| s_acq pre t post l rest :
    todo t = l :: rest -> ~ In l (all_held (pre ++ t :: post)) ->
    step (pre ++ t :: post) (pre ++ {| held := l :: held t; todo := rest |} :: post)
| s_fin pre t post :
    todo t = [] -> held t <> [] ->
    step (pre ++ t :: post) (pre ++ {| held := []; todo := [] |} :: post).

Inductive reach : st -> st -> Prop :=
| r_refl s : reach s s
| r_step s s' s'' : reach s s' -> step s' s'' -> reach s s''.

Definition tinv (t:thread) : Prop :=
  StronglySorted lt (todo t) /\ forall h x, In h (held t) -> In x (todo t) -> h < x.
Definition excl (s:st) : Prop := NoDup (all_held s).
Definition init_ok (s:st) := Forall (fun t => held t = [] /\ StronglySorted lt (todo t)) s.

Lemma all_held_app a b : all_held (a ++ b) = all_held a ++ all_held b.
Proof. unfold all_held. apply flat_map_app. Qed.

Lemma nodup_drop_mid (a b c : list nat) : NoDup (a ++ b ++ c) -> NoDup (a ++ c).
Proof. induction b as [|x b IH]; simpl; [auto|]. intros H. apply IH. now apply NoDup_remove_1 in H. Qed.

Lemma inv_step s s' : Forall tinv s -> excl s -> step s s' -> Forall tinv s' /\ excl s'.
Proof.
  intros Hi He Hs. destruct Hs as [pre t post l rest Ht Hfree | pre t post Ht Hh].
  - apply Forall_app in Hi as [Hpre Hi]. inversion Hi as [|? ? Htinv Hpost]; subst.
    split.
    + apply Forall_app; split; [assumption|]. constructor; [|assumption].
      destruct Htinv as [Hs Hlt]. rewrite Ht in *. inversion Hs as [|? ? Hs' Hall]; subst.
      split; simpl; [assumption|]. intros h x [<-|Hh] Hx.
      * rewrite Forall_forall in Hall. now apply Hall.
      * apply Hlt; [assumption| now right].
    + unfold excl in *. rewrite all_held_app in *. simpl in *.
      apply NoDup_Add with (a:=l) (l:=all_held pre ++ held t ++ all_held post).
      * apply Add_app.
      * split; assumption.
  - apply Forall_app in Hi as [Hpre Hi]. inversion Hi as [|? ? Htinv Hpost]; subst.
    split.
    + apply Forall_app; split; [assumption|]. constructor; [|assumption].
      split; simpl; [constructor| intros ? ? []].
    + unfold excl in *. rewrite all_held_app in *. simpl in *.
      eapply nodup_drop_mid; eassumption.
Qed.

Lemma inv_init s : init_ok s -> Forall tinv s /\ excl s.
Proof.
  intros H. split.
  - eapply Forall_impl; [|exact H]. intros t [Hh Hs]. split; [assumption|]. rewrite Hh. intros ? ? [].
  - unfold excl, all_held. induction H as [|t s [Hh _] _ IH]; simpl; [constructor|]. now rewrite Hh.
Qed.

Lemma inv_reach s0 s : init_ok s0 -> reach s0 s -> Forall tinv s /\ excl s.
Proof.
  intros H0 Hr. induction Hr as [|s s' s'' _ IH Hs]; [now apply inv_init|].
  destruct (IH H0) as [A B]. eapply inv_step; eassumption.
Qed.

(* wanted lock of a thread with work *)
Definition done (t:thread) := held t = [] /\ todo t = [].
Definition enabled (s:st) := exists s', step s s'.

(* key: among threads that want a lock, pick one wanting the maximal lock *)
Fixpoint max_want (s:st) : option nat :=
  match s with [] => None
  | t :: r => match todo t, max_want r with
              | l :: _, Some m => Some (Nat.max l m) | l :: _, None => Some l | [], o => o end end.

Lemma max_want_in s m : max_want s = Some m -> exists pre t post rest, s = pre ++ t :: post /\ todo t = m :: rest.
Proof.
  revert m. induction s as [|t r IH]; simpl; [discriminate|]. intros m.
  destruct (todo t) as [|l rest] eqn:Et.
  - intros H. destruct (IH _ H) as (pre & t' & post & rest' & -> & E). exists (t :: pre), t', post, rest'. split; [reflexivity|assumption].
  - destruct (max_want r) as [m'|] eqn:Em.
    + intros [= <-]. destruct (Nat.max_spec l m') as [[Hlt ->]|[Hle ->]].
      * destruct (IH _ eq_refl) as (pre & t' & post & rest' & -> & E). exists (t :: pre), t', post, rest'. split; [reflexivity|assumption].
      * exists [], t, r, rest. split; [reflexivity|assumption].
    + intros [= <-]. exists [], t, r, rest. split; [reflexivity|assumption].
Qed.

Lemma max_want_ge s m : max_want s = Some m -> forall t l rest, In t s -> todo t = l :: rest -> l <= m.
Proof.
  revert m. induction s as [|t r IH]; simpl; [intros ? ? ? ? ? []|]. intros m H t' l rest [<-|Hin] Et.
  - rewrite Et in H. destruct (max_want r); injection H as <-; lia.
  - destruct (todo t) as [|l0 r0]; [eapply IH; eassumption|].
    destruct (max_want r) as [m'|] eqn:Em.
    + injection H as <-. specialize (IH _ eq_refl _ _ _ Hin Et). lia.
    + exfalso. clear -Em Hin Et. induction r as [|x r IHr]; [destruct Hin|]. simpl in Em. destruct Hin as [<-|Hin].
      * rewrite Et in Em. destruct (max_want r); discriminate.
      * destruct (todo x); [auto|]. destruct (max_want r); discriminate.
Qed.

Lemma max_want_none s : max_want s = None -> Forall (fun t => todo t = []) s.
Proof.
  induction s as [|t r IH]; simpl; [constructor|]. destruct (todo t) eqn:E.
  - intros H. constructor; auto.
  - destruct (max_want r); discriminate.
Qed.

Lemma in_all_held l s : In l (all_held s) -> exists t, In t s /\ In l (held t).
Proof. unfold all_held. rewrite in_flat_map. auto. Qed.

Theorem ordered_no_deadlock s0 s :
  init_ok s0 -> reach s0 s -> Forall done s \/ enabled s.
Proof.
  intros H0 Hr. destruct (inv_reach _ _ H0 Hr) as [Hinv Hex].
  destruct (max_want s) as [m|] eqn:Em.
  - (* somebody wants a lock; the one wanting the max lock m *)
    right. destruct (max_want_in _ _ Em) as (pre & t & post & rest & -> & Et).
    destruct (in_dec Nat.eq_dec m (all_held (pre ++ t :: post))) as [Hheld|Hfree].
    + (* m is held by some thread h; h has work to do? *)
      destruct (in_all_held _ _ Hheld) as (h & Hin & Hmh).
      destruct (todo h) as [|l' rest'] eqn:Eh.
      * (* h finished acquiring: it can release *)
        apply in_split in Hin as (p1 & p2 & E). rewrite E. eexists. apply s_fin; [assumption|].
        intros C. rewrite C in Hmh. destruct Hmh.
      * (* h wants l' > m, contradicting maximality *)
        exfalso. rewrite Forall_forall in Hinv. destruct (Hinv _ Hin) as [_ Hlt].
        assert (m < l') by (apply Hlt; [assumption| rewrite Eh; now left]).
        pose proof (max_want_ge _ _ Em _ _ _ Hin Eh). lia.
    + eexists. eapply s_acq; eassumption.
  - (* nobody wants anything *)
    pose proof (max_want_none _ Em) as Hn.
    destruct (Forall_Exists_dec (fun t => held t = []) (fun t => list_eq_dec Nat.eq_dec (held t) []) s) as [Hall|Hex'].
    + left. rewrite Forall_forall in *. intros t Ht. split; auto.
    + right. apply Exists_exists in Hex' as (t & Hin & Hne).
      apply in_split in Hin as (p1 & p2 & ->). eexists. apply s_fin; [|assumption].
      rewrite Forall_forall in Hn. apply Hn. apply in_or_app. right. now left.
Qed.
Print Assumptions ordered_no_deadlock.
