(* Proofs about AT (Model/AllocModel.v): in every interleaving of transactions that allocate, free, commit and abort,
   the in-memory allocator marks exactly the numbers marked on disk plus the numbers running transactions hold;
   so whenever no transaction runs the two agree (what the harness compares after every RPC: R-alloc), a commit
   makes exactly its allocations and frees durable — a number allocated and given back in one transaction ends up
   free in both — and an abort leaves the disk alone and returns the allocator to where it was. *)
From stdpp Require Import gmap.
From Coq Require Import NArith List.
From V Require Import Model.AllocModel.
Import ListNotations.

Lemma set_bits_spec l : forall d n, n ∈ set_bits d l <-> n ∈ d \/ n ∈ l.
Proof.
  induction l as [|x l IH]; intros d n; simpl.
  - rewrite elem_of_nil. tauto.
  - unfold set_bits in *. simpl. rewrite IH. rewrite elem_of_cons. set_solver.
Qed.
Lemma clear_bits_spec l : forall d n, n ∈ clear_bits d l <-> n ∈ d /\ n ∉ l.
Proof.
  induction l as [|x l IH]; intros d n; simpl.
  - rewrite elem_of_nil. tauto.
  - unfold clear_bits in *. simpl. rewrite IH. rewrite not_elem_of_cons. set_solver.
Qed.
Lemma release_spec l : forall d n, n ∈ release d l <-> n ∈ d /\ n ∉ l.
Proof. exact (clear_bits_spec l). Qed.
Lemma pre_commit_spec d tx n : n ∈ pre_commit d tx <-> (n ∈ d \/ n ∈ t_al tx) /\ n ∉ t_fr tx.
Proof. unfold pre_commit. rewrite clear_bits_spec, set_bits_spec. tauto. Qed.

Record ainv (s : astate) : Prop := {
  i_mem : forall n, n ∈ a_mem s <-> n ∈ a_disk s \/ exists t tx, a_txns s !! t = Some tx /\ n ∈ t_al tx;
  i_al_disk : forall t tx n, a_txns s !! t = Some tx -> n ∈ t_al tx -> n ∉ a_disk s;
  i_al_al : forall t1 t2 tx1 tx2 n, a_txns s !! t1 = Some tx1 -> a_txns s !! t2 = Some tx2 ->
            n ∈ t_al tx1 -> n ∈ t_al tx2 -> t1 = t2;
  i_fr_used : forall t tx n, a_txns s !! t = Some tx -> n ∈ t_fr tx -> n ∈ a_disk s \/ n ∈ t_al tx;
  i_fr_fr : forall t1 t2 tx1 tx2 n, a_txns s !! t1 = Some tx1 -> a_txns s !! t2 = Some tx2 ->
            n ∈ t_fr tx1 -> n ∈ t_fr tx2 -> t1 = t2 }.

Lemma ainv_init d : ainv (a_init d).
Proof.
  split; simpl.
  - intros n. split; [auto|]. intros [H|(t & tx & H & _)]; [exact H|]. rewrite lookup_empty in H. discriminate.
  - intros t tx n H. rewrite lookup_empty in H. discriminate.
  - intros t1 t2 tx1 tx2 n H. rewrite lookup_empty in H. discriminate.
  - intros t tx n H. rewrite lookup_empty in H. discriminate.
  - intros t1 t2 tx1 tx2 n H. rewrite lookup_empty in H. discriminate.
Qed.

(* looking a transaction up after one was (re)defined *)
Ltac ins H t' t :=
  destruct (decide (t' = t)) as [->|?];
  [rewrite lookup_insert in H; injection H as <-; simpl in *
  |rewrite lookup_insert_ne in H by congruence].
Ltac del H t' t :=
  destruct (decide (t' = t)) as [->|?];
  [rewrite lookup_delete in H; discriminate
  |rewrite lookup_delete_ne in H by congruence].

Theorem ainv_step s o s' : ainv s -> astep s o = Some s' -> ainv s'.
Proof.
  intros [Im Id Ia Fu Ff] E. destruct o as [t|t n|t n|t|t]; simpl in E.
  - (* begin *)
    destruct (a_txns s !! t) eqn:Et; [discriminate|]. injection E as <-. split; simpl.
    + intros n. rewrite Im. split; (intros [H|(t' & tx & H & Hn)]; [left; exact H|right]).
      * exists t', tx. split; [|exact Hn]. rewrite lookup_insert_ne; [exact H|]. intros <-. congruence.
      * ins H t' t; [apply elem_of_nil in Hn; contradiction|]. exists t', tx. auto.
    + intros t' tx n H Hn. ins H t' t; [apply elem_of_nil in Hn; contradiction|]. eapply Id; eauto.
    + intros t1 t2 tx1 tx2 n H1 H2 N1 N2. ins H1 t1 t; [apply elem_of_nil in N1; contradiction|].
      ins H2 t2 t; [apply elem_of_nil in N2; contradiction|]. eapply Ia; eauto.
    + intros t' tx n H Hn. ins H t' t; [apply elem_of_nil in Hn; contradiction|]. eapply Fu; eauto.
    + intros t1 t2 tx1 tx2 n H1 H2 N1 N2. ins H1 t1 t; [apply elem_of_nil in N1; contradiction|].
      ins H2 t2 t; [apply elem_of_nil in N2; contradiction|]. eapply Ff; eauto.
  - (* alloc *)
    destruct (a_txns s !! t) as [tx|] eqn:Et; [|discriminate].
    destruct (bool_decide (n ∉ a_mem s) && negb (n =? 0)%N) eqn:G; [|discriminate]. injection E as <-.
    apply andb_true_iff in G as [G _]. apply bool_decide_eq_true in G.
    assert (Gd : n ∉ a_disk s) by (intros X; apply G, Im; left; exact X).
    assert (Ga : forall t' tx', a_txns s !! t' = Some tx' -> n ∉ t_al tx').
    { intros t' tx' H X. apply G, Im. right. eauto. }
    split; simpl.
    + intros m. rewrite elem_of_union, elem_of_singleton, Im. split.
      * intros [[H|(t' & tx' & H & Hn)]| ->].
        -- left. exact H.
        -- right. destruct (decide (t' = t)) as [->|Hne].
           ++ exists t, {| t_al := t_al tx ++ [n]; t_fr := t_fr tx |}. rewrite lookup_insert. split; [reflexivity|]. simpl.
              rewrite Et in H. injection H as <-. apply elem_of_app. left. exact Hn.
           ++ exists t', tx'. rewrite lookup_insert_ne by congruence. auto.
        -- right. exists t, {| t_al := t_al tx ++ [n]; t_fr := t_fr tx |}. rewrite lookup_insert. split; [reflexivity|]. simpl.
           apply elem_of_app. right. apply elem_of_list_singleton. reflexivity.
      * intros [H|(t' & tx' & H & Hn)]; [left; left; exact H|].
        ins H t' t.
        -- apply elem_of_app in Hn as [Hn|Hn]; [left; right; eauto|]. apply elem_of_list_singleton in Hn. right. exact Hn.
        -- left. right. eauto.
    + intros t' tx' m H Hn. ins H t' t; [|eapply Id; eauto].
      apply elem_of_app in Hn as [Hn|Hn]; [eapply Id; eauto|]. apply elem_of_list_singleton in Hn. subst. exact Gd.
    + intros t1 t2 tx1 tx2 m H1 H2 N1 N2. ins H1 t1 t; ins H2 t2 t; try reflexivity.
      * apply elem_of_app in N1 as [N1|N1]; [eapply Ia; eauto|]. apply elem_of_list_singleton in N1. subst. exfalso. eapply Ga; eauto.
      * apply elem_of_app in N2 as [N2|N2]; [eapply Ia; eauto|]. apply elem_of_list_singleton in N2. subst. exfalso. eapply Ga; eauto.
      * eapply Ia; eauto.
    + intros t' tx' m H Hn. ins H t' t; [|eapply Fu; eauto].
      destruct (Fu _ _ _ Et Hn) as [X|X]; [left; exact X|right; apply elem_of_app; left; exact X].
    + intros t1 t2 tx1 tx2 m H1 H2 N1 N2. ins H1 t1 t; ins H2 t2 t; try reflexivity; eapply Ff; eauto.
  - (* free *)
    destruct (a_txns s !! t) as [tx|] eqn:Et; [|discriminate].
    destruct (bool_decide (n ∈ a_disk s \/ n ∈ t_al tx) && bool_decide (nobody_freed (a_txns s) n)) eqn:G; [|discriminate].
    injection E as <-. apply andb_true_iff in G as [G1 G2]. apply bool_decide_eq_true in G1, G2.
    assert (Gf : forall t' tx', a_txns s !! t' = Some tx' -> n ∉ t_fr tx') by (intros t' tx' H; exact (G2 _ _ H)).
    split; simpl.
    + intros m. rewrite Im. split; (intros [H|(t' & tx' & H & Hn)]; [left; exact H|right]).
      * destruct (decide (t' = t)) as [->|Hne].
        -- exists t, {| t_al := t_al tx; t_fr := t_fr tx ++ [n] |}. rewrite lookup_insert. split; [reflexivity|]. simpl. congruence.
        -- exists t', tx'. rewrite lookup_insert_ne by congruence. auto.
      * ins H t' t; eauto.
    + intros t' tx' m H Hn. ins H t' t; eapply Id; eauto.
    + intros t1 t2 tx1 tx2 m H1 H2 N1 N2. ins H1 t1 t; ins H2 t2 t; try reflexivity; eapply Ia; eauto.
    + intros t' tx' m H Hn. ins H t' t; [|eapply Fu; eauto].
      apply elem_of_app in Hn as [Hn|Hn]; [eapply Fu; eauto|]. apply elem_of_list_singleton in Hn. subst. exact G1.
    + intros t1 t2 tx1 tx2 m H1 H2 N1 N2. ins H1 t1 t; ins H2 t2 t; try reflexivity.
      * apply elem_of_app in N1 as [N1|N1]; [eapply Ff; eauto|]. apply elem_of_list_singleton in N1. subst. exfalso. eapply Gf; eauto.
      * apply elem_of_app in N2 as [N2|N2]; [eapply Ff; eauto|]. apply elem_of_list_singleton in N2. subst. exfalso. eapply Gf; eauto.
      * eapply Ff; eauto.
  - (* commit *)
    destruct (a_txns s !! t) as [tx|] eqn:Et; [|discriminate]. injection E as <-. split; simpl.
    + intros m. rewrite release_spec, pre_commit_spec, Im. split.
      * intros [[H|(t' & tx' & H & Hn)] Hf].
        -- left. auto.
        -- destruct (decide (t' = t)) as [->|Hne].
           ++ rewrite Et in H. injection H as <-. left. auto.
           ++ right. exists t', tx'. rewrite lookup_delete_ne by congruence. auto.
      * intros [[[H|H] Hf]|(t' & tx' & H & Hn)].
        -- split; [left; exact H|exact Hf].
        -- split; [right; eauto|exact Hf].
        -- del H t' t. split; [right; eauto|]. intros Hf. destruct (Fu _ _ _ Et Hf) as [X|X].
           ++ eapply Id; eauto.
           ++ assert (t' = t) by (eapply Ia; eauto). congruence.
    + intros t' tx' m H Hn. del H t' t. rewrite pre_commit_spec. intros [[X|X] _].
      * eapply Id; eauto.
      * assert (t' = t) by (eapply Ia; eauto). congruence.
    + intros t1 t2 tx1 tx2 m H1 H2 N1 N2. del H1 t1 t. del H2 t2 t. eapply Ia; eauto.
    + intros t' tx' m H Hn. del H t' t. destruct (Fu _ _ _ H Hn) as [X|X]; [|right; exact X].
      left. apply pre_commit_spec. split; [left; exact X|]. intros Hf. assert (t' = t) by (eapply Ff; eauto). congruence.
    + intros t1 t2 tx1 tx2 m H1 H2 N1 N2. del H1 t1 t. del H2 t2 t. eapply Ff; eauto.
  - (* abort *)
    destruct (a_txns s !! t) as [tx|] eqn:Et; [|discriminate]. injection E as <-. split; simpl.
    + intros m. rewrite release_spec, Im. split.
      * intros [[H|(t' & tx' & H & Hn)] Hf]; [left; exact H|].
        destruct (decide (t' = t)) as [->|Hne]; [rewrite Et in H; injection H as <-; contradiction|].
        right. exists t', tx'. rewrite lookup_delete_ne by congruence. auto.
      * intros [H|(t' & tx' & H & Hn)].
        -- split; [left; exact H|]. intros X. eapply Id; eauto.
        -- del H t' t. split; [right; eauto|]. intros X. assert (t' = t) by (eapply Ia; eauto). congruence.
    + intros t' tx' m H Hn. del H t' t. eapply Id; eauto.
    + intros t1 t2 tx1 tx2 m H1 H2 N1 N2. del H1 t1 t. del H2 t2 t. eapply Ia; eauto.
    + intros t' tx' m H Hn. del H t' t. eapply Fu; eauto.
    + intros t1 t2 tx1 tx2 m H1 H2 N1 N2. del H1 t1 t. del H2 t2 t. eapply Ff; eauto.
Qed.

Lemma ainv_step' s o : ainv s -> ainv (astep' s o).
Proof. intros H. unfold astep'. destruct (astep s o) eqn:E; [eapply ainv_step; eauto|exact H]. Qed.
Theorem ainv_reachable d os : ainv (aruns (a_init d) os).
Proof.
  unfold aruns. generalize (ainv_init d). generalize (a_init d). induction os as [|o os IH]; intros s H; simpl; [exact H|].
  apply IH. apply ainv_step'. exact H.
Qed.

(* no transaction running: the in-memory allocator is the on-disk bitmap *)
Theorem quiescent_agree s : ainv s -> a_txns s = ∅ -> a_mem s = a_disk s.
Proof.
  intros H E. apply set_eq. intros n. rewrite (i_mem _ H). split; [|auto].
  intros [X|(t & tx & X & _)]; [exact X|]. rewrite E, lookup_empty in X. discriminate.
Qed.
Corollary quiescent_agree_reachable d os : a_txns (aruns (a_init d) os) = ∅ -> a_mem (aruns (a_init d) os) = a_disk (aruns (a_init d) os).
Proof. apply quiescent_agree, ainv_reachable. Qed.

(* commit: exactly the transaction's allocations and frees become durable *)
Theorem commit_effect s t tx s' : astep s (ACommit t) = Some s' -> a_txns s !! t = Some tx ->
  (forall n, n ∈ a_disk s' <-> (n ∈ a_disk s \/ n ∈ t_al tx) /\ n ∉ t_fr tx) /\
  (forall n, n ∈ a_mem s' <-> n ∈ a_mem s /\ n ∉ t_fr tx) /\
  a_txns s' = delete t (a_txns s).
Proof.
  intros E Et. simpl in E. rewrite Et in E. injection E as <-. simpl.
  split; [intros n; apply pre_commit_spec|]. split; [intros n; apply release_spec|reflexivity].
Qed.
(* a number allocated and given back by the same transaction is free afterwards, on disk and in memory
   (inode.indbmap's undo when a child block cannot be had) *)
Corollary alloc_then_free_is_free s t tx s' n : astep s (ACommit t) = Some s' -> a_txns s !! t = Some tx ->
  n ∈ t_al tx -> n ∈ t_fr tx -> n ∉ a_disk s' /\ n ∉ a_mem s'.
Proof.
  intros E Et _ Hf. destruct (commit_effect _ _ _ _ E Et) as (D & M & _). split.
  - intros X. apply D in X as [_ X]. contradiction.
  - intros X. apply M in X as [_ X]. contradiction.
Qed.

(* abort: the disk is untouched, the allocator forgets exactly what the transaction took *)
Theorem abort_effect s t tx s' : astep s (AAbort t) = Some s' -> a_txns s !! t = Some tx ->
  a_disk s' = a_disk s /\ (forall n, n ∈ a_mem s' <-> n ∈ a_mem s /\ n ∉ t_al tx) /\ a_txns s' = delete t (a_txns s).
Proof.
  intros E Et. simpl in E. rewrite Et in E. injection E as <-. simpl.
  split; [reflexivity|]. split; [intros n; apply release_spec|reflexivity].
Qed.
(* a transaction that begins, allocates and frees at will, and aborts, while nothing else happens, leaves no trace *)
Theorem begin_abort_identity s t ops s1 s2 : ainv s -> a_txns s !! t = None ->
  astep s (ABegin t) = Some s1 ->
  Forall (fun o => match o with AAlloc t' _ | AFree t' _ => t' = t | _ => False end) ops ->
  aruns s1 ops = s2 ->
  forall s3, astep s2 (AAbort t) = Some s3 ->
  a_disk s3 = a_disk s /\ a_mem s3 = a_mem s /\ a_txns s3 = a_txns s.
Proof.
  intros I0 Hn E1 Fo Er s3 E3.
  (* along the way: disk constant, other transactions unchanged, mem = mem0 ∪ al_t *)
  assert (K : forall ops s1, ainv s1 -> a_disk s1 = a_disk s -> delete t (a_txns s1) = a_txns s ->
              (exists tx, a_txns s1 !! t = Some tx /\ forall n, n ∈ a_mem s1 <-> n ∈ a_mem s \/ n ∈ t_al tx) ->
              Forall (fun o => match o with AAlloc t' _ | AFree t' _ => t' = t | _ => False end) ops ->
              let s2 := aruns s1 ops in
              ainv s2 /\ a_disk s2 = a_disk s /\ delete t (a_txns s2) = a_txns s /\
              exists tx, a_txns s2 !! t = Some tx /\ forall n, n ∈ a_mem s2 <-> n ∈ a_mem s \/ n ∈ t_al tx).
  { clear. induction ops as [|o ops IH]; intros s1 I1 D1 T1 M1 Fo; simpl; [auto|].
    inversion Fo as [|? ? Ho Fo']; subst. apply IH; clear IH; try exact Fo'.
    - apply ainv_step'. exact I1.
    - unfold astep'. destruct (astep s1 o) as [sx|] eqn:E; [|exact D1].
      destruct o as [| t' n | t' n | |]; try contradiction; subst t'; simpl in E;
        destruct (a_txns s1 !! t) as [tx|]; try discriminate;
        match type of E with (if ?c then _ else _) = _ => destruct c; [|discriminate] end; injection E as <-; exact D1.
    - unfold astep'. destruct (astep s1 o) as [sx|] eqn:E; [|exact T1].
      destruct o as [| t' n | t' n | |]; try contradiction; subst t'; simpl in E;
        destruct (a_txns s1 !! t) as [tx|]; try discriminate;
        match type of E with (if ?c then _ else _) = _ => destruct c; [|discriminate] end; injection E as <-; simpl;
        rewrite delete_insert_delete; exact T1.
    - unfold astep'. destruct (astep s1 o) as [sx|] eqn:E; [|exact M1].
      destruct M1 as (tx0 & Ht0 & Hm0).
      destruct o as [| t' n | t' n | |]; try contradiction; subst t'; simpl in E; rewrite Ht0 in E;
        match type of E with (if ?c then _ else _) = _ => destruct c; [|discriminate] end; injection E as <-; simpl;
        eexists; (split; [apply lookup_insert|]); simpl; intros m.
      + rewrite elem_of_union, elem_of_singleton, Hm0, elem_of_app, elem_of_list_singleton. tauto.
      + apply Hm0. }
  assert (I1 : ainv s1) by (eapply ainv_step; eauto).
  simpl in E1. rewrite Hn in E1. injection E1 as <-.
  destruct (K ops _ I1) as (I2 & D2 & T2 & tx & Ht & Hm); simpl.
  - reflexivity.
  - rewrite delete_insert; [reflexivity|exact Hn].
  - eexists. split; [apply lookup_insert|]. simpl. intros n. rewrite elem_of_nil. tauto.
  - exact Fo.
  - rewrite Er in *. destruct (abort_effect _ _ _ _ E3 Ht) as (D3 & M3 & T3).
    split; [congruence|]. split; [|congruence].
    apply set_eq. intros n. rewrite M3, Hm. split; [|].
    + intros [[X|X] Y]; [exact X|contradiction].
    + intros X. split; [left; exact X|]. intros Y.
      (* n in al_t and in mem s: impossible, al_t is disjoint from disk and from the other transactions *)
      apply (i_mem _ I0) in X as [X|(t' & tx' & X & Xn)].
      * eapply (i_al_disk _ I2); eauto. congruence.
      * assert (Ht' : a_txns s2 !! t' = Some tx').
        { rewrite <- T2 in X. destruct (decide (t' = t)) as [->|Hne]; [rewrite lookup_delete in X; discriminate|].
          rewrite lookup_delete_ne in X by congruence. exact X. }
        assert (t' = t) by (eapply (i_al_al _ I2); eauto). subst. rewrite <- T2, lookup_delete in X. discriminate.
Qed.
