(* What a successful RENAME does on the reference, for every reachable state: the object is found under the new
   name, the old name is gone, the object itself (kind, generation, content, entries) is the same, and a replaced
   target no longer exists. *)
From stdpp Require Import gmap list.
From Coq Require Import NArith Lia.
From V Require Import Model.Lib Model.Afs Proofs.AfsLaws Proofs.AfsInv.
Open Scope N_scope.

Section Rename.
Variable P : params.

Definition same_object (o o' : obj) : Prop :=
  o_kind o' = o_kind o /\ o_gen o' = o_gen o /\ o_size o' = o_size o /\ o_data o' = o_data o /\ o_ents o' = o_ents o.

Theorem rename_effect s h1 n1 h2 n2 s' d1i d1 d2i d2 fi fo :
  ainv s ->
  rename P s h1 n1 h2 n2 = (s', RStatus OK) ->
  resolve P s h1 = Some (d1i, d1) -> resolve P s h2 = Some (d2i, d2) ->
  o_ents d1 !! n1 = Some fi -> objs s !! fi = Some fo ->
  o_ents d2 !! n2 <> Some fi ->                      (* not the no-op "onto itself" *)
  exists d1' d2' fo',
    objs s' !! d1i = Some d1' /\ objs s' !! d2i = Some d2' /\ objs s' !! fi = Some fo' /\
    o_ents d2' !! n2 = Some fi /\
    ((d1i, n1) <> (d2i, n2) -> o_ents d1' !! n1 = None) /\
    same_object fo fo' /\ o_parent fo' = d2i /\
    (forall ti, o_ents d2 !! n2 = Some ti -> objs s' !! ti = None).
Proof.
  intros I Hr R1 R2 Hn1 Hf Hnot. pose proof I as [E N U R F S].
  unfold rename in Hr. destruct (is_dots n1); [discriminate|]. rewrite R1, R2 in Hr.
  pose proof (resolve_Some _ _ _ _ _ R1) as L1. pose proof (resolve_Some _ _ _ _ _ R2) as L2.
  destruct (negb (is_dir d1) || negb (is_dir d2)) eqn:Kd; [discriminate|].
  rewrite Hn1 in Hr. destruct (negb (wf_name P n2)); [discriminate|]. rewrite Hf in Hr.
  destruct (is_dir fo && is_ancestor s (N.to_nat (p_ninode P)) fi d2i) eqn:Anc; [discriminate|].
  destruct (E _ _ _ _ L1 Hn1) as (_ & Hfr & fo0 & Hf0 & Hpf). pose proof (look_inj _ _ _ _ Hf Hf0) as <-.
  assert (Hf1 : fi <> d1i). { intros ->. apply Hfr. eapply S; eauto. }
  assert (Hf2 : fi <> d2i).
  { intros ->. rewrite is_ancestor_self, andb_true_r in Anc. pose proof (look_inj _ _ _ _ Hf L2) as <-.
    apply orb_false_iff in Kd as [_ K2]. apply negb_false_iff in K2. congruence. }
  (* the objects after a move *)
  assert (After : forall s0 d1x d2x, objs s0 !! d1i = Some d1x -> objs s0 !! d2i = Some d2x -> objs s0 !! fi = Some fo ->
            o_ents d1x !! n1 = Some fi ->
            exists d1' d2' fo', objs (move s0 d1i n1 d2i n2 fi) !! d1i = Some d1' /\ objs (move s0 d1i n1 d2i n2 fi) !! d2i = Some d2' /\
              objs (move s0 d1i n1 d2i n2 fi) !! fi = Some fo' /\ o_ents d2' !! n2 = Some fi /\
              ((d1i, n1) <> (d2i, n2) -> o_ents d1' !! n1 = None) /\ same_object fo fo' /\ o_parent fo' = d2i /\
              (forall k, k <> d1i -> k <> d2i -> k <> fi -> objs (move s0 d1i n1 d2i n2 fi) !! k = objs s0 !! k)).
  { intros s0 d1x d2x A1 A2 A3 A4.
    rewrite (move_objs s0 d1i n1 d2i n2 fi d1x d2x fo A1 A2 A3 Hf1 Hf2).
    set (d1' := with_ents d1x (delete n1 (o_ents d1x))).
    set (d2c := if decide (d1i = d2i) then d1' else d2x).
    set (d2' := with_ents d2c (<[n2 := fi]> (o_ents d2c))).
    exists (if decide (d1i = d2i) then d2' else d1'), d2', (with_parent fo d2i).
    split. { rewrite lookup_insert_ne by auto. destruct (decide (d1i = d2i)) as [e|ne].
             - rewrite e. apply lookup_insert.
             - rewrite lookup_insert_ne by auto. apply lookup_insert. }
    split. { rewrite lookup_insert_ne by auto. apply lookup_insert. }
    split. { apply lookup_insert. }
    split. { unfold d2'. simpl. apply lookup_insert. }
    split. { intros Hne. destruct (decide (d1i = d2i)) as [e|ne].
             - unfold d2'. simpl. rewrite lookup_insert_ne by (intros <-; apply Hne; congruence).
               unfold d2c. try rewrite decide_True by exact e. unfold d1'. simpl. apply lookup_delete.
             - unfold d1'. simpl. apply lookup_delete. }
    split. { repeat split. }
    split. { reflexivity. }
    intros k K1 K2 K3. rewrite !lookup_insert_ne by auto. reflexivity. }
  destruct (o_ents d2 !! n2) as [ti|] eqn:Hn2.
  - destruct (ti =? fi) eqn:Etf; [apply N.eqb_eq in Etf; subst ti; exfalso; apply Hnot; reflexivity|]. apply N.eqb_neq in Etf.
    destruct (objs s !! ti) as [to|] eqn:Ht; [|discriminate].
    destruct (negb (bool_decide (o_kind to = o_kind fo))) eqn:Kk; [discriminate|].
    destruct (is_dir to && negb (bool_decide (o_ents to = ∅))) eqn:Em; [discriminate|].
    injection Hr as <-.
    apply negb_false_iff, bool_decide_eq_true in Kk.
    assert (Hte : o_ents to = ∅).
    { destruct (decide (o_kind to = KDir)) as [Kt|Kt].
      - unfold is_dir in Em. rewrite (bool_decide_eq_true_2 _ Kt) in Em. simpl in Em.
        apply negb_false_iff, bool_decide_eq_true in Em. exact Em.
      - eapply F; eauto. }
    destruct (E _ _ _ _ L2 Hn2) as (_ & Htr & to' & Ht' & Hpt).
    assert (X : Some to' = Some to) by (transitivity (objs s !! ti); [symmetry; exact Ht'|exact Ht]). injection X as ->.
    assert (Ht2 : ti <> d2i). { intros ->. apply Htr. eapply S; eauto. }
    assert (Ht1 : ti <> d1i).
    { intros ->. assert (X : Some to = Some d1) by (transitivity (objs s !! d1i); [symmetry; exact Ht|exact L1]).
      injection X as ->. rewrite Hte, lookup_empty in Hn1. discriminate. }
    destruct (After (del_obj s ti) d1 d2) as (d1' & d2' & fo' & A1 & A2 & A3 & A4 & A5 & A6 & A7 & A8).
    { unfold del_obj; simpl. rewrite lookup_delete_ne by auto. exact L1. }
    { unfold del_obj; simpl. rewrite lookup_delete_ne by auto. exact L2. }
    { unfold del_obj; simpl. rewrite lookup_delete_ne by auto. exact Hf. }
    { exact Hn1. }
    exists d1', d2', fo'. repeat (split; [assumption|]).
    intros t Ht0. injection Ht0 as <-. rewrite A8 by auto. unfold del_obj. simpl. apply lookup_delete.
  - injection Hr as <-.
    destruct (After s d1 d2 L1 L2 Hf Hn1) as (d1' & d2' & fo' & A1 & A2 & A3 & A4 & A5 & A6 & A7 & A8).
    exists d1', d2', fo'. repeat (split; [assumption|]). intros t Ht0. discriminate.
Qed.
End Rename.
