From Coq Require Import List Arith Lia Bool Permutation.
Import ListNotations.

Section Tree.
Variable NB : nat.
Hypothesis NBpos : 0 < NB.

Definition blockv := nat -> nat.
Definition disk := nat -> blockv.
Definition put (b:blockv) (i v:nat) : blockv := fun j => if Nat.eqb j i then v else b j.
Definition upd (d:disk) (a:nat) (b:blockv) : disk := fun a' => if Nat.eqb a' a then b else d a'.

Fixpoint pw (l:nat) : nat := match l with 0 => 1 | S l => NB * pw l end.
Lemma pw_pos l : 0 < pw l. Proof. induction l; simpl; nia. Qed.

Fixpoint leaf (d:disk) (lvl root off:nat) : nat :=
  match lvl with
  | 0 => root
  | S l => if Nat.eqb root 0 then 0 else leaf d l (d root (off / pw l)) (off mod pw l)
  end.

Fixpoint blocks (d:disk) (lvl root:nat) : list nat :=
  match lvl with
  | 0 => if Nat.eqb root 0 then [] else [root]
  | S l => if Nat.eqb root 0 then [] else root :: flat_map (fun i => blocks d l (d root i)) (seq 0 NB)
  end.

Definition alloc1 (fr:list nat) : nat * list nat := match fr with [] => (0, []) | b :: r => (b, r) end.
Definition ensure (root:nat) (fr:list nat) := if Nat.eqb root 0 then alloc1 fr else (root, fr).

Fixpoint indbmap (lvl root off:nat) (d:disk) (fr:list nat) : nat * nat * disk * list nat :=
  let '(root1, fr1) := ensure root fr in
  if Nat.eqb root1 0 then (0, 0, d, fr1) else
  match lvl with
  | 0 => (root1, root1, d, fr1)
  | S l =>
      let o := off / pw l in
      let nxt := d root1 o in
      let '(blk, newnxt, d1, fr2) := indbmap l nxt (off mod pw l) d fr1 in
      let d2 := if Nat.eqb newnxt nxt then d1 else upd d1 root1 (put (d1 root1) o newnxt) in
      (blk, root1, d2, fr2)
  end.

(* pointwise agreement of two disks on a set of block numbers *)
Definition agree_on (l:list nat) (d d':disk) := forall a, In a l -> forall i, d' a i = d a i.

Lemma flat_map_ext_in {A B} (f g:A -> list B) l : (forall a, In a l -> f a = g a) -> flat_map f l = flat_map g l.
Proof. induction l as [|x l IH]; intros H; simpl; [reflexivity|]. rewrite H by now left. rewrite IH; auto. intros; apply H; now right. Qed.

Lemma blocks_zero d lvl : blocks d lvl 0 = [].
Proof. destruct lvl; reflexivity. Qed.
Lemma leaf_zero d lvl off : leaf d lvl 0 off = 0.
Proof. destruct lvl; reflexivity. Qed.

Lemma in_blocks_child d l root i a : root <> 0 -> i < NB -> In a (blocks d l (d root i)) -> In a (blocks d (S l) root).
Proof.
  intros Hr Hi Ha. simpl. apply Nat.eqb_neq in Hr. rewrite Hr. right.
  apply in_flat_map. exists i. split; [apply in_seq; lia|exact Ha].
Qed.

Lemma root_in_blocks d lvl root : root <> 0 -> In root (blocks d lvl root).
Proof. intros Hr. apply Nat.eqb_neq in Hr. destruct lvl; simpl; rewrite Hr; now left. Qed.

Lemma blocks_frame lvl : forall d d' root, agree_on (blocks d lvl root) d d' -> blocks d' lvl root = blocks d lvl root.
Proof.
  induction lvl as [|l IH]; intros d d' root H; simpl; [reflexivity|].
  destruct (Nat.eqb_spec root 0) as [|Hr]; [reflexivity|]. f_equal.
  apply flat_map_ext_in. intros i Hi. apply in_seq in Hi.
  rewrite (H root (root_in_blocks _ _ _ Hr)). apply IH.
  intros a Ha. apply H. apply (in_blocks_child d l root i a Hr); [lia|exact Ha].
Qed.

Lemma div_lt_pw l off : off < pw (S l) -> off / pw l < NB.
Proof. simpl. intros H. apply Nat.div_lt_upper_bound; [pose proof (pw_pos l); lia|]. nia. Qed.

Lemma leaf_frame lvl : forall d d' root off, off < pw lvl ->
  agree_on (blocks d lvl root) d d' -> leaf d' lvl root off = leaf d lvl root off.
Proof.
  induction lvl as [|l IH]; intros d d' root off Ho H; simpl; [reflexivity|].
  destruct (Nat.eqb_spec root 0) as [|Hr]; [reflexivity|].
  rewrite (H root (root_in_blocks _ _ _ Hr)). apply IH.
  - apply Nat.mod_upper_bound. pose proof (pw_pos l). lia.
  - intros a Ha. apply H. apply (in_blocks_child d l root (off / pw l) a Hr); [now apply div_lt_pw|exact Ha].
Qed.

(* a freshly allocated (all-zero) index block is an empty tree *)
Lemma blocks_fresh d l b : b <> 0 -> (forall i, d b i = 0) -> blocks d (S l) b = [b].
Proof.
  intros Hb Hz. simpl. apply Nat.eqb_neq in Hb. rewrite Hb. f_equal.
  induction (seq 0 NB) as [|x s IH]; simpl; [reflexivity|]. rewrite Hz, blocks_zero. exact IH.
Qed.
Lemma leaf_fresh d l b off : (forall i, d b i = 0) -> leaf d (S l) b off = 0.
Proof. intros Hz. simpl. destruct (Nat.eqb b 0); [reflexivity|]. rewrite Hz. apply leaf_zero. Qed.

(* split the children of an index block around child o *)
Lemma seq_split o : o < NB -> seq 0 NB = seq 0 o ++ o :: seq (S o) (NB - S o).
Proof.
  intros H. replace NB with (o + S (NB - S o)) at 1 by lia. rewrite seq_app. simpl. reflexivity.
Qed.

Definition kids (d:disk) (l root:nat) (is:list nat) := flat_map (fun i => blocks d l (d root i)) is.

Lemma blocks_split d l root o : root <> 0 -> o < NB ->
  blocks d (S l) root = root :: kids d l root (seq 0 o) ++ blocks d l (d root o) ++ kids d l root (seq (S o) (NB - S o)).
Proof.
  intros Hr Ho. simpl. apply Nat.eqb_neq in Hr. rewrite Hr. f_equal.
  rewrite (seq_split o Ho) at 1. rewrite flat_map_app. simpl. reflexivity.
Qed.

(* ------------- specification of indbmap ------------- *)
Definition free_zero (d:disk) (fr:list nat) := forall b, In b fr -> forall i, d b i = 0.

Record post (lvl root off:nat) (d:disk) (fr:list nat) (blk root':nat) (d':disk) (fr':list nat) : Prop := {
  q_hit   : blk <> 0 -> leaf d' lvl root' off = blk;
  q_other : forall off', off' < pw lvl -> off' <> off -> leaf d' lvl root' off' = leaf d lvl root off';
  q_perm  : Permutation (blocks d' lvl root' ++ fr') (blocks d lvl root ++ fr);
  q_fz    : free_zero d' fr';
  q_frame : forall a, ~ In a (blocks d lvl root ++ fr) -> forall i, d' a i = d a i;
  q_root  : root <> 0 -> root' = root;
  q_keep  : leaf d lvl root off <> 0 -> blk = leaf d lvl root off
}.


Lemma spec_level0 root off d fr :
  off < pw 0 -> NoDup (blocks d 0 root ++ fr) -> free_zero d fr -> ~ In 0 fr ->
  let '(blk, root', d', fr') := indbmap 0 root off d fr in
  post 0 root off d fr blk root' d' fr'.
Proof.
  intros Ho ND FZ N0. simpl in Ho. simpl. unfold ensure. destruct (Nat.eqb_spec root 0) as [->|Hr].
  - destruct fr as [|b fr]; simpl.
    + constructor.
      * intros H; now elim H.
      * intros; reflexivity.
      * simpl. constructor.
      * intros ? [].
      * intros; reflexivity.
      * intros H; now elim H.
      * simpl. intros H; now elim H.
    + assert (Hb0: b <> 0) by (intros ->; apply N0; now left). apply Nat.eqb_neq in Hb0 as Hb. rewrite Hb.
      constructor.
      * intros _. reflexivity.
      * intros off' Ho' Hne. simpl in Ho'. lia.
      * simpl. rewrite Hb. simpl. apply Permutation_refl.
      * intros x Hx. apply FZ. now right.
      * intros; reflexivity.
      * intros H; now elim H.
      * simpl. intros H; now elim H.
  - apply Nat.eqb_neq in Hr as Hb. rewrite Hb. constructor.
    + intros _. reflexivity.
    + intros; reflexivity.
    + apply Permutation_refl.
    + exact FZ.
    + intros; reflexivity.
    + intros _. reflexivity.
    + intros _. reflexivity.
Qed.

Lemma NoDup_app_iff {A} (a b:list A) : NoDup (a ++ b) <-> NoDup a /\ NoDup b /\ (forall x, In x a -> ~ In x b).
Proof.
  induction a as [|x a IH]; simpl.
  - split; [intros H; repeat split; auto; constructor| tauto].
  - split.
    + intros H. apply NoDup_cons_iff in H as [H1 H2]. apply IH in H2 as (A1 & A2 & A3).
      split; [constructor; auto; intros C; apply H1; apply in_or_app; now left|].
      split; [assumption|]. intros y [<-|Hy]; [intros C; apply H1; apply in_or_app; now right| now apply A3].
    + intros (A1 & A2 & A3). apply NoDup_cons_iff in A1 as [B1 B2]. constructor.
      * intros C. apply in_app_or in C as [C|C]; [auto| apply (A3 x); auto].
      * apply IH. repeat split; auto.
Qed.

(* the step for a non-zero root, assuming the spec one level down *)
Definition spec_at (lvl:nat) := forall root off d fr,
  off < pw lvl -> NoDup (blocks d lvl root ++ fr) -> free_zero d fr -> ~ In 0 fr ->
  let '(blk, root', d', fr') := indbmap lvl root off d fr in
  post lvl root off d fr blk root' d' fr'.

Lemma spec_nonzero l (IH: spec_at l) root off d fr :
  root <> 0 -> off < pw (S l) -> NoDup (blocks d (S l) root ++ fr) -> free_zero d fr -> ~ In 0 fr ->
  let '(blk, root', d', fr') := indbmap (S l) root off d fr in
  post (S l) root off d fr blk root' d' fr'.
Proof.
  intros Hr Ho ND FZ N0.
  assert (Hdiv: off / pw l < NB) by now apply div_lt_pw.
  assert (Hpw: 0 < pw l) by apply pw_pos.
  assert (Hmod: off mod pw l < pw l) by (apply Nat.mod_upper_bound; lia).
  cbn [indbmap]. unfold ensure. apply Nat.eqb_neq in Hr as Hrb. rewrite Hrb.
  set (o := off / pw l) in *. set (ind := off mod pw l) in *. set (nxt := d root o).
  rewrite (blocks_split d l root o Hr Hdiv) in ND. fold nxt in ND.
  set (KA := kids d l root (seq 0 o)) in *. set (KC := kids d l root (seq (S o) (NB - S o))) in *.
  set (T := blocks d l nxt) in *.
  (* disjointness facts *)
  simpl in ND. apply NoDup_cons_iff in ND as [Hroot ND].
  rewrite <- !app_assoc in Hroot, ND.
  apply NoDup_app_iff in ND as (NDA & ND & DA).
  apply NoDup_app_iff in ND as (NDT & ND & DT).
  apply NoDup_app_iff in ND as (NDC & NDf & DC).
  assert (NDTf: NoDup (T ++ fr)).
  { apply NoDup_app_iff. repeat split; auto. intros x Hx C. apply (DT x Hx). apply in_or_app. now right. }
  specialize (IH nxt ind d fr Hmod NDTf FZ N0).
  destruct (indbmap l nxt ind d fr) as [[[blk newnxt] d1] fr2].
  destruct IH as [Qhit Qoth Qperm Qfz Qframe Qroot Qkeep].
  set (d2 := if Nat.eqb newnxt nxt then d1 else upd d1 root (put (d1 root) o newnxt)).
  assert (Hroot_Tf: ~ In root (T ++ fr)).
  { intros C. apply Hroot. apply in_or_app. right. apply in_app_or in C as [C|C]; apply in_or_app; [now left|].
    right. apply in_or_app. now right. }
  assert (Hd1root: forall i, d1 root i = d root i) by (intros i; apply Qframe; exact Hroot_Tf).
  assert (F1: forall i, d2 root i = if Nat.eqb i o then newnxt else d root i).
  { intros i. unfold d2. destruct (Nat.eqb_spec newnxt nxt) as [E|E].
    - rewrite Hd1root. destruct (Nat.eqb_spec i o) as [->|]; [rewrite E; reflexivity|reflexivity].
    - unfold upd, put. rewrite Nat.eqb_refl. destruct (Nat.eqb i o); [reflexivity|apply Hd1root]. }
  assert (F2: forall a, a <> root -> forall i, d2 a i = d1 a i).
  { intros a Ha i. unfold d2. destruct (Nat.eqb newnxt nxt); [reflexivity|].
    unfold upd. apply Nat.eqb_neq in Ha. now rewrite Ha. }
  (* blocks of the new subtree avoid root *)
  assert (Hnew_root: ~ In root (blocks d1 l newnxt ++ fr2)).
  { intros C. apply (Permutation_in _ Qperm) in C. auto. }
  assert (AgT: agree_on (blocks d1 l newnxt) d1 d2).
  { intros a Ha i. apply F2. intros ->. apply Hnew_root. apply in_or_app. now left. }
  (* sibling subtrees are untouched *)
  assert (Sib: forall i, i < NB -> i <> o -> agree_on (blocks d l (d root i)) d d2).
  { intros i Hi Hne a Ha j.
    assert (Hin: In a (KA ++ KC)).
    { destruct (Nat.lt_ge_cases i o).
      - apply in_or_app. left. apply in_flat_map. exists i. split; [apply in_seq; lia|exact Ha].
      - apply in_or_app. right. apply in_flat_map. exists i. split; [apply in_seq; lia|exact Ha]. }
    assert (Ha_root: a <> root).
    { intros ->. apply Hroot. apply in_app_or in Hin as [C|C]; apply in_or_app; [now left|].
      right. apply in_or_app. right. apply in_or_app. now left. }
    assert (Ha_Tf: ~ In a (T ++ fr)).
    { intros C. apply in_app_or in Hin as [Hin|Hin].
      - apply (DA a Hin). apply in_app_or in C as [C|C]; apply in_or_app; [now left|]. right. apply in_or_app. now right.
      - apply in_app_or in C as [C|C]; [apply (DT a C); apply in_or_app; now left| apply (DC a Hin C)]. }
    rewrite F2 by exact Ha_root. apply Qframe. exact Ha_Tf. }
  assert (KA2: kids d2 l root (seq 0 o) = KA).
  { unfold KA, kids. apply flat_map_ext_in. intros i Hi. apply in_seq in Hi.
    rewrite F1. destruct (Nat.eqb_spec i o); [lia|]. apply blocks_frame. apply Sib; lia. }
  assert (KC2: kids d2 l root (seq (S o) (NB - S o)) = KC).
  { unfold KC, kids. apply flat_map_ext_in. intros i Hi. apply in_seq in Hi.
    rewrite F1. destruct (Nat.eqb_spec i o); [lia|]. apply blocks_frame. apply Sib; lia. }
  assert (B2: blocks d2 (S l) root = root :: KA ++ blocks d1 l newnxt ++ KC).
  { rewrite (blocks_split d2 l root o Hr Hdiv). rewrite KA2, KC2. rewrite F1, Nat.eqb_refl.
    rewrite (blocks_frame l d1 d2 newnxt AgT). reflexivity. }
  rewrite Hrb. change (post (S l) root off d fr blk root d2 fr2).
  constructor.
  - (* hit *) intros Hblk. simpl. rewrite Hrb. fold o ind. rewrite F1, Nat.eqb_refl.
    rewrite (leaf_frame l d1 d2) by auto. auto.
  - (* other offsets *) intros off' Ho' Hne. simpl. rewrite Hrb. rewrite F1.
    assert (Hmod': off' mod pw l < pw l) by (apply Nat.mod_upper_bound; lia).
    destruct (Nat.eqb_spec (off' / pw l) o) as [E|E].
    + rewrite (leaf_frame l d1 d2) by auto. rewrite E. fold nxt. apply Qoth; [exact Hmod'|].
      intros C. apply Hne. rewrite (Nat.div_mod off' (pw l)) by lia. rewrite (Nat.div_mod off (pw l)) by lia.
      fold o ind. rewrite E, C. reflexivity.
    + apply leaf_frame; [exact Hmod'|]. apply Sib; [now apply div_lt_pw|exact E].
  - (* permutation of owned + free *)
    rewrite B2. rewrite (blocks_split d l root o Hr Hdiv). fold nxt KA KC T. simpl. constructor.
    rewrite <- !app_assoc. apply Permutation_app_head.
    (* blocks d1 newnxt ++ KC ++ fr2  ~  T ++ KC ++ fr *)
    transitivity (KC ++ blocks d1 l newnxt ++ fr2).
    { rewrite !app_assoc. apply Permutation_app_tail. apply Permutation_app_comm. }
    transitivity (KC ++ T ++ fr); [apply Permutation_app_head; exact Qperm|].
    rewrite !app_assoc. apply Permutation_app_tail. apply Permutation_app_comm.
  - (* free blocks still zero *)
    intros b Hb i. rewrite F2; [apply Qfz; exact Hb|].
    intros ->. apply Hnew_root. apply in_or_app. now right.
  - (* frame *)
    intros a Ha i. rewrite (blocks_split d l root o Hr Hdiv) in Ha. fold nxt KA KC T in Ha.
    assert (a <> root) by (intros ->; apply Ha; now left).
    rewrite F2 by assumption. apply Qframe. intros C. apply Ha. simpl. right.
    apply in_app_or in C as [C|C].
    + apply in_or_app. left. apply in_or_app. right. apply in_or_app. now left.
    + apply in_or_app. now right.
  - intros _. reflexivity.
  - simpl. rewrite Hrb. fold o ind nxt. exact Qkeep.
Qed.

Lemma indbmap_alloc_root l off d b fr : b <> 0 ->
  indbmap (S l) 0 off d (b :: fr) = indbmap (S l) b off d fr.
Proof. intros Hb. apply Nat.eqb_neq in Hb. cbn [indbmap]. unfold ensure. simpl. rewrite !Hb. reflexivity. Qed.

Lemma spec_step l (IH: spec_at l) : spec_at (S l).
Proof.
  intros root off d fr Ho ND FZ N0.
  destruct (Nat.eq_dec root 0) as [->|Hr]; [|now apply spec_nonzero].
  destruct fr as [|b fr].
  - (* nothing to allocate *)
    cbn [indbmap]. unfold ensure. simpl. constructor.
    + intros H; now elim H.
    + intros; reflexivity.
    + apply Permutation_refl.
    + intros ? [].
    + intros; reflexivity.
    + intros H; now elim H.
    + simpl. intros H; now elim H.
  - assert (Hb0: b <> 0) by (intros ->; apply N0; now left).
    rewrite (indbmap_alloc_root l off d b fr Hb0).
    assert (Zb: forall i, d b i = 0) by (apply FZ; now left).
    rewrite blocks_zero in ND. simpl in ND.
    assert (Pre: NoDup (blocks d (S l) b ++ fr)) by (rewrite (blocks_fresh d l b Hb0 Zb); exact ND).
    assert (FZ': free_zero d fr) by (intros x Hx; apply FZ; now right).
    assert (N0': ~ In 0 fr) by (intros C; apply N0; now right).
    pose proof (spec_nonzero l IH b off d fr Hb0 Ho Pre FZ' N0') as P.
    destruct (indbmap (S l) b off d fr) as [[[blk root'] d'] fr'].
    destruct P as [Qhit Qoth Qperm Qfz Qframe Qroot Qkeep].
    constructor.
    + exact Qhit.
    + intros off' Ho' Hne. rewrite Qoth by assumption. rewrite leaf_zero. apply leaf_fresh. exact Zb.
    + rewrite blocks_zero. simpl. rewrite (blocks_fresh d l b Hb0 Zb) in Qperm. exact Qperm.
    + exact Qfz.
    + intros a Ha i. apply Qframe. rewrite (blocks_fresh d l b Hb0 Zb). rewrite blocks_zero in Ha. exact Ha.
    + intros H; now elim H.
    + rewrite leaf_zero. intros H; now elim H.
Qed.

Theorem indbmap_spec lvl : spec_at lvl.
Proof.
  induction lvl as [|l IH]; [|now apply spec_step].
  intros root off d fr. apply spec_level0.
Qed.

(* ================= freeing side ================= *)
Definition zerob : blockv := fun _ => 0.

(* indshrink combined with what its caller does with the returned root:
   frees logical block bn of the subtree and every index block that becomes empty;
   returns the new pointer to store in the parent (0 if the whole subtree is gone) *)
Fixpoint shrink_one (lvl root bn:nat) (d:disk) (fr:list nat) : nat * disk * list nat :=
  if Nat.eqb root 0 then (0, d, fr) else
  match lvl with
  | 0 => (0, upd d root zerob, root :: fr)
  | S l =>
      let off := bn / pw l in
      let ind := bn mod pw l in
      let nxt := d root off in
      let '(c', d1, fr1) := shrink_one l nxt ind d fr in
      let d2 := if Nat.eqb c' nxt then d1 else upd d1 root (put (d1 root) off 0) in
      if Nat.eqb off 0 && Nat.eqb ind 0 then (0, upd d2 root zerob, root :: fr1) else (root, d2, fr1)
  end.

(* everything above logical block bn has already been cleared *)
Fixpoint trimmed (d:disk) (lvl root bn:nat) : Prop :=
  match lvl with
  | 0 => True
  | S l => root <> 0 ->
           (forall i, bn / pw l < i -> i < NB -> d root i = 0) /\
           trimmed d l (d root (bn / pw l)) (bn mod pw l)
  end.

Lemma trimmed_zero d lvl bn : trimmed d lvl 0 bn.
Proof. destruct lvl; simpl; [exact I|]. intros H; now elim H. Qed.

Lemma pw_S l : pw (S l) = NB * pw l. Proof. reflexivity. Qed.

Lemma trimmed_last lvl : forall d root, trimmed d lvl root (pw lvl - 1).
Proof.
  induction lvl as [|l IH]; intros d root; [exact I|]. cbn [trimmed]. intros Hr.
  pose proof (pw_pos l) as Hp. rewrite pw_S.
  assert (E1: (NB * pw l - 1) / pw l = NB - 1).
  { symmetry. apply (Nat.div_unique _ _ _ (pw l - 1)); nia. }
  assert (E2: (NB * pw l - 1) mod pw l = pw l - 1).
  { symmetry. apply (Nat.mod_unique _ _ (NB - 1)); nia. }
  rewrite E1, E2. split; [intros; lia|apply IH].
Qed.

Lemma trimmed_frame lvl : forall d d' root bn, bn < pw lvl ->
  agree_on (blocks d lvl root) d d' -> trimmed d lvl root bn -> trimmed d' lvl root bn.
Proof.
  induction lvl as [|l IH]; intros d d' root bn Hb Ag T; [exact I|]. cbn [trimmed] in *. intros Hr.
  destruct (T Hr) as [T1 T2]. pose proof (Ag root (root_in_blocks _ _ _ Hr)) as Er. split.
  - intros i H1 H2. rewrite Er. now apply T1.
  - rewrite Er. pose proof (div_lt_pw l bn Hb) as Hlt. pose proof (pw_pos l).
    apply (IH d d'); [apply Nat.mod_upper_bound; lia| |exact T2].
    intros a Ha. apply Ag. now apply (in_blocks_child d l root (bn / pw l) a Hr Hlt).
Qed.

Record spost (lvl root bn:nat) (d:disk) (fr:list nat) (root':nat) (d':disk) (fr':list nat) : Prop := {
  p_root : root' = if Nat.eqb bn 0 then 0 else root;
  p_leaf : forall off', off' < pw lvl -> leaf d' lvl root' off' = if off' <? bn then leaf d lvl root off' else 0;
  p_perm : Permutation (blocks d' lvl root' ++ fr') (blocks d lvl root ++ fr);
  p_fz : free_zero d' fr';
  p_frame : forall a, ~ In a (blocks d lvl root) -> forall i, d' a i = d a i;
  p_trim : 0 < bn -> trimmed d' lvl root' (bn - 1)
}.

Definition sspec_at (lvl:nat) := forall root bn d fr,
  bn < pw lvl -> NoDup (blocks d lvl root ++ fr) -> free_zero d fr -> trimmed d lvl root bn ->
  let '(root', d', fr') := shrink_one lvl root bn d fr in
  spost lvl root bn d fr root' d' fr'.

Lemma sspec_root0 lvl bn d fr : free_zero d fr -> spost lvl 0 bn d fr 0 d fr.
Proof.
  intros FZ. constructor.
  - destruct (Nat.eqb bn 0); reflexivity.
  - intros off' _. rewrite leaf_zero. destruct (off' <? bn); reflexivity.
  - apply Permutation_refl.
  - exact FZ.
  - intros; reflexivity.
  - intros _. apply trimmed_zero.
Qed.

Lemma shrink_one_root0 lvl bn d fr : shrink_one lvl 0 bn d fr = (0, d, fr).
Proof. destruct lvl; reflexivity. Qed.

Lemma sspec_level0 : sspec_at 0.
Proof.
  intros root bn d fr Hb ND FZ _. simpl in Hb. assert (bn = 0) by lia. subst bn.
  destruct (Nat.eq_dec root 0) as [->|Hr]; [rewrite shrink_one_root0; now apply sspec_root0|].
  simpl. apply Nat.eqb_neq in Hr as Hrb. rewrite Hrb. simpl in ND. rewrite Hrb in ND. simpl in ND.
  apply NoDup_cons_iff in ND as [Hnin ND].
  constructor.
  - reflexivity.
  - intros off' _. simpl. reflexivity.
  - simpl. rewrite Hrb. simpl. apply Permutation_refl.
  - intros b [<-|Hb'] i.
    + unfold upd. now rewrite Nat.eqb_refl.
    + unfold upd. destruct (Nat.eqb_spec b root) as [->|]; [contradiction|]. now apply FZ.
  - intros a Ha i. unfold upd. destruct (Nat.eqb_spec a root) as [->|]; [|reflexivity].
    exfalso. apply Ha. simpl. rewrite Hrb. now left.
  - intros H; lia.
Qed.

Lemma kids_zero d l root (is:list nat) : (forall i, In i is -> d root i = 0) -> kids d l root is = [].
Proof.
  unfold kids. induction is as [|x s IH]; intros H; simpl; [reflexivity|].
  rewrite H by now left. rewrite blocks_zero. apply IH. intros; apply H; now right.
Qed.

Lemma bn_zero_iff l bn : 0 < pw l -> (Nat.eqb (bn / pw l) 0 && Nat.eqb (bn mod pw l) 0 = true <-> bn = 0).
Proof.
  intros Hp. rewrite andb_true_iff, !Nat.eqb_eq. split.
  - intros [A B]. rewrite (Nat.div_mod bn (pw l)) by lia. rewrite A, B. lia.
  - intros ->. split; [apply Nat.div_0_l; lia|apply Nat.mod_0_l; lia].
Qed.

Lemma sspec_step l (IH: sspec_at l) : sspec_at (S l).
Proof.
  intros root bn d fr Hb ND FZ TR.
  destruct (Nat.eq_dec root 0) as [->|Hr]; [rewrite shrink_one_root0; now apply sspec_root0|].
  assert (Hdiv: bn / pw l < NB) by now apply div_lt_pw.
  assert (Hpw: 0 < pw l) by apply pw_pos.
  assert (Hmod: bn mod pw l < pw l) by (apply Nat.mod_upper_bound; lia).
  assert (Hbn: bn = pw l * (bn / pw l) + bn mod pw l) by (apply Nat.div_mod; lia).
  cbn [shrink_one]. apply Nat.eqb_neq in Hr as Hrb. rewrite Hrb.
  cbn [trimmed] in TR. destruct (TR Hr) as [TR1 TR2].
  set (o := bn / pw l) in *. set (ind := bn mod pw l) in *. set (nxt := d root o) in *.
  rewrite (blocks_split d l root o Hr Hdiv) in ND. fold nxt in ND.
  set (KA := kids d l root (seq 0 o)) in *. set (KC := kids d l root (seq (S o) (NB - S o))) in *.
  set (T := blocks d l nxt) in *.
  assert (KC0: KC = []).
  { unfold KC. apply kids_zero. intros i Hi. apply in_seq in Hi. apply TR1; lia. }
  simpl in ND. apply NoDup_cons_iff in ND as [Hroot ND].
  rewrite <- !app_assoc in Hroot, ND.
  apply NoDup_app_iff in ND as (NDA & ND & DA).
  apply NoDup_app_iff in ND as (NDT & ND & DT).
  apply NoDup_app_iff in ND as (NDC & NDf & DC).
  assert (NDTf: NoDup (T ++ fr)).
  { apply NoDup_app_iff. repeat split; auto. intros x Hx C. apply (DT x Hx). apply in_or_app. now right. }
  specialize (IH nxt ind d fr Hmod NDTf FZ TR2).
  destruct (shrink_one l nxt ind d fr) as [[c' d1] fr1].
  destruct IH as [Qroot Qleaf Qperm Qfz Qframe Qtrim].
  set (d2 := if Nat.eqb c' nxt then d1 else upd d1 root (put (d1 root) o 0)).
  assert (Hroot_T: ~ In root T).
  { intros C. apply Hroot. apply in_or_app. right. apply in_or_app. now left. }
  assert (Hroot_Tf: ~ In root (T ++ fr)).
  { intros C. apply Hroot. apply in_or_app. right. apply in_app_or in C as [C|C]; apply in_or_app; [now left|].
    right. apply in_or_app. now right. }
  assert (Hd1root: forall i, d1 root i = d root i) by (intros i; apply Qframe; exact Hroot_T).
  assert (Hc0: c' <> nxt -> c' = 0).
  { intros Hne. rewrite Qroot in *. destruct (Nat.eqb ind 0); [reflexivity|congruence]. }
  assert (F1: forall i, d2 root i = if Nat.eqb i o then c' else d root i).
  { intros i. unfold d2. destruct (Nat.eqb_spec c' nxt) as [E|E].
    - rewrite Hd1root. destruct (Nat.eqb_spec i o) as [->|]; [rewrite E; reflexivity|reflexivity].
    - unfold upd, put. rewrite Nat.eqb_refl. rewrite (Hc0 E). destruct (Nat.eqb i o); [reflexivity|apply Hd1root]. }
  assert (F2: forall a, a <> root -> forall i, d2 a i = d1 a i).
  { intros a Ha i. unfold d2. destruct (Nat.eqb c' nxt); [reflexivity|].
    unfold upd. apply Nat.eqb_neq in Ha. now rewrite Ha. }
  assert (Hnew_root: ~ In root (blocks d1 l c' ++ fr1)).
  { intros C. apply (Permutation_in _ Qperm) in C. auto. }
  assert (AgT: agree_on (blocks d1 l c') d1 d2).
  { intros a Ha i. apply F2. intros ->. apply Hnew_root. apply in_or_app. now left. }
  assert (Sib: forall i, i < NB -> i <> o -> agree_on (blocks d l (d root i)) d d2).
  { intros i Hi Hne a Ha j.
    assert (Hin: In a (KA ++ KC)).
    { destruct (Nat.lt_ge_cases i o).
      - apply in_or_app. left. apply in_flat_map. exists i. split; [apply in_seq; lia|exact Ha].
      - apply in_or_app. right. apply in_flat_map. exists i. split; [apply in_seq; lia|exact Ha]. }
    assert (Ha_root: a <> root).
    { intros ->. apply Hroot. apply in_app_or in Hin as [C|C]; apply in_or_app; [now left|].
      right. apply in_or_app. right. apply in_or_app. now left. }
    assert (Ha_T: ~ In a T).
    { intros C. apply in_app_or in Hin as [Hin|Hin].
      - apply (DA a Hin). apply in_or_app. now left.
      - apply (DT a C). apply in_or_app. now left. }
    rewrite F2 by exact Ha_root. apply Qframe. exact Ha_T. }
  assert (KA2: kids d2 l root (seq 0 o) = KA).
  { unfold KA, kids. apply flat_map_ext_in. intros i Hi. apply in_seq in Hi.
    rewrite F1. destruct (Nat.eqb_spec i o); [lia|]. apply blocks_frame. apply Sib; lia. }
  assert (KC2: kids d2 l root (seq (S o) (NB - S o)) = KC).
  { unfold KC, kids. apply flat_map_ext_in. intros i Hi. apply in_seq in Hi.
    rewrite F1. destruct (Nat.eqb_spec i o); [lia|]. apply blocks_frame. apply Sib; lia. }
  assert (B2: blocks d2 (S l) root = root :: KA ++ blocks d1 l c' ++ KC).
  { rewrite (blocks_split d2 l root o Hr Hdiv). rewrite KA2, KC2. rewrite F1, Nat.eqb_refl.
    rewrite (blocks_frame l d1 d2 c' AgT). reflexivity. }
  assert (Hfr1_root: forall b, In b fr1 -> b <> root).
  { intros b Hb' ->. apply Hnew_root. apply in_or_app. now right. }
  assert (Frame2: forall a, ~ In a (root :: KA ++ T ++ KC) -> forall i, d2 a i = d a i).
  { intros a Ha i. assert (a <> root) by (intros ->; apply Ha; now left).
    rewrite F2 by assumption. apply Qframe. intros C. apply Ha. right. apply in_or_app. right. apply in_or_app. now left. }
  destruct (Nat.eqb o 0 && Nat.eqb ind 0) eqn:Ez.
  - (* bn = 0 : the whole subtree disappears, the index block itself is freed *)
    apply (bn_zero_iff l bn Hpw) in Ez. fold o ind in Ez.
    assert (o = 0 /\ ind = 0) as [Eo Ei].
    { unfold o, ind. rewrite Ez. split; [apply Nat.div_0_l; lia|apply Nat.mod_0_l; lia]. }
    assert (Ec: c' = 0) by (rewrite Qroot, Ei; reflexivity).
    change (spost (S l) root bn d fr 0 (upd d2 root zerob) (root :: fr1)).
    constructor.
    + rewrite Ez. reflexivity.
    + intros off' _. rewrite leaf_zero. rewrite Ez. destruct (off' <? 0) eqn:E; [apply Nat.ltb_lt in E; lia|reflexivity].
    + rewrite blocks_zero. rewrite (blocks_split d l root o Hr Hdiv). fold nxt KA KC T. simpl.
      constructor. rewrite KC0. unfold KA. rewrite Eo. simpl. rewrite app_nil_r.
      rewrite Ec, blocks_zero in Qperm. simpl in Qperm. exact Qperm.
    + intros b [<-|Hb'] i.
      * unfold upd. now rewrite Nat.eqb_refl.
      * unfold upd. pose proof (Hfr1_root b Hb') as Hne. apply Nat.eqb_neq in Hne. rewrite Hne.
        rewrite F2 by (now apply Hfr1_root). now apply Qfz.
    + intros a Ha i. rewrite (blocks_split d l root o Hr Hdiv) in Ha. fold nxt KA KC T in Ha.
      assert (a <> root) by (intros ->; apply Ha; now left).
      unfold upd. apply Nat.eqb_neq in H as Hb'. rewrite Hb'. now apply Frame2.
    + intros H; lia.
  - (* bn > 0 : the index block stays *)
    assert (Hbn0: bn <> 0).
    { intros C. apply (bn_zero_iff l bn Hpw) in C. fold o ind in C. congruence. }
    change (spost (S l) root bn d fr root d2 fr1).
    constructor.
    + apply Nat.eqb_neq in Hbn0. rewrite Hbn0. reflexivity.
    + intros off' Ho'. simpl. rewrite Hrb. rewrite F1.
      assert (Hmod': off' mod pw l < pw l) by (apply Nat.mod_upper_bound; lia).
      assert (Hoff': off' = pw l * (off' / pw l) + off' mod pw l) by (apply Nat.div_mod; lia).
      assert (Hdiv': off' / pw l < NB) by now apply div_lt_pw.
      destruct (Nat.eqb_spec (off' / pw l) o) as [E|E].
      * rewrite (leaf_frame l d1 d2) by auto. rewrite (Qleaf _ Hmod'). rewrite E. fold nxt.
        destruct (Nat.ltb_spec (off' mod pw l) ind), (Nat.ltb_spec off' bn); try reflexivity; nia.
      * destruct (Nat.lt_ge_cases (off' / pw l) o) as [Hlt|Hgt].
        -- rewrite (leaf_frame l d d2) by (auto; apply Sib; lia).
           destruct (Nat.ltb_spec off' bn); [reflexivity|nia].
        -- rewrite TR1 by lia. rewrite leaf_zero. destruct (Nat.ltb_spec off' bn); [nia|reflexivity].
    + rewrite B2. rewrite (blocks_split d l root o Hr Hdiv). fold nxt KA KC T. simpl. constructor.
      rewrite <- !app_assoc. apply Permutation_app_head.
      transitivity (KC ++ blocks d1 l c' ++ fr1).
      { rewrite !app_assoc. apply Permutation_app_tail. apply Permutation_app_comm. }
      transitivity (KC ++ T ++ fr); [apply Permutation_app_head; exact Qperm|].
      rewrite !app_assoc. apply Permutation_app_tail. apply Permutation_app_comm.
    + intros b Hb' i. rewrite F2 by (now apply Hfr1_root). now apply Qfz.
    + intros a Ha i. rewrite (blocks_split d l root o Hr Hdiv) in Ha. fold nxt KA KC T in Ha. now apply Frame2.
    + intros _. cbn [trimmed]. intros _.
      destruct (Nat.eq_dec ind 0) as [Ei|Ei].
      * (* bn-1 is the last block under the previous child *)
        assert (o > 0) by (destruct (Nat.eq_dec o 0); [exfalso; apply Hbn0; nia|lia]).
        assert (E1: (bn - 1) / pw l = o - 1).
        { symmetry. apply (Nat.div_unique _ _ _ (pw l - 1)); nia. }
        assert (E2: (bn - 1) mod pw l = pw l - 1).
        { symmetry. apply (Nat.mod_unique _ _ (o - 1)); nia. }
        rewrite E1, E2. split.
        -- intros i Hi1 Hi2. rewrite F1. destruct (Nat.eqb_spec i o) as [->|Ne].
           ++ rewrite Qroot. apply Nat.eqb_eq in Ei. now rewrite Ei.
           ++ apply TR1; lia.
        -- apply trimmed_last.
      * assert (E1: (bn - 1) / pw l = o).
        { symmetry. apply (Nat.div_unique _ _ _ (ind - 1)); nia. }
        assert (E2: (bn - 1) mod pw l = ind - 1).
        { symmetry. apply (Nat.mod_unique _ _ o); nia. }
        rewrite E1, E2. split.
        -- intros i Hi1 Hi2. rewrite F1. destruct (Nat.eqb_spec i o); [lia|]. apply TR1; lia.
        -- rewrite F1, Nat.eqb_refl. apply (trimmed_frame l d1 d2); [lia|exact AgT|]. apply Qtrim. lia.
Qed.

Theorem shrink_one_spec lvl : sspec_at lvl.
Proof. induction lvl as [|l IH]; [apply sspec_level0|now apply sspec_step]. Qed.
End Tree.
Print Assumptions shrink_one_spec.
