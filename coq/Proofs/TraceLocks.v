(* Link between the executable trace predicate asc_b and the hypothesis of ordered_no_deadlock. *)
From Coq Require Import List NArith Bool Sorted Lia.
From V Require Import Model.TraceCheck.
Import ListNotations.
Open Scope N_scope.

(* a transaction that releases nothing before its last acquisition *)
Fixpoint no_early_release (seen_rel : bool) (evs : list tev) : bool :=
  match evs with
  | [] => true
  | TAcq _ :: r => negb seen_rel && no_early_release seen_rel r
  | TRel _ :: r => no_early_release true r
  | _ :: r => no_early_release seen_rel r
  end.

Lemma asc_sorted_aux evs : forall held seen, no_early_release seen evs = true -> asc_b held evs = true ->
  Forall (fun i => Forall (fun h => h < i) held) (acquisitions evs) /\ StronglySorted N.lt (acquisitions evs).
Proof.
  induction evs as [|e evs IH]; intros held seen Hn Ha; simpl; [split; constructor|].
  destruct e; simpl in *; try (eapply IH; eauto; fail).
  - apply andb_true_iff in Hn as [Hs Hn]. apply andb_true_iff in Ha as [Hh Ha].
    destruct (IH (i :: held) seen Hn Ha) as [F S].
    split.
    + constructor.
      * apply Forall_forall. intros h Hin. rewrite forallb_forall in Hh. apply N.ltb_lt. apply Hh. exact Hin.
      * eapply Forall_impl; [|exact F]. intros a Fa. inversion Fa; assumption.
    + constructor; [exact S|]. eapply Forall_impl; [|exact F]. intros a Fa. inversion Fa; assumption.
  - (* release: by no_early_release no acquisition follows *)
    assert (E : forall evs', no_early_release true evs' = true -> acquisitions evs' = []).
    { clear. induction evs' as [|e r IH]; simpl; intros H; [reflexivity|].
      destruct e; simpl in *; try (apply IH; exact H). discriminate. }
    rewrite (E evs Hn). split; constructor.
Qed.

(* the acquisition sequence of a transaction that passes asc_b (starting with nothing held) and does not
   release early is strictly ascending: exactly the shape ordered_no_deadlock asks of every thread *)
Theorem asc_b_sorted evs : no_early_release false evs = true -> asc_b [] evs = true ->
  StronglySorted N.lt (acquisitions evs).
Proof. intros Hn Ha. exact (proj2 (asc_sorted_aux evs [] false Hn Ha)). Qed.
