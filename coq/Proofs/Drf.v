From Coq Require Import List Arith Lia Bool.
Import ListNotations.

Inductive ev := Acq (t l:nat) | Rel (t l:nat) | Acc (t x:nat) (w:bool).

Section Drf.
Variable guard : nat -> nat.

Definition holder := nat -> option nat.
Definition upd (h:holder) l v : holder := fun l' => if Nat.eqb l' l then v else h l'.

(* well-formed locking and every access inside a critical section of its guard *)
Fixpoint wf (h:holder) (tr:list ev) : Prop :=
  match tr with
  | [] => True
  | Acq t l :: r => h l = None /\ wf (upd h l (Some t)) r
  | Rel t l :: r => h l = Some t /\ wf (upd h l None) r
  | Acc t x _ :: r => h (guard x) = Some t /\ wf h r
  end.

Lemma upd_same h l v : upd h l v l = v.
Proof. unfold upd. now rewrite Nat.eqb_refl. Qed.
Lemma upd_other h l v l' : l' <> l -> upd h l v l' = h l'.
Proof. unfold upd. intros H. apply Nat.eqb_neq in H. now rewrite H. Qed.

Lemma must_acquire L t2 : forall tr h j x w,
  wf h tr -> h L <> Some t2 -> nth_error tr j = Some (Acc t2 x w) -> guard x = L ->
  exists b, b < j /\ nth_error tr b = Some (Acq t2 L).
Proof.
  induction tr as [|e tr IH]; intros h j x w Hwf Hh Hj Hg; [destruct j; discriminate|].
  destruct j as [|j]; simpl in Hj.
  - injection Hj as ->. simpl in Hwf. destruct Hwf as [Hx _]. rewrite Hg in Hx. contradiction.
  - destruct e as [t l|t l|t y w']; simpl in Hwf; destruct Hwf as [H1 H2].
    + destruct (Nat.eq_dec l L) as [->|N].
      * destruct (Nat.eq_dec t t2) as [->|Nt]; [exists 0; split; [lia|reflexivity]|].
        assert (Hh': upd h L (Some t) L <> Some t2) by (rewrite upd_same; congruence).
        destruct (IH _ j x w H2 Hh' Hj Hg) as (b & Hb & Eb). exists (S b). split; [lia|exact Eb].
      * assert (Hh': upd h l (Some t) L <> Some t2) by (rewrite upd_other; auto).
        destruct (IH _ j x w H2 Hh' Hj Hg) as (b & Hb & Eb). exists (S b). split; [lia|exact Eb].
    + assert (Hh': upd h l None L <> Some t2).
      { destruct (Nat.eq_dec L l) as [->|N]; [rewrite upd_same; discriminate|rewrite upd_other; auto]. }
      destruct (IH _ j x w H2 Hh' Hj Hg) as (b & Hb & Eb). exists (S b). split; [lia|exact Eb].
    + destruct (IH _ j x w H2 Hh Hj Hg) as (b & Hb & Eb). exists (S b). split; [lia|exact Eb].
Qed.

Lemma must_release_then_acquire L t1 t2 : t1 <> t2 -> forall tr h j x w,
  wf h tr -> h L = Some t1 -> nth_error tr j = Some (Acc t2 x w) -> guard x = L ->
  exists a b, a < b /\ b < j /\ nth_error tr a = Some (Rel t1 L) /\ nth_error tr b = Some (Acq t2 L).
Proof.
  intros Hne. induction tr as [|e tr IH]; intros h j x w Hwf Hh Hj Hg; [destruct j; discriminate|].
  destruct j as [|j]; simpl in Hj.
  - injection Hj as ->. simpl in Hwf. destruct Hwf as [Hx _]. rewrite Hg in Hx. congruence.
  - destruct e as [t l|t l|t y w']; simpl in Hwf; destruct Hwf as [H1 H2].
    + assert (l <> L) by congruence.
      assert (Hh': upd h l (Some t) L = Some t1) by (rewrite upd_other; auto).
      destruct (IH _ j x w H2 Hh' Hj Hg) as (a & b & ? & ? & Ea & Eb).
      exists (S a), (S b). repeat split; try lia; assumption.
    + destruct (Nat.eq_dec l L) as [->|N].
      * assert (t = t1) by congruence. subst t.
        assert (Hh': upd h L None L <> Some t2) by (rewrite upd_same; discriminate).
        destruct (must_acquire L t2 tr _ j x w H2 Hh' Hj Hg) as (b & Hb & Eb).
        exists 0, (S b). split; [lia|]. split; [lia|]. split; [reflexivity|exact Eb].
      * assert (Hh': upd h l None L = Some t1) by (rewrite upd_other; auto).
        destruct (IH _ j x w H2 Hh' Hj Hg) as (a & b & ? & ? & Ea & Eb).
        exists (S a), (S b). repeat split; try lia; assumption.
    + destruct (IH _ j x w H2 Hh Hj Hg) as (a & b & ? & ? & Ea & Eb).
      exists (S a), (S b). repeat split; try lia; assumption.
Qed.

(* state after a prefix *)
Fixpoint after (h:holder) (tr:list ev) : holder :=
  match tr with [] => h
  | Acq t l :: r => after (upd h l (Some t)) r
  | Rel t l :: r => after (upd h l None) r
  | Acc _ _ _ :: r => after h r end.

Lemma wf_app h a b : wf h (a ++ b) -> wf h a /\ wf (after h a) b.
Proof.
  revert h. induction a as [|e a IH]; intros h H; simpl in *; [auto|].
  destruct e; destruct H as [H1 H2]; destruct (IH _ H2); auto.
Qed.

(* The theorem: in a well-formed trace where every access is guarded, two accesses
   to the same location by different threads are separated by a release of the
   guard by the first thread and a later acquire by the second: they are ordered
   by happens-before, i.e. there is no data race.  (Holds for any pair, so in
   particular for conflicting ones.) *)
Theorem lockset_drf tr i j t1 t2 x w1 w2 :
  wf (fun _ => None) tr -> i < j -> t1 <> t2 ->
  nth_error tr i = Some (Acc t1 x w1) -> nth_error tr j = Some (Acc t2 x w2) ->
  exists a b, i < a /\ a < b /\ b < j /\
    nth_error tr a = Some (Rel t1 (guard x)) /\ nth_error tr b = Some (Acq t2 (guard x)).
Proof.
  intros Hwf Hij Hne Hi Hj.
  apply nth_error_split in Hi as (pre & post & -> & Hlen).
  apply wf_app in Hwf as [_ Hwf]. simpl in Hwf. destruct Hwf as [Hheld Hwf].
  assert (Hj': nth_error post (j - S i) = Some (Acc t2 x w2)).
  { rewrite nth_error_app2 in Hj by lia. rewrite Hlen in Hj.
    replace (j - i) with (S (j - S i)) in Hj by lia. exact Hj. }
  destruct (must_release_then_acquire (guard x) t1 t2 Hne post _ _ x w2 Hwf Hheld Hj' eq_refl) as (a & b & Hab & Hbj & Ea & Eb).
  exists (S i + a), (S i + b). repeat split; try lia.
  - rewrite nth_error_app2 by lia. rewrite Hlen. replace (S i + a - i) with (S a) by lia. exact Ea.
  - rewrite nth_error_app2 by lia. rewrite Hlen. replace (S i + b - i) with (S b) by lia. exact Eb.
Qed.
End Drf.
Print Assumptions lockset_drf.
