(* Proofs about IC (Model/IcacheModel.v): in every interleaving of transactions that lock, edit, log, commit and abort
   inodes, and of cache evictions, every cached copy of an inode that no transaction holds equals what is on disk -
   so what the running server answers from its cache is what a server restarted from the disk would answer - and
   an aborted transaction leaves the disk untouched and nothing of its edits in the cache. *)
From stdpp Require Import gmap.
From Coq Require Import NArith.
From V Require Import Model.IcacheModel.


Section ICP.
Context {V : Type} `{EqDecision V}.
Variable dflt : V.
Notation icstate := (@icstate V).
Notation disk_val := (disk_val dflt).
Notation icstep := (icstep dflt).
Notation icruns := (icruns dflt).

Record icinv (s : icstate) : Prop := {
  (* an unlocked cached inode is the disk's *)
  ci_coh : forall i v, c_cache s !! i = Some v -> c_owner s !! i = None -> disk_val s i = v;
  (* only locked inodes have uncommitted journal buffers *)
  ci_buf : forall i v, c_wbuf s !! i = Some v -> c_owner s !! i <> None }.

Lemma icinv_init d : icinv (ic_init d).
Proof. split; simpl; intros i v H; rewrite lookup_empty in H; discriminate. Qed.

Lemma owner_after (s : icstate) t i : (filter (fun p : N * nat => snd p <> t) (c_owner s)) !! i = None <->
  c_owner s !! i = None \/ c_owner s !! i = Some t.
Proof.
  rewrite map_filter_lookup_None. simpl. split.
  - intros [H|H]; [left; exact H|]. destruct (c_owner s !! i) as [o|] eqn:E; [|left; reflexivity].
    right. destruct (decide (o = t)) as [->|Hne]; [reflexivity|]. exfalso. exact (H o eq_refl Hne).
  - intros [H|H]; [left; exact H|]. right. intros o Ho Hne. rewrite H in Ho. congruence.
Qed.

Theorem icinv_step s o s' : icinv s -> icstep s o = Some s' -> icinv s'.
Proof.
  intros [Co Bu] E. destruct o as [t i|t i v|t i|t|t|i]; simpl in E.
  - (* lock *)
    destruct (c_owner s !! i) eqn:Eo; [discriminate|]. injection E as <-. split; simpl.
    + intros j v Hc Ho. destruct (decide (j = i)) as [->|Hne]; [rewrite lookup_insert in Ho; discriminate|].
      rewrite lookup_insert_ne in Ho by congruence. apply Co; [|exact Ho].
      destruct (c_cache s !! i); [exact Hc|]. rewrite lookup_insert_ne in Hc by congruence. exact Hc.
    + intros j v Hb. destruct (decide (j = i)) as [->|Hne]; [rewrite lookup_insert; discriminate|].
      rewrite lookup_insert_ne by congruence. eapply Bu; eauto.
  - (* edit in place *)
    destruct (bool_decide (c_owner s !! i = Some t)) eqn:G; [|discriminate]. apply bool_decide_eq_true in G.
    injection E as <-. split; simpl; [|exact Bu].
    intros j w Hc Ho. destruct (decide (j = i)) as [->|Hne]; [congruence|].
    rewrite lookup_insert_ne in Hc by congruence. apply Co; assumption.
  - (* log *)
    destruct (bool_decide (c_owner s !! i = Some t)) eqn:G; [|discriminate]. apply bool_decide_eq_true in G.
    destruct (c_cache s !! i) as [v|] eqn:Ec; [|discriminate]. injection E as <-. split; simpl; [exact Co|].
    intros j w Hb. destruct (decide (j = i)) as [->|Hne]; [congruence|].
    rewrite lookup_insert_ne in Hb by congruence. eapply Bu; eauto.
  - (* commit *)
    destruct (bool_decide (all_clean dflt s t)) eqn:G; [|discriminate]. apply bool_decide_eq_true in G.
    injection E as <-. split; simpl.
    + intros i v Hc Ho. apply owner_after in Ho. unfold IcacheModel.disk_val. simpl.
      destruct Ho as [Ho|Ho].
      * (* was unlocked: no buffer, disk unchanged *)
        assert (Hm : mine s t (c_wbuf s) !! i = None).
        { unfold mine. apply map_filter_lookup_None. right. intros w Hw. simpl. rewrite Ho. discriminate. }
        rewrite lookup_union_r by exact Hm. apply Co; assumption.
      * (* held by the committing transaction: clean *)
        destruct (G i t Ho eq_refl v Hc) as [Hw|[Hw Hd]].
        -- assert (Hm : mine s t (c_wbuf s) !! i = Some v).
           { unfold mine. apply map_filter_lookup_Some. split; [exact Hw|exact Ho]. }
           rewrite (lookup_union_Some_l _ _ _ _ Hm). reflexivity.
        -- assert (Hm : mine s t (c_wbuf s) !! i = None).
           { unfold mine. apply map_filter_lookup_None. left. exact Hw. }
           rewrite lookup_union_r by exact Hm. exact Hd.
    + intros i v Hb. unfold not_mine in Hb. apply map_filter_lookup_Some in Hb as [Hb Hn]. simpl in Hn.
      intros Ho. apply owner_after in Ho as [Ho|Ho]; [eapply Bu; eauto|contradiction].
  - (* abort *)
    injection E as <-. split; simpl.
    + intros i v Hc Ho. unfold not_mine in Hc. apply map_filter_lookup_Some in Hc as [Hc Hn]. simpl in Hn.
      apply owner_after in Ho as [Ho|Ho]; [apply Co; assumption|contradiction].
    + intros i v Hb. unfold not_mine in Hb. apply map_filter_lookup_Some in Hb as [Hb Hn]. simpl in Hn.
      intros Ho. apply owner_after in Ho as [Ho|Ho]; [eapply Bu; eauto|contradiction].
  - (* evict *)
    destruct (c_owner s !! i) eqn:Eo; [discriminate|]. injection E as <-. split; simpl; [|exact Bu].
    intros j v Hc Ho. destruct (decide (j = i)) as [->|Hne]; [rewrite lookup_delete in Hc; discriminate|].
    rewrite lookup_delete_ne in Hc by congruence. apply Co; assumption.
Qed.

Theorem icinv_reachable d os : icinv (icruns (ic_init d) os).
Proof.
  unfold IcacheModel.icruns. generalize (icinv_init d). generalize (ic_init d).
  induction os as [|o os IH]; intros s H0; simpl; [exact H0|].
  apply IH. unfold icstep'. destruct (icstep s o) eqn:E; [eapply icinv_step; eauto|exact H0].
Qed.

(* what a server answers for an inode nobody holds: its cached copy when there is one, else the disk's.
   A restarted server has an empty cache: same disk, same answers. *)
Definition served (s : icstate) (i : N) : V := match c_cache s !! i with Some v => v | None => disk_val s i end.
Theorem running_equals_restarted d os i :
  let s := icruns (ic_init d) os in
  c_owner s !! i = None -> served s i = served (ic_init (c_disk s)) i.
Proof.
  intros s Ho. unfold served at 2. simpl. rewrite lookup_empty.
  unfold served. destruct (c_cache s !! i) as [v|] eqn:Ec; [|reflexivity].
  symmetry. change (IcacheModel.disk_val dflt (ic_init (c_disk s)) i) with (disk_val s i).
  eapply ci_coh; [apply icinv_reachable|exact Ec|exact Ho].
Qed.

(* abort: disk untouched; nothing the transaction held stays cached or buffered; everything else is as it was *)
Theorem ic_abort_effect s t s' : icstep s (IAbort t) = Some s' ->
  c_disk s' = c_disk s /\
  (forall i, c_owner s !! i = Some t -> c_cache s' !! i = None /\ c_wbuf s' !! i = None /\ c_owner s' !! i = None) /\
  (forall i, c_owner s !! i <> Some t -> c_cache s' !! i = c_cache s !! i /\ c_wbuf s' !! i = c_wbuf s !! i /\ c_owner s' !! i = c_owner s !! i).
Proof.
  intros E. simpl in E. injection E as <-. simpl. split; [reflexivity|]. split.
  - intros i Ho. split; [|split].
    + unfold not_mine. apply map_filter_lookup_None. right. intros v _. simpl. intros X. exact (X Ho).
    + unfold not_mine. apply map_filter_lookup_None. right. intros v _. simpl. intros X. exact (X Ho).
    + apply owner_after. right. exact Ho.
  - intros i Ho. split; [|split].
    + unfold not_mine. destruct (c_cache s !! i) as [v|] eqn:Ec.
      * apply map_filter_lookup_Some. split; [exact Ec|exact Ho].
      * apply map_filter_lookup_None. left. exact Ec.
    + unfold not_mine. destruct (c_wbuf s !! i) as [v|] eqn:Ec.
      * apply map_filter_lookup_Some. split; [exact Ec|exact Ho].
      * apply map_filter_lookup_None. left. exact Ec.
    + destruct (c_owner s !! i) as [o|] eqn:Eo.
      * apply map_filter_lookup_Some. split; [exact Eo|]. simpl. congruence.
      * apply map_filter_lookup_None. left. exact Eo.
Qed.
End ICP.
