(* What an empty ownership report of wf_disk means (clauses "no block belongs to two owners", "every block in
   use is marked in use", and its converse, of C04/C05), for arbitrary lists of owned and marked blocks. *)
From stdpp Require Import gmap list.
From Coq Require Import NArith Lia.
From V Require Import Model.Lib Model.Abs.
Open Scope N_scope.

Lemma elem_of_gs_add (x y : N) (s : gset N) : y ∈ gs_add x s <-> y = x \/ y ∈ s.
Proof.
  unfold gs_add. destruct s as [m]. unfold elem_of, gset_elem_of, mapset.mapset_elem_of. simpl.
  destruct (decide (y = x)) as [->|Hne].
  - rewrite lookup_insert. split; auto.
  - rewrite lookup_insert_ne by auto. split; [auto|intros [H|H]; [contradiction|exact H]].
Qed.

Lemma elem_of_fold_gs_add (l : list N) : forall (s : gset N) y,
  y ∈ fold_left (fun s x => gs_add x s) l s <-> y ∈ l \/ y ∈ s.
Proof.
  induction l as [|x r IH]; intros s y; simpl.
  - split; [auto|intros [H|H]; [inversion H|exact H]].
  - rewrite IH, elem_of_gs_add, elem_of_cons. tauto.
Qed.

Lemma elem_of_gs_of_list (l : list N) y : y ∈ gs_of_list l <-> y ∈ l.
Proof. unfold gs_of_list. rewrite elem_of_fold_gs_add. split; [intros [H|H]; [exact H|set_solver]|auto]. Qed.

(* the duplicate scan: nothing reported means no duplicates, and none of the elements had been seen *)
Lemma dup_errors_nil xs : forall seen, dup_errors xs seen = [] -> NoDup xs /\ forall x, x ∈ xs -> x ∉ seen.
Proof.
  induction xs as [|x r IH]; intros seen H; simpl in H.
  - split; [constructor|intros x Hx; inversion Hx].
  - destruct (bool_decide (x ∈ seen)) eqn:E; [discriminate|]. apply bool_decide_eq_false in E.
    destruct (IH _ H) as [ND Hs]. split.
    + constructor; [|exact ND]. intros Hin. apply (Hs x Hin). apply elem_of_gs_add. auto.
    + intros y Hy. apply elem_of_cons in Hy as [->|Hy]; [exact E|].
      intros Hys. apply (Hs y Hy). apply elem_of_gs_add. auto.
Qed.

Lemma size_list_to_set_le (r : list N) : (size (list_to_set r : gset N) <= length r)%nat.
Proof.
  induction r as [|y r IH].
  - rewrite list_to_set_nil, size_empty. simpl. lia.
  - rewrite list_to_set_cons. cbn [length].
    destruct (decide (y ∈ (list_to_set r : gset N))) as [Hin|Hnin].
    + assert (S : ({[y]} ∪ list_to_set r : gset N) = list_to_set r) by set_solver. rewrite S. lia.
    + rewrite size_union by set_solver. rewrite size_singleton. lia.
Qed.

Lemma size_gs_of_list_NoDup (l : list N) : length l = size (gs_of_list l) -> NoDup l.
Proof.
  (* the set built from l equals list_to_set l, whose size is the length of l exactly when l has no duplicates *)
  assert (E : gs_of_list l = list_to_set l).
  { apply set_eq. intros y. rewrite elem_of_gs_of_list, elem_of_list_to_set. reflexivity. }
  rewrite E. clear E. induction l as [|x r IH]; intros H; [constructor|].
  rewrite list_to_set_cons in H. cbn [length] in H. destruct (decide (x ∈ r)) as [Hin|Hnin].
  - exfalso. assert (S : ({[x]} ∪ list_to_set r : gset N) = list_to_set r) by set_solver.
    rewrite S in H. pose proof (size_list_to_set_le r). lia.
  - constructor; [exact Hnin|]. apply IH.
    rewrite size_union in H by set_solver. rewrite size_singleton in H. lia.
Qed.

Theorem own_errors_nil l owned used :
  own_errors l owned used = [] ->
  NoDup owned /\
  (forall b, b ∈ owned -> in_data l b = true -> b ∈ used) /\
  (forall b, b ∈ used -> b ∈ owned).
Proof.
  unfold own_errors. intros H. apply app_eq_nil in H as [H1 H2]. apply app_eq_nil in H2 as [H2 H3].
  split; [|split].
  - destruct (length owned =? size (gs_of_list owned))%nat eqn:E.
    + apply Nat.eqb_eq in E. apply size_gs_of_list_NoDup. exact E.
    + apply (dup_errors_nil owned ∅ H1).
  - intros b Hb Hd.
    assert (G : forall xs, omap (fun b => if bool_decide (b ∈ gs_of_list used) || negb (in_data l b) then None else Some (EBitClear b)) xs = [] ->
                forall b, b ∈ xs -> in_data l b = true -> b ∈ used).
    { induction xs as [|x r IH]; intros Hx y Hy Hyd; [inversion Hy|]. simpl in Hx.
      destruct (bool_decide (x ∈ gs_of_list used) || negb (in_data l x)) eqn:Ex; [|discriminate].
      apply elem_of_cons in Hy as [->|Hy]; [|eapply IH; eauto].
      apply orb_true_iff in Ex as [Ex|Ex].
      - apply bool_decide_eq_true in Ex. apply elem_of_gs_of_list. exact Ex.
      - rewrite Hyd in Ex. discriminate. }
    eapply G; eauto.
  - intros b Hb.
    assert (G : forall xs, omap (fun b => if negb (bool_decide (b ∈ gs_of_list owned)) then Some (EBitSetUnowned b) else None) xs = [] ->
                forall b, b ∈ xs -> b ∈ owned).
    { induction xs as [|x r IH]; intros Hx y Hy; [inversion Hy|]. simpl in Hx.
      destruct (negb (bool_decide (x ∈ gs_of_list owned))) eqn:Ex; [discriminate|].
      apply elem_of_cons in Hy as [->|Hy]; [|eapply IH; eauto].
      apply negb_false_iff, bool_decide_eq_true in Ex. apply elem_of_gs_of_list. exact Ex. }
    eapply G; eauto.
Qed.
