From Coq Require Import List NArith ZArith Lia Bool ZifyN ZifyNat ZifyBool.
From V Require Import Model.Xdr.
Import ListNotations.
Open Scope N_scope.
Ltac Zify.zify_post_hook ::= Z.div_mod_to_equations.

Opaque be32 de32 N.mul N.add N.div N.modulo.
Scheme ty_mind := Induction for ty Sort Prop
  with arms_mind := Induction for arms Sort Prop.

Lemma takeN_app {A} (a b: list A) : takeN (length a) (a ++ b) = Some (a, b).
Proof. induction a as [|x a IH]; simpl; [reflexivity| now rewrite IH]. Qed.
Lemma skipN_app {A} (a b: list A) : skipN (length a) (a ++ b) = Some b.
Proof. induction a as [|x a IH]; simpl; [reflexivity| exact IH]. Qed.
Lemma zeros_len n : length (zeros n) = N.to_nat n.
Proof. unfold zeros. apply repeat_length. Qed.

(* "dec succeeds with all sufficiently large fuel" *)
Definition ok (t:ty) (v:val) (bs: list byte) :=
  exists k, forall f r, (k <= f)%nat -> dec f t (bs ++ r) = Some (v, r).

Lemma ok_intro t v bs k : (forall f r, (k <= f)%nat -> dec (S f) t (bs ++ r) = Some (v, r)) -> ok t v bs.
Proof. intros H. exists (S k). intros f r Hf. destruct f as [|f]; [lia|]. apply H. lia. Qed.

Lemma enc_arm_arm_of a : forall tag v, enc_arm a tag v = enc (arm_of a tag) v.
Proof. induction a as [t|g t r IH]; intros tag v; simpl; [reflexivity|]. destruct (g =? tag); [reflexivity|apply IH]. Qed.

Theorem decode_encode : forall t v bs, enc t v = Some bs -> ok t v bs.
Proof.
  apply (ty_mind (fun t => forall v bs, enc t v = Some bs -> ok t v bs)
                 (fun a => forall tag v bs, enc (arm_of a tag) v = Some bs -> ok (arm_of a tag) v bs)).
  - (* TU32 *) intros v bs H. destruct v as [n|bb|l| |v1 v2|tag v|l]; simpl in H; try discriminate.
    destruct (n <? 4294967296) eqn:E; [|discriminate]. injection H as <-.
    apply (ok_intro _ _ _ 0). intros f r _. simpl dec. rewrite de32_be32 by lia. reflexivity.
  - (* TBool *) intros v bs H. destruct v as [n|bb|l| |v1 v2|tag v|l]; simpl in H; try discriminate. injection H as <-.
    apply (ok_intro _ _ _ 0). intros f r _. simpl dec. rewrite de32_be32 by (destruct bb; lia). destruct bb; reflexivity.
  - (* TVar *) intros max v bs H. destruct v as [n|bb|l| |v1 v2|tag v|l]; simpl in H; try discriminate.
    destruct ((lenN l <? 4294967296) && _) eqn:E; [|discriminate]. injection H as <-.
    apply andb_prop in E as [E1 E2].
    apply (ok_intro _ _ _ 0). intros f r _. simpl dec. rewrite <- !app_assoc. rewrite de32_be32 by lia.
    rewrite E2. unfold lenN. rewrite Nat2N.id. rewrite takeN_app.
    rewrite <- zeros_len. rewrite skipN_app. reflexivity.
  - (* TUnit *) intros v bs H. destruct v as [n|bb|l| |v1 v2|tag v|l]; simpl in H; try discriminate. injection H as <-.
    apply (ok_intro _ _ _ 0). intros f r _. reflexivity.
  - (* TPair *) intros a IHa b IHb v bs H. destruct v as [n|bb|l| |v1 v2|tag v|l]; simpl in H; try discriminate.
    destruct (enc a v1) as [p|] eqn:Ea; [|discriminate]. destruct (enc b v2) as [q|] eqn:Eb; [|discriminate].
    injection H as <-. destruct (IHa _ _ Ea) as [ka Ha]. destruct (IHb _ _ Eb) as [kb Hb].
    apply (ok_intro _ _ _ (ka + kb)). intros f r Hf. simpl dec. rewrite <- app_assoc.
    rewrite Ha by lia. rewrite Hb by lia. reflexivity.
  - (* TUnion *) intros a IHa v bs H. destruct v as [n|bb|l| |v1 v2|tag v|l]; simpl in H; try discriminate.
    destruct (tag <? 4294967296) eqn:E; [|discriminate].
    rewrite enc_arm_arm_of in H.
    destruct (enc (arm_of a tag) v) as [p|] eqn:Ea; [|discriminate]. injection H as <-.
    destruct (IHa _ _ _ Ea) as [ka Ha].
    apply (ok_intro _ _ _ ka). intros f r Hf. simpl dec. rewrite <- app_assoc. rewrite de32_be32 by lia.
    rewrite Ha by lia. reflexivity.
  - (* TChain *) intros t IHt v bs H. destruct v as [n|bb|l| |v1 v2|tag v|l]; simpl in H; try discriminate.
    revert bs H. induction l as [|x xs IHl]; intros bs H.
    + injection H as <-. apply (ok_intro _ _ _ 0). intros f r _. simpl dec. rewrite de32_be32 by lia. reflexivity.
    + destruct (enc t x) as [p|] eqn:Ex; [|discriminate].
      match type of H with match ?g with _ => _ end = _ => destruct g as [q|] eqn:Eq; [|discriminate] end.
      injection H as <-. destruct (IHt _ _ Ex) as [kx Hx]. destruct (IHl q eq_refl) as [kl Hl].
      apply (ok_intro _ _ _ (kx + kl)). intros f r Hf. simpl dec. rewrite <- !app_assoc.
      rewrite de32_be32 by lia. simpl. rewrite Hx by lia. rewrite Hl by lia. reflexivity.
  - (* ADef *) intros t IHt tag v bs H. simpl in *. apply IHt. exact H.
  - (* ACase *) intros g t IHt r IHr tag v bs H. simpl in *. destruct (g =? tag); [apply IHt|apply IHr]; exact H.
Qed.
Print Assumptions decode_encode.
