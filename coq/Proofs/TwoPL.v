From Coq Require Import List Arith Lia Bool.
Import ListNotations.

Section TwoPL.
Variable guard : nat -> nat.           (* location -> lock that protects it *)

Definition store := nat -> nat.
Definition buf := list (nat * nat).    (* newest first *)
Fixpoint blookup (b:buf) (x:nat) : option nat :=
  match b with [] => None | (y,v)::r => if Nat.eqb y x then Some v else blookup r x end.
Definition rd (s:store) (b:buf) (x:nat) : nat := match blookup b x with Some v => v | None => s x end.
Definition apply (b:buf) (s:store) : store := fun x => rd s b x.

Inductive prog :=
| PAcq (l:nat) (k:prog)
| PRead (x:nat) (k:nat -> prog)
| PWrite (x v:nat) (k:prog)
| PCommit (r:nat)
| PAbort (r:nat).

Inductive outcome := OCommit (b:buf) (r:nat) | OAbort (r:nat).

(* the sequential meaning of a transaction: run it alone on a store *)
Fixpoint run (s:store) (b:buf) (p:prog) : outcome :=
  match p with
  | PAcq _ k => run s b k
  | PRead x k => run s b (k (rd s b x))
  | PWrite x v k => run s ((x,v)::b) k
  | PCommit r => OCommit b r
  | PAbort r => OAbort r
  end.

Fixpoint exec (n:nat) (s:store) (b:buf) (p:prog) : option (buf * prog) :=
  match n with O => Some (b,p) | S n =>
    match p with
    | PAcq _ k => exec n s b k
    | PRead x k => exec n s b (k (rd s b x))
    | PWrite x v k => exec n s ((x,v)::b) k
    | _ => None end end.

Fixpoint fp (n:nat) (s:store) (b:buf) (p:prog) : list nat :=
  match n with O => [] | S n =>
    match p with
    | PAcq _ k => fp n s b k
    | PRead x k => x :: fp n s b (k (rd s b x))
    | PWrite x v k => x :: fp n s ((x,v)::b) k
    | _ => [] end end.

Lemma rd_agree s s' b x : s' x = s x -> rd s' b x = rd s b x.
Proof. unfold rd. destruct (blookup b x); auto. Qed.

Lemma agree n : forall s s' b p, (forall x, In x (fp n s b p) -> s' x = s x) ->
  exec n s' b p = exec n s b p /\ fp n s' b p = fp n s b p.
Proof.
  induction n as [|n IH]; intros s s' b p H; simpl; [auto|].
  destruct p as [l k|x k|x v k|r|r]; simpl in *; auto.
  - assert (E: rd s' b x = rd s b x) by (apply rd_agree, H; now left). rewrite E.
    destruct (IH s s' b (k (rd s b x))) as [A B]; [intros; apply H; now right|]. rewrite A, B. auto.
  - destruct (IH s s' ((x,v)::b) k) as [A B]; [intros; apply H; now right|]. rewrite A, B. auto.
Qed.

Lemma run_exec n : forall s b p b' p', exec n s b p = Some (b',p') -> run s b p = run s b' p'.
Proof.
  induction n as [|n IH]; intros s b p b' p' H; simpl in H; [now injection H as <- <-|].
  destruct p; simpl; try discriminate; eauto.
Qed.

(* one more step at the end *)
Definition step1 (s:store) (b:buf) (p:prog) : option (buf*prog*list nat) :=
  match p with
  | PAcq _ k => Some (b,k,[])
  | PRead x k => Some (b, k (rd s b x), [x])
  | PWrite x v k => Some ((x,v)::b, k, [x])
  | _ => None end.

Lemma exec_snoc n : forall s b p b' p' b'' p'' f,
  exec n s b p = Some (b',p') -> step1 s b' p' = Some (b'',p'',f) ->
  exec (S n) s b p = Some (b'',p'') /\ fp (S n) s b p = fp n s b p ++ f.
Proof.
  induction n as [|n IH]; intros s b p b' p' b'' p'' f H H1.
  - simpl in H. injection H as <- <-. destruct p; simpl in *; try discriminate; injection H1 as <- <- <-; auto.
  - destruct p as [l k|x k|x v k|r|r]; try (simpl in H; discriminate).
    + change (exec (S n) s b (PAcq l k)) with (exec n s b k) in H.
      destruct (IH _ _ _ _ _ _ _ _ H H1) as [A B].
      change (exec (S (S n)) s b (PAcq l k)) with (exec (S n) s b k).
      change (fp (S (S n)) s b (PAcq l k)) with (fp (S n) s b k).
      change (fp (S n) s b (PAcq l k)) with (fp n s b k). auto.
    + change (exec (S n) s b (PRead x k)) with (exec n s b (k (rd s b x))) in H.
      destruct (IH _ _ _ _ _ _ _ _ H H1) as [A B].
      change (exec (S (S n)) s b (PRead x k)) with (exec (S n) s b (k (rd s b x))).
      change (fp (S (S n)) s b (PRead x k)) with (x :: fp (S n) s b (k (rd s b x))).
      change (fp (S n) s b (PRead x k)) with (x :: fp n s b (k (rd s b x))). rewrite B. auto.
    + change (exec (S n) s b (PWrite x v k)) with (exec n s ((x,v)::b) k) in H.
      destruct (IH _ _ _ _ _ _ _ _ H H1) as [A B].
      change (exec (S (S n)) s b (PWrite x v k)) with (exec (S n) s ((x,v)::b) k).
      change (fp (S (S n)) s b (PWrite x v k)) with (x :: fp (S n) s ((x,v)::b) k).
      change (fp (S n) s b (PWrite x v k)) with (x :: fp n s ((x,v)::b) k). rewrite B. auto.
Qed.

(* buffer locations are in the footprint *)
Lemma buf_in_fp n : forall s b p b' p', exec n s b p = Some (b',p') ->
  forall x v, In (x,v) b' -> In (x,v) b \/ In x (fp n s b p).
Proof.
  induction n as [|n IH]; intros s b p b' p' H x v Hin; simpl in *.
  - injection H as <- <-. auto.
  - destruct p as [l k|y k|y w k|r|r]; try discriminate.
    + eauto.
    + destruct (IH _ _ _ _ _ H _ _ Hin); auto. right. now right.
    + destruct (IH _ _ _ _ _ H _ _ Hin) as [[E|?]|?]; auto.
      * injection E as <- <-. right. now left.
      * right. now right.
Qed.

(* ---------------- the concurrent system ---------------- *)
Record thread := { p0 : prog; nst : nat; cur : prog; tb : buf; held : list nat; fin : option nat }.
Record state := { sto : store; thr : list thread; order : list (prog * nat) }.

Definition active (t:thread) := fin t = None.
Definition all_held (ts:list thread) := flat_map held ts.

Inductive step : state -> state -> Prop :=
| st_acq s pre t post l k :
    active t -> cur t = PAcq l k -> ~ In l (all_held (pre ++ t :: post)) ->
    thr s = pre ++ t :: post ->
    step s {| sto := sto s; order := order s;
              thr := pre ++ {| p0 := p0 t; nst := S (nst t); cur := k; tb := tb t; held := l :: held t; fin := None |} :: post |}
| st_read s pre t post x k :
    active t -> cur t = PRead x k -> In (guard x) (held t) ->
    thr s = pre ++ t :: post ->
    step s {| sto := sto s; order := order s;
              thr := pre ++ {| p0 := p0 t; nst := S (nst t); cur := k (rd (sto s) (tb t) x); tb := tb t; held := held t; fin := None |} :: post |}
| st_write s pre t post x v k :
    active t -> cur t = PWrite x v k -> In (guard x) (held t) ->
    thr s = pre ++ t :: post ->
    step s {| sto := sto s; order := order s;
              thr := pre ++ {| p0 := p0 t; nst := S (nst t); cur := k; tb := (x,v) :: tb t; held := held t; fin := None |} :: post |}
| st_commit s pre t post r :
    active t -> cur t = PCommit r ->
    thr s = pre ++ t :: post ->
    step s {| sto := apply (tb t) (sto s); order := order s ++ [(p0 t, r)];
              thr := pre ++ {| p0 := p0 t; nst := nst t; cur := cur t; tb := []; held := []; fin := Some r |} :: post |}
| st_abort s pre t post r :
    active t -> cur t = PAbort r ->
    thr s = pre ++ t :: post ->
    step s {| sto := sto s; order := order s ++ [(p0 t, r)];
              thr := pre ++ {| p0 := p0 t; nst := nst t; cur := cur t; tb := []; held := []; fin := Some r |} :: post |}.

(* serial execution of a list of (program, observed result) from s0 *)
Inductive serial (s0:store) : list (prog*nat) -> store -> Prop :=
| ser_nil : serial s0 [] s0
| ser_commit o s p b r : serial s0 o s -> run s [] p = OCommit b r -> serial s0 (o ++ [(p,r)]) (apply b s)
| ser_abort o s p r : serial s0 o s -> run s [] p = OAbort r -> serial s0 (o ++ [(p,r)]) s.

Definition tinv (s:store) (t:thread) : Prop :=
  active t ->
  exec (nst t) s [] (p0 t) = Some (tb t, cur t) /\
  forall x, In x (fp (nst t) s [] (p0 t)) -> In (guard x) (held t).

Definition fin_inv (t:thread) : Prop := fin t <> None -> held t = [].

Definition inv (s0:store) (s:state) : Prop :=
  serial s0 (order s) (sto s) /\ Forall (tinv (sto s)) (thr s) /\ NoDup (all_held (thr s)) /\ Forall fin_inv (thr s).

Lemma all_held_app a b : all_held (a ++ b) = all_held a ++ all_held b.
Proof. apply flat_map_app. Qed.

Lemma nodup_drop_mid (a b c : list nat) : NoDup (a ++ b ++ c) -> NoDup (a ++ c).
Proof. induction b as [|x b IH]; simpl; [auto|]. intros H. apply IH. now apply NoDup_remove_1 in H. Qed.

(* a thread other than t cannot hold a lock t holds *)
Lemma disjoint_held pre t post u l :
  NoDup (all_held (pre ++ t :: post)) -> In u (pre ++ post) -> In l (held t) -> In l (held u) -> False.
Proof.
  rewrite all_held_app. simpl. intros ND Hu Ht Hl.
  apply in_app_or in Hu as [Hu|Hu].
  - assert (In l (all_held pre)) by (apply in_flat_map; eauto).
    apply in_split in H as (a & b & E). rewrite E in ND. rewrite <- app_assoc in ND. simpl in ND.
    apply NoDup_remove_2 in ND. apply ND. apply in_or_app. right. apply in_or_app. right. apply in_or_app. left. assumption.
  - assert (In l (all_held post)) by (apply in_flat_map; eauto).
    apply in_split in Ht as (a & b & E). rewrite E in ND.
    replace (all_held pre ++ (a ++ l :: b) ++ all_held post) with ((all_held pre ++ a) ++ l :: (b ++ all_held post)) in ND
      by (rewrite <- !app_assoc; reflexivity).
    apply NoDup_remove_2 in ND. apply ND. apply in_or_app. right. apply in_or_app. now right.
Qed.

Lemma blookup_none b x : (forall v, ~ In (x,v) b) -> blookup b x = None.
Proof.
  induction b as [|[y w] b IH]; simpl; [auto|]. intros H. destruct (Nat.eqb_spec y x) as [->|N].
  - exfalso. apply (H w). now left.
  - apply IH. intros v Hv. apply (H v). now right.
Qed.

(* committing t's buffer does not disturb any other active thread's view *)
Lemma other_stable s pre t post u :
  NoDup (all_held (pre ++ t :: post)) -> tinv s t -> active t -> In u (pre ++ post) -> tinv s u ->
  tinv (apply (tb t) s) u.
Proof.
  intros ND Ht At Hu Hinv Au. destruct (Hinv Au) as [He Hf]. destruct (Ht At) as [Het Hft].
  assert (Hag: forall x, In x (fp (nst u) s [] (p0 u)) -> apply (tb t) s x = s x).
  { intros x Hx. unfold apply, rd. rewrite blookup_none; [reflexivity|].
    intros v Hv. destruct (buf_in_fp _ _ _ _ _ _ Het _ _ Hv) as [[]|Hxt].
    eapply disjoint_held; [exact ND|exact Hu|apply Hft, Hxt|apply Hf, Hx]. }
  destruct (agree _ _ _ _ _ Hag) as [A B]. rewrite A, B. auto.
Qed.

Lemma forall_mid {A} (P:A->Prop) pre t post : Forall P (pre ++ t :: post) -> Forall P pre /\ P t /\ Forall P post.
Proof. intros H. apply Forall_app in H as [H1 H2]. inversion H2; subst. auto. Qed.
Lemma forall_mid' {A} (P:A->Prop) pre t post : Forall P pre -> P t -> Forall P post -> Forall P (pre ++ t :: post).
Proof. intros. apply Forall_app. split; auto. Qed.

Lemma inv_step s0 s s' : inv s0 s -> step s s' -> inv s0 s'.
Proof.
  intros (Hser & Hth & ND & Hfin) Hs.
  destruct Hs as [s pre t post l k At Ec Hfree Eth | s pre t post x k At Ec Hg Eth
                 | s pre t post x v k At Ec Hg Eth | s pre t post r At Ec Eth | s pre t post r At Ec Eth];
    rewrite Eth in *; destruct (forall_mid _ _ _ _ Hth) as (Hpre & Ht & Hpost);
    destruct (forall_mid _ _ _ _ Hfin) as (Fpre & Ft & Fpost); unfold inv; simpl.
  - (* acquire *)
    split; [assumption|]. split; [|split].
    + apply forall_mid'; auto. intros _. cbn [p0 nst cur tb held fin]. destruct (Ht At) as [He Hf]. rewrite Ec in He.
      destruct (exec_snoc _ _ _ _ _ _ _ _ _ He eq_refl) as [A B]. rewrite A, B, app_nil_r. split; [reflexivity|].
      intros y Hy. right. now apply Hf.
    + rewrite all_held_app in *. simpl in *. apply NoDup_Add with (a:=l) (l:=all_held pre ++ held t ++ all_held post); [apply Add_app|split; assumption].
    + apply forall_mid'; auto. intros C. now elim C.
  - (* read *)
    split; [assumption|]. split; [|split].
    + apply forall_mid'; auto. intros _. cbn [p0 nst cur tb held fin]. destruct (Ht At) as [He Hf]. rewrite Ec in He.
      destruct (exec_snoc _ _ _ _ _ _ _ _ _ He eq_refl) as [A B]. rewrite A, B. split; [reflexivity|].
      intros y Hy. apply in_app_or in Hy as [Hy|[<-|[]]]; auto.
    + rewrite all_held_app in *. simpl in *. assumption.
    + apply forall_mid'; auto. intros C. now elim C.
  - (* write *)
    split; [assumption|]. split; [|split].
    + apply forall_mid'; auto. intros _. cbn [p0 nst cur tb held fin]. destruct (Ht At) as [He Hf]. rewrite Ec in He.
      destruct (exec_snoc _ _ _ _ _ _ _ _ _ He eq_refl) as [A B]. rewrite A, B. split; [reflexivity|].
      intros y Hy. apply in_app_or in Hy as [Hy|[<-|[]]]; auto.
    + rewrite all_held_app in *. simpl in *. assumption.
    + apply forall_mid'; auto. intros C. now elim C.
  - (* commit *)
    destruct (Ht At) as [He Hf]. rewrite Ec in He.
    split; [|split; [|split]].
    + apply ser_commit; [assumption|]. rewrite (run_exec _ _ _ _ _ _ He). reflexivity.
    + apply forall_mid'.
      * rewrite Forall_forall in *. intros u Hu. eapply other_stable; eauto. apply in_or_app. now left.
      * intros C. discriminate C.
      * rewrite Forall_forall in *. intros u Hu. eapply other_stable; eauto. apply in_or_app. now right.
    + rewrite all_held_app in *. simpl in *. eapply nodup_drop_mid; eassumption.
    + apply forall_mid'; auto. intros _. reflexivity.
  - (* abort *)
    destruct (Ht At) as [He Hf]. rewrite Ec in He.
    split; [|split; [|split]].
    + apply ser_abort; [assumption|]. rewrite (run_exec _ _ _ _ _ _ He). reflexivity.
    + apply forall_mid'; auto. intros C. discriminate C.
    + rewrite all_held_app in *. simpl in *. eapply nodup_drop_mid; eassumption.
    + apply forall_mid'; auto. intros _. reflexivity.
Qed.

Inductive reach : state -> state -> Prop :=
| r_refl s : reach s s
| r_step s s' s'' : reach s s' -> step s' s'' -> reach s s''.

Definition init (s0:store) (ps:list prog) : state :=
  {| sto := s0; order := [];
     thr := map (fun p => {| p0 := p; nst := 0; cur := p; tb := []; held := []; fin := None |}) ps |}.

Lemma inv_init s0 ps : inv s0 (init s0 ps).
Proof.
  unfold inv, init; simpl. split; [constructor|]. split; [|split].
  - apply Forall_forall. intros t Ht. apply in_map_iff in Ht as (p & <- & _). intros _. simpl. split; [reflexivity|intros ? []].
  - induction ps; simpl; [constructor|assumption].
  - apply Forall_forall. intros t Ht. apply in_map_iff in Ht as (p & <- & _). intros _. reflexivity.
Qed.

(* Main theorem: whatever the interleaving, the store is the one obtained by
   running the finished transactions one at a time, in the order of their
   commit/abort steps, and each returned the value it returns in that serial run. *)
Theorem two_phase_serializable s0 ps s :
  reach (init s0 ps) s -> serial s0 (order s) (sto s).
Proof.
  intros Hr. assert (inv s0 s) as H; [|apply H].
  remember (init s0 ps) as i eqn:Ei.
  induction Hr as [a|a b c _ IH Hs]; [subst; apply inv_init|]. eapply inv_step; eauto.
Qed.
End TwoPL.
Print Assumptions two_phase_serializable.
