From Coq Require Import List Arith NArith Lia Bool.
Import ListNotations.

Section Paging.
Variable entry : Type.
(* The size accounting of one call is abstract: a budget state, what an entry charges, and when the reply is full.
   READDIR (dir.ApplyEnts) and READDIRPLUS (dir.Apply) are the two instances below the section. *)
Variable budget : Type.
Variable charge : budget -> entry -> budget.
Variable full : budget -> bool.
Definition slot := option entry.
Definition dir := list slot.

(* scan = body of ApplyEnts with the corrected cookie (cookie = index of the next slot) *)
Fixpoint scan (l:dir) (base:nat) (b:budget) : list (nat*entry) * bool * nat :=
  match l with
  | [] => ([], true, base)
  | None :: r => scan r (S base) b
  | Some e :: r =>
      let b' := charge b e in
      if full b' then ([(base,e)], false, S base)
      else let '(es, eof, nx) := scan r (S base) b' in ((base,e)::es, eof, nx)
  end.
Definition page (d:dir) (cookie:nat) (b0:budget) := scan (skipn cookie d) cookie b0.

(* occupied slots of l, indexed from base *)
Fixpoint occ (l:dir) (base:nat) : list (nat*entry) :=
  match l with [] => [] | None :: r => occ r (S base) | Some e :: r => (base,e) :: occ r (S base) end.

Lemma occ_app a b base : occ (a ++ b) base = occ a base ++ occ b (base + length a).
Proof.
  revert base. induction a as [|[e|] a IH]; intros base; simpl.
  - now rewrite Nat.add_0_r.
  - rewrite IH. f_equal. f_equal. f_equal. lia.
  - rewrite IH. f_equal. f_equal. lia.
Qed.

Lemma scan_spec l : forall base b es eof nx,
  scan l base b = (es, eof, nx) ->
  base <= nx <= base + length l /\
  es = occ (firstn (nx - base) l) base /\
  (eof = true -> nx = base + length l) /\
  (eof = false -> base < nx /\ es <> []).
Proof.
  induction l as [|[e|] l IH]; intros base b es eof nx H; simpl in H.
  - injection H as <- <- <-. rewrite Nat.sub_diag. simpl.
    split; [lia|]. split; [reflexivity|]. split; [lia|discriminate].
  - destruct (full (charge b e)).
    + injection H as <- <- <-. replace (S base - base) with 1 by lia. simpl.
      split; [lia|]. split; [reflexivity|]. split; [discriminate|]. intros _. split; [lia|discriminate].
    + destruct (scan l (S base) (charge b e)) as [[es' eof'] nx'] eqn:E. injection H as <- <- <-.
      destruct (IH _ _ _ _ _ E) as (A & B & C & D).
      replace (nx' - base) with (S (nx' - S base)) by lia. simpl. rewrite <- B.
      split; [lia|]. split; [reflexivity|]. split.
      * intros He. specialize (C He). lia.
      * intros _. split; [lia|discriminate].
  - destruct (IH _ _ _ _ _ H) as (A & B & C & D).
    replace (nx - base) with (S (nx - S base)) by lia. simpl.
    split; [lia|]. split; [exact B|]. split.
    + intros He. specialize (C He). lia.
    + intros He. destruct (D He). split; [lia|assumption].
Qed.

Lemma page_spec d c b0 es eof nx : c <= length d ->
  page d c b0 = (es, eof, nx) ->
  c <= nx <= length d /\
  es = occ (firstn (nx - c) (skipn c d)) c /\
  (eof = true -> nx = length d) /\ (eof = false -> c < nx /\ es <> []).
Proof.
  intros Hc H. unfold page in H. apply scan_spec in H as (A & B & C & D).
  rewrite skipn_length in *.
  split; [lia|]. split; [exact B|]. split; [|exact D].
  intros He. specialize (C He). lia.
Qed.

(* indices reported by occ lie in [base, base+len) and carry the slot's content *)
Lemma occ_in l : forall base i e, In (i,e) (occ l base) <-> (base <= i /\ nth_error l (i - base) = Some (Some e)).
Proof.
  induction l as [|[x|] l IH]; intros base i e; simpl.
  - split; [intros []|]. intros [_ H]. destruct (i - base); discriminate.
  - rewrite IH. split.
    + intros [[= <- <-]|[H1 H2]].
      * split; [lia|]. now rewrite Nat.sub_diag.
      * split; [lia|]. replace (i - base) with (S (i - S base)) by lia. exact H2.
    + intros [H1 H2]. destruct (Nat.eq_dec i base) as [->|N].
      * rewrite Nat.sub_diag in H2. simpl in H2. injection H2 as ->. now left.
      * right. split; [lia|]. replace (i - base) with (S (i - S base)) in H2 by lia. exact H2.
  - rewrite IH. split.
    + intros [H1 H2]. split; [lia|]. replace (i - base) with (S (i - S base)) by lia. exact H2.
    + intros [H1 H2]. destruct (Nat.eq_dec i base) as [->|N].
      * rewrite Nat.sub_diag in H2. discriminate.
      * split; [lia|]. replace (i - base) with (S (i - S base)) in H2 by lia. exact H2.
Qed.

Lemma nth_error_firstn' {A} n : forall (l:list A) k, k < n -> nth_error (firstn n l) k = nth_error l k.
Proof. induction n as [|n IH]; intros l k Hk; [lia|]. destruct l; [now destruct k|]. destruct k; [reflexivity|]. simpl. apply IH. lia. Qed.
Lemma nth_error_skipn' {A} c : forall (l:list A) k, nth_error (skipn c l) k = nth_error l (c + k).
Proof. induction c as [|c IH]; intros l k; [reflexivity|]. destruct l; [now destruct k|]. simpl. apply IH. Qed.

(* what one page returns, in terms of the directory it was read from *)
Lemma page_in d c b0 es eof nx i e : c <= length d ->
  page d c b0 = (es, eof, nx) ->
  (In (i,e) es <-> c <= i < nx /\ nth_error d i = Some (Some e)).
Proof.
  intros Hc H. destruct (page_spec _ _ _ _ _ _ Hc H) as (A & -> & _ & _).
  rewrite occ_in. split.
  - intros [H1 H2].
    assert (Hlt: i - c < length (firstn (nx - c) (skipn c d))) by (apply nth_error_Some; rewrite H2; discriminate).
    rewrite firstn_length, skipn_length in Hlt.
    rewrite nth_error_firstn' in H2 by lia. rewrite nth_error_skipn' in H2.
    replace (c + (i - c)) with i in H2 by lia. split; [lia|exact H2].
  - intros [[H1 H2] H3]. split; [lia|].
    rewrite nth_error_firstn' by lia. rewrite nth_error_skipn'. replace (c + (i - c)) with i by lia. exact H3.
Qed.

(* ---- the client loop over a changing directory ---- *)
(* ds k = directory contents when the k-th call is served; counts k = its size limit *)
Variable ds : nat -> dir.
Variable counts : nat -> budget.        (* the limits of the k-th call, as its initial budget *)
Hypothesis grow : forall k, length (ds k) <= length (ds (S k)).   (* directories never shrink *)

(* run at most `fuel` calls from call number k and cookie c; returns the pages and whether eof was seen *)
Fixpoint enum (fuel k c:nat) : list (list (nat*entry)) * bool :=
  match fuel with O => ([], false) | S f =>
    let '(es, eof, nx) := page (ds k) c (counts k) in
    if eof then ([es], true) else let '(ps, fin) := enum f (S k) nx in (es :: ps, fin) end.

Lemma len_mono k j : length (ds k) <= length (ds (k + j)).
Proof. induction j; [now rewrite Nat.add_0_r|]. rewrite Nat.add_succ_r. etransitivity; [exact IHj|apply grow]. Qed.

(* Termination: if the directory never exceeds M slots, M+1-c calls suffice. *)
Lemma enum_terminates M : (forall k, length (ds k) <= M) ->
  forall fuel k c, c <= length (ds k) -> M + 1 - c <= fuel -> snd (enum fuel k c) = true.
Proof.
  intros HM. induction fuel as [|f IH]; intros k c Hc Hf; [specialize (HM k); lia|].
  simpl. destruct (page (ds k) c (counts k)) as [[es eof] nx] eqn:E.
  destruct (page_spec _ _ _ _ _ _ Hc E) as (A & _ & C & D).
  destruct eof; [reflexivity|]. destruct (D eq_refl) as [Hlt _].
  destruct (enum f (S k) nx) as [ps fin] eqn:E2. simpl.
  change fin with (snd (ps, fin)). rewrite <- E2. apply IH; [pose proof (grow k); lia| lia].
Qed.

(* Completeness and no duplicates: an entry that sits in slot i during the whole
   enumeration is returned by exactly one call, exactly once. *)
Definition count_idx (i:nat) (es:list (nat*entry)) : nat := length (filter (fun p => Nat.eqb (fst p) i) es).

Lemma occ_count_below l : forall base i, i < base -> count_idx i (occ l base) = 0.
Proof.
  induction l as [|[x|] l IH]; intros base i Hi; simpl; [reflexivity| |apply IH; lia].
  unfold count_idx in *. simpl. destruct (Nat.eqb_spec base i); [lia|]. apply IH. lia.
Qed.

Lemma occ_count l : forall base i, count_idx i (occ l base) <= 1.
Proof.
  induction l as [|[x|] l IH]; intros base i; simpl; [unfold count_idx; simpl; lia| |apply IH].
  unfold count_idx in *. simpl. destruct (Nat.eqb_spec base i) as [->|N].
  - simpl. fold (count_idx i (occ l (S i))). rewrite occ_count_below by lia. lia.
  - apply IH.
Qed.

Theorem enum_exactly_once : forall fuel k c i e,
  c <= length (ds k) -> c <= i ->
  (forall j, nth_error (ds (k + j)) i = Some (Some e)) ->       (* present throughout, never moves *)
  snd (enum fuel k c) = true ->
  count_idx i (concat (fst (enum fuel k c))) = 1 /\ In (i,e) (concat (fst (enum fuel k c))).
Proof.
  induction fuel as [|f IH]; intros k c i e Hc Hi Hpres Hfin; [discriminate|].
  simpl in *. destruct (page (ds k) c (counts k)) as [[es eof] nx] eqn:E.
  destruct (page_spec _ _ _ _ _ _ Hc E) as (A & Es & C & D).
  assert (Hk: nth_error (ds k) i = Some (Some e)) by (specialize (Hpres 0); now rewrite Nat.add_0_r in Hpres).
  assert (Hil: i < length (ds k)) by (apply nth_error_Some; rewrite Hk; discriminate).
  destruct eof.
  - (* last page: covers [c, length) *)
    simpl. rewrite app_nil_r. specialize (C eq_refl).
    assert (Hin: In (i,e) es) by (apply (page_in _ _ _ _ _ _ _ _ Hc E); split; [lia|exact Hk]).
    split; [|exact Hin].
    assert (count_idx i es <= 1) by (rewrite Es; apply occ_count).
    assert (count_idx i es >= 1).
    { unfold count_idx. apply in_split in Hin as (a & b & ->). rewrite filter_app. simpl. rewrite Nat.eqb_refl. rewrite app_length. simpl. lia. }
    lia.
  - destruct (D eq_refl) as [Hlt Hne].
    destruct (enum f (S k) nx) as [ps fin] eqn:E2. simpl in *.
    assert (Hnx: nx <= length (ds (S k))) by (pose proof (grow k); lia).
    assert (Hpres': forall j, nth_error (ds (S k + j)) i = Some (Some e)).
    { intros j. specialize (Hpres (S j)). now rewrite Nat.add_succ_r in Hpres. }
    unfold count_idx in *. rewrite filter_app, app_length.
    destruct (le_lt_dec nx i) as [Hge|Hlt'].
    + (* not in this page; in the rest exactly once *)
      assert (Hrest := IH (S k) nx i e Hnx Hge Hpres').
      rewrite E2 in Hrest. simpl in Hrest. destruct (Hrest Hfin) as [R1 R2].
      assert (length (filter (fun p => Nat.eqb (fst p) i) es) = 0).
      { destruct (filter _ es) as [|[i' e'] r] eqn:F; [reflexivity|].
        assert (In (i',e') (filter (fun p => Nat.eqb (fst p) i) es)) by (rewrite F; now left).
        apply filter_In in H as [H1 H2]. simpl in H2. apply Nat.eqb_eq in H2. subst i'.
        apply (page_in _ _ _ _ _ _ _ _ Hc E) in H1. lia. }
      split; [lia|]. apply in_or_app. now right.
    + (* in this page; later pages start at nx > i, so never again *)
      assert (Hin: In (i,e) es) by (apply (page_in _ _ _ _ _ _ _ _ Hc E); split; [lia|exact Hk]).
      assert (H1: length (filter (fun p => Nat.eqb (fst p) i) es) = 1).
      { assert (count_idx i es <= 1) by (rewrite Es; apply occ_count). unfold count_idx in H.
        apply in_split in Hin as (a & b & ->). rewrite filter_app in *. simpl in *. rewrite Nat.eqb_refl in *. rewrite app_length in *. simpl in *. lia. }
      split; [|apply in_or_app; now left].
      assert (H0: length (filter (fun p => Nat.eqb (fst p) i) (concat ps)) = 0).
      { clear -E2 Hnx Hlt' grow. revert E2. revert k nx ps fin Hnx Hlt'.
        induction f as [|f IHf]; intros k nx ps fin Hnx Hlt' E2; simpl in E2; [now injection E2 as <- <-|].
        destruct (page (ds (S k)) nx (counts (S k))) as [[es' eof'] nx'] eqn:E'.
        destruct (page_spec _ _ _ _ _ _ Hnx E') as (A' & _ & C' & D').
        assert (Z: length (filter (fun p => Nat.eqb (fst p) i) es') = 0).
        { destruct (filter _ es') as [|[i' e'] r] eqn:F; [reflexivity|].
          assert (In (i',e') (filter (fun p => Nat.eqb (fst p) i) es')) by (rewrite F; now left).
          apply filter_In in H as [H1 H2]. simpl in H2. apply Nat.eqb_eq in H2. subst i'.
          apply (page_in _ _ _ _ _ _ _ _ Hnx E') in H1. lia. }
        destruct eof'.
        - injection E2 as <- <-. simpl. rewrite app_nil_r. exact Z.
        - destruct (enum f (S (S k)) nx') as [ps' fin'] eqn:E3. injection E2 as <- <-. simpl.
          rewrite filter_app, app_length, Z. simpl.
          destruct (D' eq_refl) as [Hlt'' _].
          apply (IHf (S k) nx' ps' fin'); [pose proof (grow (S k)); lia| lia | exact E3]. }
      lia.
Qed.
End Paging.
Print Assumptions enum_exactly_once.

(* ---- the two instances the server has ---- *)
(* READDIR, dir.ApplyEnts: one counter starting at 64, an entry charges cost e, full when count <= n. *)
Definition rd_budget : Type := (N * N)%type.                     (* (n, count) *)
Definition rd_charge {entry} (cost : entry -> N) (b : rd_budget) (e : entry) : rd_budget := (fst b + cost e, snd b)%N.
Definition rd_full (b : rd_budget) : bool := (snd b <=? fst b)%N.
Definition page_readdir {entry} (cost : entry -> N) (d : dir entry) (cookie : nat) (count : N) :=
  page entry rd_budget (rd_charge cost) rd_full d cookie (64, count)%N.

(* READDIRPLUS, dir.Apply: two counters (dirbytes from 0 charged dcost e, n from 64 charged pcost e);
   full when dirbytes >= dircount or n >= maxcount. *)
Definition rdp_budget : Type := ((N * N) * (N * N))%type.        (* ((dirbytes, n), (dircount, maxcount)) *)
Definition rdp_charge {entry} (dcost pcost : entry -> N) (b : rdp_budget) (e : entry) : rdp_budget :=
  ((fst (fst b) + dcost e, snd (fst b) + pcost e), snd b)%N.
Definition rdp_full (b : rdp_budget) : bool := ((fst (snd b) <=? fst (fst b)) || (snd (snd b) <=? snd (fst b)))%N.
Definition page_readdirplus {entry} (dcost pcost : entry -> N) (d : dir entry) (cookie : nat) (dircount maxcount : N) :=
  page entry rdp_budget (rdp_charge dcost pcost) rdp_full d cookie ((0, 64), (dircount, maxcount))%N.

(* ---- one enumeration may mix the two procedures: the limits of a call say which loop serves it ---- *)
Section Server.
Variable entry : Type.
Variable cost dcost pcost : entry -> N.
Inductive limits := Readdir (count : N) | Readdirplus (dircount maxcount : N).
Definition sv_budget : Type := (rd_budget + rdp_budget)%type.
Definition sv_charge (b : sv_budget) (e : entry) : sv_budget :=
  match b with inl x => inl (rd_charge cost x e) | inr y => inr (rdp_charge dcost pcost y e) end.
Definition sv_full (b : sv_budget) : bool := match b with inl x => rd_full x | inr y => rdp_full y end.
Definition sv_init (l : limits) : sv_budget :=
  match l with Readdir c => inl (64, c)%N | Readdirplus d m => inr ((0, 64), (d, m))%N end.
Definition sv_page (d : dir entry) (cookie : nat) (l : limits) := page entry sv_budget sv_charge sv_full d cookie (sv_init l).

Lemma sv_scan_readdir l : forall base x,
  scan entry sv_budget sv_charge sv_full l base (inl x) = scan entry rd_budget (rd_charge cost) rd_full l base x.
Proof.
  induction l as [|[e|] l IH]; intros base x; simpl; [reflexivity| |apply IH].
  destruct (rd_full (rd_charge cost x e)); [reflexivity|]. now rewrite IH.
Qed.
Lemma sv_scan_readdirplus l : forall base y,
  scan entry sv_budget sv_charge sv_full l base (inr y) = scan entry rdp_budget (rdp_charge dcost pcost) rdp_full l base y.
Proof.
  induction l as [|[e|] l IH]; intros base y; simpl; [reflexivity| |apply IH].
  destruct (rdp_full (rdp_charge dcost pcost y e)); [reflexivity|]. now rewrite IH.
Qed.
(* the page the mixed enumeration serves is the page of the procedure called *)
Lemma sv_page_readdir d c count : sv_page d c (Readdir count) = page_readdir cost d c count.
Proof. apply sv_scan_readdir. Qed.
Lemma sv_page_readdirplus d c dc mc : sv_page d c (Readdirplus dc mc) = page_readdirplus dcost pcost d c dc mc.
Proof. apply sv_scan_readdirplus. Qed.

(* the client loop with per-call procedure and limits *)
Definition sv_enum (ds : nat -> dir entry) (lims : nat -> limits) :=
  enum entry sv_budget sv_charge sv_full ds (fun k => sv_init (lims k)).
End Server.
