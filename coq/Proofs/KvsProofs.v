(* KM laws: a multi-put installs all of its pairs, later pairs of the same call win, other keys are
   untouched; a get returns the value of the latest put of that key. *)
From stdpp Require Import gmap list.
From Coq Require Import NArith.
From V Require Import Model.Lib Model.KvsModel.
Open Scope N_scope.

Lemma kput_app s a b : kput s (a ++ b) = kput (kput s a) b.
Proof. unfold kput. apply fold_left_app. Qed.

Lemma kput_other s pairs k : k ∉ pairs.*1 -> kget (kput s pairs) k = kget s k.
Proof.
  revert s. induction pairs as [|[k' v] ps IH]; intros s Hn; simpl; [reflexivity|].
  rewrite fmap_cons in Hn. apply not_elem_of_cons in Hn as [Hne Hn]. simpl in Hne.
  change (kget (kput (<[k':=v]> s) ps) k = kget s k). rewrite IH by exact Hn.
  unfold kget, kstate in *. rewrite (lookup_insert_ne s k' k v (not_eq_sym Hne)). reflexivity.
Qed.

(* the value read after a multi-put is that of the last pair for the key *)
Lemma kput_last s ps1 k v ps2 : k ∉ ps2.*1 -> kget (kput s (ps1 ++ (k, v) :: ps2)) k = v.
Proof.
  intros Hn. rewrite kput_app. change ((k, v) :: ps2) with ([(k, v)] ++ ps2). rewrite kput_app.
  rewrite kput_other by exact Hn. unfold kput, kget, kstate in *. simpl. rewrite (lookup_insert (kput s ps1) k v). reflexivity.
Qed.

(* history: the state after a sequence of multi-puts *)
Definition kruns (s : kstate) (puts : list (list (N * bytes))) : kstate := fold_left kput puts s.

Lemma kruns_app s a b : kruns s (a ++ b) = kruns (kruns s a) b.
Proof. unfold kruns. apply fold_left_app. Qed.

(* a get returns the latest put of that key: if the last call touching k is [ps1 ++ (k,v) :: ps2]
   (with k not in ps2) and no later call mentions k, the value is v *)
Theorem kvs_get_latest s before ps1 k v ps2 after :
  k ∉ ps2.*1 -> Forall (fun ps => k ∉ ps.*1) after ->
  kget (kruns s (before ++ (ps1 ++ (k, v) :: ps2) :: after)) k = v.
Proof.
  intros Hn Ha. rewrite kruns_app. simpl.
  change (kget (kruns (kput (kruns s before) (ps1 ++ (k, v) :: ps2)) after) k = v).
  assert (G : forall st, kget (kruns st after) k = kget st k).
  { clear -Ha. induction after as [|ps after IH]; intros st; simpl; [reflexivity|].
    inversion Ha as [|? ? H1 H2]; subst. change (kget (kruns (kput st ps) after) k = kget st k).
    rewrite IH by exact H2. apply kput_other. exact H1. }
  rewrite G. apply kput_last. exact Hn.
Qed.

(* all-or-nothing is the shape of the model: a multi-put is one state transition; together with the
   journal theorems (a crash recovers a prefix of the transactions) every crash state is kruns of a
   prefix of the calls. *)
Theorem kvs_prefix_states s puts k : kruns s (firstn k puts) = fold_left kput (firstn k puts) s.
Proof. reflexivity. Qed.
