(* Proofs about DM (Model/DirModel.v): the name cache stays coherent with the slots, the directory layer implements
   a finite map from names to inode numbers, and — what the enumeration theorems of Proofs/Paging.v assume —
   a directory never shrinks and an entry stays in its slot for as long as it exists. *)
From stdpp Require Import gmap.
From Coq Require Import NArith List Lia Arith.
From V Require Import Model.Lib Model.DirModel.
Import ListNotations.
Local Open Scope nat_scope.

Definition at_ (l : dslots) (k : nat) (e : name * N) : Prop := nth_error l k = Some (Some e).
Definition absent (l : dslots) (n : name) : Prop := forall i k, ~ at_ l k (n, i).
(* a name occupies at most one slot *)
Definition uniq (l : dslots) : Prop := forall k1 k2 n i1 i2, at_ l k1 (n, i1) -> at_ l k2 (n, i2) -> k1 = k2.

Record coh (st : dstate) : Prop := {
  coh_uniq : uniq (d_slots st);
  coh_cache : forall c, d_cache st = Some c ->
              forall n i k, dc_map c !! n = Some (i, k) <-> at_ (d_slots st) k (n, i) }.

(* consecutive states of one directory *)
Definition step_ok (a b : dslots) : Prop :=
  length a <= length b /\ forall k e, at_ a k e -> at_ b k e \/ forall j, ~ at_ b j e.

Lemma step_ok_refl l : step_ok l l.
Proof. split; [lia|]. intros k e H. now left. Qed.

Lemma at_lt l k e : at_ l k e -> k < length l.
Proof. intros H. apply nth_error_Some. unfold at_ in H. rewrite H. discriminate. Qed.

Lemma uniq_tail s r : uniq (s :: r) -> uniq r.
Proof. intros U k1 k2 n i1 i2 H1 H2. assert (S k1 = S k2) by (eapply U; [exact H1|exact H2]). lia. Qed.

(* ---- mkDcache ---- *)
Lemma cache_of_spec l : forall base m, uniq l ->
  forall n i k, cache_of l base m !! n = Some (i, k) <->
    (exists k', k = base + k' /\ at_ l k' (n, i)) \/ (m !! n = Some (i, k) /\ absent l n).
Proof.
  induction l as [|[[n0 i0]|] r IH]; intros base m U n i k; simpl.
  - split.
    + intros H. right. split; [exact H|]. intros i' k' H'. unfold at_ in H'. destruct k'; discriminate.
    + intros [(k' & _ & H')|[H _]]; [unfold at_ in H'; destruct k'; discriminate|exact H].
  - rewrite (IH (S base) _ (uniq_tail _ _ U)). split.
    + intros [(k' & -> & H')|[Hm Ha]].
      * left. exists (S k'). split; [lia|exact H'].
      * destruct (decide (n = n0)) as [->|Hne].
        -- rewrite lookup_insert in Hm. injection Hm as <- <-. left. exists 0. split; [lia|reflexivity].
        -- rewrite lookup_insert_ne in Hm by congruence. right. split; [exact Hm|].
           intros i' k' H'. destruct k' as [|k']; [unfold at_ in H'; simpl in H'; congruence|]. exact (Ha i' k' H').
    + intros [(k' & -> & H')|[Hm Ha]].
      * destruct k' as [|k'].
        -- unfold at_ in H'. simpl in H'. injection H' as -> ->. right. split.
           ++ rewrite lookup_insert. f_equal. f_equal. lia.
           ++ intros i' k' H'. assert (0 = S k') by (eapply (U 0 (S k') n i i'); [reflexivity|exact H']). discriminate.
        -- left. exists k'. split; [lia|exact H'].
      * assert (Hne : n <> n0). { intros ->. apply (Ha i0 0). reflexivity. }
        right. split; [rewrite lookup_insert_ne by congruence; exact Hm|].
        intros i' k' H'. exact (Ha i' (S k') H').
  - rewrite (IH (S base) _ (uniq_tail _ _ U)). split.
    + intros [(k' & -> & H')|[Hm Ha]].
      * left. exists (S k'). split; [lia|exact H'].
      * right. split; [exact Hm|]. intros i' k' H'. destruct k' as [|k']; [discriminate|]. exact (Ha i' k' H').
    + intros [(k' & -> & H')|[Hm Ha]].
      * destruct k' as [|k']; [discriminate|]. left. exists k'. split; [lia|exact H'].
      * right. split; [exact Hm|]. intros i' k' H'. exact (Ha i' (S k') H').
Qed.

Lemma ensure_coh st st' c : coh st -> ensure st = (st', c) ->
  coh st' /\ d_slots st' = d_slots st /\ d_cache st' = Some c.
Proof.
  intros [U C] E. unfold ensure in E. destruct (d_cache st) as [c0|] eqn:Ec.
  - injection E as <- <-. split; [|split; [reflexivity|exact Ec]]. split; [exact U|].
    intros c1 H1. apply C. rewrite <- Ec. exact H1.
  - injection E as <- <-. simpl. split; [|split; reflexivity]. split; [exact U|].
    simpl. intros c [= <-] n i k. unfold mk_dcache; simpl. rewrite (cache_of_spec _ 0 ∅ U). split.
    + intros [(k' & -> & H)|[H _]]; [exact H|]. rewrite lookup_empty in H. discriminate.
    + intros H. left. exists k. split; [reflexivity|exact H].
Qed.

(* ---- LookupName: the answer is what the slots say ---- *)
Theorem dm_lookup_spec st n st' r : coh st -> dm_lookup st n = (st', r) ->
  coh st' /\ d_slots st' = d_slots st /\
  (forall i k, r = Some (i, k) <-> at_ (d_slots st) k (n, i)).
Proof.
  intros H E. unfold dm_lookup in E. destruct (ensure st) as [st1 c] eqn:Een. injection E as <- <-.
  destruct (ensure_coh _ _ _ H Een) as (H1 & Hs & Hc). split; [exact H1|]. split; [exact Hs|].
  intros i k. rewrite <- Hs. apply (coh_cache _ H1 _ Hc).
Qed.
Corollary dm_lookup_none st n st' : coh st -> dm_lookup st n = (st', None) -> absent (d_slots st) n.
Proof.
  intros H E i k Ha. destruct (dm_lookup_spec _ _ _ _ H E) as (_ & _ & S). apply S in Ha. discriminate.
Qed.

(* ---- slots ---- *)
Lemma first_free_spec l : forall idx from k, first_free l idx from = Some k ->
  exists k', k = idx + k' /\ nth_error l k' = Some None.
Proof.
  induction l as [|[e|] r IH]; intros idx from k H; simpl in H; [discriminate| |].
  - destruct (IH _ _ _ H) as (k' & -> & H'). exists (S k'). split; [lia|exact H'].
  - destruct (from <=? idx).
    + injection H as <-. exists 0. split; [lia|reflexivity].
    + destruct (IH _ _ _ H) as (k' & -> & H'). exists (S k'). split; [lia|exact H'].
Qed.
Lemma add_slot_spec l last : add_slot l last = length l \/ nth_error l (add_slot l last) = Some None.
Proof.
  unfold add_slot. destruct (first_free l 0 last) as [[|k]|] eqn:E; auto.
  right. destruct (first_free_spec _ _ _ _ E) as (k' & -> & H). exact H.
Qed.

Lemma nth_upd_eq {A} (l : list A) : forall k x, k < length l -> nth_error (upd_nth l k x) k = Some x.
Proof. induction l as [|y r IH]; intros k x Hk; simpl in *; [lia|]. destruct k; [reflexivity|]. simpl. apply IH. lia. Qed.
Lemma nth_upd_ne {A} (l : list A) : forall k j x, j <> k -> nth_error (upd_nth l k x) j = nth_error l j.
Proof.
  induction l as [|y r IH]; intros k j x Hj; simpl; [reflexivity|].
  destruct k; destruct j; simpl; try reflexivity; try lia. apply IH. lia.
Qed.
Lemma upd_length {A} (l : list A) : forall k x, length (upd_nth l k x) = length l.
Proof. induction l as [|y r IH]; intros k x; simpl; [reflexivity|]. destruct k; simpl; [reflexivity|]. now rewrite IH. Qed.

(* writing an entry into a free slot or appending it *)
Lemma write_slot_at l off e : (off = length l \/ nth_error l off = Some None) ->
  forall k e', at_ (write_slot l off (Some e)) k e' <-> (k = off /\ e' = e) \/ at_ l k e'.
Proof.
  intros Hoff k e'. unfold write_slot. destruct (off <? length l) eqn:Hlt; [apply Nat.ltb_lt in Hlt|apply Nat.ltb_ge in Hlt; rename Hlt into Hge].
  - destruct Hoff as [->|Hfree]; [lia|]. unfold at_. destruct (Nat.eq_dec k off) as [->|Hne].
    + rewrite nth_upd_eq by exact Hlt. rewrite Hfree. split.
      * intros [= ->]. left. auto.
      * intros [[_ ->]|H]; [reflexivity|discriminate].
    + rewrite nth_upd_ne by exact Hne. split; [auto|]. intros [[-> _]|H]; [contradiction|exact H].
  - assert (off = length l) as ->.
    { destruct Hoff as [->|H]; [reflexivity|]. assert (off < length l) by (apply nth_error_Some; rewrite H; discriminate). lia. }
    unfold at_. destruct (lt_eq_lt_dec k (length l)) as [[Hk| ->]|Hk].
    + rewrite nth_error_app1 by exact Hk. split; [auto|]. intros [[-> _]|H]; [lia|exact H].
    + rewrite nth_error_app2 by lia. rewrite Nat.sub_diag. simpl. split.
      * intros [= ->]. left. auto.
      * intros [[_ ->]|H]; [reflexivity|]. apply at_lt in H. lia.
    + rewrite nth_error_app2 by lia. destruct (k - length l) as [|d] eqn:Ed; [lia|]. simpl. split.
      * destruct d; discriminate.
      * intros [[-> _]|H]; [lia|]. apply at_lt in H. lia.
Qed.
Lemma write_slot_length l off s : length l <= length (write_slot l off s).
Proof. unfold write_slot. destruct (off <? length l); cbv iota; [rewrite upd_length|rewrite app_length]; lia. Qed.

Lemma clear_slot_at l off e0 : at_ l off e0 ->
  forall k e', at_ (upd_nth l off None) k e' <-> (k <> off /\ at_ l k e').
Proof.
  intros H0 k e'. unfold at_. destruct (Nat.eq_dec k off) as [->|Hne].
  - rewrite nth_upd_eq by (eapply at_lt; exact H0). split; [discriminate|]. intros [H _]. contradiction.
  - rewrite nth_upd_ne by exact Hne. split; [auto|]. intros [_ H]. exact H.
Qed.

(* ---- AddName ---- *)
Theorem add_name_ok st i n room st' : coh st -> absent (d_slots st) n ->
  add_name st i n room = (st', true) ->
  coh st' /\ (lenN n <= DM_MAXNAMELEN)%N /\
  (exists k, at_ (d_slots st') k (n, i)) /\
  (forall k e, fst e <> n -> (at_ (d_slots st') k e <-> at_ (d_slots st) k e)) /\
  step_ok (d_slots st) (d_slots st').
Proof.
  intros H Habs E. unfold add_name in E.
  destruct (N.ltb_spec DM_MAXNAMELEN (lenN n)) as [Hlen|Hlen]; [discriminate|].
  destruct (ensure st) as [st1 c] eqn:Een. destruct (ensure_coh _ _ _ H Een) as (H1 & Hs & Hc).
  destruct ((length (d_slots st1) <=? add_slot (d_slots st1) (dc_last c)) && negb room); [discriminate|].
  injection E as <-. simpl. rewrite Hs in *.
  set (off := add_slot (d_slots st) (dc_last c)).
  pose proof (add_slot_spec (d_slots st) (dc_last c)) as Hoff. fold off in Hoff.
  pose proof (write_slot_at (d_slots st) off (n, i) Hoff) as W.
  assert (U' : uniq (write_slot (d_slots st) off (Some (n, i)))).
  { intros k1 k2 n' i1 i2 A1 A2. apply W in A1. apply W in A2.
    destruct A1 as [[-> E1]|A1]; destruct A2 as [[-> E2]|A2].
    - reflexivity.
    - injection E1 as -> ->. exfalso. exact (Habs _ _ A2).
    - injection E2 as -> ->. exfalso. exact (Habs _ _ A1).
    - eapply (coh_uniq _ H); eauto. }
  split; [|split; [exact Hlen|split; [|split]]].
  - split; [exact U'|]. simpl. intros c' [= <-] n' i' k. simpl. rewrite W.
    destruct (decide (n' = n)) as [->|Hne].
    + rewrite lookup_insert. split.
      * intros [= -> ->]. left. auto.
      * intros [[-> [= ->]]|A]; [reflexivity|]. exfalso. exact (Habs _ _ A).
    + rewrite lookup_insert_ne by congruence. rewrite (coh_cache _ H1 _ Hc). rewrite Hs. split; [auto|].
      intros [[_ [= Hn _]]|A]; [congruence|exact A].
  - exists off. apply W. left. auto.
  - intros k e Hne. rewrite W. split; [|auto]. intros [[_ ->]|A]; [simpl in Hne; congruence|exact A].
  - split; [apply write_slot_length|]. intros k e A. left. apply W. right. exact A.
Qed.

Theorem add_name_fail st i n room st' : coh st -> add_name st i n room = (st', false) ->
  coh st' /\ d_slots st' = d_slots st.
Proof.
  intros H E. unfold add_name in E. destruct (DM_MAXNAMELEN <? lenN n)%N; [injection E as <-; auto|].
  destruct (ensure st) as [st1 c] eqn:Een. destruct (ensure_coh _ _ _ H Een) as (H1 & Hs & Hc).
  destruct ((length (d_slots st1) <=? add_slot (d_slots st1) (dc_last c)) && negb room); [|discriminate].
  injection E as <-. auto.
Qed.
(* with room and a name within the limit AddName succeeds *)
Theorem add_name_succeeds st i n : (lenN n <= DM_MAXNAMELEN)%N -> snd (add_name st i n true) = true.
Proof.
  intros Hlen. unfold add_name. destruct (N.ltb_spec DM_MAXNAMELEN (lenN n)); [lia|].
  destruct (ensure st) as [st1 c]. rewrite andb_false_r. reflexivity.
Qed.

(* ---- RemName ---- *)
Theorem rem_name_ok st n st' : coh st -> rem_name st n = (st', true) ->
  coh st' /\ absent (d_slots st') n /\ ~ absent (d_slots st) n /\
  (forall k e, fst e <> n -> (at_ (d_slots st') k e <-> at_ (d_slots st) k e)) /\
  step_ok (d_slots st) (d_slots st').
Proof.
  intros H E. unfold rem_name in E. destruct (DM_MAXNAMELEN <? lenN n)%N; [discriminate|].
  destruct (ensure st) as [st1 c] eqn:Een. destruct (ensure_coh _ _ _ H Een) as (H1 & Hs & Hc).
  destruct (dc_map c !! n) as [[i off]|] eqn:El; [|discriminate]. injection E as <-. simpl. rewrite Hs in *.
  assert (A0 : at_ (d_slots st) off (n, i)). { rewrite <- Hs. apply (coh_cache _ H1 _ Hc). exact El. }
  pose proof (clear_slot_at _ _ _ A0) as W.
  assert (Hgone : absent (upd_nth (d_slots st) off None) n).
  { intros i' k A. apply W in A as [Hk A]. apply Hk. eapply (coh_uniq _ H); eauto. }
  split; [|split; [exact Hgone|split; [|split]]].
  - split.
    + intros k1 k2 n' i1 i2 A1 A2. apply W in A1 as [_ A1]. apply W in A2 as [_ A2]. eapply (coh_uniq _ H); eauto.
    + simpl. intros c' [= <-] n' i' k. simpl. rewrite W. destruct (decide (n' = n)) as [->|Hne].
      * rewrite lookup_delete. split; [discriminate|]. intros [Hk A]. exfalso. apply Hk. eapply (coh_uniq _ H); eauto.
      * rewrite lookup_delete_ne by congruence. rewrite (coh_cache _ H1 _ Hc), Hs. split.
        -- intros A. split; [|exact A]. intros ->. unfold at_ in A, A0. rewrite A0 in A. congruence.
        -- intros [_ A]. exact A.
  - intros Ha. exact (Ha _ _ A0).
  - intros k e Hne. rewrite W. split; [intros [_ A]; exact A|]. intros A. split; [|exact A].
    intros ->. unfold at_ in A, A0. rewrite A0 in A. injection A as <-. simpl in Hne. congruence.
  - split; [rewrite upd_length; lia|]. intros k e A. destruct (Nat.eq_dec k off) as [->|Hne].
    + right. unfold at_ in A, A0. rewrite A0 in A. injection A as <-. intros j. apply Hgone.
    + left. apply W. auto.
Qed.

Theorem rem_name_fail st n st' : coh st -> rem_name st n = (st', false) ->
  coh st' /\ d_slots st' = d_slots st /\ ((lenN n <= DM_MAXNAMELEN)%N -> absent (d_slots st) n).
Proof.
  intros H E. unfold rem_name in E. destruct (N.ltb_spec DM_MAXNAMELEN (lenN n)) as [Hl|Hl].
  - injection E as <-. split; [exact H|]. split; [reflexivity|]. lia.
  - destruct (ensure st) as [st1 c] eqn:Een. destruct (ensure_coh _ _ _ H Een) as (H1 & Hs & Hc).
    destruct (dc_map c !! n) as [[i off]|] eqn:El; [discriminate|]. injection E as <-.
    split; [exact H1|]. split; [exact Hs|]. intros _ i k A. rewrite <- Hs in A. apply (coh_cache _ H1 _ Hc) in A. congruence.
Qed.

Lemma drop_cache_coh st : coh st -> coh (drop_cache st).
Proof. intros [U C]. split; [exact U|]. simpl. intros c [=]. Qed.

(* ---- every history of directory operations ---- *)
(* the callers (nfs_ops.go) look a name up before adding it; a failed operation may also lose the cache (abort) *)
Inductive dop := DLookup (n : name) | DAdd (i : N) (n : name) (room : bool) | DRem (n : name) | DDrop.
Definition dstep (st : dstate) (o : dop) : dstate :=
  match o with
  | DLookup n => fst (dm_lookup st n)
  | DAdd i n room => fst (dm_addx st i n room)
  | DRem n => fst (rem_name st n)
  | DDrop => drop_cache st
  end.

Theorem dstep_ok st o : coh st -> coh (dstep st o) /\ step_ok (d_slots st) (d_slots (dstep st o)).
Proof.
  intros H. destruct o as [n|i n room|n|]; simpl.
  - destruct (dm_lookup st n) as [st' r] eqn:E. destruct (dm_lookup_spec _ _ _ _ H E) as (H' & Hs & _).
    simpl. rewrite Hs. split; [exact H'|apply step_ok_refl].
  - unfold dm_addx. destruct (dm_lookup st n) as [st1 r] eqn:E. destruct (dm_lookup_spec _ _ _ _ H E) as (H1 & Hs & Sp).
    destruct r as [[i' k']|].
    + simpl. rewrite Hs. split; [exact H1|apply step_ok_refl].
    + assert (Ha : absent (d_slots st1) n). { rewrite Hs. eapply dm_lookup_none; eauto. }
      destruct (add_name st1 i n room) as [st2 [|]] eqn:E2; simpl.
      * destruct (add_name_ok _ _ _ _ _ H1 Ha E2) as (H2 & _ & _ & _ & St). rewrite <- Hs. auto.
      * destruct (add_name_fail _ _ _ _ _ H1 E2) as (H2 & Hs2). rewrite Hs2, Hs. split; [exact H2|apply step_ok_refl].
  - destruct (rem_name st n) as [st' [|]] eqn:E; simpl.
    + destruct (rem_name_ok _ _ _ H E) as (H' & _ & _ & _ & St). auto.
    + destruct (rem_name_fail _ _ _ H E) as (H' & Hs & _). rewrite Hs. split; [exact H'|apply step_ok_refl].
  - split; [apply drop_cache_coh; exact H|apply step_ok_refl].
Qed.

Definition druns (st : dstate) (os : list dop) : dstate := fold_left dstep os st.
Theorem druns_coh os : forall st, coh st -> coh (druns st os).
Proof. induction os as [|o os IH]; intros st H; simpl; [exact H|]. apply IH. apply dstep_ok. exact H. Qed.

(* a freshly initialised directory: ".", ".." and no cache *)
Definition dir_init (self parent : N) : dstate := {| d_slots := [Some (dot, self); Some (dotdot, parent)]; d_cache := None |}.
Lemma dir_init_coh self parent : coh (dir_init self parent).
Proof.
  split; [|simpl; intros c [=]]. intros k1 k2 n i1 i2 A1 A2. unfold at_, dir_init in *. simpl in *.
  unfold dot, dotdot in *.
  destruct k1 as [|[|k1]]; simpl in A1; [| |destruct k1; discriminate];
    (destruct k2 as [|[|k2]]; simpl in A2; [| |destruct k2; discriminate]); try reflexivity; congruence.
Qed.

(* ---- an entry that keeps existing never moves (the hypothesis of Paging.enum_exactly_once) ---- *)
Theorem entry_never_moves (st : nat -> dslots) :
  (forall t, step_ok (st t) (st (S t))) ->
  forall t0 k e, at_ (st t0) k e -> (forall t, t0 <= t -> exists j, at_ (st t) j e) ->
  forall d, at_ (st (t0 + d)) k e.
Proof.
  intros St t0 k e A0 P d. induction d as [|d IH]; [now rewrite Nat.add_0_r|].
  rewrite Nat.add_succ_r. destruct (St (t0 + d)) as [_ Sk]. destruct (Sk _ _ IH) as [A|Ng]; [exact A|].
  destruct (P (S (t0 + d))) as [j Aj]; [lia|]. exfalso. exact (Ng _ Aj).
Qed.
Lemma steps_length_mono (st : nat -> dslots) : (forall t, step_ok (st t) (st (S t))) ->
  forall a b, a <= b -> length (st a) <= length (st b).
Proof.
  intros St a b Hab. induction Hab as [|b Hab IH]; [lia|]. destruct (St b) as [L _]. lia.
Qed.

(* ---- the executable form of step_ok, run on the implementation's directories ---- *)
Lemma slot_eqb_eq a b : slot_eqb a b = true <-> a = b.
Proof.
  destruct a as [n i], b as [n' i']. unfold slot_eqb, bytes_eqb. simpl. rewrite andb_true_iff, bool_decide_eq_true, N.eqb_eq.
  split; [intros [-> ->]; reflexivity|intros [= -> ->]; auto].
Qed.
Lemma has_entry_false l e : has_entry l e = false -> forall j, ~ at_ l j e.
Proof.
  intros Hf j A. unfold has_entry in Hf. assert (existsb (fun s => match s with Some e' => slot_eqb e e' | None => false end) l = true) as X.
  { apply existsb_exists. exists (Some e). split; [eapply nth_error_In; exact A|]. apply slot_eqb_eq. reflexivity. }
  rewrite X in Hf. discriminate.
Qed.
Lemma stays_spec a : forall b ball, stays a b ball = true ->
  forall k e, at_ a k e -> at_ b k e \/ forall j, ~ at_ ball j e.
Proof.
  induction a as [|[e0|] ra IH]; intros b ball H k e A.
  - unfold at_ in A. destruct k; discriminate.
  - simpl in H. apply andb_true_iff in H as [H1 H2]. destruct k as [|k].
    + unfold at_ in A. simpl in A. injection A as ->. destruct b as [|[e'|] rb].
      * right. apply has_entry_false. now apply negb_true_iff.
      * apply orb_true_iff in H1 as [H1|H1].
        -- left. apply slot_eqb_eq in H1. subst. reflexivity.
        -- right. apply has_entry_false. now apply negb_true_iff.
      * right. apply has_entry_false. now apply negb_true_iff.
    + destruct (IH _ _ H2 k e A) as [X|X]; [|right; exact X]. left. destruct b; [unfold at_ in X; destruct k; discriminate|exact X].
  - simpl in H. destruct k as [|k]; [discriminate|].
    destruct (IH _ _ H k e A) as [X|X]; [|right; exact X]. left. destruct b; [unfold at_ in X; destruct k; discriminate|exact X].
Qed.
Theorem step_ok_b_sound a b : step_ok_b a b = true -> step_ok a b.
Proof.
  unfold step_ok_b. intros H. apply andb_true_iff in H as [H1 H2]. split; [now apply Nat.leb_le|].
  intros k e A. exact (stays_spec _ _ _ H2 k e A).
Qed.

(* ---- DM under the paging theorems: the hypotheses of Paging.enum_exactly_once follow from per-step step_ok ---- *)
From V Require Proofs.Paging.
Theorem listed_once_from_dir_steps (cost dcost pcost : name * N -> N) (st : nat -> dslots) (tm : nat -> nat)
    (lims : nat -> Paging.limits) :
  (forall t, step_ok (st t) (st (S t))) ->          (* st t: the directory after t operations of any clients *)
  (forall k, tm k <= tm (S k)) ->                   (* tm k: when the k-th READDIR/READDIRPLUS of the enumeration is served *)
  forall fuel i e, at_ (st (tm 0)) i e ->
  (forall t, tm 0 <= t -> exists j, at_ (st t) j e) ->   (* the entry exists throughout *)
  snd (Paging.sv_enum (name * N) cost dcost pcost (fun k => st (tm k)) lims fuel 0 0) = true ->
  Paging.count_idx (name * N) i (concat (fst (Paging.sv_enum (name * N) cost dcost pcost (fun k => st (tm k)) lims fuel 0 0))) = 1 /\
  In (i, e) (concat (fst (Paging.sv_enum (name * N) cost dcost pcost (fun k => st (tm k)) lims fuel 0 0))).
Proof.
  intros St Tm fuel i e A0 P Fin.
  assert (Tm0 : forall j, tm 0 <= tm j). { induction j as [|j IH]; [lia|]. specialize (Tm j). lia. }
  unfold Paging.sv_enum in *. apply Paging.enum_exactly_once.
  - intros k. apply steps_length_mono; [exact St|apply Tm].
  - lia.
  - lia.
  - intros j. simpl. replace (tm j) with (tm 0 + (tm j - tm 0)) by (specialize (Tm0 j); lia).
    apply entry_never_moves; assumption.
  - exact Fin.
Qed.

(* ---- and complete: the executable check accepts every pair of states that satisfies step_ok, so it cannot raise
   an alarm on a directory history the theorems allow ---- *)
Lemma has_entry_true l e : (exists j, at_ l j e) -> has_entry l e = true.
Proof.
  intros [j A]. unfold has_entry. apply existsb_exists. exists (Some e). split; [eapply nth_error_In; exact A|].
  apply slot_eqb_eq. reflexivity.
Qed.
Lemma has_entry_false_iff l e : has_entry l e = false <-> forall j, ~ at_ l j e.
Proof.
  split; [apply has_entry_false|]. intros H. destruct (has_entry l e) eqn:E; [|reflexivity].
  unfold has_entry in E. apply existsb_exists in E as (s & Hin & Hs). destruct s as [e'|]; [|discriminate].
  apply slot_eqb_eq in Hs. subst e'. apply In_nth_error in Hin as [j Hj]. exfalso. exact (H j Hj).
Qed.
Lemma stays_complete a : forall b ball,
  (forall k e, at_ a k e -> at_ b k e \/ forall j, ~ at_ ball j e) -> stays a b ball = true.
Proof.
  induction a as [|[e0|] ra IH]; intros b ball H; simpl; [reflexivity| |].
  - apply andb_true_iff. split.
    + destruct (H 0 e0 eq_refl) as [A|N].
      * destruct b as [|[e'|] rb]; try (unfold at_ in A; simpl in A; discriminate).
        unfold at_ in A. simpl in A. injection A as ->. apply orb_true_iff. left. apply slot_eqb_eq. reflexivity.
      * assert (X : negb (has_entry ball e0) = true) by (apply negb_true_iff, has_entry_false_iff; exact N).
        destruct b as [|[e'|] rb]; [exact X| |exact X]. apply orb_true_iff. right. exact X.
    + apply IH. intros k e A. destruct (H (S k) e A) as [X|X]; [|right; exact X]. left.
      destruct b; [unfold at_ in X; simpl in X; discriminate|exact X].
  - apply IH. intros k e A. destruct (H (S k) e A) as [X|X]; [|right; exact X]. left.
    destruct b; [unfold at_ in X; simpl in X; discriminate|exact X].
Qed.
Theorem step_ok_b_complete a b : step_ok a b -> step_ok_b a b = true.
Proof.
  intros [L S]. unfold step_ok_b. apply andb_true_iff. split; [apply Nat.leb_le; exact L|apply stays_complete; exact S].
Qed.
